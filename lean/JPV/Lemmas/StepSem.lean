/-
StepSem — each kind of step, as the parser writes it (`Build.stepPre`), denotes the
specification's selection (`Spec.sel`) followed by the rest of the chain.
-/
import JPV.Lemmas.Assemble
import JPV.Lemmas.SpecLemmas
import JPV.Lemmas.CmpGlue
namespace JPV
namespace BD
open TSem Impl Build

/-- the written elements `sp` of one step denote `Spec.sel` of that step -/
def StepSem (env : Env) (root : Val) (s : Step) (sp : List Pre) : Prop :=
  (∀ p ∈ sp, PreGood p) ∧ sp.any preVg = Spec.isVgStep s ∧
  ∀ l : List (Pre × Info), l.map (·.1) = sp → ∀ (rest : List N) (cur : Val), cur.wf = true →
    den env (l.map nodeOf ++ rest) root cur = (Spec.sel env s root cur).flatMap (den env rest root)

/-- the written elements of a step list denote `Spec.evalSteps` -/
def StepsSem (env : Env) (root : Val) (steps : List Step) (sp : List Pre) : Prop :=
  (∀ p ∈ sp, PreGood p) ∧ sp.any preVg = steps.any Spec.isVgStep ∧
  ∀ l : List (Pre × Info), l.map (·.1) = sp → ∀ (rest : List N) (cur : Val), cur.wf = true →
    den env (l.map nodeOf ++ rest) root cur =
      (Spec.evalSteps env steps root [cur]).flatMap (den env rest root)

theorem single_pre {l : List (Pre × Info)} {p : Pre} (h : l.map (·.1) = [p]) : ∃ i, l = [(p, i)] := by
  obtain ⟨a, rfl, ha⟩ := List.map_eq_singleton_iff.mp h
  obtain ⟨p', i⟩ := a
  simp only at ha
  subst ha
  exact ⟨i, rfl⟩

/-- a step written as one node -/
theorem stepSem_single (env : Env) (root : Val) (s : Step) (t : String) (vg : Bool) (mk : Info → N)
    (hinfo : ∀ i, (mk i).info = i) (hvg : vg = Spec.isVgStep s)
    (hden : ∀ (i : Info) (rest : List N) (cur : Val), cur.wf = true →
      den env (mk i :: rest) root cur = (Spec.sel env s root cur).flatMap (den env rest root)) :
    StepSem env root s [.node t vg mk] := by
  refine ⟨?_, ?_, ?_⟩
  · intro p hp
    simp only [List.mem_singleton] at hp
    subst hp
    exact hinfo
  · simp [preVg, hvg]
  · intro l hl rest cur hw
    obtain ⟨i, rfl⟩ := single_pre hl
    exact hden i rest cur hw

variable (env : Env) (root : Val)

theorem step_child (t k : String) :
    StepSem env root (.child t k) [.node t false (fun i => .child i k)] := by
  apply stepSem_single env root _ _ _ _ (fun _ => rfl) rfl
  intro i rest cur _
  cases cur with
  | obj kvs =>
    simp only [den, Spec.sel]
    cases Val.lookup k kvs <;> simp
  | _ => simp only [den, Spec.sel, List.flatMap_nil]

theorem step_wild (t : String) :
    StepSem env root (.wild t) [.node t true (fun i => .wild i)] := by
  apply stepSem_single env root _ _ _ _ (fun _ => rfl) rfl
  intro i rest cur hw
  cases cur with
  | obj kvs =>
    simp only [den, Spec.sel, Val.members]
    rw [ValWf.sortKV_of_wf hw, List.flatMap_map]
  | _ => simp only [den, Spec.sel, Val.members, List.flatMap_nil]

theorem isWildName_eq (n : Name) : Build.isWildName n = Spec.isWildName n := by
  cases n <;> rfl

theorem all_isWildName_eq (ns : List Name) : ns.all Build.isWildName = ns.all Spec.isWildName := by
  induction ns with
  | nil => rfl
  | cons n ns ih => simp only [List.all_cons, ih, isWildName_eq]

/-- what one inner identifier of a multi-name node selects from an object -/
def midDen (env : Env) (rest : List N) (root : Val) (kvs : List (String × Val)) : MId → List Val
  | .key _ k => (match Val.lookup k kvs with
    | some v => den env rest root v
    | none => [])
  | .wild _ => (sortKV kvs).flatMap (fun kv => den env rest root kv.2)

theorem den_multi_obj (i : Info) (ids : List MId) (twin : Option Info) (rest : List N)
    (kvs : List (String × Val)) :
    den env (.multi i ids twin :: rest) root (.obj kvs) = ids.flatMap (midDen env rest root kvs) := by
  cases twin <;> simp only [den] <;>
    (apply flatMap_congr'; intro id _; cases id <;> rfl)

theorem step_multi (t : String) (ns : List Name) :
    StepSem env root (.multi t ns) [.node t true (fun i =>
      .multi i (ns.map (mid i)) (if ns.all Build.isWildName then some i else none))] := by
  apply stepSem_single env root _ _ _ _ (fun _ => rfl) rfl
  intro i rest cur hw
  rw [all_isWildName_eq]
  cases cur with
  | arr xs =>
    simp only [Spec.sel]
    by_cases hall : ns.all Spec.isWildName = true
    · simp only [hall, if_true, den, List.flatMap_map, List.flatMap_assoc]
    · simp only [hall, den]
      rfl
  | obj kvs =>
    rw [den_multi_obj]
    simp only [Spec.sel, List.flatMap_map, List.flatMap_assoc]
    apply flatMap_congr'
    intro n _
    cases n with
    | key k =>
      simp only [mid, midDen, Spec.selName]
      cases Val.lookup k kvs <;> simp
    | wild =>
      simp only [mid, midDen, Spec.selName]
      rw [ValWf.sortKV_of_wf hw, List.flatMap_map]
  | null => cases h : (if ns.all Spec.isWildName then some i else none) <;> simp [den, Spec.sel]
  | bool _ => cases h : (if ns.all Spec.isWildName then some i else none) <;> simp [den, Spec.sel]
  | num _ => cases h : (if ns.all Spec.isWildName then some i else none) <;> simp [den, Spec.sel]
  | jnum _ => cases h : (if ns.all Spec.isWildName then some i else none) <;> simp [den, Spec.sel]
  | str _ => cases h : (if ns.all Spec.isWildName then some i else none) <;> simp [den, Spec.sel]
  | opq _ _ => cases h : (if ns.all Spec.isWildName then some i else none) <;> simp [den, Spec.sel]

theorem subVg_eq (s : Sub) : subVg s = Spec.isVgSub s := by cases s <;> rfl

theorem step_union (t : String) (ss : List Sub) :
    StepSem env root (.union t ss)
      [.node t (match ss with | [s] => subVg s | _ => true) (fun i => .union i (ss.map subI))] := by
  apply stepSem_single env root _ _ _ _ (fun _ => rfl)
  · match ss with
    | [] => rfl
    | [s] => exact subVg_eq s
    | _ :: _ :: _ => rfl
  · intro i rest cur hw
    cases cur with
    | arr xs =>
      simp only [den, Spec.sel, List.flatMap_map, List.flatMap_assoc]
      apply flatMap_congr'
      intro s _
      rw [SubIdx.subIndexes_eq_spec, List.flatMap_map]
      apply flatMap_congr'
      intro n _
      have h1 : ¬ ((n : Int) < 0) := by omega
      simp only [h1, if_false, Int.toNat_natCast, Spec.atIdx]
      cases xs[n]? <;> simp
    | _ => simp only [den, Spec.sel, List.flatMap_nil]

theorem keepBy_eq_keep : ∀ (vs : List Val) (bs : List Bool), keepBy vs bs = Spec.keep vs bs
  | [], _ => by simp [keepBy, Spec.keep]
  | _ :: _, [] => by simp [keepBy, Spec.keep]
  | v :: vs, b :: bs => by
    simp only [keepBy, Spec.keep, keepBy_eq_keep vs bs]

theorem entries_eq_members (cur : Val) (hw : cur.wf = true) : entries cur = cur.members := by
  cases cur with
  | obj kvs => simp only [entries, Val.members]; rw [ValWf.sortKV_of_wf hw]
  | _ => simp only [entries, Val.members]

theorem members_nil_of_not_container (cur : Val) (h : cur.isContainer = false) : cur.members = [] := by
  cases cur <;> first | rfl | simp [Val.isContainer] at h

theorem step_filter (t : String) (q : Query) (tq : Q)
    (hq : ∀ ms, (∀ m ∈ ms, m.wf = true) → semQ env tq root ms = Spec.verdicts env q root ms) :
    StepSem env root (.filter t q) [.node t true (fun i => .filter i tq)] := by
  apply stepSem_single env root _ _ _ _ (fun _ => rfl) rfl
  intro i rest cur hw
  simp only [den, Spec.sel]
  rw [entries_eq_members cur hw, hq _ (ValWf.wf_members hw), keepBy_eq_keep]
  by_cases hc : cur.isContainer = true
  · rw [if_pos hc]
  · rw [if_neg hc]
    have : cur.members = [] := members_nil_of_not_container cur (by simpa using hc)
    rw [this]
    simp [Spec.keep]

/-- the two request flags of a `..` node, from the step that follows it -/
def descMr : Step → Bool
  | .union _ _ => false
  | _ => true

def descLr : Step → Bool
  | .child _ _ => false
  | _ => true

theorem desc_filter_nil (s : Step) (c : Val) (hc : c.isContainer = true)
    (hf : (if isObj c then descMr s else descLr s) = false) : Spec.sel env s root c = [] := by
  cases c with
  | obj kvs =>
    simp only [isObj, if_true] at hf
    cases s <;> simp [descMr] at hf
    simp only [Spec.sel]
  | arr xs =>
    simp only [isObj, Bool.false_eq_true, if_false] at hf
    cases s <;> simp [descLr] at hf
    simp only [Spec.sel]
  | _ => simp [Val.isContainer] at hc

theorem step_desc (s : Step) (inner : List Pre) (h : StepSem env root s inner) :
    StepSem env root (.desc s)
      (.node ".." true (fun i => .desc i (descMr s) (descLr s)) :: inner) := by
  obtain ⟨hg, _, hd⟩ := h
  refine ⟨?_, ?_, ?_⟩
  · intro p hp
    rcases List.mem_cons.mp hp with rfl | hp
    · intro i; rfl
    · exact hg p hp
  · simp [preVg, Spec.isVgStep]
  · intro l hl rest cur hw
    obtain ⟨a, l', rfl, ha, hl'⟩ := List.map_eq_cons_iff.mp hl
    obtain ⟨p, i⟩ := a
    simp only at ha
    subst ha
    simp only [List.map_cons, nodeOf, List.cons_append, den, Spec.sel, List.flatMap_assoc]
    rw [flatMap_filter_of_nil]
    · apply flatMap_congr'
      intro c hc
      exact hd l' hl' rest c (ValWf.wf_containers cur hw c hc)
    · intro c hc hf
      rw [hd l' hl' rest c (ValWf.wf_containers cur hw c hc),
        desc_filter_nil env root s c (ValWf.containers_isContainer cur c hc) hf]
      rfl

theorem steps_nil : StepsSem env root [] [] := by
  refine ⟨(by intro p hp; cases hp), rfl, ?_⟩
  intro l hl rest cur _
  have : l = [] := by simpa using hl
  subst this
  simp [Spec.evalSteps]

theorem steps_cons (s : Step) (ss : List Step) (a b : List Pre)
    (ha : StepSem env root s a) (hb : StepsSem env root ss b) :
    StepsSem env root (s :: ss) (a ++ b) := by
  obtain ⟨hga, hva, hda⟩ := ha
  obtain ⟨hgb, hvb, hdb⟩ := hb
  refine ⟨?_, ?_, ?_⟩
  · intro p hp
    rcases List.mem_append.mp hp with hp | hp
    · exact hga p hp
    · exact hgb p hp
  · simp only [List.any_append, List.any_cons, hva, hvb]
  · intro l hl rest cur hw
    obtain ⟨la, lb, rfl, hla, hlb⟩ := List.map_eq_append_iff.mp hl
    rw [List.map_append, List.append_assoc, hda la hla _ cur hw, evalSteps_cons_single,
      List.flatMap_assoc]
    apply flatMap_congr'
    intro v hv
    exact hdb lb hlb rest v (sel_wf env root s cur hw v hv)

/-! ### whole paths -/

def Path.head : Path → Head
  | .mk h _ _ => h

def startOf (h : Head) (root cur : Val) : Val :=
  match h with
  | .root => root
  | .cur => cur

/-- the built chain, started at the value its head names, denotes `Spec.evalPath`; and a chain
    that is not flagged as a value group yields at most one value -/
def PathSem (env : Env) (root : Val) (p : Path) (ch : List N) : Prop :=
  ∀ cur, cur.wf = true →
    den env ch root (startOf (Path.head p) root cur) = (Spec.evalPath env p root cur).getD [] ∧
    (chainVg ch = false → ((Spec.evalPath env p root cur).getD []).length ≤ 1)

def headPreOf : Head → Pre
  | .root => .node "$" false (fun i => .root i)
  | .cur => .node "@" false (fun i => .cur i)

theorem evalPath_eq (h : Head) (steps : List Step) (fns : List Fn) (cur : Val) :
    Spec.evalPath env (.mk h steps fns) root cur =
      Spec.applyFns env fns (!steps.any Spec.isVgStep) (Spec.evalSteps env steps root [startOf h root cur]) := by
  cases h <;> simp only [Spec.evalPath, startOf]

theorem path_glue (hr : root.wf = true) (cfg : Cfg) (top : Bool) (h : Head) (steps : List Step)
    (fns : List Fn) (sp : List Pre) (c : List N) (hs : StepsSem env root steps sp)
    (hb : assemble env (mkInfos cfg top (headPreOf h :: sp ++ fns.map fnPre)) [] = .ok c) :
    PathSem env root (.mk h steps fns) (finish c) := by
  obtain ⟨hg, hv, hd⟩ := hs
  have hfst := mkInfos_fst cfg top (headPreOf h :: sp ++ fns.map fnPre)
  have htag := mkInfos_tagged cfg top (headPreOf h :: sp ++ fns.map fnPre)
  generalize mkInfos cfg top (headPreOf h :: sp ++ fns.map fnPre) = L at hb hfst htag
  obtain ⟨a, L', rfl, ha, hL'⟩ := List.map_eq_cons_iff.mp hfst
  obtain ⟨lsp, lfn, rfl, hlsp, hlfn⟩ := List.map_eq_append_iff.mp hL'
  obtain ⟨hp, i0⟩ := a
  simp only at ha
  subst ha
  have hi0 : i0.vg = false := by
    have := (tagged_cons htag).1
    cases h <;> exact this
  have htl := tagged_append (tagged_cons htag).2
  have hgl : ∀ x ∈ lsp, PreGood x.1 := by
    intro x hx
    exact hg x.1 (by rw [← hlsp]; exact List.mem_map.mpr ⟨x, hx, rfl⟩)
  -- the chain after the steps
  have hb' : assemble env lfn (nodeOf (headPreOf h, i0) :: lsp.map nodeOf) = .ok c := by
    have e1 : assemble env ((headPreOf h, i0) :: (lsp ++ lfn)) [] =
        assemble env (lsp ++ lfn) [nodeOf (headPreOf h, i0)] := by
      cases h <;> rfl
    rw [e1, assemble_append, assemble_nodes env lsp hgl] at hb
    exact hb
  intro cur hw
  have hsw : (startOf h root cur).wf = true := by cases h <;> assumption
  have inv0 : Inv env root (startOf h root cur) (nodeOf (headPreOf h, i0) :: lsp.map nodeOf)
      (Spec.evalSteps env steps root [startOf h root cur]) (!steps.any Spec.isVgStep) := by
    refine ⟨by simp, ?_, ?_, ?_, ?_, ?_⟩
    · cases h <;> simp [headPreOf, nodeOf, headOK, startOf]
    · cases h <;> simpa [headPreOf, nodeOf, headVgFalse] using hi0
    · have e : den env (nodeOf (headPreOf h, i0) :: lsp.map nodeOf) root (startOf h root cur) =
          den env (lsp.map nodeOf ++ []) root (startOf h root cur) := by
        cases h <;> simp only [headPreOf, nodeOf, den, startOf, List.append_nil]
      rw [e, hd lsp hlsp [] _ hsw, den_nil_fun, flatMap_singleton_id]
    · have e : (nodeOf (headPreOf h, i0)).info.vg = false := by
        cases h <;> exact hi0
      rw [List.any_cons, e, Bool.false_or, nodes_any_vg lsp hgl htl.1, hlsp, hv, Bool.not_not]
    · intro hsg
      have : steps.any Spec.isVgStep = false := by simpa using hsg
      exact evalSteps_single env root steps this _ (by simp)
  obtain ⟨s', inv'⟩ := assemble_fns env root _ fns lfn _ _ _ c hlfn htl.2 inv0 hb'
  rw [← evalPath_eq] at inv'
  refine ⟨?_, ?_⟩
  · show den env (finish c) root (startOf h root cur) = _
    rw [den_finish env c root _ inv'.hok, inv'.hden]
  · intro hvg
    rw [chainVg_finish c inv'.hvg, inv'.hany] at hvg
    exact inv'.hlen (by simpa using hvg)

end BD
end JPV
