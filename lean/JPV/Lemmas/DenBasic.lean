/-
DenBasic — structural facts about the tree denotation `TSem.den`: it distributes over chain
concatenation, ignores the value-group flag of the head (`markVg`), and `deleteHead` only
moves the choice of the start value to the caller.
-/
import JPV.TSem
import JPV.Build
namespace JPV
namespace BD
open TSem Impl Build

theorem flatMap_congr' {α β : Type} {l : List α} {f g : α → List β} (h : ∀ x ∈ l, f x = g x) :
    l.flatMap f = l.flatMap g := by
  induction l with
  | nil => rfl
  | cons a l ih =>
    simp only [List.flatMap_cons]
    rw [h a List.mem_cons_self, ih (fun x hx => h x (List.mem_cons_of_mem _ hx))]

theorem den_append (env : Env) (root : Val) : ∀ (a b : List N) (cur : Val),
    den env (a ++ b) root cur = (den env a root cur).flatMap (den env b root) := by
  intro a
  induction a with
  | nil => intro b cur; simp [den]
  | cons n rest ih =>
    intro b cur
    cases n with
    | root i => simp only [List.cons_append, den]; exact ih b root
    | cur i => simp only [List.cons_append, den]; exact ih b cur
    | child i k =>
      simp only [List.cons_append, den]
      split
      · split
        · exact ih b _
        · rfl
      · rfl
    | wild i =>
      simp only [List.cons_append, den]
      split
      · simp only [List.flatMap_assoc, ih]
      · simp only [List.flatMap_assoc, ih]
      · rfl
    | multi i ids twin =>
      simp only [List.cons_append, den]
      split
      · simp only [List.flatMap_assoc, ih]
      · simp only [List.flatMap_assoc]
        apply flatMap_congr'
        intro id _
        cases id with
        | key _ k =>
          simp only
          split
          · exact ih b _
          · rfl
        | wild _ => simp only [List.flatMap_assoc, ih]
      · rfl
    | desc i mr lr =>
      simp only [List.cons_append, den, List.flatMap_assoc, ih]
    | union i subs =>
      simp only [List.cons_append, den]
      split
      · simp only [List.flatMap_assoc]
        apply flatMap_congr'
        intro s _
        apply flatMap_congr'
        intro ix _
        split
        · exact ih b _
        · rfl
      · rfl
    | filter i q =>
      simp only [List.cons_append, den, List.flatMap_assoc, ih]
    | ffn i name =>
      simp only [List.cons_append, den]
      split
      · split
        · exact ih b _
        · rfl
      · rfl
    | afn i name param =>
      simp only [List.cons_append, den]
      split
      · rfl
      · split
        · split
          · exact ih b _
          · rfl
        · rfl

theorem flatMap_filter_of_nil {α β : Type} {l : List α} {p : α → Bool} {f : α → List β}
    (h : ∀ x ∈ l, p x = false → f x = []) : (l.filter p).flatMap f = l.flatMap f := by
  induction l with
  | nil => rfl
  | cons a l ih =>
    have ih' := ih (fun x hx => h x (List.mem_cons_of_mem _ hx))
    by_cases hp : p a = true
    · rw [List.filter_cons_of_pos hp, List.flatMap_cons, List.flatMap_cons, ih']
    · have hp' : p a = false := by simpa using hp
      rw [List.filter_cons_of_neg hp, List.flatMap_cons, ih', h a List.mem_cons_self hp']
      rfl

theorem flatMap_singleton_id {α : Type} (l : List α) : l.flatMap (fun x => [x]) = l := by
  induction l with
  | nil => rfl
  | cons a l ih => simp only [List.flatMap_cons, ih]; rfl

theorem den_nil_fun (env : Env) (root : Val) : den env [] root = fun x => [x] := by
  funext x; simp only [den]

theorem setVg_info_vg (n : N) : n.setVg.info.vg = true := by
  cases n <;> rfl

theorem den_setVg (env : Env) (n : N) (rest : List N) (root cur : Val) :
    den env (n.setVg :: rest) root cur = den env (n :: rest) root cur := by
  cases n <;> simp only [N.setVg, den]

theorem den_markVg (env : Env) (ch : List N) (root cur : Val) :
    den env (markVg ch) root cur = den env ch root cur := by
  cases ch with
  | nil => rfl
  | cons n rest =>
    simp only [markVg]
    split
    · exact den_setVg env n rest root cur
    · rfl

theorem chainVg_markVg (ch : List N) : chainVg (markVg ch) = ch.any (fun x => x.info.vg) := by
  cases ch with
  | nil => rfl
  | cons n rest =>
    simp only [markVg]
    split
    · rename_i h; simp only [chainVg, setVg_info_vg]; exact h.symm
    · rename_i h
      simp only [chainVg]
      simp only [List.any_cons, Bool.or_eq_true, not_or, Bool.not_eq_true] at h
      simp only [List.any_cons, h.1, h.2, Bool.or_self]

/-- the start value agrees with what a `$` head would pick -/
def headOK (root start : Val) : List N → Prop
  | .root _ :: _ => start = root
  | _ => True

/-- `$` / `@` heads are not value groups -/
def headVgFalse : List N → Prop
  | .root i :: _ => i.vg = false
  | .cur i :: _ => i.vg = false
  | _ => True

theorem den_deleteHead (env : Env) (ch : List N) (root start : Val) (h : headOK root start ch) :
    den env (deleteHead ch) root start = den env ch root start := by
  match ch, h with
  | [], _ => rfl
  | .root _ :: [], _ => rfl
  | .root _ :: n :: rest, h =>
    simp only [headOK] at h
    simp only [deleteHead, den, h]
  | .cur _ :: [], _ => rfl
  | .cur _ :: n :: rest, _ => simp only [deleteHead, den]
  | .child _ _ :: _, _ => rfl
  | .wild _ :: _, _ => rfl
  | .multi _ _ _ :: _, _ => rfl
  | .desc _ _ _ :: _, _ => rfl
  | .union _ _ :: _, _ => rfl
  | .filter _ _ :: _, _ => rfl
  | .ffn _ _ :: _, _ => rfl
  | .afn _ _ _ :: _, _ => rfl

theorem any_deleteHead (ch : List N) (h : headVgFalse ch) :
    (deleteHead ch).any (fun x => x.info.vg) = ch.any (fun x => x.info.vg) := by
  match ch, h with
  | [], _ => rfl
  | .root _ :: [], _ => rfl
  | .root i :: n :: rest, h =>
    simp only [headVgFalse] at h
    simp only [deleteHead, List.any_cons, N.info, h, Bool.false_or]
  | .cur _ :: [], _ => rfl
  | .cur i :: n :: rest, h =>
    simp only [headVgFalse] at h
    simp only [deleteHead, List.any_cons, N.info, h, Bool.false_or]
  | .child _ _ :: _, _ => rfl
  | .wild _ :: _, _ => rfl
  | .multi _ _ _ :: _, _ => rfl
  | .desc _ _ _ :: _, _ => rfl
  | .union _ _ :: _, _ => rfl
  | .filter _ _ :: _, _ => rfl
  | .ffn _ _ :: _, _ => rfl
  | .afn _ _ _ :: _, _ => rfl

theorem den_finish (env : Env) (ch : List N) (root start : Val) (h : headOK root start ch) :
    den env (finish ch) root start = den env ch root start := by
  unfold finish
  rw [den_markVg, den_deleteHead env ch root start h]

theorem chainVg_finish (ch : List N) (h : headVgFalse ch) :
    chainVg (finish ch) = ch.any (fun x => x.info.vg) := by
  unfold finish
  rw [chainVg_markVg, any_deleteHead ch h]

end BD
end JPV
