/-
ActionTieRun — the dispatcher (`goAct` against `Peg.act`), one iteration of the loop of `Execute()` (`goStep`
against `Peg.step`), the whole loop (`goExec` against `Peg.execFrom`) and `Execute()` followed by the read of
`p.root` (against `Peg.exec`, the action phase of `parseModel`).
-/
import JPV.Lemmas.ActionTieA
import JPV.Lemmas.ActionTieD
import JPV.Lemmas.ActionTieE
import JPV.Lemmas.ActionTieF
import JPV.Lemmas.ActionTieLib
set_option linter.unusedVariables false
set_option linter.unusedSimpArgs false
namespace JPV
namespace ParserLayout
open JPV JPV.ParserNode JPV.ActionNode
open JPV.Gen.ParserHelpersGo JPV.Gen.ActionsGo

/-- the hypotheses on the shape of the stack (guaranteed by the grammar) of the three actions that need one -/
def actPre : Nat → Peg.St → Bool
  | 0 => pre0
  | 11 => pre11
  | 37 => pre37
  | _ => fun _ => true

/-- **the dispatcher**: the regenerated `switch token.pegRule` simulates `Peg.act`, for every rule number -/
theorem act_tie (k : Nat) (c : Peg.Ctx) (lib : Lib) (al : ALib) (g : PS) (L : LSt) (tb te fuel : Nat) (buffer : String)
    (hlib : LibRep lib c) (hal : ALibRep al c) (hrep : Rep c g L [])
    (hfuel : msizeSt (eraseSt L tb te) + 2 ≤ fuel) (hpre : actPre k (eraseSt L tb te) = true) :
    ASim c tb te (goAct fuel lib al (Peg.textOf c.input tb te) (tb : Int) buffer k g) (Peg.act c k (eraseSt L tb te)) :=
  match k with
  | 0 => act0_tie c lib al g L tb te fuel buffer hrep hfuel hpre
  | 1 => act1_tie c lib al g L tb te fuel buffer hrep
  | 2 => act2_tie c lib al g L tb te fuel buffer hrep hfuel
  | 3 => act3_tie c lib al g L tb te fuel buffer hrep
  | 4 => act4_tie c lib al g L tb te fuel buffer hrep
  | 5 => act5_tie c lib al g L tb te fuel buffer hrep
  | 6 => act6_tie c lib al g L tb te fuel buffer hrep
  | 7 => act7_tie c lib al g L tb te fuel buffer hrep
  | 8 => act8_tie c lib al g L tb te fuel buffer hrep
  | 9 => act9_tie c lib al g L tb te fuel buffer hrep
  | 10 => act10_tie c lib al g L tb te fuel buffer hal hrep
  | 11 => act11_tie c lib al g L tb te fuel buffer hrep hpre
  | 12 => act12_tie c lib al g L tb te fuel buffer hrep
  | 13 => act13_tie c lib al g L tb te fuel buffer hal hrep
  | 14 => act14_tie c lib al g L tb te fuel buffer hal hrep
  | 15 => act15_tie c lib al g L tb te fuel buffer hrep
  | 16 => act16_tie c lib al g L tb te fuel buffer hrep
  | 17 => act17_tie c lib al g L tb te fuel buffer hlib hrep
  | 18 => act18_tie c lib al g L tb te fuel buffer hrep
  | 19 => act19_tie c lib al g L tb te fuel buffer hrep
  | 20 => act20_tie c lib al g L tb te fuel buffer hlib hrep
  | 21 => act21_tie c lib al g L tb te fuel buffer hlib hrep
  | 22 => act22_tie c lib al g L tb te fuel buffer hrep
  | 23 => act23_tie c lib al g L tb te fuel buffer hrep
  | 24 => act24_tie c lib al g L tb te fuel buffer hrep
  | 25 => act25_tie c lib al g L tb te fuel buffer hrep
  | 26 => act26_tie c lib al g L tb te fuel buffer hrep
  | 27 => act27_tie c lib al g L tb te fuel buffer hrep
  | 28 => act28_tie c lib al g L tb te fuel buffer hal hrep
  | 29 => act29_tie c lib al g L tb te fuel buffer hal hrep
  | 30 => act30_tie c lib al g L tb te fuel buffer hal hrep
  | 31 => act31_tie c lib al g L tb te fuel buffer hal hrep
  | 32 => act32_tie c lib al g L tb te fuel buffer hal hrep
  | 33 => act33_tie c lib al g L tb te fuel buffer hal hrep
  | 34 => act34_tie c lib al g L tb te fuel buffer hlib hrep
  | 35 => act35_tie c lib al g L tb te fuel buffer hrep
  | 36 => act36_tie c lib al g L tb te fuel buffer hrep
  | 37 => act37_tie c lib al g L tb te fuel buffer hrep hpre
  | 38 => act38_tie c lib al g L tb te fuel buffer hrep
  | 39 => act39_tie c lib al g L tb te fuel buffer hrep hfuel
  | 40 => act40_tie c lib al g L tb te fuel buffer hlib hrep
  | 41 => act41_tie c lib al g L tb te fuel buffer hrep
  | 42 => act42_tie c lib al g L tb te fuel buffer hrep
  | 43 => act43_tie c lib al g L tb te fuel buffer hal hrep
  | 44 => act44_tie c lib al g L tb te fuel buffer hal hrep
  | 45 => act45_tie c lib al g L tb te fuel buffer hrep
  | n + 46 => ASim.ok ⟨g, L, rfl, hrep, rfl⟩

/-! ### one iteration, the loop -/

/-- the model's token as `Execute()` sees it -/
def gtok : Peg.Tok → GTok
  | .text b e => .pegText b e
  | .action i => .action i

/-- the locals of `Execute()` and the parser against the model's state -/
def XRel (c : Peg.Ctx) (s : ExecSt) (st : Peg.St) : Prop :=
  ∃ L, s.text = Peg.textOf c.input st.tb st.te ∧ s.begin = (st.tb : Int) ∧ Rep c s.p L [] ∧ eraseSt L st.tb st.te = st

def XSim (c : Peg.Ctx) (gen : AM ExecSt) (model : Peg.M Peg.St) : Prop :=
  match model with
  | .ok st' => ∃ s', gen = .ok s' ∧ XRel c s' st'
  | .error e => e = .unrepresentable ∨ ∃ e', gen = .error e' ∧ absAErr e' = some e

/-- what a step needs: enough fuel for the chains on the stacks, and the shape hypothesis of its action -/
def stepOK (fuel : Nat) (st : Peg.St) : Peg.Tok → Bool
  | .text _ _ => true
  | .action k => decide (msizeSt st + 2 ≤ fuel) && actPre k st

/-- … at every step of the model's run -/
def runOK (c : Peg.Ctx) (fuel : Nat) : Peg.St → List Peg.Tok → Bool
  | _, [] => true
  | st, t :: rest =>
    stepOK fuel st t &&
      (match Peg.step c st t with
        | .ok st' => runOK c fuel st' rest
        | .error _ => true)

theorem runeSlice_nat (buf : Array Char) (b e : Nat) : runeSlice buf (b : Int) (e : Int) = Peg.textOf buf b e := by
  simp only [runeSlice, Peg.textOf, Int.toNat_natCast]

theorem step_tie (c : Peg.Ctx) (lib : Lib) (al : ALib) (fuel : Nat) (buffer : String)
    (hlib : LibRep lib c) (hal : ALibRep al c) (s : ExecSt) (st : Peg.St) (t : Peg.Tok)
    (hrel : XRel c s st) (hok : stepOK fuel st t = true) :
    XSim c (goStep fuel lib al buffer c.input s (gtok t)) (Peg.step c st t) := by
  obtain ⟨L, htext, hbegin, hrep, hE⟩ := hrel
  cases t with
  | text b e =>
    refine ⟨_, rfl, L, ?_, rfl, hrep, ?_⟩
    · exact runeSlice_nat c.input b e
    · rw [← hE]; rfl
  | action k =>
    simp only [stepOK, Bool.and_eq_true, decide_eq_true_eq] at hok
    have h := act_tie k c lib al s.p L st.tb st.te fuel buffer hlib hal hrep (by rw [hE]; exact hok.1)
      (by rw [hE]; exact hok.2)
    rw [hE] at h
    simp only [goStep, gtok, Peg.step, htext, hbegin]
    cases hm : Peg.act c k st with
    | ok st' =>
      rw [hm] at h
      obtain ⟨g', L', he, hr, hE'⟩ := h
      rw [he]
      have htb : st'.tb = st.tb := by rw [← hE']; rfl
      have hte : st'.te = st.te := by rw [← hE']; rfl
      refine ⟨_, rfl, L', ?_, ?_, hr, ?_⟩
      · rw [htb, hte]
      · rw [htb]
      · rw [htb, hte]; exact hE'
    | error e =>
      rw [hm] at h
      rcases h with h | ⟨e', he, ha⟩
      · exact Or.inl h
      · rw [he]; exact Or.inr ⟨e', rfl, ha⟩

/-- **the loop of `Execute()`** simulates `Peg.execFrom` -/
theorem run_tie (c : Peg.Ctx) (lib : Lib) (al : ALib) (fuel : Nat) (buffer : String)
    (hlib : LibRep lib c) (hal : ALibRep al c) :
    ∀ (toks : List Peg.Tok) (s : ExecSt) (st : Peg.St), XRel c s st → runOK c fuel st toks = true →
      XSim c (goExec fuel lib al buffer c.input s (toks.map gtok)) (Peg.execFrom c st toks)
  | [], s, st, hrel, _ => ⟨s, rfl, hrel⟩
  | t :: rest, s, st, hrel, hok => by
    simp only [runOK, Bool.and_eq_true] at hok
    have h1 := step_tie c lib al fuel buffer hlib hal s st t hrel hok.1
    simp only [List.map_cons, goExec, Peg.execFrom]
    cases hm : Peg.step c st t with
    | ok st' =>
      rw [hm] at h1
      obtain ⟨s', he, hrel'⟩ := h1
      rw [he, ebind_ok, ebind_ok]
      have hok2 := hok.2
      rw [hm] at hok2
      exact run_tie c lib al fuel buffer hlib hal rest s' st' hrel' hok2
    | error e =>
      rw [hm] at h1
      rcases h1 with h | ⟨e', he, ha⟩
      · exact Or.inl h
      · rw [he]; exact Or.inr ⟨e', rfl, ha⟩

/-! ### the start state, `Execute()` and the read of `p.root` -/

/-- the parser `Parse` hands to `Execute()`: empty stacks, no root, the configuration copied -/
def initPS (c : Peg.Ctx) : PS :=
  { accessorMode := c.acc
    filterFunctions := fun n => (c.env.ffn n).map (fun _ => n)
    aggregateFunctions := fun n => (c.env.afn n).map (fun _ => n) }

theorem rep_init (c : Peg.Ctx) : Rep c (initPS c) {} [] :=
  { params := rfl, paramsList := rfl, root := rfl
    sat := fun x hx => by cases hx
    nodup := List.nodup_nil
    wfStack := fun x hx => by cases hx
    wfSaved := fun x hx => by cases hx
    acc := rfl
    ffn := fun _ => rfl
    afn := fun _ => rfl }

theorem xrel_init (c : Peg.Ctx) : XRel c { p := initPS c } {} :=
  ⟨{}, rfl, rfl, rep_init c, rfl⟩

/-- **`Execute()` and `root := parser.root`**: the action phase of `parseModel` (`Peg.exec`) is simulated by the
    run of the regenerated actions from the start state. -/
theorem exec_tie (c : Peg.Ctx) (lib : Lib) (al : ALib) (fuel : Nat) (buffer : String)
    (hlib : LibRep lib c) (hal : ALibRep al c) (toks : List Peg.Tok) (hok : runOK c fuel {} toks = true) :
    match Peg.exec c toks with
    | .ok T => ∃ s' L', goExec fuel lib al buffer c.input { p := initPS c } (toks.map gtok) = .ok s' ∧
        Rep c s'.p L' [] ∧ s'.p.root = headRef L'.root ∧ L'.root ≠ [] ∧ eraseCh L'.root = T
    | .error e => e = .unrepresentable ∨
        (e = .panic .nilRoot ∧ ∃ s', goExec fuel lib al buffer c.input { p := initPS c } (toks.map gtok) = .ok s' ∧
          s'.p.root = none) ∨
        ∃ e', goExec fuel lib al buffer c.input { p := initPS c } (toks.map gtok) = .error e' ∧ absAErr e' = some e := by
  have h := run_tie c lib al fuel buffer hlib hal toks _ _ (xrel_init c) hok
  unfold Peg.exec
  cases hm : Peg.execFrom c {} toks with
  | error e =>
    rw [hm] at h
    rcases h with h | h
    · exact Or.inl h
    · exact Or.inr (Or.inr h)
  | ok st =>
    rw [hm] at h
    obtain ⟨s', he, L', _, _, hr, hE⟩ := h
    simp only [ebind_ok]
    have hroot : st.root = match L'.root with | [] => none | n :: rest => some (eraseCh (n :: rest)) := by
      rw [← hE]; rfl
    cases hL : L'.root with
    | nil =>
      rw [hL] at hroot
      simp only [hroot]
      exact Or.inr (Or.inl ⟨by first | rfl | trivial, s', he, by rw [hr.root, hL]; rfl⟩)
    | cons n rest =>
      rw [hL] at hroot
      simp only [hroot, eraseCh_cons_ne]
      exact ⟨s', L', he, hr, hr.root, by rw [hL]; exact List.cons_ne_nil _ _, by rw [hL]; rfl⟩

/-! ### the fuel a run needs -/

/-- the shape hypotheses along the model's run -/
def runPre (c : Peg.Ctx) : Peg.St → List Peg.Tok → Bool
  | _, [] => true
  | st, t :: rest =>
    (match t with | .action k => actPre k st | .text _ _ => true) &&
      (match Peg.step c st t with
        | .ok st' => runPre c st' rest
        | .error _ => true)

/-- the largest number of nodes on the stacks before an action of the model's run, plus 2 -/
def runNeed (c : Peg.Ctx) : Peg.St → List Peg.Tok → Nat
  | _, [] => 0
  | st, t :: rest =>
    max (match t with | .action _ => msizeSt st + 2 | .text _ _ => 0)
      (match Peg.step c st t with
        | .ok st' => runNeed c st' rest
        | .error _ => 0)

theorem runOK_of (c : Peg.Ctx) (fuel : Nat) : ∀ (toks : List Peg.Tok) (st : Peg.St),
    runPre c st toks = true → runNeed c st toks ≤ fuel → runOK c fuel st toks = true
  | [], _, _, _ => rfl
  | t :: rest, st, hpre, hneed => by
    simp only [runPre, Bool.and_eq_true] at hpre
    simp only [runNeed] at hneed
    simp only [runOK, Bool.and_eq_true]
    constructor
    · cases t with
      | text b e => first | rfl | trivial
      | action k =>
        simp only [stepOK, Bool.and_eq_true, decide_eq_true_eq]
        exact ⟨by have := Nat.le_trans (Nat.le_max_left _ _) hneed; exact this, hpre.1⟩
    · cases hm : Peg.step c st t with
      | error e => first | rfl | trivial
      | ok st' =>
        have h2 := hpre.2
        rw [hm] at h2
        have h3 := Nat.le_trans (Nat.le_max_right _ _) hneed
        rw [hm] at h3
        exact runOK_of c fuel rest st' h2 h3

end ParserLayout
end JPV
