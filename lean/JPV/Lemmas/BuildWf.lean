/-
BuildWf — every tree `Build` produces is well formed in the sense of JPV/WF.lean:
functions are registered, comparison operands are single-valued chains, and the right operand
of a comparison is never an `@`-path. Same recursion as BuildDen.
-/
import JPV.WF
import JPV.Lemmas.BuildDen
namespace JPV
namespace BW
open TSem Impl Build BD

/-! ### chains as sets of nodes -/

theorem wfChain_iff (env : Env) (ch : List N) : wfChain env ch = true ↔ ∀ n ∈ ch, wfN env n = true := by
  induction ch with
  | nil => simp [wfChain]
  | cons n rest ih => simp [wfChain, ih]

theorem singleChain_iff (ch : List N) : singleChain ch = true ↔ ∀ n ∈ ch, singleNode n = true := by
  induction ch with
  | nil => simp [singleChain]
  | cons n rest ih => simp [singleChain, ih]

theorem wfN_setVg (env : Env) (n : N) : wfN env n.setVg = wfN env n := by
  cases n <;> simp [N.setVg, wfN]

theorem singleNode_setVg (n : N) : singleNode n.setVg = singleNode n := by
  cases n with
  | union i subs =>
    simp only [N.setVg]
    match subs with
    | [] => rfl
    | [s] => cases s <;> rfl
    | _ :: _ :: _ => simp only [singleNode]
  | _ => rfl

theorem wfChain_markVg (env : Env) (ch : List N) : wfChain env (markVg ch) = wfChain env ch := by
  cases ch with
  | nil => rfl
  | cons n rest =>
    simp only [markVg]
    split
    · simp only [wfChain, wfN_setVg]
    · rfl

theorem singleChain_markVg (ch : List N) : singleChain (markVg ch) = singleChain ch := by
  cases ch with
  | nil => rfl
  | cons n rest =>
    simp only [markVg]
    split
    · simp only [singleChain, singleNode_setVg]
    · rfl

theorem deleteHead_sub (ch : List N) : ∀ n ∈ deleteHead ch, n ∈ ch := by
  intro n hn
  match ch, hn with
  | [], hn => exact hn
  | .root _ :: [], hn => exact hn
  | .root _ :: _ :: _, hn => exact List.mem_cons_of_mem _ hn
  | .cur _ :: [], hn => exact hn
  | .cur _ :: _ :: _, hn => exact List.mem_cons_of_mem _ hn
  | .child _ _ :: _, hn => exact hn
  | .wild _ :: _, hn => exact hn
  | .multi _ _ _ :: _, hn => exact hn
  | .desc _ _ _ :: _, hn => exact hn
  | .union _ _ :: _, hn => exact hn
  | .filter _ _ :: _, hn => exact hn
  | .ffn _ _ :: _, hn => exact hn
  | .afn _ _ _ :: _, hn => exact hn

/-- what is known about a chain while it is assembled -/
def ChWf (env : Env) (ch : List N) : Prop :=
  wfChain env ch = true ∧ ∀ n ∈ ch, n.info.vg = false → singleNode n = true

theorem finish_wf (env : Env) (ch : List N) (h : wfChain env ch = true) : wfChain env (finish ch) = true := by
  unfold finish
  rw [wfChain_markVg, wfChain_iff]
  intro n hn
  exact (wfChain_iff env ch).mp h n (deleteHead_sub ch n hn)

theorem finish_single (ch : List N) (h : ∀ n ∈ ch, n.info.vg = false → singleNode n = true)
    (hvg : chainVg (finish ch) = false) : singleChain (finish ch) = true := by
  unfold finish at hvg ⊢
  rw [chainVg_markVg, List.any_eq_false] at hvg
  rw [singleChain_markVg, singleChain_iff]
  intro n hn
  exact h n (deleteHead_sub ch n hn) (by simpa using hvg n hn)

/-- the result of `buildPath` -/
def PathWf (env : Env) (ch : List N) : Prop :=
  wfChain env ch = true ∧ (chainVg ch = false → singleChain ch = true)

theorem ChWf.finish {env : Env} {ch : List N} (h : ChWf env ch) : PathWf env (finish ch) :=
  ⟨finish_wf env ch h.1, finish_single ch h.2⟩

/-! ### written elements -/

def WfPre (env : Env) : Pre → Prop
  | .node _ vg mk => (∀ i, (mk i).info = i) ∧ (∀ i, wfN env (mk i) = true) ∧
      (vg = false → ∀ i, singleNode (mk i) = true)
  | _ => True

theorem chwf_snoc {env : Env} {ch : List N} {n : N} (h : ChWf env ch) (hw : wfN env n = true)
    (hs : n.info.vg = false → singleNode n = true) : ChWf env (ch ++ [n]) := by
  refine ⟨?_, ?_⟩
  · rw [wfChain_iff]
    intro m hm
    rcases List.mem_append.mp hm with hm | hm
    · exact (wfChain_iff env ch).mp h.1 m hm
    · simp only [List.mem_singleton] at hm; subst hm; exact hw
  · intro m hm
    rcases List.mem_append.mp hm with hm | hm
    · exact h.2 m hm
    · simp only [List.mem_singleton] at hm; subst hm; exact hs

theorem assemble_wf (env : Env) (l : List (Pre × Info)) :
    ∀ ch c, (∀ x ∈ l, WfPre env x.1) → Tagged l → ChWf env ch → assemble env l ch = .ok c → ChWf env c := by
  induction l with
  | nil =>
    intro ch c _ _ hch ha
    simp only [assemble, Except.ok.injEq] at ha
    subst ha
    exact hch
  | cons x l ih =>
    intro ch c hl ht hch ha
    obtain ⟨p, i⟩ := x
    have hp := hl (p, i) List.mem_cons_self
    have hl' : ∀ x ∈ l, WfPre env x.1 := fun y hy => hl y (List.mem_cons_of_mem _ hy)
    have hti := (tagged_cons ht).1
    have ht' := (tagged_cons ht).2
    cases p with
    | node t vg mk =>
      simp only [assemble] at ha
      obtain ⟨h1, h2, h3⟩ := hp
      refine ih _ c hl' ht' (chwf_snoc hch (h2 i) ?_) ha
      intro hv
      rw [h1 i] at hv
      have : vg = false := by rw [← hv]; exact hti.symm
      exact h3 this i
    | ffn t name =>
      simp only [assemble] at ha
      cases hf : env.ffn name with
      | none => rw [hf] at ha; cases ha
      | some f =>
        rw [hf] at ha
        exact ih _ c hl' ht' (chwf_snoc hch (by simp [wfN, hf]) (fun _ => rfl)) ha
    | afn t name =>
      simp only [assemble] at ha
      cases hf : env.afn name with
      | none => rw [hf] at ha; cases ha
      | some f =>
        rw [hf] at ha
        refine ih _ c hl' ht' ⟨?_, ?_⟩ ha
        · simp [wfChain, wfN, hf, finish_wf env ch hch.1]
        · intro n hn _
          simp only [List.mem_singleton] at hn
          subst hn
          rfl

/-! ### steps -/

def StepsWf (env : Env) (sp : List Pre) : Prop := ∀ p ∈ sp, WfPre env p

theorem wfpre_single {env : Env} {t : String} {vg : Bool} {mk : Info → N}
    (h1 : ∀ i, (mk i).info = i) (h2 : ∀ i, wfN env (mk i) = true)
    (h3 : vg = false → ∀ i, singleNode (mk i) = true) : StepsWf env [.node t vg mk] := by
  intro p hp
  simp only [List.mem_singleton] at hp
  subst hp
  exact ⟨h1, h2, h3⟩

theorem union_single (ss : List Sub) (h : (match ss with | [s] => subVg s | _ => true) = false) (i : Info) :
    singleNode (.union i (ss.map subI)) = true := by
  match ss, h with
  | [.idx n], _ => rfl
  | [.slice _ _ _], h => simp [subVg] at h
  | [.wild], h => simp [subVg] at h
  | [], h => simp at h
  | _ :: _ :: _, h => simp at h

theorem path_wf_glue (env : Env) (cfg : Cfg) (top : Bool) (h : Head) (fns : List Fn) (sp : List Pre)
    (c : List N) (hs : StepsWf env sp)
    (hb : assemble env (mkInfos cfg top (headPreOf h :: sp ++ fns.map fnPre)) [] = .ok c) :
    PathWf env (finish c) := by
  have hfst := mkInfos_fst cfg top (headPreOf h :: sp ++ fns.map fnPre)
  have htag := mkInfos_tagged cfg top (headPreOf h :: sp ++ fns.map fnPre)
  generalize mkInfos cfg top (headPreOf h :: sp ++ fns.map fnPre) = L at hb hfst htag
  refine (assemble_wf env L [] c ?_ htag ⟨rfl, fun n hn => by cases hn⟩ hb).finish
  intro x hx
  have hx1 : x.1 ∈ headPreOf h :: sp ++ fns.map fnPre := by
    rw [← hfst]; exact List.mem_map.mpr ⟨x, hx, rfl⟩
  rcases List.mem_cons.mp hx1 with e | hx1
  · rw [e]
    cases h <;> exact ⟨fun _ => rfl, fun _ => rfl, fun _ _ => rfl⟩
  · rcases List.mem_append.mp hx1 with hx1 | hx1
    · exact hs _ hx1
    · obtain ⟨fn, _, e⟩ := List.mem_map.mp hx1
      rw [← e]
      cases fn <;> trivial

/-! ### operands and comparisons -/

def OpWf (env : Env) (tp : P) : Prop := wfP env tp = true ∧ singleP tp = true

theorem buildP_wf_glue (env : Env) (single : Bool) (p : Path) (ch : List N) (tp : P)
    (hp : PathWf env ch)
    (h : (if (single && chainVg ch) = true then Except.error ParseErr.valueGroupOperand else
            match Path.head p with
            | .root => Except.ok (P.proot ch)
            | .cur => .ok (.pcur ch)) = Except.ok tp) :
    wfP env tp = true ∧ (single = true → singleP tp = true) := by
  by_cases hc : (single && chainVg ch) = true
  · rw [if_pos hc] at h; cases h
  · rw [if_neg hc] at h
    have hs : single = true → singleChain ch = true := by
      intro hs
      exact hp.2 (by simpa [hs] using hc)
    cases hh : Path.head p <;> rw [hh] at h <;>
      (cases h; exact ⟨by simpa [wfP] using hp.1, by simpa [singleP] using hs⟩)

theorem wfQ_mkEq (env : Env) (tl tr : P) (hl : OpWf env tl) (hr : OpWf env tr)
    (hnc : (isCur tl && isCur tr) = false) : wfQ env (mkEq tl tr) = true := by
  obtain ⟨hl1, hl2⟩ := hl
  obtain ⟨hr1, hr2⟩ := hr
  cases tl <;> cases tr <;>
    simp_all [mkEq, rank, wfQ, isPcur, isCur]

theorem wfQ_mkOrd (env : Env) (op : CmpOp) (tl tr : P) (hl : OpWf env tl) (hr : OpWf env tr)
    (hnc : (isCur tl && isCur tr) = false) : wfQ env (mkOrd op tl tr) = true := by
  obtain ⟨hl1, hl2⟩ := hl
  obtain ⟨hr1, hr2⟩ := hr
  cases tl <;> cases tr <;>
    simp_all [mkOrd, rank, wfQ, isPcur, isCur]

theorem cmp_wf_glue (env : Env) (op : CmpOp) (tl tr : P) (tq : Q) (hl : OpWf env tl) (hr : OpWf env tr)
    (hq : (if (isCur tl && isCur tr) = true then Except.error ParseErr.twoCurrentNodes else
            match op with
            | .eq => Except.ok (mkEq tl tr)
            | .ne => .ok (.not (mkEq tl tr))
            | _ => .ok (mkOrd op tl tr)) = Except.ok tq) :
    wfQ env tq = true := by
  by_cases hc : (isCur tl && isCur tr) = true
  · rw [if_pos hc] at hq; cases hq
  · rw [if_neg hc] at hq
    have hnc : (isCur tl && isCur tr) = false := by simpa using hc
    cases op <;> cases hq <;>
      first
      | exact wfQ_mkEq env tl tr hl hr hnc
      | (simp only [wfQ]; exact wfQ_mkEq env tl tr hl hr hnc)
      | exact wfQ_mkOrd env _ tl tr hl hr hnc

/-! ### the mutual recursion -/

mutual
theorem step_wf (env : Env) (cfg : Cfg) :
    (s : Step) → (ps : List Pre) → stepPre env cfg s = .ok ps → StepsWf env ps
  | .child t k, ps, h => by
    rw [stepPre] at h; cases h
    exact wfpre_single (fun _ => rfl) (fun _ => rfl) (fun _ _ => rfl)
  | .wild t, ps, h => by
    rw [stepPre] at h; cases h
    exact wfpre_single (fun _ => rfl) (fun _ => rfl) (fun h => by cases h)
  | .multi t ns, ps, h => by
    rw [stepPre] at h; cases h
    exact wfpre_single (fun _ => rfl) (fun _ => by simp [wfN]) (fun h => by cases h)
  | .union t ss, ps, h => by
    rw [stepPre_union] at h; cases h
    exact wfpre_single (fun _ => rfl) (fun _ => by simp [wfN]) (fun h i => union_single ss h i)
  | .filter t q, ps, h => by
    rw [stepPre] at h
    obtain ⟨tq, hq, h2⟩ := bind_ok h
    cases h2
    have := query_wf env cfg q tq hq
    exact wfpre_single (fun _ => rfl) (fun _ => by simpa [wfN] using this) (fun h => by cases h)
  | .desc s, ps, h => by
    rw [stepPre_desc] at h
    obtain ⟨inner, hi, h2⟩ := bind_ok h
    cases h2
    intro p hp
    rcases List.mem_cons.mp hp with rfl | hp
    · exact ⟨fun _ => rfl, fun _ => by simp [wfN], fun h => by cases h⟩
    · exact step_wf env cfg s inner hi p hp

theorem steps_wf (env : Env) (cfg : Cfg) :
    (ss : List Step) → (ps : List Pre) → stepsPre env cfg ss = .ok ps → StepsWf env ps
  | [], ps, h => by
    rw [stepsPre] at h; cases h
    intro p hp; cases hp
  | s :: ss, ps, h => by
    rw [stepsPre] at h
    obtain ⟨a, ha, h2⟩ := bind_ok h
    obtain ⟨b, hb, h3⟩ := bind_ok h2
    cases h3
    intro p hp
    rcases List.mem_append.mp hp with hp | hp
    · exact step_wf env cfg s a ha p hp
    · exact steps_wf env cfg ss b hb p hp

theorem path_wf (env : Env) (cfg : Cfg) :
    (p : Path) → (top : Bool) → (ch : List N) → buildPath env cfg top p = .ok ch → PathWf env ch
  | .mk h steps fns, top, ch, hb => by
    rw [buildPath_eq] at hb
    obtain ⟨sp, hsp, h2⟩ := bind_ok hb
    obtain ⟨c, hc, h3⟩ := bind_ok h2
    cases h3
    exact path_wf_glue env cfg top h fns sp c (steps_wf env cfg steps sp hsp) hc

theorem operand_wf (env : Env) (cfg : Cfg) :
    (o : Operand) → (tp : P) → buildOperand env cfg o = .ok tp → OpWf env tp
  | .lit l, tp, h => by
    rw [buildOperand] at h
    cases h
    exact ⟨rfl, rfl⟩
  | .path p, tp, h => by
    rw [buildOperand, buildP_eq] at h
    obtain ⟨ch, hch, h2⟩ := bind_ok h
    have := buildP_wf_glue env true p ch tp (path_wf env cfg p false ch hch) h2
    exact ⟨this.1, this.2 rfl⟩

theorem query_wf (env : Env) (cfg : Cfg) :
    (q : Query) → (tq : Q) → buildQ env cfg q = .ok tq → wfQ env tq = true
  | .or a b, tq, h => by
    rw [buildQ] at h
    obtain ⟨ta, ha, h2⟩ := bind_ok h
    obtain ⟨tb, hb, h3⟩ := bind_ok h2
    cases h3
    simp only [wfQ, query_wf env cfg a ta ha, query_wf env cfg b tb hb, Bool.and_self]
  | .and a b, tq, h => by
    rw [buildQ] at h
    obtain ⟨ta, ha, h2⟩ := bind_ok h
    obtain ⟨tb, hb, h3⟩ := bind_ok h2
    cases h3
    simp only [wfQ, query_wf env cfg a ta ha, query_wf env cfg b tb hb, Bool.and_self]
  | .exist neg p, tq, h => by
    rw [buildQ, buildP_eq] at h
    obtain ⟨e, he, h2⟩ := bind_ok h
    cases h2
    obtain ⟨ch, hch, h3⟩ := bind_ok he
    have := (buildP_wf_glue env false p ch e (path_wf env cfg p false ch hch) h3).1
    cases neg <;> simpa [wfQ] using this
  | .cmp op l r, tq, h => by
    rw [buildQ] at h
    obtain ⟨tl, hl, h2⟩ := bind_ok h
    obtain ⟨tr, hr', h3⟩ := bind_ok h2
    exact cmp_wf_glue env op tl tr tq (operand_wf env cfg l tl hl) (operand_wf env cfg r tr hr') h3
  | .regex p re, tq, h => by
    rw [buildQ, buildP_eq] at h
    obtain ⟨tl, hl, h2⟩ := bind_ok h
    cases h2
    obtain ⟨ch, hch, h3⟩ := bind_ok hl
    have := buildP_wf_glue env true p ch tl (path_wf env cfg p false ch hch) h3
    have h2 := this.2 rfl
    simp only [wfQ]
    rw [this.1, h2]
    rfl
end

/-- **build_wf**: what `Build` guarantees and evaluation relies on -/
theorem build_wf (env : Env) (cfg : Cfg) (top : Bool) (p : Path) (ch : List N)
    (hb : buildPath env cfg top p = .ok ch) : wfChain env ch = true :=
  (path_wf env cfg p top ch hb).1

theorem buildQ_wf (env : Env) (cfg : Cfg) (q : Query) (tq : Q)
    (hb : buildQ env cfg q = .ok tq) : wfQ env tq = true :=
  query_wf env cfg q tq hb

end BW
end JPV
