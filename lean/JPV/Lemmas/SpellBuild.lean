/-
SpellBuild — the Build side of "every spelling parses to the same tree up to recorded texts":

  * `eraseTexts` on trees: `Info.text` and `Info.conn` (the two fields the library fills from the source
    text: `setLastNodeText`, `setConnectedText`) are blanked everywhere — in the chain, in the inner
    identifiers and the twin of multi-name nodes, in the parameter chains of aggregate functions, in the
    operand chains of filter queries;
  * `stripS`: an abstract path with the texts of its STEPS blanked (function texts kept: they are the
    payload of `ErrorFunctionNotFound`);
  * `build_stripS`: `Build.build` commutes with blanking the step texts, up to `eraseTexts`; errors are
    the same errors. Hence two abstract paths that differ only in step texts build trees that are equal up
    to recorded texts, or fail with the same error (`build_same`).
-/
import JPV.Lemmas.ParsePrintAssemble
import JPV.Lemmas.BuildDen
namespace JPV.SP
open JPV.Peg JPV.PP JPV.Build

/-! ### blanking the recorded texts of a tree -/

def eraseInfo (i : Info) : Info := { i with text := "", conn := "" }

def eraseMId : MId → MId
  | .key i k => .key (eraseInfo i) k
  | .wild i => .wild (eraseInfo i)

mutual
def eraseN : N → N
  | .root i => .root (eraseInfo i)
  | .cur i => .cur (eraseInfo i)
  | .child i k => .child (eraseInfo i) k
  | .wild i => .wild (eraseInfo i)
  | .multi i ids t => .multi (eraseInfo i) (ids.map eraseMId) (t.map eraseInfo)
  | .desc i a b => .desc (eraseInfo i) a b
  | .union i s => .union (eraseInfo i) s
  | .filter i q => .filter (eraseInfo i) (eraseQ q)
  | .ffn i n => .ffn (eraseInfo i) n
  | .afn i n p => .afn (eraseInfo i) n (eraseCh p)
def eraseCh : List N → List N
  | [] => []
  | n :: rest => eraseN n :: eraseCh rest
def eraseQ : Q → Q
  | .or a b => .or (eraseQ a) (eraseQ b)
  | .and a b => .and (eraseQ a) (eraseQ b)
  | .not a => .not (eraseQ a)
  | .cmp l r c => .cmp (eraseP l) (eraseP r) c
  | .exist p => .exist (eraseP p)
def eraseP : P → P
  | .lit v => .lit v
  | .proot ch => .proot (eraseCh ch)
  | .pcur ch => .pcur (eraseCh ch)
end

/-- the tree with every recorded text (`text`, `connectedText`) blanked -/
def eraseTexts (ch : List N) : List N := eraseCh ch

theorem eraseCh_append : ∀ (a b : List N), eraseCh (a ++ b) = eraseCh a ++ eraseCh b
  | [], b => by rw [List.nil_append, eraseCh, List.nil_append]
  | n :: a, b => by rw [List.cons_append, eraseCh, eraseCh, eraseCh_append a b, List.cons_append]

theorem eraseCh_single (n : N) : eraseCh [n] = [eraseN n] := by rw [eraseCh, eraseCh]

theorem eraseN_info (n : N) : (eraseN n).info = eraseInfo n.info := by
  cases n <;> (rw [eraseN]; rfl)

theorem eraseN_vg (n : N) : (eraseN n).info.vg = n.info.vg := by rw [eraseN_info]; rfl

theorem eraseN_setVg (n : N) : eraseN n.setVg = (eraseN n).setVg := by
  cases n <;> (simp only [N.setVg, eraseN]; rfl)

theorem eraseCh_any_vg : ∀ (l : List N), (eraseCh l).any (fun x => x.info.vg) = l.any (fun x => x.info.vg)
  | [] => by rw [eraseCh]
  | n :: rest => by rw [eraseCh, List.any_cons, List.any_cons, eraseN_vg, eraseCh_any_vg rest]

theorem eraseCh_markVg (l : List N) : eraseCh (Build.markVg l) = Build.markVg (eraseCh l) := by
  cases l with
  | nil => rw [Build.markVg, eraseCh, Build.markVg]
  | cons n rest =>
    have h := eraseCh_any_vg (n :: rest)
    rw [eraseCh] at h
    rw [Build.markVg]
    simp only [eraseCh, Build.markVg, h]
    split
    · rw [eraseCh, eraseN_setVg]
    · rw [eraseCh]

theorem eraseCh_deleteHead (l : List N) : eraseCh (deleteHead l) = deleteHead (eraseCh l) := by
  match l with
  | [] => rfl
  | [n] => cases n <;> simp [deleteHead, eraseCh, eraseN]
  | n :: m :: rest => cases n <;> simp [deleteHead, eraseCh, eraseN]

theorem eraseCh_finish (l : List N) : eraseCh (finish l) = finish (eraseCh l) := by
  rw [finish, finish, eraseCh_markVg, eraseCh_deleteHead]

theorem chainVg_erase (l : List N) : chainVg (eraseCh l) = chainVg l := by
  cases l with
  | nil => rw [eraseCh]
  | cons n rest => rw [eraseCh]; simp only [chainVg]; exact eraseN_vg n

/-! ### blanking the step texts of an abstract path -/

mutual
def stripSStep : Step → Step
  | .child _ k => .child "" k
  | .wild _ => .wild ""
  | .multi _ ns => .multi "" ns
  | .union _ ss => .union "" ss
  | .filter _ q => .filter "" (stripSQuery q)
  | .desc s => .desc (stripSStep s)
def stripSSteps : List Step → List Step
  | [] => []
  | s :: ss => stripSStep s :: stripSSteps ss
def stripSQuery : Query → Query
  | .or a b => .or (stripSQuery a) (stripSQuery b)
  | .and a b => .and (stripSQuery a) (stripSQuery b)
  | .exist n p => .exist n (stripSPath p)
  | .cmp op l r => .cmp op (stripSOperand l) (stripSOperand r)
  | .regex p re => .regex (stripSPath p) re
def stripSOperand : Operand → Operand
  | .lit l => .lit l
  | .path p => .path (stripSPath p)
def stripSPath : Path → Path
  | .mk h steps fns => .mk h (stripSSteps steps) fns
end

/-- the abstract path with the texts of its steps blanked; the function texts are kept -/
def stripS (p : Path) : Path := stripSPath p

/-! ### written elements that differ in recorded texts only -/

/-- two Infos that differ in the recorded texts only -/
def InfoRel (i j : Info) : Prop := eraseInfo i = eraseInfo j

theorem infoRel_iff (i j : Info) : InfoRel i j ↔ i.vg = j.vg ∧ i.acc = j.acc := by
  unfold InfoRel eraseInfo
  constructor
  · intro h
    have h1 := congrArg Info.vg h
    have h2 := congrArg Info.acc h
    exact ⟨h1, h2⟩
  · intro ⟨h1, h2⟩
    cases i; cases j
    simp_all

/-- two written elements that differ in the recorded text only -/
def PreRel : Pre → Pre → Prop
  | .node _ vg mk, .node _ vg' mk' => vg = vg' ∧ ∀ i j, InfoRel i j → eraseN (mk i) = eraseN (mk' j)
  | .ffn t n, .ffn t' n' => t = t' ∧ n = n'
  | .afn t n, .afn t' n' => t = t' ∧ n = n'
  | _, _ => False

def PresRel : List Pre → List Pre → Prop
  | [], [] => True
  | p :: ps, q :: qs => PreRel p q ∧ PresRel ps qs
  | _, _ => False

theorem PreRel.refl_fn (f : Fn) : PreRel (fnPre f) (fnPre f) := by
  cases f <;> exact ⟨rfl, rfl⟩

theorem presRel_fns : ∀ (fns : List Fn), PresRel (fns.map fnPre) (fns.map fnPre)
  | [] => trivial
  | f :: fs => ⟨PreRel.refl_fn f, presRel_fns fs⟩

theorem presRel_append : ∀ {a a' b b' : List Pre}, PresRel a a' → PresRel b b' → PresRel (a ++ b) (a' ++ b')
  | [], [], _, _, _, hb => hb
  | [], _ :: _, _, _, ha, _ => ha.elim
  | _ :: _, [], _, _, ha, _ => ha.elim
  | _ :: _, _ :: _, _, _, ha, hb => ⟨ha.1, presRel_append ha.2 hb⟩

theorem PreRel.isAfn {p q : Pre} (h : PreRel p q) : p.isAfn = q.isAfn := by
  cases p <;> cases q <;> first | rfl | exact h.elim

theorem PreRel.vg {p q : Pre} (h : PreRel p q) : preVg p = preVg q := by
  cases p <;> cases q <;> first | exact h.1 | rfl | exact h.elim

theorem presRel_noAfn : ∀ {ps qs : List Pre}, PresRel ps qs → noAfn ps = noAfn qs
  | [], [], _ => rfl
  | [], _ :: _, h => h.elim
  | _ :: _, [], h => h.elim
  | p :: ps, q :: qs, h => by
    rw [noAfn_cons, noAfn_cons, h.1.isAfn, presRel_noAfn h.2]

/-- the results of two runs of `Build` that differ in recorded texts only -/
def ChRel : Except ParseErr (List N) → Except ParseErr (List N) → Prop
  | .ok a, .ok b => eraseCh a = eraseCh b
  | .error e, .error e' => e = e'
  | _, _ => False

theorem assemble_rel (env : Env) (cfg : Cfg) (top : Bool) : ∀ (ps qs : List Pre) (A B : List N),
    PresRel ps qs → eraseCh A = eraseCh B →
    ChRel (assemble env (infosG cfg top ps) A) (assemble env (infosG cfg top qs) B)
  | [], [], A, B, _, hAB => by simp only [infosG, assemble]; exact hAB
  | [], _ :: _, _, _, h, _ => h.elim
  | _ :: _, [], _, _, h, _ => h.elim
  | p :: ps, q :: qs, A, B, h, hAB => by
    have hna := presRel_noAfn h.2
    have hvg := h.1.vg
    cases p with
    | node t vg mk =>
      cases q with
      | node t' vg' mk' =>
        simp only [infosG, assemble]
        apply assemble_rel env cfg top ps qs _ _ h.2
        rw [eraseCh_append, eraseCh_append, hAB, eraseCh_single, eraseCh_single]
        congr 2
        apply h.1.2
        rw [infoRel_iff]
        exact ⟨hvg, by simp only [hna]⟩
      | ffn _ _ => exact h.1.elim
      | afn _ _ => exact h.1.elim
    | ffn t n =>
      cases q with
      | node _ _ _ => exact h.1.elim
      | afn _ _ => exact h.1.elim
      | ffn t' n' =>
        obtain ⟨rfl, rfl⟩ := h.1
        simp only [infosG, assemble]
        cases env.ffn n with
        | none => rfl
        | some g =>
          simp only []
          apply assemble_rel env cfg top ps qs _ _ h.2
          rw [eraseCh_append, eraseCh_append, hAB, eraseCh_single, eraseCh_single]
          congr 2
          simp only [eraseN, eraseInfo, hna]
    | afn t n =>
      cases q with
      | node _ _ _ => exact h.1.elim
      | ffn _ _ => exact h.1.elim
      | afn t' n' =>
        obtain ⟨rfl, rfl⟩ := h.1
        simp only [infosG, assemble]
        cases env.afn n with
        | none => rfl
        | some g =>
          simp only []
          apply assemble_rel env cfg top ps qs _ _ h.2
          rw [eraseCh_single, eraseCh_single]
          congr 1
          simp only [eraseN, eraseInfo, hna, eraseCh_finish, hAB]

/-! ### `Build` on the stripped path -/

/-- the results of two runs of `stepPre`/`stepsPre` that differ in recorded texts only -/
def PresRes : Except ParseErr (List Pre) → Except ParseErr (List Pre) → Prop
  | .ok a, .ok b => PresRel a b
  | .error e, .error e' => e = e'
  | _, _ => False

def QRes : Except ParseErr Q → Except ParseErr Q → Prop
  | .ok a, .ok b => eraseQ a = eraseQ b
  | .error e, .error e' => e = e'
  | _, _ => False

def PRes : Except ParseErr P → Except ParseErr P → Prop
  | .ok a, .ok b => eraseP a = eraseP b
  | .error e, .error e' => e = e'
  | _, _ => False

theorem eraseMId_mid (i : Info) (n : Name) : eraseMId (mid i n) = mid (eraseInfo i) n := by
  cases n <;> rfl

theorem rank_erase (x : P) : Build.rank (eraseP x) = Build.rank x := by
  cases x <;> simp only [eraseP, Build.rank]

theorem isCur_erase (x : P) : isCur (eraseP x) = isCur x := by
  cases x <;> simp only [eraseP, isCur]

theorem eraseQ_mkEq (l r : P) : eraseQ (mkEq l r) = mkEq (eraseP l) (eraseP r) := by
  cases l <;> cases r <;> simp [mkEq, Build.rank, eraseQ, eraseP]

theorem eraseQ_mkOrd (op : CmpOp) (l r : P) : eraseQ (mkOrd op l r) = mkOrd op (eraseP l) (eraseP r) := by
  simp only [mkOrd, rank_erase]
  split <;> rw [eraseQ]

/-- `buildP`, given `buildPath` -/
theorem buildP_rel (env : Env) (cfg : Cfg) (single : Bool) (p q : Path) (hh : BD.Path.head p = BD.Path.head q)
    (h : ChRel (buildPath env cfg false p) (buildPath env cfg false q)) :
    PRes (buildP env cfg single p) (buildP env cfg single q) := by
  rw [BD.buildP_eq, BD.buildP_eq, hh]
  cases h1 : buildPath env cfg false p with
  | error e =>
    cases h2 : buildPath env cfg false q with
    | error e' => rw [h1, h2] at h; exact h
    | ok b => rw [h1, h2] at h; exact h.elim
  | ok a =>
    cases h2 : buildPath env cfg false q with
    | error e' => rw [h1, h2] at h; exact h.elim
    | ok b =>
      rw [h1, h2] at h
      have hab : eraseCh a = eraseCh b := h
      have hvg : chainVg a = chainVg b := by rw [← chainVg_erase a, hab, chainVg_erase]
      simp only [bind, Except.bind, hvg]
      split
      · rfl
      · cases BD.Path.head q <;> (simp only [PRes, eraseP]; rw [hab])

theorem head_stripS (p : Path) : BD.Path.head (stripSPath p) = BD.Path.head p := by
  obtain ⟨h, ss, fns⟩ := p
  rw [stripSPath]
  rfl

theorem presRes_bind_desc {x y : Except ParseErr (List Pre)} (h : PresRes x y) (mr lr : Bool) :
    PresRes (x >>= fun inner => .ok (.node ".." true (fun i => .desc i mr lr) :: inner))
      (y >>= fun inner => .ok (.node ".." true (fun i => .desc i mr lr) :: inner)) := by
  cases x with
  | error e => cases y with
    | error e' => exact h
    | ok b => exact h.elim
  | ok a => cases y with
    | error e' => exact h.elim
    | ok b =>
      refine ⟨⟨rfl, ?_⟩, h⟩
      intro i j hij
      simp only [eraseN]
      rw [show eraseInfo i = eraseInfo j from hij]

theorem descMr_strip (s : Step) : BD.descMr (stripSStep s) = BD.descMr s := by cases s <;> (rw [stripSStep]; rfl)
theorem descLr_strip (s : Step) : BD.descLr (stripSStep s) = BD.descLr s := by cases s <;> (rw [stripSStep]; rfl)

mutual
theorem stepPre_strip (env : Env) (cfg : Cfg) : (s : Step) →
    PresRes (stepPre env cfg s) (stepPre env cfg (stripSStep s))
  | .child t k => by
    rw [stripSStep, stepPre, stepPre]
    exact ⟨⟨rfl, fun i j h => by simp only [eraseN]; rw [show eraseInfo i = eraseInfo j from h]⟩, trivial⟩
  | .wild t => by
    rw [stripSStep, stepPre, stepPre]
    exact ⟨⟨rfl, fun i j h => by simp only [eraseN]; rw [show eraseInfo i = eraseInfo j from h]⟩, trivial⟩
  | .multi t ns => by
    rw [stripSStep, stepPre, stepPre]
    refine ⟨⟨rfl, fun i j h => ?_⟩, trivial⟩
    have h' : eraseInfo i = eraseInfo j := h
    simp only [eraseN, List.map_map]
    have hm : ∀ (x : Info), List.map (eraseMId ∘ mid x) ns = ns.map (mid (eraseInfo x)) :=
      fun x => List.map_congr_left (fun n _ => eraseMId_mid x n)
    rw [hm i, hm j, h']
    split <;> simp [h']
  | .union t ss => by
    rw [stripSStep, BD.stepPre_union, BD.stepPre_union]
    exact ⟨⟨rfl, fun i j h => by simp only [eraseN]; rw [show eraseInfo i = eraseInfo j from h]⟩, trivial⟩
  | .filter t q => by
    rw [stripSStep, stepPre, stepPre]
    have hq := buildQ_strip env cfg q
    cases h1 : buildQ env cfg q with
    | error e =>
      cases h2 : buildQ env cfg (stripSQuery q) with
      | error e' => rw [h1, h2] at hq; exact hq
      | ok b => rw [h1, h2] at hq; exact hq.elim
    | ok a =>
      cases h2 : buildQ env cfg (stripSQuery q) with
      | error e' => rw [h1, h2] at hq; exact hq.elim
      | ok b =>
        rw [h1, h2] at hq
        have hab : eraseQ a = eraseQ b := hq
        refine ⟨⟨rfl, fun i j h => ?_⟩, trivial⟩
        simp only [eraseN]
        rw [show eraseInfo i = eraseInfo j from h, hab]
  | .desc s => by
    rw [stripSStep, BD.stepPre_desc, BD.stepPre_desc, descMr_strip, descLr_strip]
    exact presRes_bind_desc (stepPre_strip env cfg s) _ _
theorem stepsPre_strip (env : Env) (cfg : Cfg) : (ss : List Step) →
    PresRes (stepsPre env cfg ss) (stepsPre env cfg (stripSSteps ss))
  | [] => by rw [stripSSteps, stepsPre]; trivial
  | s :: ss => by
    rw [stripSSteps, stepsPre, stepsPre]
    have h1 := stepPre_strip env cfg s
    have h2 := stepsPre_strip env cfg ss
    cases ha : stepPre env cfg s with
    | error e =>
      cases hb : stepPre env cfg (stripSStep s) with
      | error e' => rw [ha, hb] at h1; exact h1
      | ok b => rw [ha, hb] at h1; exact h1.elim
    | ok a =>
      cases hb : stepPre env cfg (stripSStep s) with
      | error e' => rw [ha, hb] at h1; exact h1.elim
      | ok b =>
        rw [ha, hb] at h1
        cases hc : stepsPre env cfg ss with
        | error e =>
          cases hd : stepsPre env cfg (stripSSteps ss) with
          | error e' => rw [hc, hd] at h2; exact h2
          | ok d => rw [hc, hd] at h2; exact h2.elim
        | ok c =>
          cases hd : stepsPre env cfg (stripSSteps ss) with
          | error e' => rw [hc, hd] at h2; exact h2.elim
          | ok d =>
            rw [hc, hd] at h2
            exact presRel_append h1 h2
theorem buildQ_strip (env : Env) (cfg : Cfg) : (q : Query) →
    QRes (buildQ env cfg q) (buildQ env cfg (stripSQuery q))
  | .or a b => by
    rw [stripSQuery, buildQ, buildQ]
    have h1 := buildQ_strip env cfg a
    have h2 := buildQ_strip env cfg b
    cases ha : buildQ env cfg a with
    | error e =>
      cases hb : buildQ env cfg (stripSQuery a) with
      | error e' => rw [ha, hb] at h1; exact h1
      | ok y => rw [ha, hb] at h1; exact h1.elim
    | ok x =>
      cases hb : buildQ env cfg (stripSQuery a) with
      | error e' => rw [ha, hb] at h1; exact h1.elim
      | ok y =>
        rw [ha, hb] at h1
        cases hc : buildQ env cfg b with
        | error e =>
          cases hd : buildQ env cfg (stripSQuery b) with
          | error e' => rw [hc, hd] at h2; exact h2
          | ok w => rw [hc, hd] at h2; exact h2.elim
        | ok z =>
          cases hd : buildQ env cfg (stripSQuery b) with
          | error e' => rw [hc, hd] at h2; exact h2.elim
          | ok w =>
            rw [hc, hd] at h2
            have e1 : eraseQ x = eraseQ y := h1
            have e2 : eraseQ z = eraseQ w := h2
            show eraseQ (.or x z) = eraseQ (.or y w)
            rw [eraseQ, eraseQ, e1, e2]
  | .and a b => by
    rw [stripSQuery, buildQ, buildQ]
    have h1 := buildQ_strip env cfg a
    have h2 := buildQ_strip env cfg b
    cases ha : buildQ env cfg a with
    | error e =>
      cases hb : buildQ env cfg (stripSQuery a) with
      | error e' => rw [ha, hb] at h1; exact h1
      | ok y => rw [ha, hb] at h1; exact h1.elim
    | ok x =>
      cases hb : buildQ env cfg (stripSQuery a) with
      | error e' => rw [ha, hb] at h1; exact h1.elim
      | ok y =>
        rw [ha, hb] at h1
        cases hc : buildQ env cfg b with
        | error e =>
          cases hd : buildQ env cfg (stripSQuery b) with
          | error e' => rw [hc, hd] at h2; exact h2
          | ok w => rw [hc, hd] at h2; exact h2.elim
        | ok z =>
          cases hd : buildQ env cfg (stripSQuery b) with
          | error e' => rw [hc, hd] at h2; exact h2.elim
          | ok w =>
            rw [hc, hd] at h2
            have e1 : eraseQ x = eraseQ y := h1
            have e2 : eraseQ z = eraseQ w := h2
            show eraseQ (.and x z) = eraseQ (.and y w)
            rw [eraseQ, eraseQ, e1, e2]
  | .exist neg p => by
    rw [stripSQuery, buildQ, buildQ]
    have h1 := buildP_rel env cfg false p (stripSPath p) (head_stripS p).symm (buildPath_strip env cfg false p)
    cases ha : buildP env cfg false p with
    | error e =>
      cases hb : buildP env cfg false (stripSPath p) with
      | error e' => rw [ha, hb] at h1; exact h1
      | ok y => rw [ha, hb] at h1; exact h1.elim
    | ok x =>
      cases hb : buildP env cfg false (stripSPath p) with
      | error e' => rw [ha, hb] at h1; exact h1.elim
      | ok y =>
        rw [ha, hb] at h1
        have e1 : eraseP x = eraseP y := h1
        cases neg <;> simp [QRes, bind, Except.bind, eraseQ, e1]
  | .cmp op l r => by
    rw [stripSQuery, buildQ, buildQ]
    have h1 := buildOperand_strip env cfg l
    have h2 := buildOperand_strip env cfg r
    cases ha : buildOperand env cfg l with
    | error e =>
      cases hb : buildOperand env cfg (stripSOperand l) with
      | error e' => rw [ha, hb] at h1; exact h1
      | ok y => rw [ha, hb] at h1; exact h1.elim
    | ok x =>
      cases hb : buildOperand env cfg (stripSOperand l) with
      | error e' => rw [ha, hb] at h1; exact h1.elim
      | ok y =>
        rw [ha, hb] at h1
        cases hc : buildOperand env cfg r with
        | error e =>
          cases hd : buildOperand env cfg (stripSOperand r) with
          | error e' => rw [hc, hd] at h2; exact h2
          | ok w => rw [hc, hd] at h2; exact h2.elim
        | ok z =>
          cases hd : buildOperand env cfg (stripSOperand r) with
          | error e' => rw [hc, hd] at h2; exact h2.elim
          | ok w =>
            rw [hc, hd] at h2
            have e1 : eraseP x = eraseP y := h1
            have e2 : eraseP z = eraseP w := h2
            have c1 : isCur x = isCur y := by rw [← isCur_erase x, e1, isCur_erase]
            have c2 : isCur z = isCur w := by rw [← isCur_erase z, e2, isCur_erase]
            simp only [bind, Except.bind, c1, c2]
            split
            · rfl
            · cases op <;> simp only [QRes, eraseQ, eraseQ_mkEq, eraseQ_mkOrd, e1, e2]
  | .regex p re => by
    rw [stripSQuery, buildQ, buildQ]
    have h1 := buildP_rel env cfg true p (stripSPath p) (head_stripS p).symm (buildPath_strip env cfg false p)
    cases ha : buildP env cfg true p with
    | error e =>
      cases hb : buildP env cfg true (stripSPath p) with
      | error e' => rw [ha, hb] at h1; exact h1
      | ok y => rw [ha, hb] at h1; exact h1.elim
    | ok x =>
      cases hb : buildP env cfg true (stripSPath p) with
      | error e' => rw [ha, hb] at h1; exact h1.elim
      | ok y =>
        rw [ha, hb] at h1
        have e1 : eraseP x = eraseP y := h1
        simp [QRes, bind, Except.bind, eraseQ, eraseP, e1]
theorem buildOperand_strip (env : Env) (cfg : Cfg) : (o : Operand) →
    PRes (buildOperand env cfg o) (buildOperand env cfg (stripSOperand o))
  | .lit l => by rw [stripSOperand, buildOperand]; rfl
  | .path p => by
    rw [stripSOperand, buildOperand, buildOperand]
    exact buildP_rel env cfg true p (stripSPath p) (head_stripS p).symm (buildPath_strip env cfg false p)
theorem buildPath_strip (env : Env) (cfg : Cfg) : (top : Bool) → (p : Path) →
    ChRel (buildPath env cfg top p) (buildPath env cfg top (stripSPath p))
  | top, .mk h ss fns => by
    rw [stripSPath, BD.buildPath_eq, BD.buildPath_eq]
    have h1 := stepsPre_strip env cfg ss
    cases ha : stepsPre env cfg ss with
    | error e =>
      cases hb : stepsPre env cfg (stripSSteps ss) with
      | error e' => rw [ha, hb] at h1; exact h1
      | ok b => rw [ha, hb] at h1; exact h1.elim
    | ok a =>
      cases hb : stepsPre env cfg (stripSSteps ss) with
      | error e' => rw [ha, hb] at h1; exact h1.elim
      | ok b =>
        rw [ha, hb] at h1
        simp only [bind, Except.bind]
        rw [mkInfos_eq, mkInfos_eq]
        have hpres : PresRel (BD.headPreOf h :: a ++ fns.map fnPre) (BD.headPreOf h :: b ++ fns.map fnPre) := by
          refine ⟨?_, presRel_append h1 (presRel_fns fns)⟩
          cases h <;>
            exact ⟨rfl, fun i j hij => by simp only [eraseN]; rw [show eraseInfo i = eraseInfo j from hij]⟩
        have := assemble_rel env cfg top _ _ [] [] hpres rfl
        cases hc : assemble env (infosG cfg top (BD.headPreOf h :: a ++ fns.map fnPre)) [] with
        | error e =>
          cases hd : assemble env (infosG cfg top (BD.headPreOf h :: b ++ fns.map fnPre)) [] with
          | error e' => rw [hc, hd] at this; exact this
          | ok d => rw [hc, hd] at this; exact this.elim
        | ok c =>
          cases hd : assemble env (infosG cfg top (BD.headPreOf h :: b ++ fns.map fnPre)) [] with
          | error e' => rw [hc, hd] at this; exact this.elim
          | ok d =>
            rw [hc, hd] at this
            show eraseCh (finish c) = eraseCh (finish d)
            rw [eraseCh_finish, eraseCh_finish, show eraseCh c = eraseCh d from this]
end

/-- `Build.build` commutes with blanking the step texts, up to the recorded texts of the tree -/
theorem build_stripS (env : Env) (cfg : Cfg) (p : Path) :
    ChRel (Build.build env cfg p) (Build.build env cfg (stripS p)) :=
  buildPath_strip env cfg true p

theorem ChRel.symm {x y : Except ParseErr (List N)} (h : ChRel x y) : ChRel y x := by
  cases x <;> cases y <;> first | exact h.elim | exact Eq.symm h

theorem ChRel.trans {x y z : Except ParseErr (List N)} (h1 : ChRel x y) (h2 : ChRel y z) : ChRel x z := by
  cases x <;> cases y <;> cases z <;> first | exact h1.elim | exact h2.elim | exact Eq.trans h1 h2

/-- two abstract paths that differ in step texts only build trees that are equal up to recorded texts,
    or fail with the same error -/
theorem build_same (env : Env) (cfg : Cfg) (p p' : Path) (h : stripS p = stripS p') :
    ChRel (Build.build env cfg p) (Build.build env cfg p') := by
  have h1 := build_stripS env cfg p
  have h2 := build_stripS env cfg p'
  rw [h] at h1
  exact h1.trans h2.symm

end JPV.SP
