/-
Histories of calls in one process over the explicit global state: `Parse` calls and calls of functions
returned by `Parse`, in any order, sharing the global parser, the mutex and the pools.
-/
import JPV.Lemmas.GlobState
namespace JPV
namespace Glob
open JPV.Impl JPV.Gen.ParseWrapGo
variable {ι : Type}

/-- one step of a history; the nondeterminism of the step is part of it -/
inductive Op (ι : Type) where
  | parse (path : String) (config : List Config)                     -- `Parse(path, config...)`
  | call (root : Option Tree) (doc : Val) (ch : Choice) (o : ι)      -- a call of a function that closes over `root`

inductive Out (ι : Type) where
  | parsed (r : ParseRet ι)
  | called (r : CallRet)

def runOp (ops : Ops ι) (w : World) : Op ι → World × Out ι
  | .parse s config => ((Parse ops s config w).1, .parsed (Parse ops s config w).2)
  | .call root d ch o => ((Parse_func ops root d ch o w).1, .called (Parse_func ops root d ch o w).2)

/-- the outcomes of a history, in order -/
def runOps (ops : Ops ι) : World → List (Op ι) → List (Out ι)
  | _, [] => []
  | w, op :: rest => (runOp ops w op).2 :: runOps ops (runOp ops w op).1 rest

def endWorld (ops : Ops ι) : World → List (Op ι) → World
  | w, [] => w
  | w, op :: rest => endWorld ops (runOp ops w op).1 rest

/-- between calls: the embedded jsonPathParser is `jsonPathParser{}` and the mutex is free -/
def AtRest (w : World) : Prop := w.parser.jsonPathParser = JsonPathParser.zero ∧ w.mutex = false

theorem atRest_zero : AtRest World.zero := ⟨rfl, rfl⟩

theorem runOp_atRest (ops : Ops ι) (w : World) (op : Op ι) (hw : AtRest w) : AtRest (runOp ops w op).1 := by
  cases op with
  | parse s config => exact Parse_reset ops s config w hw.2
  | call root d ch o =>
    have h := func_rest ops root d ch o w
    exact ⟨by simp only [runOp]; rw [h.1]; exact hw.1, by simp only [runOp]; rw [h.2]; exact hw.2⟩

theorem endWorld_atRest (ops : Ops ι) : ∀ (l : List (Op ι)) (w : World), AtRest w → AtRest (endWorld ops w l) := by
  intro l
  induction l with
  | nil => intro w hw; exact hw
  | cons op rest ih => intro w hw; exact ih _ (runOp_atRest ops w op hw)

/-- a `Parse` made at rest returns what it returns in a fresh process -/
theorem Parse_atRest (ops : Ops ι) (s : String) (config : List Config) (w : World) (hw : AtRest w) :
    (Parse ops s config w).2 = (Parse ops s config World.zero).2 := by
  rw [Parse_ret ops s config w hw.2, Parse_ret ops s config World.zero rfl, hw.1]
  rfl

theorem runOps_parse (ops : Ops ι) : ∀ (l : List (Op ι)) (w : World), AtRest w →
    ∀ (k : Nat) (s : String) (config : List Config), l[k]? = some (.parse s config) →
      (runOps ops w l)[k]? = some (.parsed (Parse ops s config World.zero).2) := by
  intro l
  induction l with
  | nil => intro w _ k s config h; simp at h
  | cons op rest ih =>
    intro w hw k s config h
    cases k with
    | zero =>
      simp only [List.getElem?_cons_zero, Option.some.injEq] at h
      subst h
      simp [runOps, runOp, Parse_atRest ops s config w hw]
    | succ k =>
      simp only [List.getElem?_cons_succ] at h
      simp only [runOps, List.getElem?_cons_succ]
      exact ih _ (runOp_atRest ops w op hw) k s config h

theorem runOp_truncated (ops : Ops ι) (spec : Tree → Val → List Res × RetrRes) (hops : RetrieveOK ops spec)
    (w : World) (op : Op ι) (hw : w.pools.Truncated) : (runOp ops w op).1.pools.Truncated := by
  cases op with
  | parse s config => simp only [runOp, Parse_pools]; exact hw
  | call root d ch o => exact (func_spec ops spec hops root d ch o w hw).2

theorem endWorld_truncated (ops : Ops ι) (spec : Tree → Val → List Res × RetrRes) (hops : RetrieveOK ops spec) :
    ∀ (l : List (Op ι)) (w : World), w.pools.Truncated → (endWorld ops w l).pools.Truncated := by
  intro l
  induction l with
  | nil => intro w hw; exact hw
  | cons op rest ih => intro w hw; exact ih _ (runOp_truncated ops spec hops w op hw)

theorem runOps_call (ops : Ops ι) (spec : Tree → Val → List Res × RetrRes) (hops : RetrieveOK ops spec) :
    ∀ (l : List (Op ι)) (w : World), w.pools.Truncated →
    ∀ (k : Nat) (root : Option Tree) (d : Val) (ch : Choice) (o : ι), l[k]? = some (.call root d ch o) →
      (runOps ops w l)[k]? = some (.called (callSpec spec root d)) := by
  intro l
  induction l with
  | nil => intro w _ k root d ch o h; simp at h
  | cons op rest ih =>
    intro w hw k root d ch o h
    cases k with
    | zero =>
      simp only [List.getElem?_cons_zero, Option.some.injEq] at h
      subst h
      simp [runOps, runOp, (func_spec ops spec hops root d ch o w hw).1]
    | succ k =>
      simp only [List.getElem?_cons_succ] at h
      simp only [runOps, List.getElem?_cons_succ]
      exact ih _ (runOp_truncated ops spec hops w op hw) k root d ch o h

/-- the log stays well-bracketed along any history that starts with the mutex free -/
theorem runOp_okLog (ops : Ops ι) (w : World) (op : Op ι) (hw : w.mutex = false) (hl : okLog w.log = some false) :
    okLog (runOp ops w op).1.log = some false ∧ (runOp ops w op).1.mutex = false := by
  cases op with
  | parse s config =>
    exact ⟨(Parse_atomic ops s config w hw).okLog hl, (Parse_reset ops s config w hw).2⟩
  | call root d ch o =>
    exact ⟨(func_quiet ops root d ch o w).okLog false hl, by simp only [runOp]; rw [(func_rest ops root d ch o w).2]; exact hw⟩

theorem endWorld_okLog (ops : Ops ι) : ∀ (l : List (Op ι)) (w : World), w.mutex = false → okLog w.log = some false →
    okLog (endWorld ops w l).log = some false := by
  intro l
  induction l with
  | nil => intro w _ hl; exact hl
  | cons op rest ih =>
    intro w hw hl
    have h := runOp_okLog ops w op hw hl
    exact ih _ h.2 h.1

end Glob
end JPV
