/-
ActionTie — the regenerated action bodies `goAct<N>` of `Gen/ActionsGo.lean` against the action models
`Peg.act<N>` of `Peg/Actions.lean`. Part 0: the shape of a tie between an action and its model (`ASim`), the
library hypotheses (`ALibRep`), `pop` and the type assertions in equational form, sizes on the model side.
-/
import JPV.Lemmas.ParserTiePush
import JPV.Gen.ActionsGo
set_option linter.unusedVariables false
set_option linter.unusedSimpArgs false
namespace JPV
namespace ParserLayout
open JPV JPV.ParserNode JPV.ActionNode
open JPV.Gen.ParserHelpersGo JPV.Gen.ActionsGo

/-! ### `Except` -/

theorem ebind_ok {ε α β : Type} (a : α) (f : α → Except ε β) : ((.ok a : Except ε α) >>= f) = f a := rfl

theorem ebind_err {ε α β : Type} (e : ε) (f : α → Except ε β) : ((.error e : Except ε α) >>= f) = .error e := rfl

theorem ebind_ok_right {ε α : Type} (x : Except ε α) : (x >>= fun a => (.ok a : Except ε α)) = x := by
  cases x <;> rfl

theorem liftH_ok {α : Type} (a : α) : liftH (.ok a : M α) = .ok a := rfl

theorem liftH_err {α : Type} (e : Err) : liftH (.error e : M α) = .error (.helper e) := rfl

/-! ### the shape of a tie -/

/-- the three `msgErrorInvalidSyntax…` constants, read back -/
def reasonOf (msg : String) : Option Peg.Reason :=
  if msg = Peg.Reason.unrecognizedInput.msg then some .unrecognizedInput
  else if msg = Peg.Reason.twoCurrentNode.msg then some .twoCurrentNode
  else if msg = Peg.Reason.filterValueGroup.msg then some .filterValueGroup
  else none

/-- what stops a regenerated action, as the model names it -/
def absAErr : AErr → Option Peg.Stop
  | .helper e => absErr e
  | .syntaxErr pos msg _ => (reasonOf msg).map (fun r => Peg.Stop.syntaxErr pos.toNat r)
  | .sliceBounds => some (.panic .sliceBounds)

/-- The regenerated action `gen` SIMULATES the action model `model` (nothing is held before or after an action):
    when the model returns a state, so does the code, and its state holds a layout whose erasure is the model's
    state; when the model panics or raises a user error, the code stops with the same panic / error. No claim
    when the model gives up with `unrepresentable`. -/
def ASim (c : Peg.Ctx) (tb te : Nat) (gen : AM PS) (model : Peg.M Peg.St) : Prop :=
  match model with
  | .ok st' => ∃ g' L', gen = .ok g' ∧ Rep c g' L' [] ∧ eraseSt L' tb te = st'
  | .error e => e = .unrepresentable ∨ ∃ e', gen = .error e' ∧ absAErr e' = some e

theorem ASim.ok {c : Peg.Ctx} {tb te : Nat} {gen : AM PS} {st' : Peg.St}
    (h : ∃ g' L', gen = .ok g' ∧ Rep c g' L' [] ∧ eraseSt L' tb te = st') : ASim c tb te gen (.ok st') := h

theorem ASim.err {c : Peg.Ctx} {tb te : Nat} {gen : AM PS} {e : Peg.Stop} {e' : AErr}
    (h1 : gen = .error e') (h2 : absAErr e' = some e) : ASim c tb te gen (.error e) := Or.inr ⟨e', h1, h2⟩

theorem ASim.unrep {c : Peg.Ctx} {tb te : Nat} {gen : AM PS} : ASim c tb te gen (.error .unrepresentable) :=
  Or.inl rfl

/-- a helper that simulates its model, called as the last statement of an action -/
theorem ASim.ofSim {c : Peg.Ctx} {tb te : Nat} {gen : M PS} {model : Peg.M Peg.St}
    (h : Sim c [] tb te gen model) : ASim c tb te (liftH gen) model := by
  cases model with
  | ok st' =>
    obtain ⟨g', L', he, hr, hE⟩ := h
    exact ⟨g', L', by rw [he]; rfl, hr, hE⟩
  | error e =>
    rcases h with h | ⟨e', he, ha⟩
    · exact Or.inl h
    · exact Or.inr ⟨.helper e', by rw [he]; rfl, ha⟩

theorem ASim.ofSim' {c : Peg.Ctx} {tb te : Nat} {gen : M PS} {model : Peg.M Peg.St}
    (h : Sim c [] tb te gen model) : ASim c tb te (liftH gen >>= fun p => .ok p) model := by
  rw [ebind_ok_right]; exact ASim.ofSim h

/-! ### the library -/

/-- `Peg.rank` on layouts -/
def rankL : LP → Nat
  | .lit _ => 2
  | .proot _ => 1
  | .pcur _ => 0

/-- `Peg.mkEQ` on layouts -/
def mkEQL (l r : LP) : LQ :=
  let (l, r) := if rankL l > rankL r then (r, l) else (l, r)
  match r with
  | .lit v => .cmp l r (.directEq (Peg.litTy v.toVal))
  | _ => .cmp l r .deepEq

def mkGEL (l r : LP) : LQ := if rankL l > rankL r then .cmp r l .le else .cmp l r .ge
def mkGTL (l r : LP) : LQ := if rankL l > rankL r then .cmp r l .lt else .cmp l r .gt
def mkLEL (l r : LP) : LQ := if rankL l > rankL r then .cmp r l .ge else .cmp l r .le
def mkLTL (l r : LP) : LQ := if rankL l > rankL r then .cmp r l .gt else .cmp l r .lt

/-- the methods of `*jsonPathParser` that other generators translate, against the model: the unescape routines
    are the `Ext` functions of the model; `pushCompareXX(l, r)` pushes one compare query built from the two
    operands, ordered by rank, with the comparator of the model. -/
structure ALibRep (al : ALib) (c : Peg.Ctx) : Prop where
  unescape : ∀ t, al.unescape t = .ok (c.ext.unescape t)
  single : ∀ t, al.unescapeSingleQuotedString t =
    match c.ext.unescapeSingle t with | some k => .ok k | none => .error (.invalidArgument t)
  double : ∀ t, al.unescapeDoubleQuotedString t =
    match c.ext.unescapeDouble t with | some k => .ok k | none => .error (.invalidArgument t)
  eq : ∀ (l r : LP) (g : PS), al.pushCompareEQ (gcp l) (gcp r) g = push (GItem.query (gq (mkEQL l r))) g
  ne : ∀ (l r : LP) (g : PS), al.pushCompareNE (gcp l) (gcp r) g = push (GItem.query (gq (.not (mkEQL l r)))) g
  ge : ∀ (l r : LP) (g : PS), al.pushCompareGE (gcp l) (gcp r) g = push (GItem.query (gq (mkGEL l r))) g
  gt : ∀ (l r : LP) (g : PS), al.pushCompareGT (gcp l) (gcp r) g = push (GItem.query (gq (mkGTL l r))) g
  le : ∀ (l r : LP) (g : PS), al.pushCompareLE (gcp l) (gcp r) g = push (GItem.query (gq (mkLEL l r))) g
  lt : ∀ (l r : LP) (g : PS), al.pushCompareLT (gcp l) (gcp r) g = push (GItem.query (gq (mkLTL l r))) g

/-! ### `pop` in equational form -/

theorem pop_cases (c : Peg.Ctx) (g : PS) (L : LSt) (X : List (Nat × Cell)) (tb te : Nat) (hrep : Rep c g L X) :
    (pop g = .error .indexOutOfRange ∧ Peg.pop (eraseSt L tb te) = .error (.panic .indexOutOfRange)) ∨
    (∃ it s, L.stack = s ++ [it] ∧ pop g = .ok (gitem it, { g with params := s.map gitem }) ∧
      Peg.pop (eraseSt L tb te) = .ok (eraseItem it, eraseSt { L with stack := s } tb te) ∧
      Rep c { g with params := s.map gitem } { L with stack := s } (cellsItem it ++ X) ∧ wfItem it) := by
  rcases list_snoc_cases L.stack with hnil | ⟨s, it, hs⟩
  · left
    refine ⟨pop_nil g (by rw [hrep.params, hnil]; rfl), ?_⟩
    simp only [Peg.pop, eraseSt, hnil, List.map_nil, List.reverse_nil]
  · right
    have hm : Peg.pop (eraseSt L tb te) = .ok (eraseItem it, eraseSt { L with stack := s } tb te) := by
      simp only [Peg.pop, eraseSt, hs, List.map_append, List.map_cons, List.map_nil, List.reverse_append,
        List.reverse_cons, List.reverse_nil, List.nil_append, List.cons_append]
    have hp := pop_tie c g L X tb te hrep
    rw [hm] at hp
    obtain ⟨it', s', hs', hpg, hrep', hwf, _, _⟩ := hp
    have : s' = s ∧ it' = it := by
      rw [hs] at hs'
      have := List.append_inj' hs' rfl
      exact ⟨this.1.symm, by have h2 := this.2; simp only [List.cons.injEq, and_true] at h2; exact h2.symm⟩
    obtain ⟨rfl, rfl⟩ := this
    exact ⟨it', s', hs, hpg, hm, hrep', hwf⟩

/-! ### the type assertions -/

theorem eraseCh_cons_ne (n : LN) (rest : List LN) : eraseCh (n :: rest) = eraseN n :: eraseCh rest := rfl

theorem gitem_chain_ne {ch : List LN} (hne : ch ≠ []) : ∃ k i, gitem (.chain ch) = .node k i ∧ headRef ch = some (k, i) := by
  cases ch with
  | nil => exact absurd rfl hne
  | cons n rest =>
    obtain ⟨id, i, s⟩ := n
    exact ⟨s.kind, id, rfl, rfl⟩

/-- `.(syntaxNode)` -/
theorem asNode_cases (it : LItem) (hwf : wfItem it) :
    (∃ ch, it = .chain ch ∧ ch ≠ [] ∧ GItem.asNode (gitem it) = .ok (headRef ch) ∧
      Peg.asNode (eraseItem it) = .ok (eraseCh ch)) ∨
    (GItem.asNode (gitem it) = .error .typeAssertion ∧ Peg.asNode (eraseItem it) = .error (.panic .typeAssertion)) := by
  cases it with
  | chain ch =>
    left
    cases ch with
    | nil => exact absurd rfl hwf
    | cons n rest =>
      obtain ⟨id, i, s⟩ := n
      exact ⟨_, rfl, List.cons_ne_nil _ _, rfl, rfl⟩
  | sub s => right; cases s <;> exact ⟨rfl, rfl⟩
  | query q => right; exact ⟨rfl, rfl⟩
  | _ => right; exact ⟨rfl, rfl⟩

/-- `.(string)` -/
theorem asStr_cases (it : LItem) :
    (∃ s, it = .str s ∧ GItem.asString (gitem it) = .ok s ∧ Peg.asStr (eraseItem it) = .ok s) ∨
    (GItem.asString (gitem it) = .error .typeAssertion ∧ Peg.asStr (eraseItem it) = .error (.panic .typeAssertion)) := by
  cases it with
  | str s => left; exact ⟨s, rfl, rfl, rfl⟩
  | chain ch =>
    right
    cases ch with
    | nil => exact ⟨rfl, rfl⟩
    | cons n rest => obtain ⟨id, i, s⟩ := n; exact ⟨rfl, rfl⟩
  | sub s => right; cases s <;> exact ⟨rfl, rfl⟩
  | _ => right; exact ⟨rfl, rfl⟩

/-- `.(bool)` -/
theorem asBool_cases (it : LItem) :
    (∃ b, it = .bool b ∧ GItem.asBool (gitem it) = .ok b ∧ Peg.asBool (eraseItem it) = .ok b) ∨
    (GItem.asBool (gitem it) = .error .typeAssertion ∧ Peg.asBool (eraseItem it) = .error (.panic .typeAssertion)) := by
  cases it with
  | bool b => left; exact ⟨b, rfl, rfl, rfl⟩
  | chain ch =>
    right
    cases ch with
    | nil => exact ⟨rfl, rfl⟩
    | cons n rest => obtain ⟨id, i, s⟩ := n; exact ⟨rfl, rfl⟩
  | sub s => right; cases s <;> exact ⟨rfl, rfl⟩
  | _ => right; exact ⟨rfl, rfl⟩

/-- `.(*syntaxIndexSubscript)` -/
theorem asIdx_cases (it : LItem) :
    (∃ i, it = .sub (.index i) ∧ GItem.asIndexSubscript (gitem it) = .ok i ∧ Peg.asIdx (eraseItem it) = .ok (boundOf i)) ∨
    (GItem.asIndexSubscript (gitem it) = .error .typeAssertion ∧
      Peg.asIdx (eraseItem it) = .error (.panic .typeAssertion)) := by
  cases it with
  | sub s =>
    cases s with
    | index i => left; exact ⟨i, rfl, rfl, rfl⟩
    | _ => right; exact ⟨rfl, rfl⟩
  | chain ch =>
    right
    cases ch with
    | nil => exact ⟨rfl, rfl⟩
    | cons n rest => obtain ⟨id, i, s⟩ := n; exact ⟨rfl, rfl⟩
  | _ => right; exact ⟨rfl, rfl⟩

/-- `.(syntaxSubscript)` -/
theorem asSubscript_cases (it : LItem) :
    (∃ s, it = .sub s ∧ GItem.asSubscript (gitem it) = .ok s ∧ Peg.asSubscript (eraseItem it) = .ok (subI s, subVg s)) ∨
    (GItem.asSubscript (gitem it) = .error .typeAssertion ∧
      Peg.asSubscript (eraseItem it) = .error (.panic .typeAssertion)) := by
  cases it with
  | sub s => left; exact ⟨s, rfl, rfl, asSubscript_sub s⟩
  | chain ch =>
    right
    cases ch with
    | nil => exact ⟨rfl, rfl⟩
    | cons n rest => obtain ⟨id, i, s⟩ := n; exact ⟨rfl, rfl⟩
  | _ => right; exact ⟨rfl, rfl⟩

/-- `.(*syntaxBasicCompareParameter)` -/
theorem asCP_cases (it : LItem) :
    (∃ p, it = .cp p ∧ GItem.asCompareParameter (gitem it) = .ok (gcp p) ∧ Peg.asCP (eraseItem it) = .ok (eraseP p)) ∨
    (GItem.asCompareParameter (gitem it) = .error .typeAssertion ∧
      Peg.asCP (eraseItem it) = .error (.panic .typeAssertion)) := by
  cases it with
  | cp p => left; exact ⟨p, rfl, rfl, rfl⟩
  | chain ch =>
    right
    cases ch with
    | nil => exact ⟨rfl, rfl⟩
    | cons n rest => obtain ⟨id, i, s⟩ := n; exact ⟨rfl, rfl⟩
  | sub s => right; cases s <;> exact ⟨rfl, rfl⟩
  | _ => right; exact ⟨rfl, rfl⟩

theorem gq_ne_cparam (q : LQ) : GItem.ofQuery (gq q) = .query (gq q) := by
  cases q with
  | exist p => cases p <;> rfl
  | _ => rfl

/-- `.(syntaxQuery)`: a compare parameter passes in Go; the model gives up there -/
theorem asQuery_cases (it : LItem) :
    (∃ q, it = .query q ∧ GItem.asQuery (gitem it) = .ok (gq q) ∧ Peg.asQuery (eraseItem it) = .ok (eraseQ q)) ∨
    (Peg.asQuery (eraseItem it) = .error .unrepresentable) ∨
    (GItem.asQuery (gitem it) = .error .typeAssertion ∧ Peg.asQuery (eraseItem it) = .error (.panic .typeAssertion)) := by
  cases it with
  | query q => left; exact ⟨q, rfl, rfl, rfl⟩
  | cp p => right; left; rfl
  | chain ch =>
    right; right
    cases ch with
    | nil => exact ⟨rfl, rfl⟩
    | cons n rest => obtain ⟨id, i, s⟩ := n; exact ⟨rfl, rfl⟩
  | sub s => right; right; cases s <;> exact ⟨rfl, rfl⟩
  | _ => right; right; exact ⟨rfl, rfl⟩

/-! ### sizes on the model side -/

mutual
/-- number of nodes of a chain of the model, the parameter chains of aggregates included -/
def msizeCh : List N → Nat
  | [] => 0
  | n :: rest => msizeN n + msizeCh rest
def msizeN : N → Nat
  | .afn _ _ p => 1 + msizeCh p
  | _ => 1
end

def msizeItem : Peg.Item → Nat
  | .chain ch => msizeCh ch
  | _ => 0

def msizeItems : List Peg.Item → Nat
  | [] => 0
  | it :: rest => msizeItem it + msizeItems rest

def msizeFrames : List (List Peg.Item) → Nat
  | [] => 0
  | fr :: rest => msizeItems fr + msizeFrames rest

/-- the nodes on the parameter stack and in the saved frames -/
def msizeSt (st : Peg.St) : Nat := msizeItems st.stack + msizeFrames st.saved

mutual
theorem sizeCh_erase : ∀ (ch : List LN), sizeCh ch = msizeCh (eraseCh ch)
  | [] => rfl
  | n :: rest => by
    rw [eraseCh_cons_ne, msizeCh, sizeCh, sizeN_erase n, sizeCh_erase rest]
theorem sizeN_erase : ∀ (n : LN), sizeN n = msizeN (eraseN n)
  | .mk id i s => by
    cases s with
    | afn name p =>
      show 1 + sizeCh p = 1 + msizeCh (eraseCh p)
      rw [sizeCh_erase p]
    | _ => rfl
end

theorem sizeItem_erase (it : LItem) : sizeItem it = msizeItem (eraseItem it) := by
  cases it with
  | chain ch => exact sizeCh_erase ch
  | sub s => cases s <;> rfl
  | _ => rfl

theorem sizeItems_erase (l : List LItem) : sizeItems l = msizeItems (l.map eraseItem) := by
  induction l with
  | nil => rfl
  | cons a l ih => simp only [sizeItems, List.map_cons, msizeItems, ih, sizeItem_erase]

theorem msizeItems_append (A B : List Peg.Item) : msizeItems (A ++ B) = msizeItems A + msizeItems B := by
  induction A with
  | nil => simp only [List.nil_append, msizeItems, Nat.zero_add]
  | cons a A ih => simp only [List.cons_append, msizeItems, ih]; omega

theorem msizeItems_reverse (A : List Peg.Item) : msizeItems A.reverse = msizeItems A := by
  induction A with
  | nil => rfl
  | cons a A ih => simp only [List.reverse_cons, msizeItems_append, msizeItems, ih]; omega

theorem sizeItems_stack (L : LSt) (tb te : Nat) : sizeItems L.stack = msizeItems (eraseSt L tb te).stack := by
  simp only [eraseSt, msizeItems_reverse, sizeItems_erase]

theorem sizeItems_le_msizeSt (L : LSt) (tb te : Nat) : sizeItems L.stack ≤ msizeSt (eraseSt L tb te) := by
  rw [sizeItems_stack L tb te]; unfold msizeSt; omega

end ParserLayout
end JPV
