/-
SpellDefs — the predicates shared by the recogniser side (SpellRec*) and the action side (SpellAct*,
SpellSim*) of the theorem "parse ∘ Spell.print = build ∘ Spell.texts":

  * the hypotheses on the standard-library parameter `Ext` and on the registered functions `Env`, per
    spelled construct (`ExtOKS`, `EnvOKS`);
  * what the recogniser lemmas about paths need to know about the filter steps in them (`FilterHypS`);
  * the simulation statements of the action side (`SStepSim`, `SQSim`, `SOperandSim`, `SParamSim`): as in
    Lemmas/ParsePrintSim.lean, with the error position existentially quantified (the theorem about
    spellings states that the two syntax errors have the same reason; positions differ by spelling).
-/
import JPV.Lemmas.SpellToks
import JPV.Lemmas.ParsePrintSim
import JPV.Lemmas.ParsePrintRecE
namespace JPV.SP
open JPV.Peg JPV.PP JPV.Lex JPV.Build
open JPV.Print (fnText fnsText opText escRegex headChar)
open JPV.Spell (blanks Quote Sign SInt STail SSub SName Cap SLit ChildForm WildForm Sep SStep SQuery SOperand SOpPath SPath
  optTxt tailP subP keyBody nameP sepP sepsP brP litP childP wildP escLitQ)

/-! ### hypotheses on `Ext` -/

/-- `strconv.Atoi` reads the integer as written -/
def intOKS (ext : Ext) (n : SInt) : Prop := ext.atoi (String.ofList n.txt) = some n.val

/-- a slice bound; an omitted one makes the action call `Atoi("0")` -/
def optOKS (ext : Ext) : Option SInt → Prop
  | none => ext.atoi "0" = some 0
  | some n => intOKS ext n

/-- the third part of a slice; left out together with its colon the action calls `Atoi("1")` -/
def tailOKS (ext : Ext) : STail → Prop
  | .absent => ext.atoi "1" = some 1
  | .step _ _ t => intOKS ext t
  | .colon _ _ => ext.atoi "0" = some 0

def subOKS (ext : Ext) : SSub → Prop
  | .idx n => intOKS ext n
  | .wild => True
  | .slice s _ _ e t => optOKS ext s ∧ optOKS ext e ∧ tailOKS ext t

/-- a quoted member name is unescaped to the key -/
def keyOKS (ext : Ext) (q : Quote) (k : String) : Prop :=
  match q with
  | .sq => ext.unescapeSingle (String.ofList (escSingle k.toList)) = some k
  | .dq => ext.unescapeDouble (String.ofList (escDouble k.toList)) = some k

def nameOKS (ext : Ext) : SName → Prop
  | .key q k => keyOKS ext q k
  | .wild => True

/-- a child step: dot form through `unescape`, bracket forms through the two `unescape…QuotedString` -/
def childOKS (ext : Ext) (f : ChildForm) (k : String) : Prop :=
  match f with
  | .dot => ext.unescape (String.ofList (escDot k.toList)) = k
  | .br _ q _ => keyOKS ext q k

def litOKS (ext : Ext) : SLit → Prop
  | .num n sg d rest => ext.parseFloat (String.ofList (sg.txt ++ d :: rest)) = .ok n
  | .str q s => ext.unescape (String.ofList (escLitQ q s.toList)) = s
  | _ => True

mutual
def stepExtS (ext : Ext) : SStep → Prop
  | .child f k => childOKS ext f k
  | .wild _ => True
  | .multi _ n ns _ => nameOKS ext n ∧ ∀ x ∈ ns, nameOKS ext x.2.2
  | .union _ s ss _ => subOKS ext s ∧ ∀ x ∈ ss, subOKS ext x.2.2
  | .filter _ _ q _ _ => queryExtS ext q
  | .desc s => stepExtS ext s
def stepsExtS (ext : Ext) : List SStep → Prop
  | [] => True
  | s :: ss => stepExtS ext s ∧ stepsExtS ext ss
def queryExtS (ext : Ext) : SQuery → Prop
  | .or a _ _ b => queryExtS ext a ∧ queryExtS ext b
  | .and a _ _ b => queryExtS ext a ∧ queryExtS ext b
  | .exist _ p => opathExtS ext p
  | .cmp _ l _ _ r => operandExtS ext l ∧ operandExtS ext r
  | .regex p _ _ re => opathExtS ext p ∧ ext.regexCompile re = .ok
  | .paren _ q _ => queryExtS ext q
def operandExtS (ext : Ext) : SOperand → Prop
  | .lit l => litOKS ext l
  | .path p => opathExtS ext p
def opathExtS (ext : Ext) : SOpPath → Prop
  | .mk _ ss _ => stepsExtS ext ss
end

/-- every literal of the spelled path is read back by `ext` from ITS spelling -/
def ExtOKS (ext : Ext) (a : SPath) : Prop := stepsExtS ext a.steps

mutual
def stepEnvS (env : Env) : SStep → Prop
  | .filter _ _ q _ _ => queryEnvS env q
  | .desc s => stepEnvS env s
  | _ => True
def stepsEnvS (env : Env) : List SStep → Prop
  | [] => True
  | s :: ss => stepEnvS env s ∧ stepsEnvS env ss
def queryEnvS (env : Env) : SQuery → Prop
  | .or a _ _ b => queryEnvS env a ∧ queryEnvS env b
  | .and a _ _ b => queryEnvS env a ∧ queryEnvS env b
  | .exist _ p => opathEnvS env p
  | .cmp _ l _ _ r => operandEnvS env l ∧ operandEnvS env r
  | .regex p _ _ _ => opathEnvS env p
  | .paren _ q _ => queryEnvS env q
def operandEnvS (env : Env) : SOperand → Prop
  | .lit _ => True
  | .path p => opathEnvS env p
def opathEnvS (env : Env) : SOpPath → Prop
  | .mk _ ss fns => stepsEnvS env ss ∧ ∀ f ∈ fns, fnKindOK env f
end

/-- the function kinds recorded in the spelled path are the ones the library decides on -/
def EnvOKS (env : Env) (a : SPath) : Prop := stepsEnvS env a.steps ∧ ∀ f ∈ a.fns, fnKindOK env f

/-! ### the recogniser side: filter steps inside paths -/

/-- the bracket of a filter step is accepted -/
def RecBracketFilterS (inp : Array Char) (b0 b1 : Nat) (q : SQuery) (b2 b3 : Nat) : Prop :=
  ∀ (ad : Bool) (p : Nat) (r : List Char), Sfx inp p (Spell.step ad (.filter b0 b1 q b2 b3) ++ r) →
    Acc (90 + 32 * (Spell.step ad (.filter b0 b1 q b2 b3)).length) (.rule "bracketNode") inp p
      (p + (Spell.step ad (.filter b0 b1 q b2 b3)).length) (tkStepS ad p (.filter b0 b1 q b2 b3))

def FilterHypS (inp : Array Char) : SStep → Prop
  | .filter b0 b1 q b2 b3 => RecBracketFilterS inp b0 b1 q b2 b3
  | .desc s => FilterHypS inp s
  | _ => True

/-- a path inside a filter: well formed, and the brackets of its filter steps are accepted -/
def OPathHyp (inp : Array Char) : SOpPath → Prop
  | .mk hd ss fns => Spell.opathWf (.mk hd ss fns) = true ∧ ∀ s ∈ ss, FilterHypS inp s

def OperandHyp (inp : Array Char) : SOperand → Prop
  | .lit _ => True
  | .path q => OPathHyp inp q

/-! ### the action side: simulations -/

def opathHead : SOpPath → Head
  | .mk h _ _ => h

/-- a step: the chain of the raw nodes of its written elements -/
def SStepSim (c : Ctx) (cfg : Cfg) (ad : Bool) (s : SStep) : Prop :=
  ∀ (p : Nat) (r : List Char), Sfx c.input p (Spell.step ad s ++ r) →
    ∃ pos, Sim c (tkStepS ad p s) (fun pres : List Pre => [Item.chain (pres.map (rawOf c.acc))])
      (stepPre c.env cfg (Spell.stepT true ad s)) pos

/-- a filter query followed by `k` blanks -/
def SQSim (c : Ctx) (cfg : Cfg) (q : SQuery) : Prop :=
  ∀ (k p : Nat) (r : List Char), Sfx c.input p (Spell.query q ++ (blanks k ++ r)) →
    ∃ pos, Sim c (tkQS k p q) (fun q' : Q => [Item.query q']) (buildQ c.env cfg (Spell.queryT true q)) pos

/-- an operand of a comparison followed by `k` blanks -/
def SOperandSim (c : Ctx) (cfg : Cfg) (o : SOperand) : Prop :=
  ∀ (k : Nat) (ord : Bool) (p : Nat) (r : List Char), Sfx c.input p (Spell.operand o ++ (blanks k ++ r)) →
    ∃ pos, Sim c (tkOperandS k ord p o) (fun x : P => [Item.cp x])
      (buildOperand c.env cfg (Spell.operandT true o)) pos

/-- `jsonpathFilter` on a spelled path: `{38} jsonpathParameter {39}` leaves the parameter and the
    literal flag on the stack -/
def SParamSim (c : Ctx) (cfg : Cfg) (q : SOpPath) : Prop :=
  ∀ (p : Nat) (r : List Char), Sfx c.input p (Spell.opath q ++ r) →
    ∃ pos, Sim c (.action 38 :: (tkOPathS p q ++ [.action 39]))
      (fun ch : List N => [Item.bool (decide (opathHead q = .root)), Item.query (.exist (headP (opathHead q) ch))])
      (buildPath c.env cfg false (Spell.opathT true q)) pos

/-- steps that are neither `..` nor a filter -/
def isPlainStep : SStep → Bool
  | .filter _ _ _ _ _ => false
  | .desc _ => false
  | _ => true

/-- plain steps written with a bracket -/
def isBracketStep : SStep → Bool
  | .child (.br _ _ _) _ => true
  | .wild (.br _ _) => true
  | .multi _ _ _ _ => true
  | .union _ _ _ _ => true
  | _ => false

end JPV.SP
