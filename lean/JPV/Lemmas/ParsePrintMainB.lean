/-
ParsePrintMainB — `parseModel` on the printed path, for paths without filters.
-/
import JPV.Lemmas.ParsePrintB
import JPV.Lemmas.ParsePrintExt
namespace JPV.PP
open JPV.Peg JPV.Print JPV.Lex JPV.Build

/-- the outcome of `Parse` on the printed path agrees with `Build.build` on the recorded texts -/
def Agree : Except ParseErr (List N) → ParseOutcome → Prop
  | .ok ch, .ok ch' => ch' = ch
  | .error (.funcNotFound t), .functionNotFound t' => t' = t
  | .error .valueGroupOperand, .syntaxErr _ r _ => r = Reason.filterValueGroup.msg
  | .error .twoCurrentNodes, .syntaxErr _ r _ => r = Reason.twoCurrentNode.msg
  | _, _ => False

theorem delRoot_ne_nil {l : List N} (h : l ≠ []) : delRoot l ≠ [] := by
  cases l with
  | nil => exact absurd rfl h
  | cons n rest =>
    rw [delRoot_cons]
    rcases node_kind n with hk | ⟨i, name, p, rfl⟩ | hk
    · cases rest with
      | nil => rw [delRootNode_head_nil _ hk]; simp
      | cons m rest => rw [delRootNode_head_cons _ _ _ hk]; simp
    · rw [delRootNode_afn]; simp
    · rw [delRootNode_plain _ _ hk]; simp

theorem markVg_ne_nil {l : List N} (h : l ≠ []) : Build.markVg l ≠ [] := by
  cases l with
  | nil => exact absurd rfl h
  | cons n rest => rw [markVg_cons]; split <;> simp

theorem linkFn_ne_nil (a : Bool) (root : List N) (p : Pre) (h : root ≠ []) : linkFn a root p ≠ [] := by
  cases p <;> simp [linkFn, h]

theorem linkPres_ne_nil (a : Bool) : ∀ (ps : List Pre) (root : List N), root ≠ [] → linkPres a root ps ≠ []
  | [], root, h => h
  | p :: ps, root, h => by
    rw [linkPres_cons]
    exact linkPres_ne_nil a ps _ (linkFn_ne_nil a root p h)

theorem rawLinked_ne_nil (a : Bool) (h : Head) (ss : List Step) (fns : List Fn) : rawLinked a h ss fns ≠ [] :=
  linkPres_ne_nil a _ _ (by simp [rawNav])

/-- Action0 and the final check of `exec` -/
theorem exec_finish (c : Ctx) (L : List N) (hL : L ≠ []) (tb te : Nat) :
    (execFrom c ⟨[.chain L], [], none, tb, te⟩ [.action 0] >>= fun st =>
      match st.root with
      | some (n :: rest) => (Except.ok (n :: rest) : M (List N))
      | _ => .error (.panic .nilRoot)) = .ok (connChain "" (delRoot L)) := by
  obtain ⟨m, Lr, rfl⟩ : ∃ m Lr, L = m :: Lr := by
    cases L with
    | nil => exact absurd rfl hL
    | cons m Lr => exact ⟨m, Lr, rfl⟩
  have hne : connChain "" (delRoot (m :: Lr)) ≠ [] := by
    intro h
    exact delRoot_ne_nil (l := m :: Lr) (by simp) ((connChain_eq_nil _ _).mp h)
  obtain ⟨x, xs, hx⟩ : ∃ x xs, connChain "" (delRoot (m :: Lr)) = x :: xs := by
    cases hc : connChain "" (delRoot (m :: Lr)) with
    | nil => exact absurd hc hne
    | cons x xs => exact ⟨x, xs, rfl⟩
  simp only [execFrom_action, act, act0, pop, asNode, bind, Except.bind, execFrom_nil, hx]

variable (env : Env) (ext : Ext) (cfg : Cfg)

/-- the context of `parseModel` on the printed path -/
def ctxOf (p : Path) : Ctx := ⟨env, ext, cfg.accessor, (print p).toArray⟩

theorem parseModel_print (p : Path) :
    parseModel env ext cfg (printS p) = parseInput env ext cfg (print p).toArray := by
  simp [parseModel, printS, String.toList_ofList]

/-- the deferred `recover` of `Parse` -/
def outcomeOf (input : Array Char) : M (List N) → ParseOutcome
  | .ok ch => .ok ch
  | .error s => outcomeOfStop input s

theorem parseInput_of_recognise {input : Array Char} {n : Nat} {toks : List Tok}
    (h : recognise input = .ok n toks) :
    parseInput env ext cfg input = outcomeOf input (exec ⟨env, ext, cfg.accessor, input⟩ toks) := by
  simp only [parseInput, actions_as_expected, h, Bool.not_true, Bool.false_eq_true, if_false]
  cases exec ⟨env, ext, cfg.accessor, input⟩ toks <;> rfl

theorem exec_expr_eq (c : Ctx) (p : Path) :
    exec c (tkExpr p) = (execFrom c ⟨[], [], none, 0, 0⟩ (tkPath 0 p ++ [.action 0]) >>= fun st =>
      match st.root with
      | some (n :: rest) => (Except.ok (n :: rest) : M (List N))
      | _ => .error (.panic .nilRoot)) := rfl

/-- `exec` on any token list -/
theorem exec_eq (c : Ctx) (toks : List Tok) :
    exec c toks = (execFrom c ⟨[], [], none, 0, 0⟩ toks >>= fun st =>
      match st.root with
      | some (n :: rest) => (Except.ok (n :: rest) : M (List N))
      | _ => .error (.panic .nilRoot)) := rfl

/-- paths without filters: the outcome of `parseModel` on the printed path -/
theorem parse_print_B (ss : List Step) (fns : List Fn)
    (hwf : pathWf (.mk .root ss fns) = true) (hnf : noFilterSteps ss = true)
    (hext : ExtOK ext (.mk .root ss fns)) (henv : EnvOK env (.mk .root ss fns)) :
    Agree (Build.build env cfg (texts (.mk .root ss fns)))
      (parseModel env ext cfg (printS (.mk .root ss fns))) := by
  have hwf' := hwf
  simp only [pathWf, Bool.and_eq_true] at hwf'
  have hnf' : ∀ s ∈ ss, noFilterStep s = true := by
    simpa [noFilterSteps, List.all_eq_true] using hnf
  have hss : ∀ s ∈ ss, noFilterStep s = true ∧ stepWf false s = true :=
    fun s hs => ⟨hnf' s hs, stepsWf_mem ss hwf'.1 s hs⟩
  have hext' : stepsExt ext ss := by
    have := hext; unfold ExtOK at this; rw [pathExt] at this; exact this
  have hss' : ∀ s ∈ ss, noFilterStep s = true ∧ stepWf false s = true ∧ stepExtOK ext s :=
    fun s hs => ⟨hnf' s hs, stepsWf_mem ss hwf'.1 s hs,
      stepExtOK_of_stepExt s (hnf' s hs) (stepsExt_mem hext' s hs)⟩
  have hkind : ∀ f ∈ fns, fnKindOK env f := by
    have := henv; unfold EnvOK at this; rw [pathEnv] at this; exact this.2
  have hrec := recognise_print ss fns hwf
    (fun s hs => filterHyp_of_noFilter _ s (hnf' s hs))
  rw [parseModel_print, parseInput_of_recognise env ext cfg hrec, exec_expr_eq]
  have hsfx : Sfx (print (.mk .root ss fns)).toArray 0 (path (.mk .root ss fns) ++ []) := by
    simpa [print] using Sfx.zero (print (.mk .root ss fns))
  by_cases hall : ∀ f ∈ fns, fnFound env f = true
  · -- every function is registered
    obtain ⟨tb', te', hx⟩ := exec_path_ok ⟨env, ext, cfg.accessor, (print (.mk .root ss fns)).toArray⟩ .root ss fns
      hss' (fun f hf => ⟨hkind f hf, hall f hf⟩) hsfx [] none 0 0
    rw [hx, exec_finish _ _ (markVg_ne_nil (rawLinked_ne_nil _ _ _ _)), build_nf_ok env cfg ss fns hss hall]
    rfl
  · -- the first function that is not registered
    have hsplit : ∃ fs1 f fs2, fns = fs1 ++ f :: fs2 ∧ (∀ g ∈ fs1, fnFound env g = true) ∧ fnFound env f = false := by
      clear hrec hsfx hwf hwf' hext henv hkind
      induction fns with
      | nil => exact absurd (by simp) hall
      | cons g gs ih =>
        cases hg : fnFound env g with
        | false => exact ⟨[], g, gs, rfl, by simp, hg⟩
        | true =>
          have : ¬ ∀ f ∈ gs, fnFound env f = true := by
            intro h; apply hall; intro f hf
            rcases List.mem_cons.mp hf with rfl | hf
            · exact hg
            · exact h f hf
          obtain ⟨fs1, f, fs2, e, h1, h2⟩ := ih this
          refine ⟨g :: fs1, f, fs2, by simp [e], ?_, h2⟩
          intro x hx
          rcases List.mem_cons.mp hx with rfl | hx
          · exact hg
          · exact h1 x hx
    obtain ⟨fs1, f, fs2, rfl, h1, h2⟩ := hsplit
    have hx := exec_path_missing ⟨env, ext, cfg.accessor, (print (.mk .root ss (fs1 ++ f :: fs2))).toArray⟩ .root ss
      fs1 f fs2 hss' (fun g hg => ⟨hkind g (by simp [hg]), h1 g hg⟩) (hkind f (by simp)) h2 hsfx [] none 0 0
      [.action 0]
    rw [hx]
    rw [Build.build, texts, buildPath_nf_missing env cfg .root ss fs1 f fs2 hss h1 h2 true]
    rfl

end JPV.PP
