/-
SpellActQ — action lemmas for the filter constructs of SPELLED paths (JPV/Spell.lean), NON-RECURSIVE:
each lemma takes the simulation (`SStepSim`, `SQSim`, `SOperandSim`, `SParamSim` of SpellDefs) of the
sub-constructs as hypotheses and concludes the simulation of the construct. Generalises
ParsePrintActQ (whose `stage…` lemmas are reused as they are). The mutual recursion is tied in SpellSim.
-/
import JPV.Lemmas.SpellActA
import JPV.Lemmas.SpellRecF
import JPV.Lemmas.ParsePrintSimRec
set_option linter.unusedSimpArgs false
namespace JPV.SP
open JPV.Peg JPV.PP JPV.Lex JPV.Build
open JPV.Print (fnText fnsText opText escRegex headChar)
open JPV.Spell (Quote Sign SInt STail SSub SName Cap SLit ChildForm WildForm Sep SStep SQuery SOperand SOpPath SPath
  optTxt tailP subP keyBody nameP sepP sepsP brP litP childP wildP escLitQ)

theorem blanks_length (k : Nat) : (Spell.blanks k).length = k := by simp [Spell.blanks]

/-- skip a run of blanks -/
theorem sfx_blanks {inp : Array Char} {p k : Nat} {r : List Char} (h : Sfx inp p (Spell.blanks k ++ r)) :
    Sfx inp (p + k) r := by
  have := h.append
  rwa [blanks_length] at this

/-! ### literals -/

theorem exec_lit_s (c : Ctx) (l : SLit) (hl : litOKS c.ext l) (k : Nat) (ord : Bool) {p : Nat} {r : List Char}
    (h : Sfx c.input p (litP l ++ r)) (stk : List Item) (sv : List (List Item)) (rt : Option (List N))
    (tb te : Nat) :
    ∃ tb' te', ∀ rest, execFrom c ⟨stk, sv, rt, tb, te⟩ (tkOperandS k ord p (.lit l) ++ rest) =
      execFrom c ⟨.cp (.lit l.erase.toVal) :: stk, sv, rt, tb', te'⟩ rest := by
  cases l with
  | num n sg d rs =>
    simp only [litOKS] at hl
    refine ⟨p, p + (litP (.num n sg d rs)).length, fun rest => ?_⟩
    have ht : textOf c.input p (p + (litP (.num n sg d rs)).length) = String.ofList (sg.txt ++ d :: rs) :=
      textOf_sfx h
    simp only [tkOperandS, tkLitS]
    generalize (litP (.num n sg d rs)).length = L at ht ⊢
    generalize String.ofList (sg.txt ++ d :: rs) = S at ht hl
    cases ord <;>
    simp [tkOperandS, tkLitS, execFrom_text, execFrom_action, act, act40, act35, act36, St.text, ht, hl,
      pushCompareParameterLiteral, push, pop, bind, Except.bind, Lit.toVal, Spell.SLit.erase]
  | bool b cp =>
    refine ⟨tb, te, fun rest => ?_⟩
    cases b <;> cases ord <;>
    simp [tkOperandS, tkLitS, execFrom_action, act, act41, act42, act35, act36,
      pushCompareParameterLiteral, push, pop, bind, Except.bind, Lit.toVal, Spell.SLit.erase]
  | str q s =>
    simp only [litOKS] at hl
    simp only [litP, List.cons_append, List.append_assoc] at h
    refine ⟨p + 1, p + 1 + (escLitQ q s.toList).length, fun rest => ?_⟩
    cases q <;> cases ord <;>
    simp [tkOperandS, tkLitS, strAct, execFrom_text, execFrom_action, act, act43, act44, act35, act36, St.text,
      textOf_sfx h.tail, hl, pushCompareParameterLiteral, push, pop, bind, Except.bind, Lit.toVal, Spell.SLit.erase]
  | null cp =>
    refine ⟨tb, te, fun rest => ?_⟩
    cases ord <;>
    simp [tkOperandS, tkLitS, execFrom_action, act, act45, act35, act36,
      pushCompareParameterLiteral, push, pop, bind, Except.bind, Lit.toVal, Spell.SLit.erase]

/-- 1. a literal operand, in every spelling -/
theorem sim_operand_lit_s (c : Ctx) (cfg : Cfg) (l : SLit) (hl : litOKS c.ext l) : SOperandSim c cfg (.lit l) := by
  intro k ord p r h
  have hb : buildOperand c.env cfg (Spell.operandT true (.lit l)) = .ok (.lit l.erase.toVal) := by
    rw [Spell.operandT, buildOperand]
  rw [hb]
  rw [Spell.operand] at h
  refine ⟨p, ?_, ?_⟩
  · intro v hv stk sv rt tb te _
    cases hv
    exact exec_lit_s c l hl k ord h stk sv rt tb te
  · intro e he; cases he

/-! ### `singleJsonpathFilter` -/

theorem sfx_cast {inp : Array Char} {p p' : Nat} {l : List Char} (h : Sfx inp p l) (e : p = p') : Sfx inp p' l :=
  e ▸ h

theorem fnW_true : Spell.fnW true = Print.fnT := by
  funext f; rfl

theorem opathT_mk (h : Head) (ss : List SStep) (fns : List Fn) :
    Spell.opathT true (.mk h ss fns) = .mk h (Spell.stepsT true ss) (fns.map Print.fnT) := by
  rw [Spell.opathT, fnW_true]

theorem buildP_opathT (env : Env) (cfg : Cfg) (single : Bool) (q : SOpPath) :
    buildP env cfg single (Spell.opathT true q) =
      (buildPath env cfg false (Spell.opathT true q) >>= fun ch =>
        if (single && chainVg ch) = true then .error .valueGroupOperand else .ok (headP (opathHead q) ch)) := by
  cases q with
  | mk h ss fns =>
    rw [BD.buildP_eq, opathT_mk]
    cases h <;> rfl

theorem sim_single_s (c : Ctx) (cfg : Cfg) (q : SOpPath) (hq : SParamSim c cfg q) {p : Nat} {r : List Char}
    (h : Sfx c.input p (Spell.opath q ++ r)) (e : Nat) :
    ∃ pos, Sim c (.action 38 :: (tkOPathS p q ++ [.action 39, .text p e, .action 37]))
      (fun x : P => [Item.cp x]) (buildP c.env cfg true (Spell.opathT true q)) pos := by
  rw [buildP_opathT]
  obtain ⟨pos1, h0⟩ := hq p r h
  have h1 := h0.toFrom.seq (t2 := [.text p e, .action 37])
    (i2 := fun x : P => [Item.cp x])
    (f := fun ch => if (true && chainVg ch) = true then .error .valueGroupOperand else .ok (headP (opathHead q) ch))
    (fun ch _ => stage37 c (opathHead q) ch p e)
  exact ⟨_, (h1.cast (by simp) rfl rfl rfl).toSim⟩

/-- 2. a path operand -/
theorem sim_operand_path_s (c : Ctx) (cfg : Cfg) (q : SOpPath) (hq : SParamSim c cfg q) :
    SOperandSim c cfg (.path q) := by
  intro k ord p r h
  rw [Spell.operand] at h
  rw [Spell.operandT, buildOperand, tkOperandS]
  exact sim_single_s c cfg q hq h _

/-! ### existence tests -/

theorem opath_cons (q : SOpPath) : Spell.opath q = headChar (opathHead q) :: (Spell.opath q).tail := by
  cases q with
  | mk h ss fns => rw [Spell.opath]; rfl

theorem buildQ_exist_s (env : Env) (cfg : Cfg) (neg : Option Nat) (q : SOpPath) :
    buildQ env cfg (Spell.queryT true (.exist neg q)) =
      (buildPath env cfg false (Spell.opathT true q) >>= fun ch =>
        .ok (if neg.isSome then .not (.exist (headP (opathHead q) ch)) else .exist (headP (opathHead q) ch))) := by
  rw [Spell.queryT, buildQ, buildP_opathT]
  cases buildPath env cfg false (Spell.opathT true q) <;> rfl

/-- 3. an existence test, with `!` and blanks -/
theorem sim_exist_s (c : Ctx) (cfg : Cfg) (neg : Option Nat) (q : SOpPath) (hq : SParamSim c cfg q) :
    SQSim c cfg (.exist neg q) := by
  intro k p r h
  rw [buildQ_exist_s, tkQS]
  have h0 : Sfx c.input (p + negLen neg) (Spell.opath q ++ (Spell.blanks k ++ r)) := by
    cases neg with
    | none =>
      rw [Spell.query] at h
      simpa [negLen] using h
    | some j =>
      rw [Spell.query] at h
      simp only [List.cons_append, List.append_assoc] at h
      exact sfx_cast (sfx_blanks h.tail) (by simp only [negLen]; omega)
  have hs : ∃ c0 s', Spell.query (.exist neg q) ++ Spell.blanks k = c0 :: s' ∧ (c0 == '!') = neg.isSome := by
    cases neg with
    | none =>
      rw [Spell.query, opath_cons q]
      exact ⟨_, _, rfl, headChar_ne_bang _⟩
    | some j =>
      rw [Spell.query]
      exact ⟨_, _, rfl, rfl⟩
  obtain ⟨c0, s', hs1, hs2⟩ := hs
  have h' : Sfx c.input p ((Spell.query (.exist neg q) ++ Spell.blanks k) ++ r) := by
    rw [List.append_assoc]; exact h
  obtain ⟨pos1, hq1⟩ := hq _ _ h0
  have h1 := hq1.toFrom.seq (pos2 := pos1)
    (f := fun ch => .ok (if neg.isSome then Q.not (.exist (headP (opathHead q) ch))
      else .exist (headP (opathHead q) ch)))
    (fun ch _ => stage27 c neg.isSome (decide (opathHead q = .root)) (.exist (headP (opathHead q) ch)) c0 s' hs1 hs2 h')
  exact ⟨_, (h1.cast (by simp [blanks_length, Nat.add_assoc]) rfl rfl rfl).toSim⟩

/-! ### comparisons -/

theorem buildQ_cmp_s (env : Env) (cfg : Cfg) (op : CmpOp) (l : SOperand) (bl br : Nat) (r : SOperand) :
    buildQ env cfg (Spell.queryT true (.cmp op l bl br r)) =
      (buildOperand env cfg (Spell.operandT true l) >>= fun a =>
        buildOperand env cfg (Spell.operandT true r) >>= fun b =>
          if (isCur a && isCur b) = true then .error .twoCurrentNodes else .ok (mkCmp op a b)) := by
  rw [Spell.queryT, buildQ]
  cases buildOperand env cfg (Spell.operandT true l) with
  | error e => rfl
  | ok a =>
    cases buildOperand env cfg (Spell.operandT true r) with
    | error e => rfl
    | ok b => cases op <;> rfl

/-- 4. a comparison, with blanks around the operator -/
theorem sim_cmp_s (c : Ctx) (cfg : Cfg) (op : CmpOp) (l : SOperand) (bl br : Nat) (r : SOperand)
    (hl : SOperandSim c cfg l) (hr : SOperandSim c cfg r) : SQSim c cfg (.cmp op l bl br r) := by
  intro k p r0 h
  rw [buildQ_cmp_s, tkQS]
  rw [Spell.query] at h
  simp only [List.append_assoc] at h
  obtain ⟨pos1, h1⟩ := hl bl (isOrdOp op) p _ h
  have h2' : Sfx c.input (p + (Spell.operand l).length + bl + (opText op).length + br)
      (Spell.operand r ++ (Spell.blanks k ++ r0)) := sfx_blanks (sfx_blanks h.append).append
  obtain ⟨pos2, h2⟩ := hr k (isOrdOp op) _ _ h2'
  exact ⟨_, ((h1.toFrom.seq (fun a _ => (h2.frame [Item.cp a]).seq (fun b _ => stageCmp c op a b p _))).cast
    rfl rfl rfl rfl).toSim⟩

/-! ### regular expressions -/

theorem buildQ_regex_s (env : Env) (cfg : Cfg) (q : SOpPath) (bl br : Nat) (re : String) :
    buildQ env cfg (Spell.queryT true (.regex q bl br re)) =
      (buildP env cfg true (Spell.opathT true q) >>= fun l => .ok (.cmp l (.lit (.str "regex")) (.regex re))) := by
  rw [Spell.queryT, buildQ]

/-- 5. a regular-expression test -/
theorem sim_regex_s (c : Ctx) (cfg : Cfg) (q : SOpPath) (bl br : Nat) (re : String) (hq : SParamSim c cfg q)
    (hre : Print.regexOK re = true) (hc : c.ext.regexCompile re = .ok) : SQSim c cfg (.regex q bl br re) := by
  intro k p r h
  rw [buildQ_regex_s, tkQS, escRegex_okQ re hre]
  rw [Spell.query, escRegex_okQ re hre] at h
  simp only [List.append_assoc, List.cons_append, List.nil_append] at h
  have h3 : Sfx c.input (p + (Spell.opath q).length + bl + 2 + br + 1) (re.toList ++ ('/' :: (Spell.blanks k ++ r))) :=
    sfx_cast (sfx_blanks (sfx_blanks h.append).tail.tail).tail (by omega)
  obtain ⟨pos1, hs⟩ := sim_single_s c cfg q hq h (p + (Spell.opath q).length + bl)
  have h1 := hs.toFrom.seq (pos2 := pos1)
    (f := fun l => .ok (Q.cmp l (.lit (.str "regex")) (.regex re)))
    (fun x _ => stage34 c re hc x h3 p (p + (Spell.query (.regex q bl br re)).length))
  exact ⟨_, (h1.cast (by simp) rfl rfl rfl).toSim⟩

/-! ### `||`, `&&`, parentheses -/

theorem buildQ_or_s (env : Env) (cfg : Cfg) (a : SQuery) (l r : Nat) (b : SQuery) :
    buildQ env cfg (Spell.queryT true (.or a l r b)) =
      (buildQ env cfg (Spell.queryT true a) >>= fun x =>
        buildQ env cfg (Spell.queryT true b) >>= fun y => .ok (.or x y)) := by
  rw [Spell.queryT, buildQ]

theorem buildQ_and_s (env : Env) (cfg : Cfg) (a : SQuery) (l r : Nat) (b : SQuery) :
    buildQ env cfg (Spell.queryT true (.and a l r b)) =
      (buildQ env cfg (Spell.queryT true a) >>= fun x =>
        buildQ env cfg (Spell.queryT true b) >>= fun y => .ok (.and x y)) := by
  rw [Spell.queryT, buildQ]

/-- 6. `||` with blanks -/
theorem sim_or_s (c : Ctx) (cfg : Cfg) (a : SQuery) (l r : Nat) (b : SQuery) (ha : SQSim c cfg a)
    (hb : SQSim c cfg b) : SQSim c cfg (.or a l r b) := by
  intro k p r0 h
  rw [buildQ_or_s, tkQS]
  rw [Spell.query] at h
  simp only [List.append_assoc, List.cons_append] at h
  obtain ⟨pos1, s1⟩ := ha l p _ h
  have h2 : Sfx c.input (p + (Spell.query a).length + l + 2 + r) (Spell.query b ++ (Spell.blanks k ++ r0)) :=
    sfx_cast (sfx_blanks (sfx_blanks h.append).tail.tail) (by omega)
  obtain ⟨pos2, s2⟩ := hb k _ _ h2
  exact ⟨_, ((s1.toFrom.seq (fun x _ => (s2.frame [Item.query x]).seq (pos2 := pos2)
    (fun y _ => stage24 c x y))).cast rfl rfl rfl rfl).toSim⟩

/-- 6. `&&` with blanks -/
theorem sim_and_s (c : Ctx) (cfg : Cfg) (a : SQuery) (l r : Nat) (b : SQuery) (ha : SQSim c cfg a)
    (hb : SQSim c cfg b) : SQSim c cfg (.and a l r b) := by
  intro k p r0 h
  rw [buildQ_and_s, tkQS]
  rw [Spell.query] at h
  simp only [List.append_assoc, List.cons_append] at h
  obtain ⟨pos1, s1⟩ := ha l p _ h
  have h2 : Sfx c.input (p + (Spell.query a).length + l + 2 + r) (Spell.query b ++ (Spell.blanks k ++ r0)) :=
    sfx_cast (sfx_blanks (sfx_blanks h.append).tail.tail) (by omega)
  obtain ⟨pos2, s2⟩ := hb k _ _ h2
  exact ⟨_, ((s1.toFrom.seq (fun x _ => (s2.frame [Item.query x]).seq (pos2 := pos2)
    (fun y _ => stage25 c x y))).cast rfl rfl rfl rfl).toSim⟩

/-- 6'. parentheses add no tokens and no node -/
theorem sim_paren_s (c : Ctx) (cfg : Cfg) (l : Nat) (q : SQuery) (r : Nat) (hq : SQSim c cfg q) :
    SQSim c cfg (.paren l q r) := by
  intro k p r0 h
  rw [Spell.queryT, tkQS]
  rw [Spell.query] at h
  simp only [List.append_assoc, List.cons_append, List.nil_append] at h
  exact hq r (p + 1 + l) _ (sfx_blanks h.tail)

/-! ### filter steps -/

theorem stepPre_filterS (env : Env) (cfg : Cfg) (ad : Bool) (b0 b1 : Nat) (q : SQuery) (b2 b3 : Nat) :
    stepPre env cfg (Spell.stepT true ad (.filter b0 b1 q b2 b3)) =
      (buildQ env cfg (Spell.queryT true q) >>= fun q' =>
        .ok [.node (String.ofList (Spell.step ad (.filter b0 b1 q b2 b3))) true (fun i => .filter i q')]) := by
  rw [Spell.stepT, stepPre]
  rfl

/-- 7. a filter step, with blanks at the four places -/
theorem sim_step_filter_s (c : Ctx) (cfg : Cfg) (ad : Bool) (b0 b1 : Nat) (q : SQuery) (b2 b3 : Nat)
    (hq : SQSim c cfg q) : SStepSim c cfg ad (.filter b0 b1 q b2 b3) := by
  intro p r h
  rw [stepPre_filterS, tkStepS]
  have h0 : Sfx c.input (p + 1 + b0 + 2 + b1)
      (Spell.query q ++ (Spell.blanks b2 ++ (')' :: (Spell.blanks b3 ++ ']' :: r)))) := by
    have := h
    rw [Spell.step] at this
    simp only [List.cons_append, List.append_assoc, List.nil_append] at this
    exact sfx_cast (sfx_blanks (sfx_blanks this.tail).tail.tail) (by omega)
  obtain ⟨pos1, s1⟩ := hq b2 _ _ h0
  exact ⟨_, ((s1.toFrom.seq (pos2 := pos1) (fun q' _ => stage23 c q' h)).cast rfl rfl rfl rfl).toSim⟩

/-! ### `..` -/

/-- what `stepPre` answers for an abstract step that is not `..`: one written element, whose node is of
    the kind that gives `..` the flags `Build` computes from the step -/
theorem stepPre_shape' (env : Env) (cfg : Cfg) (s : Step) (hnd : ∀ s', s ≠ .desc s') (pres : List Pre)
    (h : stepPre env cfg s = .ok pres) :
    ∃ T vg mk, pres = [.node T vg mk] ∧ ∀ i, recFlags (mk i) = (BD.descMr s, BD.descLr s) := by
  cases s with
  | child t k =>
    rw [stepPre] at h; cases h
    exact ⟨_, _, _, rfl, fun _ => rfl⟩
  | wild t =>
    rw [stepPre] at h; cases h
    exact ⟨_, _, _, rfl, fun _ => rfl⟩
  | multi t ns =>
    rw [stepPre] at h; cases h
    exact ⟨_, _, _, rfl, fun _ => rfl⟩
  | union t ss =>
    rw [BD.stepPre_union] at h; cases h
    exact ⟨_, _, _, rfl, fun _ => rfl⟩
  | filter t q =>
    rw [stepPre] at h
    obtain ⟨q', _, h'⟩ := BD.bind_ok h
    cases h'
    exact ⟨_, _, _, rfl, fun _ => rfl⟩
  | desc s' => exact absurd rfl (hnd s')

theorem stepT_not_desc_s (w ad : Bool) (s : SStep) (hnd : ∀ s', s ≠ .desc s') :
    ∀ s', Spell.stepT w ad s ≠ .desc s' := by
  intro s' h
  cases s with
  | desc x => exact hnd x rfl
  | child _ _ => rw [Spell.stepT] at h; cases h
  | wild _ => rw [Spell.stepT] at h; cases h
  | multi _ _ _ _ => rw [Spell.stepT] at h; cases h
  | union _ _ _ _ => rw [Spell.stepT] at h; cases h
  | filter _ _ _ _ _ => rw [Spell.stepT] at h; cases h

/-- 9. `..` followed by a step -/
theorem sim_step_desc_s (c : Ctx) (cfg : Cfg) (s : SStep) (hnd : ∀ s', s ≠ .desc s')
    (hs : SStepSim c cfg true s) : SStepSim c cfg false (.desc s) := by
  intro p r h
  rw [Spell.stepT, BD.stepPre_desc, tkStepS]
  have h0 : Sfx c.input (p + 2) (Spell.step true s ++ r) := by
    have := h
    rw [Spell.step] at this
    simp only [List.cons_append] at this
    exact this.tail.tail
  obtain ⟨pos1, s1⟩ := hs _ r h0
  refine ⟨_, ((s1.toFrom.seq (pos2 := pos1) (fun pres hp => ?_)).cast rfl rfl rfl rfl).toSim⟩
  obtain ⟨T, vg, mk, rfl, hf⟩ := stepPre_shape' c.env cfg _ (stepT_not_desc_s true true s hnd) pres hp
  exact stage3 c T vg mk _ _ hf

end JPV.SP
