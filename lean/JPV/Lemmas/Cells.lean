/-
Cell-level lemmas: validators, comparators and the logical merges are pointwise maps.
-/
import JPV.TSem
namespace JPV
open Impl TSem

def hasTy : LitTy → Val → Bool
  | .num, .num _ => true
  | .bool, .bool _ => true
  | .str, .str _ => true
  | .null, .null => true
  | _, _ => false

/-- one cell after a typed validator -/
def v1 (ty : LitTy) : Cell → Cell
  | .empty => .empty
  | .val v =>
    match ty, v with
    | .num, .num _ => .val v
    | .num, .jnum n => .val (.num n)
    | .bool, .bool _ => .val v
    | .str, .str _ => .val v
    | .null, .null => .val v
    | _, _ => .empty

theorem validateTy_cells (ty : LitTy) : ∀ cells, (validateTy ty cells).2.1 = cells.map (v1 ty)
  | [] => rfl
  | c :: cs => by
    have ih := validateTy_cells ty cs
    cases c with
    | empty => simp only [validateTy, List.map_cons, v1]; rw [← ih]
    | val v =>
      cases ty <;> cases v <;> simp only [validateTy, List.map_cons, v1] <;> rw [← ih]

theorem validateTy_found (ty : LitTy) : ∀ cells, (validateTy ty cells).1 = (cells.map (v1 ty)).any cellNonEmpty
  | [] => rfl
  | c :: cs => by
    have ih := validateTy_found ty cs
    cases c with
    | empty => simp only [validateTy, List.map_cons, v1, List.any_cons, cellNonEmpty, Cell.isEmpty]; simpa using ih
    | val v =>
      cases ty <;> cases v <;>
        simp only [validateTy, List.map_cons, v1, List.any_cons, cellNonEmpty, Cell.isEmpty] <;> simp [ih]

theorem v1_ty (ty : LitTy) (c : Cell) (v : Val) (h : v1 ty c = .val v) : hasTy ty v = true := by
  cases c with
  | empty => simp [v1] at h
  | val w =>
    cases ty <;> cases w <;> simp [v1] at h <;> subst h <;> rfl

/-- the validator the comparator embeds -/
def cmpTyOK (c : Cmp) (v : Val) : Bool :=
  match cmpValidatorTy c with
  | none => true
  | some ty => hasTy ty v

theorem cmpTest_ok (env : Env) (c : Cmp) (l r : Val) (hl : cmpTyOK c l = true) (hr : cmpTyOK c r = true) :
    ∃ b, cmpTest env c l r = .ok b := by
  cases c with
  | deepEq => exact ⟨_, rfl⟩
  | directEq ty =>
    simp only [cmpTyOK, cmpValidatorTy] at hl hr
    cases ty <;> cases l <;> simp [hasTy] at hl <;> cases r <;> simp [hasTy] at hr <;>
      exact ⟨_, rfl⟩
  | lt => simp only [cmpTyOK, cmpValidatorTy] at hl hr
          cases l <;> simp [hasTy] at hl; cases r <;> simp [hasTy] at hr; exact ⟨_, rfl⟩
  | le => simp only [cmpTyOK, cmpValidatorTy] at hl hr
          cases l <;> simp [hasTy] at hl; cases r <;> simp [hasTy] at hr; exact ⟨_, rfl⟩
  | gt => simp only [cmpTyOK, cmpValidatorTy] at hl hr
          cases l <;> simp [hasTy] at hl; cases r <;> simp [hasTy] at hr; exact ⟨_, rfl⟩
  | ge => simp only [cmpTyOK, cmpValidatorTy] at hl hr
          cases l <;> simp [hasTy] at hl; cases r <;> simp [hasTy] at hr; exact ⟨_, rfl⟩
  | regex re => simp only [cmpTyOK, cmpValidatorTy] at hl
                cases l <;> simp [hasTy] at hl; exact ⟨_, rfl⟩

/-- one cell after the comparator -/
def cm (env : Env) (c : Cmp) (r : Val) (cell : Cell) : Cell :=
  if testCell env c r cell then cell else .empty

theorem comparator_ok (env : Env) (c : Cmp) (r : Val) :
    ∀ cells : List Cell, (∀ v, Cell.val v ∈ cells → ∃ b, cmpTest env c v r = .ok b) →
      ∃ w, comparator env c r cells = .ok (cells.any (testCell env c r), cells.map (cm env c r), w)
  | [], _ => ⟨0, rfl⟩
  | cell :: cs, h => by
    obtain ⟨w, ih⟩ := comparator_ok env c r cs (fun v hv => h v (List.mem_cons_of_mem _ hv))
    cases cell with
    | empty =>
      cases c <;>
        simp [comparator, ih, bind, Except.bind, testCell, cm]
    | val v =>
      obtain ⟨b, hb⟩ := h v (List.mem_cons_self)
      cases b <;>
        simp [comparator, ih, bind, Except.bind, testCell, cm, hb, ]

/-! ### expansion of a protocol list to one cell per member -/

def expand (cells : List Cell) (n : Nat) : List Cell :=
  if cells.length = n then cells
  else match cells with
    | c :: _ => List.replicate n c
    | [] => []

/-- the Boolean view of a protocol list -/
def absVL (cells : List Cell) (n : Nat) : List Bool := (expand cells n).map cellNonEmpty

theorem expand_map (g : Cell → Cell) (cells : List Cell) (n : Nat) :
    expand (cells.map g) n = (expand cells n).map g := by
  unfold expand
  by_cases h : cells.length = n
  · simp [h]
  · simp only [List.length_map, h, if_false]
    cases cells with
    | nil => rfl
    | cons c cs => simp

theorem expand_length (cells : List Cell) (n : Nat) (h : cells.length = n ∨ cells.length = 1) :
    (expand cells n).length = n := by
  unfold expand
  by_cases hn : cells.length = n
  · simp [hn]
  · simp only [hn, if_false]
    rcases h with h | h
    · exact absurd h hn
    · cases cells with
      | nil => simp at h
      | cons c cs => simp

theorem expand_any (p : Cell → Bool) (cells : List Cell) (n : Nat) (hn : 0 < n)
    (h : cells.length = n ∨ cells.length = 1) : (expand cells n).any p = cells.any p := by
  unfold expand
  by_cases hl : cells.length = n
  · simp [hl]
  · simp only [hl, if_false]
    rcases h with h | h
    · exact absurd h hl
    · match cells, h with
      | [c], _ =>
        simp only [List.any_cons, List.any_nil, Bool.or_false]
        cases hp : p c
        · simp [List.any_replicate, hp]
        · simp [List.any_replicate, hp]; omega

theorem expand_single (c : Cell) (n : Nat) : expand [c] n = List.replicate n c := by
  unfold expand
  by_cases h : 1 = n
  · subst h; simp
  · simp [h]

theorem expand_full (cells : List Cell) : expand cells cells.length = cells := by
  simp [expand]

end JPV
