/-
ParserTieChain — the regenerated helpers that rewrite a chain entry of the stack in place, against their
models in `Peg/Actions.lean`: `setLastNodeText`, `updateRootValueGroup`, `setNodeChain`.
-/
import JPV.Lemmas.ParserTieState
set_option linter.unusedVariables false
namespace JPV
namespace ParserLayout
open JPV JPV.ParserNode
open JPV.Gen.ParserHelpersGo

/-- an operation that rewrites one chain entry of the stack in place -/
theorem Rep.update_chain {c : Peg.Ctx} {g : PS} {L : LSt} {X : List (Nat × Cell)} (hrep : Rep c g L X)
    (s1 s2 : List LItem) (ch ch' : List LN) (hst : L.stack = s1 ++ .chain ch :: s2) (h' : Heap)
    (hframe : Frame (ids (cellsCh ch none)) g.heap h') (hsat : Sat h' (cellsCh ch' none))
    (hsub : ∀ i, i ∈ ids (cellsCh ch' none) → i ∈ ids (cellsCh ch none))
    (hnd : (ids (cellsCh ch' none)).Nodup) (hne : ch' ≠ []) (href : headRef ch' = headRef ch) :
    Rep c { g with heap := h' } { L with stack := s1 ++ .chain ch' :: s2 } X := by
  have hnd0 := hrep.nodup
  have hsat0 := hrep.sat
  rw [show L = { L with stack := s1 ++ .chain ch :: s2 } by rw [← hst]] at hnd0 hsat0
  have hold : ∀ x, x ∈ cellsItems s1 ++ cellsItems s2 ++ (cellsFrames L.saved ++ cellsCh L.root none) ++ X →
      h'[x.1]? = some x.2 := by
    intro x hx
    have hmem : x ∈ cellsSt { L with stack := s1 ++ .chain ch :: s2 } ++ X := by
      revert x; mem_rearr
    rw [hframe.2 x.1 ?_]
    · exact hsat0 x hmem
    · intro hm
      have hx1 := mem_ids_of_mem hx
      simp only [cellsSt, cellsItems_append, cellsItems, cellsItem, ids_append, List.nodup_append,
        List.mem_append] at hnd0 hx1
      grind
  exact {
    params := by
      rw [hrep.params, hst]
      simp only [List.map_append, List.map_cons, gitem, href]
    paramsList := hrep.paramsList
    root := hrep.root
    sat := by
      intro x hx
      simp only [cellsSt, cellsItems_append, cellsItems, cellsItem, List.mem_append] at hx
      by_cases hin : x ∈ cellsCh ch' none
      · exact hsat x hin
      · refine hold x ?_
        simp only [List.mem_append]
        grind
    nodup := by
      simp only [cellsSt, cellsItems_append, cellsItems, cellsItem, ids_append, List.nodup_append,
        List.mem_append] at hnd0 ⊢
      grind
    wfStack := by
      intro x hx
      rcases List.mem_append.mp hx with hx | hx
      · exact hrep.wfStack x (by rw [hst]; exact List.mem_append_left _ hx)
      · rcases List.mem_cons.mp hx with rfl | hx
        · exact hne
        · exact hrep.wfStack x (by rw [hst]; exact List.mem_append_right _ (List.mem_cons_of_mem _ hx))
    wfSaved := hrep.wfSaved
    acc := hrep.acc
    ffn := hrep.ffn
    afn := hrep.afn }

/-! ### `setLastNodeText` -/

def setTextI (t : String) : Info → Info := fun i => { i with text := t }

/-- the `if multiIdentifier, ok := node.(*syntaxChildMultiIdentifier); ok` statement of `setLastNodeText` -/
def setTextPart (node : NRef) (text : String) (p : PS) : M PS :=
  match NRef.asPtr .multi node with
  | some multiIdentifier => do
    let t_2 ← rd p.heap (some multiIdentifier) (·.identifiers)
    let p ← forEach t_2 p (fun identifier p => do
        let p ← p.onHeap (nodeSetText identifier text)
        .ok p
      )
    let t_3 ← rd p.heap (some multiIdentifier) (·.isAllWildcard)
    if t_3 then do
      let t_4 ← rd p.heap (some multiIdentifier) (·.unionQualifier.basic)
      let p ← p.onHeap (basicSetText t_4 text)
      .ok p
    else do
      .ok p
  | none => do
    .ok p

theorem setLastNodeText_unfold (text : String) (p : PS) :
    setLastNodeText text p = (do
      let t_1 ← sliceIndex p.params (goLen p.params - 1)
      let node ← GItem.asNode t_1
      let p ← p.onHeap (nodeSetText node text)
      setTextPart node text p) := rfl

theorem setTextPart_other (k : Kind) (hk : k ≠ .multi) (id : Nat) (text : String) (p : PS) :
    setTextPart (some (k, id)) text p = .ok p := by
  cases k <;> first | rfl | exact absurd rfl hk

/-- `node.setText(text)` and the forwarding to the inner identifiers -/
theorem setText_node (text : String) (id : Nat) (i : Info) (s : LShape) (nx : NRef) (p : PS)
    (hsat : Sat p.heap (cellsN (.mk id i s) nx)) (hnd : (ids (cellsN (.mk id i s) nx)).Nodup) :
    ∃ h', (do
        let p ← p.onHeap (nodeSetText (some (s.kind, id)) text)
        setTextPart (some (s.kind, id)) text p) = .ok { p with heap := h' } ∧
      Sat h' (cellsN ((LN.mk id i s).mapDeep (setTextI text)) nx) ∧ Frame (ids (cellsN (.mk id i s) nx)) p.heap h' := by
  have hhead : p.heap[id]? = some (nodeCell id i s nx) := hsat.head
  let h1 := p.heap.set id (cellInfo (setTextI text) (nodeCell id i s nx))
  have hf1 : Frame [id] p.heap h1 := Frame.set _ _ _
  have h1head : h1[id]? = some (cellInfo (setTextI text) (nodeCell id i s nx)) := get_set_self hhead _
  have hstart : (do
        let p ← p.onHeap (nodeSetText (some (s.kind, id)) text)
        setTextPart (some (s.kind, id)) text p) = setTextPart (some (s.kind, id)) text { p with heap := h1 } := by
    rw [onHeap_ok (nodeSetText_some hhead text), bind_ok]
    rfl
  rw [hstart]
  by_cases hk : s.kind = .multi
  · cases s with
    | multi L twin =>
      have hnd' := hnd
      simp only [cellsN, cellsS, ids_cons, ids_append, ids_innerCells, List.nodup_cons, List.nodup_append,
        List.mem_append, not_or] at hnd'
      obtain ⟨⟨hidL, hidT⟩, hLnd, hTnd, hLT⟩ := hnd'
      have hsatI : Sat p.heap (innerCells L nx) := by
        simp only [cellsN, cellsS] at hsat; exact hsat.tail.left
      have h1I : Sat h1 (innerCells L nx) := by
        refine Sat.frame hsatI hf1 ?_
        intro x hx hm
        have hx' := mem_ids_of_mem hx
        rw [ids_innerCells, List.mem_singleton.mp hm] at hx'
        exact hidL hx'
      obtain ⟨h2, he2, -, hs2, hf2⟩ := forEach_inner (σ := PS) (fun s => s.heap) (fun s h => { s with heap := h })
        (fun _ _ => rfl) (fun _ _ _ => rfl) (fun _ => rfl) (fun _ => True) (cellInfo (setTextI text))
        (fun identifier p => do
          let p ← p.onHeap (nodeSetText identifier text)
          .ok p) nx L hLnd
        (fun _ _ _ _ _ => trivial)
        (by
          intro l _ s _ hl
          show (s.onHeap (nodeSetText (some (MId.kind l.m, l.id)) text) >>= _) = _
          rw [onHeap_ok (nodeSetText_some hl text), bind_ok]
          rfl)
        { p with heap := h1 } trivial h1I
      obtain ⟨h2head, h2twin, hs3, hf3⟩ := deep_assemble (setTextI text) id i L twin nx p.heap h2 hsat hnd hs2 hf2
      refine ⟨_, ?_, hs3, hf3⟩
      show ((rd h1 (some id) (·.identifiers) >>= _) : M PS) = _
      rw [rd_some h1head, bind_ok]
      show (forEach (L.map LId.ref) { p with heap := h1 } _ >>= _) = _
      rw [he2, bind_ok]
      show ((rd h2 (some id) (·.isAllWildcard) >>= _) : M PS) = _
      rw [rd_some h2head, bind_ok]
      cases twin with
      | none => rfl
      | some tw =>
        obtain ⟨t, ti⟩ := tw
        show ((rd h2 (some id) (·.unionQualifier.basic) >>= _) : M PS) = _
        rw [rd_some h2head, bind_ok]
        show ((PS.onHeap { p with heap := h2 } (basicSetText (some t) text) >>= _) : M PS) = _
        rw [onHeap_ok (p := { p with heap := h2 }) (basicSetText_some (h2twin t ti rfl) text), bind_ok]
        rfl
    | _ => exact absurd hk (by intro e; cases e)
  · refine ⟨h1, setTextPart_other _ hk _ _ _, ?_, ?_⟩
    · simp only [LN.mapDeep, cellsN, LShape.mapDeep_not_multi _ s hk] at hsat ⊢ hnd
      refine Sat.cons h1head (Sat.frame hsat.tail hf1 ?_)
      intro x hx hm
      have hx' := mem_ids_of_mem hx
      rw [List.mem_singleton.mp hm] at hx'
      simp only [ids_cons, List.nodup_cons] at hnd
      exact hnd.1 hx'
    · refine hf1.mono ?_
      intro j hj
      rw [List.mem_singleton.mp hj]
      simp only [cellsN, ids_cons]
      exact List.mem_cons_self ..


/-- the cells of one stack entry -/
theorem Rep.item {c : Peg.Ctx} {g : PS} {L : LSt} {X : List (Nat × Cell)} (hrep : Rep c g L X)
    (s1 s2 : List LItem) (it : LItem) (hst : L.stack = s1 ++ it :: s2) :
    Sat g.heap (cellsItem it) ∧ (ids (cellsItem it)).Nodup := by
  have hnd0 := hrep.nodup
  have hsat0 := hrep.sat
  rw [show L = { L with stack := s1 ++ it :: s2 } by rw [← hst]] at hnd0 hsat0
  constructor
  · exact hsat0.subset (by mem_rearr)
  · simp only [cellsSt, cellsItems_append, cellsItems, ids_append, List.nodup_append] at hnd0
    exact hnd0.1.1.2.1.1

theorem eraseSt_stack_snoc (L : LSt) (s : List LItem) (it : LItem) (tb te : Nat) (hst : L.stack = s ++ [it]) :
    (eraseSt L tb te).stack = eraseItem it :: (s.map eraseItem).reverse := by
  simp only [eraseSt, hst, List.map_append, List.map_cons, List.map_nil, List.reverse_append, List.reverse_cons,
    List.reverse_nil, List.nil_append, List.cons_append]

theorem asNode_not_chain (it : LItem) (h : ∀ n tl, it ≠ .chain (n :: tl)) :
    Peg.asNode (eraseItem it) = .error (.panic .typeAssertion) ∧ GItem.asNode (gitem it) = .error .typeAssertion := by
  cases it with
  | chain ch =>
    cases ch with
    | nil => exact ⟨rfl, rfl⟩
    | cons n tl => exact absurd rfl (h n tl)
  | sub s => cases s <;> exact ⟨rfl, rfl⟩
  | _ => exact ⟨rfl, rfl⟩

theorem asNode_chain (n : LN) (tl : List LN) :
    Peg.asNode (eraseItem (.chain (n :: tl))) = .ok (eraseN n :: eraseCh tl) ∧
    GItem.asNode (gitem (.chain (n :: tl))) = .ok n.ref := by
  obtain ⟨id, i, s⟩ := n
  exact ⟨rfl, rfl⟩

/-- `setLastNodeText(text)` -/
theorem setLastNodeText_tie (c : Peg.Ctx) (g : PS) (L : LSt) (X : List (Nat × Cell)) (tb te : Nat) (text : String)
    (hrep : Rep c g L X) :
    Sim c X tb te (setLastNodeText text g) (Peg.setLastNodeText text (eraseSt L tb te)) := by
  rcases list_snoc_cases L.stack with hnil | ⟨s, it, hs⟩
  · have hm : Peg.setLastNodeText text (eraseSt L tb te) = .error (.panic .indexOutOfRange) := by
      simp only [Peg.setLastNodeText, eraseSt, hnil, List.map_nil, List.reverse_nil]
    rw [hm]
    refine Sim.err (e' := .indexOutOfRange) ?_ rfl
    rw [setLastNodeText_unfold, hrep.params, hnil]
    rfl
  · have hstk := eraseSt_stack_snoc L s it tb te hs
    have hparams : g.params = s.map gitem ++ [gitem it] := by
      rw [hrep.params, hs, List.map_append]; rfl
    have hlast : sliceIndex g.params (goLen g.params - 1) = .ok (gitem it) := by
      rw [hparams]; exact sliceIndex_last _ _
    by_cases hch : ∃ n tl, it = .chain (n :: tl)
    · obtain ⟨n, tl, rfl⟩ := hch
      obtain ⟨id, i, sh⟩ := n
      obtain ⟨hsatI, hndI⟩ := hrep.item s [] _ hs
      simp only [cellsItem, cellsCh] at hsatI hndI
      rw [ids_append, List.nodup_append] at hndI
      obtain ⟨hndN, hndT, hdis⟩ := hndI
      obtain ⟨h', he, hs', hf'⟩ := setText_node text id i sh (headRefD tl none) g hsatI.left hndN
      have hm : Peg.setLastNodeText text (eraseSt L tb te) =
          .ok { eraseSt L tb te with stack := .chain (Peg.nSetText text (eraseN (.mk id i sh)) :: eraseCh tl) ::
            (s.map eraseItem).reverse } := by
        simp only [Peg.setLastNodeText, hstk, (asNode_chain (.mk id i sh) tl).1]
        rfl
      rw [hm]
      refine Sim.ok ⟨{ g with heap := h' }, { L with stack := s ++ [.chain ((LN.mk id i sh).mapDeep (setTextI text) :: tl)] }, ?_, ?_, ?_⟩
      · rw [setLastNodeText_unfold, hlast, bind_ok, (asNode_chain (.mk id i sh) tl).2, bind_ok]
        exact he
      · refine hrep.update_chain s [] _ _ hs h' ?_ ?_ ?_ ?_ (by intro e; cases e) ?_
        · refine hf'.mono ?_
          intro j hj
          simp only [cellsCh, ids_append]
          exact List.mem_append_left _ hj
        · simp only [cellsCh]
          refine Sat.append hs' (Sat.frame hsatI.right hf' ?_)
          intro x hx hm
          exact hdis x.1 hm x.1 (mem_ids_of_mem hx) rfl
        · intro j hj
          simp only [cellsCh, ids_append, ids_cellsN_mapDeep] at hj ⊢
          exact hj
        · simp only [cellsCh, ids_append, ids_cellsN_mapDeep]
          rw [List.nodup_append]
          exact ⟨hndN, hndT, hdis⟩
        · show ((LN.mk id i sh).mapDeep (setTextI text)).ref = _
          exact LN.ref_mapDeep _ _
      · simp only [eraseSt, List.map_append, List.map_cons, List.map_nil, List.reverse_append, List.reverse_cons,
          List.reverse_nil, List.nil_append, List.cons_append, eraseItem, eraseCh, eraseN_mapDeep]
        rfl
    · have hno : ∀ n tl, it ≠ .chain (n :: tl) := fun n tl e => hch ⟨n, tl, e⟩
      have hm : Peg.setLastNodeText text (eraseSt L tb te) = .error (.panic .typeAssertion) := by
        simp only [Peg.setLastNodeText, hstk, (asNode_not_chain it hno).1]
        rfl
      rw [hm]
      refine Sim.err (e' := .typeAssertion) ?_ rfl
      rw [setLastNodeText_unfold, hlast, bind_ok, (asNode_not_chain it hno).2]
      rfl

/-! ### `updateRootValueGroup` -/

theorem ids_cellsCh_markVgL (A : List LN) (tl : NRef) : ids (cellsCh (markVgL A) tl) = ids (cellsCh A tl) := by
  cases A with
  | nil => rfl
  | cons n rest =>
    simp only [markVgL]
    split
    · simp only [cellsCh, ids_append, ids_cellsN_mapInfo]
    · rfl

theorem headRef_markVgL (A : List LN) : headRef (markVgL A) = headRef A := by
  cases A with
  | nil => rfl
  | cons n rest =>
    simp only [markVgL]
    split
    · exact LN.ref_mapInfo _ _
    · rfl

theorem markVgL_ne_nil (A : List LN) (h : A ≠ []) : markVgL A ≠ [] := by
  cases A with
  | nil => exact absurd rfl h
  | cons n rest =>
    simp only [markVgL]
    split <;> intro e <;> cases e

/-- `updateRootValueGroup()` -/
theorem updateRootValueGroup_tie (c : Peg.Ctx) (g : PS) (L : LSt) (X : List (Nat × Cell)) (tb te : Nat) (fuel : Nat)
    (hrep : Rep c g L X) (hfuel : sizeItems L.stack ≤ fuel) :
    Sim c X tb te (updateRootValueGroup fuel g) (Peg.updateRootValueGroup (eraseSt L tb te)) := by
  cases hst : L.stack with
  | nil =>
    have hm : Peg.updateRootValueGroup (eraseSt L tb te) = .error (.panic .indexOutOfRange) := by
      simp only [Peg.updateRootValueGroup, eraseSt, hst, List.map_nil, List.reverse_nil]
    rw [hm]
    refine Sim.err (e' := .indexOutOfRange) ?_ rfl
    simp only [updateRootValueGroup, hrep.params, hst, List.map_nil, sliceIndex_nil_zero, bind_err]
  | cons it rest =>
    have hstk : (eraseSt L tb te).stack.reverse = eraseItem it :: rest.map eraseItem := by
      simp only [eraseSt, hst, List.map_cons, List.reverse_reverse]
    have hfirst : sliceIndex g.params 0 = .ok (gitem it) := by
      rw [hrep.params, hst]; exact sliceIndex_zero _ _
    by_cases hch : ∃ n tl, it = .chain (n :: tl)
    · obtain ⟨n, tl, rfl⟩ := hch
      obtain ⟨hsatI, hndI⟩ := hrep.item [] rest _ hst
      simp only [cellsItem] at hsatI hndI
      have hlen : (n :: tl).length ≤ fuel := by
        have := length_le_sizeCh (n :: tl)
        simp only [hst, sizeItems, sizeItem] at hfuel
        omega
      obtain ⟨h', he, hs', hf'⟩ := updateValueGroup_chain fuel (n :: tl) g hlen hsatI hndI
      have hm : Peg.updateRootValueGroup (eraseSt L tb te) =
          .ok { eraseSt L tb te with stack := (Peg.Item.chain (Peg.markVg (eraseCh (n :: tl))) :: rest.map eraseItem).reverse } := by
        simp only [Peg.updateRootValueGroup, hstk, (asNode_chain n tl).1]
        rfl
      rw [hm]
      refine Sim.ok ⟨{ g with heap := h' }, { L with stack := [] ++ .chain (markVgL (n :: tl)) :: rest }, ?_, ?_, ?_⟩
      · simp only [updateRootValueGroup, hfirst, bind_ok, (asNode_chain n tl).2]
        have he' : updateValueGroup fuel n.ref g = .ok { g with heap := h' } := he
        rw [he', bind_ok]
      · exact hrep.update_chain [] rest _ _ hst h' hf' hs'
          (by intro j hj; rw [ids_cellsCh_markVgL] at hj; exact hj)
          (by rw [ids_cellsCh_markVgL]; exact hndI)
          (markVgL_ne_nil _ (by intro e; cases e)) (headRef_markVgL _)
      · simp only [eraseSt, List.nil_append, List.map_cons, eraseItem, eraseCh_markVgL]
    · have hno : ∀ n tl, it ≠ .chain (n :: tl) := fun n tl e => hch ⟨n, tl, e⟩
      have hm : Peg.updateRootValueGroup (eraseSt L tb te) = .error (.panic .typeAssertion) := by
        simp only [Peg.updateRootValueGroup, hstk, (asNode_not_chain it hno).1]
        rfl
      rw [hm]
      refine Sim.err (e' := .typeAssertion) ?_ rfl
      simp only [updateRootValueGroup, hfirst, bind_ok, (asNode_not_chain it hno).2, bind_err]

/-! ### `setNodeChain` -/

/-- the body of the loop of `setNodeChain` -/
def linkBody (fuel : Nat) (next : GItem) : NRef × NRef × PS → M (NRef × NRef × PS) := fun (root, last, p) =>
  match GItem.asPtr .afn next with
  | some funcNode => do
    let p ← updateValueGroup fuel root p
    let p ← p.onHeap (fun h => wr h (some funcNode) (fun c => { c with param := root }))
    let t_3 ← rd p.heap (some funcNode) (·.param)
    let p ← updateAccessorMode fuel t_3 false p
    let root := NRef.of .afn funcNode
    let last := root
    .ok (root, last, p)
  | none => do
    let nextNode ← GItem.asNode next
    let p ← p.onHeap (nodeSetNext fuel last nextNode)
    let last := nextNode
    .ok (root, last, p)

theorem setNodeChain_unfold (fuel : Nat) (p : PS) :
    setNodeChain fuel p = (if goLen p.params > 1 then do
        let t_1 ← sliceIndex p.params 0
        let root ← GItem.asNode t_1
        let t_2 ← sliceFrom p.params 1
        let (root, last, p) ← forEach t_2 (root, root, p) (linkBody fuel)
        .ok { p with params := [GItem.ofNRef root] }
      else .ok p) := rfl

theorem sizeN_mapDeep (F : Info → Info) (n : LN) : sizeN (n.mapDeep F) = sizeN n := by
  obtain ⟨id, i, s⟩ := n
  cases s <;> rfl

theorem sizeN_mapInfo (F : Info → Info) (n : LN) : sizeN (n.mapInfo F) = sizeN n := by
  obtain ⟨id, i, s⟩ := n
  rfl

theorem sizeCh_map_mapDeep (F : Info → Info) (A : List LN) : sizeCh (A.map (LN.mapDeep F)) = sizeCh A := by
  induction A with
  | nil => rfl
  | cons n rest ih => simp only [List.map_cons, sizeCh, ih, sizeN_mapDeep]

theorem sizeCh_markVgL (A : List LN) : sizeCh (markVgL A) = sizeCh A := by
  cases A with
  | nil => rfl
  | cons n rest =>
    simp only [markVgL]
    split
    · simp only [sizeCh, sizeN_mapInfo]
    · rfl

theorem sizeCh_append (A B : List LN) : sizeCh (A ++ B) = sizeCh A + sizeCh B := by
  induction A with
  | nil => simp only [List.nil_append, sizeCh, Nat.zero_add]
  | cons n rest ih => simp only [List.cons_append, sizeCh, ih]; omega

theorem ids_cellsCh_map_mapDeep (F : Info → Info) (A : List LN) (tl : NRef) :
    ids (cellsCh (A.map (LN.mapDeep F)) tl) = ids (cellsCh A tl) := by
  induction A with
  | nil => rfl
  | cons n rest ih =>
    simp only [List.map_cons, cellsCh, ids_append, ih, ids_cellsN_mapDeep]
    rw [ids_cellsN n (headRefD (rest.map (LN.mapDeep F)) tl) (headRefD rest tl)]

theorem eraseCh_setAcc (m : Bool) (A : List LN) :
    eraseCh (A.map (LN.mapDeep (setAccI m))) = Peg.setAccChain m (eraseCh A) := by
  induction A with
  | nil => rfl
  | cons n rest ih =>
    simp only [List.map_cons, eraseCh, ih, Peg.setAccChain, eraseN_mapDeep]
    rfl

theorem headRefD_of_ne (B : List LN) (hB : B ≠ []) (tl : NRef) : headRefD B tl = headRef B := by
  cases B with
  | nil => exact absurd rfl hB
  | cons n r => rfl

theorem asPtr_afn_node (k : Kind) (id : Nat) : GItem.asPtr .afn (.node k id) = if k = .afn then some id else none := rfl


/-- what one iteration establishes -/
structure LinkOut (p : PS) (old : List Nat) (szOld : Nat) (res : NRef × NRef × PS) (Re' : List N) : Prop where
  ex : ∃ (h' : Heap) (R' P' B' : List LN), res = (headRef R', headRef B', { p with heap := h' }) ∧
    R' = P' ++ B' ∧ B' ≠ [] ∧ eraseCh R' = Re' ∧ Sat h' (cellsCh R' none) ∧ (ids (cellsCh R' none)).Nodup ∧
    (∀ j, j ∈ ids (cellsCh R' none) → j ∈ old) ∧ Frame old p.heap h' ∧ sizeCh R' ≤ szOld

/-- an ordinary node entry is linked behind the last linked node -/
theorem link_step_append (f : Nat) (P B : List LN) (hB : B ≠ []) (n : LN) (tl : List LN) (hk : n.shape.kind ≠ .afn)
    (p : PS) (hsat : Sat p.heap (cellsCh (P ++ B) none ++ cellsCh (n :: tl) none))
    (hnd : (ids (cellsCh (P ++ B) none ++ cellsCh (n :: tl) none)).Nodup)
    (hsize : B.length < f) :
    ∃ res, linkBody f (gitem (.chain (n :: tl))) (headRef (P ++ B), headRef B, p) = .ok res ∧
      LinkOut p (ids (cellsCh (P ++ B) none ++ cellsCh (n :: tl) none))
        (sizeCh (P ++ B) + sizeCh (n :: tl)) res (eraseCh (P ++ B) ++ eraseCh (n :: tl)) := by
  obtain ⟨id, i, s⟩ := n
  have hsplit : cellsCh (P ++ B) none = cellsCh P (headRef B) ++ cellsCh B none := by
    rw [cellsCh_append, headRefD_of_ne B hB]
  have hsatB : Sat p.heap (cellsCh B none) := by rw [hsplit] at hsat; exact hsat.left.right
  have hndB : (ids (cellsCh B none)).Nodup := by
    rw [hsplit] at hnd
    simp only [ids_append, List.nodup_append] at hnd
    exact hnd.1.2.1
  obtain ⟨h', he, hs', hf'⟩ := nodeSetNext_chain B f p.heap (some (s.kind, id)) hB hsize hsatB hndB
  have hk' : s.kind ≠ .afn := hk
  have hhead : headRef ((P ++ B) ++ LN.mk id i s :: tl) = headRef (P ++ B) := by
    cases hPB : P ++ B with
    | nil =>
      exfalso
      cases P with
      | nil => exact hB (by simpa using hPB)
      | cons a b => cases hPB
    | cons a b => rfl
  refine ⟨(headRef ((P ++ B) ++ LN.mk id i s :: tl), headRef (LN.mk id i s :: tl), { p with heap := h' }), ?_,
    ⟨h', (P ++ B) ++ LN.mk id i s :: tl, P ++ B, LN.mk id i s :: tl, rfl, rfl, List.cons_ne_nil _ _,
      eraseCh_append _ _, ?_, ?_, ?_, ?_, ?_⟩⟩
  · have hap : GItem.asPtr .afn (gitem (.chain (LN.mk id i s :: tl))) = none := by
      show GItem.asPtr .afn (.node s.kind id) = none
      rw [asPtr_afn_node, if_neg hk']
    simp only [linkBody, hap]
    show ((GItem.asNode (.node s.kind id) >>= _) : M (NRef × NRef × PS)) = _
    simp only [GItem.asNode, bind_ok]
    rw [onHeap_ok he, bind_ok, hhead]
    rfl
  · rw [cellsCh_append, show headRefD (LN.mk id i s :: tl) none = some (s.kind, id) from rfl, cellsCh_append,
      headRefD_of_ne B hB]
    have hidsB : ∀ x ∈ cellsCh P (headRef B) ++ cellsCh (LN.mk id i s :: tl) none, x.1 ∉ ids (cellsCh B none) := by
      intro x hx hm
      have hx1 := mem_ids_of_mem hx
      rw [hsplit] at hnd
      simp only [ids_append, List.nodup_append, List.mem_append] at hnd hx1
      grind
    have hsat' : Sat p.heap (cellsCh P (headRef B) ++ cellsCh (LN.mk id i s :: tl) none) := by
      rw [hsplit] at hsat
      exact Sat.append hsat.left.left hsat.right
    have hfr := Sat.frame hsat' hf' hidsB
    exact Sat.append (Sat.append hfr.left hs') hfr.right
  · rw [cellsCh_append, ids_append, ids_cellsCh (P ++ B) _ none]
    rw [ids_append] at hnd
    exact hnd
  · intro j hj
    rw [cellsCh_append, ids_append, ids_cellsCh (P ++ B) _ none] at hj
    rw [ids_append]
    exact hj
  · refine hf'.mono ?_
    intro j hj
    rw [hsplit]
    simp only [ids_append, List.mem_append]
    exact Or.inl (Or.inr hj)
  · rw [sizeCh_append]
    exact Nat.le_refl _


/-- an aggregate-function entry wraps everything linked so far as its parameter -/
theorem link_step_afn (f : Nat) (R : List LN) (last : NRef) (id : Nat) (i : Info) (name : String) (q0 tl : List LN)
    (p : PS) (hsat : Sat p.heap (cellsCh R none ++ cellsCh (LN.mk id i (.afn name q0) :: tl) none))
    (hnd : (ids (cellsCh R none ++ cellsCh (LN.mk id i (.afn name q0) :: tl) none)).Nodup)
    (hsize : R.length ≤ f + 2) :
    ∃ res, linkBody (f + 2) (gitem (.chain (LN.mk id i (.afn name q0) :: tl))) (headRef R, last, p) = .ok res ∧
      LinkOut p (ids (cellsCh R none ++ cellsCh (LN.mk id i (.afn name q0) :: tl) none))
        (sizeCh R + sizeCh (LN.mk id i (.afn name q0) :: tl)) res
        (.afn i name (Peg.setAccChain false (Peg.markVg (eraseCh R))) :: eraseCh tl) := by
  have hsatR : Sat p.heap (cellsCh R none) := hsat.left
  have hndR : (ids (cellsCh R none)).Nodup := by
    simp only [ids_append, List.nodup_append] at hnd; exact hnd.1
  have hhead : p.heap[id]? = some (nodeCell id i (.afn name q0) (headRefD tl none)) := by
    simp only [cellsCh, cellsN] at hsat; exact hsat.right.left.head
  have hidR : id ∉ ids (cellsCh R none) := by
    intro hm
    simp only [cellsCh, cellsN, cellsS, ids_append, ids_cons, List.nodup_append, List.mem_append,
      List.mem_cons] at hnd
    grind
  -- updateValueGroup(root)
  obtain ⟨h1, he1, hs1, hf1⟩ := updateValueGroup_chain (f + 2) R p hsize hsatR hndR
  have hhead1 : h1[id]? = some (nodeCell id i (.afn name q0) (headRefD tl none)) := hf1.get hidR hhead
  -- funcNode.param = root
  let R2 := (markVgL R).map (LN.mapDeep (setAccI false))
  let h2 := h1.set id (nodeCell id i (.afn name R2) (headRefD tl none))
  have hrefR2 : headRef R2 = headRef R := by
    rw [headRef_map _ (LN.ref_mapDeep _), headRef_markVgL]
  have hcell : ({ nodeCell id i (.afn name q0) (headRefD tl none) with param := headRef R } : Cell) =
      nodeCell id i (.afn name R2) (headRefD tl none) := by
    show _ = { nodeCell id i (.afn name q0) (headRefD tl none) with param := headRef R2 }
    rw [hrefR2]
  have hf2 : Frame [id] h1 h2 := Frame.set _ _ _
  have hhead2 : h2[id]? = some (nodeCell id i (.afn name R2) (headRefD tl none)) := get_set_self hhead1 _
  have hs2 : Sat h2 (cellsCh (markVgL R) none) := by
    refine Sat.frame hs1 hf2 ?_
    intro x hx hm
    have hx' := mem_ids_of_mem hx
    rw [ids_cellsCh_markVgL, List.mem_singleton.mp hm] at hx'
    exact hidR hx'
  -- updateAccessorMode(funcNode.param, false)
  obtain ⟨h3, he3, hs3, hf3⟩ := updateAccessorMode_chain f false (markVgL R) { p with heap := h2 }
    (by
      have : (markVgL R).length = R.length := by
        cases R with
        | nil => rfl
        | cons a b => simp only [markVgL]; split <;> rfl
      rw [this]; exact hsize)
    hs2 (by rw [ids_cellsCh_markVgL]; exact hndR)
  rw [ids_cellsCh_markVgL] at hf3
  have hhead3 : h3[id]? = some (nodeCell id i (.afn name R2) (headRefD tl none)) := hf3.get hidR hhead2
  refine ⟨(some (.afn, id), some (.afn, id), { p with heap := h3 }), ?_,
    ⟨h3, LN.mk id i (.afn name R2) :: tl, [], LN.mk id i (.afn name R2) :: tl, rfl, rfl, List.cons_ne_nil _ _, ?_, ?_,
      ?_, ?_, ?_, ?_⟩⟩
  · have hap : GItem.asPtr .afn (gitem (.chain (LN.mk id i (.afn name q0) :: tl))) = some id := rfl
    simp only [linkBody, hap]
    rw [he1, bind_ok]
    show ((PS.onHeap { p with heap := h1 } _ >>= _) : M (NRef × NRef × PS)) = _
    rw [onHeap_ok (p := { p with heap := h1 }) (wr_some hhead1 _), bind_ok, hcell]
    show ((rd h2 (some id) (·.param) >>= _) : M (NRef × NRef × PS)) = _
    rw [rd_some hhead2, bind_ok]
    show ((updateAccessorMode (f + 2) (headRef R2) false { p with heap := h2 } >>= _) : M (NRef × NRef × PS)) = _
    rw [hrefR2, ← headRef_markVgL R, he3, bind_ok]
    rfl
  · simp only [eraseCh, eraseN, eraseS]
    show N.afn i name (eraseCh ((markVgL R).map (LN.mapDeep (setAccI false)))) :: eraseCh tl = _
    rw [eraseCh_setAcc, eraseCh_markVgL]
  · simp only [cellsCh, cellsN, cellsS] at hsat ⊢
    have hsatTl : Sat p.heap (cellsCh tl none) := hsat.right.right
    have hidsTl : ∀ x ∈ cellsCh tl none, x.1 ∉ ids (cellsCh R none) ∧ x.1 ≠ id := by
      intro x hx
      have hx1 := mem_ids_of_mem hx
      simp only [cellsCh, cellsN, cellsS, ids_append, ids_cons, List.nodup_append, List.nodup_cons, List.mem_append,
        List.mem_cons] at hnd
      grind
    refine Sat.append (Sat.cons hhead3 hs3) ?_
    refine Sat.frame (Sat.frame (Sat.frame hsatTl hf1 (fun x hx => (hidsTl x hx).1)) hf2 ?_) hf3 (fun x hx => (hidsTl x hx).1)
    intro x hx hm
    exact (hidsTl x hx).2 (List.mem_singleton.mp hm)
  · simp only [cellsCh, cellsN, cellsS, ids_append, ids_cons, List.nodup_append, List.nodup_cons, List.mem_append,
      List.mem_cons] at hnd ⊢
    rw [show ids (cellsCh R2 none) = ids (cellsCh R none) by
      show ids (cellsCh ((markVgL R).map _) none) = _
      rw [ids_cellsCh_map_mapDeep, ids_cellsCh_markVgL]]
    grind
  · intro j hj
    simp only [cellsCh, cellsN, cellsS, ids_append, ids_cons, List.mem_append, List.mem_cons] at hj ⊢
    rw [show ids (cellsCh R2 none) = ids (cellsCh R none) by
      show ids (cellsCh ((markVgL R).map _) none) = _
      rw [ids_cellsCh_map_mapDeep, ids_cellsCh_markVgL]] at hj
    grind
  · refine ((hf1.trans hf2).trans hf3).mono ?_
    intro j hj
    simp only [cellsCh, cellsN, cellsS, ids_append, ids_cons, List.mem_append, List.mem_cons] at hj ⊢
    grind
  · simp only [sizeCh, sizeN, sizeS]
    rw [show sizeCh R2 = sizeCh R by
      show sizeCh ((markVgL R).map _) = _
      rw [sizeCh_map_mapDeep, sizeCh_markVgL]]
    omega


theorem linkOne_chain_other (root : List N) (id : Nat) (i : Info) (s : LShape) (tl : List LN) (hk : s.kind ≠ .afn) :
    Peg.linkOne root (eraseItem (.chain (LN.mk id i s :: tl))) = .ok (root ++ eraseCh (LN.mk id i s :: tl)) := by
  cases s <;> first | rfl | exact absurd rfl hk

theorem linkBody_not_chain (fuel : Nat) (it : LItem) (h : ∀ n tl, it ≠ .chain (n :: tl)) (st : NRef × NRef × PS) :
    linkBody fuel (gitem it) st = .error .typeAssertion := by
  obtain ⟨root, last, p⟩ := st
  cases it with
  | chain ch =>
    cases ch with
    | nil => rfl
    | cons n tl => exact absurd rfl (h n tl)
  | _ => rfl

theorem linkOne_not_chain (root : List N) (it : LItem) (h : ∀ n tl, it ≠ .chain (n :: tl)) :
    Peg.linkOne root (eraseItem it) = .error (.panic .typeAssertion) := by
  cases it with
  | chain ch =>
    cases ch with
    | nil => rfl
    | cons n tl => exact absurd rfl (h n tl)
  | sub s => cases s <;> rfl
  | _ => rfl

/-- one iteration of the loop of `setNodeChain` against `Peg.linkOne` -/
theorem link_step (f : Nat) (P B : List LN) (hB : B ≠ []) (it : LItem) (p : PS)
    (hsat : Sat p.heap (cellsCh (P ++ B) none ++ cellsItem it))
    (hnd : (ids (cellsCh (P ++ B) none ++ cellsItem it)).Nodup)
    (hsize : sizeCh (P ++ B) + 1 ≤ f + 2) :
    match Peg.linkOne (eraseCh (P ++ B)) (eraseItem it) with
    | .ok Re' => ∃ res, linkBody (f + 2) (gitem it) (headRef (P ++ B), headRef B, p) = .ok res ∧
        LinkOut p (ids (cellsCh (P ++ B) none ++ cellsItem it)) (sizeCh (P ++ B) + sizeItem it) res Re'
    | .error e => e = .panic .typeAssertion ∧
        linkBody (f + 2) (gitem it) (headRef (P ++ B), headRef B, p) = .error .typeAssertion := by
  by_cases hch : ∃ n tl, it = .chain (n :: tl)
  · obtain ⟨n, tl, rfl⟩ := hch
    obtain ⟨id, i, s⟩ := n
    have hlenR := length_le_sizeCh (P ++ B)
    by_cases hk : s.kind = .afn
    · cases s with
      | afn name q0 =>
        have hm : Peg.linkOne (eraseCh (P ++ B)) (eraseItem (.chain (LN.mk id i (.afn name q0) :: tl))) =
            .ok (.afn i name (Peg.setAccChain false (Peg.markVg (eraseCh (P ++ B)))) :: eraseCh tl) := rfl
        rw [hm]
        exact link_step_afn f (P ++ B) (headRef B) id i name q0 tl p hsat hnd (by omega)
      | _ => exact absurd hk (by intro e; cases e)
    · rw [linkOne_chain_other _ id i s tl hk]
      have hlenB : B.length < f + 2 := by
        have : B.length ≤ (P ++ B).length := by simp only [List.length_append]; omega
        omega
      exact link_step_append (f + 2) P B hB (LN.mk id i s) tl hk p hsat hnd hlenB
  · have hno : ∀ n tl, it ≠ .chain (n :: tl) := fun n tl e => hch ⟨n, tl, e⟩
    rw [linkOne_not_chain _ it hno]
    exact ⟨rfl, linkBody_not_chain _ it hno _⟩

/-- the loop of `setNodeChain` against `Peg.linkAll` -/
theorem link_all (f : Nat) : ∀ (its : List LItem) (P B : List LN) (p : PS), B ≠ [] →
    Sat p.heap (cellsCh (P ++ B) none ++ cellsItems its) →
    (ids (cellsCh (P ++ B) none ++ cellsItems its)).Nodup →
    sizeCh (P ++ B) + sizeItems its + 1 ≤ f + 2 →
    match Peg.linkAll (eraseCh (P ++ B)) (its.map eraseItem) with
    | .ok Re' => ∃ (h' : Heap) (R' : List LN) (last : NRef),
        forEach (its.map gitem) (headRef (P ++ B), headRef B, p) (linkBody (f + 2)) =
          .ok (headRef R', last, { p with heap := h' }) ∧
        R' ≠ [] ∧ eraseCh R' = Re' ∧ Sat h' (cellsCh R' none) ∧ (ids (cellsCh R' none)).Nodup ∧
        (∀ j, j ∈ ids (cellsCh R' none) → j ∈ ids (cellsCh (P ++ B) none ++ cellsItems its)) ∧
        Frame (ids (cellsCh (P ++ B) none ++ cellsItems its)) p.heap h'
    | .error e => e = .panic .typeAssertion ∧
        forEach (its.map gitem) (headRef (P ++ B), headRef B, p) (linkBody (f + 2)) = .error .typeAssertion := by
  intro its
  induction its with
  | nil =>
    intro P B p hB hsat hnd _
    simp only [List.map_nil, Peg.linkAll, forEach, cellsItems, List.append_nil] at hsat hnd ⊢
    refine ⟨p.heap, P ++ B, headRef B, rfl, ?_, rfl, hsat, hnd, fun j hj => hj, Frame.refl _ _⟩
    intro e
    exact hB (List.append_eq_nil_iff.mp e).2
  | cons it rest ih =>
    intro P B p hB hsat hnd hsize
    simp only [cellsItems, sizeItems] at hsat hnd hsize
    have hsat1 : Sat p.heap (cellsCh (P ++ B) none ++ cellsItem it) :=
      hsat.subset (by intro x hx; simp only [List.mem_append] at hx ⊢; grind)
    have hnd1 : (ids (cellsCh (P ++ B) none ++ cellsItem it)).Nodup := by
      simp only [ids_append, List.nodup_append, List.mem_append] at hnd ⊢
      grind
    have hstep := link_step f P B hB it p hsat1 hnd1 (by omega)
    simp only [List.map_cons, Peg.linkAll, forEach]
    cases hl : Peg.linkOne (eraseCh (P ++ B)) (eraseItem it) with
    | error e =>
      rw [hl] at hstep
      obtain ⟨he, hb⟩ := hstep
      rw [hb]
      exact ⟨he, rfl⟩
    | ok Re1 =>
      rw [hl] at hstep
      obtain ⟨res, hb, ⟨h1, R1, P1, B1, rfl, hR1, hB1, her1, hs1, hnd1', hsub1, hf1, hsz1⟩⟩ := hstep
      subst hR1
      rw [hb]
      simp only [bind_ok]
      -- the remaining entries are untouched
      have hrestS : Sat h1 (cellsItems rest) := by
        refine Sat.frame hsat.right.right hf1 ?_
        intro x hx hm
        have hx1 := mem_ids_of_mem hx
        simp only [ids_append, List.nodup_append, List.mem_append] at hnd hm
        grind
      have hnd2 : (ids (cellsCh (P1 ++ B1) none ++ cellsItems rest)).Nodup := by
        simp only [ids_append, List.nodup_append, List.mem_append] at hnd hsub1 ⊢
        refine ⟨hnd1', ?_, ?_⟩
        · grind
        · intro a ha b hb' hab
          have := hsub1 a ha
          grind
      have := ih P1 B1 { p with heap := h1 } hB1 (Sat.append hs1 hrestS) hnd2 (by omega)
      rw [← her1]
      show (match Peg.linkAll (eraseCh (P1 ++ B1)) (rest.map eraseItem) with
        | .ok Re' => _
        | .error e => _)
      cases hl2 : Peg.linkAll (eraseCh (P1 ++ B1)) (rest.map eraseItem) with
      | error e =>
        rw [hl2] at this
        exact this
      | ok Re2 =>
        rw [hl2] at this
        obtain ⟨h2, R2, last2, he2, hne2, her2, hs2, hnd2', hsub2, hf2⟩ := this
        refine ⟨h2, R2, last2, he2, hne2, her2, hs2, hnd2', ?_, ?_⟩
        · intro j hj
          have h3 := hsub2 j hj
          rw [ids_append, List.mem_append] at h3
          rcases h3 with h3 | h3
          · have h4 := hsub1 j h3
            simp only [cellsItems, ids_append, List.mem_append] at h4 ⊢
            rcases h4 with h4 | h4
            · exact Or.inl h4
            · exact Or.inr (Or.inl h4)
          · simp only [cellsItems, ids_append, List.mem_append]
            exact Or.inr (Or.inr h3)
        · refine (hf1.trans hf2).mono ?_
          intro j hj
          rcases List.mem_append.mp hj with h3 | h3
          · simp only [cellsItems, ids_append, List.mem_append] at h3 ⊢
            rcases h3 with h3 | h3
            · exact Or.inl h3
            · exact Or.inr (Or.inl h3)
          · rw [ids_append, List.mem_append] at h3
            rcases h3 with h3 | h3
            · have h4 := hsub1 j h3
              simp only [cellsItems, ids_append, List.mem_append] at h4 ⊢
              rcases h4 with h4 | h4
              · exact Or.inl h4
              · exact Or.inr (Or.inl h4)
            · simp only [cellsItems, ids_append, List.mem_append]
              exact Or.inr (Or.inr h3)


/-- an operation that replaces the whole frame by one chain built from its entries -/
theorem Rep.replace_stack {c : Peg.Ctx} {g : PS} {L : LSt} {X : List (Nat × Cell)} (hrep : Rep c g L X)
    (R' : List LN) (h' : Heap)
    (hframe : Frame (ids (cellsItems L.stack)) g.heap h') (hsat : Sat h' (cellsCh R' none))
    (hsub : ∀ i, i ∈ ids (cellsCh R' none) → i ∈ ids (cellsItems L.stack))
    (hnd : (ids (cellsCh R' none)).Nodup) (hne : R' ≠ []) :
    Rep c { g with heap := h', params := [GItem.ofNRef (headRef R')] } { L with stack := [.chain R'] } X := by
  have hnd0 := hrep.nodup
  have hsat0 := hrep.sat
  exact {
    params := rfl
    paramsList := hrep.paramsList
    root := hrep.root
    sat := by
      intro x hx
      simp only [cellsSt, cellsItems, cellsItem, List.append_nil, List.mem_append] at hx
      by_cases hin : x ∈ cellsCh R' none
      · exact hsat x hin
      · have hmem : x ∈ cellsSt L ++ X := by
          simp only [cellsSt, List.mem_append]
          grind
        show h'[x.1]? = some x.2
        rw [hframe.2 x.1 ?_]
        · exact hsat0 x hmem
        · intro hm
          have hx1 : x.1 ∈ ids (cellsFrames L.saved ++ cellsCh L.root none ++ X) := by
            refine mem_ids_of_mem ?_
            simp only [List.mem_append]
            grind
          simp only [cellsSt, ids_append, List.nodup_append, List.mem_append] at hnd0 hx1
          grind
    nodup := by
      simp only [cellsSt, cellsItems, cellsItem, List.append_nil, ids_append, List.nodup_append,
        List.mem_append] at hnd0 ⊢
      grind
    wfStack := by
      intro x hx
      rw [List.mem_singleton.mp hx]
      exact hne
    wfSaved := hrep.wfSaved
    acc := hrep.acc
    ffn := hrep.ffn
    afn := hrep.afn }

/-- `setNodeChain()` -/
theorem setNodeChain_tie (c : Peg.Ctx) (g : PS) (L : LSt) (X : List (Nat × Cell)) (tb te : Nat) (f : Nat)
    (hrep : Rep c g L X) (hfuel : sizeItems L.stack + 1 ≤ f + 2) :
    Sim c X tb te (setNodeChain (f + 2) g) (Peg.setNodeChain (eraseSt L tb te)) := by
  have hstk : (eraseSt L tb te).stack.reverse = L.stack.map eraseItem := by
    simp only [eraseSt, List.reverse_reverse]
  have hlen : goLen g.params = (L.stack.length : Int) := by
    simp only [goLen, hrep.params, List.length_map]
  cases hst : L.stack with
  | nil =>
    have hm : Peg.setNodeChain (eraseSt L tb te) = .ok (eraseSt L tb te) := by
      simp only [Peg.setNodeChain, hstk, hst, List.map_nil]
    rw [hm]
    refine Sim.ok ⟨g, L, ?_, hrep, rfl⟩
    rw [setNodeChain_unfold, hlen, hst, if_neg (by simp)]
  | cons first rest =>
    cases rest with
    | nil =>
      have hm : Peg.setNodeChain (eraseSt L tb te) = .ok (eraseSt L tb te) := by
        simp only [Peg.setNodeChain, hstk, hst, List.map_cons, List.map_nil]
      rw [hm]
      refine Sim.ok ⟨g, L, ?_, hrep, rfl⟩
      rw [setNodeChain_unfold, hlen, hst, if_neg (by simp)]
    | cons second rest =>
      have hparams : g.params = gitem first :: (second :: rest).map gitem := by
        rw [hrep.params, hst]; rfl
      have hstart : setNodeChain (f + 2) g = (do
          let root ← GItem.asNode (gitem first)
          let (root, last, p) ← forEach ((second :: rest).map gitem) (root, root, g) (linkBody (f + 2))
          .ok { p with params := [GItem.ofNRef root] }) := by
        rw [setNodeChain_unfold, hlen, hst, if_pos (by simp only [List.length_cons]; omega)]
        have h0 : sliceIndex g.params 0 = .ok (gitem first) := by rw [hparams]; exact sliceIndex_zero _ _
        have h1 : sliceFrom g.params 1 = .ok ((second :: rest).map gitem) := by rw [hparams]; exact sliceFrom_one _ _
        simp only [h0, h1, bind_ok]
      by_cases hch : ∃ n tl, first = .chain (n :: tl)
      · obtain ⟨n, tl, rfl⟩ := hch
        have hsat0 := hrep.sat
        have hnd0 := hrep.nodup
        rw [show L = { L with stack := .chain (n :: tl) :: second :: rest } by rw [← hst]] at hsat0 hnd0
        have hsatS : Sat g.heap (cellsCh ([] ++ (n :: tl)) none ++ cellsItems (second :: rest)) := by
          refine hsat0.subset ?_
          intro x hx
          simp only [cellsSt, cellsItems, cellsItem, List.nil_append, List.mem_append] at hx ⊢
          grind
        have hndS : (ids (cellsCh ([] ++ (n :: tl)) none ++ cellsItems (second :: rest))).Nodup := by
          simp only [cellsSt, cellsItems, cellsItem, List.nil_append, ids_append, List.nodup_append,
            List.mem_append] at hnd0 ⊢
          grind
        have hall := link_all f (second :: rest) [] (n :: tl) g (List.cons_ne_nil _ _) hsatS hndS (by
          simp only [hst, sizeItems, sizeItem, List.nil_append] at hfuel ⊢
          omega)
        have hm : Peg.setNodeChain (eraseSt L tb te) = (do
            let root ← Peg.linkAll (eraseCh (n :: tl)) ((second :: rest).map eraseItem)
            .ok { eraseSt L tb te with stack := [.chain root] }) := by
          simp only [Peg.setNodeChain, hstk, hst, List.map_cons, (asNode_chain n tl).1]
          rfl
        rw [hm, hstart, (asNode_chain n tl).2, bind_ok]
        simp only [List.nil_append] at hall
        cases hl : Peg.linkAll (eraseCh (n :: tl)) ((second :: rest).map eraseItem) with
        | error e =>
          rw [hl] at hall
          obtain ⟨rfl, hb⟩ := hall
          refine Sim.err (e' := .typeAssertion) ?_ rfl
          have hb' : forEach ((second :: rest).map gitem) (n.ref, n.ref, g) (linkBody (f + 2)) = .error .typeAssertion := hb
          rw [hb']
          rfl
        | ok Re' =>
          rw [hl] at hall
          obtain ⟨h', R', last, he, hne, her, hs', hnd', hsub', hf'⟩ := hall
          have he' : forEach ((second :: rest).map gitem) (n.ref, n.ref, g) (linkBody (f + 2)) =
              .ok (headRef R', last, { g with heap := h' }) := he
          refine Sim.ok ⟨{ g with heap := h', params := [GItem.ofNRef (headRef R')] }, { L with stack := [.chain R'] }, ?_, ?_, ?_⟩
          · rw [he']
            rfl
          · refine hrep.replace_stack R' h' ?_ hs' ?_ hnd' hne
            · rw [hst]
              simpa only [cellsItems, cellsItem, ids_append] using hf'
            · rw [hst]
              simpa only [cellsItems, cellsItem, ids_append] using hsub'
          · simp only [eraseSt, List.map_cons, List.map_nil, List.reverse_cons, List.reverse_nil,
              List.nil_append, eraseItem, her]
      · have hno : ∀ n tl, first ≠ .chain (n :: tl) := fun n tl e => hch ⟨n, tl, e⟩
        have hm : Peg.setNodeChain (eraseSt L tb te) = .error (.panic .typeAssertion) := by
          simp only [Peg.setNodeChain, hstk, hst, List.map_cons, (asNode_not_chain first hno).1]
          rfl
        rw [hm]
        refine Sim.err (e' := .typeAssertion) ?_ rfl
        rw [hstart, (asNode_not_chain first hno).2]
        rfl

end ParserLayout
end JPV
