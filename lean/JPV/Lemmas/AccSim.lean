/-
AccSim — C12: evaluation is oblivious to the accessor flags except for the wrapping.
A step-by-step simulation between `retrieve` on a tree and `retrieve` on the same tree with
every flag cleared (`eraseAcc`): same panic, or the same values in the same order, the same
error (up to the flag stored in the node the error names), the same user-function call log,
the same write log.  No well-formedness hypothesis: the two runs are related whatever they do.
Plus: which results are wrapped (`lastInfos`).
-/
import JPV.Acc.Erase
import JPV.Lemmas.Appends
namespace JPV
open Impl

/-! ### relating two runs -/

/-- the two states agree on everything but the wrapping of the results -/
structure StEq (s2 s : St) : Prop where
  out : s2.out.map Res.val = s.out.map Res.val
  log : s2.log = s.log
  writes : s2.writes = s.writes

theorem StEq.refl (s : St) : StEq s s := ⟨rfl, rfl, rfl⟩

theorem StEq.isEmpty {s2 s : St} (h : StEq s2 s) : s2.out.isEmpty = s.out.isEmpty := by
  have := congrArg List.length h.out
  simp only [List.length_map] at this
  cases h2 : s2.out <;> cases h1 : s.out <;> simp_all

theorem StEq.push {s2 s : St} (h : StEq s2 s) {r2 r : Res} (hr : r2.val = r.val) : StEq (s2.push r2) (s.push r) :=
  ⟨by simp [St.push, h.out, hr], h.log, h.writes⟩

theorem StEq.call {s2 s : St} (h : StEq s2 s) (c : Call) : StEq (s2.call c) (s.call c) :=
  ⟨h.out, by simp [St.call, h.log], h.writes⟩

theorem StEq.wrote {s2 s : St} (h : StEq s2 s) (o : Org) (n : Nat) : StEq (s2.wrote o n) (s.wrote o n) :=
  ⟨h.out, h.log, by simp [St.wrote, h.writes]⟩

theorem StEq.sub {s2 s : St} (h : StEq s2 s) : StEq s2.sub s.sub :=
  ⟨rfl, h.log, h.writes⟩

theorem StEq.back {s2 s t2 t : St} (h : StEq s2 s) (ht : StEq t2 t) : StEq (s2.back t2) (s.back t) :=
  ⟨h.out, ht.log, ht.writes⟩

/-- two computations end the same way: the same panic, or related values -/
def RelM {α β : Type} (R : α → β → Prop) : M α → M β → Prop
  | .error p2, .error p => p2 = p
  | .ok a, .ok b => R a b
  | _, _ => False

theorem RelM.ok {α β : Type} {R : α → β → Prop} {a : α} {b : β} (h : R a b) :
    RelM R (.ok a) (.ok b) := h

theorem RelM.error {α β : Type} {R : α → β → Prop} (p : Panic) : RelM R (.error p : M α) (.error p : M β) := rfl

theorem RelM.bind {α β γ δ : Type} {R : α → β → Prop} {S : γ → δ → Prop} {x2 : M α} {x : M β}
    {f2 : α → M γ} {f : β → M δ} (hx : RelM R x2 x) (hf : ∀ a b, R a b → RelM S (f2 a) (f b)) :
    RelM S (x2 >>= f2) (x >>= f) := by
  cases x2 with
  | error p2 =>
    cases x with
    | error p => exact hx
    | ok b => exact hx.elim
  | ok a =>
    cases x with
    | error p => exact hx.elim
    | ok b => exact hf a b hx

theorem RelM.mono {α β : Type} {R S : α → β → Prop} {x2 : M α} {x : M β} (h : RelM R x2 x)
    (hRS : ∀ a b, R a b → S a b) : RelM S x2 x := by
  cases x2 <;> cases x <;> first | exact h | exact hRS _ _ h

/-- results of `retrieve`: related states, the same error up to the flag -/
def RS (a b : St × Option RtErr) : Prop := StEq a.1 b.1 ∧ a.2 = b.2.map RtErr.eraseAcc

/-- loop accumulators -/
def AccEq (a b : Acc) : Prop := StEq a.1 b.1 ∧ a.2.1 = b.2.1 ∧ a.2.2 = b.2.2.map RtErr.eraseAcc

theorem eraseErr_info_conn (e : RtErr) : e.eraseAcc.info.conn = e.info.conn := by cases e <;> rfl
theorem eraseErr_isType (e : RtErr) : e.eraseAcc.isType = e.isType := by cases e <;> rfl

theorem addDeepest_erase (err : RtErr) (dl : Nat) (de : Option RtErr) :
    addDeepest err.eraseAcc dl (de.map RtErr.eraseAcc) =
      ((addDeepest err dl de).1, (addDeepest err dl de).2.map RtErr.eraseAcc) := by
  unfold addDeepest
  simp only [eraseErr_info_conn]
  split
  · rfl
  · split
    · cases de with
      | none => rfl
      | some d =>
        simp only [Option.map_some, eraseErr_isType]
        split <;> rfl
    · rfl

theorem stepAcc_rel {r2 r : M (St × Option RtErr)} (hr : RelM RS r2 r) (dl : Nat) (de : Option RtErr) :
    RelM AccEq (stepAcc r2 dl (de.map RtErr.eraseAcc)) (stepAcc r dl de) := by
  unfold stepAcc
  refine RelM.bind hr ?_
  rintro ⟨s2, e2⟩ ⟨s, e⟩ ⟨hs, he⟩
  simp only [] at hs he
  subst he
  cases e with
  | none => exact ⟨hs, rfl, rfl⟩
  | some err =>
    simp only [Option.map_some, hs.isEmpty, addDeepest_erase]
    split
    · exact ⟨hs, rfl, rfl⟩
    · exact ⟨hs, rfl, rfl⟩

theorem loopAcc_rel {α : Type} (f2 f : α → St → M (St × Option RtErr)) :
    ∀ (xs : List α), (∀ x ∈ xs, ∀ s2 s, StEq s2 s → RelM RS (f2 x s2) (f x s)) →
      ∀ (a2 a : Acc), AccEq a2 a → RelM AccEq (loopAcc f2 xs a2) (loopAcc f xs a)
  | [], _, a2, a, h => by
    simp only [loopAcc]
    exact h
  | x :: xs, hf, (s2, dl2, de2), (s, dl, de), ⟨hs, hdl, hde⟩ => by
    simp only [] at hs hdl hde
    subst hdl hde
    simp only [loopAcc]
    refine RelM.bind (stepAcc_rel (hf x List.mem_cons_self s2 s hs) dl2 de) ?_
    intro a2 a ha
    exact loopAcc_rel f2 f xs (fun y hy => hf y (List.mem_cons_of_mem _ hy)) a2 a ha

theorem endGroup_rel (i : Info) {a2 a : Acc} (h : AccEq a2 a) : RS (endGroup (eraseI i) a2) (endGroup i a) := by
  obtain ⟨hs, _, hde⟩ := h
  refine ⟨hs, ?_⟩
  simp only [endGroup, finishGroup, hs.isEmpty, hde]
  split
  · rfl
  · cases a.2.2 <;> rfl

/-- a fan-out loop followed by the common tail, in both runs -/
theorem group_rel {α : Type} (f2 f : α → St → M (St × Option RtErr)) (xs : List α)
    (hf : ∀ x ∈ xs, ∀ s2 s, StEq s2 s → RelM RS (f2 x s2) (f x s)) (i : Info) {s2 s : St} (hs : StEq s2 s) :
    RelM RS (do let acc ← loopAcc f2 xs (s2, 0, none); Except.ok (endGroup (eraseI i) acc))
      (do let acc ← loopAcc f xs (s, 0, none); Except.ok (endGroup i acc)) := by
  refine RelM.bind (loopAcc_rel f2 f xs hf _ _ ⟨hs, rfl, rfl⟩) ?_
  intro a2 a ha
  exact endGroup_rel i ha

theorem loopAcc_map {α β : Type} (g : β → α) (f : α → St → M (St × Option RtErr)) :
    ∀ (xs : List β) (a : Acc), loopAcc f (xs.map g) a = loopAcc (fun x => f (g x)) xs a
  | [], a => rfl
  | x :: xs, (s, dl, de) => by
    simp only [List.map_cons, loopAcc]
    congr 1
    funext a'
    exact loopAcc_map g f xs a'


/-! ### node by node -/

def SimCh (env : Env) (ch : List N) : Prop :=
  ∀ (prev : Info) (root cur : Val) (aloc : Option Loc) (s2 s : St), StEq s2 s →
    RelM RS (retrieve env (eraseAcc ch) (eraseI prev) root cur aloc s2) (retrieve env ch prev root cur aloc s)

/-- results of `compute`: the same list, related states -/
def RV (a b : VL × St) : Prop := a.1 = b.1 ∧ StEq a.2 b.2

def SimQ (env : Env) (q : Q) : Prop :=
  ∀ (root : Val) (ms : List Val) (s2 s : St), StEq s2 s →
    RelM RV (computeQ env (eraseQ q) root ms s2) (computeQ env q root ms s)

def SimP (env : Env) (p : P) : Prop :=
  ∀ (root : Val) (ms : List Val) (s2 s : St), StEq s2 s →
    RelM RV (computeP env (eraseP p) root ms s2) (computeP env p root ms s)

theorem rs_err {s2 s : St} (hs : StEq s2 s) (err : RtErr) :
    RelM RS (.ok (s2, some err.eraseAcc)) (.ok (s, some err)) := ⟨hs, rfl⟩

theorem nil_sim (env : Env) : SimCh env [] := by
  intro prev root cur aloc s2 s hs
  simp only [eraseAcc, retrieve]
  refine ⟨hs.push ?_, rfl⟩
  simp only [eraseI]
  cases prev.acc <;> rfl

theorem root_sim {env : Env} {rest : List N} (i : Info) (ih : SimCh env rest) : SimCh env (.root i :: rest) := by
  intro prev root cur aloc s2 s hs
  simp only [eraseAcc, eraseN, retrieve]
  exact ih i root root none s2 s hs

theorem cur_sim {env : Env} {rest : List N} (i : Info) (ih : SimCh env rest) : SimCh env (.cur i :: rest) := by
  intro prev root cur aloc s2 s hs
  simp only [eraseAcc, eraseN, retrieve]
  exact ih i root cur none s2 s hs

theorem child_sim {env : Env} {rest : List N} (i : Info) (k : String) (ih : SimCh env rest) :
    SimCh env (.child i k :: rest) := by
  intro prev root cur aloc s2 s hs
  cases cur with
  | obj kvs =>
    simp only [eraseAcc, eraseN, retrieve]
    cases Val.lookup k kvs with
    | none => exact rs_err hs (.member i)
    | some v => exact ih i root v _ s2 s hs
  | _ => simp only [eraseAcc, eraseN, retrieve]; exact rs_err hs (typeErr i "object" _)

theorem wild_sim {env : Env} {rest : List N} (i : Info) (ih : SimCh env rest) : SimCh env (.wild i :: rest) := by
  intro prev root cur aloc s2 s hs
  cases cur with
  | obj kvs =>
    simp only [eraseAcc, eraseN, retrieve]
    exact group_rel _ _ _ (fun kv _ t2 t ht => ih i root kv.2 _ t2 t ht) i hs
  | arr xs =>
    simp only [eraseAcc, eraseN, retrieve]
    exact group_rel _ _ _ (fun xi _ t2 t ht => ih i root xi.1 _ t2 t ht) i hs
  | _ => simp only [eraseAcc, eraseN, retrieve]; exact rs_err hs (typeErr i "object/array" _)

theorem desc_sim {env : Env} {rest : List N} (i : Info) (mr lr : Bool) (ih : SimCh env rest) :
    SimCh env (.desc i mr lr :: rest) := by
  intro prev root cur aloc s2 s hs
  simp only [eraseAcc, eraseN, retrieve]
  split
  · exact group_rel _ _ _ (fun cl _ t2 t ht => ih i root cl.1 _ t2 t ht) i hs
  · exact rs_err hs (typeErr i "object/array" _)

theorem union_sim {env : Env} {rest : List N} (i : Info) (subs : List SubI) (ih : SimCh env rest) :
    SimCh env (.union i subs :: rest) := by
  intro prev root cur aloc s2 s hs
  cases cur with
  | arr xs =>
    simp only [eraseAcc, eraseN, retrieve]
    refine group_rel _ _ _ (fun ix _ t2 t ht => ?_) i hs
    split
    · exact RelM.error _
    · exact ih i root _ _ t2 t ht
  | _ => simp only [eraseAcc, eraseN, retrieve]; exact rs_err hs (typeErr i "array" _)

theorem ffn_sim {env : Env} {rest : List N} (i : Info) (name : String) (ih : SimCh env rest) :
    SimCh env (.ffn i name :: rest) := by
  intro prev root cur aloc s2 s hs
  simp only [eraseAcc, eraseN, retrieve]
  split
  · exact RelM.error _
  · split
    · exact rs_err (hs.call _) (.func i)
    · exact ih i root _ none _ _ (hs.call _)


theorem eraseN_info (n : N) : (eraseN n).info = eraseI n.info := by
  cases n <;> simp only [eraseN, N.info]

theorem chainVg_erase (ch : List N) : chainVg (eraseAcc ch) = chainVg ch := by
  cases ch with
  | nil => simp only [eraseAcc]
  | cons n rest => simp only [eraseAcc, chainVg, eraseN_info]; rfl

theorem multi_sim {env : Env} {rest : List N} (i : Info) (ids : List MId) (tw : Option Info) (ih : SimCh env rest) :
    SimCh env (.multi i ids tw :: rest) := by
  intro prev root cur aloc s2 s hs
  have hobj : ∀ kvs : List (String × Val), RelM RS
      (do
        let acc ← loopAcc (fun (id : MId) st =>
            match id with
            | .key ii k =>
              (match Val.lookup k kvs with
               | none => (.ok (st, none) : M (St × Option RtErr))
               | some v => retrieve env (eraseAcc rest) ii root v (ext aloc (.key k)) st)
            | .wild ii => do
              let acc ← loopAcc (fun (kv : String × Val) st => retrieve env (eraseAcc rest) ii root kv.2 (ext aloc (.key kv.1)) st)
                (sortKV kvs) (st, 0, none)
              .ok (endGroup ii acc))
          (ids.map eraseMId) (s2, 0, none)
        (.ok (endGroup (eraseI i) acc) : M (St × Option RtErr)))
      (do
        let acc ← loopAcc (fun (id : MId) st =>
            match id with
            | .key ii k =>
              (match Val.lookup k kvs with
               | none => (.ok (st, none) : M (St × Option RtErr))
               | some v => retrieve env rest ii root v (ext aloc (.key k)) st)
            | .wild ii => do
              let acc ← loopAcc (fun (kv : String × Val) st => retrieve env rest ii root kv.2 (ext aloc (.key kv.1)) st)
                (sortKV kvs) (st, 0, none)
              .ok (endGroup ii acc))
          ids (s, 0, none)
        (.ok (endGroup i acc) : M (St × Option RtErr))) := by
    intro kvs
    rw [loopAcc_map]
    refine group_rel _ _ _ (fun id _ t2 t ht => ?_) i hs
    cases id with
    | key ii k =>
      simp only [eraseMId]
      cases Val.lookup k kvs with
      | none => exact ⟨ht, rfl⟩
      | some v => exact ih ii root v _ t2 t ht
    | wild ii =>
      simp only [eraseMId]
      exact group_rel _ _ _ (fun kv _ u2 u hu => ih ii root kv.2 _ u2 u hu) ii ht
  cases cur with
  | obj kvs =>
    cases tw with
    | none => simp only [eraseAcc, eraseN, retrieve, Option.map_none]; exact hobj kvs
    | some ti => simp only [eraseAcc, eraseN, retrieve, Option.map_some]; exact hobj kvs
  | arr xs =>
    cases tw with
    | none => simp only [eraseAcc, eraseN, retrieve, Option.map_none]; exact rs_err hs (typeErr i "object" _)
    | some ti =>
      simp only [eraseAcc, eraseN, retrieve, Option.map_some, List.flatMap_map]
      exact group_rel _ _ _ (fun xi _ t2 t ht => ih ti root xi.1 _ t2 t ht) ti hs
  | _ => cases tw <;>
      (simp only [eraseAcc, eraseN, retrieve, Option.map_none, Option.map_some]; exact rs_err hs (typeErr i "object" _))

theorem out_shape {t2 t : St} (ht : StEq t2 t) :
    (t2.out = [] ∧ t.out = []) ∨ ∃ r2 rs2 r rs, t2.out = r2 :: rs2 ∧ t.out = r :: rs ∧ r2.val = r.val ∧
      rs2.map Res.val = rs.map Res.val := by
  have h := ht.out
  cases h2 : t2.out with
  | nil =>
    cases h1 : t.out with
    | nil => exact Or.inl ⟨rfl, rfl⟩
    | cons r rs => rw [h2, h1] at h; simp at h
  | cons r2 rs2 =>
    cases h1 : t.out with
    | nil => rw [h2, h1] at h; simp at h
    | cons r rs =>
      rw [h2, h1] at h
      simp only [List.map_cons, List.cons.injEq] at h
      exact Or.inr ⟨r2, rs2, r, rs, rfl, rfl, h.1, h.2⟩

theorem afn_sim {env : Env} {rest : List N} (i : Info) (name : String) (param : List N)
    (ihp : SimCh env param) (ih : SimCh env rest) : SimCh env (.afn i name param :: rest) := by
  intro prev root cur aloc s2 s hs
  simp only [eraseAcc, eraseN, retrieve]
  refine RelM.bind (ihp i root cur aloc _ _ hs.sub) ?_
  rintro ⟨t2, e2⟩ ⟨t, e⟩ ⟨ht, he⟩
  simp only [] at ht he
  subst he
  cases e with
  | some err => exact rs_err (hs.back ht) err
  | none =>
    simp only [Option.map_none, chainVg_erase, ht.out]
    rcases out_shape ht with ⟨h2, h1⟩ | ⟨r2, rs2, r, rs, h2, h1, hv, _⟩
    · rw [h2, h1]; exact RelM.error _
    · rw [h2, h1]
      simp only [hv]
      split
      · exact RelM.error _
      · split
        · exact rs_err ((hs.back ht).call _) (.func i)
        · exact ih i root _ none _ _ ((hs.back ht).call _)

theorem filter_sim {env : Env} {rest : List N} (i : Info) (q : Q) (ihq : SimQ env q) (ih : SimCh env rest) :
    SimCh env (.filter i q :: rest) := by
  intro prev root cur aloc s2 s hs
  simp only [eraseAcc, eraseN, retrieve]
  split
  · refine RelM.bind (ihq root _ s2 s hs) ?_
    rintro ⟨vl2, t2⟩ ⟨vl, t⟩ ⟨hv, ht⟩
    simp only [] at hv ht
    subst hv
    simp only []
    split
    · exact RelM.error _
    · split
      · exact rs_err ht (.member i)
      · exact group_rel _ _ _ (fun sv _ u2 u hu => ih i root sv.2 _ u2 u hu) i ht
  · exact rs_err hs (typeErr i "object/array" _)


/-! ### operands and queries -/

theorem eraseI_default : eraseI default = default := rfl

theorem map_val_nil_iff {a b : List Res} (h : a.map Res.val = b.map Res.val) : a = [] ↔ b = [] := by
  cases a <;> cases b <;> simp_all

theorem lit_sim (env : Env) (v : Val) : SimP env (.lit v) := by
  intro root ms s2 s hs
  simp only [eraseP, computeP]
  exact ⟨rfl, hs⟩

theorem proot_sim {env : Env} {ch : List N} (ih : SimCh env ch) : SimP env (.proot ch) := by
  intro root ms s2 s hs
  simp only [eraseP, computeP]
  have := ih default root root none _ _ hs.sub
  rw [eraseI_default] at this
  refine RelM.bind this ?_
  rintro ⟨t2, e2⟩ ⟨t, e⟩ ⟨ht, he⟩
  simp only [] at ht he
  subst he
  cases e with
  | some err => exact ⟨rfl, hs.back ht⟩
  | none =>
    simp only [Option.map_none]
    rcases out_shape ht with ⟨h2, h1⟩ | ⟨r2, rs2, r, rs, h2, h1, hv, hrs⟩
    · rw [h2, h1]; exact ⟨rfl, hs.back ht⟩
    · rw [h2, h1]
      cases rs with
      | nil =>
        have : rs2 = [] := (map_val_nil_iff hrs).mpr rfl
        subst this
        exact ⟨by simp only [hv], hs.back ht⟩
      | cons r' rs' =>
        cases rs2 with
        | nil => simp at hrs
        | cons r2' rs2' => exact ⟨rfl, hs.back ht⟩

theorem pcurLoop_sim {env : Env} {ch : List N} (ih : SimCh env ch) (root : Val) :
    ∀ (ms : List Val) (s2 s : St), StEq s2 s →
      RelM (fun (a b : List Cell × St) => a.1 = b.1 ∧ StEq a.2 b.2)
        (pcurLoop env (eraseAcc ch) root ms s2) (pcurLoop env ch root ms s)
  | [], s2, s, hs => by
    simp only [pcurLoop]
    exact ⟨rfl, hs⟩
  | m :: ms, s2, s, hs => by
    simp only [pcurLoop]
    have := ih default root m none _ _ hs.sub
    rw [eraseI_default] at this
    refine RelM.bind this ?_
    rintro ⟨t2, e2⟩ ⟨t, e⟩ ⟨ht, he⟩
    simp only [] at ht he
    subst he
    have hcell : RelM (fun (a b : Cell) => a = b)
        (match e.map RtErr.eraseAcc with
          | some _ => (.ok Cell.empty : M Cell)
          | none => (match t2.out with
            | [] => .error .indexOutOfRange
            | r :: _ => .ok (Cell.val r.val)))
        (match e with
          | some _ => (.ok Cell.empty : M Cell)
          | none => (match t.out with
            | [] => .error .indexOutOfRange
            | r :: _ => .ok (Cell.val r.val))) := by
      cases e with
      | some err => exact rfl
      | none =>
        simp only [Option.map_none]
        rcases out_shape ht with ⟨h2, h1⟩ | ⟨r2, rs2, r, rs, h2, h1, hv, _⟩
        · rw [h2, h1]; exact RelM.error _
        · rw [h2, h1]; simp only [hv]; exact rfl
    cases e with
    | some err =>
      simp only [Option.map_some]
      refine RelM.bind (R := fun (a b : Cell) => a = b) rfl ?_
      rintro c2 c rfl
      refine RelM.bind (pcurLoop_sim ih root ms _ _ (hs.back ht)) ?_
      rintro ⟨cs2, u2⟩ ⟨cs, u⟩ ⟨hc, hu⟩
      simp only [] at hc hu
      subst hc
      exact ⟨rfl, hu⟩
    | none =>
      simp only [Option.map_none] at hcell ⊢
      refine RelM.bind hcell ?_
      rintro c2 c rfl
      refine RelM.bind (pcurLoop_sim ih root ms _ _ (hs.back ht)) ?_
      rintro ⟨cs2, u2⟩ ⟨cs, u⟩ ⟨hc, hu⟩
      simp only [] at hc hu
      subst hc
      exact ⟨rfl, hu⟩

theorem pcur_sim {env : Env} {ch : List N} (ih : SimCh env ch) : SimP env (.pcur ch) := by
  intro root ms s2 s hs
  simp only [eraseP, computeP]
  refine RelM.bind (pcurLoop_sim ih root ms s2 s hs) ?_
  rintro ⟨cs2, u2⟩ ⟨cs, u⟩ ⟨hc, hu⟩
  simp only [] at hc hu
  subst hc
  simp only []
  split
  · exact ⟨rfl, hu⟩
  · exact ⟨rfl, hu⟩

theorem exist_sim {env : Env} {p : P} (ih : SimP env p) : SimQ env (.exist p) := by
  intro root ms s2 s hs
  simp only [eraseQ, computeQ]
  exact ih root ms s2 s hs

theorem valStep_rel (c : Cmp) (lv : VL) {s2 s : St} (hs : StEq s2 s) :
    (valStep c lv s2).1 = (valStep c lv s).1 ∧ (valStep c lv s2).2.1 = (valStep c lv s).2.1 ∧
      StEq (valStep c lv s2).2.2 (valStep c lv s).2.2 := by
  unfold valStep
  split
  · exact ⟨rfl, rfl, hs⟩
  · exact ⟨rfl, rfl, hs.wrote _ _⟩

theorem cmp_sim {env : Env} {l r : P} (c : Cmp) (ihl : SimP env l) (ihr : SimP env r) : SimQ env (.cmp l r c) := by
  intro root ms s2 s hs
  simp only [eraseQ, computeQ]
  refine RelM.bind (ihl root ms s2 s hs) ?_
  rintro ⟨lv2, t2⟩ ⟨lv, t⟩ ⟨hv, ht⟩
  simp only [] at hv ht
  subst hv
  obtain ⟨hl1, hl2, hl3⟩ := valStep_rel c lv2 ht
  simp only []
  refine RelM.bind (ihr root ms _ _ hl3) ?_
  rintro ⟨rv2, u2⟩ ⟨rv, u⟩ ⟨hv, hu⟩
  simp only [] at hv hu
  subst hv
  obtain ⟨hr1, hr2, hr3⟩ := valStep_rel c rv2 hu
  simp only [hl1, hl2, hr1, hr2]
  split
  · split
    · exact RelM.error _
    · exact RelM.error _
    · refine RelM.bind (R := fun a b => a = b) ?_ ?_
      · cases comparator env c _ (valStep c lv2 t).2.1.cells with
        | error p => exact rfl
        | ok x => exact rfl
      · rintro ⟨hit, cells, w⟩ _ rfl
        simp only []
        split
        · exact ⟨rfl, hr3.wrote _ _⟩
        · exact ⟨rfl, hr3.wrote _ _⟩
  · split
    · exact ⟨rfl, hr3⟩
    · exact ⟨rfl, hr3⟩

theorem relM_eq_refl {α : Type} (x : M α) : RelM (fun a b => a = b) x x := by
  cases x <;> rfl

theorem not_sim {env : Env} {a : Q} (ih : SimQ env a) : SimQ env (.not a) := by
  intro root ms s2 s hs
  simp only [eraseQ, computeQ]
  refine RelM.bind (ih root ms s2 s hs) ?_
  rintro ⟨cl2, t2⟩ ⟨cl, t⟩ ⟨hv, ht⟩
  simp only [] at hv ht
  subst hv
  simp only []
  split
  · split
    · exact ⟨rfl, ht⟩
    · exact ⟨rfl, ht⟩
  · split
    · exact ⟨rfl, ht.wrote _ _⟩
    · exact ⟨rfl, ht.wrote _ _⟩

theorem and_sim {env : Env} {a b : Q} (iha : SimQ env a) (ihb : SimQ env b) : SimQ env (.and a b) := by
  intro root ms s2 s hs
  simp only [eraseQ, computeQ]
  refine RelM.bind (iha root ms s2 s hs) ?_
  rintro ⟨l2, t2⟩ ⟨l, t⟩ ⟨hv, ht⟩
  simp only [] at hv ht
  subst hv
  simp only []
  split
  · split
    · exact ⟨rfl, ht⟩
    · exact ihb root ms t2 t ht
  · refine RelM.bind (ihb root ms t2 t ht) ?_
    rintro ⟨r2, u2⟩ ⟨r, u⟩ ⟨hv, hu⟩
    simp only [] at hv hu
    subst hv
    simp only []
    split
    · split
      · exact ⟨rfl, hu⟩
      · exact ⟨rfl, hu⟩
    · refine RelM.bind (relM_eq_refl _) ?_
      rintro ⟨hit, cells, w⟩ _ rfl
      simp only []
      split
      · exact ⟨rfl, hu.wrote _ _⟩
      · exact ⟨rfl, hu.wrote _ _⟩

theorem or_sim {env : Env} {a b : Q} (iha : SimQ env a) (ihb : SimQ env b) : SimQ env (.or a b) := by
  intro root ms s2 s hs
  simp only [eraseQ, computeQ]
  refine RelM.bind (iha root ms s2 s hs) ?_
  rintro ⟨l2, t2⟩ ⟨l, t⟩ ⟨hv, ht⟩
  simp only [] at hv ht
  subst hv
  simp only []
  split
  · split
    · exact ihb root ms t2 t ht
    · exact ⟨rfl, ht⟩
  · refine RelM.bind (ihb root ms t2 t ht) ?_
    rintro ⟨r2, u2⟩ ⟨r, u⟩ ⟨hv, hu⟩
    simp only [] at hv hu
    subst hv
    simp only []
    split
    · split
      · exact ⟨rfl, hu⟩
      · exact ⟨rfl, hu⟩
    · refine RelM.bind (relM_eq_refl _) ?_
      rintro ⟨cells, w⟩ _ rfl
      exact ⟨rfl, hu.wrote _ _⟩

/-! ### the mutual induction -/

mutual
theorem sim_chain (env : Env) : ∀ (ch : List N), SimCh env ch
  | [] => nil_sim env
  | n :: rest => by
    have ih := sim_chain env rest
    cases n with
    | root i => exact root_sim i ih
    | cur i => exact cur_sim i ih
    | child i k => exact child_sim i k ih
    | wild i => exact wild_sim i ih
    | multi i ids t => exact multi_sim i ids t ih
    | desc i a b => exact desc_sim i a b ih
    | union i subs => exact union_sim i subs ih
    | filter i q => exact filter_sim i q (sim_query env q) ih
    | ffn i name => exact ffn_sim i name ih
    | afn i name param => exact afn_sim i name param (sim_chain env param) ih
theorem sim_query (env : Env) : ∀ (q : Q), SimQ env q
  | .exist p => exist_sim (sim_operand env p)
  | .not a => not_sim (sim_query env a)
  | .and a b => and_sim (sim_query env a) (sim_query env b)
  | .or a b => or_sim (sim_query env a) (sim_query env b)
  | .cmp l r c => cmp_sim c (sim_operand env l) (sim_operand env r)
theorem sim_operand (env : Env) : ∀ (p : P), SimP env p
  | .lit v => lit_sim env v
  | .proot ch => proot_sim (sim_chain env ch)
  | .pcur ch => pcur_sim (sim_chain env ch)
end


/-! ### which results are wrapped -/

def MId.info : MId → Info
  | .key i _ => i
  | .wild i => i

/-- the Infos a node can hand to the end of the chain as "previous node": its own, and for a
    multi-name node those of its inner identifiers and of its union twin -/
def tailInfos : N → List Info
  | .multi i ids tw => i :: (ids.map MId.info ++ tw.toList)
  | .root i | .cur i | .child i _ | .wild i | .desc i _ _ | .union i _ | .filter i _ | .ffn i _ | .afn i _ _ => [i]

/-- the Infos whose flag decides the wrapping of the results of the chain -/
def lastInfos : List N → Info → List Info
  | [], prev => [prev]
  | [n], _ => tailInfos n
  | _ :: n :: rest, prev => lastInfos (n :: rest) prev

theorem lastInfos_irrel (n : N) : ∀ (rest : List N) (p p' : Info), lastInfos (n :: rest) p = lastInfos (n :: rest) p'
  | [], _, _ => rfl
  | m :: rest, p, p' => by
    simp only [lastInfos]
    exact lastInfos_irrel m rest p p'

theorem lastInfos_step (n : N) (rest : List N) (prev i : Info) (hi : i ∈ tailInfos n) :
    ∀ j ∈ lastInfos rest i, j ∈ lastInfos (n :: rest) prev := by
  cases rest with
  | nil =>
    intro j hj
    simp only [lastInfos, List.mem_singleton] at hj ⊢
    subst hj
    exact hi
  | cons m rest =>
    intro j hj
    simp only [lastInfos]
    rw [lastInfos_irrel m rest prev i]
    exact hj

/-- every Info that decides the wrapping has the flag `b` -/
def EndPre (b : Bool) (ch : List N) (prev : Info) (_cur : Val) (_aloc : Option Loc) : Prop :=
  ∀ j ∈ lastInfos ch prev, j.acc = b

theorem endPre_step {b : Bool} {n : N} {rest : List N} {prev : Info} {cur cur' : Val} {aloc aloc' : Option Loc} (i : Info)
    (hi : i ∈ tailInfos n) (h : EndPre b (n :: rest) prev cur aloc) : EndPre b rest i cur' aloc' :=
  fun j hj => h j (lastInfos_step n rest prev i hi j hj)

theorem endHoare (root : Val) (b : Bool) : Hoare root (EndPre b) (fun r => r.isAcc = b) where
  nil := by
    intro prev cur aloc hp
    have : prev.acc = b := hp prev (by simp [lastInfos])
    unfold wrap
    cases hb : prev.acc <;> rw [hb] at this <;> subst this <;> rfl
  root := fun i _ _ _ _ hp => endPre_step i (by simp [tailInfos]) hp
  cur := fun i _ _ _ _ hp => endPre_step i (by simp [tailInfos]) hp
  child := fun i _ _ _ _ _ _ hp _ => endPre_step i (by simp [tailInfos]) hp
  wildObj := fun i _ _ _ _ _ hp _ => endPre_step i (by simp [tailInfos]) hp
  wildArr := fun i _ _ _ _ _ hp _ => endPre_step i (by simp [tailInfos]) hp
  twin := fun _ _ ti _ _ _ _ _ hp _ => endPre_step ti (by simp [tailInfos]) hp
  multiKey := fun _ _ _ _ _ _ _ ii k _ hp hid _ => endPre_step ii (by
    simp only [tailInfos, List.mem_cons, List.mem_append, List.mem_map]
    exact Or.inr (Or.inl ⟨_, hid, rfl⟩)) hp
  multiWild := fun _ _ _ _ _ _ _ ii _ hp hid _ => endPre_step ii (by
    simp only [tailInfos, List.mem_cons, List.mem_append, List.mem_map]
    exact Or.inr (Or.inl ⟨_, hid, rfl⟩)) hp
  desc := fun i _ _ _ _ _ _ _ hp _ => endPre_step i (by simp [tailInfos]) hp
  union := fun i _ _ _ _ _ _ _ hp _ => endPre_step i (by simp [tailInfos]) hp
  filter := fun i _ _ _ _ _ _ hp _ => endPre_step i (by simp [tailInfos]) hp
  ffn := fun i _ _ _ _ _ _ hp => endPre_step i (by simp [tailInfos]) hp
  afn := fun i _ _ _ _ _ _ _ hp => endPre_step i (by simp [tailInfos]) hp

theorem eraseMId_info (id : MId) : (eraseMId id).info = eraseI id.info := by cases id <;> rfl

theorem tailInfos_erase (n : N) : ∀ j ∈ tailInfos (eraseN n), j.acc = false := by
  cases n with
  | multi i ids tw =>
    intro j hj
    simp only [eraseN, tailInfos, List.mem_cons, List.mem_append, List.mem_map] at hj
    rcases hj with rfl | ⟨id, ⟨id0, _, rfl⟩, rfl⟩ | hj
    · rfl
    · rw [eraseMId_info]; rfl
    · cases tw with
      | none => simp at hj
      | some ti => simp at hj; subst hj; rfl
  | _ => intro j hj; simp only [eraseN, tailInfos, List.mem_singleton] at hj; subst hj; rfl

theorem lastInfos_erase : ∀ (ch : List N) (prev : Info), ∀ j ∈ lastInfos (eraseAcc ch) (eraseI prev), j.acc = false
  | [], prev => by
    intro j hj
    simp only [eraseAcc, lastInfos, List.mem_singleton] at hj
    subst hj; rfl
  | [n], prev => by
    simp only [eraseAcc, lastInfos]
    exact tailInfos_erase n
  | _ :: n :: rest, prev => by
    have := lastInfos_erase (n :: rest) prev
    simp only [eraseAcc, lastInfos] at this ⊢
    exact this

/-- every result the flag-free tree appends is a plain value -/
theorem retrieve_erased_plain (env : Env) (ch : List N) (prev : Info) (root cur : Val) (aloc : Option Loc)
    (st st' : St) (e : Option RtErr)
    (h : retrieve env (eraseAcc ch) (eraseI prev) root cur aloc st = .ok (st', e)) :
    App (fun r => r.isAcc = false) st st' :=
  retrieve_appends env (endHoare root false) (eraseAcc ch) (eraseI prev) cur aloc st st' e (lastInfos_erase ch prev) h

/-- every result is an accessor when the flags that decide say so -/
theorem retrieve_all_acc (env : Env) (ch : List N) (prev : Info) (root cur : Val) (aloc : Option Loc)
    (hflags : ∀ j ∈ lastInfos ch prev, j.acc = true) (st st' : St) (e : Option RtErr)
    (h : retrieve env ch prev root cur aloc st = .ok (st', e)) :
    App (fun r => r.isAcc = true) st st' :=
  retrieve_appends env (endHoare root true) ch prev cur aloc st st' e hflags h

/-- a chain without flags (a function parameter, a filter operand — `build_subFree`) appends
    plain values only -/
theorem retrieve_flagfree_plain (env : Env) (ch : List N) (hfix : eraseAcc ch = ch) (prev : Info)
    (hprev : ch ≠ [] ∨ prev.acc = false) (root cur : Val) (aloc : Option Loc) (st st' : St) (e : Option RtErr)
    (h : retrieve env ch prev root cur aloc st = .ok (st', e)) :
    App (fun r => r.isAcc = false) st st' := by
  refine retrieve_appends env (endHoare root false) ch prev cur aloc st st' e ?_ h
  have := lastInfos_erase ch prev
  rw [hfix] at this
  rcases hprev with hne | hacc
  · cases ch with
    | nil => exact absurd rfl hne
    | cons n rest =>
      show ∀ j ∈ lastInfos (n :: rest) prev, j.acc = false
      rw [lastInfos_irrel n rest prev (eraseI prev)]; exact this
  · have hp : eraseI prev = prev := by
      cases prev
      simp only [eraseI] at hacc ⊢
      simp only [hacc]
    rw [hp] at this
    exact this

end JPV
