/-
ErrBuild — the chains `Build.build` produces satisfy `CE.ConnOK (Fails.flat ch)`: along the
path AS WRITTEN (the parameter chain of an aggregate function, then the aggregate, then what
follows) every connectedText is non-empty and strictly shorter than the one before; inner
identifiers and the union twin carry their node's. Extends `CE.build_connOK` (which excludes
aggregates) to every path.
-/
import JPV.Lemmas.ErrConn
import JPV.Lemmas.BuildWf
namespace JPV
namespace ES
open Impl TSem Fails Build BD
open CE (ConnOK ConnPre stepTexts fnText)

/-! ### the steps never produce an aggregate node -/

def NoAfnPre : Pre → Prop
  | .node _ _ mk => ∀ i, noAfnN (mk i) = true
  | _ => False

mutual
theorem step_noafn (env : Env) (cfg : Cfg) : (s : Step) → (ps : List Pre) → stepPre env cfg s = .ok ps →
    ∀ p ∈ ps, NoAfnPre p
  | .child t k, ps, h => by
    rw [stepPre] at h; cases h
    intro p hp; rw [List.mem_singleton.mp hp]; exact fun _ => rfl
  | .wild t, ps, h => by
    rw [stepPre] at h; cases h
    intro p hp; rw [List.mem_singleton.mp hp]; exact fun _ => rfl
  | .multi t ns, ps, h => by
    rw [stepPre] at h; cases h
    intro p hp; rw [List.mem_singleton.mp hp]; exact fun _ => rfl
  | .union t ss, ps, h => by
    rw [stepPre_union] at h; cases h
    intro p hp; rw [List.mem_singleton.mp hp]; exact fun _ => rfl
  | .filter t q, ps, h => by
    rw [stepPre] at h
    obtain ⟨tq, _, h2⟩ := bind_ok h
    cases h2
    intro p hp; rw [List.mem_singleton.mp hp]; exact fun _ => rfl
  | .desc s, ps, h => by
    rw [stepPre_desc] at h
    obtain ⟨inner, hi, h2⟩ := bind_ok h
    cases h2
    intro p hp
    rcases List.mem_cons.mp hp with rfl | hp
    · exact fun _ => rfl
    · exact step_noafn env cfg s inner hi p hp
theorem steps_noafn (env : Env) (cfg : Cfg) : (ss : List Step) → (ps : List Pre) → stepsPre env cfg ss = .ok ps →
    ∀ p ∈ ps, NoAfnPre p
  | [], ps, h => by
    rw [stepsPre] at h; cases h
    intro p hp; simp at hp
  | s :: ss, ps, h => by
    rw [stepsPre] at h
    obtain ⟨a, ha, h2⟩ := bind_ok h
    obtain ⟨b, hb, h3⟩ := bind_ok h2
    cases h3
    intro p hp
    rcases List.mem_append.mp hp with hp | hp
    · exact step_noafn env cfg s a ha p hp
    · exact steps_noafn env cfg ss b hb p hp
end

/-! ### `flat` -/

theorem flat_append : ∀ (a b : List N), flat (a ++ b) = flat a ++ flat b
  | [], b => by simp [flat]
  | n :: a, b => by
    have ih := flat_append a b
    cases n <;> simp [flat, flatN, ih]

theorem flat_single {n : N} (h : noAfnN n = true) : flat [n] = [n] := by
  cases n <;> first | rfl | simp [noAfnN] at h

/-- connected-text lengths along the chain as written -/
def lens (ns : List N) : List Nat := ns.map (fun n => n.info.conn.utf8ByteSize)

/-- inner identifiers and twins carry their node's connected text -/
def EI (ns : List N) : Prop := ∀ n ∈ ns, ∀ j ∈ CE.errInfos n, j.conn = n.info.conn

theorem flat_setVg_head (n : N) (rest : List N) :
    lens (flat (n.setVg :: rest)) = lens (flat (n :: rest)) ∧ (EI (flat (n :: rest)) → EI (flat (n.setVg :: rest))) := by
  have hgen : ∀ (pre : List N), lens (pre ++ n.setVg :: flat rest) = lens (pre ++ n :: flat rest) ∧
      (EI (pre ++ n :: flat rest) → EI (pre ++ n.setVg :: flat rest)) := by
    intro pre
    refine ⟨by simp [lens, CE.setVg_conn], fun h m hm j hj => ?_⟩
    rcases List.mem_append.mp hm with hm | hm
    · exact h m (List.mem_append_left _ hm) j hj
    · rcases List.mem_cons.mp hm with rfl | hm
      · obtain ⟨j', hj', he⟩ := CE.errInfos_setVg n j hj
        rw [he, CE.setVg_conn]
        exact h n (List.mem_append_right _ List.mem_cons_self) j' hj'
      · exact h m (List.mem_append_right _ (List.mem_cons_of_mem _ hm)) j hj
  cases n with
  | afn i name param => exact hgen (flat param)
  | root i | cur i | child i _ | wild i | multi i _ _ | desc i _ _ | union i _ | filter i _ | ffn i _ => exact hgen []

theorem flat_markVg (ch : List N) :
    lens (flat (markVg ch)) = lens (flat ch) ∧ (EI (flat ch) → EI (flat (markVg ch))) := by
  cases ch with
  | nil => exact ⟨rfl, id⟩
  | cons n rest =>
    simp only [Build.markVg]
    split
    · exact flat_setVg_head n rest
    · exact ⟨rfl, id⟩

theorem flat_deleteHead (ch : List N) :
    List.Sublist (flat (deleteHead ch)) (flat ch) := by
  unfold Build.deleteHead
  split
  · simp only [flat, flatN]; exact List.sublist_cons_self _ _
  · simp only [flat, flatN]; exact List.sublist_cons_self _ _
  · exact List.Sublist.refl _

theorem EI.sublist {a b : List N} (h : List.Sublist a b) (hb : EI b) : EI a :=
  fun n hn => hb n (h.subset hn)

theorem flat_finish (ch : List N) :
    List.Sublist (lens (flat (finish ch))) (lens (flat ch)) ∧ (EI (flat ch) → EI (flat (finish ch))) := by
  unfold Build.finish
  obtain ⟨h1, h2⟩ := flat_markVg (deleteHead ch)
  have hs := flat_deleteHead ch
  refine ⟨?_, fun h => h2 (EI.sublist hs h)⟩
  rw [h1]
  exact hs.map _

/-! ### assembling -/

/-- a written element: a navigation node that stores the Info it is given (and is no aggregate), or a function -/
def Kind : Pre → Prop
  | .node _ _ mk => ∀ i, (mk i).info = i ∧ (∀ j ∈ CE.errInfos (mk i), j.conn = i.conn) ∧ noAfnN (mk i) = true
  | _ => True

theorem lens_snoc (ch : List N) (n : N) (h : noAfnN n = true) :
    lens (flat (ch ++ [n])) = lens (flat ch) ++ [n.info.conn.utf8ByteSize] := by
  rw [flat_append, flat_single h]
  simp [lens]

theorem EI_snoc (ch : List N) (n : N) (h : noAfnN n = true) (hch : EI (flat ch))
    (hn : ∀ j ∈ CE.errInfos n, j.conn = n.info.conn) : EI (flat (ch ++ [n])) := by
  rw [flat_append, flat_single h]
  intro m hm
  rcases List.mem_append.mp hm with hm | hm
  · exact hch m hm
  · rw [List.mem_singleton.mp hm]; exact hn

theorem assemble_flat (env : Env) : ∀ (l : List (Pre × Info)) (ch r : List N),
    assemble env l ch = .ok r → (∀ x ∈ l, Kind x.1) → EI (flat ch) →
    List.Sublist (lens (flat r)) (lens (flat ch) ++ l.map (fun x => x.2.conn.utf8ByteSize)) ∧ EI (flat r)
  | [], ch, r, h, _, hei => by
    simp only [assemble, Except.ok.injEq] at h
    subst h
    simpa using hei
  | (p, i) :: l, ch, r, h, hk, hei => by
    have hk' := fun x hx => hk x (List.mem_cons_of_mem _ hx)
    cases p with
    | node t vg mk =>
      simp only [assemble] at h
      obtain ⟨k1, k2, k3⟩ := hk _ List.mem_cons_self i
      obtain ⟨a, b⟩ := assemble_flat env l _ r h hk'
        (EI_snoc ch (mk i) k3 hei (fun j hj => by rw [k1]; exact k2 j hj))
      refine ⟨?_, b⟩
      rw [lens_snoc ch (mk i) k3, k1] at a
      simpa using a
    | ffn t name =>
      simp only [assemble] at h
      cases hf : env.ffn name with
      | none => rw [hf] at h; cases h
      | some f =>
        rw [hf] at h
        obtain ⟨a, b⟩ := assemble_flat env l _ r h hk'
          (EI_snoc ch (.ffn i name) rfl hei (fun j hj => by
            simp only [CE.errInfos, List.mem_singleton] at hj; rw [hj]))
        refine ⟨?_, b⟩
        rw [lens_snoc ch (.ffn i name) rfl] at a
        simpa [N.info] using a
    | afn t name =>
      simp only [assemble] at h
      cases hf : env.afn name with
      | none => rw [hf] at h; cases h
      | some f =>
        rw [hf] at h
        obtain ⟨f1, f2⟩ := flat_finish ch
        have hflat : flat [N.afn i name (finish ch)] = flat (finish ch) ++ [N.afn i name (finish ch)] := by
          simp [flat, flatN]
        have hei1 : EI (flat [N.afn i name (finish ch)]) := by
          rw [hflat]
          intro m hm
          rcases List.mem_append.mp hm with hm | hm
          · exact f2 hei m hm
          · rw [List.mem_singleton.mp hm]
            intro j hj
            simp only [CE.errInfos, List.mem_singleton] at hj
            rw [hj]
        obtain ⟨a, b⟩ := assemble_flat env l _ r h hk' hei1
        refine ⟨a.trans ?_, b⟩
        rw [hflat]
        simp only [lens, List.map_append, List.map_cons, List.map_nil, N.info, List.append_assoc,
          List.singleton_append]
        exact List.Sublist.append f1 (List.Sublist.refl _)

/-! ### the chains `Parse` builds -/

theorem kind_of {p : Pre} (h1 : ConnPre p) (h2 : NoAfnPre p) : Kind p := by
  cases p with
  | node t vg mk => exact fun i => ⟨(h1 i).1, (h1 i).2, h2 i⟩
  | ffn _ _ => trivial
  | afn _ _ => trivial

/-- **every chain `Parse` builds**, aggregates included: along the path as written the
    connected texts are non-empty and strictly decreasing -/
theorem build_connOK_flat (env : Env) (cfg : Cfg) (h : Head) (steps : List Step) (pfns : List Fn) (ch : List N)
    (htexts : ∀ t ∈ steps.flatMap stepTexts ++ pfns.map fnText, t ≠ "")
    (hb : Build.build env cfg (.mk h steps pfns) = .ok ch) : ConnOK (flat ch) := by
  unfold Build.build at hb
  rw [buildPath_eq] at hb
  obtain ⟨sp, hsp, h2⟩ := bind_ok hb
  obtain ⟨c, hc, h3⟩ := bind_ok h2
  cases h3
  obtain ⟨hcp, htx⟩ := CE.steps_conn env cfg steps sp hsp
  have hna := steps_noafn env cfg steps sp hsp
  have hfst := mkInfos_fst cfg true (headPreOf h :: sp ++ pfns.map fnPre)
  have hconn := CE.mkInfos_conn cfg (headPreOf h :: sp ++ pfns.map fnPre)
  generalize mkInfos cfg true (headPreOf h :: sp ++ pfns.map fnPre) = L at hc hfst hconn
  have hkind : ∀ x ∈ L, Kind x.1 := by
    intro x hx
    have hmem : x.1 ∈ headPreOf h :: sp ++ pfns.map fnPre := by
      rw [← hfst]; exact List.mem_map.mpr ⟨x, hx, rfl⟩
    rcases List.mem_cons.mp hmem with he | hmem
    · rw [he]
      cases h <;> exact fun i => ⟨rfl, fun j hj => by
        simp only [CE.errInfos, List.mem_singleton] at hj; rw [hj]; rfl, rfl⟩
    · rcases List.mem_append.mp hmem with hm | hm
      · exact kind_of (hcp _ hm) (hna _ hm)
      · obtain ⟨fn, _, e⟩ := List.mem_map.mp hm
        rw [← e]
        cases fn <;> trivial
  have htexts' : ∀ t ∈ (headPreOf h :: sp ++ pfns.map fnPre).map Pre.text, t ≠ "" := by
    intro t ht
    simp only [List.cons_append, List.map_cons, List.map_append, List.map_map, List.mem_cons, List.mem_append] at ht
    rcases ht with rfl | ht | ht
    · cases h <;> decide
    · rw [htx] at ht
      exact htexts t (List.mem_append_left _ ht)
    · obtain ⟨fn, hfn, rfl⟩ := List.mem_map.mp ht
      apply htexts
      apply List.mem_append_right
      refine List.mem_map.mpr ⟨fn, hfn, ?_⟩
      cases fn <;> rfl
  obtain ⟨d1, d2⟩ := CE.suffixTexts_desc _ htexts'
  rw [← hconn] at d1 d2
  -- the lengths along the chain as written are a sublist of the suffix-text lengths
  obtain ⟨a, b⟩ := assemble_flat env L [] c hc hkind (fun n hn => by simp [flat] at hn)
  obtain ⟨f1, f2⟩ := flat_finish c
  have hsub : List.Sublist (lens (flat (finish c))) (L.map (fun x => x.2.conn.utf8ByteSize)) := by
    have := f1.trans a
    simpa [flat, lens] using this
  have hpw : List.Pairwise (fun a b : Nat => b < a) (L.map (fun x => x.2.conn.utf8ByteSize)) := by
    rw [List.pairwise_map] at d1 ⊢
    exact d1
  have hpos : ∀ k ∈ L.map (fun x => x.2.conn.utf8ByteSize), 0 < k := by
    intro k hk
    obtain ⟨x, hx, rfl⟩ := List.mem_map.mp hk
    exact d2 _ (List.mem_map.mpr ⟨x, hx, rfl⟩)
  refine ⟨?_, ?_, f2 b⟩
  · have := hpw.sublist hsub
    unfold lens at this
    rw [List.pairwise_map] at this
    exact this
  · intro n hn
    exact hpos _ (hsub.subset (List.mem_map.mpr ⟨n, hn, rfl⟩))

/-! ### single-valued paths build single-valued chains -/

def SinglePre : Pre → Prop
  | .node _ _ mk => ∀ i, singleNode (mk i) = true
  | _ => False

theorem step_single (env : Env) (cfg : Cfg) (s : Step) (ps : List Pre) (hv : Spec.isVgStep s = false)
    (h : stepPre env cfg s = .ok ps) : ∀ p ∈ ps, SinglePre p := by
  cases s with
  | child t k =>
    rw [stepPre] at h; cases h
    intro p hp; rw [List.mem_singleton.mp hp]; exact fun _ => rfl
  | union t ss =>
    rw [stepPre_union] at h; cases h
    intro p hp; rw [List.mem_singleton.mp hp]
    match ss, hv with
    | [.idx n], _ => exact fun _ => rfl
    | [.slice _ _ _], hv => simp [Spec.isVgStep, Spec.isVgSub] at hv
    | [.wild], hv => simp [Spec.isVgStep, Spec.isVgSub] at hv
    | [], hv => simp [Spec.isVgStep] at hv
    | _ :: _ :: _, hv => simp [Spec.isVgStep] at hv
  | wild t => simp [Spec.isVgStep] at hv
  | multi t ns => simp [Spec.isVgStep] at hv
  | filter t q => simp [Spec.isVgStep] at hv
  | desc s => simp [Spec.isVgStep] at hv

theorem steps_single (env : Env) (cfg : Cfg) : (ss : List Step) → (ps : List Pre) →
    ss.any Spec.isVgStep = false → stepsPre env cfg ss = .ok ps → ∀ p ∈ ps, SinglePre p
  | [], ps, _, h => by
    rw [stepsPre] at h; cases h
    intro p hp; simp at hp
  | s :: ss, ps, hv, h => by
    rw [stepsPre] at h
    obtain ⟨a, ha, h2⟩ := bind_ok h
    obtain ⟨b, hb, h3⟩ := bind_ok h2
    cases h3
    simp only [List.any_cons, Bool.or_eq_false_iff] at hv
    intro p hp
    rcases List.mem_append.mp hp with hp | hp
    · exact step_single env cfg s a hv.1 ha p hp
    · exact steps_single env cfg ss b hv.2 hb p hp

theorem noAfn_iff (ch : List N) : noAfn ch = true ↔ ∀ n ∈ ch, noAfnN n = true := by
  induction ch with
  | nil => simp [noAfn]
  | cons n rest ih => simp [noAfn, ih]

theorem noAfnN_setVg (n : N) : noAfnN n.setVg = noAfnN n := by cases n <;> rfl

theorem noAfn_markVg (ch : List N) : noAfn (markVg ch) = noAfn ch := by
  cases ch with
  | nil => rfl
  | cons n rest =>
    simp only [Build.markVg]
    split
    · simp only [noAfn, noAfnN_setVg]
    · rfl

/-- a path without value-group steps and without aggregate functions builds a single-valued,
    aggregate-free chain -/
theorem build_single (env : Env) (cfg : Cfg) (h : Head) (steps : List Step) (pfns : List Fn) (ch : List N)
    (hv : steps.any Spec.isVgStep = false) (hffn : ∀ fn ∈ pfns, CE.isFfnFn fn = true)
    (hb : Build.build env cfg (.mk h steps pfns) = .ok ch) : singleChain ch = true ∧ noAfn ch = true := by
  unfold Build.build at hb
  rw [buildPath_eq] at hb
  obtain ⟨sp, hsp, h2⟩ := bind_ok hb
  obtain ⟨c, hc, h3⟩ := bind_ok h2
  cases h3
  have hna := steps_noafn env cfg steps sp hsp
  have hsg := steps_single env cfg steps sp hv hsp
  have hfst := mkInfos_fst cfg true (headPreOf h :: sp ++ pfns.map fnPre)
  generalize mkInfos cfg true (headPreOf h :: sp ++ pfns.map fnPre) = L at hc hfst
  have hnode : ∀ x ∈ L, x.1.isAfn = false ∧ singleNode (nodeOf x) = true ∧ noAfnN (nodeOf x) = true := by
    intro x hx
    obtain ⟨p, i⟩ := x
    have hmem : p ∈ headPreOf h :: sp ++ pfns.map fnPre := by
      rw [← hfst]; exact List.mem_map.mpr ⟨(p, i), hx, rfl⟩
    rcases List.mem_cons.mp hmem with he | hmem
    · subst he
      cases h <;> exact ⟨rfl, rfl, rfl⟩
    · rcases List.mem_append.mp hmem with hm | hm
      · have h1 := hna p hm
        have h2 := hsg p hm
        cases p with
        | node t vg mk => exact ⟨rfl, h2 i, h1 i⟩
        | ffn _ _ => exact h1.elim
        | afn _ _ => exact h1.elim
      · obtain ⟨fn, hfn, e⟩ := List.mem_map.mp hm
        have := hffn fn hfn
        cases fn with
        | ffn t name => subst e; exact ⟨rfl, rfl, rfl⟩
        | afn t name => simp [CE.isFfnFn] at this
  have hc' := CE.assemble_noafn env L [] c hc (fun x hx => (hnode x hx).1)
  rw [List.nil_append] at hc'
  subst hc'
  unfold Build.finish
  rw [BW.singleChain_markVg, noAfn_markVg, BW.singleChain_iff, noAfn_iff]
  refine ⟨fun n hn => ?_, fun n hn => ?_⟩
  · obtain ⟨x, hx, rfl⟩ := List.mem_map.mp (BW.deleteHead_sub _ n hn)
    exact (hnode x hx).2.1
  · obtain ⟨x, hx, rfl⟩ := List.mem_map.mp (BW.deleteHead_sub _ n hn)
    exact (hnode x hx).2.2

end ES
end JPV
