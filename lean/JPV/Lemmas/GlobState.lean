/-
Lemmas about the regenerated wrapper code `Gen/ParseWrapGo.lean` (jsonpath.go `Parse` and the function it
returns, cache.go `getContainer` / `putContainer` / `putSortSlice`) over the explicit global state of
`Glob/State.lean`. Everything here is about `Gen.ParseWrapGo.*`, i.e. re-proved against what the source
says on every run. The property theorems are in Props/C05State.lean, C06State.lean, C19State.lean.
-/
import JPV.Gen.ParseWrapGo
-- the simp sets below list setters the current source does not use, so that a harmless source change keeps them working
set_option linter.unusedSimpArgs false
namespace JPV
namespace Glob
open JPV.Impl JPV.Gen.ParseWrapGo
variable {ι : Type}

/-! ### pools -/

theorem mem_dropIdxs {α : Type} (is : List Nat) : ∀ (l : List α) (x : α), x ∈ dropIdxs is l → x ∈ l := by
  induction is with
  | nil => intro l x h; exact h
  | cons i is ih => intro l x h; exact List.mem_of_mem_eraseIdx (ih _ _ h)

/-- what stays in the pool after a `Get` was in it before -/
theorem poolGet_snd_mem {α : Type} (new : α) (ch : Choice) (pool : List α) (x : α)
    (h : x ∈ (poolGet new ch pool).2) : x ∈ pool := by
  unfold poolGet at h
  cases hp : ch.pick with
  | none => simp [hp] at h; exact mem_dropIdxs _ _ _ h
  | some i =>
    simp only [hp] at h
    cases hg : (dropIdxs ch.drop pool)[i]? with
    | none => simp [hg] at h; exact mem_dropIdxs _ _ _ h
    | some y => simp [hg] at h; exact mem_dropIdxs _ _ _ (List.mem_of_mem_eraseIdx h)

/-- `Get` returns a pooled object or a new one -/
theorem poolGet_fst {α : Type} (new : α) (ch : Choice) (pool : List α) :
    (poolGet new ch pool).1 = new ∨ (poolGet new ch pool).1 ∈ pool := by
  unfold poolGet
  cases hp : ch.pick with
  | none => simp
  | some i =>
    simp only
    cases hg : (dropIdxs ch.drop pool)[i]? with
    | none => simp
    | some y => right; simp; exact mem_dropIdxs _ _ _ (List.mem_of_getElem? hg)

/-! ### the copy loop -/

theorem set_take_replicate {α : Type} (l : List α) (d : α) (k : Nat) (hk : k < l.length) :
    (l.take k ++ List.replicate (l.length - k) d).set k l[k] =
      l.take (k + 1) ++ List.replicate (l.length - (k + 1)) d := by
  apply List.ext_getElem?
  intro i
  simp only [List.getElem?_set, List.getElem?_append, List.getElem?_take, List.length_take, List.length_append,
    List.length_replicate, List.getElem?_replicate]
  have e1 : min k l.length = k := by omega
  have e2 : min (k + 1) l.length = k + 1 := by omega
  rw [e1, e2]
  by_cases hik : k = i
  · subst hik
    have : k < k + (l.length - k) := by omega
    simp [this, hk]
  · by_cases h3 : i < k
    · have : i < k + 1 := by omega
      simp [hik, h3, this]
    · have h4 : ¬ i < k + 1 := by omega
      simp only [hik, h3, h4, if_false]
      by_cases h5 : i - k < l.length - k
      · have : i - (k + 1) < l.length - (k + 1) := by omega
        simp [h5, this]
      · have : ¬ i - (k + 1) < l.length - (k + 1) := by omega
        simp [h5, this]

@[simp] theorem Slice.len_make (n : Nat) : (Slice.make n).len = n := by simp [Slice.make, Slice.len]

/-- `result[index] = s[index]` -/
def copyBody (s : Slice) : Nat → Slice → Except CPanic Slice := fun index result =>
  (s.get index).bind (fun x => result.set index x)

theorem copy_step (s : Slice) (k : Nat) (hk' : k < s.elems.length) :
    copyBody s k ⟨.made, s.elems.take k ++ List.replicate (s.elems.length - k) (.plain .null), []⟩ =
      .ok ⟨.made, s.elems.take (k + 1) ++ List.replicate (s.elems.length - (k + 1)) (.plain .null), []⟩ := by
  have hlen : k < (List.take k s.elems ++ List.replicate (s.elems.length - k) (Res.plain Val.null)).length := by
    simp; omega
  simp only [copyBody, Slice.get, List.getElem?_eq_getElem hk', Except.bind, Slice.set, hlen, if_true,
    set_take_replicate s.elems _ k hk']

theorem copy_prefix (s : Slice) : ∀ k, k ≤ s.elems.length →
    (List.range k).foldlM (fun acc i => copyBody s i acc) (Slice.make s.len) =
      .ok ⟨.made, s.elems.take k ++ List.replicate (s.elems.length - k) (.plain .null), []⟩ := by
  intro k
  induction k with
  | zero => intro _; simp [Slice.make, Slice.len]; rfl
  | succ k ih =>
    intro hk
    have hk' : k < s.elems.length := by omega
    rw [List.range_succ, List.foldlM_append, ih (by omega)]
    show (List.foldlM (fun acc i => copyBody s i acc) _ [k]) = _
    simp only [List.foldlM_cons, List.foldlM_nil, copy_step s k hk']
    rfl

/-- `result := make(…, len(s)); for index := range result { result[index] = s[index] }` never panics and
    leaves a made slice with the elements of `s` (any loop body that is pointwise `copyBody`) -/
theorem copyLoop_eq (s : Slice) (body : Nat → Slice → Except CPanic Slice) (hb : ∀ i r, body i r = copyBody s i r) :
    forRange s.len (Slice.make s.len) body = .ok ⟨.made, s.elems, []⟩ := by
  have := copy_prefix s s.elems.length (Nat.le_refl _)
  simp only [Nat.sub_self, List.replicate_zero, List.append_nil, List.take_length] at this
  have hbody : body = fun i r => copyBody s i r := by funext i r; exact hb i r
  simp only [forRange, hbody, Slice.len]
  exact this

/-! ### cache.go -/

/-- `putContainer` puts back exactly the container it was given, truncated -/
theorem putContainer_pools (c : Container) (w : World) :
    (putContainer c w).pools.result = ⟨c.result.truncate0⟩ :: w.pools.result ∧
    (putContainer c w).pools.sort = w.pools.sort := by
  simp [putContainer, World.resultPoolPut, World.ev, Container.setResult]

theorem putContainer_rest (c : Container) (w : World) :
    (putContainer c w).parser = w.parser ∧ (putContainer c w).mutex = w.mutex := by
  simp [putContainer, World.resultPoolPut, World.ev]

/-- … and thereby re-establishes the pool invariant, whatever the container holds -/
theorem putContainer_truncated (c : Container) (w : World) (hw : w.pools.Truncated) :
    (putContainer c w).pools.Truncated := by
  intro x hx
  rw [(putContainer_pools c w).1] at hx
  rcases List.mem_cons.mp hx with h | h
  · subst h; rfl
  · exact hw x h

theorem getContainer_empty (ch : Choice) (w : World) (hw : w.pools.Truncated) :
    (getContainer ch w).1.result.elems = [] := by
  simp only [getContainer, World.resultPoolGet]
  rcases poolGet_fst resultSyncPool_New ch w.pools.result with h | h
  · rw [h]; rfl
  · exact hw _ h

theorem getContainer_truncated (ch : Choice) (w : World) (hw : w.pools.Truncated) :
    (getContainer ch w).2.pools.Truncated := by
  intro x hx
  simp only [getContainer, World.resultPoolGet, World.ev] at hx
  exact hw x (poolGet_snd_mem _ _ _ _ hx)

theorem getContainer_rest (ch : Choice) (w : World) :
    (getContainer ch w).2.parser = w.parser ∧ (getContainer ch w).2.mutex = w.mutex := by
  simp [getContainer, World.resultPoolGet, World.ev]

/-- the sort-key pool: `putSortSlice` puts a non-nil slice back as it is, and does nothing else -/
theorem putSortSlice_pools (s : Option (List String)) (w : World) :
    (putSortSlice s w).pools.sort = (match s with | some l => l :: w.pools.sort | none => w.pools.sort) ∧
    (putSortSlice s w).pools.result = w.pools.result ∧ (putSortSlice s w).parser = w.parser ∧
    (putSortSlice s w).mutex = w.mutex := by
  cases s <;> simp [putSortSlice, World.sortPoolPut, World.ev]

/-! ### the function returned by `Parse` -/

/-- what the opaque `retrieve` is required to do -/
structure RetrieveOK (ops : Ops ι) (spec : Tree → Val → List Res × RetrRes) : Prop where
  /-- entered with an EMPTY container and truncated pools it leaves `spec t d` — whatever else the pools
      hold, whatever the stale cells of the container are, whatever its own oracle says -/
  result : ∀ t pools o d c, pools.Truncated → c.result.elems = [] →
    ((ops.retrieve t pools o d d c).2.1.result.elems, (ops.retrieve t pools o d d c).2.2) = spec t d
  /-- it gives back every container it took, truncated -/
  pools : ∀ t pools o a b c, pools.Truncated → (ops.retrieve t pools o a b c).1.Truncated

/-- the outcome of a call as a function of the captured tree and the document alone -/
def callSpec (spec : Tree → Val → List Res × RetrRes) (root : Option Tree) (d : Val) : CallRet :=
  match root with
  | none => .panicked .nilRoot
  | some t =>
    match spec t d with
    | (_, .panic p) => .panicked p
    | (_, .ret (some e)) => .returned none (some e)
    | (rs, .ret none) => .returned (some ⟨.made, rs, []⟩) none

theorem body_spec (ops : Ops ι) (spec : Tree → Val → List Res × RetrRes) (h : RetrieveOK ops spec)
    (root : Option Tree) (d : Val) (o : ι) (c : Container) (w : World) (hw : w.pools.Truncated)
    (hc : c.result.elems = []) :
    (Parse_func_body ops root d o c w).2.2 = callSpec spec root d ∧
    (Parse_func_body ops root d o c w).2.1.pools.Truncated := by
  cases root with
  | none => simp [Parse_func_body, World.retrieve, callSpec, World.ev]; exact hw
  | some t =>
    have h1 := h.result t w.pools o d c hw hc
    have h2 := h.pools t w.pools o d d c hw
    unfold Parse_func_body World.retrieve
    simp only [callSpec, ← h1]
    rcases hr : ops.retrieve t w.pools o d d c with ⟨p', c', res⟩
    rw [hr] at h2
    simp only at h2
    cases res with
    | panic p => simp [World.ev]; exact h2
    | ret e =>
      cases e with
      | some e => simp [World.ev]; exact h2
      | none =>
        simp only [Slice.len_make]
        rw [copyLoop_eq c'.result _ (fun i r => by cases hx : c'.result.get i <;> simp [copyBody, hx, Except.bind])]
        simp [World.ev]; exact h2

/-- one call: its value is `callSpec`, the pool invariant is re-established -/
theorem func_spec (ops : Ops ι) (spec : Tree → Val → List Res × RetrRes) (h : RetrieveOK ops spec)
    (root : Option Tree) (d : Val) (ch : Choice) (o : ι) (w : World) (hw : w.pools.Truncated) :
    (Parse_func ops root d ch o w).2 = callSpec spec root d ∧ (Parse_func ops root d ch o w).1.pools.Truncated := by
  have hb := body_spec ops spec h root d o (getContainer ch w).1 (getContainer ch w).2
    (getContainer_truncated ch w hw) (getContainer_empty ch w hw)
  simp only [Parse_func, Parse_func_defer1]
  exact ⟨hb.1, putContainer_truncated _ _ hb.2⟩

/-- a call touches neither the global parser nor the mutex (needs nothing of `ops`) -/
theorem func_rest (ops : Ops ι) (root : Option Tree) (d : Val) (ch : Choice) (o : ι) (w : World) :
    (Parse_func ops root d ch o w).1.parser = w.parser ∧ (Parse_func ops root d ch o w).1.mutex = w.mutex := by
  have hg := getContainer_rest ch w
  simp only [Parse_func, Parse_func_defer1]
  refine ⟨?_, ?_⟩
  · rw [(putContainer_rest _ _).1, ← hg.1]
    unfold Parse_func_body World.retrieve
    cases root with
    | none => simp [World.ev]
    | some t =>
      simp only
      rcases ops.retrieve t (getContainer ch w).2.pools o d d (getContainer ch w).1 with ⟨p', c', res⟩
      rcases res with (_ | e) | p <;> simp only [World.ev] <;> (repeat' split) <;> rfl
  · rw [(putContainer_rest _ _).2, ← hg.2]
    unfold Parse_func_body World.retrieve
    cases root with
    | none => simp [World.ev]
    | some t =>
      simp only
      rcases ops.retrieve t (getContainer ch w).2.pools o d d (getContainer ch w).1 with ⟨p', c', res⟩
      rcases res with (_ | e) | p <;> simp only [World.ev] <;> (repeat' split) <;> rfl

/-- the value of a call in terms of what `getContainer` returned and what `retrieve` left (no assumption) -/
theorem func_value (ops : Ops ι) (root : Option Tree) (d : Val) (ch : Choice) (o : ι) (w : World) :
    (Parse_func ops root d ch o w).2 =
      (match ((getContainer ch w).2.retrieve ops root d d (getContainer ch w).1 o) with
       | (_, _, .panic p) => .panicked p
       | (_, _, .ret (some e)) => .returned none (some e)
       | (c', _, .ret none) => .returned (some ⟨.made, c'.result.elems, []⟩) none) := by
  simp only [Parse_func, Parse_func_defer1]
  unfold Parse_func_body
  rcases hr : (getContainer ch w).2.retrieve ops root d d (getContainer ch w).1 o with ⟨c', w', res⟩
  rcases res with (_ | e) | p
  · simp only [Slice.len_make]
    rw [copyLoop_eq c'.result _ (fun i r => by cases hx : c'.result.get i <;> simp [copyBody, hx, Except.bind])]
  · simp
  · simp

/-- where the returned slice comes from and where the container goes, with NO assumption on `retrieve`:
    writing `g` for what `getContainer` returned and `r` for what `retrieve` left, on every exit the
    container found after `retrieve` is put back truncated on top of the pool `retrieve` left; and a
    result, if one is returned, is a MADE slice (len = cap) holding the container's elements -/
theorem func_owned (ops : Ops ι) (root : Option Tree) (d : Val) (ch : Choice) (o : ι) (w : World) :
    let g := getContainer ch w
    let r := g.2.retrieve ops root d d g.1 o
    (Parse_func ops root d ch o w).1.pools.result = ⟨r.1.result.truncate0⟩ :: r.2.1.pools.result ∧
    ∀ res err, (Parse_func ops root d ch o w).2 = .returned (some res) err →
      res = ⟨.made, r.1.result.elems, []⟩ ∧ err = none ∧ r.2.2 = .ret none := by
  intro g r
  simp only [Parse_func, Parse_func_defer1]
  rw [(putContainer_pools _ _).1]
  unfold Parse_func_body
  show (_ ∧ _)
  rcases hr : g.2.retrieve ops root d d g.1 o with ⟨c', w', res⟩
  have hr' : r = (c', w', res) := hr
  rw [hr']
  rcases res with (_ | e) | p
  · simp only [Slice.len_make]
    rw [copyLoop_eq c'.result _ (fun i r => by cases hx : c'.result.get i <;> simp [copyBody, hx, Except.bind])]
    simp
  · simp
  · simp

/-! ### `Parse` -/

/-- unfold every primitive of Glob/State.lean that the wrapper may use (more than today's source uses, so that
    e.g. a field-by-field reset still unfolds) -/
local macro "prims" "[" ts:Lean.Parser.Tactic.simpLemma,* "]" : tactic =>
  `(tactic| simp [World.parseIsNil, World.pegInit, World.pegReset, World.setBuffer, World.ev, World.runActions,
      World.setUnescapeRegex, World.setRoot, World.setParams, World.setParamsList, World.setFilterFunctions,
      World.setAggregateFunctions, World.setAccessorMode, World.setJsonPathParser, World.updJP, World.getRoot,
      World.unlock, World.lock, elemAt, asError, BodyRet.frame, ParseRet.ofFrame, $ts,*])

theorem Parse_blocked (ops : Ops ι) (s : String) (config : List Config) (w : World) (hw : w.mutex = true) :
    Parse ops s config w = (w, .blocked) := by
  simp [Parse, World.lock, hw]

/-- after `Parse` has returned the embedded jsonPathParser is `jsonPathParser{}` and the mutex is free -/
theorem Parse_reset (ops : Ops ι) (s : String) (config : List Config) (w : World) (hw : w.mutex = false) :
    (Parse ops s config w).1.parser.jsonPathParser = JsonPathParser.zero ∧ (Parse ops s config w).1.mutex = false := by
  prims [Parse, hw, Parse_defer1, JsonPathParser.zero]

/-- the state the actions run on: the state found, with the regexp set and, if a configuration is given,
    its three fields copied in -/
def armed (jp : JsonPathParser) (config : List Config) : JsonPathParser :=
  match config with
  | [] => { jp with unescapeRegex := true }
  | c :: _ => { jp with unescapeRegex := true, filterFunctions := c.filterFunctions,
                        aggregateFunctions := c.aggregateFunctions, accessorMode := c.accessorMode }

/-- what `Parse` returns, as data -/
inductive PRet where
  | fn (root : Option Tree)      -- (function closing over `root`, nil)
  | err (e : PanicVal)           -- (nil, e)
  | nothing                      -- (nil, nil): a recovered panic whose value is not an `error`

/-- `Parse` as a function of the embedded jsonPathParser found, the path and the configuration -/
def pureParse (ops : Ops ι) (s : String) (config : List Config) (jp : JsonPathParser) : PRet :=
  match ops.runActions (armed jp config) s with
  | (jp', none) => .fn jp'.root
  | (_, some stop) => if ops.isError stop then .err (.action stop) else .nothing

def PRet.toRet (ops : Ops ι) : PRet → ParseRet ι
  | .fn root => .returned (some (Parse_func ops root)) none
  | .err e => .returned none (some e)
  | .nothing => .returned none none

/-- the value of `Parse` depends on the world only through the embedded jsonPathParser: not on `Buffer`,
    not on whether the PEG runtime was initialised or used before, not on the pools, not on the log -/
theorem Parse_ret (ops : Ops ι) (s : String) (config : List Config) (w : World) (hw : w.mutex = false) :
    (Parse ops s config w).2 = (pureParse ops s config w.parser.jsonPathParser).toRet ops := by
  simp only [Parse, World.lock, hw, Bool.false_eq_true, if_false, Parse_body, Parse_defer1, pureParse]
  cases config with
  | nil =>
    cases hrt : w.parser.rt <;>
    rcases hr : ops.runActions (armed w.parser.jsonPathParser []) s with ⟨jp', _ | stop⟩ <;>
    simp [armed] at hr <;>
    prims [hrt, hr, PRet.toRet] <;>
    cases hie : ops.isError stop <;> simp
  | cons c cs =>
    cases hrt : w.parser.rt <;>
    rcases hr : ops.runActions (armed w.parser.jsonPathParser (c :: cs)) s with ⟨jp', _ | stop⟩ <;>
    simp [armed] at hr <;>
    prims [hrt, hr, PRet.toRet] <;>
    cases hie : ops.isError stop <;> simp

/-- `Parse` does not touch the pools -/
theorem Parse_pools (ops : Ops ι) (s : String) (config : List Config) (w : World) :
    (Parse ops s config w).1.pools = w.pools := by
  cases hw : w.mutex
  · simp only [Parse, World.lock, hw, Bool.false_eq_true, if_false, Parse_body, Parse_defer1]
    cases config with
    | nil =>
      cases hrt : w.parser.rt <;>
      rcases hr : ops.runActions { w.parser.jsonPathParser with unescapeRegex := true } s with ⟨jp', _ | stop⟩ <;>
      prims [hrt, hr]
    | cons c cs =>
      cases hrt : w.parser.rt <;>
      rcases hr : ops.runActions (armed w.parser.jsonPathParser (c :: cs)) s with ⟨jp', _ | stop⟩ <;>
      simp [armed] at hr <;>
      prims [hrt, hr]
  · rw [Parse_blocked ops s config w hw]

/-! ### the log -/

/-- `Held base l`: since `base`, the log shows a `Lock` and then only accesses to `parser` -/
inductive Held (base : List Ev) : List Ev → Prop
  | lock : Held base (.lock :: base)
  | parser (what : String) {l : List Ev} : Held base l → Held base (.parser what :: l)

/-- `Atomic base log`: the events added to `base` are `Lock`, accesses to `parser`, `Unlock` — in this order -/
def Atomic (base log : List Ev) : Prop := ∃ l, log = .unlock :: l ∧ Held base l

/-- `Quiet base log`: the events added to `base` are pool traffic and runs of `retrieve` only -/
inductive Quiet (base : List Ev) : List Ev → Prop
  | base : Quiet base base
  | pool (what : String) {l : List Ev} : Quiet base l → Quiet base (.pool what :: l)
  | retrieve {l : List Ev} : Quiet base l → Quiet base (.retrieve :: l)

theorem Held.okLog {base l : List Ev} (h : Held base l) (hb : okLog base = some false) : okLog l = some true := by
  induction h with
  | lock => simp [Glob.okLog, hb]
  | parser what _ ih => simp [Glob.okLog, ih]

theorem Atomic.okLog {base log : List Ev} (h : Atomic base log) (hb : okLog base = some false) :
    okLog log = some false := by
  rcases h with ⟨l, rfl, hl⟩
  simp [Glob.okLog, hl.okLog hb]

theorem Quiet.okLog {base l : List Ev} (h : Quiet base l) (b : Bool) (hb : okLog base = some b) : okLog l = some b := by
  induction h with
  | base => exact hb
  | pool what _ ih => simp [Glob.okLog, ih]
  | retrieve _ ih => simp [Glob.okLog, ih]

/-- every parser access in the new part of an atomic log has a `lock` before it and the `unlock` after it -/
theorem Held.mem {base l : List Ev} (h : Held base l) :
    ∃ mid, l = mid ++ .lock :: base ∧ ∀ e ∈ mid, e.isParser = true := by
  induction h with
  | lock => exact ⟨[], rfl, by simp⟩
  | parser what _ ih =>
    rcases ih with ⟨mid, rfl, hm⟩
    exact ⟨.parser what :: mid, rfl, by
      intro e he
      rcases List.mem_cons.mp he with h | h
      · subst h; rfl
      · exact hm e h⟩

theorem Quiet.noParser {base l : List Ev} (h : Quiet base l) :
    ∃ mid, l = mid ++ base ∧ ∀ e ∈ mid, e.isParser = false ∧ e ≠ .lock ∧ e ≠ .unlock := by
  induction h with
  | base => exact ⟨[], rfl, by simp⟩
  | pool what _ ih =>
    rcases ih with ⟨mid, rfl, hm⟩
    exact ⟨.pool what :: mid, rfl, by
      intro e he
      rcases List.mem_cons.mp he with h | h
      · subst h; simp [Ev.isParser]
      · exact hm e h⟩
  | retrieve _ ih =>
    rcases ih with ⟨mid, rfl, hm⟩
    exact ⟨.retrieve :: mid, rfl, by
      intro e he
      rcases List.mem_cons.mp he with h | h
      · subst h; simp [Ev.isParser]
      · exact hm e h⟩

/-- the trace of the generated `Parse` -/
theorem Parse_atomic (ops : Ops ι) (s : String) (config : List Config) (w : World) (hw : w.mutex = false) :
    Atomic w.log (Parse ops s config w).1.log := by
  simp only [Parse, World.lock, hw, Bool.false_eq_true, if_false, Parse_body, Parse_defer1]
  cases config with
  | nil =>
    cases hrt : w.parser.rt <;>
    rcases hr : ops.runActions { w.parser.jsonPathParser with unescapeRegex := true } s with ⟨jp', _ | stop⟩ <;>
    prims [hrt, hr] <;>
    exact ⟨_, rfl, by repeat constructor⟩
  | cons c cs =>
    cases hrt : w.parser.rt <;>
    rcases hr : ops.runActions (armed w.parser.jsonPathParser (c :: cs)) s with ⟨jp', _ | stop⟩ <;>
    simp [armed] at hr <;>
    prims [hrt, hr] <;>
    exact ⟨_, rfl, by repeat constructor⟩

/-- the trace of the function `Parse` returns: no access to `parser`, no lock -/
theorem func_quiet (ops : Ops ι) (root : Option Tree) (d : Val) (ch : Choice) (o : ι) (w : World) :
    Quiet w.log (Parse_func ops root d ch o w).1.log := by
  simp only [Parse_func, Parse_func_defer1, putContainer, World.resultPoolPut, World.ev, getContainer,
    World.resultPoolGet]
  unfold Parse_func_body World.retrieve
  cases root with
  | none => simp [World.ev]; repeat constructor
  | some t =>
    simp only
    rcases ops.retrieve t _ o d d _ with ⟨p', c', res⟩
    rcases res with (_ | e) | p <;> simp only [World.ev] <;> (repeat' split) <;> (repeat constructor)

end Glob
end JPV
