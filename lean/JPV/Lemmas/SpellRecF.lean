/-
SpellRecF — recogniser lemmas for spelled paths, part F (generalises ParsePrintRecF): the structural
recursion over spelled steps, queries, operands and operand paths that discharges `FilterHypS` for every
well-formed step, and the final theorem: the recogniser accepts every spelling of every well-formed
spelled path and yields exactly `tkTopS`.
-/
import JPV.Lemmas.SpellRecE
namespace JPV.SP.RecE
open JPV.Peg JPV.PP JPV.Lex
open JPV.Print (fnText fnsText opText escRegex headChar)
open JPV.Spell (Quote Sign SInt STail SSub SName Cap SLit ChildForm WildForm Sep SStep SQuery SOperand SOpPath SPath)

/-- the levels of a query at which it can stand -/
def QAllS (inp : Array Char) (q : SQuery) : Prop :=
  P0S inp q ∧ (1 ≤ Spell.level q → P1S inp q) ∧ (2 ≤ Spell.level q → P2S inp q)

theorem qall_of_basic_s {inp : Array Char} (q : SQuery) (p2 : P2S inp q) : QAllS inp q :=
  have p1 := p1_of_p2_s q p2
  ⟨p0_of_p1_s q p1, fun _ => p1, fun _ => p2⟩

theorem qall_or_s {inp : Array Char} (a b : SQuery) (l r : Nat) (hwf : Spell.queryWf (.or a l r b) = true)
    (ha : QAllS inp a) (hb : QAllS inp b) : QAllS inp (.or a l r b) :=
  have h' := queryWf_or hwf
  ⟨p0_or_s a b l r h'.2.1 ha.1 (hb.2.1 h'.2.2), fun h => absurd h (by simp [Spell.level]),
    fun h => absurd h (by simp [Spell.level])⟩

theorem qall_and_s {inp : Array Char} (a b : SQuery) (l r : Nat) (hwf : Spell.queryWf (.and a l r b) = true)
    (ha : QAllS inp a) (hb : QAllS inp b) : QAllS inp (.and a l r b) :=
  have h' := queryWf_and hwf
  have p1 : P1S inp (.and a l r b) := p1_and_s a b l r h'.2.1 (ha.2.1 h'.2.2.1) (hb.2.2 h'.2.2.2)
  ⟨p0_of_p1_s _ p1, fun _ => p1, fun h => absurd h (by simp [Spell.level])⟩

theorem qall_exist_s {inp : Array Char} (neg : Option Nat) (q : SOpPath) (hq : OPathHyp inp q) :
    QAllS inp (.exist neg q) :=
  qall_of_basic_s _ (fun k _ _ hs hr => acc_basic_exist_s neg q hq k hs hr)

theorem qall_cmp_s {inp : Array Char} (op : CmpOp) (l r : SOperand) (bl br : Nat) (hl : OperandHyp inp l)
    (hr : OperandHyp inp r) (hwl : Spell.operandWf (Print.isOrd op) l = true)
    (hwr : Spell.operandWf (Print.isOrd op) r = true) : QAllS inp (.cmp op l bl br r) :=
  qall_of_basic_s _ (fun k _ _ hs hrest => acc_basic_cmp_s op l r bl br hl hr hwl hwr k hs hrest)

theorem qall_regex_s {inp : Array Char} (q : SOpPath) (hq : OPathHyp inp q) (bl br : Nat) (re : String)
    (hre : Print.regexOK re = true) : QAllS inp (.regex q bl br re) :=
  qall_of_basic_s _ (fun k _ _ hs _ => acc_basic_regex_s q hq bl br re hre k hs)

theorem qall_paren_s {inp : Array Char} (l : Nat) (q : SQuery) (r : Nat) (hwf : Spell.queryWf q = true)
    (hq : QAllS inp q) : QAllS inp (.paren l q r) :=
  qall_of_basic_s _ (p2_paren_s q l r hwf hq.1)

theorem queryWf_regex {q : SOpPath} {bl br : Nat} {re : String} (h : Spell.queryWf (.regex q bl br re) = true) :
    Spell.opathWf q = true ∧ Print.regexOK re = true := by
  simpa [Spell.queryWf] using h

mutual
theorem thStepS (inp : Array Char) : (s : SStep) → (ad : Bool) → Spell.stepWf ad s = true → FilterHypS inp s
  | .child _ _, _, _ => trivial
  | .wild _, _, _ => trivial
  | .multi _ _ _ _, _, _ => trivial
  | .union _ _ _ _, _, _ => trivial
  | .filter b0 b1 q b2 b3, _, h =>
    have h' : Spell.queryWf q = true := by simpa [Spell.stepWf] using h
    recBracketFilterS_of_p0 b0 b1 q b2 b3 h' (thQueryS inp q h').1
  | .desc s, _, h =>
    thStepS inp s true (by simp only [Spell.stepWf, Bool.and_eq_true] at h; exact h.2)
theorem thStepsS (inp : Array Char) : (ss : List SStep) → Spell.stepsWf ss = true → ∀ s ∈ ss, FilterHypS inp s
  | [], _ => fun _ hs => by cases hs
  | s :: ss, h =>
    have h' : Spell.stepWf false s = true ∧ Spell.stepsWf ss = true := by simpa [Spell.stepsWf] using h
    fun x hx => (List.mem_cons.mp hx).elim (fun e => e ▸ thStepS inp s false h'.1)
      (fun hx => thStepsS inp ss h'.2 x hx)
theorem thQueryS (inp : Array Char) : (q : SQuery) → Spell.queryWf q = true → QAllS inp q
  | .or a l r b, h =>
    have h' := queryWf_or h
    qall_or_s a b l r h (thQueryS inp a h'.1) (thQueryS inp b h'.2.1)
  | .and a l r b, h =>
    have h' := queryWf_and h
    qall_and_s a b l r h (thQueryS inp a h'.1) (thQueryS inp b h'.2.1)
  | .exist neg q, h =>
    have h' : Spell.opathWf q = true := by simpa [Spell.queryWf] using h
    qall_exist_s neg q (thOPathS inp q h')
  | .cmp op l bl br r, h =>
    have h' := queryWf_cmp h
    qall_cmp_s op l r bl br (thOperandS inp l _ h'.1) (thOperandS inp r _ h'.2) h'.1 h'.2
  | .regex q bl br re, h =>
    have h' := queryWf_regex h
    qall_regex_s q (thOPathS inp q h'.1) bl br re h'.2
  | .paren l q r, h =>
    have h' : Spell.queryWf q = true := by simpa [Spell.queryWf] using h
    qall_paren_s l q r h' (thQueryS inp q h')
theorem thOperandS (inp : Array Char) : (o : SOperand) → (ord : Bool) → Spell.operandWf ord o = true → OperandHyp inp o
  | .lit _, _, _ => trivial
  | .path q, _, h =>
    have h' : Spell.opathWf q = true := by simpa [Spell.operandWf] using h
    thOPathS inp q h'
theorem thOPathS (inp : Array Char) : (q : SOpPath) → Spell.opathWf q = true → OPathHyp inp q
  | .mk hd ss fns, h =>
    have h' : Spell.stepsWf ss = true ∧ fns.all Print.fnNameOK = true := by simpa [Spell.opathWf] using h
    ⟨h, thStepsS inp ss h'.1⟩
end

end JPV.SP.RecE

namespace JPV.SP
open JPV.Peg JPV.PP JPV.Lex
open JPV.Spell (SStep SPath)

/-- the bracket of every filter step of a well-formed spelled step is accepted -/
theorem filterHypS_all (inp : Array Char) : ∀ (s : SStep) (ad : Bool), Spell.stepWf ad s = true → FilterHypS inp s :=
  RecE.thStepS inp

/-- the recogniser accepts the spelling of every well-formed spelled path and yields `tkTopS` -/
theorem recognise_spell (a : SPath) (hwf : Spell.wf a = true) :
    recognise (Spell.print a).toArray = .ok (Spell.print a).length (tkTopS a) :=
  have hs : Spell.stepsWf a.steps = true := by
    simp only [Spell.wf, Bool.and_eq_true] at hwf
    exact hwf.1.1
  recognise_top a hwf (RecE.thStepsS _ a.steps hs)

end JPV.SP
