/-
SubIdx — the subscripts the tree carries (`Impl.subIndexes ∘ Build.subI`) select exactly the
indices the specification gives (`Spec.subIndices`): Go's clamped loops vs Python's slice
arithmetic, over unbounded integers.
-/
import JPV.Spec
import JPV.Build
import JPV.Impl.Basic
namespace JPV
namespace SubIdx
open Impl

/-- number of iterations of `for i := a; i < b; i += step` -/
def upCount (a b step : Int) : Int := if a < b then (b - a - 1) / step + 1 else 0

theorem upCount_step {a b step : Int} (hs : 0 < step) (hab : a < b) :
    upCount a b step = upCount (a + step) b step + 1 := by
  unfold upCount
  rw [if_pos hab]
  by_cases h : a + step < b
  · rw [if_pos h]
    have e : b - a - 1 = (b - (a + step) - 1) + 1 * step := by omega
    rw [e, Int.add_mul_ediv_right _ _ (by omega)]
  · rw [if_neg h]
    rw [Int.ediv_eq_zero_of_lt (by omega) (by omega)]

theorem upCount_nonneg {a b step : Int} (hs : 0 < step) : 0 ≤ upCount a b step := by
  unfold upCount
  split
  · have : 0 ≤ (b - a - 1) / step := Int.ediv_nonneg (by omega) (by omega)
    omega
  · omega

theorem upCount_le {a b step : Int} (_hs : 0 < step) (hab : a < b) : upCount a b step ≤ b - a := by
  unfold upCount
  rw [if_pos hab]
  have : (b - a - 1) / step ≤ b - a - 1 := Int.ediv_le_self _ (by omega)
  omega

theorem loopUp_eq (fuel : Nat) : ∀ (a b step : Int), 0 < step → (upCount a b step).toNat ≤ fuel →
    loopUp fuel a b step = (List.range (upCount a b step).toNat).map (fun (i : Nat) => a + (i : Int) * step) := by
  induction fuel with
  | zero =>
    intro a b step _ hf
    have : (upCount a b step).toNat = 0 := by omega
    simp [loopUp, this]
  | succ f ih =>
    intro a b step hs hf
    unfold loopUp
    by_cases hab : a < b
    · rw [if_pos hab]
      have hc := upCount_step hs hab
      have hn := upCount_nonneg (a := a + step) (b := b) hs
      have e : (upCount a b step).toNat = (upCount (a + step) b step).toNat + 1 := by omega
      rw [e, List.range_succ_eq_map, ih (a + step) b step hs (by omega)]
      simp only [List.map_cons, List.map_map]
      congr 1
      · simp
      · apply List.map_congr_left
        intro i _
        simp only [Function.comp, Nat.succ_eq_add_one, Int.natCast_add, Int.natCast_one]
        rw [Int.add_mul]; omega
    · rw [if_neg hab]
      have : upCount a b step = 0 := by unfold upCount; rw [if_neg hab]
      simp [this]

theorem loopUp_mem (fuel : Nat) : ∀ (a b step : Int), 0 < step → ∀ x ∈ loopUp fuel a b step, a ≤ x ∧ x < b := by
  induction fuel with
  | zero => intro a b step _ x hx; simp [loopUp] at hx
  | succ f ih =>
    intro a b step hs x hx
    unfold loopUp at hx
    by_cases hab : a < b
    · rw [if_pos hab] at hx
      rcases List.mem_cons.mp hx with h | h
      · omega
      · have := ih (a + step) b step hs x h; omega
    · rw [if_neg hab] at hx; simp at hx

/-- a step at least as long as the list visits the start only -/
theorem loopUp_big (fuel : Nat) (a b step n : Int) (ha : 0 ≤ a) (hb : b ≤ n) (hn : n ≤ step) :
    loopUp (fuel + 1) a b step = if a < b then [a] else [] := by
  unfold loopUp
  by_cases hab : a < b
  · rw [if_pos hab, if_pos hab]
    congr 1
    cases fuel with
    | zero => rfl
    | succ f => unfold loopUp; rw [if_neg (by omega)]
  · rw [if_neg hab, if_neg hab]

theorem loopDown_eq_neg (fuel : Nat) : ∀ (a b step : Int),
    loopDown fuel a b step = (loopUp fuel (-a) (-b) (-step)).map (fun x => -x) := by
  induction fuel with
  | zero => intro a b step; simp [loopUp, loopDown]
  | succ f ih =>
    intro a b step
    unfold loopUp loopDown
    by_cases hab : a > b
    · rw [if_pos hab, if_pos (by omega), ih]
      simp only [List.map_cons, Int.neg_neg]
      have : -a + -step = -(a + step) := by omega
      rw [this]
    · rw [if_neg hab, if_neg (by omega)]; rfl

theorem normPos_eq (v : Int) (n : Nat) : normPos v n = pyAdjust n v false := by
  unfold normPos pyAdjust
  simp only [Bool.false_eq_true, if_false]
  split <;> split <;> split <;> omega

theorem normNeg_eq (v : Int) (n : Nat) : normNeg v n = pyAdjust n v true := by
  unfold normNeg pyAdjust
  simp only [if_true]
  split <;> split <;> split <;> omega

theorem normPos_range (v : Int) (n : Nat) : 0 ≤ normPos v n ∧ normPos v n ≤ n := by
  simp only [normPos]
  repeat' split
  all_goals omega

theorem normNeg_range (v : Int) (n : Nat) : -1 ≤ normNeg v n ∧ normNeg v n ≤ (n : Int) - 1 := by
  simp only [normNeg]
  repeat' split
  all_goals omega

theorem fuel_ok {a b step : Int} {n : Nat} (hs : 0 < step) (hf : b - a ≤ n) :
    (upCount a b step).toNat ≤ n + 1 := by
  by_cases hab : a < b
  · have := upCount_le hs hab; omega
  · have : upCount a b step = 0 := by unfold upCount; rw [if_neg hab]
    omega

/-- the specification's arithmetic form of an ascending slice is the Go loop -/
theorem up_form (a b step : Int) (n : Nat) (hs : 0 < step) (ha : 0 ≤ a) (hf : b - a ≤ n) :
    ((List.range (upCount a b step).toNat).map (fun (i : Nat) => (a + (i : Int) * step).toNat)).map
      (fun (i : Nat) => (i : Int)) = loopUp (n + 1) a b step := by
  rw [loopUp_eq (n + 1) a b step hs (fuel_ok hs hf), List.map_map]
  apply List.map_congr_left
  intro i _
  have : 0 ≤ (i : Int) * step := Int.mul_nonneg (by omega) (by omega)
  simp only [Function.comp]
  omega

theorem down_form (a b step : Int) (n : Nat) (hs : step < 0) (hb : -1 ≤ b) (hf : a - b ≤ n) :
    ((List.range (upCount (-a) (-b) (-step)).toNat).map (fun (i : Nat) => (a + (i : Int) * step).toNat)).map
      (fun (i : Nat) => (i : Int)) = loopDown (n + 1) a b step := by
  have hs' : 0 < -step := by omega
  have hfu : (upCount (-a) (-b) (-step)).toNat ≤ n + 1 := fuel_ok hs' (by omega)
  rw [loopDown_eq_neg]
  have hmem := loopUp_mem (n + 1) (-a) (-b) (-step) hs'
  rw [loopUp_eq (n + 1) (-a) (-b) (-step) hs' hfu] at hmem ⊢
  rw [List.map_map, List.map_map]
  apply List.map_congr_left
  intro i hi
  have h1 := hmem (-a + (i : Int) * -step) (List.mem_map.mpr ⟨i, hi, rfl⟩)
  simp only [Function.comp]
  rw [Int.mul_neg] at h1 ⊢
  omega

theorem subIndexes_idx (k : Int) (n : Nat) :
    subIndexes (.idx k) n = (pyIndex k n).map (fun (i : Nat) => (i : Int)) := by
  simp only [subIndexes, pyIndex]
  generalize (if k < 0 then k + (n : Int) else k) = i
  by_cases h : i < 0 ∨ i ≥ n
  · rw [if_pos h, if_pos (by simpa using h)]; rfl
  · rw [if_neg h, if_neg (by simpa using h)]
    simp only [List.map_cons, List.map_nil]
    congr 1; omega

theorem normPos_zero (n : Nat) : normPos 0 n = 0 := by
  simp only [normPos]; repeat' split
  all_goals omega
theorem normPos_len (n : Nat) : normPos n n = n := by
  simp only [normPos]; repeat' split
  all_goals omega
theorem normNeg_last (n : Nat) : normNeg ((n : Int) - 1) n = (n : Int) - 1 := by
  simp only [normNeg]; repeat' split
  all_goals omega
theorem normNeg_before (n : Nat) : normNeg (-(n : Int) - 1) n = -1 := by
  simp only [normNeg]; repeat' split
  all_goals omega

theorem clamp_loop (a b step : Int) (n : Nat) (hs : 0 < step) (ha : 0 ≤ a) (hb : b ≤ n) :
    (if (if step > ↑n then (n : Int) else step) > 0 then
      loopUp (n + 1) a b (if step > ↑n then ↑n else step) else []) = loopUp (n + 1) a b step := by
  by_cases h : step > n
  · simp only [h, if_true]
    rw [loopUp_big n a b step n ha hb (by omega)]
    by_cases hn : (n : Int) > 0
    · rw [if_pos hn, loopUp_big n a b n n ha hb (by omega)]
    · rw [if_neg hn, if_neg (by omega)]
  · simp only [h, if_false, hs, if_true]

def pyStart (s : Option Int) (n : Int) (neg : Bool) : Int :=
  match s with
  | some v => pyAdjust n v neg
  | none => if neg then n - 1 else 0

def pyStop (e : Option Int) (n : Int) (neg : Bool) : Int :=
  match e with
  | some v => pyAdjust n v neg
  | none => if neg then -1 else n

theorem upCount_neg (a b st : Int) :
    upCount (-a) (-b) st = if b < a then (a - b - 1) / st + 1 else 0 := by
  unfold upCount
  have : -b - -a - 1 = a - b - 1 := by omega
  rw [this]
  simp only [Int.neg_lt_neg_iff]

theorem pySlice_pos (s e t : Option Int) (n : Nat) (hs : 0 < t.getD 1) :
    pySlice s e t n = (List.range (upCount (pyStart s n false) (pyStop e n false) (t.getD 1)).toNat).map
      (fun (i : Nat) => (pyStart s n false + (i : Int) * t.getD 1).toNat) := by
  have hne : ¬ t.getD 1 = 0 := by omega
  have hnl : ¬ t.getD 1 < 0 := by omega
  cases s <;> cases e <;>
    simp only [pySlice, hne, if_false, hnl, decide_false, Bool.false_eq_true, pyStart, pyStop, upCount] <;> rfl

theorem pySlice_neg (s e t : Option Int) (n : Nat) (hs : t.getD 1 < 0) :
    pySlice s e t n = (List.range (upCount (-pyStart s n true) (-pyStop e n true) (-t.getD 1)).toNat).map
      (fun (i : Nat) => (pyStart s n true + (i : Int) * t.getD 1).toNat) := by
  have hne : ¬ t.getD 1 = 0 := by omega
  cases s <;> cases e <;>
    simp only [pySlice, hne, if_false, hs, decide_true, if_true, pyStart, pyStop, upCount_neg]

theorem posStart_eq (s : Option Int) (n : Nat) :
    normPos (if (Build.bound s).omitted = true then 0 else (Build.bound s).number) ↑n = pyStart s n false := by
  cases s with
  | none => simp [Build.bound, normPos_zero, pyStart]
  | some v => simp [Build.bound, normPos_eq, pyStart]

theorem posStop_eq (e : Option Int) (n : Nat) :
    normPos (if (Build.bound e).omitted = true then ↑n else (Build.bound e).number) ↑n = pyStop e n false := by
  cases e with
  | none => simp [Build.bound, normPos_len, pyStop]
  | some v => simp [Build.bound, normPos_eq, pyStop]

theorem negStart_eq (s : Option Int) (n : Nat) :
    normNeg (if (Build.bound s).omitted = true then ↑n - 1 else (Build.bound s).number) ↑n = pyStart s n true := by
  cases s with
  | none => simp [Build.bound, normNeg_last, pyStart]
  | some v => simp [Build.bound, normNeg_eq, pyStart]

theorem negStop_eq (e : Option Int) (n : Nat) :
    normNeg (if (Build.bound e).omitted = true then -↑n - 1 else (Build.bound e).number) ↑n = pyStop e n true := by
  cases e with
  | none => simp [Build.bound, normNeg_before, pyStop]
  | some v => simp [Build.bound, normNeg_eq, pyStop]

theorem subIndexes_slice_pos (s e t : Option Int) (n : Nat) (hs : 0 < t.getD 1) :
    subIndexes (Build.subI (.slice s e t)) n = (pySlice s e t n).map (fun (i : Nat) => (i : Int)) := by
  rw [pySlice_pos s e t n hs]
  have hge : t.getD 1 ≥ 0 := by omega
  simp only [Build.subI, hge, if_true, subIndexes]
  have ra := normPos_range (if (Build.bound s).omitted = true then 0 else (Build.bound s).number) n
  have rb := normPos_range (if (Build.bound e).omitted = true then ↑n else (Build.bound e).number) n
  rw [posStart_eq] at ra ⊢
  rw [posStop_eq] at rb ⊢
  rw [clamp_loop _ _ _ n hs ra.1 rb.2]
  exact (up_form _ _ _ n hs ra.1 (by omega)).symm

theorem subIndexes_slice_zero (s e t : Option Int) (n : Nat) (hs : t.getD 1 = 0) :
    subIndexes (Build.subI (.slice s e t)) n = (pySlice s e t n).map (fun (i : Nat) => (i : Int)) := by
  simp only [Build.subI, subIndexes, pySlice, hs]
  have : ¬ (if (0 : Int) > ↑n then (n : Int) else 0) > 0 := by split <;> omega
  simp [this]

theorem subIndexes_slice_neg (s e t : Option Int) (n : Nat) (hs : t.getD 1 < 0) :
    subIndexes (Build.subI (.slice s e t)) n = (pySlice s e t n).map (fun (i : Nat) => (i : Int)) := by
  rw [pySlice_neg s e t n hs]
  have hge : ¬ t.getD 1 ≥ 0 := by omega
  simp only [Build.subI, hge, if_false, subIndexes, hs, if_true]
  have ra := normNeg_range (if (Build.bound s).omitted = true then ↑n - 1 else (Build.bound s).number) n
  have rb := normNeg_range (if (Build.bound e).omitted = true then -↑n - 1 else (Build.bound e).number) n
  rw [negStart_eq] at ra ⊢
  rw [negStop_eq] at rb ⊢
  exact (down_form _ _ _ n hs rb.1 (by omega)).symm

/-- **subIndexes_eq_spec**: the subscript the parser builds selects the specification's indices -/
theorem subIndexes_eq_spec (sub : Sub) (n : Nat) :
    Impl.subIndexes (Build.subI sub) n = (Spec.subIndices sub n).map (fun (i : Nat) => (i : Int)) := by
  cases sub with
  | idx k => exact subIndexes_idx k n
  | wild => rfl
  | slice s e t =>
    show subIndexes (Build.subI (.slice s e t)) n = (pySlice s e t n).map (fun (i : Nat) => (i : Int))
    by_cases h1 : 0 < t.getD 1
    · exact subIndexes_slice_pos s e t n h1
    · by_cases h2 : t.getD 1 = 0
      · exact subIndexes_slice_zero s e t n h2
      · exact subIndexes_slice_neg s e t n (by omega)

/-- every index the built subscript yields is a valid position -/
theorem subIndexes_range (sub : Sub) (n : Nat) :
    ∀ x ∈ Impl.subIndexes (Build.subI sub) n, 0 ≤ x ∧ x < n := by
  intro x hx
  cases sub with
  | idx k =>
    simp only [Build.subI, subIndexes] at hx
    generalize (if k < 0 then k + (n : Int) else k) = i at hx
    by_cases h : (i < 0 || i ≥ (n : Int)) = true
    · rw [if_pos h] at hx; simp at hx
    · rw [if_neg h] at hx
      simp only [List.mem_singleton] at hx
      simp only [Bool.or_eq_true, decide_eq_true_eq, not_or] at h
      omega
  | wild =>
    simp only [Build.subI, subIndexes, List.mem_map, List.mem_range] at hx
    obtain ⟨i, hi, rfl⟩ := hx
    omega
  | slice s e t =>
    by_cases hge : t.getD 1 ≥ 0
    · simp only [Build.subI, hge, if_true, subIndexes] at hx
      generalize (if t.getD 1 > (n : Int) then (n : Int) else t.getD 1) = st at hx
      by_cases hpos : st > 0
      · rw [if_pos hpos] at hx
        have ra := normPos_range (if (Build.bound s).omitted = true then 0 else (Build.bound s).number) n
        have rb := normPos_range (if (Build.bound e).omitted = true then ↑n else (Build.bound e).number) n
        have := loopUp_mem _ _ _ _ hpos x hx
        omega
      · rw [if_neg hpos] at hx; simp at hx
    · simp only [Build.subI, hge, if_false, subIndexes] at hx
      by_cases hneg : t.getD 1 < 0
      · rw [if_pos hneg] at hx
        have ra := normNeg_range (if (Build.bound s).omitted = true then ↑n - 1 else (Build.bound s).number) n
        have rb := normNeg_range (if (Build.bound e).omitted = true then -↑n - 1 else (Build.bound e).number) n
        rw [loopDown_eq_neg] at hx
        obtain ⟨y, hy, rfl⟩ := List.mem_map.mp hx
        have := loopUp_mem _ _ _ _ (by omega) y hy
        omega
      · omega

theorem subIndices_lt (sub : Sub) (n : Nat) : ∀ i ∈ Spec.subIndices sub n, i < n := by
  intro i hi
  have := subIndexes_range sub n (i : Int)
    (by rw [subIndexes_eq_spec]; exact List.mem_map.mpr ⟨i, hi, rfl⟩)
  omega

end SubIdx
end JPV
