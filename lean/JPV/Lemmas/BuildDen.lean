/-
BuildDen — `Build` followed by the tree denotation is the specification:
`build_den` (chains vs `Spec.evalPath`), `build_semQ` (filter queries vs `Spec.verdicts`),
`build_operand` (operands vs `Spec.operandVals`), by one mutual structural recursion over
the abstract syntax mirroring `Build.stepPre / stepsPre / buildPath / buildOperand / buildQ`.
-/
import JPV.Lemmas.StepSem
namespace JPV
namespace BD
open TSem Impl Build

theorem bind_ok {ε α β : Type} {x : Except ε α} {f : α → Except ε β} {b : β}
    (h : (x >>= f) = .ok b) : ∃ a, x = .ok a ∧ f a = .ok b := by
  cases x with
  | error e => cases h
  | ok a => exact ⟨a, rfl, h⟩

theorem stepPre_union (env : Env) (cfg : Cfg) (t : String) (ss : List Sub) :
    stepPre env cfg (.union t ss) =
      .ok [.node t (match ss with | [s] => subVg s | _ => true) (fun i => .union i (ss.map subI))] := by
  unfold stepPre
  rfl

theorem stepPre_desc (env : Env) (cfg : Cfg) (s : Step) :
    stepPre env cfg (.desc s) =
      (stepPre env cfg s >>= fun inner =>
        .ok (.node ".." true (fun i => .desc i (descMr s) (descLr s)) :: inner)) := by
  conv => lhs; unfold stepPre
  cases s <;> rfl

/-! ### operands -/

theorem cellOf_le_one (l : List Val) (h : l.length ≤ 1) : cellOf l = ocell l.head? := by
  match l, h with
  | [], _ => rfl
  | [_], _ => rfl

theorem headCell_eq (l : List Val) : headCell l = ocell l.head? := by
  cases l <;> rfl

theorem cellNonEmpty_cellOf (l : List Val) : cellNonEmpty (cellOf l) = !l.isEmpty := by
  match l with
  | [] => rfl
  | [_] => rfl
  | _ :: _ :: _ => rfl

theorem cellNonEmpty_headCell (l : List Val) : cellNonEmpty (headCell l) = !l.isEmpty := by
  cases l <;> rfl

/-- result of `buildP`: the operand tree and what it denotes -/
structure PSem (env : Env) (root : Val) (single : Bool) (p : Path) (tp : P) : Prop where
  shape : (∃ ch, tp = .proot ch) ∨ (∃ ch, tp = .pcur ch)
  isSome : ∀ m, m.wf = true →
    cellNonEmpty (pcell env tp root m) = (Spec.firstOf (Spec.evalPath env p root m)).isSome
  value : single = true → ∀ m, m.wf = true →
    pcell env tp root m = ocell (Spec.firstOf (Spec.evalPath env p root m))

theorem buildP_glue (env : Env) (root : Val) (single : Bool) (p : Path) (ch : List N) (tp : P)
    (hp : PathSem env root p ch)
    (h : (if (single && chainVg ch) = true then Except.error ParseErr.valueGroupOperand else
            match Path.head p with
            | .root => Except.ok (P.proot ch)
            | .cur => .ok (.pcur ch)) = Except.ok tp) :
    PSem env root single p tp := by
  by_cases hc : (single && chainVg ch) = true
  · rw [if_pos hc] at h; cases h
  · rw [if_neg hc] at h
    cases hh : Path.head p with
    | root =>
      rw [hh] at h
      cases h
      refine ⟨.inl ⟨ch, rfl⟩, ?_, ?_⟩
      · intro m hm
        have := (hp m hm).1
        rw [hh] at this
        simp only [pcell, startOf] at this ⊢
        rw [this, cellNonEmpty_cellOf, firstOf_isSome]
      · intro hs m hm
        have h1 := (hp m hm).1
        have h2 := (hp m hm).2 (by simpa [hs] using hc)
        rw [hh] at h1
        simp only [pcell, startOf] at h1 ⊢
        rw [h1, cellOf_le_one _ h2, firstOf_head]
    | cur =>
      rw [hh] at h
      cases h
      refine ⟨.inr ⟨ch, rfl⟩, ?_, ?_⟩
      · intro m hm
        have := (hp m hm).1
        rw [hh] at this
        simp only [pcell, startOf] at this ⊢
        rw [this, cellNonEmpty_headCell, firstOf_isSome]
      · intro _ m hm
        have h1 := (hp m hm).1
        rw [hh] at h1
        simp only [pcell, startOf] at h1 ⊢
        rw [h1, headCell_eq, firstOf_head]

theorem buildP_eq (env : Env) (cfg : Cfg) (single : Bool) (p : Path) :
    buildP env cfg single p =
      (buildPath env cfg false p >>= fun ch =>
        if (single && chainVg ch) = true then Except.error ParseErr.valueGroupOperand else
          match Path.head p with
          | .root => Except.ok (P.proot ch)
          | .cur => .ok (.pcur ch)) := by
  obtain ⟨h, steps, fns⟩ := p
  rw [buildP]
  rfl

theorem buildPath_eq (env : Env) (cfg : Cfg) (top : Bool) (h : Head) (steps : List Step) (fns : List Fn) :
    buildPath env cfg top (.mk h steps fns) =
      (stepsPre env cfg steps >>= fun sp =>
        assemble env (mkInfos cfg top (headPreOf h :: sp ++ fns.map fnPre)) [] >>= fun ch =>
          .ok (finish ch)) := by
  cases h <;> (rw [buildPath]; rfl)

/-- the `exist` case of `buildQ` -/
theorem exist_glue (env : Env) (root : Val) (neg : Bool) (p : Path) (e : P)
    (he : PSem env root false p e) (ms : List Val) (hms : ∀ m ∈ ms, m.wf = true) :
    semQ env (if neg = true then (Q.exist e).not else Q.exist e) root ms =
      Spec.verdicts env (.exist neg p) root ms := by
  have hex : semQ env (.exist e) root ms =
      ms.map (fun m => (Spec.firstOf (Spec.evalPath env p root m)).isSome) := by
    simp only [semQ, pden_eq, List.map_map]
    apply List.map_congr_left
    intro m hm
    exact he.isSome m (hms m hm)
  cases neg with
  | false =>
    simp only [Bool.false_eq_true, if_false, hex, Spec.verdicts]
    apply List.map_congr_left
    intro m _
    cases (Spec.firstOf (Spec.evalPath env p root m)).isSome <;> rfl
  | true =>
    rw [if_pos rfl]
    simp only [semQ] at hex ⊢
    simp only [hex, Spec.verdicts, List.map_map]
    apply List.map_congr_left
    intro m _
    simp only [Function.comp]
    cases (Spec.firstOf (Spec.evalPath env p root m)).isSome <;> rfl

/-! ### the mutual recursion -/

mutual
theorem step_ok (env : Env) (cfg : Cfg) (root : Val) (hr : root.wf = true) :
    (s : Step) → (ps : List Pre) → stepPre env cfg s = .ok ps → StepSem env root s ps
  | .child t k, ps, h => by
    rw [stepPre] at h; cases h; exact step_child env root t k
  | .wild t, ps, h => by
    rw [stepPre] at h; cases h; exact step_wild env root t
  | .multi t ns, ps, h => by
    rw [stepPre] at h; cases h; exact step_multi env root t ns
  | .union t ss, ps, h => by
    rw [stepPre_union] at h; cases h; exact step_union env root t ss
  | .filter t q, ps, h => by
    rw [stepPre] at h
    obtain ⟨tq, hq, h2⟩ := bind_ok h
    cases h2
    exact step_filter env root t q tq (fun ms hms => query_ok env cfg root hr q tq hq ms hms)
  | .desc s, ps, h => by
    rw [stepPre_desc] at h
    obtain ⟨inner, hi, h2⟩ := bind_ok h
    cases h2
    exact step_desc env root s inner (step_ok env cfg root hr s inner hi)

theorem steps_ok (env : Env) (cfg : Cfg) (root : Val) (hr : root.wf = true) :
    (ss : List Step) → (ps : List Pre) → stepsPre env cfg ss = .ok ps → StepsSem env root ss ps
  | [], ps, h => by
    rw [stepsPre] at h; cases h; exact steps_nil env root
  | s :: ss, ps, h => by
    rw [stepsPre] at h
    obtain ⟨a, ha, h2⟩ := bind_ok h
    obtain ⟨b, hb, h3⟩ := bind_ok h2
    cases h3
    exact steps_cons env root s ss a b (step_ok env cfg root hr s a ha) (steps_ok env cfg root hr ss b hb)

theorem path_ok (env : Env) (cfg : Cfg) (root : Val) (hr : root.wf = true) :
    (p : Path) → (top : Bool) → (ch : List N) → buildPath env cfg top p = .ok ch → PathSem env root p ch
  | .mk h steps fns, top, ch, hb => by
    rw [buildPath_eq] at hb
    obtain ⟨sp, hsp, h2⟩ := bind_ok hb
    obtain ⟨c, hc, h3⟩ := bind_ok h2
    cases h3
    exact path_glue env root hr cfg top h steps fns sp c (steps_ok env cfg root hr steps sp hsp) hc

theorem operand_ok (env : Env) (cfg : Cfg) (root : Val) (hr : root.wf = true) :
    (o : Operand) → (tp : P) → buildOperand env cfg o = .ok tp →
    ∀ ms : List Val, (∀ m ∈ ms, m.wf = true) → OpSem env root ms o tp
  | .lit l, tp, h, ms, _ => by
    rw [buildOperand] at h
    cases h
    exact ⟨rfl, fun m _ => rfl⟩
  | .path p, tp, h, ms, hms => by
    rw [buildOperand, buildP_eq] at h
    obtain ⟨ch, hch, h2⟩ := bind_ok h
    have hp := buildP_glue env root true p ch tp (path_ok env cfg root hr p false ch hch) h2
    exact ⟨hp.shape, fun m hm => hp.value rfl m (hms m hm)⟩

theorem query_ok (env : Env) (cfg : Cfg) (root : Val) (hr : root.wf = true) :
    (q : Query) → (tq : Q) → buildQ env cfg q = .ok tq →
    ∀ ms : List Val, (∀ m ∈ ms, m.wf = true) → semQ env tq root ms = Spec.verdicts env q root ms
  | .or a b, tq, h, ms, hms => by
    rw [buildQ] at h
    obtain ⟨ta, ha, h2⟩ := bind_ok h
    obtain ⟨tb, hb, h3⟩ := bind_ok h2
    cases h3
    simp only [semQ, Spec.verdicts, query_ok env cfg root hr a ta ha ms hms,
      query_ok env cfg root hr b tb hb ms hms]
  | .and a b, tq, h, ms, hms => by
    rw [buildQ] at h
    obtain ⟨ta, ha, h2⟩ := bind_ok h
    obtain ⟨tb, hb, h3⟩ := bind_ok h2
    cases h3
    simp only [semQ, Spec.verdicts, query_ok env cfg root hr a ta ha ms hms,
      query_ok env cfg root hr b tb hb ms hms]
  | .exist neg p, tq, h, ms, hms => by
    rw [buildQ, buildP_eq] at h
    obtain ⟨e, he, h2⟩ := bind_ok h
    cases h2
    obtain ⟨ch, hch, h3⟩ := bind_ok he
    have hp := buildP_glue env root false p ch e (path_ok env cfg root hr p false ch hch) h3
    exact exist_glue env root neg p e hp ms hms
  | .cmp op l r, tq, h, ms, hms => by
    rw [buildQ] at h
    obtain ⟨tl, hl, h2⟩ := bind_ok h
    obtain ⟨tr, hr', h3⟩ := bind_ok h2
    exact cmp_glue env root ms op l r tl tr tq (operand_ok env cfg root hr l tl hl ms hms)
      (operand_ok env cfg root hr r tr hr' ms hms) h3
  | .regex p re, tq, h, ms, hms => by
    rw [buildQ, buildP_eq] at h
    obtain ⟨tl, hl, h2⟩ := bind_ok h
    cases h2
    obtain ⟨ch, hch, h3⟩ := bind_ok hl
    have hp := buildP_glue env root true p ch tl (path_ok env cfg root hr p false ch hch) h3
    exact regex_glue env root ms p re tl (fun m hm => hp.value rfl m (hms m hm))
end

end BD
end JPV
