/-
ParsePrintBlank — C18, first slice: blanks in front of and behind the whole path are insignificant.
`Parse` of `blanks k ++ print p ++ blanks m` gives the outcome of the plain spelling — the same tree
(not only up to recorded texts: the texts do not contain the outer blanks), the same error, the
syntax-error position shifted by `k`.
-/
import JPV.Lemmas.ParsePrintSimRec
import JPV.Lemmas.ParsePrintRecBlank
namespace JPV.PP
open JPV.Peg JPV.Print JPV.Lex JPV.Build

variable (env : Env) (ext : Ext) (cfg : Cfg)

/-- the printed path with `k` blanks in front and `m` behind -/
def printBlanks (k m : Nat) (p : Path) : List Char := blanks k ++ (print p ++ blanks m)

/-- what `Parse` is expected to answer on `printBlanks k m p` -/
def expectedBlanks (k m : Nat) (p : Path) : ParseOutcome :=
  outcomeOfBuild (printBlanks k m p).toArray (posPath env cfg k p) (Build.build env cfg (texts p))

theorem parse_print_blanks_exact (k m : Nat) (ss : List Step) (fns : List Fn)
    (hwf : pathWf (.mk .root ss fns) = true) (hext : ExtOK ext (.mk .root ss fns))
    (henv : EnvOK env (.mk .root ss fns)) :
    parseModel env ext cfg (String.ofList (printBlanks k m (.mk .root ss fns))) =
      expectedBlanks env cfg k m (.mk .root ss fns) := by
  have hwf' := hwf
  rw [pathWf, Bool.and_eq_true] at hwf'
  have hext' : stepsExt ext ss := by
    have := hext; unfold ExtOK at this; rw [pathExt] at this; exact this
  have henv' : stepsEnv env ss ∧ ∀ f ∈ fns, fnKindOK env f := by
    have := henv; unfold EnvOK at this; rw [pathEnv] at this; exact this
  have hrec := recognise_print_blanks k m ss fns hwf
  have hpm : parseModel env ext cfg (String.ofList (printBlanks k m (.mk .root ss fns))) =
      parseInput env ext cfg (printBlanks k m (.mk .root ss fns)).toArray := by
    simp [parseModel, String.toList_ofList]
  rw [expectedBlanks, hpm, printBlanks, parseInput_of_recognise env ext cfg hrec]
  have hs := sim_steps ⟨env, ext, cfg.accessor, (blanks k ++ (print (.mk .root ss fns) ++ blanks m)).toArray⟩ cfg ss
    hwf'.1 hext' henv'.1
  have hsfx : Sfx (blanks k ++ (print (.mk .root ss fns) ++ blanks m)).toArray k
      (path (.mk .root ss fns) ++ blanks m) := by
    have := (Sfx.zero (blanks k ++ (print (.mk .root ss fns) ++ blanks m))).append
    simpa [blanks_length, print] using this
  obtain ⟨hok, herr⟩ := path_core ⟨env, ext, cfg.accessor, (blanks k ++ (print (.mk .root ss fns) ++ blanks m)).toArray⟩
    cfg true .root ss fns hs henv'.2 hsfx [] none 0 0
  rw [exec_eq, Build.build, texts]
  cases hb : buildPath env cfg true (pathT (.mk .root ss fns)) with
  | ok ch =>
    obtain ⟨sp, hsp, hall, tb', te', ex⟩ := hok ch hb
    have hb' := buildPath_of_sp env cfg true cfg.accessor .root ss fns sp hsp hall
    rw [hb] at hb'
    cases hb'
    rw [ex, exec_finish _ _ (markVg_ne_nil (linkedOf_ne_nil _ _ _ _))]
    have hnice := stepsPre_nice env cfg _ sp hsp
    have hTA : TA cfg.accessor (linkedOf cfg.accessor .root sp fns) := by
      unfold linkedOf
      apply TA.linkPres
      · intro n hn; simp at hn; subst hn; rfl
      · intro q hq
        rcases List.mem_append.mp hq with hq | hq
        · exact (hnice q hq).1
        · obtain ⟨f, _, rfl⟩ := List.mem_map.mp hq
          cases f <;> trivial
    have := (hTA.markVg).delRoot
    show ParseOutcome.ok (connChain "" (delRoot (Build.markVg (linkedOf cfg.accessor .root sp fns)))) =
      ParseOutcome.ok (ccChain true "" (setAccChain (true && cfg.accessor)
        (delRoot (Build.markVg (linkedOf cfg.accessor .root sp fns)))))
    simp only [ccChain, Bool.true_and, if_true, this.setAcc]
  | error e =>
    rw [herr e hb]
    rfl

/-- **C18 (outer blanks)**: the outcome agrees with `Build.build` on the recorded texts of the plain
    spelling -/
theorem parse_print_blanks (k m : Nat) (ss : List Step) (fns : List Fn)
    (hwf : pathWf (.mk .root ss fns) = true) (hext : ExtOK ext (.mk .root ss fns))
    (henv : EnvOK env (.mk .root ss fns)) :
    Agree (Build.build env cfg (texts (.mk .root ss fns)))
      (parseModel env ext cfg (String.ofList (printBlanks k m (.mk .root ss fns)))) := by
  rw [parse_print_blanks_exact env ext cfg k m ss fns hwf hext henv, expectedBlanks]
  cases Build.build env cfg (texts (.mk .root ss fns)) with
  | ok ch => rfl
  | error e => cases e <;> rfl

/-- … and when the plain spelling parses to a tree, so does every spelling with outer blanks, to the
    SAME tree (texts included) -/
theorem parse_print_blanks_same (k m : Nat) (ss : List Step) (fns : List Fn)
    (hwf : pathWf (.mk .root ss fns) = true) (hext : ExtOK ext (.mk .root ss fns))
    (henv : EnvOK env (.mk .root ss fns)) (ch : List N)
    (hplain : parseModel env ext cfg (printS (.mk .root ss fns)) = .ok ch) :
    parseModel env ext cfg (String.ofList (printBlanks k m (.mk .root ss fns))) = .ok ch := by
  rw [parse_print_exact env ext cfg ss fns hwf hext henv, expected] at hplain
  rw [parse_print_blanks_exact env ext cfg k m ss fns hwf hext henv, expectedBlanks]
  cases hb : Build.build env cfg (texts (.mk .root ss fns)) with
  | ok ch' =>
    rw [hb] at hplain
    exact hplain
  | error e =>
    rw [hb] at hplain
    cases e <;> cases hplain

end JPV.PP
