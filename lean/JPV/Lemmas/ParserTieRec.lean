/-
ParserTieRec — the two recursive helpers of `Gen/ParserHelpersGo.lean` on a heap that holds a layout:
`deleteRootIdentifier` (recursion into the parameter of an aggregate function) and `setConnectedText`
(recursion along `next` and into aggregate parameters).
-/
import JPV.Lemmas.ParserTie
namespace JPV
namespace ParserLayout
open JPV JPV.ParserNode
open JPV.Gen.ParserHelpersGo

/-! ### sizes (fuel) -/

mutual
/-- number of nodes of a chain, the parameter chains of aggregates included -/
def sizeCh : List LN → Nat
  | [] => 0
  | n :: rest => sizeN n + sizeCh rest
def sizeN : LN → Nat
  | .mk _ _ s => 1 + sizeS s
def sizeS : LShape → Nat
  | .afn _ p => sizeCh p
  | _ => 0
end

theorem length_le_sizeCh (A : List LN) : A.length ≤ sizeCh A := by
  induction A with
  | nil => exact Nat.le_refl _
  | cons n rest ih =>
    obtain ⟨id, i, s⟩ := n
    simp only [List.length_cons, sizeCh, sizeN]
    omega

/-! ### `deleteRootIdentifier` -/

mutual
/-- `deleteRootIdentifier` on a layout -/
def delRootL : List LN → List LN
  | [] => []
  | n :: rest => delRootNodeL n rest
def delRootNodeL : LN → List LN → List LN
  | .mk _ i .root, m :: rest => (if i.vg then m.mapInfo setVgI else m) :: rest
  | .mk _ i .cur, m :: rest => (if i.vg then m.mapInfo setVgI else m) :: rest
  | .mk id i (.afn name p), rest => .mk id i (.afn name (delRootL p)) :: rest
  | n, rest => n :: rest
end

theorem eraseCh_delRootL : ∀ (A : List LN), eraseCh (delRootL A) = Peg.delRoot (eraseCh A)
  | [] => rfl
  | .mk id i s :: rest => by
    cases s with
    | root =>
      cases rest with
      | nil => rfl
      | cons m rest' =>
        simp only [delRootL, delRootNodeL, eraseCh, eraseN, eraseS, Peg.delRoot, Peg.delRootNode]
        split
        · rw [eraseN_setVg]; rfl
        · rfl
    | cur =>
      cases rest with
      | nil => rfl
      | cons m rest' =>
        simp only [delRootL, delRootNodeL, eraseCh, eraseN, eraseS, Peg.delRoot, Peg.delRootNode]
        split
        · rw [eraseN_setVg]; rfl
        · rfl
    | afn name p =>
      simp only [delRootL, delRootNodeL, eraseCh, eraseN, eraseS, Peg.delRoot, Peg.delRootNode]
      rw [eraseCh_delRootL p]
    | child k => rfl
    | wild => rfl
    | multi L t => rfl
    | desc a b => rfl
    | union ss => rfl
    | filter q => rfl
    | ffn name => rfl

theorem ids_cellsN_mapInfo (F : Info → Info) (n : LN) (nx : NRef) :
    ids (cellsN (n.mapInfo F) nx) = ids (cellsN n nx) := by
  obtain ⟨id, i, s⟩ := n
  rfl

theorem deleteRootIdentifier_other (fuel : Nat) (k : Kind) (id : Nat) (p : PS)
    (h1 : k ≠ .root) (h2 : k ≠ .cur) (h3 : k ≠ .afn) :
    deleteRootIdentifier (fuel + 1) (some (k, id)) p = .ok (some (k, id), p) := by
  cases k <;> first | rfl | exact absurd rfl h1 | exact absurd rfl h2 | exact absurd rfl h3

theorem deleteRootIdentifier_nil (fuel : Nat) (p : PS) :
    deleteRootIdentifier (fuel + 1) none p = .ok (none, p) := rfl

/-- the `case *syntaxRootIdentifier, *syntaxCurrentRootIdentifier` branch -/
theorem deleteRootIdentifier_rootcase (fuel : Nat) (k : Kind) (hk : k = .root ∨ k = .cur) (id : Nat) (p : PS) :
    deleteRootIdentifier (fuel + 1) (some (k, id)) p = (do
      let t_1 ← nodeGetNext (some (k, id)) p.heap
      let (targetNode, p) ← (if t_1.isSome then do
          let t_2 ← nodeIsValueGroup (some (k, id)) p.heap
          let p ← (if t_2 then do
              let t_3 ← nodeGetNext (some (k, id)) p.heap
              let p ← p.onHeap (nodeSetValueGroup t_3)
              .ok p
            else do
              .ok p
            : M _)
          let p ← p.onHeap (nodeSetNext fuel (some (k, id)) none)
          let t_4 ← nodeGetNext (some (k, id)) p.heap
          .ok (t_4, p)
        else do
          .ok (some (k, id), p)
        : M _)
      .ok (targetNode, p)) := by
  rcases hk with rfl | rfl <;> rfl

theorem root_step (fuel : Nat) (k : Kind) (hk : k = .root ∨ k = .cur) (id : Nat) (i : Info) (s : LShape)
    (hs : s.kind = k) (m : LN) (rest : List LN) (p : PS)
    (hfuel : (LN.mk id i s :: m :: rest).length < fuel)
    (hsat : Sat p.heap (cellsCh (LN.mk id i s :: m :: rest) none))
    (hnd : (ids (cellsCh (LN.mk id i s :: m :: rest) none)).Nodup) :
    ∃ h', deleteRootIdentifier (fuel + 1) (some (k, id)) p = .ok (m.ref, { p with heap := h' }) ∧
      Sat h' (cellsCh ((if i.vg then m.mapInfo setVgI else m) :: rest) none) ∧
      Frame (ids (cellsCh (LN.mk id i s :: m :: rest) none)) p.heap h' := by
  subst hs
  have hsplit : ∀ (a b : LN) (r : List LN) tl, cellsCh (a :: b :: r) tl = cellsN a b.ref ++ cellsCh (b :: r) tl :=
    fun _ _ _ _ => rfl
  have hhead : p.heap[id]? = some (nodeCell id i s m.ref) := by rw [hsplit] at hsat; exact hsat.left.head
  obtain ⟨mid, mi, ms⟩ := m
  have hmhead : p.heap[mid]? = some (nodeCell mid mi ms (headRefD rest none)) := by
    rw [hsplit] at hsat; simp only [cellsCh] at hsat; exact hsat.right.left.head
  -- the value-group step
  let m' : LN := if i.vg then (LN.mk mid mi ms).mapInfo setVgI else LN.mk mid mi ms
  have hm'ref : m'.ref = (LN.mk mid mi ms).ref := by
    show (if i.vg then _ else _ : LN).ref = _
    split <;> rfl
  let h1 : Heap := if i.vg then p.heap.set mid (nodeCell mid (setVgI mi) ms (headRefD rest none)) else p.heap
  have hf1 : Frame [mid] p.heap h1 := by
    show Frame _ _ (if i.vg then _ else _)
    split
    · exact Frame.set _ _ _
    · exact Frame.refl _ _
  have hnd' := hnd
  rw [hsplit, ids_append, List.nodup_append] at hnd'
  obtain ⟨hndA, hndB, hdisAB⟩ := hnd'
  have hmid_notA : mid ∉ ids (cellsN (LN.mk id i s) (LN.mk mid mi ms).ref) := by
    intro hm
    refine hdisAB mid hm mid ?_ rfl
    simp only [cellsCh, cellsN, List.cons_append, ids_cons]
    exact List.mem_cons_self ..
  have hs1 : Sat h1 (cellsCh (LN.mk id i s :: m' :: rest) none) := by
    rw [hsplit, hm'ref]
    refine Sat.append (Sat.frame (by rw [hsplit] at hsat; exact hsat.left) hf1 ?_) ?_
    · intro x hx hm
      have hx' := mem_ids_of_mem hx
      rw [List.mem_singleton.mp hm] at hx'
      exact hmid_notA hx'
    · show Sat (if i.vg then _ else _) (cellsCh ((if i.vg then _ else _) :: rest) none)
      have hB : Sat p.heap (cellsCh (LN.mk mid mi ms :: rest) none) := by rw [hsplit] at hsat; exact hsat.right
      split
      · simp only [LN.mapInfo, cellsCh, cellsN] at hB ⊢ hndB
        refine Sat.cons (get_set_self hmhead _) ?_
        refine Sat.frame (S := [mid]) ?_ (Frame.set _ _ _) ?_
        · exact hB.tail
        · intro x hx hm
          have hx' := mem_ids_of_mem hx
          rw [List.mem_singleton.mp hm] at hx'
          simp only [List.cons_append, ids_cons, List.nodup_cons] at hndB
          exact hndB.1 hx'
      · exact hB
  have hids1 : ids (cellsCh (LN.mk id i s :: m' :: rest) none) = ids (cellsCh (LN.mk id i s :: LN.mk mid mi ms :: rest) none) := by
    show ids (cellsCh (_ :: (if i.vg then _ else _) :: rest) none) = _
    split
    · simp only [ids_append, cellsCh, ids_cellsN_mapInfo]
      rfl
    · rfl
  -- setNext(nil)
  obtain ⟨h2, he2, hs2, hf2⟩ := nodeSetNext_chain (LN.mk id i s :: m' :: rest) fuel h1 none (by intro e; cases e)
    (by simpa using hfuel) hs1 (by rw [hids1]; exact hnd)
  have hhead2 : h2[id]? = some (nodeCell id i s m'.ref) := by rw [hsplit] at hs2; exact hs2.left.head
  refine ⟨h2, ?_, ?_, ?_⟩
  · rw [deleteRootIdentifier_rootcase _ _ hk]
    simp only [nodeGetNext_some hhead, nodeIsValueGroup_some hhead, bind_ok, nodeCell_next]
    have hstep : (if (nodeCell id i s (LN.mk mid mi ms).ref).valueGroup = true then
          (p.onHeap (nodeSetValueGroup (LN.mk mid mi ms).ref) >>= fun p => (Except.ok p : M PS))
        else Except.ok p) = .ok { p with heap := h1 } := by
      show (if i.vg = true then _ else _) = Except.ok { p with heap := if i.vg then _ else _ }
      split
      · rw [show (LN.mk mid mi ms).ref = some (ms.kind, mid) from rfl,
          onHeap_ok (nodeSetValueGroup_some hmhead), bind_ok]
        rfl
      · rfl
    have he2' : nodeSetNext fuel (some (s.kind, id)) none h1 = .ok h2 := he2
    rw [if_pos (show Option.isSome (LN.mk mid mi ms).ref = true from rfl), hstep, bind_ok]
    rw [onHeap_ok (p := { p with heap := h1 }) he2', bind_ok]
    show (nodeGetNext (some (s.kind, id)) h2 >>= _) >>= _ = _
    rw [nodeGetNext_some hhead2, bind_ok, bind_ok, nodeCell_next, hm'ref]
  · rw [hsplit] at hs2
    exact hs2.right
  · rw [hids1] at hf2
    exact (hf1.trans hf2).mono (by
      intro j hj
      rcases List.mem_append.mp hj with hj | hj
      · rw [List.mem_singleton.mp hj, hsplit, ids_append]
        refine List.mem_append_right _ ?_
        simp only [cellsCh, cellsN, List.cons_append, ids_cons]
        exact List.mem_cons_self ..
      · exact hj)


theorem delRootL_rootkind_nil (id : Nat) (i : Info) (s : LShape) (hk : s.kind = .root ∨ s.kind = .cur) :
    delRootL [LN.mk id i s] = [LN.mk id i s] := by
  cases s <;> first | rfl | (rcases hk with hk | hk <;> cases hk)

theorem delRootL_rootkind_cons (id : Nat) (i : Info) (s : LShape) (hk : s.kind = .root ∨ s.kind = .cur)
    (m : LN) (rest : List LN) :
    delRootL (LN.mk id i s :: m :: rest) = (if i.vg then m.mapInfo setVgI else m) :: rest := by
  cases s <;> first | rfl | (rcases hk with hk | hk <;> cases hk)

theorem deleteRootIdentifier_afncase (fuel : Nat) (id : Nat) (p : PS) :
    deleteRootIdentifier (fuel + 1) (some (.afn, id)) p = (do
      let p ← (do
        let t_5 ← rd p.heap (some id) (·.param)
        let (t_6, p) ← deleteRootIdentifier fuel t_5 p
        let p ← p.onHeap (fun h => wr h (some id) (fun c => { c with param := t_6 }))
        .ok p : M _)
      .ok (some (.afn, id), p)) := rfl

/-- `deleteRootIdentifier(head)` -/
theorem deleteRootIdentifier_chain : ∀ (fuel : Nat) (A : List LN) (p : PS), sizeCh A + 2 ≤ fuel →
    Sat p.heap (cellsCh A none) → (ids (cellsCh A none)).Nodup →
    ∃ h', deleteRootIdentifier fuel (headRef A) p = .ok (headRef (delRootL A), { p with heap := h' }) ∧
      Sat h' (cellsCh (delRootL A) none) ∧ Frame (ids (cellsCh A none)) p.heap h' ∧
      (ids (cellsCh (delRootL A) none)).Sublist (ids (cellsCh A none)) := by
  intro fuel
  induction fuel with
  | zero => intro A p h; omega
  | succ fuel ih =>
    intro A p hfuel hsat hnd
    cases A with
    | nil => exact ⟨p.heap, rfl, Sat.nil _, Frame.refl _ _, List.Sublist.refl _⟩
    | cons n rest =>
      obtain ⟨id, i, s⟩ := n
      have hlen := length_le_sizeCh (LN.mk id i s :: rest)
      have hrootcase : ∀ k, (k = .root ∨ k = .cur) → s.kind = k →
          ∃ h', deleteRootIdentifier (fuel + 1) (headRef (LN.mk id i s :: rest)) p =
              .ok (headRef (delRootL (LN.mk id i s :: rest)), { p with heap := h' }) ∧
            Sat h' (cellsCh (delRootL (LN.mk id i s :: rest)) none) ∧
            Frame (ids (cellsCh (LN.mk id i s :: rest) none)) p.heap h' ∧
            (ids (cellsCh (delRootL (LN.mk id i s :: rest)) none)).Sublist (ids (cellsCh (LN.mk id i s :: rest) none)) := by
        intro k hk hs
        subst hs
        cases rest with
        | nil =>
          rw [delRootL_rootkind_nil id i s hk]
          refine ⟨p.heap, ?_, hsat, Frame.refl _ _, List.Sublist.refl _⟩
          have hhead : p.heap[id]? = some (nodeCell id i s none) := by
            simp only [cellsCh, headRefD, List.append_nil] at hsat; exact hsat.head
          show deleteRootIdentifier (fuel + 1) (some (s.kind, id)) p = _
          rw [deleteRootIdentifier_rootcase _ _ hk, nodeGetNext_some hhead, bind_ok]
          rfl
        | cons m rest' =>
          rw [delRootL_rootkind_cons id i s hk]
          obtain ⟨h', he, hs', hf'⟩ := root_step fuel s.kind hk id i s rfl m rest' p (by omega) hsat hnd
          refine ⟨h', ?_, hs', hf', ?_⟩
          · show deleteRootIdentifier (fuel + 1) (some (s.kind, id)) p = _
            rw [he]
            show _ = Except.ok ((if i.vg then m.mapInfo setVgI else m).ref, _)
            split
            · rw [LN.ref_mapInfo]
            · rfl
          · have hsplit : cellsCh (LN.mk id i s :: m :: rest') none =
                cellsN (LN.mk id i s) m.ref ++ cellsCh (m :: rest') none := rfl
            rw [hsplit, ids_append]
            refine List.Sublist.trans ?_ (List.sublist_append_right _ _)
            split
            · simp only [cellsCh, ids_append, ids_cellsN_mapInfo]
              exact List.Sublist.refl _
            · exact List.Sublist.refl _
      have hother : s.kind ≠ .root → s.kind ≠ .cur → s.kind ≠ .afn →
          ∃ h', deleteRootIdentifier (fuel + 1) (headRef (LN.mk id i s :: rest)) p =
              .ok (headRef (delRootL (LN.mk id i s :: rest)), { p with heap := h' }) ∧
            Sat h' (cellsCh (delRootL (LN.mk id i s :: rest)) none) ∧
            Frame (ids (cellsCh (LN.mk id i s :: rest) none)) p.heap h' ∧
            (ids (cellsCh (delRootL (LN.mk id i s :: rest)) none)).Sublist (ids (cellsCh (LN.mk id i s :: rest) none)) := by
        intro h1 h2 h3
        have hd : delRootL (LN.mk id i s :: rest) = LN.mk id i s :: rest := by
          cases s <;> first | rfl | exact absurd rfl h1 | exact absurd rfl h2 | exact absurd rfl h3
        rw [hd]
        exact ⟨p.heap, deleteRootIdentifier_other fuel s.kind id p h1 h2 h3, hsat, Frame.refl _ _, List.Sublist.refl _⟩
      cases s with
      | root => exact hrootcase .root (Or.inl rfl) rfl
      | cur => exact hrootcase .cur (Or.inr rfl) rfl
      | child k => exact hother (by intro e; cases e) (by intro e; cases e) (by intro e; cases e)
      | wild => exact hother (by intro e; cases e) (by intro e; cases e) (by intro e; cases e)
      | multi L t => exact hother (by intro e; cases e) (by intro e; cases e) (by intro e; cases e)
      | desc a b => exact hother (by intro e; cases e) (by intro e; cases e) (by intro e; cases e)
      | union ss => exact hother (by intro e; cases e) (by intro e; cases e) (by intro e; cases e)
      | filter q => exact hother (by intro e; cases e) (by intro e; cases e) (by intro e; cases e)
      | ffn name => exact hother (by intro e; cases e) (by intro e; cases e) (by intro e; cases e)
      | afn name q =>
        clear hrootcase hother
        simp only [cellsCh, cellsN, cellsS] at hsat hnd
        have hhead : p.heap[id]? = some (nodeCell id i (.afn name q) (headRefD rest none)) := hsat.left.head
        have hsatQ : Sat p.heap (cellsCh q none) := hsat.left.tail
        simp only [List.cons_append, ids_cons, ids_append, List.nodup_cons, List.nodup_append, List.mem_append, not_or] at hnd
        obtain ⟨⟨hidQ, hidR⟩, hndQ, hndR, hQR⟩ := hnd
        have hsz : sizeCh q + 2 ≤ fuel := by
          simp only [sizeCh, sizeN, sizeS] at hfuel; omega
        obtain ⟨h1, he1, hs1, hf1, hsub1⟩ := ih q p hsz hsatQ hndQ
        have hhead1 : h1[id]? = some (nodeCell id i (.afn name q) (headRefD rest none)) := hf1.get hidQ hhead
        refine ⟨h1.set id (nodeCell id i (.afn name (delRootL q)) (headRefD rest none)), ?_, ?_, ?_, ?_⟩
        · show deleteRootIdentifier (fuel + 1) (some (.afn, id)) p = _
          rw [deleteRootIdentifier_afncase, rd_some hhead, bind_ok]
          show ((deleteRootIdentifier fuel (headRef q) p >>= _) >>= _) = _
          rw [he1, bind_ok]
          show ((PS.onHeap { p with heap := h1 } _ >>= _) >>= _) = _
          rw [onHeap_ok (p := { p with heap := h1 }) (wr_some hhead1 _), bind_ok, bind_ok]
          rfl
        · simp only [delRootL, delRootNodeL, cellsCh, cellsN, cellsS]
          have hfs : Frame [id] h1 (h1.set id (nodeCell id i (.afn name (delRootL q)) (headRefD rest none))) := Frame.set _ _ _
          refine Sat.append (Sat.cons (get_set_self hhead1 _) (Sat.frame hs1 hfs ?_)) (Sat.frame (Sat.frame hsat.right hf1 ?_) hfs ?_)
          · intro x hx hm
            have hx' := hsub1.subset (mem_ids_of_mem hx)
            rw [List.mem_singleton.mp hm] at hx'
            exact hidQ hx'
          · intro x hx hm
            exact hQR x.1 hm x.1 (mem_ids_of_mem hx) rfl
          · intro x hx hm
            have hx' := mem_ids_of_mem hx
            rw [List.mem_singleton.mp hm] at hx'
            exact hidR hx'
        · refine (hf1.trans (Frame.set _ _ _)).mono ?_
          intro j hj
          simp only [cellsCh, cellsN, cellsS, List.cons_append, ids_cons, ids_append]
          rcases List.mem_append.mp hj with hj | hj
          · exact List.mem_cons_of_mem _ (List.mem_append_left _ hj)
          · rw [List.mem_singleton.mp hj]; exact List.mem_cons_self ..
        · simp only [delRootL, delRootNodeL, cellsCh, cellsN, cellsS, List.cons_append, ids_cons, ids_append]
          exact List.Sublist.cons_cons _ (List.Sublist.append hsub1 (List.Sublist.refl _))

/-! ### `setConnectedText` -/

def setConnI (c : String) : Info → Info := fun i => { i with conn := c }

/-- the text appended to a node's own text: the connected text of its successor, or the postfix -/
def appOf (pfx : String) (L : List LN) : String :=
  match L with
  | [] => pfx
  | m :: _ => m.info.conn

mutual
/-- what `setConnectedText` does at one node once the text is known -/
def connNodeL (c : String) : LN → LN
  | .mk id i (.afn name p) => .mk id (setConnI c i) (.afn name (connChainL c p))
  | .mk id i s => .mk id (setConnI c i) (s.mapDeep (setConnI c))
/-- `setConnectedText(head, pfx)` on a layout -/
def connChainL (pfx : String) : List LN → List LN
  | [] => []
  | n :: rest =>
    connNodeL (n.info.text ++ appOf pfx (connChainL pfx rest)) n :: connChainL pfx rest
end

mutual
/-- every aggregate function has a parameter -/
def nepCh : List LN → Bool
  | [] => true
  | n :: rest => nepN n && nepCh rest
def nepN : LN → Bool
  | .mk _ _ s => nepS s
def nepS : LShape → Bool
  | .afn _ p => !p.isEmpty && nepCh p
  | _ => true
end

theorem connNodeL_afn (c : String) (id : Nat) (i : Info) (name : String) (p : List LN) :
    connNodeL c (.mk id i (.afn name p)) = .mk id (setConnI c i) (.afn name (connChainL c p)) := by
  simp only [connNodeL]

theorem connNodeL_other (c : String) (id : Nat) (i : Info) (s : LShape) (hs : s.kind ≠ .afn) :
    connNodeL c (.mk id i s) = (LN.mk id i s).mapDeep (setConnI c) := by
  cases s <;> first | (simp only [connNodeL]; rfl) | exact absurd rfl hs

theorem connNodeL_ref (c : String) (n : LN) : (connNodeL c n).ref = n.ref := by
  obtain ⟨id, i, s⟩ := n
  by_cases hs : s.kind = .afn
  · cases s <;> first | (simp only [connNodeL]; rfl) | exact absurd hs (by intro e; cases e)
  · rw [connNodeL_other c id i s hs, LN.ref_mapDeep]

theorem connChainL_cons (pfx : String) (n : LN) (rest : List LN) :
    connChainL pfx (n :: rest) =
      connNodeL (n.info.text ++ appOf pfx (connChainL pfx rest)) n :: connChainL pfx rest := by
  simp only [connChainL]

theorem headRef_connChainL (pfx : String) (A : List LN) : headRef (connChainL pfx A) = headRef A := by
  cases A with
  | nil => rfl
  | cons n rest => rw [connChainL_cons]; exact connNodeL_ref _ n


theorem connNode_other (c : String) (id : Nat) (i : Info) (s : LShape) (hs : s.kind ≠ .afn) :
    Peg.connNode c (eraseN (.mk id i s)) = Peg.nMapInfoDeep (setConnI c) (eraseN (.mk id i s)) := by
  cases s <;> first | rfl | exact absurd rfl hs

mutual
theorem eraseN_connNodeL (c : String) : ∀ (n : LN), eraseN (connNodeL c n) = Peg.connNode c (eraseN n)
  | .mk id i (.afn name p) => by
    rw [connNodeL_afn]
    simp only [eraseN, eraseS, Peg.connNode]
    rw [eraseCh_connChainL c p]
    rfl
  | .mk id i .root => rfl
  | .mk id i .cur => rfl
  | .mk id i (.child k) => rfl
  | .mk id i .wild => rfl
  | .mk id i (.multi L t) => by
    rw [connNodeL_other c id i _ (by intro e; cases e), eraseN_mapDeep, connNode_other c id i _ (by intro e; cases e)]
  | .mk id i (.desc a b) => rfl
  | .mk id i (.union ss) => rfl
  | .mk id i (.filter q) => rfl
  | .mk id i (.ffn name) => rfl
theorem eraseCh_connChainL (pfx : String) : ∀ (A : List LN), eraseCh (connChainL pfx A) = Peg.connChain pfx (eraseCh A)
  | [] => rfl
  | n :: rest => by
    rw [connChainL_cons]
    simp only [eraseCh, Peg.connChain]
    rw [eraseN_connNodeL, ← eraseCh_connChainL pfx rest, eraseN_info]
    congr 2
    congr 1
    cases h : connChainL pfx rest with
    | nil => rfl
    | cons m r => simp only [eraseCh, eraseN_info, appOf]
end


mutual
theorem ids_cellsN_connNodeL (c : String) : ∀ (n : LN) (nx : NRef), ids (cellsN (connNodeL c n) nx) = ids (cellsN n nx)
  | .mk id i (.afn name p), nx => by
    rw [connNodeL_afn]
    simp only [cellsN, cellsS, ids_cons]
    rw [ids_cellsCh_connChainL c p none]
  | .mk id i .root, nx => rfl
  | .mk id i .cur, nx => rfl
  | .mk id i (.child k), nx => rfl
  | .mk id i .wild, nx => rfl
  | .mk id i (.multi L t), nx => by
    rw [connNodeL_other c id i _ (by intro e; cases e), ids_cellsN_mapDeep]
  | .mk id i (.desc a b), nx => rfl
  | .mk id i (.union ss), nx => rfl
  | .mk id i (.filter q), nx => rfl
  | .mk id i (.ffn name), nx => rfl
theorem ids_cellsCh_connChainL (pfx : String) : ∀ (A : List LN) (tl : NRef),
    ids (cellsCh (connChainL pfx A) tl) = ids (cellsCh A tl)
  | [], _ => rfl
  | n :: rest, tl => by
    rw [connChainL_cons]
    simp only [cellsCh, ids_append]
    rw [ids_cellsN_connNodeL _ n, ids_cellsCh_connChainL pfx rest tl,
      ids_cellsN n (headRefD (connChainL pfx rest) tl) (headRefD rest tl)]
end

/-! the body of `setConnectedText`, cut into its four statements -/

/-- `appendText := …` and the first `if` -/
def connPart1 (fuel : Nat) (targetNode : NRef) (postfix_ : List String) (p : PS) : M (String × PS) := do
  let appendText := ""
  let t_1 ← nodeGetNext targetNode p.heap
  let (appendText, p) ← (if t_1.isSome then do
      let t_2 ← nodeGetNext targetNode p.heap
      let p ← setConnectedText fuel t_2 postfix_ p
      let t_3 ← nodeGetNext targetNode p.heap
      let t_4 ← nodeGetConnectedText t_3 p.heap
      let appendText := t_4
      .ok (appendText, p)
    else do
      let appendText ← (if goLen postfix_ > 0 then do
          let t_5 ← sliceIndex postfix_ 0
          let appendText := t_5
          .ok appendText
        else do
          .ok appendText
        : M _)
      .ok (appendText, p)
    : M _)
  .ok (appendText, p)

/-- the `if multiIdentifier, ok := …` statement -/
def connPart3 (targetNode : NRef) (p : PS) : M PS :=
  (match NRef.asPtr .multi targetNode with
    | some multiIdentifier => do
      let t_7 ← rd p.heap (some multiIdentifier) (·.identifiers)
      let p ← forEach t_7 p (fun identifier p => do
          let t_8 ← nodeGetConnectedText targetNode p.heap
          let p ← p.onHeap (nodeSetConnectedText identifier t_8)
          .ok p
        )
      let t_9 ← rd p.heap (some multiIdentifier) (·.isAllWildcard)
      let p ← (if t_9 then do
          let t_10 ← rd p.heap (some multiIdentifier) (·.unionQualifier.basic)
          let t_11 ← nodeGetConnectedText targetNode p.heap
          let p ← p.onHeap (basicSetConnectedText t_10 t_11)
          .ok p
        else do
          .ok p
        : M _)
      .ok p
    | none => do
      .ok p
    : M _)

/-- the `if aggregate, ok := …` statement -/
def connPart4 (fuel : Nat) (targetNode : NRef) (p : PS) : M PS :=
  match NRef.asPtr .afn targetNode with
  | some aggregate => do
    let t_12 ← rd p.heap (some aggregate) (·.param)
    let t_13 ← basicGetConnectedText (some aggregate) p.heap
    let p ← setConnectedText fuel t_12 [t_13] p
    .ok p
  | none => do
    .ok p

theorem setConnectedText_succ (fuel : Nat) (targetNode : NRef) (postfix_ : List String) (p : PS) :
    setConnectedText (fuel + 1) targetNode postfix_ p = (do
      let (appendText, p) ← connPart1 fuel targetNode postfix_ p
      let t_6 ← nodeGetText targetNode p.heap
      let p ← p.onHeap (nodeSetConnectedText targetNode (t_6 ++ appendText))
      let p ← connPart3 targetNode p
      connPart4 fuel targetNode p) := by
  rw [setConnectedText]
  simp only [connPart1, connPart3, connPart4, bind_assoc, bind_ok]
  rfl

theorem connPart3_other (k : Kind) (hk : k ≠ .multi) (id : Nat) (p : PS) :
    connPart3 (some (k, id)) p = .ok p := by
  cases k <;> first | rfl | exact absurd rfl hk

theorem connPart4_other (fuel : Nat) (k : Kind) (hk : k ≠ .afn) (id : Nat) (p : PS) :
    connPart4 fuel (some (k, id)) p = .ok p := by
  cases k <;> first | rfl | exact absurd rfl hk

theorem cellInfo_setConn (c : String) (x : Cell) : cellInfo (setConnI c) x = { x with connectedText := c } := rfl

theorem connPart3_multi (c : String) (id : Nat) (i : Info) (L : List LId) (twin : Option (Nat × Info))
    (nx : NRef) (p : PS) (h0 : Heap)
    (hsat : Sat h0 (cellsN (.mk id i (.multi L twin)) nx))
    (hnd : (ids (cellsN (.mk id i (.multi L twin)) nx)).Nodup)
    (hp : p.heap = h0.set id (cellInfo (setConnI c) (nodeCell id i (.multi L twin) nx))) :
    ∃ h3, connPart3 (some (.multi, id)) p = .ok { p with heap := h3 } ∧
      Sat h3 (cellsN ((LN.mk id i (.multi L twin)).mapDeep (setConnI c)) nx) ∧
      Frame (ids (cellsN (.mk id i (.multi L twin)) nx)) h0 h3 := by
  have hhead0 : h0[id]? = some (nodeCell id i (.multi L twin) nx) := hsat.head
  have hnd' := hnd
  simp only [cellsN, cellsS, ids_cons, ids_append, ids_innerCells, List.nodup_cons, List.nodup_append,
    List.mem_append, not_or] at hnd'
  obtain ⟨⟨hidL, hidT⟩, hLnd, hTnd, hLT⟩ := hnd'
  have hsatI : Sat h0 (innerCells L nx) := by
    simp only [cellsN, cellsS] at hsat; exact hsat.tail.left
  have h1head : p.heap[id]? = some (cellInfo (setConnI c) (nodeCell id i (.multi L twin) nx)) := by
    rw [hp]; exact get_set_self hhead0 _
  have hf1 : Frame [id] h0 p.heap := by rw [hp]; exact Frame.set _ _ _
  have h1I : Sat p.heap (innerCells L nx) := by
    refine Sat.frame hsatI hf1 ?_
    intro x hx hm
    have hx' := mem_ids_of_mem hx
    rw [ids_innerCells, List.mem_singleton.mp hm] at hx'
    exact hidL hx'
  obtain ⟨h2, he2, hinv2, hs2, hf2⟩ := forEach_inner (σ := PS) (fun s => s.heap) (fun s h => { s with heap := h })
    (fun _ _ => rfl) (fun _ _ _ => rfl) (fun _ => rfl)
    (fun h => h[id]? = some (cellInfo (setConnI c) (nodeCell id i (.multi L twin) nx)))
    (cellInfo (setConnI c))
    (fun identifier p => do
      let t_8 ← nodeGetConnectedText (some (.multi, id)) p.heap
      let p ← p.onHeap (nodeSetConnectedText identifier t_8)
      .ok p) nx L hLnd
    (by
      intro l hl h c' hinv
      have : l.id ≠ id := by
        intro e
        exact hidL (e ▸ List.mem_map.mpr ⟨l, hl, rfl⟩)
      rw [get_set_ne this]; exact hinv)
    (by
      intro l _ s hinv hl
      show (nodeGetConnectedText (some (.multi, id)) s.heap >>= _) = _
      rw [nodeGetConnectedText_some hinv, bind_ok]
      show (s.onHeap (nodeSetConnectedText (some (MId.kind l.m, l.id)) c) >>= _) = _
      rw [onHeap_ok (nodeSetConnectedText_some hl c), bind_ok]
      rfl)
    p h1head h1I
  rw [hp] at hf2
  obtain ⟨h2head, h2twin, hs3, hf3⟩ := deep_assemble (setConnI c) id i L twin nx h0 h2 hsat hnd hs2 hf2
  refine ⟨_, ?_, hs3, hf3⟩
  show ((rd p.heap (some id) (·.identifiers) >>= _) : M PS) = _
  rw [rd_some h1head, bind_ok]
  show (forEach (L.map LId.ref) p _ >>= _) = _
  rw [he2, bind_ok]
  show ((rd h2 (some id) (·.isAllWildcard) >>= _) : M PS) = _
  rw [rd_some h2head, bind_ok]
  cases twin with
  | none => rfl
  | some tw =>
    obtain ⟨t, ti⟩ := tw
    show (((rd h2 (some id) (·.unionQualifier.basic) >>= _) >>= _) : M PS) = _
    rw [rd_some h2head, bind_ok]
    show (((nodeGetConnectedText (some (.multi, id)) h2 >>= _) >>= _) : M PS) = _
    rw [nodeGetConnectedText_some h2head, bind_ok]
    show (((PS.onHeap { p with heap := h2 } (basicSetConnectedText (some t) c) >>= _) >>= _) : M PS) = _
    rw [onHeap_ok (p := { p with heap := h2 }) (basicSetConnectedText_some (h2twin t ti rfl) c), bind_ok, bind_ok]
    rfl


/-- the statement proved by induction on the fuel -/
def ConnSpec (fuel : Nat) : Prop :=
  ∀ (A : List LN) (pfxs : List String) (pfx : String) (p : PS),
    (pfxs = [pfx] ∨ (pfxs = [] ∧ pfx = "")) → A ≠ [] → nepCh A = true → sizeCh A + 1 ≤ fuel →
    Sat p.heap (cellsCh A none) → (ids (cellsCh A none)).Nodup →
    ∃ h', setConnectedText fuel (headRef A) pfxs p = .ok { p with heap := h' } ∧
      Sat h' (cellsCh (connChainL pfx A) none) ∧ Frame (ids (cellsCh A none)) p.heap h'

theorem connPart1_spec (fuel : Nat) (ih : ConnSpec fuel) (id : Nat) (i : Info) (s : LShape) (rest : List LN)
    (pfxs : List String) (pfx : String) (p : PS) (hpfx : pfxs = [pfx] ∨ (pfxs = [] ∧ pfx = ""))
    (hnep : nepCh rest = true) (hsz : sizeCh rest + 1 ≤ fuel)
    (hsat : Sat p.heap (cellsCh (LN.mk id i s :: rest) none))
    (hnd : (ids (cellsCh (LN.mk id i s :: rest) none)).Nodup) :
    ∃ h1, connPart1 fuel (some (s.kind, id)) pfxs p =
        .ok (appOf pfx (connChainL pfx rest), { p with heap := h1 }) ∧
      Sat h1 (cellsCh (connChainL pfx rest) none) ∧ Frame (ids (cellsCh rest none)) p.heap h1 := by
  simp only [cellsCh] at hsat hnd
  have hhead : p.heap[id]? = some (nodeCell id i s (headRefD rest none)) := hsat.left.head
  rw [ids_append, List.nodup_append] at hnd
  obtain ⟨hndN, hndR, hdis⟩ := hnd
  cases rest with
  | nil =>
    refine ⟨p.heap, ?_, Sat.nil _, Frame.refl _ _⟩
    simp only [connPart1, nodeGetNext_some hhead, bind_ok, nodeCell_next]
    show ((if (none : NRef).isSome = true then _ else _) >>= _) = _
    rw [if_neg (by decide)]
    rcases hpfx with rfl | ⟨rfl, rfl⟩
    · rfl
    · rfl
  | cons m r =>
    obtain ⟨h1, he1, hs1, hf1⟩ := ih (m :: r) pfxs pfx p hpfx (by intro e; cases e) hnep hsz hsat.right hndR
    refine ⟨h1, ?_, hs1, hf1⟩
    have hid : id ∉ ids (cellsCh (m :: r) none) := by
      intro hm
      exact hdis id (by simp only [cellsN, ids_cons]; exact List.mem_cons_self ..) id hm rfl
    have hhead1 : h1[id]? = some (nodeCell id i s (headRefD (m :: r) none)) := hf1.get hid hhead
    obtain ⟨mid, mi, ms⟩ := m
    rw [connChainL_cons] at hs1 ⊢
    generalize hc : (LN.mk mid mi ms).info.text ++ appOf pfx (connChainL pfx r) = c at hs1 ⊢
    have href := connNodeL_ref c (LN.mk mid mi ms)
    rcases hm' : connNodeL c (LN.mk mid mi ms) with ⟨mid', mi', ms'⟩
    rw [hm'] at href hs1
    have hkid : (ms'.kind, mid') = (ms.kind, mid) := by
      simp only [LN.ref] at href
      exact Option.some.inj href
    simp only [cellsCh] at hs1
    have hmhead : h1[mid']? = some (nodeCell mid' mi' ms' (headRefD (connChainL pfx r) none)) := hs1.left.head
    have hrd : headRefD (LN.mk mid mi ms :: r) none = some (ms.kind, mid) := rfl
    simp only [connPart1, nodeGetNext_some hhead, bind_ok, nodeCell_next, hrd]
    rw [if_pos (show (some (ms.kind, mid) : NRef).isSome = true from rfl)]
    show (((setConnectedText fuel (some (ms.kind, mid)) pfxs p >>= _) >>= _) : M (String × PS)) = _
    have he1' : setConnectedText fuel (some (ms.kind, mid)) pfxs p = .ok { p with heap := h1 } := he1
    rw [he1', bind_ok]
    show (((nodeGetNext (some (s.kind, id)) h1 >>= _) >>= _) : M (String × PS)) = _
    rw [nodeGetNext_some hhead1, bind_ok, nodeCell_next]
    show (((nodeGetConnectedText (some (ms.kind, mid)) h1 >>= _) >>= _) : M (String × PS)) = _
    rw [← hkid, nodeGetConnectedText_some hmhead, bind_ok]
    rfl


theorem nodeCell_afn_conn (c : String) (id : Nat) (i : Info) (name : String) (q : List LN) (nx : NRef) :
    cellInfo (setConnI c) (nodeCell id i (.afn name q) nx) =
      nodeCell id (setConnI c i) (.afn name (connChainL c q)) nx := by
  show _ = { nodeCell id (setConnI c i) (.afn name q) nx with param := headRef (connChainL c q) }
  rw [headRef_connChainL]
  rfl

theorem connSpec_all : ∀ (fuel : Nat), ConnSpec fuel := by
  intro fuel
  induction fuel with
  | zero => intro A _ _ _ _ _ _ h; omega
  | succ fuel ih =>
    intro A pfxs pfx p hpfx hne hnep hsz hsat hnd
    cases A with
    | nil => exact absurd rfl hne
    | cons n rest =>
      obtain ⟨id, i, s⟩ := n
      have hnepN : nepS s = true ∧ nepCh rest = true := by
        simp only [nepCh, nepN, Bool.and_eq_true] at hnep; exact hnep
      have hszR : sizeCh rest + 1 ≤ fuel := by simp only [sizeCh, sizeN] at hsz; omega
      obtain ⟨h1, he1, hs1, hf1⟩ := connPart1_spec fuel ih id i s rest pfxs pfx p hpfx hnepN.2 hszR hsat hnd
      generalize happ : appOf pfx (connChainL pfx rest) = app at he1
      have hnd0 := hnd
      simp only [cellsCh] at hsat hnd
      rw [ids_append, List.nodup_append] at hnd
      obtain ⟨hndN, hndR, hdis⟩ := hnd
      -- the node's cells are still there after the recursion along `next`
      have hsatN1 : Sat h1 (cellsN (LN.mk id i s) (headRefD rest none)) := by
        refine Sat.frame hsat.left hf1 ?_
        intro x hx hm
        exact hdis x.1 (mem_ids_of_mem hx) x.1 hm rfl
      have hhead1 : h1[id]? = some (nodeCell id i s (headRefD rest none)) := hsatN1.head
      let c := i.text ++ app
      let h2 := h1.set id (cellInfo (setConnI c) (nodeCell id i s (headRefD rest none)))
      have hf2 : Frame [id] h1 h2 := Frame.set _ _ _
      have hhead2 : h2[id]? = some (cellInfo (setConnI c) (nodeCell id i s (headRefD rest none))) := get_set_self hhead1 _
      have hstart : setConnectedText (fuel + 1) (headRef (LN.mk id i s :: rest)) pfxs p = (do
          let p ← connPart3 (some (s.kind, id)) { p with heap := h2 }
          connPart4 fuel (some (s.kind, id)) p) := by
        show setConnectedText (fuel + 1) (some (s.kind, id)) pfxs p = _
        rw [setConnectedText_succ, he1, bind_ok]
        show ((nodeGetText (some (s.kind, id)) h1 >>= _) : M PS) = _
        rw [nodeGetText_some hhead1, bind_ok]
        show ((PS.onHeap { p with heap := h1 } _ >>= _) : M PS) = _
        rw [onHeap_ok (p := { p with heap := h1 }) (nodeSetConnectedText_some hhead1 _), bind_ok]
        rfl
      have hrest' : headRefD (connChainL pfx rest) none = headRefD rest none := by
        rw [headRefD_none, headRefD_none, headRef_connChainL]
      have hidsN : ∀ x ∈ cellsCh (connChainL pfx rest) none, x.1 ∉ ids (cellsN (LN.mk id i s) (headRefD rest none)) := by
        intro x hx hm
        have hx' := mem_ids_of_mem hx
        rw [ids_cellsCh_connChainL] at hx'
        exact hdis x.1 hm x.1 hx' rfl
      have hfinal : ∀ (h' : Heap) (n' : LN), connNodeL c (LN.mk id i s) = n' →
          Sat h' (cellsN n' (headRefD rest none)) →
          Frame (ids (cellsN (LN.mk id i s) (headRefD rest none))) h1 h' →
          Sat h' (cellsCh (connChainL pfx (LN.mk id i s :: rest)) none) ∧
            Frame (ids (cellsCh (LN.mk id i s :: rest) none)) p.heap h' := by
        intro h' n' hn' hsn hfr
        constructor
        · rw [connChainL_cons]
          simp only [cellsCh]
          rw [hrest', show (LN.mk id i s).info.text = i.text from rfl, happ, hn']
          exact Sat.append hsn (Sat.frame hs1 hfr hidsN)
        · simp only [cellsCh, ids_append]
          refine (hf1.trans hfr).mono ?_
          intro j hj
          rcases List.mem_append.mp hj with hj | hj
          · exact List.mem_append_right _ hj
          · exact List.mem_append_left _ hj
      by_cases hkm : s.kind = .multi
      · -- a multi-name node
        cases s with
        | multi L twin =>
          obtain ⟨h3, he3, hs3, hf3⟩ := connPart3_multi c id i L twin (headRefD rest none)
            { p with heap := h2 } h1 hsatN1 hndN rfl
          obtain ⟨hA, hB⟩ := hfinal h3 _ (connNodeL_other c id i _ (by intro e; cases e)) hs3 hf3
          refine ⟨h3, ?_, hA, hB⟩
          have hstart' : setConnectedText (fuel + 1) (headRef (LN.mk id i (.multi L twin) :: rest)) pfxs p = (do
              let p ← connPart3 (some (.multi, id)) { p with heap := h2 }
              connPart4 fuel (some (.multi, id)) p) := hstart
          rw [hstart', he3, bind_ok]
          rfl
        | _ => exact absurd hkm (by intro e; cases e)
      · by_cases hka : s.kind = .afn
        · cases s with
          | afn name q =>
            have hq : q ≠ [] ∧ nepCh q = true := by
              have := hnepN.1
              simp only [nepS, Bool.and_eq_true, Bool.not_eq_true'] at this
              refine ⟨?_, this.2⟩
              intro e; rw [e] at this; exact absurd this.1 (by decide)
            have hszQ : sizeCh q + 1 ≤ fuel := by simp only [sizeCh, sizeN, sizeS] at hsz; omega
            simp only [cellsN, cellsS, ids_cons, List.nodup_cons] at hndN
            have hsatQ2 : Sat h2 (cellsCh q none) := by
              refine Sat.frame (S := [id]) ?_ hf2 ?_
              · simp only [cellsN, cellsS] at hsatN1; exact hsatN1.tail
              · intro x hx hm
                have hx' := mem_ids_of_mem hx
                rw [List.mem_singleton.mp hm] at hx'
                exact hndN.1 hx'
            obtain ⟨h4, he4, hs4, hf4⟩ := ih q [c] c { p with heap := h2 } (Or.inl rfl) hq.1 hq.2 hszQ hsatQ2 hndN.2
            have hhead4 : h4[id]? = some (cellInfo (setConnI c) (nodeCell id i (.afn name q) (headRefD rest none))) :=
              hf4.get hndN.1 hhead2
            obtain ⟨hA, hB⟩ := hfinal h4 _ (connNodeL_afn c id i name q) (by
                simp only [cellsN, cellsS]
                refine Sat.cons ?_ hs4
                show h4[id]? = some (nodeCell id (setConnI c i) (.afn name (connChainL c q)) (headRefD rest none))
                rw [← nodeCell_afn_conn]; exact hhead4)
              ((hf2.trans hf4).mono (by
                intro j hj
                simp only [cellsN, cellsS, ids_cons]
                rcases List.mem_append.mp hj with hj | hj
                · rw [List.mem_singleton.mp hj]; exact List.mem_cons_self ..
                · exact List.mem_cons_of_mem _ hj))
            refine ⟨h4, ?_, hA, hB⟩
            have hstart' : setConnectedText (fuel + 1) (headRef (LN.mk id i (.afn name q) :: rest)) pfxs p = (do
                let p ← connPart3 (some (.afn, id)) { p with heap := h2 }
                connPart4 fuel (some (.afn, id)) p) := hstart
            rw [hstart', connPart3_other _ (by intro e; cases e), bind_ok]
            show ((rd h2 (some id) (·.param) >>= _) : M PS) = _
            rw [rd_some hhead2, bind_ok]
            show ((basicGetConnectedText (some id) h2 >>= _) : M PS) = _
            rw [basicGetConnectedText_some hhead2, bind_ok]
            show ((setConnectedText fuel (headRef q) [c] { p with heap := h2 } >>= _) : M PS) = _
            rw [he4, bind_ok]
          | _ => exact absurd hka (by intro e; cases e)
        · -- any other node
          obtain ⟨hA, hB⟩ := hfinal h2 _ (connNodeL_other c id i s hka) (by
              simp only [LN.mapDeep, LShape.mapDeep_not_multi _ s hkm, cellsN] at hsatN1 ⊢
              refine Sat.cons hhead2 (Sat.frame hsatN1.tail hf2 ?_)
              intro x hx hm
              have hx' := mem_ids_of_mem hx
              rw [List.mem_singleton.mp hm] at hx'
              simp only [cellsN, ids_cons, List.nodup_cons] at hndN
              exact hndN.1 hx')
            (hf2.mono (by
              intro j hj
              rw [List.mem_singleton.mp hj]
              simp only [cellsN, ids_cons]; exact List.mem_cons_self ..))
          refine ⟨h2, ?_, hA, hB⟩
          rw [hstart, connPart3_other _ hkm, bind_ok, connPart4_other _ _ hka]

/-- `setConnectedText(head, pfx…)` -/
theorem setConnectedText_chain (fuel : Nat) (A : List LN) (pfxs : List String) (pfx : String) (p : PS)
    (hpfx : pfxs = [pfx] ∨ (pfxs = [] ∧ pfx = "")) (hne : A ≠ []) (hnep : nepCh A = true)
    (hsz : sizeCh A + 1 ≤ fuel) (hsat : Sat p.heap (cellsCh A none)) (hnd : (ids (cellsCh A none)).Nodup) :
    ∃ h', setConnectedText fuel (headRef A) pfxs p = .ok { p with heap := h' } ∧
      Sat h' (cellsCh (connChainL pfx A) none) ∧ Frame (ids (cellsCh A none)) p.heap h' :=
  connSpec_all fuel A pfxs pfx p hpfx hne hnep hsz hsat hnd

end ParserLayout
end JPV
