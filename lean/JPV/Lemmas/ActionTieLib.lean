/-
ActionTieLib — the `ALib` built from the regenerated operand-ordering functions (`ActionLib.alOf`) satisfies
`ALibRep`: for every pair of operands the grammar can build, `pushCompareXX` pushes exactly the compare query of
the model (`mkEQL` … = `Peg.mkEQ` … under erasure), with the operands in rank order.
-/
import JPV.Lemmas.ActionTie
import JPV.ActionLib
set_option linter.unusedVariables false
namespace JPV
namespace ParserLayout
open JPV JPV.ParserNode JPV.ActionNode
open JPV.Gen.ParserHelpersGo

theorem alOf_rep (c : Peg.Ctx) (u us ud : String → M String)
    (hu : ∀ t, u t = .ok (c.ext.unescape t))
    (hus : ∀ t, us t = match c.ext.unescapeSingle t with | some k => .ok k | none => .error (.invalidArgument t))
    (hud : ∀ t, ud t = match c.ext.unescapeDouble t with | some k => .ok k | none => .error (.invalidArgument t)) :
    ALibRep (alOf u us ud) c :=
  { unescape := hu
    single := hus
    double := hud
    eq := by intro l r g; cases l <;> cases r <;> (try rename_i a b; cases a <;> cases b) <;> (try rename_i a; cases a) <;> rfl
    ne := by intro l r g; cases l <;> cases r <;> (try rename_i a b; cases a <;> cases b) <;> (try rename_i a; cases a) <;> rfl
    ge := by intro l r g; cases l <;> cases r <;> rfl
    gt := by intro l r g; cases l <;> cases r <;> rfl
    le := by intro l r g; cases l <;> cases r <;> rfl
    lt := by intro l r g; cases l <;> cases r <;> rfl }

end ParserLayout
end JPV
