/-
SpecAlgebra — algebraic laws of the specification used by C08: a continuation that never
mentions `$` does not depend on the root document, filter functions distribute over
concatenation, and therefore steps compose by `flatMap`.
-/
import JPV.Spec
import JPV.Lemmas.SpecLemmas
namespace JPV
namespace SpecAlg
open Spec

/-! ### `rootFree`: no operand path with head `$`, recursively (also inside nested filters) -/

mutual
def rootFreeStep : Step → Bool
  | .child _ _ => true
  | .wild _ => true
  | .multi _ _ => true
  | .union _ _ => true
  | .filter _ q => rootFreeQuery q
  | .desc s => rootFreeStep s
def rootFreeQuery : Query → Bool
  | .or a b => rootFreeQuery a && rootFreeQuery b
  | .and a b => rootFreeQuery a && rootFreeQuery b
  | .exist _ p => rootFreePath p
  | .cmp _ l r => rootFreeOperand l && rootFreeOperand r
  | .regex p _ => rootFreePath p
def rootFreeOperand : Operand → Bool
  | .lit _ => true
  | .path p => rootFreePath p
def rootFreePath : Path → Bool
  | .mk h steps _ => (match h with | .root => false | .cur => true) && rootFreeSteps steps
def rootFreeSteps : List Step → Bool
  | [] => true
  | s :: ss => rootFreeStep s && rootFreeSteps ss
end

/-- the name used in the property statements -/
abbrev rootFree (s : Step) : Prop := rootFreeStep s = true

theorem rootFreeSteps_iff (ss : List Step) : rootFreeSteps ss = true ↔ ∀ s ∈ ss, rootFree s := by
  induction ss with
  | nil => simp [rootFreeSteps]
  | cons s ss ih => simp [rootFreeSteps, ih, rootFree]

/-! ### root independence -/

mutual
theorem sel_rootFree (env : Env) (r1 r2 : Val) :
    (s : Step) → rootFreeStep s = true → ∀ cur, sel env s r1 cur = sel env s r2 cur
  | .child _ _, _, cur => by cases cur <;> simp only [sel]
  | .wild _, _, cur => by simp only [sel]
  | .multi _ _, _, cur => by cases cur <;> simp only [sel]
  | .union _ _, _, cur => by cases cur <;> simp only [sel]
  | .filter _ q, h, cur => by
    simp only [rootFreeStep] at h
    simp only [sel]
    rw [verdicts_rootFree env r1 r2 q h]
  | .desc s, h, cur => by
    simp only [rootFreeStep] at h
    simp only [sel]
    congr 1
    funext c
    exact sel_rootFree env r1 r2 s h c

theorem evalSteps_rootFree (env : Env) (r1 r2 : Val) :
    (ss : List Step) → rootFreeSteps ss = true → ∀ vs, evalSteps env ss r1 vs = evalSteps env ss r2 vs
  | [], _, vs => by simp only [evalSteps]
  | s :: ss, h, vs => by
    simp only [rootFreeSteps, Bool.and_eq_true] at h
    simp only [evalSteps]
    rw [evalSteps_rootFree env r1 r2 ss h.2]
    congr 2
    funext v
    exact sel_rootFree env r1 r2 s h.1 v

theorem verdicts_rootFree (env : Env) (r1 r2 : Val) :
    (q : Query) → rootFreeQuery q = true → ∀ ms, verdicts env q r1 ms = verdicts env q r2 ms
  | .or a b, h, ms => by
    simp only [rootFreeQuery, Bool.and_eq_true] at h
    simp only [verdicts]
    rw [verdicts_rootFree env r1 r2 a h.1, verdicts_rootFree env r1 r2 b h.2]
  | .and a b, h, ms => by
    simp only [rootFreeQuery, Bool.and_eq_true] at h
    simp only [verdicts]
    rw [verdicts_rootFree env r1 r2 a h.1, verdicts_rootFree env r1 r2 b h.2]
  | .exist neg p, h, ms => by
    simp only [rootFreeQuery] at h
    simp only [verdicts]
    congr 1
    funext m
    rw [evalPath_rootFree env r1 r2 p h]
  | .cmp op l r, h, ms => by
    simp only [rootFreeQuery, Bool.and_eq_true] at h
    simp only [verdicts]
    rw [operandVals_rootFree env r1 r2 l h.1, operandVals_rootFree env r1 r2 r h.2]
  | .regex p re, h, ms => by
    simp only [rootFreeQuery] at h
    simp only [verdicts]
    congr 1
    funext m
    rw [evalPath_rootFree env r1 r2 p h]

theorem operandVals_rootFree (env : Env) (r1 r2 : Val) :
    (o : Operand) → rootFreeOperand o = true → ∀ ms, operandVals env o r1 ms = operandVals env o r2 ms
  | .lit _, _, ms => by simp only [operandVals]
  | .path p, h, ms => by
    simp only [rootFreeOperand] at h
    simp only [operandVals]
    congr 1
    funext m
    rw [evalPath_rootFree env r1 r2 p h]

theorem evalPath_rootFree (env : Env) (r1 r2 : Val) :
    (p : Path) → rootFreePath p = true → ∀ cur, evalPath env p r1 cur = evalPath env p r2 cur
  | .mk .root steps fns, h, cur => by simp [rootFreePath] at h
  | .mk .cur steps fns, h, cur => by
    simp only [rootFreePath, Bool.true_and] at h
    simp only [evalPath]
    rw [evalSteps_rootFree env r1 r2 steps h]
end

/-! ### filter functions distribute over concatenation -/

def isFfn : Fn → Bool
  | .ffn _ _ => true
  | .afn _ _ => false

/-- with filter functions only, `applyFns` is a per-value map that is either defined for every
    input (all functions registered) or for none -/
theorem applyFns_ffn_flatMap (env : Env) {α : Type} :
    ∀ (fns : List Fn), fns.all isFfn = true → ∀ (s s' : Bool) (vs : List α) (f : α → List Val),
      (applyFns env fns s (vs.flatMap f)).getD [] =
        vs.flatMap (fun v => (applyFns env fns s' (f v)).getD [])
  | [], _, s, s', vs, f => by simp only [applyFns, Option.getD_some]
  | .afn _ _ :: _, h, _, _, _, _ => by simp [isFfn] at h
  | .ffn t name :: rest, h, s, s', vs, f => by
    simp only [List.all_cons, Bool.and_eq_true] at h
    simp only [applyFns]
    cases hg : env.ffn name with
    | none => simp
    | some g =>
      simp only
      have : (vs.flatMap f).filterMap g = vs.flatMap (fun v => (f v).filterMap g) := by
        induction vs with
        | nil => rfl
        | cons a l ih => simp only [List.flatMap_cons, List.filterMap_append, ih]
      rw [this]
      exact applyFns_ffn_flatMap env rest h.2 s s' vs _

theorem evalSteps_append (env : Env) (root : Val) (P Q : List Step) :
    ∀ vs, evalSteps env (P ++ Q) root vs = evalSteps env Q root (evalSteps env P root vs) := by
  induction P with
  | nil => intro vs; rfl
  | cons s ss ih => intro vs; simp only [List.cons_append, evalSteps]; exact ih _

/-- what `Spec.run` does with the outcome of `evalPath`: an empty selection is a failure -/
def nonEmpty? (l : List Val) : Option (List Val) := if l.isEmpty then none else some l

theorem run_eq (env : Env) (p : Path) (d : Val) :
    Spec.run env p d = nonEmpty? ((evalPath env p d d).getD []) := by
  unfold Spec.run nonEmpty?
  cases evalPath env p d d with
  | none => rfl
  | some l => cases l <;> rfl

theorem run_getD (env : Env) (p : Path) (d : Val) :
    (Spec.run env p d).getD [] = (evalPath env p d d).getD [] := by
  rw [run_eq]
  unfold nonEmpty?
  cases (evalPath env p d d).getD [] <;> rfl

theorem nonEmpty?_eq_none (l : List Val) : nonEmpty? l = none ↔ l = [] := by
  unfold nonEmpty?; cases l <;> simp

/-- the composition law at the level of `evalPath` -/
theorem evalPath_compose (env : Env) (P Q : List Step) (fns : List Fn)
    (hf : fns.all isFfn = true) (hQ : rootFreeSteps Q = true) (d : Val) :
    (evalPath env (.mk .root (P ++ Q) fns) d d).getD [] =
      ((evalPath env (.mk .root P []) d d).getD []).flatMap
        (fun v => (evalPath env (.mk .root Q fns) v v).getD []) := by
  simp only [evalPath, applyFns, Option.getD_some]
  rw [evalSteps_append, BD.evalSteps_flatMap env d Q]
  rw [applyFns_ffn_flatMap env fns hf _ (!Q.any isVgStep)]
  congr 1
  funext v
  rw [evalSteps_rootFree env d v Q hQ]

/-! ### containers in pre-order -/

theorem containersList_eq (xs : List Val) : Val.containersList xs = xs.flatMap Val.containers := by
  induction xs with
  | nil => rfl
  | cons x xs ih => simp only [Val.containersList, List.flatMap_cons, ih]

theorem containersKVs_eq (kvs : List (String × Val)) :
    Val.containersKVs kvs = kvs.flatMap (fun kv => Val.containers kv.2) := by
  induction kvs with
  | nil => rfl
  | cons x xs ih => obtain ⟨k, v⟩ := x; simp only [Val.containersKVs, List.flatMap_cons, ih]

/-- pre-order: a container comes first, then the containers of its members in member order -/
theorem containers_preorder (v : Val) :
    Val.containers v = if v.isContainer then v :: v.members.flatMap Val.containers else [] := by
  cases v <;> simp only [Val.containers, Val.isContainer, Val.members, if_true, Bool.false_eq_true, if_false,
    containersList_eq, containersKVs_eq, List.flatMap_map]

end SpecAlg
end JPV
