/-
Lemmas/PegEquivCS — code-point sets (`CS`) of Peg/Equiv: the emptiness test on the interval end points is sound.
-/
import JPV.Peg.Equiv
namespace JPV.Peg
namespace CS

/-- among `0 :: L` there is a largest element below `c` -/
theorem exists_floor (L : List Nat) (c : Nat) :
    ∃ c', c' ∈ 0 :: L ∧ c' ≤ c ∧ ∀ x ∈ L, x ≤ c → x ≤ c' := by
  induction L with
  | nil => exact ⟨0, by simp, Nat.zero_le _, by simp⟩
  | cons y L ih =>
    obtain ⟨c', hmem, hle, hmax⟩ := ih
    by_cases hy : y ≤ c
    · by_cases hyc : y ≤ c'
      · refine ⟨c', ?_, hle, ?_⟩
        · simp only [List.mem_cons] at hmem ⊢
          cases hmem with
          | inl h => exact Or.inl h
          | inr h => exact Or.inr (Or.inr h)
        · intro x hx hxc
          simp only [List.mem_cons] at hx
          cases hx with
          | inl h => subst h; exact hyc
          | inr h => exact hmax x h hxc
      · refine ⟨y, by simp, hy, ?_⟩
        intro x hx hxc
        simp only [List.mem_cons] at hx
        cases hx with
        | inl h => subst h; exact Nat.le_refl _
        | inr h => have := hmax x h hxc; omega
    · refine ⟨c', ?_, hle, ?_⟩
      · simp only [List.mem_cons] at hmem ⊢
        cases hmem with
        | inl h => exact Or.inl h
        | inr h => exact Or.inr (Or.inr h)
      · intro x hx hxc
        simp only [List.mem_cons] at hx
        cases hx with
        | inl h => subst h; exact absurd hxc hy
        | inr h => exact hmax x h hxc

/-- membership does not change between a point and the largest change point below it -/
theorem mem_congr (s : CS) (c c' : Nat) (hle : c' ≤ c) (hmax : ∀ x ∈ s.pts, x ≤ c → x ≤ c') :
    s.mem c = s.mem c' := by
  induction s with
  | none => rfl
  | all => rfl
  | rng lo hi =>
    simp only [pts, List.mem_cons, List.mem_nil_iff, or_false] at hmax
    have h1 := hmax lo (Or.inl rfl)
    have h2 := hmax (hi + 1) (Or.inr rfl)
    rw [Bool.eq_iff_iff]
    simp only [mem, Bool.and_eq_true, Nat.ble_eq]
    omega
  | union a b iha ihb =>
    simp only [pts, List.mem_append] at hmax
    simp only [mem, iha (fun x hx => hmax x (Or.inl hx)), ihb (fun x hx => hmax x (Or.inr hx))]
  | inter a b iha ihb =>
    simp only [pts, List.mem_append] at hmax
    simp only [mem, iha (fun x hx => hmax x (Or.inl hx)), ihb (fun x hx => hmax x (Or.inr hx))]
  | diff a b iha ihb =>
    simp only [pts, List.mem_append] at hmax
    simp only [mem, iha (fun x hx => hmax x (Or.inl hx)), ihb (fun x hx => hmax x (Or.inr hx))]

theorem isEmpty_sound {s : CS} (h : s.isEmpty = true) (c : Nat) : s.mem c = false := by
  obtain ⟨c', hmem, hle, hmax⟩ := exists_floor s.pts c
  rw [mem_congr s c c' hle hmax]
  simp only [isEmpty, List.all_eq_true] at h
  have := h c' hmem
  simpa using this

theorem mem_ofRanges (c : Char) (rs : List (Char × Char)) : (ofRanges rs).mem c.toNat = inRanges c rs := by
  induction rs with
  | nil => rfl
  | cons r rest ih =>
    obtain ⟨lo, hi⟩ := r
    simp only [ofRanges, mem, inRanges, ih]
    by_cases a1 : lo.toNat ≤ c.toNat <;> by_cases a2 : c.toNat ≤ hi.toNat <;> simp [a1, a2]

end CS
end JPV.Peg
