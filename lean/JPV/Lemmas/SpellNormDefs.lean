/-
SpellNormDefs — trees up to the `omitted` flag of slice STEPS.

For `[1:2:]` (two colons, no step) `Parse` builds the slice with step `⟨1, omitted := true⟩` (the action of
`index` resets the number of an omitted step to 1 and leaves the flag), for `[1:2]` with `⟨1, omitted := false⟩`.
No evaluation function reads that flag (`Impl.subIndexes` reads `t.number`). `normCh` clears it everywhere in a
tree; `normSt` in a state of the action machine (stack, saved frames, root; NOT in the `Item.idx` entries, whose
flag the action of `index` reads).
-/
import JPV.Peg.ParseModel
namespace JPV.SP
open JPV.Peg

def normBound (b : Bound) : Bound := { b with omitted := false }

/-- the `omitted` flag of the step cleared -/
def normSub : SubI → SubI
  | .slicePos s e t => .slicePos s e (normBound t)
  | .sliceNeg s e t => .sliceNeg s e (normBound t)
  | .idx n => .idx n
  | .wild => .wild

mutual
def normN : N → N
  | .root i => .root i
  | .cur i => .cur i
  | .child i k => .child i k
  | .wild i => .wild i
  | .multi i ids t => .multi i ids t
  | .desc i a b => .desc i a b
  | .union i s => .union i (s.map normSub)
  | .filter i q => .filter i (normQ q)
  | .ffn i n => .ffn i n
  | .afn i n p => .afn i n (normCh p)
def normCh : List N → List N
  | [] => []
  | n :: rest => normN n :: normCh rest
def normQ : Q → Q
  | .or a b => .or (normQ a) (normQ b)
  | .and a b => .and (normQ a) (normQ b)
  | .not a => .not (normQ a)
  | .cmp l r c => .cmp (normP l) (normP r) c
  | .exist p => .exist (normP p)
def normP : P → P
  | .lit v => .lit v
  | .proot ch => .proot (normCh ch)
  | .pcur ch => .pcur (normCh ch)
end

def normItem : Item → Item
  | .chain ch => .chain (normCh ch)
  | .sub s => .sub (normSub s)
  | .query q => .query (normQ q)
  | .cp p => .cp (normP p)
  | .str s => .str s
  | .idx b => .idx b
  | .bool b => .bool b
  | .num n => .num n
  | .null => .null

def normSt (st : St) : St :=
  { st with stack := st.stack.map normItem, saved := st.saved.map (fun fr => fr.map normItem),
            root := st.root.map normCh }

/-- a parse outcome with its tree normalised -/
def normOutcome : ParseOutcome → ParseOutcome
  | .ok ch => .ok (normCh ch)
  | o => o

end JPV.SP
