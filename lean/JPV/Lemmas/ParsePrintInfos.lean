/-
ParsePrintInfos — `Build.mkInfos` by recursion over the written elements: the Info of an element
depends only on the elements AFTER it (connected text = its text + the connected text of the next
one; accessor flag = "no aggregate function follows").
-/
import JPV.Build
namespace JPV.PP
open JPV.Build

def preVg : Pre → Bool
  | .node _ vg _ => vg
  | _ => false

/-- no aggregate function among the elements -/
def noAfn (ps : List Pre) : Bool := ps.all (fun p => !p.isAfn)

/-- the connected text of the first element (`""` when there is none) -/
def tailConn (ps : List Pre) : String := (suffixTexts (ps.map Pre.text)).headD ""

/-- `mkInfos cfg true` -/
def infosT (cfg : Cfg) : List Pre → List (Pre × Info)
  | [] => []
  | p :: ps =>
    (p, { text := p.text, conn := p.text ++ tailConn ps, vg := preVg p, acc := cfg.accessor && noAfn ps })
      :: infosT cfg ps

/-- `mkInfos cfg false` -/
def infosF : List Pre → List (Pre × Info)
  | [] => []
  | p :: ps => (p, { text := p.text, conn := "", vg := preVg p, acc := false }) :: infosF ps

theorem suffixTexts_cons' (t : String) (ts : List String) :
    suffixTexts (t :: ts) = (t ++ (suffixTexts ts).headD "") :: suffixTexts ts := by
  simp only [suffixTexts]
  cases suffixTexts ts <;> rfl

theorem tailConn_cons (p : Pre) (ps : List Pre) : tailConn (p :: ps) = p.text ++ tailConn ps := by
  simp only [tailConn, List.map_cons, suffixTexts_cons', List.headD_cons]

theorem tailConn_nil : tailConn [] = "" := rfl

/-! ### the index of the last aggregate -/

def lastFrom (n : Nat) (ps : List Pre) : Option Nat :=
  ((ps.zipIdx n).filter (fun x => x.1.isAfn)).getLast?.map (·.2)

theorem lastAfnIdx_eq (ps : List Pre) : lastAfnIdx ps = lastFrom 0 ps := rfl

theorem lastFrom_nil (n : Nat) : lastFrom n [] = none := rfl

theorem lastFrom_cons (n : Nat) (p : Pre) (ps : List Pre) :
    lastFrom n (p :: ps) =
      match lastFrom (n + 1) ps with
      | some j => some j
      | none => if p.isAfn then some n else none := by
  unfold lastFrom
  rw [List.zipIdx_cons, List.filter_cons]
  cases hp : p.isAfn with
  | true =>
    simp only [if_true, List.getLast?_cons, Option.map_some]
    cases h : (List.filter (fun x => x.1.isAfn) (ps.zipIdx (n + 1))).getLast? with
    | none => simp
    | some y => simp
  | false =>
    simp only [Bool.false_eq_true, if_false]
    cases h : (List.filter (fun x => x.1.isAfn) (ps.zipIdx (n + 1))).getLast? with
    | none => simp
    | some y => simp

theorem noAfn_cons (p : Pre) (ps : List Pre) : noAfn (p :: ps) = (!p.isAfn && noAfn ps) := rfl

theorem lastFrom_none_iff : ∀ (ps : List Pre) (n : Nat), lastFrom n ps = none ↔ noAfn ps = true := by
  intro ps
  induction ps with
  | nil => intro n; simp [lastFrom_nil, noAfn]
  | cons p ps ih =>
    intro n
    rw [lastFrom_cons, noAfn_cons]
    cases h : lastFrom (n + 1) ps with
    | some j =>
      have : noAfn ps ≠ true := fun hn => by rw [(ih (n + 1)).mpr hn] at h; cases h
      simp [this]
    | none =>
      have hn := (ih (n + 1)).mp h
      cases hp : p.isAfn <;> simp [hn]

theorem noAfn_drop (ps : List Pre) (h : noAfn ps = true) (k : Nat) : noAfn (ps.drop k) = true := by
  unfold noAfn at *
  rw [List.all_eq_true] at *
  intro x hx
  exact h x (List.mem_of_mem_drop hx)

/-- the flag of the element at position `i` -/
theorem acc_flag : ∀ (ps : List Pre) (n i : Nat) (p : Pre), ps[i]? = some p →
    (match lastFrom n ps with | some j => decide (n + i ≥ j) | none => true) = noAfn (ps.drop (i + 1)) := by
  intro ps
  induction ps with
  | nil => intro n i p h; simp at h
  | cons q qs ih =>
    intro n i p h
    rw [lastFrom_cons]
    cases i with
    | zero =>
      simp only [List.drop_succ_cons, List.drop_zero, Nat.add_zero]
      cases hl : lastFrom (n + 1) qs with
      | some j =>
        have hne : noAfn qs ≠ true := fun hn => by rw [(lastFrom_none_iff qs (n + 1)).mpr hn] at hl; cases hl
        have hle : n + 1 ≤ j := by
          -- the index of an element of `zipIdx (n+1)` is ≥ n+1
          unfold lastFrom at hl
          cases hg : (List.filter (fun x => x.1.isAfn) (qs.zipIdx (n + 1))).getLast? with
          | none => rw [hg] at hl; cases hl
          | some y =>
            rw [hg] at hl
            simp only [Option.map_some, Option.some.injEq] at hl
            have hm := List.mem_of_getLast? hg
            have := (List.mem_filter.mp hm).1
            obtain ⟨a, b⟩ := y
            have := List.mem_zipIdx this
            simp only at hl
            omega
        have : ¬ (n ≥ j) := by omega
        simp only [this, decide_false]
        cases hx : noAfn qs with
        | true => exact absurd hx hne
        | false => rfl
      | none =>
        have hn := (lastFrom_none_iff qs (n + 1)).mp hl
        cases hp : q.isAfn <;> simp [hn]
    | succ i =>
      simp only [List.getElem?_cons_succ] at h
      have := ih (n + 1) i p h
      simp only [List.drop_succ_cons]
      cases hl : lastFrom (n + 1) qs with
      | some j =>
        rw [hl] at this
        simp only at this ⊢
        rw [← this]
        congr 1
        rw [eq_iff_iff]
        omega
      | none =>
        have hn := (lastFrom_none_iff qs (n + 1)).mp hl
        rw [noAfn_drop qs hn]
        cases hp : q.isAfn
        · simp
        · simp only [if_true, decide_eq_true_eq, ge_iff_le]
          omega

/-! ### `mkInfos` -/

theorem mkInfos_true_aux (cfg : Cfg) (la : Option Nat) : ∀ (ps : List Pre) (n : Nat),
    (∀ i p, ps[i]? = some p →
      (match la with | some j => decide (n + i ≥ j) | none => true) = noAfn (ps.drop (i + 1))) →
    ((ps.zip (suffixTexts (ps.map Pre.text))).zipIdx n).map (fun (x : (Pre × String) × Nat) =>
      (x.1.1, ({ text := x.1.1.text, conn := x.1.2,
                 vg := (match x.1.1 with | .node _ vg _ => vg | _ => false),
                 acc := true && cfg.accessor && (match la with | some j => decide (x.2 ≥ j) | none => true) } : Info)))
      = infosT cfg ps := by
  intro ps
  induction ps with
  | nil => intro n _; rfl
  | cons p ps ih =>
    intro n h
    have h0 := h 0 p rfl
    simp only [Nat.add_zero, List.drop_succ_cons, List.drop_zero] at h0
    simp only [List.map_cons, suffixTexts_cons', List.zip_cons_cons, List.zipIdx_cons, infosT]
    congr 1
    · simp only [h0, Bool.true_and, tailConn]
      cases p <;> rfl
    · apply ih (n + 1)
      intro i q hq
      have := h (i + 1) q (by simpa using hq)
      simp only [List.drop_succ_cons] at this
      rw [← this]
      cases la with
      | none => rfl
      | some j =>
        simp only
        congr 1
        rw [eq_iff_iff]
        omega

theorem mkInfos_true (cfg : Cfg) (pres : List Pre) : mkInfos cfg true pres = infosT cfg pres := by
  unfold mkInfos
  simp only [if_true]
  have := mkInfos_true_aux cfg (lastAfnIdx pres) pres 0 (by
    intro i p h
    rw [lastAfnIdx_eq]
    exact acc_flag pres 0 i p h)
  rw [← this]
  apply List.map_congr_left
  intro x _
  obtain ⟨⟨p, c⟩, idx⟩ := x
  rfl

theorem mkInfos_false_aux : ∀ (ps : List Pre) (n : Nat) (f : Nat → Bool),
    ((ps.zip (ps.map (fun _ => ""))).zipIdx n).map (fun (x : (Pre × String) × Nat) =>
      (x.1.1, ({ text := x.1.1.text, conn := x.1.2,
                 vg := (match x.1.1 with | .node _ vg _ => vg | _ => false),
                 acc := false && f x.2 } : Info)))
      = infosF ps := by
  intro ps
  induction ps with
  | nil => intro n f; rfl
  | cons p ps ih =>
    intro n f
    simp only [List.map_cons, List.zip_cons_cons, List.zipIdx_cons, infosF]
    rw [ih (n + 1) f]
    cases p <;> rfl

theorem mkInfos_false (cfg : Cfg) (pres : List Pre) : mkInfos cfg false pres = infosF pres := by
  unfold mkInfos
  simp only [Bool.false_eq_true, if_false]
  rw [← mkInfos_false_aux pres 0 (fun idx => cfg.accessor && (match lastAfnIdx pres with | some j => decide (idx ≥ j) | none => true))]
  apply List.map_congr_left
  intro x _
  obtain ⟨⟨p, c⟩, idx⟩ := x
  cases p <;> simp

end JPV.PP
