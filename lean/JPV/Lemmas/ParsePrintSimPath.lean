/-
ParsePrintSimPath — from the simulation of the single steps to the simulation of a whole path:
the list of steps, the operand path of a filter (`{38} jsonpathParameter {39}`), and the
`Build` side for paths whose steps may contain filters.
-/
import JPV.Lemmas.ParsePrintSim
import JPV.Lemmas.ParsePrintMainB
namespace JPV.PP
open JPV.Peg JPV.Print JPV.Lex JPV.Build

/-! ### every written step is "nice" -/

theorem bind_ok' {ε α β : Type} {x : Except ε α} {f : α → Except ε β} {b : β}
    (h : (x >>= f) = .ok b) : ∃ a, x = .ok a ∧ f a = .ok b := by
  cases x with
  | error e => cases h
  | ok a => exact ⟨a, rfl, h⟩

/-- a step that is not `..`: one written element -/
theorem stepPre_single (env : Env) (cfg : Cfg) (s : Step) (hnd : ∀ s', s ≠ .desc s') (pres : List Pre)
    (h : stepPre env cfg s = .ok pres) : ∃ t vg mk, pres = [.node t vg mk] ∧ NiceMk mk := by
  cases s with
  | child t k => rw [stepPre] at h; cases h; exact ⟨_, _, _, rfl, niceMk_child k⟩
  | wild t => rw [stepPre] at h; cases h; exact ⟨_, _, _, rfl, niceMk_wild⟩
  | multi t ns => rw [stepPre] at h; cases h; exact ⟨_, _, _, rfl, niceMk_multi ns⟩
  | union t ss => rw [stepPre_union'] at h; cases h; exact ⟨_, _, _, rfl, niceMk_union _⟩
  | filter t q =>
    rw [stepPre] at h
    obtain ⟨q', _, h2⟩ := bind_ok' h
    cases h2
    exact ⟨_, _, _, rfl, niceMk_filter q'⟩
  | desc s' => exact absurd rfl (hnd s')

theorem stepPre_nice (env : Env) (cfg : Cfg) : ∀ (s : Step) (pres : List Pre), stepPre env cfg s = .ok pres →
    pres ≠ [] ∧ ∀ p ∈ pres, NicePre p ∧ isFnPre p = false
  | .desc s, pres, h => by
    rw [BD.stepPre_desc] at h
    obtain ⟨inner, h1, h2⟩ := bind_ok' h
    cases h2
    obtain ⟨_, hin⟩ := stepPre_nice env cfg s inner h1
    refine ⟨by simp, ?_⟩
    intro p hp
    rcases List.mem_cons.mp hp with rfl | hp
    · exact ⟨niceMk_desc _ _, rfl⟩
    · exact hin p hp
  | .child t k, pres, h => by
    obtain ⟨t', vg, mk, rfl, hm⟩ := stepPre_single env cfg _ (by intro s' h; cases h) pres h
    exact ⟨by simp, by intro p hp; simp at hp; subst hp; exact ⟨hm, rfl⟩⟩
  | .wild t, pres, h => by
    obtain ⟨t', vg, mk, rfl, hm⟩ := stepPre_single env cfg _ (by intro s' h; cases h) pres h
    exact ⟨by simp, by intro p hp; simp at hp; subst hp; exact ⟨hm, rfl⟩⟩
  | .multi t ns, pres, h => by
    obtain ⟨t', vg, mk, rfl, hm⟩ := stepPre_single env cfg _ (by intro s' h; cases h) pres h
    exact ⟨by simp, by intro p hp; simp at hp; subst hp; exact ⟨hm, rfl⟩⟩
  | .union t ss, pres, h => by
    obtain ⟨t', vg, mk, rfl, hm⟩ := stepPre_single env cfg _ (by intro s' h; cases h) pres h
    exact ⟨by simp, by intro p hp; simp at hp; subst hp; exact ⟨hm, rfl⟩⟩
  | .filter t q, pres, h => by
    obtain ⟨t', vg, mk, rfl, hm⟩ := stepPre_single env cfg _ (by intro s' h; cases h) pres h
    exact ⟨by simp, by intro p hp; simp at hp; subst hp; exact ⟨hm, rfl⟩⟩

theorem stepsPre_nice (env : Env) (cfg : Cfg) : ∀ (ss : List Step) (sp : List Pre), stepsPre env cfg ss = .ok sp →
    ∀ p ∈ sp, NicePre p ∧ isFnPre p = false
  | [], sp, h => by rw [stepsPre] at h; cases h; simp
  | s :: ss, sp, h => by
    rw [stepsPre] at h
    obtain ⟨a, h1, h2⟩ := bind_ok' h
    obtain ⟨b, h3, h4⟩ := bind_ok' h2
    cases h4
    intro p hp
    rcases List.mem_append.mp hp with hp | hp
    · exact (stepPre_nice env cfg s a h1).2 p hp
    · exact stepsPre_nice env cfg ss b h3 p hp

/-! ### `Build.buildPath`, given the written steps -/

theorem presOK_nodes_fns (sp : List Pre) (fns : List Fn) (h : ∀ p ∈ sp, isFnPre p = false) :
    presOK (sp ++ fns.map fnPreT) = true := by
  induction sp with
  | nil =>
    apply presOK_of_all_fn
    simp only [List.nil_append, List.all_map, List.all_eq_true]
    intro f _; exact fnPreT_isFn f
  | cons q l ih =>
    have hq := h q List.mem_cons_self
    simp only [List.cons_append, presOK, hq, Bool.false_eq_true, if_false]
    exact ih (fun x hx => h x (List.mem_cons_of_mem _ hx))

theorem foundPre_node {env : Env} {p : Pre} (h : isFnPre p = false) : foundPre env p := by
  cases p with
  | node t vg mk => trivial
  | ffn t n => cases h
  | afn t n => cases h

/-- the chain of a path whose functions are all registered, given its written steps -/
theorem buildPath_of_sp (env : Env) (cfg : Cfg) (top a : Bool) (h : Head) (ss : List Step) (fns : List Fn)
    (sp : List Pre) (hsp : stepsPre env cfg (stepsT ss) = .ok sp)
    (hfn : ∀ f ∈ fns, fnFound env f = true) :
    buildPath env cfg top (pathT (.mk h ss fns)) =
      .ok (ccChain top "" (setAccChain (top && cfg.accessor)
        (delRoot (Build.markVg (linkPres a [headRaw a h] (sp ++ fns.map fnPreT)))))) := by
  have hnice := stepsPre_nice env cfg _ sp hsp
  rw [pathT, BD.buildPath_eq, hsp]
  simp only [bind, Except.bind]
  rw [map_fnT_fnPre, mkInfos_eq, List.cons_append, assemble_head env cfg top a h]
  have hall : ∀ p ∈ sp ++ fns.map fnPreT, NicePre p := by
    intro p hp
    rcases List.mem_append.mp hp with hp | hp
    · exact (hnice p hp).1
    · obtain ⟨f, _, rfl⟩ := List.mem_map.mp hp
      cases f <;> trivial
  have hfound : ∀ p ∈ sp ++ fns.map fnPreT, foundPre env p := by
    intro p hp
    rcases List.mem_append.mp hp with hp | hp
    · exact foundPre_node (hnice p hp).2
    · obtain ⟨f, hf, rfl⟩ := List.mem_map.mp hp
      exact fnPreT_found env f (hfn f hf)
  have hpres := presOK_nodes_fns sp fns (fun p hp => (hnice p hp).2)
  have hshape : Shape1 [headRaw a h] := ⟨_, [], rfl, headRaw_isHead a h, headRaw_vg a h⟩
  obtain ⟨hres, hsh⟩ := assemble_link env cfg top a (sp ++ fns.map fnPreT) [headRaw a h] _ hall hfound
    (.inl ⟨hshape, hpres⟩) rfl
  rw [hres]
  simp only
  rw [finish_psi top "" _ _ hsh]

/-- … when `f` is the first function that is not registered -/
theorem buildPath_missing_of_sp (env : Env) (cfg : Cfg) (top : Bool) (h : Head) (ss : List Step) (fs1 : List Fn)
    (f : Fn) (fs2 : List Fn) (sp : List Pre) (hsp : stepsPre env cfg (stepsT ss) = .ok sp)
    (hfn : ∀ g ∈ fs1, fnFound env g = true) (hf : fnFound env f = false) :
    buildPath env cfg top (pathT (.mk h ss (fs1 ++ f :: fs2))) =
      .error (.funcNotFound (String.ofList (fnText f))) := by
  have hnice := stepsPre_nice env cfg _ sp hsp
  rw [pathT, BD.buildPath_eq, hsp]
  simp only [bind, Except.bind]
  rw [map_fnT_fnPre, mkInfos_eq]
  have hsplit : BD.headPreOf h :: sp ++ (fs1 ++ f :: fs2).map fnPreT =
      (BD.headPreOf h :: sp ++ fs1.map fnPreT) ++ fnPreT f :: fs2.map fnPreT := by simp
  rw [hsplit, assemble_missing env cfg top _ (fnPreT f) _ [] ?_ (fnPreT_isFn f) ?_, fnPreT_text]
  · intro p hp
    simp only [List.cons_append, List.mem_cons, List.mem_append, List.mem_map] at hp
    rcases hp with rfl | hp | ⟨g, hg, rfl⟩
    · cases h <;> trivial
    · exact foundPre_node (hnice p hp).2
    · exact fnPreT_found env g (hfn g hg)
  · intro hfound
    cases f with
    | ffn t n =>
      obtain ⟨g, hg⟩ := hfound
      have : env.ffn n = some g := hg
      simp [fnFound, this] at hf
    | afn t n =>
      obtain ⟨g, hg⟩ := hfound
      have : env.afn n = some g := hg
      simp [fnFound, this] at hf

/-- an error in a step is the error of the path -/
theorem buildPath_steps_err (env : Env) (cfg : Cfg) (top : Bool) (h : Head) (ss : List Step) (fns : List Fn)
    (e : ParseErr) (hsp : stepsPre env cfg (stepsT ss) = .error e) :
    buildPath env cfg top (pathT (.mk h ss fns)) = .error e := by
  rw [pathT, BD.buildPath_eq, hsp]
  rfl

/-! ### the steps of a path -/

/-- what the steps of a path leave on the stack: one chain per step; together the raw nodes of the
    written elements -/
def groupItems (a : Bool) (groups : List (List Pre)) : List Item :=
  (groups.map (fun g => Item.chain (g.map (rawOf a)))).reverse

structure StepsSim (c : Ctx) (cfg : Cfg) (p : Nat) (ss : List Step) : Prop where
  ok : ∀ sp, stepsPre c.env cfg (stepsT ss) = .ok sp →
    ∀ (stk : List Item) (sv : List (List Item)) (rt : Option (List N)) (tb te : Nat), stk ≠ [] →
      ∃ groups : List (List Pre), groups.flatten = sp ∧ (∀ g ∈ groups, g ≠ []) ∧
        ∃ tb' te', ∀ rest, execFrom c ⟨stk, sv, rt, tb, te⟩ (tkSteps p ss ++ rest) =
          execFrom c ⟨groupItems c.acc groups ++ stk, sv, rt, tb', te'⟩ rest
  err : ∀ e, stepsPre c.env cfg (stepsT ss) = .error e →
    ∀ (stk : List Item) (sv : List (List Item)) (rt : Option (List N)) (tb te : Nat), stk ≠ [] →
      ∀ rest, execFrom c ⟨stk, sv, rt, tb, te⟩ (tkSteps p ss ++ rest) =
        .error (stopOf (posSteps c.env cfg p ss) e)

theorem stepsSim_of (c : Ctx) (cfg : Cfg) : ∀ (ss : List Step) (p : Nat) (r : List Char),
    (∀ s ∈ ss, StepSim c cfg false s) → Sfx c.input p (steps ss ++ r) → StepsSim c cfg p ss := by
  intro ss
  induction ss with
  | nil =>
    intro p r _ _
    refine ⟨?_, ?_⟩
    · intro sp hsp stk sv rt tb te _
      rw [stepsT, stepsPre] at hsp
      cases hsp
      exact ⟨[], rfl, by simp, tb, te, fun rest => by simp [tkSteps, groupItems]⟩
    · intro e he
      rw [stepsT, stepsPre] at he
      cases he
  | cons s ss ih =>
    intro p r hs hsfx
    simp only [steps, List.append_assoc] at hsfx
    have hs1 := hs s (by simp) p _ hsfx
    have hs2 := ih (p + (Print.step false s).length) r (fun y hy => hs y (by simp [hy])) hsfx.append
    refine ⟨?_, ?_⟩
    · intro sp hsp stk sv rt tb te hstk
      rw [stepsT, stepsPre] at hsp
      obtain ⟨a, h1, h2⟩ := bind_ok' hsp
      obtain ⟨b, h3, h4⟩ := bind_ok' h2
      cases h4
      obtain ⟨tb1, te1, e1⟩ := hs1.ok a h1 stk sv rt tb te hstk
      obtain ⟨groups, hg1, hg2, tb2, te2, e2⟩ := hs2.ok b h3 ([Item.chain (a.map (rawOf c.acc))] ++ stk) sv rt tb1 te1
        (by simp)
      refine ⟨a :: groups, by simp [hg1], ?_, tb2, te2, fun rest => ?_⟩
      · intro g hg
        rcases List.mem_cons.mp hg with rfl | hg
        · exact (stepPre_nice c.env cfg _ _ h1).1
        · exact hg2 g hg
      · simp only [tkSteps, List.append_assoc]
        rw [e1, e2]
        simp [groupItems]
    · intro e he stk sv rt tb te hstk
      rw [stepsT, stepsPre] at he
      cases h1 : stepPre c.env cfg (stepT false s) with
      | error e1 =>
        rw [h1] at he
        cases he
        have e1' := hs1.err _ h1 stk sv rt tb te hstk
        intro rest
        simp only [tkSteps, List.append_assoc]
        rw [posSteps, h1]
        exact e1' _
      | ok a =>
        rw [h1] at he
        cases h3 : stepsPre c.env cfg (stepsT ss) with
        | ok b => rw [h3] at he; cases he
        | error e2 =>
          rw [h3] at he
          cases he
          obtain ⟨tb1, te1, e1⟩ := hs1.ok a h1 stk sv rt tb te hstk
          have e2' := hs2.err _ h3 ([Item.chain (a.map (rawOf c.acc))] ++ stk) sv rt tb1 te1 (by simp)
          intro rest
          simp only [tkSteps, List.append_assoc]
          rw [e1, posSteps, h1]
          exact e2' _

/-! ### `setNodeChain` over the groups -/

theorem nice_raw_plain (a : Bool) (p : Pre) (hp : NicePre p) (hf : isFnPre p = false) : isPlain (rawOf a p) = true := by
  cases p with
  | node t vg mk => exact (hp : NiceMk mk).plain _
  | ffn t n => cases hf
  | afn t n => cases hf

theorem linkAll_groups (a : Bool) : ∀ (groups : List (List Pre)) (root : List N),
    (∀ g ∈ groups, g ≠ [] ∧ ∀ p ∈ g, NicePre p ∧ isFnPre p = false) →
    linkAll root (groups.map (fun g => Item.chain (g.map (rawOf a)))) =
      .ok (root ++ groups.flatten.map (rawOf a)) := by
  intro groups
  induction groups with
  | nil => intro root _; simp [linkAll_nil]
  | cons g groups ih =>
    intro root h
    obtain ⟨hne, hg⟩ := h g (by simp)
    obtain ⟨x, xs, rfl⟩ : ∃ x xs, g = x :: xs := by
      cases g with
      | nil => exact absurd rfl hne
      | cons x xs => exact ⟨x, xs, rfl⟩
    rw [List.map_cons, linkAll_cons, List.map_cons,
      linkOne_plain _ _ _ (nice_raw_plain a x (hg x (by simp)).1 (hg x (by simp)).2)]
    simp only [bind, Except.bind]
    rw [ih _ (fun g' hg' => h g' (List.mem_cons_of_mem _ hg'))]
    simp

/-! ### the innermost head of the linked chain -/

def headKind : Head → HeadKind
  | .root => .root
  | .cur => .cur

theorem innerHeadNode_setVg (n : N) : innerHeadNode n.setVg = innerHeadNode n := by
  cases n <;> simp [N.setVg, innerHeadNode]

theorem innerHead_markVg (l : List N) : innerHead (Build.markVg l) = innerHead l := by
  cases l with
  | nil => rfl
  | cons n rest =>
    rw [markVg_cons]
    split
    · rw [innerHead, innerHead, innerHeadNode_setVg]
    · rfl

theorem innerHeadNode_setAcc (a : Bool) (n : N) : innerHeadNode (nSetAcc a n) = innerHeadNode n := by
  cases n <;> simp [nSetAcc, nMapInfoDeep, nMapInfo, innerHeadNode]

theorem innerHead_setAcc (a : Bool) (l : List N) : innerHead (setAccChain a l) = innerHead l := by
  cases l with
  | nil => rfl
  | cons n rest => simp only [setAccChain, List.map_cons]; rw [innerHead, innerHead, innerHeadNode_setAcc]

theorem innerHead_append (l : List N) (hl : l ≠ []) (y : List N) : innerHead (l ++ y) = innerHead l := by
  cases l with
  | nil => exact absurd rfl hl
  | cons n rest => rw [List.cons_append, innerHead, innerHead]

theorem innerHead_linkPres (a : Bool) : ∀ (ps : List Pre) (L : List N), L ≠ [] →
    innerHead (linkPres a L ps) = innerHead L := by
  intro ps
  induction ps with
  | nil => intro L _; rfl
  | cons p ps ih =>
    intro L hL
    rw [linkPres_cons, ih _ (linkFn_ne_nil a L p hL)]
    cases p with
    | node t vg mk => simp only [linkFn]; exact innerHead_append L hL _
    | ffn t n => simp only [linkFn]; exact innerHead_append L hL _
    | afn t n =>
      simp only [linkFn]
      rw [innerHead, innerHeadNode, innerHead_setAcc, innerHead_markVg]

theorem innerHead_headRaw (a : Bool) (h : Head) : innerHead [headRaw a h] = headKind h := by
  cases h <;> rfl

end JPV.PP
