/-
SpecJnum — decoding invariance (C10): `Val.toJnum` re-decodes every float64 number as a
json.Number. For function-free paths and documents without json.Number the specification
commutes with it.
-/
import JPV.Spec
import JPV.Lemmas.SpecFilter
import JPV.Lemmas.SpecLemmas
namespace JPV

/-! ### the other decoding of a document -/
namespace Val
mutual
/-- the same document decoded with `UseNumber`: every `num n` becomes `jnum n` -/
def toJnum : Val → Val
  | .num n => .jnum n
  | .arr xs => .arr (toJnumList xs)
  | .obj kvs => .obj (toJnumKVs kvs)
  | v => v
def toJnumList : List Val → List Val
  | [] => []
  | x :: xs => toJnum x :: toJnumList xs
def toJnumKVs : List (String × Val) → List (String × Val)
  | [] => []
  | (k, x) :: xs => (k, toJnum x) :: toJnumKVs xs
end

mutual
/-- decoded to float64: no `jnum` anywhere -/
def plainNums : Val → Bool
  | .jnum _ => false
  | .arr xs => plainList xs
  | .obj kvs => plainKVs kvs
  | _ => true
def plainList : List Val → Bool
  | [] => true
  | x :: xs => plainNums x && plainList xs
def plainKVs : List (String × Val) → Bool
  | [] => true
  | (_, x) :: xs => plainNums x && plainKVs xs
end
end Val

namespace SpecJn
open Spec

/-! ### `fnFree`: no function anywhere, also inside filters -/

mutual
def fnFreeStep : Step → Bool
  | .filter _ q => fnFreeQuery q
  | .desc s => fnFreeStep s
  | _ => true
def fnFreeQuery : Query → Bool
  | .or a b => fnFreeQuery a && fnFreeQuery b
  | .and a b => fnFreeQuery a && fnFreeQuery b
  | .exist _ p => fnFreePath p
  | .cmp _ l r => fnFreeOperand l && fnFreeOperand r
  | .regex p _ => fnFreePath p
def fnFreeOperand : Operand → Bool
  | .lit _ => true
  | .path p => fnFreePath p
def fnFreePath : Path → Bool
  | .mk _ steps fns => fns.isEmpty && fnFreeSteps steps
def fnFreeSteps : List Step → Bool
  | [] => true
  | s :: ss => fnFreeStep s && fnFreeSteps ss
end

/-- the name used in the property statements -/
abbrev fnFree (p : Path) : Prop := fnFreePath p = true

/-! ### `toJnum` and the accessors of `Val` -/

theorem toJnumList_eq (xs : List Val) : Val.toJnumList xs = xs.map Val.toJnum := by
  induction xs with
  | nil => rfl
  | cons x xs ih => simp only [Val.toJnumList, List.map_cons, ih]

theorem toJnumKVs_eq (kvs : List (String × Val)) :
    Val.toJnumKVs kvs = kvs.map (fun kv => (kv.1, Val.toJnum kv.2)) := by
  induction kvs with
  | nil => rfl
  | cons x xs ih => obtain ⟨k, v⟩ := x; simp only [Val.toJnumKVs, List.map_cons, ih]

theorem toJnumKVs_keys (kvs : List (String × Val)) : (Val.toJnumKVs kvs).map (·.1) = kvs.map (·.1) := by
  induction kvs with
  | nil => rfl
  | cons x xs ih => obtain ⟨k, v⟩ := x; simp only [Val.toJnumKVs, List.map_cons, ih]

theorem lookup_toJnum (k : String) (kvs : List (String × Val)) :
    Val.lookup k (Val.toJnumKVs kvs) = (Val.lookup k kvs).map Val.toJnum := by
  induction kvs with
  | nil => rfl
  | cons x xs ih =>
    obtain ⟨k', v⟩ := x
    simp only [Val.toJnumKVs, Val.lookup]
    split
    · rfl
    · exact ih

theorem members_toJnum (v : Val) : v.toJnum.members = v.members.map Val.toJnum := by
  cases v <;> simp only [Val.toJnum, Val.members, List.map_nil, toJnumList_eq, toJnumKVs_eq, List.map_map]
  rfl

theorem isContainer_toJnum (v : Val) : v.toJnum.isContainer = v.isContainer := by
  cases v <;> rfl

theorem asNum?_toJnum (v : Val) : v.toJnum.asNum? = v.asNum? := by
  cases v <;> rfl

mutual
theorem containers_toJnum : (v : Val) → v.toJnum.containers = v.containers.map Val.toJnum
  | .arr xs => by
    simp only [Val.toJnum, Val.containers, List.map_cons, containersList_toJnum xs]
  | .obj kvs => by
    simp only [Val.toJnum, Val.containers, List.map_cons, containersKVs_toJnum kvs]
  | .null => rfl
  | .bool _ => rfl
  | .num _ => rfl
  | .jnum _ => rfl
  | .str _ => rfl
  | .opq _ _ => rfl
theorem containersList_toJnum : (xs : List Val) →
    Val.containersList (Val.toJnumList xs) = (Val.containersList xs).map Val.toJnum
  | [] => rfl
  | x :: xs => by
    simp only [Val.toJnumList, Val.containersList, List.map_append, containers_toJnum x, containersList_toJnum xs]
theorem containersKVs_toJnum : (kvs : List (String × Val)) →
    Val.containersKVs (Val.toJnumKVs kvs) = (Val.containersKVs kvs).map Val.toJnum
  | [] => rfl
  | (k, x) :: xs => by
    simp only [Val.toJnumKVs, Val.containersKVs, List.map_append, containers_toJnum x, containersKVs_toJnum xs]
end

-- keys are untouched, so the other decoding of a canonical document is canonical
mutual
theorem wf_toJnum : (v : Val) → v.toJnum.wf = v.wf
  | .arr xs => by simp only [Val.toJnum, Val.wf, wfList_toJnum xs]
  | .obj kvs => by simp only [Val.toJnum, Val.wf, toJnumKVs_keys, wfKVs_toJnum kvs]
  | .null => rfl
  | .bool _ => rfl
  | .num _ => rfl
  | .jnum _ => rfl
  | .str _ => rfl
  | .opq _ _ => rfl
theorem wfList_toJnum : (xs : List Val) → Val.wfList (Val.toJnumList xs) = Val.wfList xs
  | [] => rfl
  | x :: xs => by simp only [Val.toJnumList, Val.wfList, wf_toJnum x, wfList_toJnum xs]
theorem wfKVs_toJnum : (kvs : List (String × Val)) → Val.wfKVs (Val.toJnumKVs kvs) = Val.wfKVs kvs
  | [] => rfl
  | (k, x) :: xs => by simp only [Val.toJnumKVs, Val.wfKVs, wf_toJnum x, wfKVs_toJnum xs]
end

/-! ### comparison by value -/

theorem litEq_toJnum_left (a b : Val) (hb : b.plainNums = true) (hb' : b.isContainer = false) :
    litEq a.toJnum b = litEq a b := by
  cases a <;> cases b <;> simp_all [litEq, Val.toJnum, Val.asNum?, Val.plainNums, Val.isContainer]

theorem litEq_toJnum_lit (a : Val) (l : Lit) : litEq a.toJnum l.toVal = litEq a l.toVal := by
  cases a <;> cases l <;> simp [litEq, Val.toJnum, Val.asNum?, Lit.toVal]

theorem litEq_lit_toJnum (a : Val) (l : Lit) : litEq l.toVal a.toJnum = litEq l.toVal a := by
  rw [SpecFil.litEq_symm, litEq_toJnum_lit, SpecFil.litEq_symm]

theorem litEq_lit_lit (l l' : Lit) : litEq l.toVal l'.toVal = litEq l.toVal l'.toVal := rfl

mutual
/-- structural equality of two values decoded the same way does not depend on the decoding -/
theorem beq_toJnum : (a b : Val) → a.plainNums = true → b.plainNums = true →
    Val.beq a.toJnum b.toJnum = Val.beq a b
  | .arr xs, b, ha, hb => by
    cases b <;> simp only [Val.toJnum, Val.beq]
    exact beqList_toJnum xs _ (by simpa [Val.plainNums] using ha) (by simpa [Val.plainNums] using hb)
  | .obj xs, b, ha, hb => by
    cases b <;> simp only [Val.toJnum, Val.beq]
    exact beqKVs_toJnum xs _ (by simpa [Val.plainNums] using ha) (by simpa [Val.plainNums] using hb)
  | .null, b, _, _ => by cases b <;> simp only [Val.toJnum, Val.beq]
  | .bool _, b, _, _ => by cases b <;> simp only [Val.toJnum, Val.beq]
  | .str _, b, _, _ => by cases b <;> simp only [Val.toJnum, Val.beq]
  | .opq _ _, b, _, _ => by cases b <;> simp only [Val.toJnum, Val.beq]
  | .jnum _, _, ha, _ => by simp [Val.plainNums] at ha
  | .num _, b, _, hb => by
    cases b <;> simp only [Val.toJnum, Val.beq]
    simp [Val.plainNums] at hb
theorem beqList_toJnum : (a b : List Val) → Val.plainList a = true → Val.plainList b = true →
    Val.beqList (Val.toJnumList a) (Val.toJnumList b) = Val.beqList a b
  | [], b, _, _ => by cases b <;> simp only [Val.toJnumList, Val.beqList]
  | x :: xs, b, ha, hb => by
    cases b with
    | nil => simp only [Val.toJnumList, Val.beqList]
    | cons y ys =>
      simp only [Val.plainList, Bool.and_eq_true] at ha hb
      simp only [Val.toJnumList, Val.beqList]
      rw [beq_toJnum x y ha.1 hb.1, beqList_toJnum xs ys ha.2 hb.2]
theorem beqKVs_toJnum : (a b : List (String × Val)) → Val.plainKVs a = true → Val.plainKVs b = true →
    Val.beqKVs (Val.toJnumKVs a) (Val.toJnumKVs b) = Val.beqKVs a b
  | [], b, _, _ => by cases b <;> simp only [Val.toJnumKVs, Val.beqKVs]
  | (k, x) :: xs, b, ha, hb => by
    cases b with
    | nil => simp only [Val.toJnumKVs, Val.beqKVs]
    | cons y ys =>
      obtain ⟨k', y⟩ := y
      simp only [Val.plainKVs, Bool.and_eq_true] at ha hb
      simp only [Val.toJnumKVs, Val.beqKVs]
      rw [beq_toJnum x y ha.1 hb.1, beqKVs_toJnum xs ys ha.2 hb.2]
end

/-! ### everything reached from a plain value is plain -/

theorem plainList_mem {xs : List Val} (h : Val.plainList xs = true) : ∀ x ∈ xs, x.plainNums = true := by
  induction xs with
  | nil => intro x hx; cases hx
  | cons y ys ih =>
    simp only [Val.plainList, Bool.and_eq_true] at h
    intro x hx
    rcases List.mem_cons.mp hx with rfl | hx
    · exact h.1
    · exact ih h.2 x hx

theorem plainKVs_mem {kvs : List (String × Val)} (h : Val.plainKVs kvs = true) :
    ∀ kv ∈ kvs, kv.2.plainNums = true := by
  induction kvs with
  | nil => intro x hx; cases hx
  | cons y ys ih =>
    obtain ⟨k, v⟩ := y
    simp only [Val.plainKVs, Bool.and_eq_true] at h
    intro x hx
    rcases List.mem_cons.mp hx with rfl | hx
    · exact h.1
    · exact ih h.2 x hx

theorem plain_lookup {k : String} {kvs : List (String × Val)} {v : Val}
    (hp : (Val.obj kvs).plainNums = true) (h : Val.lookup k kvs = some v) : v.plainNums = true := by
  obtain ⟨k', hk⟩ := ValWf.lookup_mem h
  exact plainKVs_mem (by simpa [Val.plainNums] using hp) (k', v) hk

theorem plain_members {v : Val} (hp : v.plainNums = true) : ∀ m ∈ v.members, m.plainNums = true := by
  cases v with
  | arr xs =>
    have h : Val.plainList xs = true := by simpa [Val.plainNums] using hp
    exact plainList_mem h
  | obj kvs =>
    intro m hm
    obtain ⟨kv, hkv, rfl⟩ := List.mem_map.mp hm
    exact plainKVs_mem (by simpa [Val.plainNums] using hp) kv hkv
  | _ => intro m hm; simp [Val.members] at hm

mutual
theorem plain_containers : (v : Val) → v.plainNums = true → ∀ c ∈ v.containers, c.plainNums = true
  | .arr xs, hp, c, hc => by
    simp only [Val.containers, List.mem_cons] at hc
    rcases hc with rfl | hc
    · exact hp
    · exact plain_containersList xs (by simpa [Val.plainNums] using hp) c hc
  | .obj kvs, hp, c, hc => by
    simp only [Val.containers, List.mem_cons] at hc
    rcases hc with rfl | hc
    · exact hp
    · exact plain_containersKVs kvs (by simpa [Val.plainNums] using hp) c hc
  | .null, _, c, hc => by simp [Val.containers] at hc
  | .bool _, _, c, hc => by simp [Val.containers] at hc
  | .num _, _, c, hc => by simp [Val.containers] at hc
  | .jnum _, _, c, hc => by simp [Val.containers] at hc
  | .str _, _, c, hc => by simp [Val.containers] at hc
  | .opq _ _, _, c, hc => by simp [Val.containers] at hc
theorem plain_containersList : (xs : List Val) → Val.plainList xs = true →
    ∀ c ∈ Val.containersList xs, c.plainNums = true
  | [], _, c, hc => by simp [Val.containersList] at hc
  | x :: xs, hp, c, hc => by
    simp only [Val.plainList, Bool.and_eq_true] at hp
    simp only [Val.containersList, List.mem_append] at hc
    rcases hc with hc | hc
    · exact plain_containers x hp.1 c hc
    · exact plain_containersList xs hp.2 c hc
theorem plain_containersKVs : (kvs : List (String × Val)) → Val.plainKVs kvs = true →
    ∀ c ∈ Val.containersKVs kvs, c.plainNums = true
  | [], _, c, hc => by simp [Val.containersKVs] at hc
  | (_, x) :: xs, hp, c, hc => by
    simp only [Val.plainKVs, Bool.and_eq_true] at hp
    simp only [Val.containersKVs, List.mem_append] at hc
    rcases hc with hc | hc
    · exact plain_containers x hp.1 c hc
    · exact plain_containersKVs xs hp.2 c hc
end

theorem selName_plain {kvs : List (String × Val)} (hp : (Val.obj kvs).plainNums = true) (n : Name) :
    ∀ v ∈ selName kvs n, v.plainNums = true := by
  intro v hv
  cases n with
  | key k =>
    simp only [selName, Option.mem_toList] at hv
    exact plain_lookup hp hv
  | wild => exact plain_members hp v hv

/-- everything a step selects from a plain value is plain -/
theorem sel_plain (env : Env) (root : Val) : (s : Step) → (cur : Val) → cur.plainNums = true →
    ∀ v ∈ sel env s root cur, v.plainNums = true
  | .child t k, cur, hp, v, hv => by
    cases cur <;> simp only [sel, List.not_mem_nil] at hv
    simp only [Option.mem_toList] at hv
    exact plain_lookup hp hv
  | .wild t, cur, hp, v, hv => by
    simp only [sel] at hv
    exact plain_members hp v hv
  | .multi t ns, cur, hp, v, hv => by
    cases cur <;> simp only [sel, List.not_mem_nil] at hv
    · rename_i xs
      split at hv
      · obtain ⟨_, _, h⟩ := List.mem_flatMap.mp hv
        exact plain_members (v := .arr xs) hp v h
      · cases hv
    · rename_i kvs
      obtain ⟨n, _, h⟩ := List.mem_flatMap.mp hv
      exact selName_plain hp n v h
  | .union t ss, cur, hp, v, hv => by
    cases cur <;> simp only [sel, List.not_mem_nil] at hv
    rename_i xs
    obtain ⟨s, _, h⟩ := List.mem_flatMap.mp hv
    obtain ⟨i, _, h⟩ := List.mem_flatMap.mp h
    simp only [atIdx, Option.mem_toList] at h
    exact plain_members (v := .arr xs) hp v (List.mem_of_getElem? h)
  | .filter t q, cur, hp, v, hv => by
    simp only [sel] at hv
    split at hv
    · exact plain_members hp v (BD.keep_sub _ _ v hv)
    · cases hv
  | .desc s, cur, hp, v, hv => by
    simp only [sel] at hv
    obtain ⟨c, hc, h⟩ := List.mem_flatMap.mp hv
    exact sel_plain env root s c (plain_containers cur hp c hc) v h

theorem evalSteps_plain (env : Env) (root : Val) (steps : List Step) :
    ∀ vs, (∀ v ∈ vs, v.plainNums = true) → ∀ w ∈ evalSteps env steps root vs, w.plainNums = true := by
  induction steps with
  | nil => intro vs h w hw; exact h w (by simpa [evalSteps] using hw)
  | cons s ss ih =>
    intro vs h w hw
    simp only [evalSteps] at hw
    refine ih _ ?_ w hw
    intro v hv
    obtain ⟨c, hc, hv⟩ := List.mem_flatMap.mp hv
    exact sel_plain env root s c (h c hc) v hv

end SpecJn
end JPV
