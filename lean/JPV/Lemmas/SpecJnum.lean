/-
SpecJnum — decoding invariance (C10): `Val.toJnum` re-decodes every float64 number as a
json.Number. For function-free paths and documents without json.Number the specification
commutes with it.
-/
import JPV.Spec
import JPV.Lemmas.SpecFilter
import JPV.Lemmas.SpecLemmas
namespace JPV

/-! ### the other decoding of a document -/
namespace Val
mutual
/-- the same document decoded with `UseNumber`: every `num n` becomes `jnum n` -/
def toJnum : Val → Val
  | .num n => .jnum n
  | .arr xs => .arr (toJnumList xs)
  | .obj kvs => .obj (toJnumKVs kvs)
  | v => v
def toJnumList : List Val → List Val
  | [] => []
  | x :: xs => toJnum x :: toJnumList xs
def toJnumKVs : List (String × Val) → List (String × Val)
  | [] => []
  | (k, x) :: xs => (k, toJnum x) :: toJnumKVs xs
end

mutual
/-- decoded to float64: no `jnum` anywhere -/
def plainNums : Val → Bool
  | .jnum _ => false
  | .arr xs => plainList xs
  | .obj kvs => plainKVs kvs
  | _ => true
def plainList : List Val → Bool
  | [] => true
  | x :: xs => plainNums x && plainList xs
def plainKVs : List (String × Val) → Bool
  | [] => true
  | (_, x) :: xs => plainNums x && plainKVs xs
end
end Val

namespace SpecJn
open Spec

/-! ### `fnFree`: no function anywhere, also inside filters -/

mutual
def fnFreeStep : Step → Bool
  | .filter _ q => fnFreeQuery q
  | .desc s => fnFreeStep s
  | _ => true
def fnFreeQuery : Query → Bool
  | .or a b => fnFreeQuery a && fnFreeQuery b
  | .and a b => fnFreeQuery a && fnFreeQuery b
  | .exist _ p => fnFreePath p
  | .cmp _ l r => fnFreeOperand l && fnFreeOperand r
  | .regex p _ => fnFreePath p
def fnFreeOperand : Operand → Bool
  | .lit _ => true
  | .path p => fnFreePath p
def fnFreePath : Path → Bool
  | .mk _ steps fns => fns.isEmpty && fnFreeSteps steps
def fnFreeSteps : List Step → Bool
  | [] => true
  | s :: ss => fnFreeStep s && fnFreeSteps ss
end

/-- the name used in the property statements -/
abbrev fnFree (p : Path) : Prop := fnFreePath p = true

/-! ### `toJnum` and the accessors of `Val` -/

theorem toJnumList_eq (xs : List Val) : Val.toJnumList xs = xs.map Val.toJnum := by
  induction xs with
  | nil => rfl
  | cons x xs ih => simp only [Val.toJnumList, List.map_cons, ih]

theorem toJnumKVs_eq (kvs : List (String × Val)) :
    Val.toJnumKVs kvs = kvs.map (fun kv => (kv.1, Val.toJnum kv.2)) := by
  induction kvs with
  | nil => rfl
  | cons x xs ih => obtain ⟨k, v⟩ := x; simp only [Val.toJnumKVs, List.map_cons, ih]

theorem toJnumKVs_keys (kvs : List (String × Val)) : (Val.toJnumKVs kvs).map (·.1) = kvs.map (·.1) := by
  induction kvs with
  | nil => rfl
  | cons x xs ih => obtain ⟨k, v⟩ := x; simp only [Val.toJnumKVs, List.map_cons, ih]

theorem lookup_toJnum (k : String) (kvs : List (String × Val)) :
    Val.lookup k (Val.toJnumKVs kvs) = (Val.lookup k kvs).map Val.toJnum := by
  induction kvs with
  | nil => rfl
  | cons x xs ih =>
    obtain ⟨k', v⟩ := x
    simp only [Val.toJnumKVs, Val.lookup]
    split
    · rfl
    · exact ih

theorem members_toJnum (v : Val) : v.toJnum.members = v.members.map Val.toJnum := by
  cases v <;> simp only [Val.toJnum, Val.members, List.map_nil, toJnumList_eq, toJnumKVs_eq, List.map_map]
  rfl

theorem isContainer_toJnum (v : Val) : v.toJnum.isContainer = v.isContainer := by
  cases v <;> rfl

theorem asNum?_toJnum (v : Val) : v.toJnum.asNum? = v.asNum? := by
  cases v <;> rfl

mutual
theorem containers_toJnum : (v : Val) → v.toJnum.containers = v.containers.map Val.toJnum
  | .arr xs => by
    simp only [Val.toJnum, Val.containers, List.map_cons, containersList_toJnum xs]
  | .obj kvs => by
    simp only [Val.toJnum, Val.containers, List.map_cons, containersKVs_toJnum kvs]
  | .null => rfl
  | .bool _ => rfl
  | .num _ => rfl
  | .jnum _ => rfl
  | .str _ => rfl
  | .opq _ _ => rfl
theorem containersList_toJnum : (xs : List Val) →
    Val.containersList (Val.toJnumList xs) = (Val.containersList xs).map Val.toJnum
  | [] => rfl
  | x :: xs => by
    simp only [Val.toJnumList, Val.containersList, List.map_append, containers_toJnum x, containersList_toJnum xs]
theorem containersKVs_toJnum : (kvs : List (String × Val)) →
    Val.containersKVs (Val.toJnumKVs kvs) = (Val.containersKVs kvs).map Val.toJnum
  | [] => rfl
  | (k, x) :: xs => by
    simp only [Val.toJnumKVs, Val.containersKVs, List.map_append, containers_toJnum x, containersKVs_toJnum xs]
end

-- keys are untouched, so the other decoding of a canonical document is canonical
mutual
theorem wf_toJnum : (v : Val) → v.toJnum.wf = v.wf
  | .arr xs => by simp only [Val.toJnum, Val.wf, wfList_toJnum xs]
  | .obj kvs => by simp only [Val.toJnum, Val.wf, toJnumKVs_keys, wfKVs_toJnum kvs]
  | .null => rfl
  | .bool _ => rfl
  | .num _ => rfl
  | .jnum _ => rfl
  | .str _ => rfl
  | .opq _ _ => rfl
theorem wfList_toJnum : (xs : List Val) → Val.wfList (Val.toJnumList xs) = Val.wfList xs
  | [] => rfl
  | x :: xs => by simp only [Val.toJnumList, Val.wfList, wf_toJnum x, wfList_toJnum xs]
theorem wfKVs_toJnum : (kvs : List (String × Val)) → Val.wfKVs (Val.toJnumKVs kvs) = Val.wfKVs kvs
  | [] => rfl
  | (k, x) :: xs => by simp only [Val.toJnumKVs, Val.wfKVs, wf_toJnum x, wfKVs_toJnum xs]
end

/-! ### comparison by value -/

theorem litEq_toJnum_left (a b : Val) (hb : b.plainNums = true) (hb' : b.isContainer = false) :
    litEq a.toJnum b = litEq a b := by
  cases a <;> cases b <;> simp_all [litEq, Val.toJnum, Val.asNum?, Val.plainNums, Val.isContainer]

theorem litEq_toJnum_lit (a : Val) (l : Lit) : litEq a.toJnum l.toVal = litEq a l.toVal := by
  cases a <;> cases l <;> simp [litEq, Val.toJnum, Val.asNum?, Lit.toVal]

theorem litEq_lit_toJnum (a : Val) (l : Lit) : litEq l.toVal a.toJnum = litEq l.toVal a := by
  rw [SpecFil.litEq_symm, litEq_toJnum_lit, SpecFil.litEq_symm]

theorem litEq_lit_lit (l l' : Lit) : litEq l.toVal l'.toVal = litEq l.toVal l'.toVal := rfl

mutual
/-- structural equality of two values decoded the same way does not depend on the decoding -/
theorem beq_toJnum : (a b : Val) → a.plainNums = true → b.plainNums = true →
    Val.beq a.toJnum b.toJnum = Val.beq a b
  | .arr xs, b, ha, hb => by
    cases b <;> simp only [Val.toJnum, Val.beq]
    exact beqList_toJnum xs _ (by simpa [Val.plainNums] using ha) (by simpa [Val.plainNums] using hb)
  | .obj xs, b, ha, hb => by
    cases b <;> simp only [Val.toJnum, Val.beq]
    exact beqKVs_toJnum xs _ (by simpa [Val.plainNums] using ha) (by simpa [Val.plainNums] using hb)
  | .null, b, _, _ => by cases b <;> simp only [Val.toJnum, Val.beq]
  | .bool _, b, _, _ => by cases b <;> simp only [Val.toJnum, Val.beq]
  | .str _, b, _, _ => by cases b <;> simp only [Val.toJnum, Val.beq]
  | .opq _ _, b, _, _ => by cases b <;> simp only [Val.toJnum, Val.beq]
  | .jnum _, _, ha, _ => by simp [Val.plainNums] at ha
  | .num _, b, _, hb => by
    cases b <;> simp only [Val.toJnum, Val.beq]
    simp [Val.plainNums] at hb
theorem beqList_toJnum : (a b : List Val) → Val.plainList a = true → Val.plainList b = true →
    Val.beqList (Val.toJnumList a) (Val.toJnumList b) = Val.beqList a b
  | [], b, _, _ => by cases b <;> simp only [Val.toJnumList, Val.beqList]
  | x :: xs, b, ha, hb => by
    cases b with
    | nil => simp only [Val.toJnumList, Val.beqList]
    | cons y ys =>
      simp only [Val.plainList, Bool.and_eq_true] at ha hb
      simp only [Val.toJnumList, Val.beqList]
      rw [beq_toJnum x y ha.1 hb.1, beqList_toJnum xs ys ha.2 hb.2]
theorem beqKVs_toJnum : (a b : List (String × Val)) → Val.plainKVs a = true → Val.plainKVs b = true →
    Val.beqKVs (Val.toJnumKVs a) (Val.toJnumKVs b) = Val.beqKVs a b
  | [], b, _, _ => by cases b <;> simp only [Val.toJnumKVs, Val.beqKVs]
  | (k, x) :: xs, b, ha, hb => by
    cases b with
    | nil => simp only [Val.toJnumKVs, Val.beqKVs]
    | cons y ys =>
      obtain ⟨k', y⟩ := y
      simp only [Val.plainKVs, Bool.and_eq_true] at ha hb
      simp only [Val.toJnumKVs, Val.beqKVs]
      rw [beq_toJnum x y ha.1 hb.1, beqKVs_toJnum xs ys ha.2 hb.2]
end

/-! ### everything reached from a plain value is plain -/

theorem plainList_mem {xs : List Val} (h : Val.plainList xs = true) : ∀ x ∈ xs, x.plainNums = true := by
  induction xs with
  | nil => intro x hx; cases hx
  | cons y ys ih =>
    simp only [Val.plainList, Bool.and_eq_true] at h
    intro x hx
    rcases List.mem_cons.mp hx with rfl | hx
    · exact h.1
    · exact ih h.2 x hx

theorem plainKVs_mem {kvs : List (String × Val)} (h : Val.plainKVs kvs = true) :
    ∀ kv ∈ kvs, kv.2.plainNums = true := by
  induction kvs with
  | nil => intro x hx; cases hx
  | cons y ys ih =>
    obtain ⟨k, v⟩ := y
    simp only [Val.plainKVs, Bool.and_eq_true] at h
    intro x hx
    rcases List.mem_cons.mp hx with rfl | hx
    · exact h.1
    · exact ih h.2 x hx

theorem plain_lookup {k : String} {kvs : List (String × Val)} {v : Val}
    (hp : (Val.obj kvs).plainNums = true) (h : Val.lookup k kvs = some v) : v.plainNums = true := by
  obtain ⟨k', hk⟩ := ValWf.lookup_mem h
  exact plainKVs_mem (by simpa [Val.plainNums] using hp) (k', v) hk

theorem plain_members {v : Val} (hp : v.plainNums = true) : ∀ m ∈ v.members, m.plainNums = true := by
  cases v with
  | arr xs =>
    have h : Val.plainList xs = true := by simpa [Val.plainNums] using hp
    exact plainList_mem h
  | obj kvs =>
    intro m hm
    obtain ⟨kv, hkv, rfl⟩ := List.mem_map.mp hm
    exact plainKVs_mem (by simpa [Val.plainNums] using hp) kv hkv
  | _ => intro m hm; simp [Val.members] at hm

mutual
theorem plain_containers : (v : Val) → v.plainNums = true → ∀ c ∈ v.containers, c.plainNums = true
  | .arr xs, hp, c, hc => by
    simp only [Val.containers, List.mem_cons] at hc
    rcases hc with rfl | hc
    · exact hp
    · exact plain_containersList xs (by simpa [Val.plainNums] using hp) c hc
  | .obj kvs, hp, c, hc => by
    simp only [Val.containers, List.mem_cons] at hc
    rcases hc with rfl | hc
    · exact hp
    · exact plain_containersKVs kvs (by simpa [Val.plainNums] using hp) c hc
  | .null, _, c, hc => by simp [Val.containers] at hc
  | .bool _, _, c, hc => by simp [Val.containers] at hc
  | .num _, _, c, hc => by simp [Val.containers] at hc
  | .jnum _, _, c, hc => by simp [Val.containers] at hc
  | .str _, _, c, hc => by simp [Val.containers] at hc
  | .opq _ _, _, c, hc => by simp [Val.containers] at hc
theorem plain_containersList : (xs : List Val) → Val.plainList xs = true →
    ∀ c ∈ Val.containersList xs, c.plainNums = true
  | [], _, c, hc => by simp [Val.containersList] at hc
  | x :: xs, hp, c, hc => by
    simp only [Val.plainList, Bool.and_eq_true] at hp
    simp only [Val.containersList, List.mem_append] at hc
    rcases hc with hc | hc
    · exact plain_containers x hp.1 c hc
    · exact plain_containersList xs hp.2 c hc
theorem plain_containersKVs : (kvs : List (String × Val)) → Val.plainKVs kvs = true →
    ∀ c ∈ Val.containersKVs kvs, c.plainNums = true
  | [], _, c, hc => by simp [Val.containersKVs] at hc
  | (_, x) :: xs, hp, c, hc => by
    simp only [Val.plainKVs, Bool.and_eq_true] at hp
    simp only [Val.containersKVs, List.mem_append] at hc
    rcases hc with hc | hc
    · exact plain_containers x hp.1 c hc
    · exact plain_containersKVs xs hp.2 c hc
end

theorem selName_plain {kvs : List (String × Val)} (hp : (Val.obj kvs).plainNums = true) (n : Name) :
    ∀ v ∈ selName kvs n, v.plainNums = true := by
  intro v hv
  cases n with
  | key k =>
    simp only [selName, Option.mem_toList] at hv
    exact plain_lookup hp hv
  | wild => exact plain_members hp v hv

/-- everything a step selects from a plain value is plain -/
theorem sel_plain (env : Env) (root : Val) : (s : Step) → (cur : Val) → cur.plainNums = true →
    ∀ v ∈ sel env s root cur, v.plainNums = true
  | .child t k, cur, hp, v, hv => by
    cases cur <;> simp only [sel, List.not_mem_nil] at hv
    simp only [Option.mem_toList] at hv
    exact plain_lookup hp hv
  | .wild t, cur, hp, v, hv => by
    simp only [sel] at hv
    exact plain_members hp v hv
  | .multi t ns, cur, hp, v, hv => by
    cases cur <;> simp only [sel, List.not_mem_nil] at hv
    · rename_i xs
      split at hv
      · obtain ⟨_, _, h⟩ := List.mem_flatMap.mp hv
        exact plain_members (v := .arr xs) hp v h
      · cases hv
    · rename_i kvs
      obtain ⟨n, _, h⟩ := List.mem_flatMap.mp hv
      exact selName_plain hp n v h
  | .union t ss, cur, hp, v, hv => by
    cases cur <;> simp only [sel, List.not_mem_nil] at hv
    rename_i xs
    obtain ⟨s, _, h⟩ := List.mem_flatMap.mp hv
    obtain ⟨i, _, h⟩ := List.mem_flatMap.mp h
    simp only [atIdx, Option.mem_toList] at h
    exact plain_members (v := .arr xs) hp v (List.mem_of_getElem? h)
  | .filter t q, cur, hp, v, hv => by
    simp only [sel] at hv
    split at hv
    · exact plain_members hp v (BD.keep_sub _ _ v hv)
    · cases hv
  | .desc s, cur, hp, v, hv => by
    simp only [sel] at hv
    obtain ⟨c, hc, h⟩ := List.mem_flatMap.mp hv
    exact sel_plain env root s c (plain_containers cur hp c hc) v h

theorem evalSteps_plain (env : Env) (root : Val) (steps : List Step) :
    ∀ vs, (∀ v ∈ vs, v.plainNums = true) → ∀ w ∈ evalSteps env steps root vs, w.plainNums = true := by
  induction steps with
  | nil => intro vs h w hw; exact h w (by simpa [evalSteps] using hw)
  | cons s ss ih =>
    intro vs h w hw
    simp only [evalSteps] at hw
    refine ih _ ?_ w hw
    intro v hv
    obtain ⟨c, hc, hv⟩ := List.mem_flatMap.mp hv
    exact sel_plain env root s c (h c hc) v hv

/-! ### one comparison under the other decoding -/

theorem cmpHolds_lit_right (op : CmpOp) (c : Bool) (a : Val) (l : Lit) :
    cmpHolds op true c (some a.toJnum) (some l.toVal) = cmpHolds op true c (some a) (some l.toVal) := by
  cases op <;> simp only [cmpHolds, if_true, litEq_toJnum_lit, asNum?_toJnum]

theorem cmpHolds_lit_left (op : CmpOp) (c : Bool) (a : Val) (l : Lit) :
    cmpHolds op true c (some l.toVal) (some a.toJnum) = cmpHolds op true c (some l.toVal) (some a) := by
  cases op <;> simp only [cmpHolds, if_true, litEq_lit_toJnum, asNum?_toJnum]

theorem cmpHolds_paths (op : CmpOp) (c : Bool) (a b : Val) (ha : a.plainNums = true) (hb : b.plainNums = true) :
    cmpHolds op false c (some a.toJnum) (some b.toJnum) = cmpHolds op false c (some a) (some b) := by
  cases op <;> simp only [cmpHolds, Bool.false_eq_true, if_false, beq_toJnum a b ha hb, asNum?_toJnum]

/-- how the value of an operand changes with the decoding: a literal does not, a path result does -/
def opConv : Operand → Val → Val
  | .lit _ => id
  | .path _ => Val.toJnum

theorem cmpHolds_conv (op : CmpOp) (c : Bool) (l r : Operand) (x y : Option Val)
    (hx : ∀ v, x = some v → v.plainNums = true) (hy : ∀ v, y = some v → v.plainNums = true)
    (hxl : ∀ lit, l = .lit lit → x = some lit.toVal) (hyl : ∀ lit, r = .lit lit → y = some lit.toVal) :
    cmpHolds op (SpecFil.hasLitOf l r) c (x.map (opConv l)) (y.map (opConv r)) =
      cmpHolds op (SpecFil.hasLitOf l r) c x y := by
  cases l with
  | lit ll =>
    cases r with
    | lit lr => simp only [opConv, Option.map_id_fun, id]
    | path pr =>
      rw [hxl ll rfl]
      simp only [SpecFil.hasLitOf, operandIsLit, Bool.true_or, opConv, Option.map_some, id]
      cases y with
      | none => rfl
      | some b => exact cmpHolds_lit_left op c b ll
  | path pl =>
    cases r with
    | lit lr =>
      rw [hyl lr rfl]
      simp only [SpecFil.hasLitOf, operandIsLit, Bool.or_true, opConv, Option.map_some, id]
      cases x with
      | none => rfl
      | some a => exact cmpHolds_lit_right op c a lr
    | path pr =>
      simp only [SpecFil.hasLitOf, operandIsLit, Bool.or_false, opConv]
      cases x with
      | none => cases y <;> cases op <;> rfl
      | some a =>
        cases y with
        | none => cases op <;> rfl
        | some b => exact cmpHolds_paths op c a b (hx a rfl) (hy b rfl)

/-! ### list helpers -/

theorem flatMap_congr_mem {α β : Type} {l : List α} {f g : α → List β} (h : ∀ a ∈ l, f a = g a) :
    l.flatMap f = l.flatMap g := by
  induction l with
  | nil => rfl
  | cons a l ih =>
    simp only [List.flatMap_cons]
    rw [h a List.mem_cons_self, ih (fun b hb => h b (List.mem_cons_of_mem _ hb))]

theorem keep_map (f : Val → Val) : ∀ (ms : List Val) (bs : List Bool), keep (ms.map f) bs = (keep ms bs).map f
  | [], bs => by cases bs <;> rfl
  | m :: ms, [] => rfl
  | m :: ms, b :: bs => by
    simp only [List.map_cons, keep]
    cases b <;> simp only [Bool.false_eq_true, if_false, if_true, List.map_cons, keep_map f ms bs]

theorem all_isNone_map {α β : Type} (l : List (Option α)) (f : α → β) :
    (l.map (Option.map f)).all (·.isNone) = l.all (·.isNone) := by
  simp only [List.all_map]
  congr 1
  funext x
  cases x <;> rfl

theorem firstOf_map (o : Option (List Val)) (f : Val → Val) :
    firstOf (o.map (·.map f)) = (firstOf o).map f := by
  cases o with
  | none => rfl
  | some l => cases l <;> rfl

theorem atIdx_toJnum (xs : List Val) (i : Nat) :
    atIdx (xs.map Val.toJnum) i = (atIdx xs i).map Val.toJnum := by
  simp only [atIdx, List.getElem?_map]
  cases xs[i]? <;> rfl

theorem lit_plain (l : Lit) : l.toVal.plainNums = true := by cases l <;> rfl

theorem firstOf_mem {o : Option (List Val)} {v : Val} (h : firstOf o = some v) : ∃ l, o = some l ∧ v ∈ l := by
  cases o with
  | none => simp [firstOf] at h
  | some l =>
    cases l with
    | nil => simp [firstOf] at h
    | cons a t =>
      simp only [firstOf, Option.some.injEq] at h
      exact ⟨a :: t, rfl, by simp [h]⟩

/-- the value of a function-free operand on a plain member of a plain document is plain -/
theorem operandVal_plain (env : Env) (r : Val) (hr : r.plainNums = true) (o : Operand)
    (ho : fnFreeOperand o = true) (m : Val) (hm : m.plainNums = true) :
    ∀ v, SpecFil.operandVal env o r m = some v → v.plainNums = true := by
  intro v hv
  cases o with
  | lit l =>
    simp only [SpecFil.operandVal, Option.some.injEq] at hv
    subst hv
    exact lit_plain l
  | path p =>
    obtain ⟨hd, steps, fns⟩ := p
    simp only [fnFreeOperand, fnFreePath, Bool.and_eq_true, List.isEmpty_iff] at ho
    obtain ⟨rfl, _⟩ := ho
    simp only [SpecFil.operandVal] at hv
    obtain ⟨l, hl, hvl⟩ := firstOf_mem hv
    simp only [evalPath, applyFns, Option.some.injEq] at hl
    subst hl
    refine evalSteps_plain env r steps _ ?_ v hvl
    intro w hw
    cases hd <;> simp only [List.mem_singleton] at hw <;> subst hw <;> assumption

theorem selName_toJnum (kvs : List (String × Val)) (n : Name) :
    selName (Val.toJnumKVs kvs) n = (selName kvs n).map Val.toJnum := by
  cases n with
  | key k =>
    simp only [selName, lookup_toJnum]
    cases Val.lookup k kvs <;> rfl
  | wild => simp only [selName, toJnumKVs_eq, List.map_map]; rfl

/-! ### the specification commutes with the decoding -/

mutual
theorem sel_toJnum (env : Env) (r : Val) (hr : r.plainNums = true) :
    (s : Step) → fnFreeStep s = true → ∀ cur, cur.plainNums = true →
      sel env s r.toJnum cur.toJnum = (sel env s r cur).map Val.toJnum
  | .child _ k, _, cur, _ => by
    cases cur <;> simp only [Val.toJnum, sel, List.map_nil]
    rw [lookup_toJnum]
    rename_i kvs _
    cases Val.lookup k kvs <;> rfl
  | .wild _, _, cur, _ => by simp only [sel, members_toJnum]
  | .multi _ ns, _, cur, _ => by
    cases cur <;> simp only [Val.toJnum, sel, List.map_nil]
    · split
      · simp only [List.map_flatMap, toJnumList_eq]
      · rfl
    · rename_i kvs _
      simp only [List.map_flatMap]
      exact flatMap_congr_mem (fun n _ => selName_toJnum kvs n)
  | .union _ ss, _, cur, _ => by
    cases cur <;> simp only [Val.toJnum, sel, List.map_nil]
    rename_i xs _
    simp only [List.map_flatMap, toJnumList_eq, List.length_map]
    exact flatMap_congr_mem (fun sub _ => flatMap_congr_mem (fun i _ => atIdx_toJnum xs i))
  | .filter _ q, h, cur, hc => by
    simp only [fnFreeStep] at h
    simp only [sel, isContainer_toJnum, members_toJnum]
    split
    · rw [verdicts_toJnum env r hr q h cur.members (plain_members hc), keep_map]
    · rfl
  | .desc s, h, cur, hc => by
    simp only [fnFreeStep] at h
    simp only [sel, containers_toJnum, List.flatMap_map, List.map_flatMap]
    exact flatMap_congr_mem (fun c hcc => sel_toJnum env r hr s h c (plain_containers cur hc c hcc))

theorem evalSteps_toJnum (env : Env) (r : Val) (hr : r.plainNums = true) :
    (ss : List Step) → fnFreeSteps ss = true → ∀ vs : List Val, (∀ v ∈ vs, v.plainNums = true) →
      evalSteps env ss r.toJnum (vs.map Val.toJnum) = (evalSteps env ss r vs).map Val.toJnum
  | [], _, vs, _ => by simp only [evalSteps]
  | s :: ss, h, vs, hv => by
    simp only [fnFreeSteps, Bool.and_eq_true] at h
    simp only [evalSteps, List.flatMap_map]
    rw [flatMap_congr_mem (fun v hvv => sel_toJnum env r hr s h.1 v (hv v hvv)), ← List.map_flatMap]
    refine evalSteps_toJnum env r hr ss h.2 _ ?_
    intro w hw
    obtain ⟨c, hc, hw⟩ := List.mem_flatMap.mp hw
    exact sel_plain env r s c (hv c hc) w hw

theorem verdicts_toJnum (env : Env) (r : Val) (hr : r.plainNums = true) :
    (q : Query) → fnFreeQuery q = true → ∀ ms : List Val, (∀ m ∈ ms, m.plainNums = true) →
      verdicts env q r.toJnum (ms.map Val.toJnum) = verdicts env q r ms
  | .or a b, h, ms, hm => by
    simp only [fnFreeQuery, Bool.and_eq_true] at h
    simp only [verdicts]
    rw [verdicts_toJnum env r hr a h.1 ms hm, verdicts_toJnum env r hr b h.2 ms hm]
  | .and a b, h, ms, hm => by
    simp only [fnFreeQuery, Bool.and_eq_true] at h
    simp only [verdicts]
    rw [verdicts_toJnum env r hr a h.1 ms hm, verdicts_toJnum env r hr b h.2 ms hm]
  | .exist neg p, h, ms, hm => by
    simp only [fnFreeQuery] at h
    simp only [verdicts, List.map_map]
    refine List.map_congr_left (fun m hmm => ?_)
    simp only [Function.comp_apply]
    rw [evalPath_toJnum env r hr p h m (hm m hmm), firstOf_map]
    cases firstOf (evalPath env p r m) <;> rfl
  | .cmp op l rr, h, ms, hm => by
    simp only [fnFreeQuery, Bool.and_eq_true] at h
    rw [SpecFil.verdicts_cmp_map, SpecFil.verdicts_cmp_map, List.map_map]
    have hc : SpecFil.cornerOf env l rr r.toJnum (ms.map Val.toJnum) = SpecFil.cornerOf env l rr r ms := by
      simp only [SpecFil.cornerOf]
      rw [operandVals_toJnum env r hr l h.1 ms hm, operandVals_toJnum env r hr rr h.2 ms hm,
        all_isNone_map, all_isNone_map]
    rw [hc]
    refine List.map_congr_left (fun m hmm => ?_)
    simp only [Function.comp_apply]
    rw [operandVal_toJnum env r hr l h.1 m (hm m hmm), operandVal_toJnum env r hr rr h.2 m (hm m hmm)]
    exact cmpHolds_conv op _ l rr _ _
      (operandVal_plain env r hr l h.1 m (hm m hmm)) (operandVal_plain env r hr rr h.2 m (hm m hmm))
      (fun lit hl => by subst hl; rfl) (fun lit hl => by subst hl; rfl)
  | .regex p re, h, ms, hm => by
    simp only [fnFreeQuery] at h
    simp only [verdicts, List.map_map]
    refine List.map_congr_left (fun m hmm => ?_)
    simp only [Function.comp_apply]
    rw [evalPath_toJnum env r hr p h m (hm m hmm), firstOf_map]
    cases firstOf (evalPath env p r m) with
    | none => rfl
    | some v => cases v <;> rfl

theorem operandVal_toJnum (env : Env) (r : Val) (hr : r.plainNums = true) :
    (o : Operand) → fnFreeOperand o = true → ∀ m : Val, m.plainNums = true →
      SpecFil.operandVal env o r.toJnum m.toJnum = (SpecFil.operandVal env o r m).map (opConv o)
  | .lit _, _, m, _ => rfl
  | .path p, h, m, hm => by
    simp only [fnFreeOperand] at h
    simp only [SpecFil.operandVal, opConv]
    rw [evalPath_toJnum env r hr p h m hm, firstOf_map]

theorem operandVals_toJnum (env : Env) (r : Val) (hr : r.plainNums = true) :
    (o : Operand) → fnFreeOperand o = true → ∀ ms : List Val, (∀ m ∈ ms, m.plainNums = true) →
      operandVals env o r.toJnum (ms.map Val.toJnum) = (operandVals env o r ms).map (Option.map (opConv o))
  | .lit _, _, ms, _ => by simp only [operandVals, List.map_map]; rfl
  | .path p, h, ms, hm => by
    simp only [fnFreeOperand] at h
    simp only [operandVals, List.map_map, opConv]
    refine List.map_congr_left (fun m hmm => ?_)
    simp only [Function.comp_apply]
    rw [evalPath_toJnum env r hr p h m (hm m hmm), firstOf_map]

theorem evalPath_toJnum (env : Env) (r : Val) (hr : r.plainNums = true) :
    (p : Path) → fnFreePath p = true → ∀ cur : Val, cur.plainNums = true →
      evalPath env p r.toJnum cur.toJnum = (evalPath env p r cur).map (·.map Val.toJnum)
  | .mk hd steps [], h, cur, hc => by
    simp only [fnFreePath, List.isEmpty_nil, Bool.true_and] at h
    simp only [evalPath, applyFns, Option.map_some]
    cases hd
    · exact congrArg some (evalSteps_toJnum env r hr steps h [r] (by simpa using hr))
    · exact congrArg some (evalSteps_toJnum env r hr steps h [cur] (by simpa using hc))
  | .mk _ _ (_ :: _), h, _, _ => by simp [fnFreePath] at h
end

end SpecJn
end JPV
