/-
Soundness of the tag checker, part 2: every action simulates its abstract transfer function.
-/
import JPV.Lemmas.Effects
namespace JPV.Peg

/-- the action pops entries tagged `pops` and pushes entries tagged `pushes`, whatever lies below,
    touching nothing else — or ends with a documented error -/
def LocalOK (i : Nat) (pops pushes : List Tag) : Prop :=
  ∀ (c : Ctx) (st : St) (items X : List Item), Segs pops items → st.stack = items ++ X →
    Post (act c i st) (fun st' => ∃ items', Segs pushes items' ∧ st' = { st with stack := items' ++ X })

theorem lift_local {i : Nat} {pops pushes : List Tag} (hl : LocalOK i pops pushes)
    {c : Ctx} {A : AState} {R S} {st : St} {ks : List Tag}
    (ht : takeTags pops A.known = some ks) (h : Gamma c A R S st) :
    Post (act c i st) (Gamma c { A with known := pushes ++ ks } R S) := by
  obtain ⟨items, X, hst, hseg, hsv, hcap, hroot⟩ := h
  obtain ⟨i1, i2, rfl, h1, h2⟩ := takeTags_sound ht hseg
  refine Post.mono (hl c st i1 (i2 ++ X) h1 (by rw [hst, List.append_assoc])) ?_
  rintro st' ⟨items', hs', rfl⟩
  exact ⟨items' ++ i2, X, by simp, Segs.append hs' h2, hsv, hcap, hroot⟩


theorem segs1 {a : Tag} {items : List Item} (h : Segs [a] items) : TagOK a items := by
  cases h with | cons h1 h2 => cases h2; simpa using h1

theorem segs2 {a b : Tag} {items : List Item} (h : Segs [a, b] items) :
    ∃ i1 i2, items = i1 ++ i2 ∧ TagOK a i1 ∧ TagOK b i2 := by
  cases h with | cons h1 h2 => exact ⟨_, _, rfl, h1, segs1 h2⟩

theorem segs3 {a b d : Tag} {items : List Item} (h : Segs [a, b, d] items) :
    ∃ i1 i2 i3, items = i1 ++ (i2 ++ i3) ∧ TagOK a i1 ∧ TagOK b i2 ∧ TagOK d i3 := by
  cases h with | cons h1 h2 =>
    obtain ⟨i2, i3, rfl, hb, hd⟩ := segs2 h2
    exact ⟨_, _, _, rfl, h1, hb, hd⟩

theorem local1 : LocalOK 1 [] [] := by
  intro c st items X hs hst
  obtain ⟨stack, saved, root, tb, te⟩ := st
  simp only at hst; subst hst
  cases hs
  exact Post.err trivial

theorem local6 : LocalOK 6 [] [.str] := by
  intro c st items X hs hst
  obtain ⟨stack, saved, root, tb, te⟩ := st
  simp only at hst; subst hst
  cases hs
  exact Post.ok ⟨[.str _], Segs.single (.str _), rfl⟩

theorem local8 : LocalOK 8 [] [.nodeP] := by
  intro c st items X hs hst
  obtain ⟨stack, saved, root, tb, te⟩ := st
  simp only at hst; subst hst
  cases hs
  exact Post.ok ⟨[.chain [.root _]], Segs.single (.nodeP _ (by simp [innerHead, innerHeadNode])), rfl⟩

theorem local9 : LocalOK 9 [] [.nodeP] := by
  intro c st items X hs hst
  obtain ⟨stack, saved, root, tb, te⟩ := st
  simp only at hst; subst hst
  cases hs
  exact Post.ok ⟨[.chain [.cur _]], Segs.single (.nodeP _ (by simp [innerHead, innerHeadNode])), rfl⟩

theorem local10 : LocalOK 10 [] [.ident] := by
  intro c st items X hs hst
  obtain ⟨stack, saved, root, tb, te⟩ := st
  simp only at hst; subst hst
  cases hs
  exact Post.ok ⟨[.chain [.child _ _]], Segs.single (.identC _ _), rfl⟩

theorem local12 : LocalOK 12 [] [.ident] := by
  intro c st items X hs hst
  obtain ⟨stack, saved, root, tb, te⟩ := st
  simp only at hst; subst hst
  cases hs
  exact Post.ok ⟨[.chain [.wild _]], Segs.single (.identW _), rfl⟩

theorem local13 : LocalOK 13 [] [.ident] := by
  intro c st items X hs hst
  obtain ⟨stack, saved, root, tb, te⟩ := st
  simp only at hst; subst hst
  cases hs
  show Post (act13 c _) _
  unfold act13
  split
  · exact Post.ok ⟨[.chain [.child _ _]], Segs.single (.identC _ _), rfl⟩
  · exact Post.err trivial

theorem local14 : LocalOK 14 [] [.ident] := by
  intro c st items X hs hst
  obtain ⟨stack, saved, root, tb, te⟩ := st
  simp only at hst; subst hst
  cases hs
  show Post (act14 c _) _
  unfold act14
  split
  · exact Post.ok ⟨[.chain [.child _ _]], Segs.single (.identC _ _), rfl⟩
  · exact Post.err trivial

theorem local18 : LocalOK 18 [] [.subs] := by
  intro c st items X hs hst
  obtain ⟨stack, saved, root, tb, te⟩ := st
  simp only at hst; subst hst
  cases hs
  exact Post.ok ⟨[.sub .wild], Segs.single (.subsS _), rfl⟩

theorem local41 : LocalOK 41 [] [.lit] := by
  intro c st items X hs hst
  obtain ⟨stack, saved, root, tb, te⟩ := st
  simp only at hst; subst hst
  cases hs
  exact Post.ok ⟨[.bool _], Segs.single (.litB _), rfl⟩

theorem local42 : LocalOK 42 [] [.lit] := by
  intro c st items X hs hst
  obtain ⟨stack, saved, root, tb, te⟩ := st
  simp only at hst; subst hst
  cases hs
  exact Post.ok ⟨[.bool _], Segs.single (.litB _), rfl⟩

theorem local43 : LocalOK 43 [] [.lit] := by
  intro c st items X hs hst
  obtain ⟨stack, saved, root, tb, te⟩ := st
  simp only at hst; subst hst
  cases hs
  exact Post.ok ⟨[.str _], Segs.single (.litS _), rfl⟩

theorem local44 : LocalOK 44 [] [.lit] := by
  intro c st items X hs hst
  obtain ⟨stack, saved, root, tb, te⟩ := st
  simp only at hst; subst hst
  cases hs
  exact Post.ok ⟨[.str _], Segs.single (.litS _), rfl⟩

theorem local45 : LocalOK 45 [] [.lit] := by
  intro c st items X hs hst
  obtain ⟨stack, saved, root, tb, te⟩ := st
  simp only at hst; subst hst
  cases hs
  exact Post.ok ⟨[.null], Segs.single .litNull, rfl⟩

theorem local22 : LocalOK 22 [] [.node] := by
  intro c st items X hs hst
  obtain ⟨stack, saved, root, tb, te⟩ := st
  simp only at hst; subst hst
  cases hs
  exact Post.err trivial

theorem local40 : LocalOK 40 [] [.lit] := by
  intro c st items X hs hst
  obtain ⟨stack, saved, root, tb, te⟩ := st
  simp only at hst; subst hst
  cases hs
  show Post (act40 c _) _
  unfold act40
  split
  · exact Post.ok ⟨[.num _], Segs.single (.litN _), rfl⟩
  · exact Post.err trivial
  · exact Post.err trivial

theorem local17 : LocalOK 17 [] [.idx] := by
  intro c st items X hs hst
  obtain ⟨stack, saved, root, tb, te⟩ := st
  simp only at hst; subst hst
  cases hs
  show Post (pushIndexSubscript c _ false _) _
  unfold pushIndexSubscript
  split
  · exact Post.ok ⟨[.idx _], Segs.single (.idx _), rfl⟩
  · exact Post.err trivial

theorem local20 : LocalOK 20 [] [.idx] := by
  intro c st items X hs hst
  obtain ⟨stack, saved, root, tb, te⟩ := st
  simp only at hst; subst hst
  cases hs
  show Post (pushIndexSubscript c _ false _) _
  unfold pushIndexSubscript
  split
  · exact Post.ok ⟨[.idx _], Segs.single (.idx _), rfl⟩
  · exact Post.err trivial

theorem local21 : LocalOK 21 [] [.idx] := by
  intro c st items X hs hst
  obtain ⟨stack, saved, root, tb, te⟩ := st
  simp only at hst; subst hst
  cases hs
  show Post (act21 c _) _
  unfold act21
  split
  all_goals
    unfold pushIndexSubscript
    split
    · exact Post.ok ⟨[.idx _], Segs.single (.idx _), rfl⟩
    · exact Post.err trivial

theorem local3 : LocalOK 3 [.node] [.node] := by
  intro c st items X hs hst
  obtain ⟨stack, saved, root, tb, te⟩ := st
  simp only at hst; subst hst
  have h1 := segs1 hs
  cases h1
  exact Post.ok ⟨[.chain (.desc _ _ _ :: _)], Segs.single (.node _ _), rfl⟩

theorem local5 : LocalOK 5 [.str] [.node] := by
  intro c st items X hs hst
  obtain ⟨stack, saved, root, tb, te⟩ := st
  simp only at hst; subst hst
  have h1 := segs1 hs
  cases h1
  show Post (pushFunction c _ _ _) _
  unfold pushFunction
  split
  · exact Post.ok ⟨[.chain [.ffn _ _]], Segs.single (.node _ _), rfl⟩
  · split
    · exact Post.ok ⟨[.chain [.afn _ _ _]], Segs.single (.node _ _), rfl⟩
    · exact Post.err trivial

theorem local19 : LocalOK 19 [.subs] [.union] := by
  intro c st items X hs hst
  obtain ⟨stack, saved, root, tb, te⟩ := st
  simp only at hst; subst hst
  have h1 := segs1 hs
  cases h1
  · exact Post.ok ⟨[.chain [.union _ _]], Segs.single (.union _ _ _), rfl⟩
  · exact Post.ok ⟨[.chain [.union _ _]], Segs.single (.union _ _ _), rfl⟩

theorem local23 : LocalOK 23 [.query] [.node] := by
  intro c st items X hs hst
  obtain ⟨stack, saved, root, tb, te⟩ := st
  simp only at hst; subst hst
  have h1 := segs1 hs
  cases h1
  exact Post.ok ⟨[.chain [.filter _ _]], Segs.single (.node _ _), rfl⟩

theorem local26 : LocalOK 26 [.query] [.query] := by
  intro c st items X hs hst
  obtain ⟨stack, saved, root, tb, te⟩ := st
  simp only at hst; subst hst
  have h1 := segs1 hs
  cases h1
  rename_i q
  show Post (act26 c _) _
  unfold act26
  simp only [pop, List.singleton_append, bind, Except.bind, push]
  split
  · exact Post.err trivial
  · exact Post.ok ⟨[.query q], Segs.single (.query _), rfl⟩

theorem local34 : LocalOK 34 [.cp] [.query] := by
  intro c st items X hs hst
  obtain ⟨stack, saved, root, tb, te⟩ := st
  simp only at hst; subst hst
  have h1 := segs1 hs
  cases h1
  show Post (act34 c _) _
  unfold act34
  simp only [pop, List.singleton_append, bind, Except.bind, asCP]
  split
  · exact Post.ok ⟨[.query _], Segs.single (.query _), rfl⟩
  · exact Post.err trivial
  · exact Post.err trivial

theorem local35 : LocalOK 35 [.lit] [.cp] := by
  intro c st items X hs hst
  obtain ⟨stack, saved, root, tb, te⟩ := st
  simp only at hst; subst hst
  have h1 := segs1 hs
  cases h1 <;> exact Post.ok ⟨[.cp _], Segs.single (.cp _), rfl⟩

theorem local36 : LocalOK 36 [.lit] [.cp] := by
  intro c st items X hs hst
  obtain ⟨stack, saved, root, tb, te⟩ := st
  simp only at hst; subst hst
  have h1 := segs1 hs
  cases h1 <;> exact Post.ok ⟨[.cp _], Segs.single (.cp _), rfl⟩

theorem local24 : LocalOK 24 [.query, .query] [.query] := by
  intro c st items X hs hst
  obtain ⟨stack, saved, root, tb, te⟩ := st
  simp only at hst; subst hst
  obtain ⟨i1, i2, rfl, h1, h2⟩ := segs2 hs
  cases h1 <;> cases h2
  exact Post.ok ⟨[.query _], Segs.single (.query _), rfl⟩

theorem local25 : LocalOK 25 [.query, .query] [.query] := by
  intro c st items X hs hst
  obtain ⟨stack, saved, root, tb, te⟩ := st
  simp only at hst; subst hst
  obtain ⟨i1, i2, rfl, h1, h2⟩ := segs2 hs
  cases h1 <;> cases h2
  exact Post.ok ⟨[.query _], Segs.single (.query _), rfl⟩

theorem local28 : LocalOK 28 [.cp, .cp] [.query] := by
  intro c st items X hs hst
  obtain ⟨stack, saved, root, tb, te⟩ := st
  simp only at hst; subst hst
  obtain ⟨i1, i2, rfl, h1, h2⟩ := segs2 hs
  cases h1 <;> cases h2
  exact Post.ok ⟨[.query _], Segs.single (.query _), rfl⟩

theorem local29 : LocalOK 29 [.cp, .cp] [.query] := by
  intro c st items X hs hst
  obtain ⟨stack, saved, root, tb, te⟩ := st
  simp only at hst; subst hst
  obtain ⟨i1, i2, rfl, h1, h2⟩ := segs2 hs
  cases h1 <;> cases h2
  exact Post.ok ⟨[.query _], Segs.single (.query _), rfl⟩

theorem local30 : LocalOK 30 [.cp, .cp] [.query] := by
  intro c st items X hs hst
  obtain ⟨stack, saved, root, tb, te⟩ := st
  simp only at hst; subst hst
  obtain ⟨i1, i2, rfl, h1, h2⟩ := segs2 hs
  cases h1 <;> cases h2
  exact Post.ok ⟨[.query _], Segs.single (.query _), rfl⟩

theorem local31 : LocalOK 31 [.cp, .cp] [.query] := by
  intro c st items X hs hst
  obtain ⟨stack, saved, root, tb, te⟩ := st
  simp only at hst; subst hst
  obtain ⟨i1, i2, rfl, h1, h2⟩ := segs2 hs
  cases h1 <;> cases h2
  exact Post.ok ⟨[.query _], Segs.single (.query _), rfl⟩

theorem local32 : LocalOK 32 [.cp, .cp] [.query] := by
  intro c st items X hs hst
  obtain ⟨stack, saved, root, tb, te⟩ := st
  simp only at hst; subst hst
  obtain ⟨i1, i2, rfl, h1, h2⟩ := segs2 hs
  cases h1 <;> cases h2
  exact Post.ok ⟨[.query _], Segs.single (.query _), rfl⟩

theorem local33 : LocalOK 33 [.cp, .cp] [.query] := by
  intro c st items X hs hst
  obtain ⟨stack, saved, root, tb, te⟩ := st
  simp only at hst; subst hst
  obtain ⟨i1, i2, rfl, h1, h2⟩ := segs2 hs
  cases h1 <;> cases h2
  exact Post.ok ⟨[.query _], Segs.single (.query _), rfl⟩

theorem local15 : LocalOK 15 [.union, .union] [.union] := by
  intro c st items X hs hst
  obtain ⟨stack, saved, root, tb, te⟩ := st
  simp only at hst; subst hst
  obtain ⟨i1, i2, rfl, h1, h2⟩ := segs2 hs
  cases h1 <;> cases h2
  exact Post.ok ⟨[.chain (.union _ _ :: _)], Segs.single (.union _ _ _), rfl⟩

theorem local11 : LocalOK 11 [.ident, .idm] [.idm] := by
  intro c st items X hs hst
  obtain ⟨stack, saved, root, tb, te⟩ := st
  simp only at hst; subst hst
  obtain ⟨i1, i2, rfl, h1, h2⟩ := segs2 hs
  cases h1 <;> cases h2
  all_goals exact Post.ok ⟨[.chain (.multi _ _ _ :: _)], Segs.single (.idmM _ _ _ _), rfl⟩

theorem Post.ite {α} {Q : α → Prop} {p : Prop} [Decidable p] {a b : M α}
    (ha : p → Post a Q) (hb : ¬p → Post b Q) : Post (if p then a else b) Q := by
  by_cases h : p
  · rw [if_pos h]; exact ha h
  · rw [if_neg h]; exact hb h

theorem local37 : LocalOK 37 [.jpb] [.cp] := by
  intro c st items X hs hst
  obtain ⟨stack, saved, root, tb, te⟩ := st
  simp only at hst; subst hst
  have h1 := segs1 hs
  cases h1
  all_goals
    show Post (act37 c _) _
    unfold act37
    simp only [pop, List.cons_append, List.nil_append, bind, Except.bind, asBool, asJP]
    refine Post.ite (fun _ => Post.err trivial) (fun _ => ?_)
    refine Post.ite (fun h => ?_) (fun _ => Post.ok ⟨[.cp _], Segs.single (.cp _), rfl⟩)
    simp [isCurP] at h

theorem local16 : LocalOK 16 [.idx, .idx, .idx] [.subs] := by
  intro c st items X hs hst
  obtain ⟨stack, saved, root, tb, te⟩ := st
  simp only at hst; subst hst
  obtain ⟨i1, i2, i3, rfl, h1, h2, h3⟩ := segs3 hs
  cases h1; cases h2; cases h3
  show Post (act16 c _) _
  unfold act16
  simp only [pop, List.cons_append, List.nil_append, bind, Except.bind, asIdx]
  refine Post.ite (fun _ => Post.ok ⟨[.sub _], Segs.single (.subsS _), rfl⟩) (fun _ => Post.ok ⟨[.sub _], Segs.single (.subsS _), rfl⟩)

/-- every entry of `actSig` is justified -/
theorem actSig_local (i : Nat) (pops pushes : List Tag) (h : actSig i = some (pops, pushes)) :
    LocalOK i pops pushes := by
  match i with
  | 0 => simp [actSig] at h
  | 1 => simp only [actSig, Option.some.injEq, Prod.mk.injEq] at h; obtain ⟨rfl, rfl⟩ := h; exact local1
  | 2 => simp [actSig] at h
  | 3 => simp only [actSig, Option.some.injEq, Prod.mk.injEq] at h; obtain ⟨rfl, rfl⟩ := h; exact local3
  | 4 => simp [actSig] at h
  | 5 => simp only [actSig, Option.some.injEq, Prod.mk.injEq] at h; obtain ⟨rfl, rfl⟩ := h; exact local5
  | 6 => simp only [actSig, Option.some.injEq, Prod.mk.injEq] at h; obtain ⟨rfl, rfl⟩ := h; exact local6
  | 7 => simp [actSig] at h
  | 8 => simp only [actSig, Option.some.injEq, Prod.mk.injEq] at h; obtain ⟨rfl, rfl⟩ := h; exact local8
  | 9 => simp only [actSig, Option.some.injEq, Prod.mk.injEq] at h; obtain ⟨rfl, rfl⟩ := h; exact local9
  | 10 => simp only [actSig, Option.some.injEq, Prod.mk.injEq] at h; obtain ⟨rfl, rfl⟩ := h; exact local10
  | 11 => simp only [actSig, Option.some.injEq, Prod.mk.injEq] at h; obtain ⟨rfl, rfl⟩ := h; exact local11
  | 12 => simp only [actSig, Option.some.injEq, Prod.mk.injEq] at h; obtain ⟨rfl, rfl⟩ := h; exact local12
  | 13 => simp only [actSig, Option.some.injEq, Prod.mk.injEq] at h; obtain ⟨rfl, rfl⟩ := h; exact local13
  | 14 => simp only [actSig, Option.some.injEq, Prod.mk.injEq] at h; obtain ⟨rfl, rfl⟩ := h; exact local14
  | 15 => simp only [actSig, Option.some.injEq, Prod.mk.injEq] at h; obtain ⟨rfl, rfl⟩ := h; exact local15
  | 16 => simp only [actSig, Option.some.injEq, Prod.mk.injEq] at h; obtain ⟨rfl, rfl⟩ := h; exact local16
  | 17 => simp only [actSig, Option.some.injEq, Prod.mk.injEq] at h; obtain ⟨rfl, rfl⟩ := h; exact local17
  | 18 => simp only [actSig, Option.some.injEq, Prod.mk.injEq] at h; obtain ⟨rfl, rfl⟩ := h; exact local18
  | 19 => simp only [actSig, Option.some.injEq, Prod.mk.injEq] at h; obtain ⟨rfl, rfl⟩ := h; exact local19
  | 20 => simp only [actSig, Option.some.injEq, Prod.mk.injEq] at h; obtain ⟨rfl, rfl⟩ := h; exact local20
  | 21 => simp only [actSig, Option.some.injEq, Prod.mk.injEq] at h; obtain ⟨rfl, rfl⟩ := h; exact local21
  | 22 => simp only [actSig, Option.some.injEq, Prod.mk.injEq] at h; obtain ⟨rfl, rfl⟩ := h; exact local22
  | 23 => simp only [actSig, Option.some.injEq, Prod.mk.injEq] at h; obtain ⟨rfl, rfl⟩ := h; exact local23
  | 24 => simp only [actSig, Option.some.injEq, Prod.mk.injEq] at h; obtain ⟨rfl, rfl⟩ := h; exact local24
  | 25 => simp only [actSig, Option.some.injEq, Prod.mk.injEq] at h; obtain ⟨rfl, rfl⟩ := h; exact local25
  | 26 => simp only [actSig, Option.some.injEq, Prod.mk.injEq] at h; obtain ⟨rfl, rfl⟩ := h; exact local26
  | 27 => simp [actSig] at h
  | 28 => simp only [actSig, Option.some.injEq, Prod.mk.injEq] at h; obtain ⟨rfl, rfl⟩ := h; exact local28
  | 29 => simp only [actSig, Option.some.injEq, Prod.mk.injEq] at h; obtain ⟨rfl, rfl⟩ := h; exact local29
  | 30 => simp only [actSig, Option.some.injEq, Prod.mk.injEq] at h; obtain ⟨rfl, rfl⟩ := h; exact local30
  | 31 => simp only [actSig, Option.some.injEq, Prod.mk.injEq] at h; obtain ⟨rfl, rfl⟩ := h; exact local31
  | 32 => simp only [actSig, Option.some.injEq, Prod.mk.injEq] at h; obtain ⟨rfl, rfl⟩ := h; exact local32
  | 33 => simp only [actSig, Option.some.injEq, Prod.mk.injEq] at h; obtain ⟨rfl, rfl⟩ := h; exact local33
  | 34 => simp only [actSig, Option.some.injEq, Prod.mk.injEq] at h; obtain ⟨rfl, rfl⟩ := h; exact local34
  | 35 => simp only [actSig, Option.some.injEq, Prod.mk.injEq] at h; obtain ⟨rfl, rfl⟩ := h; exact local35
  | 36 => simp only [actSig, Option.some.injEq, Prod.mk.injEq] at h; obtain ⟨rfl, rfl⟩ := h; exact local36
  | 37 => simp only [actSig, Option.some.injEq, Prod.mk.injEq] at h; obtain ⟨rfl, rfl⟩ := h; exact local37
  | 38 => simp [actSig] at h
  | 39 => simp [actSig] at h
  | 40 => simp only [actSig, Option.some.injEq, Prod.mk.injEq] at h; obtain ⟨rfl, rfl⟩ := h; exact local40
  | 41 => simp only [actSig, Option.some.injEq, Prod.mk.injEq] at h; obtain ⟨rfl, rfl⟩ := h; exact local41
  | 42 => simp only [actSig, Option.some.injEq, Prod.mk.injEq] at h; obtain ⟨rfl, rfl⟩ := h; exact local42
  | 43 => simp only [actSig, Option.some.injEq, Prod.mk.injEq] at h; obtain ⟨rfl, rfl⟩ := h; exact local43
  | 44 => simp only [actSig, Option.some.injEq, Prod.mk.injEq] at h; obtain ⟨rfl, rfl⟩ := h; exact local44
  | 45 => simp only [actSig, Option.some.injEq, Prod.mk.injEq] at h; obtain ⟨rfl, rfl⟩ := h; exact local45
  | _ + 46 => simp [actSig] at h

end JPV.Peg
