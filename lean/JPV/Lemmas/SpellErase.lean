/-
SpellErase — what the three views of a spelled path have to do with each other:

  `Spell.texts a`   the abstract path with the texts the library records for the spelling `a`
  `a.erase`         the abstract path without any text (what `a` is a spelling OF)

  * `strip_texts`  : `C18.stripPath (Spell.texts a) = a.erase` — blanking every text of `texts a` gives `erase a`;
  * `stripS_texts` : two spellings of the same abstract path have `texts` that differ in step texts only
                     (`SP.stripS (texts a) = SP.stripS (texts b)`): function texts `.name()` have no spelling choices.
-/
import JPV.Spell
import JPV.Lemmas.SpellBuild
import JPV.Props.C18
namespace JPV.SP
open JPV.Spell JPV.C18

/-! ### blanking every text of `texts a` gives `erase a` -/

theorem stripFn_fnW (f : Fn) : C18.stripFn (fnW true f) = fnW false f := by cases f <;> rfl

mutual
theorem strip_stepT : (s : SStep) → (ad : Bool) → stripStep (Spell.stepT true ad s) = Spell.stepT false ad s
  | .child f k, ad => by rw [Spell.stepT, Spell.stepT]; rfl
  | .wild f, ad => by rw [Spell.stepT, Spell.stepT]; rfl
  | .multi lb n ns rb, ad => by rw [Spell.stepT, Spell.stepT]; rfl
  | .union lb s ss rb, ad => by rw [Spell.stepT, Spell.stepT]; rfl
  | .filter b0 b1 q b2 b3, ad => by
    rw [Spell.stepT, Spell.stepT, stripStep, strip_queryT q]; rfl
  | .desc s, ad => by rw [Spell.stepT, Spell.stepT, stripStep, strip_stepT s true]
theorem strip_stepsT : (ss : List SStep) → stripSteps (Spell.stepsT true ss) = Spell.stepsT false ss
  | [] => by rw [Spell.stepsT, Spell.stepsT, stripSteps]
  | s :: ss => by rw [Spell.stepsT, Spell.stepsT, stripSteps, strip_stepT s false, strip_stepsT ss]
theorem strip_queryT : (q : SQuery) → stripQuery (Spell.queryT true q) = Spell.queryT false q
  | .or a l r b => by rw [Spell.queryT, Spell.queryT, stripQuery, strip_queryT a, strip_queryT b]
  | .and a l r b => by rw [Spell.queryT, Spell.queryT, stripQuery, strip_queryT a, strip_queryT b]
  | .exist neg p => by rw [Spell.queryT, Spell.queryT, stripQuery, strip_opathT p]
  | .cmp op l bl br r => by rw [Spell.queryT, Spell.queryT, stripQuery, strip_operandT l, strip_operandT r]
  | .regex p bl br re => by rw [Spell.queryT, Spell.queryT, stripQuery, strip_opathT p]
  | .paren l q r => by rw [Spell.queryT, Spell.queryT, strip_queryT q]
theorem strip_operandT : (o : SOperand) → stripOperand (Spell.operandT true o) = Spell.operandT false o
  | .lit l => by rw [Spell.operandT, Spell.operandT, stripOperand]
  | .path p => by rw [Spell.operandT, Spell.operandT, stripOperand, strip_opathT p]
theorem strip_opathT : (p : SOpPath) → stripPath (Spell.opathT true p) = Spell.opathT false p
  | .mk h ss fns => by
    rw [Spell.opathT, Spell.opathT, stripPath, strip_stepsT ss, List.map_map]
    congr 1
    exact List.map_congr_left (fun f _ => stripFn_fnW f)
end

theorem strip_topStepsT (d : Bool) (ss : List SStep) :
    stripSteps (topStepsT true d ss) = topStepsT false d ss := by
  unfold topStepsT
  cases d with
  | true => simp only [if_true]; exact strip_stepsT ss
  | false =>
    simp only [Bool.false_eq_true, if_false]
    cases ss with
    | nil => rfl
    | cons s rest => simp only [stripSteps]; rw [strip_stepT s true, strip_stepsT rest]

/-- blanking every text of `texts a` gives `erase a` -/
theorem strip_texts (a : SPath) : stripPath (Spell.texts a) = a.erase := by
  unfold Spell.texts SPath.erase
  rw [stripPath, strip_topStepsT, List.map_map]
  congr 1
  exact List.map_congr_left (fun f _ => stripFn_fnW f)

/-! ### blanking the STEP texts of `texts a` gives `erase a` with the function texts put back -/

mutual
def reStep : Step → Step
  | .filter t q => .filter t (reQuery q)
  | .desc s => .desc (reStep s)
  | s => s
def reSteps : List Step → List Step
  | [] => []
  | s :: ss => reStep s :: reSteps ss
def reQuery : Query → Query
  | .or a b => .or (reQuery a) (reQuery b)
  | .and a b => .and (reQuery a) (reQuery b)
  | .exist n p => .exist n (rePath p)
  | .cmp op l r => .cmp op (reOperand l) (reOperand r)
  | .regex p re => .regex (rePath p) re
def reOperand : Operand → Operand
  | .lit l => .lit l
  | .path p => .path (rePath p)
/-- every function text set to `.name()` -/
def rePath : Path → Path
  | .mk h ss fns => .mk h (reSteps ss) (fns.map Print.fnT)
end

theorem fnT_fnW (f : Fn) : Print.fnT (fnW false f) = fnW true f := by cases f <;> rfl

mutual
theorem stripS_stepT : (s : SStep) → (ad : Bool) → stripSStep (Spell.stepT true ad s) = reStep (Spell.stepT false ad s)
  | .child f k, ad => by rw [Spell.stepT, Spell.stepT]; rfl
  | .wild f, ad => by rw [Spell.stepT, Spell.stepT]; rfl
  | .multi lb n ns rb, ad => by rw [Spell.stepT, Spell.stepT]; rfl
  | .union lb s ss rb, ad => by rw [Spell.stepT, Spell.stepT]; rfl
  | .filter b0 b1 q b2 b3, ad => by
    rw [Spell.stepT, Spell.stepT, stripSStep, stripS_queryT q]; rfl
  | .desc s, ad => by rw [Spell.stepT, Spell.stepT, stripSStep, stripS_stepT s true, reStep]
theorem stripS_stepsT : (ss : List SStep) → stripSSteps (Spell.stepsT true ss) = reSteps (Spell.stepsT false ss)
  | [] => by rw [Spell.stepsT, Spell.stepsT, stripSSteps, reSteps]
  | s :: ss => by rw [Spell.stepsT, Spell.stepsT, stripSSteps, stripS_stepT s false, stripS_stepsT ss, reSteps]
theorem stripS_queryT : (q : SQuery) → stripSQuery (Spell.queryT true q) = reQuery (Spell.queryT false q)
  | .or a l r b => by rw [Spell.queryT, Spell.queryT, stripSQuery, stripS_queryT a, stripS_queryT b, reQuery]
  | .and a l r b => by rw [Spell.queryT, Spell.queryT, stripSQuery, stripS_queryT a, stripS_queryT b, reQuery]
  | .exist neg p => by rw [Spell.queryT, Spell.queryT, stripSQuery, stripS_opathT p, reQuery]
  | .cmp op l bl br r => by
    rw [Spell.queryT, Spell.queryT, stripSQuery, stripS_operandT l, stripS_operandT r, reQuery]
  | .regex p bl br re => by rw [Spell.queryT, Spell.queryT, stripSQuery, stripS_opathT p, reQuery]
  | .paren l q r => by rw [Spell.queryT, Spell.queryT, stripS_queryT q]
theorem stripS_operandT : (o : SOperand) → stripSOperand (Spell.operandT true o) = reOperand (Spell.operandT false o)
  | .lit l => by rw [Spell.operandT, Spell.operandT, stripSOperand, reOperand]
  | .path p => by rw [Spell.operandT, Spell.operandT, stripSOperand, stripS_opathT p, reOperand]
theorem stripS_opathT : (p : SOpPath) → stripSPath (Spell.opathT true p) = rePath (Spell.opathT false p)
  | .mk h ss fns => by
    rw [Spell.opathT, Spell.opathT, stripSPath, stripS_stepsT ss, rePath, List.map_map]
    congr 1
    exact List.map_congr_left (fun f _ => (fnT_fnW f).symm)
end

theorem stripS_topStepsT (d : Bool) (ss : List SStep) :
    stripSSteps (topStepsT true d ss) = reSteps (topStepsT false d ss) := by
  unfold topStepsT
  cases d with
  | true => simp only [if_true]; exact stripS_stepsT ss
  | false =>
    simp only [Bool.false_eq_true, if_false]
    cases ss with
    | nil => rfl
    | cons s rest => simp only [stripSSteps, reSteps]; rw [stripS_stepT s true, stripS_stepsT rest]

theorem stripS_texts_eq (a : SPath) : stripS (Spell.texts a) = rePath a.erase := by
  unfold Spell.texts SPath.erase stripS
  rw [stripSPath, stripS_topStepsT, rePath, List.map_map]
  congr 1
  exact List.map_congr_left (fun f _ => (fnT_fnW f).symm)

/-- two spellings of the same abstract path: their `texts` differ in step texts only -/
theorem stripS_texts (a b : SPath) (h : a.erase = b.erase) : stripS (Spell.texts a) = stripS (Spell.texts b) := by
  rw [stripS_texts_eq, stripS_texts_eq, h]

end JPV.SP
