/-
ParserTie — the regenerated helpers of `Gen/ParserHelpersGo.lean` on a heap that holds a layout
(`Lemmas/ParserLayout.lean`): what each one does to the layout. Part 1: the node methods
(`setNext` with the multi-name override, `setAccessorMode` with the override, the plain field methods).
-/
import JPV.Lemmas.ParserHeap
import JPV.Gen.ParserHelpersGo
namespace JPV
namespace ParserLayout
open JPV JPV.ParserNode
open JPV.Gen.ParserHelpersGo

/-! ### layouts: addresses do not depend on the tail, chains append -/

theorem ids_cellsS (nx nx' : NRef) (s : LShape) : ids (cellsS nx s) = ids (cellsS nx' s) := by
  cases s <;> try rfl
  case multi L twin =>
    simp only [cellsS, ids_append, ids_innerCells]
    cases twin with
    | none => rfl
    | some t => rfl

theorem ids_cellsN (n : LN) (nx nx' : NRef) : ids (cellsN n nx) = ids (cellsN n nx') := by
  cases n with
  | mk id i s =>
    simp only [cellsN, ids_cons]
    rw [ids_cellsS nx nx']

theorem ids_cellsCh (A : List LN) (tl tl' : NRef) : ids (cellsCh A tl) = ids (cellsCh A tl') := by
  induction A with
  | nil => rfl
  | cons n rest ih =>
    simp only [cellsCh, ids_append]
    rw [ih, ids_cellsN n (headRefD rest tl) (headRefD rest tl')]

theorem cellsS_not_multi (nx nx' : NRef) (s : LShape) (hs : s.kind ≠ .multi) : cellsS nx s = cellsS nx' s := by
  cases s <;> first | rfl | exact absurd rfl hs

theorem cellsCh_append (A B : List LN) (tl : NRef) :
    cellsCh (A ++ B) tl = cellsCh A (headRefD B tl) ++ cellsCh B tl := by
  induction A with
  | nil => rfl
  | cons n rest ih =>
    simp only [List.cons_append, cellsCh, ih, List.append_assoc]
    congr 2
    cases rest <;> rfl

/-! ### field methods on a known cell -/

theorem nodeGetNext_some {h : Heap} {k : Kind} {i : Nat} {c : Cell} (hc : h[i]? = some c) :
    nodeGetNext (some (k, i)) h = .ok c.next := by
  simp only [nodeGetNext, basicGetNext, rd_some hc, bind_ok]

theorem nodeGetText_some {h : Heap} {k : Kind} {i : Nat} {c : Cell} (hc : h[i]? = some c) :
    nodeGetText (some (k, i)) h = .ok c.text := by
  simp only [nodeGetText, basicGetText, rd_some hc, bind_ok]

theorem nodeGetConnectedText_some {h : Heap} {k : Kind} {i : Nat} {c : Cell} (hc : h[i]? = some c) :
    nodeGetConnectedText (some (k, i)) h = .ok c.connectedText := by
  simp only [nodeGetConnectedText, basicGetConnectedText, rd_some hc, bind_ok]

theorem basicGetConnectedText_some {h : Heap} {i : Nat} {c : Cell} (hc : h[i]? = some c) :
    basicGetConnectedText (some i) h = .ok c.connectedText := by
  simp only [basicGetConnectedText, rd_some hc, bind_ok]

theorem nodeIsValueGroup_some {h : Heap} {k : Kind} {i : Nat} {c : Cell} (hc : h[i]? = some c) :
    nodeIsValueGroup (some (k, i)) h = .ok c.valueGroup := by
  simp only [nodeIsValueGroup, basicIsValueGroup, rd_some hc, bind_ok]

theorem basicSetText_some {h : Heap} {i : Nat} {c : Cell} (hc : h[i]? = some c) (t : String) :
    basicSetText (some i) t h = .ok (h.set i { c with text := t }) := by
  simp only [basicSetText, wr_some hc, bind_ok]

theorem nodeSetText_some {h : Heap} {k : Kind} {i : Nat} {c : Cell} (hc : h[i]? = some c) (t : String) :
    nodeSetText (some (k, i)) t h = .ok (h.set i { c with text := t }) := by
  simp only [nodeSetText, basicSetText_some hc]

theorem basicSetConnectedText_some {h : Heap} {i : Nat} {c : Cell} (hc : h[i]? = some c) (t : String) :
    basicSetConnectedText (some i) t h = .ok (h.set i { c with connectedText := t }) := by
  simp only [basicSetConnectedText, wr_some hc, bind_ok]

theorem nodeSetConnectedText_some {h : Heap} {k : Kind} {i : Nat} {c : Cell} (hc : h[i]? = some c) (t : String) :
    nodeSetConnectedText (some (k, i)) t h = .ok (h.set i { c with connectedText := t }) := by
  simp only [nodeSetConnectedText, basicSetConnectedText_some hc]

theorem basicSetValueGroup_some {h : Heap} {i : Nat} {c : Cell} (hc : h[i]? = some c) :
    basicSetValueGroup (some i) h = .ok (h.set i { c with valueGroup := true }) := by
  simp only [basicSetValueGroup, wr_some hc, bind_ok]

theorem nodeSetValueGroup_some {h : Heap} {k : Kind} {i : Nat} {c : Cell} (hc : h[i]? = some c) :
    nodeSetValueGroup (some (k, i)) h = .ok (h.set i { c with valueGroup := true }) := by
  simp only [nodeSetValueGroup, basicSetValueGroup_some hc]

theorem basicSetAccessorMode_some {h : Heap} {i : Nat} {c : Cell} (hc : h[i]? = some c) (m : Bool) :
    basicSetAccessorMode (some i) m h = .ok (h.set i { c with accessorMode := m }) := by
  simp only [basicSetAccessorMode, wr_some hc, bind_ok]

/-! ### `setNext` -/

theorem basicSetNext_last (self : NRef → NRef → Heap → M Heap) {h : Heap} {i : Nat} {c : Cell}
    (hc : h[i]? = some c) (hn : c.next = none) (nx : NRef) :
    basicSetNext self (some i) nx h = .ok (h.set i { c with next := nx }) := by
  simp only [basicSetNext, rd_some hc, wr_some hc, bind_ok, hn]
  rfl

theorem basicSetNext_walk (self : NRef → NRef → Heap → M Heap) {h : Heap} {i : Nat} {c : Cell}
    (hc : h[i]? = some c) {r : Kind × Nat} (hn : c.next = some r) (nx : NRef) :
    basicSetNext self (some i) nx h = self (some r) nx h := by
  simp only [basicSetNext, rd_some hc, bind_ok, hn]
  exact bind_pure_ok _

theorem multiSetNext_walk (self : NRef → NRef → Heap → M Heap) {h : Heap} {i : Nat} {c : Cell}
    (hc : h[i]? = some c) {r : Kind × Nat} (hn : c.next = some r) (nx : NRef) :
    multiSetNext self (some i) nx h = self (some r) nx h := by
  simp only [multiSetNext, rd_some hc, bind_ok, hn]
  exact bind_pure_ok _

theorem nodeSetNext_succ_basic (f : Nat) (k : Kind) (hk : k ≠ .multi) (i : Nat) (nx : NRef) (h : Heap) :
    nodeSetNext (f + 1) (some (k, i)) nx h = basicSetNext (nodeSetNext f) (some i) nx h := by
  cases k <;> first | rfl | exact absurd rfl hk

theorem nodeSetNext_succ_multi (f : Nat) (i : Nat) (nx : NRef) (h : Heap) :
    nodeSetNext (f + 1) (some (.multi, i)) nx h = multiSetNext (nodeSetNext f) (some i) nx h := rfl

theorem MId_kind_ne_multi (m : MId) : MId.kind m ≠ .multi := by
  cases m <;> intro h <;> cases h

theorem innerCell_setNext (l : LId) (nx : NRef) :
    { innerCell l none with next := nx } = innerCell l nx := rfl

theorem nodeCell_setNext (id : Nat) (i : Info) (s : LShape) (nx : NRef) :
    { nodeCell id i s none with next := nx } = nodeCell id i s nx := rfl

theorem plainCell_setNext (id : Nat) (i : Info) (nx : NRef) :
    { plainCell id i none with next := nx } = plainCell id i nx := rfl

theorem multiSetNext_last (f : Nat) (id : Nat) (i : Info) (L : List LId) (twin : Option (Nat × Info))
    (nx : NRef) (h : Heap)
    (hsat : Sat h (cellsN (.mk id i (.multi L twin)) none))
    (hnd : (ids (cellsN (.mk id i (.multi L twin)) none)).Nodup) :
    ∃ h', multiSetNext (nodeSetNext (f + 1)) (some id) nx h = .ok h' ∧
      Sat h' (cellsN (.mk id i (.multi L twin)) nx) ∧
      Frame (ids (cellsN (.mk id i (.multi L twin)) none)) h h' := by
  have hhead : h[id]? = some (nodeCell id i (.multi L twin) none) := hsat.head
  simp only [cellsN, cellsS] at hsat
  have hsatI : Sat h (innerCells L none) := hsat.tail.left
  have hsatT : Sat h (twinCells twin none) := hsat.tail.right
  simp only [cellsN, cellsS, ids_cons, ids_append, ids_innerCells, List.nodup_cons, List.nodup_append,
    List.mem_append, not_or] at hnd
  obtain ⟨⟨hidL, hidT⟩, hLnd, hTnd, hLT⟩ := hnd
  -- the multi node itself
  let h1 := h.set id (nodeCell id i (.multi L twin) nx)
  have h1head : h1[id]? = some (nodeCell id i (.multi L twin) nx) := get_set_self hhead _
  have hf1 : Frame [id] h h1 := Frame.set _ _ _
  have h1I : Sat h1 (innerCells L none) := by
    refine Sat.frame hsatI hf1 ?_
    intro x hx hm
    have hx' := mem_ids_of_mem hx
    rw [ids_innerCells, List.mem_singleton.mp hm] at hx'
    exact hidL hx'
  -- the loop
  obtain ⟨h2, he2, -, hs2, hf2⟩ := forEach_inner (σ := Heap) (fun s => s) (fun _ h => h) (fun _ _ => rfl)
    (fun _ _ _ => rfl) (fun _ => rfl) (fun _ => True) (fun c => { c with next := nx })
    (fun identifier h => do let h ← nodeSetNext (f + 1) identifier nx h; .ok h) none L hLnd
    (fun _ _ _ _ _ => trivial)
    (by
      intro l _ s _ hl
      show (nodeSetNext (f + 1) (some (MId.kind l.m, l.id)) nx s >>= fun h => .ok h) = _
      rw [bind_pure_ok, nodeSetNext_succ_basic _ _ (MId_kind_ne_multi _), basicSetNext_last _ hl rfl])
    h1 trivial h1I
  have h2head : h2[id]? = some (nodeCell id i (.multi L twin) nx) := hf2.get hidL h1head
  have hunf : multiSetNext (nodeSetNext (f + 1)) (some id) nx h =
      (do let t_4 ← rd h2 (some id) (·.isAllWildcard)
          if t_4 then do
            let t_5 ← rd h2 (some id) (·.unionQualifier.basic)
            let h ← basicSetNext (nodeSetNext (f + 1)) t_5 nx h2
            .ok h
          else .ok h2) := by
    simp only [multiSetNext, rd_some hhead, wr_some hhead, bind_ok]
    show (if (none : NRef).isSome = true then _ else _) = _
    simp only [Option.isSome_none, Bool.false_eq_true, if_false]
    show (rd h1 (some id) (·.identifiers) >>= _) = _
    rw [rd_some h1head, bind_ok]
    show (forEach (L.map LId.ref) h1 _ >>= _) = _
    rw [he2, bind_ok]
  rw [hunf, rd_some h2head, bind_ok]
  cases twin with
  | none =>
    refine ⟨h2, rfl, ?_, ?_⟩
    · simp only [cellsN, cellsS, twinCells, List.append_nil]
      exact Sat.cons h2head hs2
    · refine (hf1.trans hf2).mono ?_
      intro j hj
      simp only [cellsN, cellsS, twinCells, List.append_nil, ids_cons, ids_innerCells]
      exact hj
  | some tw =>
    obtain ⟨t, ti⟩ := tw
    simp only [twinCells, ids, List.map_cons, List.map_nil, List.mem_singleton] at hidT hLT hsatT
    have hT0 : h[t]? = some (plainCell t ti none) := hsatT.head
    have hT2 : h2[t]? = some (plainCell t ti none) := by
      refine hf2.get ?_ (hf1.get ?_ hT0)
      · intro hm; exact hLT t hm t rfl rfl
      · intro hm; exact hidT (List.mem_singleton.mp hm).symm
    refine ⟨h2.set t (plainCell t ti nx), ?_, ?_, ?_⟩
    · show (rd h2 (some id) (·.unionQualifier.basic) >>= _) = _
      rw [rd_some h2head, bind_ok]
      show (basicSetNext (nodeSetNext (f + 1)) (some t) nx h2 >>= _) = _
      rw [basicSetNext_last _ hT2 rfl, bind_ok]
      rfl
    · simp only [cellsN, cellsS, twinCells]
      have hf3 : Frame [t] h2 (h2.set t (plainCell t ti nx)) := Frame.set _ _ _
      refine Sat.cons (hf3.get ?_ h2head) (Sat.append (Sat.frame hs2 hf3 ?_) (Sat.cons (get_set_self hT2 _) (Sat.nil _)))
      · intro hm; exact hidT (List.mem_singleton.mp hm)
      · intro x hx hm
        rcases List.mem_map.mp hx with ⟨l, hl, rfl⟩
        exact hLT l.id (List.mem_map.mpr ⟨l, hl, rfl⟩) t rfl (List.mem_singleton.mp hm)
    · refine ((hf1.trans hf2).trans (Frame.set _ _ _)).mono ?_
      intro j hj
      simp only [cellsN, cellsS, ids_cons, ids_append, ids_innerCells]
      show j ∈ id :: (L.map (·.id) ++ [t])
      simp only [List.mem_append, List.mem_cons, List.not_mem_nil, or_false] at hj ⊢
      rcases hj with (hj | hj) | hj
      · exact Or.inl hj
      · exact Or.inr (Or.inl hj)
      · exact Or.inr (Or.inr hj)

/-- the last node of a chain gets its `next` (a multi-name node: together with its inner identifiers
    and its twin) -/
theorem nodeSetNext_last (f : Nat) (id : Nat) (i : Info) (s : LShape) (nx : NRef) (h : Heap)
    (hsat : Sat h (cellsN (.mk id i s) none)) (hnd : (ids (cellsN (.mk id i s) none)).Nodup) :
    ∃ h', nodeSetNext (f + 2) (some (s.kind, id)) nx h = .ok h' ∧ Sat h' (cellsN (.mk id i s) nx) ∧
      Frame (ids (cellsN (.mk id i s) none)) h h' := by
  have hhead : h[id]? = some (nodeCell id i s none) := hsat.head
  by_cases hk : s.kind = .multi
  · cases s with
    | multi L twin => exact multiSetNext_last f id i L twin nx h hsat hnd
    | _ => exact absurd hk (by intro e; cases e)
  · refine ⟨h.set id (nodeCell id i s nx), ?_, ?_, ?_⟩
    · rw [nodeSetNext_succ_basic _ _ hk, basicSetNext_last _ hhead rfl]
      rfl
    · simp only [cellsN] at hsat ⊢ hnd
      refine Sat.cons (get_set_self hhead _) ?_
      rw [cellsS_not_multi nx none s hk]
      refine Sat.frame hsat.tail (Frame.set _ _ _) ?_
      intro x hx hm
      have hx' := mem_ids_of_mem hx
      rw [List.mem_singleton.mp hm] at hx'
      simp only [ids_cons, List.nodup_cons] at hnd
      exact hnd.1 hx'
    · refine (Frame.set _ _ _).mono ?_
      intro j hj
      rw [List.mem_singleton.mp hj]
      simp only [cellsN, ids_cons]
      exact List.mem_cons_self ..

/-- `head.setNext(nx)` on a chain that ends in nil walks to its end: the chain now ends in `nx`,
    nothing outside the chain changes -/
theorem nodeSetNext_chain : ∀ (A : List LN) (fuel : Nat) (h : Heap) (nx : NRef), A ≠ [] → A.length < fuel →
    Sat h (cellsCh A none) → (ids (cellsCh A none)).Nodup →
    ∃ h', nodeSetNext fuel (headRef A) nx h = .ok h' ∧ Sat h' (cellsCh A nx) ∧
      Frame (ids (cellsCh A none)) h h' := by
  intro A
  induction A with
  | nil => intro _ _ _ hne; exact absurd rfl hne
  | cons n rest ih =>
    intro fuel h nx _ hfuel hsat hnd
    obtain ⟨id, i, s⟩ := n
    cases rest with
    | nil =>
      obtain ⟨f, rfl⟩ : ∃ f, fuel = f + 2 := ⟨fuel - 2, by simp only [List.length_cons, List.length_nil] at hfuel; omega⟩
      simp only [cellsCh, headRefD, List.append_nil] at hsat hnd ⊢
      exact nodeSetNext_last f id i s nx h hsat hnd
    | cons m rest' =>
      obtain ⟨f, rfl⟩ : ∃ f, fuel = f + 1 := ⟨fuel - 1, by simp only [List.length_cons] at hfuel; omega⟩
      have hsplit : ∀ tl, cellsCh (LN.mk id i s :: m :: rest') tl = cellsN (.mk id i s) m.ref ++ cellsCh (m :: rest') tl :=
        fun _ => rfl
      rw [hsplit] at hsat hnd
      rw [ids_append, List.nodup_append] at hnd
      obtain ⟨hnd1, hnd2, hdis⟩ := hnd
      have hhead : h[id]? = some (nodeCell id i s m.ref) := hsat.left.head
      obtain ⟨h', he, hs', hf'⟩ := ih f h nx (by intro e; cases e)
        (by simp only [List.length_cons] at hfuel ⊢; omega) hsat.right hnd2
      have hnext : (nodeCell id i s m.ref).next = some (m.shape.kind, m.id) := by
        obtain ⟨mid, mi, ms⟩ := m; rfl
      refine ⟨h', ?_, ?_, ?_⟩
      · show nodeSetNext (f + 1) (some (s.kind, id)) nx h = _
        by_cases hk : s.kind = .multi
        · rw [hk, nodeSetNext_succ_multi, multiSetNext_walk _ hhead hnext]
          obtain ⟨mid, mi, ms⟩ := m
          exact he
        · rw [nodeSetNext_succ_basic _ _ hk, basicSetNext_walk _ hhead hnext]
          obtain ⟨mid, mi, ms⟩ := m
          exact he
      · rw [hsplit]
        refine Sat.append (Sat.frame hsat.left hf' ?_) hs'
        intro x hx hm
        exact hdis x.1 (mem_ids_of_mem hx) x.1 hm rfl
      · refine hf'.mono ?_
        intro j hj
        rw [hsplit, ids_append]
        exact List.mem_append_right _ hj

/-- heap reasoning shared by the three places where the code updates a multi-name node together with its
    inner identifiers and its twin: after the node's own cell (`h1`), the loop (`h2`) and the twin -/
theorem deep_assemble (F : Info → Info) (id : Nat) (i : Info) (L : List LId) (twin : Option (Nat × Info))
    (nx : NRef) (h h2 : Heap)
    (hsat : Sat h (cellsN (.mk id i (.multi L twin)) nx))
    (hnd : (ids (cellsN (.mk id i (.multi L twin)) nx)).Nodup)
    (hs2 : Sat h2 (L.map (fun l => (l.id, cellInfo F (innerCell l nx)))))
    (hf2 : Frame (L.map (·.id)) (h.set id (cellInfo F (nodeCell id i (.multi L twin) nx))) h2) :
    h2[id]? = some (cellInfo F (nodeCell id i (.multi L twin) nx)) ∧
    (∀ t ti, twin = some (t, ti) → h2[t]? = some (plainCell t ti nx)) ∧
    Sat (match twin with | none => h2 | some (t, ti) => h2.set t (cellInfo F (plainCell t ti nx)))
      (cellsN ((LN.mk id i (.multi L twin)).mapDeep F) nx) ∧
    Frame (ids (cellsN (.mk id i (.multi L twin)) nx)) h
      (match twin with | none => h2 | some (t, ti) => h2.set t (cellInfo F (plainCell t ti nx))) := by
  have hhead : h[id]? = some (nodeCell id i (.multi L twin) nx) := hsat.head
  simp only [cellsN, cellsS] at hsat
  have hsatT : Sat h (twinCells twin nx) := hsat.tail.right
  simp only [cellsN, cellsS, ids_cons, ids_append, ids_innerCells, List.nodup_cons, List.nodup_append,
    List.mem_append, not_or] at hnd
  obtain ⟨⟨hidL, hidT⟩, hLnd, hTnd, hLT⟩ := hnd
  have hf1 : Frame [id] h (h.set id (cellInfo F (nodeCell id i (.multi L twin) nx))) := Frame.set _ _ _
  have h2head : h2[id]? = some (cellInfo F (nodeCell id i (.multi L twin) nx)) :=
    hf2.get hidL (get_set_self hhead _)
  refine ⟨h2head, ?_, ?_⟩
  · intro t ti ht
    subst ht
    simp only [twinCells, ids, List.map_cons, List.map_nil, List.mem_singleton] at hidT hLT hsatT
    refine hf2.get ?_ (hf1.get ?_ hsatT.head)
    · intro hm; exact hLT t hm t rfl rfl
    · intro hm; exact hidT (List.mem_singleton.mp hm).symm
  · cases twin with
    | none =>
      refine ⟨?_, ?_⟩
      · simp only [LN.mapDeep, LShape.mapDeep, cellsN, cellsS, Option.map_none, twinCells, List.append_nil,
          innerCells_mapInfo]
        refine Sat.cons ?_ hs2
        show h2[id]? = some (nodeCell id (F i) ((LShape.multi L none).mapDeep F) nx)
        rw [nodeCell_mapDeep]; exact h2head
      · refine (hf1.trans hf2).mono ?_
        intro j hj
        simp only [cellsN, cellsS, twinCells, List.append_nil, ids_cons, ids_innerCells]
        exact hj
    | some tw =>
      obtain ⟨t, ti⟩ := tw
      simp only [twinCells, ids, List.map_cons, List.map_nil, List.mem_singleton] at hidT hLT hsatT
      have hT2 : h2[t]? = some (plainCell t ti nx) := by
        refine hf2.get ?_ (hf1.get ?_ hsatT.head)
        · intro hm; exact hLT t hm t rfl rfl
        · intro hm; exact hidT (List.mem_singleton.mp hm).symm
      have hf3 : Frame [t] h2 (h2.set t (cellInfo F (plainCell t ti nx))) := Frame.set _ _ _
      refine ⟨?_, ?_⟩
      · simp only [LN.mapDeep, LShape.mapDeep, cellsN, cellsS, Option.map_some, twinCells, innerCells_mapInfo]
        refine Sat.cons ?_ (Sat.append (Sat.frame hs2 hf3 ?_) (Sat.cons (get_set_self hT2 _) (Sat.nil _)))
        · show (h2.set t _)[id]? = some (nodeCell id (F i) ((LShape.multi L (some (t, ti))).mapDeep F) nx)
          rw [nodeCell_mapDeep]
          exact hf3.get (by intro hm; exact hidT (List.mem_singleton.mp hm)) h2head
        · intro x hx hm
          rcases List.mem_map.mp hx with ⟨l, hl, rfl⟩
          exact hLT l.id (List.mem_map.mpr ⟨l, hl, rfl⟩) t rfl (List.mem_singleton.mp hm)
      · refine ((hf1.trans hf2).trans hf3).mono ?_
        intro j hj
        simp only [cellsN, cellsS, ids_cons, ids_append, ids_innerCells]
        show j ∈ id :: (L.map (·.id) ++ [t])
        simp only [List.mem_append, List.mem_cons, List.not_mem_nil, or_false] at hj ⊢
        rcases hj with (hj | hj) | hj
        · exact Or.inl hj
        · exact Or.inr (Or.inl hj)
        · exact Or.inr (Or.inr hj)

/-- `setAccessorMode(m)` on an `Info` -/
def setAccI (m : Bool) : Info → Info := fun i => { i with acc := m }

theorem nodeSetAccessorMode_succ_basic (f : Nat) (k : Kind) (hk : k ≠ .multi) (i : Nat) (m : Bool) (h : Heap) :
    nodeSetAccessorMode (f + 1) (some (k, i)) m h = basicSetAccessorMode (some i) m h := by
  cases k <;> first | rfl | exact absurd rfl hk

theorem LShape.mapDeep_not_multi (F : Info → Info) (s : LShape) (hs : s.kind ≠ .multi) : s.mapDeep F = s := by
  cases s <;> first | rfl | exact absurd rfl hs

theorem nodeSetAccessorMode_node (f : Nat) (m : Bool) (id : Nat) (i : Info) (s : LShape) (nx : NRef) (h : Heap)
    (hsat : Sat h (cellsN (.mk id i s) nx)) (hnd : (ids (cellsN (.mk id i s) nx)).Nodup) :
    ∃ h', nodeSetAccessorMode (f + 2) (some (s.kind, id)) m h = .ok h' ∧
      Sat h' (cellsN ((LN.mk id i s).mapDeep (setAccI m)) nx) ∧
      Frame (ids (cellsN (.mk id i s) nx)) h h' := by
  have hhead : h[id]? = some (nodeCell id i s nx) := hsat.head
  by_cases hk : s.kind = .multi
  · cases s with
    | multi L twin =>
      have hnd' := hnd
      simp only [cellsN, cellsS, ids_cons, ids_append, ids_innerCells, List.nodup_cons, List.nodup_append,
        List.mem_append, not_or] at hnd'
      obtain ⟨⟨hidL, hidT⟩, hLnd, hTnd, hLT⟩ := hnd'
      have hsatI : Sat h (innerCells L nx) := by
        simp only [cellsN, cellsS] at hsat; exact hsat.tail.left
      let h1 := h.set id (cellInfo (setAccI m) (nodeCell id i (.multi L twin) nx))
      have h1head : h1[id]? = some (cellInfo (setAccI m) (nodeCell id i (.multi L twin) nx)) := get_set_self hhead _
      have hf1 : Frame [id] h h1 := Frame.set _ _ _
      have h1I : Sat h1 (innerCells L nx) := by
        refine Sat.frame hsatI hf1 ?_
        intro x hx hm
        have hx' := mem_ids_of_mem hx
        rw [ids_innerCells, List.mem_singleton.mp hm] at hx'
        exact hidL hx'
      obtain ⟨h2, he2, -, hs2, hf2⟩ := forEach_inner (σ := Heap) (fun s => s) (fun _ h => h) (fun _ _ => rfl)
        (fun _ _ _ => rfl) (fun _ => rfl) (fun _ => True) (cellInfo (setAccI m))
        (fun identifier h => do let h ← nodeSetAccessorMode (f + 1) identifier m h; .ok h) nx L hLnd
        (fun _ _ _ _ _ => trivial)
        (by
          intro l _ s _ hl
          show (nodeSetAccessorMode (f + 1) (some (MId.kind l.m, l.id)) m s >>= fun h => .ok h) = _
          rw [bind_pure_ok, nodeSetAccessorMode_succ_basic _ _ (MId_kind_ne_multi _), basicSetAccessorMode_some hl]
          rfl)
        h1 trivial h1I
      obtain ⟨h2head, h2twin, hs3, hf3⟩ := deep_assemble (setAccI m) id i L twin nx h h2 hsat hnd hs2 hf2
      refine ⟨_, ?_, hs3, hf3⟩
      show multiSetAccessorMode (nodeSetAccessorMode (f + 1)) (some id) m h = _
      simp only [multiSetAccessorMode, basicSetAccessorMode_some hhead, bind_ok]
      show (rd h1 (some id) (·.identifiers) >>= _) = _
      rw [rd_some h1head, bind_ok]
      show (forEach (L.map LId.ref) h1 _ >>= _) = _
      rw [he2, bind_ok, rd_some h2head, bind_ok]
      cases twin with
      | none => rfl
      | some tw =>
        obtain ⟨t, ti⟩ := tw
        show (rd h2 (some id) (·.unionQualifier.basic) >>= _) = _
        rw [rd_some h2head, bind_ok]
        show (basicSetAccessorMode (some t) m h2 >>= _) = _
        rw [basicSetAccessorMode_some (h2twin t ti rfl), bind_ok]
        rfl
    | _ => exact absurd hk (by intro e; cases e)
  · refine ⟨h.set id (cellInfo (setAccI m) (nodeCell id i s nx)), ?_, ?_, ?_⟩
    · rw [nodeSetAccessorMode_succ_basic _ _ hk, basicSetAccessorMode_some hhead]
      rfl
    · simp only [LN.mapDeep, cellsN, LShape.mapDeep_not_multi _ s hk] at hsat ⊢ hnd
      refine Sat.cons (get_set_self hhead _) ?_
      refine Sat.frame hsat.tail (Frame.set _ _ _) ?_
      intro x hx hm
      have hx' := mem_ids_of_mem hx
      rw [List.mem_singleton.mp hm] at hx'
      simp only [ids_cons, List.nodup_cons] at hnd
      exact hnd.1 hx'
    · refine (Frame.set _ _ _).mono ?_
      intro j hj
      rw [List.mem_singleton.mp hj]
      simp only [cellsN, ids_cons]
      exact List.mem_cons_self ..

theorem onHeap_ok {p : PS} {f : Heap → M Heap} {h' : Heap} (hf : f p.heap = .ok h') :
    p.onHeap f = .ok { p with heap := h' } := by
  simp only [PS.onHeap, hf, bind_ok]

theorem headRef_map (F : LN → LN) (hF : ∀ n, (F n).ref = n.ref) (A : List LN) : headRef (A.map F) = headRef A := by
  cases A with
  | nil => rfl
  | cons n rest => exact hF n

theorem headRefD_map (F : LN → LN) (hF : ∀ n, (F n).ref = n.ref) (A : List LN) (tl : NRef) :
    headRefD (A.map F) tl = headRefD A tl := by
  cases A with
  | nil => rfl
  | cons n rest => exact hF n

theorem headRefD_none (A : List LN) : headRefD A none = headRef A := by cases A <;> rfl

theorem nodeCell_next (id : Nat) (i : Info) (s : LShape) (nx : NRef) : (nodeCell id i s nx).next = nx := rfl

theorem ids_cellsS_mapDeep (F : Info → Info) (s : LShape) (nx : NRef) :
    ids (cellsS nx (s.mapDeep F)) = ids (cellsS nx s) := by
  cases s <;> try rfl
  case multi L twin =>
    simp only [LShape.mapDeep, cellsS, ids_append, ids_innerCells, List.map_map]
    congr 1
    cases twin with
    | none => rfl
    | some tw => rfl

theorem ids_cellsN_mapDeep (F : Info → Info) (n : LN) (nx : NRef) :
    ids (cellsN (n.mapDeep F) nx) = ids (cellsN n nx) := by
  obtain ⟨id, i, s⟩ := n
  simp only [LN.mapDeep, cellsN, ids_cons, ids_cellsS_mapDeep]

/-- the loop of `updateAccessorMode` over a chain -/
theorem updateAccessorMode_loop (fuel : Nat) (m : Bool) :
    ∀ (B : List LN) (k : Nat) (p : PS), B.length ≤ k → Sat p.heap (cellsCh B none) →
    (ids (cellsCh B none)).Nodup →
    ∃ h', (∀ (cond : NRef × PS → Bool) (body : NRef × PS → M (NRef × PS)),
        (∀ r p, cond (r, p) = r.isSome) →
        (∀ r p, body (r, p) = (do
          let p ← p.onHeap (nodeSetAccessorMode (fuel + 2) r m)
          let t ← nodeGetNext r p.heap
          .ok (t, p))) →
        whileLoop k (headRef B, p) cond body = .ok (none, { p with heap := h' })) ∧
      Sat h' (cellsCh (B.map (LN.mapDeep (setAccI m))) none) ∧ Frame (ids (cellsCh B none)) p.heap h' := by
  intro B
  induction B with
  | nil =>
    intro k p _ _ _
    refine ⟨p.heap, ?_, Sat.nil _, Frame.refl _ _⟩
    intro cond body hcond _
    exact whileLoop_false _ _ _ _ (by rw [hcond]; rfl)
  | cons n rest ih =>
    intro k p hk hsat hnd
    obtain ⟨id, i, s⟩ := n
    obtain ⟨k', rfl⟩ : ∃ k', k = k' + 1 := ⟨k - 1, by simp only [List.length_cons] at hk; omega⟩
    simp only [cellsCh] at hsat hnd
    rw [ids_append, List.nodup_append] at hnd
    obtain ⟨hnd1, hnd2, hdis⟩ := hnd
    obtain ⟨h1, he1, hs1, hf1⟩ := nodeSetAccessorMode_node fuel m id i s (headRefD rest none) p.heap hsat.left hnd1
    have hrest1 : Sat h1 (cellsCh rest none) := by
      refine Sat.frame hsat.right hf1 ?_
      intro x hx hm
      exact hdis x.1 hm x.1 (mem_ids_of_mem hx) rfl
    obtain ⟨h', he', hs', hf'⟩ := ih k' { p with heap := h1 } (by simp only [List.length_cons] at hk; omega) hrest1 hnd2
    have hhead1 : h1[id]? = some (nodeCell id ((setAccI m) i) (s.mapDeep (setAccI m)) (headRefD rest none)) := hs1.head
    refine ⟨h', ?_, ?_, ?_⟩
    · intro cond body hcond hbody
      have hb : body (some (s.kind, id), p) = .ok (headRef rest, { p with heap := h1 }) := by
        rw [hbody, onHeap_ok he1, bind_ok]
        show (nodeGetNext (some (s.kind, id)) h1 >>= _) = _
        rw [nodeGetNext_some hhead1, bind_ok, nodeCell_next, headRefD_none]
      rw [show headRef (LN.mk id i s :: rest) = some (s.kind, id) from rfl]
      rw [whileLoop_true _ _ _ _ _ (by rw [hcond]; rfl) hb, he' cond body hcond hbody]
    · simp only [List.map_cons, cellsCh]
      rw [headRefD_map _ (LN.ref_mapDeep _)]
      refine Sat.append (Sat.frame hs1 hf' ?_) hs'
      intro x hx hm
      have hx' := mem_ids_of_mem hx
      rw [ids_cellsN_mapDeep] at hx'
      exact hdis x.1 hx' x.1 hm rfl
    · simp only [cellsCh, ids_append]
      exact hf1.trans hf'

/-- `updateAccessorMode(head, m)`: every node of the chain (with the inner identifiers and twins of
    multi-name nodes) gets the mode -/
theorem updateAccessorMode_chain (f : Nat) (m : Bool) (A : List LN) (p : PS) (hlen : A.length ≤ f + 2)
    (hsat : Sat p.heap (cellsCh A none)) (hnd : (ids (cellsCh A none)).Nodup) :
    ∃ h', updateAccessorMode (f + 2) (headRef A) m p = .ok { p with heap := h' } ∧
      Sat h' (cellsCh (A.map (LN.mapDeep (setAccI m))) none) ∧ Frame (ids (cellsCh A none)) p.heap h' := by
  obtain ⟨h', he, hs, hf⟩ := updateAccessorMode_loop f m A (f + 2) p hlen hsat hnd
  refine ⟨h', ?_, hs, hf⟩
  unfold updateAccessorMode
  rw [he]
  · rfl
  · intro _ _; rfl
  · intro _ _; rfl

def setVgI : Info → Info := fun i => { i with vg := true }

/-- `updateValueGroup` on a layout -/
def markVgL : List LN → List LN
  | [] => []
  | n :: rest => if (n :: rest).any (fun x => x.info.vg) then n.mapInfo setVgI :: rest else n :: rest

theorem eraseCh_any_vg (A : List LN) : (eraseCh A).any (fun x => x.info.vg) = A.any (fun x => x.info.vg) := by
  induction A with
  | nil => rfl
  | cons n rest ih => simp only [eraseCh, List.any_cons, ih, eraseN_info]

theorem eraseCh_markVgL (A : List LN) : eraseCh (markVgL A) = Peg.markVg (eraseCh A) := by
  cases A with
  | nil => rfl
  | cons n rest =>
    have h := eraseCh_any_vg (n :: rest)
    simp only [eraseCh] at h
    simp only [markVgL, eraseCh, Peg.markVg, h]
    split
    · simp only [eraseCh, eraseN_setVg]; rfl
    · rfl

/-- the loop of `updateValueGroup` from a suffix `B` of the chain; the root cell is at `rid` -/
theorem updateValueGroup_loop (rid : Nat) (ri : Info) (rs : LShape) (rnx : NRef) :
    ∀ (B : List LN) (k : Nat) (p : PS), B.length ≤ k → Sat p.heap (cellsCh B none) →
    p.heap[rid]? = some (nodeCell rid ri rs rnx) →
    ∃ r' b', ∀ (cond : NRef × PS × Bool → Bool) (body : NRef × PS × Bool → M (NRef × PS × Bool)),
      (∀ r p b, cond (r, p, b) = (!b && r.isSome)) →
      (∀ r p b, body (r, p, b) = (do
        let t_1 ← nodeIsValueGroup r p.heap
        if t_1 then do
          let p ← p.onHeap (nodeSetValueGroup (some (rs.kind, rid)))
          .ok (r, p, true)
        else do
          let t_2 ← nodeGetNext r p.heap
          .ok (t_2, p, b))) →
      whileLoop k (headRef B, p, false) cond body =
        .ok (r', { p with heap := if B.any (fun x => x.info.vg) then p.heap.set rid (nodeCell rid (setVgI ri) rs rnx) else p.heap }, b') := by
  intro B
  induction B with
  | nil =>
    intro k p _ _ _
    refine ⟨none, false, ?_⟩
    intro cond body hcond _
    rw [whileLoop_false _ _ _ _ (by rw [hcond]; rfl)]
    rfl
  | cons n rest ih =>
    intro k p hk hsat hroot
    obtain ⟨id, i, s⟩ := n
    obtain ⟨k', rfl⟩ : ∃ k', k = k' + 1 := ⟨k - 1, by simp only [List.length_cons] at hk; omega⟩
    simp only [cellsCh] at hsat
    have hhead : p.heap[id]? = some (nodeCell id i s (headRefD rest none)) := hsat.left.head
    rw [show headRef (LN.mk id i s :: rest) = some (s.kind, id) from rfl]
    cases hvg : i.vg with
    | true =>
      refine ⟨some (s.kind, id), true, ?_⟩
      intro cond body hcond hbody
      have hb : body (some (s.kind, id), p, false) =
          .ok (some (s.kind, id), { p with heap := p.heap.set rid (nodeCell rid (setVgI ri) rs rnx) }, true) := by
        rw [hbody, nodeIsValueGroup_some hhead, bind_ok]
        show (if i.vg = true then _ else _) = _
        rw [hvg, if_pos rfl, onHeap_ok (nodeSetValueGroup_some hroot), bind_ok]
        rfl
      rw [whileLoop_true _ _ _ _ _ (by rw [hcond]; rfl) hb, whileLoop_false _ _ _ _ (by rw [hcond]; rfl)]
      have hany : (LN.mk id i s :: rest).any (fun x => x.info.vg) = true := by
        rw [List.any_cons]; show (i.vg || _) = _; rw [hvg, Bool.true_or]
      rw [hany, if_pos rfl]
    | false =>
      obtain ⟨r', b', he⟩ := ih k' p (by simp only [List.length_cons] at hk; omega) hsat.right hroot
      refine ⟨r', b', ?_⟩
      intro cond body hcond hbody
      have hb : body (some (s.kind, id), p, false) = .ok (headRef rest, p, false) := by
        rw [hbody, nodeIsValueGroup_some hhead, bind_ok]
        show (if i.vg = true then _ else _) = _
        rw [hvg, if_neg (by decide)]
        show (nodeGetNext (some (s.kind, id)) p.heap >>= _) = _
        rw [nodeGetNext_some hhead, bind_ok, nodeCell_next, headRefD_none]
      have hany : (LN.mk id i s :: rest).any (fun x => x.info.vg) = rest.any (fun x => x.info.vg) := by
        rw [List.any_cons]; show (i.vg || _) = _; rw [hvg, Bool.false_or]
      rw [whileLoop_true _ _ _ _ _ (by rw [hcond]; rfl) hb, he cond body hcond hbody, hany]

/-- `updateValueGroup(head)`: the head is marked when some node of the chain is a value group -/
theorem updateValueGroup_chain (fuel : Nat) (A : List LN) (p : PS) (hlen : A.length ≤ fuel)
    (hsat : Sat p.heap (cellsCh A none)) (hnd : (ids (cellsCh A none)).Nodup) :
    ∃ h', updateValueGroup fuel (headRef A) p = .ok { p with heap := h' } ∧
      Sat h' (cellsCh (markVgL A) none) ∧ Frame (ids (cellsCh A none)) p.heap h' := by
  cases A with
  | nil =>
    refine ⟨p.heap, ?_, Sat.nil _, Frame.refl _ _⟩
    unfold updateValueGroup
    show (whileLoop fuel ((none : NRef), p, false) _ _ >>= _) = _
    rw [whileLoop_false _ _ _ _ rfl]
    rfl
  | cons n rest =>
    obtain ⟨id, i, s⟩ := n
    have hhead : p.heap[id]? = some (nodeCell id i s (headRefD rest none)) := by
      simp only [cellsCh] at hsat; exact hsat.left.head
    have key := updateValueGroup_loop id i s (headRefD rest none) (LN.mk id i s :: rest) fuel p hlen hsat hhead
    refine ⟨if (LN.mk id i s :: rest).any (fun x => x.info.vg) then
        p.heap.set id (nodeCell id (setVgI i) s (headRefD rest none)) else p.heap, ?_, ?_, ?_⟩
    · unfold updateValueGroup
      show (whileLoop fuel (headRef (LN.mk id i s :: rest), p, false) _ _ >>= _) = _
      obtain ⟨r', b', he⟩ := key
      rw [he]
      · rfl
      · intro _ _ _; rfl
      · intro _ _ _; rfl
    · simp only [markVgL]
      split
      · simp only [cellsCh, LN.mapInfo, cellsN] at hsat hnd ⊢
        refine Sat.cons (get_set_self hhead _) ?_
        refine Sat.frame (S := [id]) ?_ (Frame.set _ _ _) ?_
        · exact Sat.append hsat.left.tail hsat.right
        · intro x hx hm
          have hx' := mem_ids_of_mem hx
          rw [List.mem_singleton.mp hm] at hx'
          simp only [List.cons_append, ids_cons, List.nodup_cons] at hnd
          exact hnd.1 hx'
      · exact hsat
    · split
      · refine (Frame.set _ _ _).mono ?_
        intro j hj
        rw [List.mem_singleton.mp hj]
        simp only [cellsCh, cellsN, List.cons_append, ids_cons]
        exact List.mem_cons_self ..
      · exact Frame.refl _ _

end ParserLayout
end JPV
