/-
Lemmas/TiesValidators — the hand-written validators (`Impl.validateTy`, `Impl.validateAny`) agree with
the case tables regenerated from /repo's syntax_basic_type_validator_*.go (Gen/Validators.lean) under
the reading given in Ties/Sem.lean. Imports NO other generated file: a change of a comparator, of the
operand ordering or of a fact table does not touch this module.
(Split out of the former single module Lemmas/Ties.lean; statements and proofs unchanged.)
-/
import JPV.Ties.Sem
import JPV.Gen.Validators
namespace JPV
namespace Ties
open Impl

/-! ### validators -/

/-- the regenerated table of the validator `validateTy ty` models -/
def genTable : LitTy → ValidatorTable
  | .num => Gen.Validators.numericTable
  | .bool => Gen.Validators.boolTable
  | .str => Gen.Validators.stringTable
  | .null => Gen.Validators.nilTable

theorem genTable_eq (ty : LitTy) : Gen.Validators.table (vrefOfLitTy ty) = some (genTable ty) := by
  cases ty <;> rfl

/-- one cell: new cell, contribution to `found`, number of writes -/
theorem validateTy_cell (ty : LitTy) (c : Cell) :
    validateTy ty [c] =
      ((cellStep (genTable ty) c).1, [(cellStep (genTable ty) c).2.1], (cellStep (genTable ty) c).2.2) := by
  cases ty <;> cases c <;> (try rfl) <;> (rename_i v; cases v <;> rfl)

theorem validateTy_cons (ty : LitTy) (c : Cell) (cs : List Cell) :
    validateTy ty (c :: cs) =
      ((cellStep (genTable ty) c).1 || (validateTy ty cs).1,
       (cellStep (genTable ty) c).2.1 :: (validateTy ty cs).2.1,
       (validateTy ty cs).2.2 + (cellStep (genTable ty) c).2.2) := by
  cases ty <;> cases c <;> (try (simp [validateTy, cellStep, cellTy, ValidatorTable.act, lookupAct, applyWrite, Write.count, genTable,
    Gen.Validators.numericTable, Gen.Validators.boolTable, Gen.Validators.stringTable, Gen.Validators.nilTable]; done)) <;>
    (rename_i v; cases v <;>
      simp [validateTy, cellStep, cellTy, ValidatorTable.act, lookupAct, applyWrite, Write.count, genTable,
        Gen.Validators.numericTable, Gen.Validators.boolTable, Gen.Validators.stringTable, Gen.Validators.nilTable])

theorem validateTy_eq_run (ty : LitTy) (cells : List Cell) :
    validateTy ty cells = runValidator (genTable ty) cells := by
  induction cells with
  | nil => rfl
  | cons c cs ih => rw [validateTy_cons, ih]; rfl

theorem validateAny_eq_run (cells : List Cell) :
    validateAny cells = runAny Gen.Validators.anyValueLoop cells := by
  induction cells with
  | nil => rfl
  | cons c cs ih =>
    have : validateAny (c :: cs) = (!c.isEmpty || validateAny cs) := by simp [validateAny]
    rw [this, ih]
    cases c <;> simp [runAny, Gen.Validators.anyValueLoop, CellCond.holds, Cell.isEmpty]

end Ties
end JPV
