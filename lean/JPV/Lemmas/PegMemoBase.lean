/-
Lemmas/PegMemoBase — groundwork for the packrat interpreter `runM` (Peg/Memo.lean):
unfolding equations, the table invariant, "who calls whom" facts about `run`, the potential used for counting,
arithmetic of the cost model `work`.
-/
import JPV.Peg.Memo
import JPV.Lemmas.Peg
namespace JPV.Peg
open MemoTable

variable {T : Type} [MemoTable T] {g : Grammar} {inp : Array Char}

/-! ### unfolding equations of `runM` -/

theorem runM_zero (e : PE) (pos : Nat) (st : MState T) : runM g 0 e inp pos st = (.outOfFuel, st) := by
  cases e <;> rfl

theorem runM_lit (f : Nat) (s : String) (pos : Nat) (st : MState T) :
    runM g (f + 1) (.lit s) inp pos st = (run g (f + 1) (.lit s) inp pos, st.tick) := rfl
theorem runM_cls (f : Nat) (neg : Bool) (rs : List (Char × Char)) (pos : Nat) (st : MState T) :
    runM g (f + 1) (.cls neg rs) inp pos st = (run g (f + 1) (.cls neg rs) inp pos, st.tick) := rfl
theorem runM_any (f : Nat) (pos : Nat) (st : MState T) :
    runM g (f + 1) .any inp pos st = (run g (f + 1) .any inp pos, st.tick) := rfl
theorem runM_act (f : Nat) (i : Nat) (pos : Nat) (st : MState T) :
    runM g (f + 1) (.act i) inp pos st = (run g (f + 1) (.act i) inp pos, st.tick) := rfl

theorem runM_seq (f : Nat) (a b : PE) (pos : Nat) (st : MState T) :
    runM g (f + 1) (.seq a b) inp pos st =
      match runM g f a inp pos st.tick with
      | (.ok p t, st1) =>
        match runM g f b inp p st1 with
        | (.ok p' t', st2) => (.ok p' (t ++ t'), st2)
        | r => r
      | r => r := rfl

theorem runM_alt (f : Nat) (a b : PE) (pos : Nat) (st : MState T) :
    runM g (f + 1) (.alt a b) inp pos st =
      match runM g f a inp pos st.tick with
      | (.fail, st1) => runM g f b inp pos st1
      | r => r := rfl

theorem runM_star (f : Nat) (a : PE) (pos : Nat) (st : MState T) :
    runM g (f + 1) (.star a) inp pos st =
      match runM g f a inp pos st.tick with
      | (.fail, st1) => (.ok pos [], st1)
      | (.outOfFuel, st1) => (.outOfFuel, st1)
      | (.ok p t, st1) =>
        match runM g f (.star a) inp p st1 with
        | (.ok p' t', st2) => (.ok p' (t ++ t'), st2)
        | r => r := rfl

theorem runM_plus (f : Nat) (a : PE) (pos : Nat) (st : MState T) :
    runM g (f + 1) (.plus a) inp pos st =
      match runM g f a inp pos st.tick with
      | (.ok p t, st1) =>
        match runM g f (.star a) inp p st1 with
        | (.ok p' t', st2) => (.ok p' (t ++ t'), st2)
        | r => r
      | r => r := rfl

theorem runM_opt (f : Nat) (a : PE) (pos : Nat) (st : MState T) :
    runM g (f + 1) (.opt a) inp pos st =
      match runM g f a inp pos st.tick with
      | (.fail, st1) => (.ok pos [], st1)
      | r => r := rfl

theorem runM_not (f : Nat) (a : PE) (pos : Nat) (st : MState T) :
    runM g (f + 1) (.not a) inp pos st =
      match runM g f a inp pos st.tick with
      | (.fail, st1) => (.ok pos [], st1)
      | (.ok _ _, st1) => (.fail, st1)
      | (.outOfFuel, st1) => (.outOfFuel, st1) := rfl

theorem runM_and (f : Nat) (a : PE) (pos : Nat) (st : MState T) :
    runM g (f + 1) (.and a) inp pos st =
      match runM g f a inp pos st.tick with
      | (.ok _ _, st1) => (.ok pos [], st1)
      | r => r := rfl

theorem runM_cap (f : Nat) (a : PE) (pos : Nat) (st : MState T) :
    runM g (f + 1) (.cap a) inp pos st =
      match runM g f a inp pos st.tick with
      | (.ok p t, st1) => (.ok p (t ++ [.text pos p]), st1)
      | r => r := rfl

theorem runM_rule (f : Nat) (name : String) (pos : Nat) (st : MState T) :
    runM g (f + 1) (.rule name) inp pos st =
      match g.lookup name with
      | none => (.fail, st.tick)
      | some body =>
        match find? st.table name pos with
        | some r => (r, st.tick)
        | none =>
          match runM g f body inp pos st.tickEval with
          | (.outOfFuel, st1) => (.outOfFuel, st1)
          | (r, st1) => (r, st1.store name pos r) := rfl

/-! ### facts about `run` -/

/-- two budgets that both suffice give the same answer -/
theorem run_agree {f f' : Nat} {e : PE} {pos : Nat}
    (h : run g f e inp pos ≠ .outOfFuel) (h' : run g f' e inp pos ≠ .outOfFuel) :
    run g f e inp pos = run g f' e inp pos := by
  rcases Nat.le_total f f' with hle | hle
  · exact (run_mono e pos hle h).symm
  · exact run_mono e pos hle h'

/-- no evaluation needs itself with a smaller budget -/
theorem no_self {e : PE} {pos : Nat}
    (hb : ∀ f1, run g f1 e inp pos ≠ .outOfFuel → run g (f1 - 1) e inp pos ≠ .outOfFuel) :
    ∀ f, run g f e inp pos = .outOfFuel := by
  intro f
  induction f with
  | zero => exact run_zero e pos
  | succ f ih =>
    apply Classical.byContradiction
    intro h
    exact hb (f + 1) h ih

theorem lookup_mem_keys {x : String} {body : PE} : ∀ {g : Grammar}, g.lookup x = some body → x ∈ g.map Prod.fst
  | [], h => by cases h
  | (y, b) :: rest, h => by
    simp only [List.lookup_cons] at h
    cases hxy : (x == y) with
    | true => simp [eq_of_beq hxy]
    | false =>
      rw [hxy] at h
      exact List.mem_cons_of_mem _ (lookup_mem_keys (g := rest) h)

theorem ruleBody_of_lookup {x : String} {body : PE} (h : g.lookup x = some body) : ruleBody g x = body := by
  simp [ruleBody, h]

theorem ruleBody_of_lookup_none {x : String} (h : g.lookup x = none) : ruleBody g x = .cls false [] := by
  simp [ruleBody, h]

/-- `E` at `pos`, evaluated with budget f+1, evaluates `a` at `q` with budget f -/
def Calls (g : Grammar) (inp : Array Char) (E : PE) (pos : Nat) (a : PE) (q : Nat) : Prop :=
  ∀ f1, run g (f1 + 1) E inp pos ≠ .outOfFuel → run g f1 a inp q ≠ .outOfFuel

/-- the body of rule `x` at `q` answers with a budget strictly smaller than any budget `e` at `pos` answers with -/
def Below (g : Grammar) (inp : Array Char) (x : String) (q : Nat) (e : PE) (pos : Nat) : Prop :=
  ∀ f1, run g f1 e inp pos ≠ .outOfFuel → run g (f1 - 1) (ruleBody g x) inp q ≠ .outOfFuel

theorem Below.of_calls {x : String} {k : Nat} {E a : PE} {pos q : Nat}
    (hc : Calls g inp E pos a q) (hb : Below g inp x k a q) : Below g inp x k E pos := by
  intro f1 hne
  cases f1 with
  | zero => exact absurd (run_zero E pos) hne
  | succ f2 =>
    have h1 := hb f2 (hc f2 hne)
    show run g f2 _ inp k ≠ .outOfFuel
    rw [run_mono _ _ (Nat.sub_le f2 1) h1]
    exact h1

theorem below_rule_self (x : String) (pos : Nat) : Below g inp x pos (.rule x) pos := by
  intro f1 hne
  cases f1 with
  | zero => exact absurd (run_zero _ pos) hne
  | succ f2 => rw [run_rule] at hne; exact hne

theorem calls_rule (x : String) (pos : Nat) : Calls g inp (.rule x) pos (ruleBody g x) pos := by
  intro f1 h; rw [run_rule] at h; exact h

theorem calls_seq_left (a b : PE) (pos : Nat) : Calls g inp (.seq a b) pos a pos := by
  intro f1 h ha; rw [run_seq, ha] at h; exact h rfl

theorem calls_alt_left (a b : PE) (pos : Nat) : Calls g inp (.alt a b) pos a pos := by
  intro f1 h ha; rw [run_alt, ha] at h; exact h rfl

theorem calls_star_body (a : PE) (pos : Nat) : Calls g inp (.star a) pos a pos := by
  intro f1 h ha; rw [run_star, ha] at h; exact h rfl

theorem calls_plus_body (a : PE) (pos : Nat) : Calls g inp (.plus a) pos a pos := by
  intro f1 h ha; rw [run_plus, ha] at h; exact h rfl

theorem calls_opt (a : PE) (pos : Nat) : Calls g inp (.opt a) pos a pos := by
  intro f1 h ha; rw [run_opt, ha] at h; exact h rfl

theorem calls_not (a : PE) (pos : Nat) : Calls g inp (.not a) pos a pos := by
  intro f1 h ha; rw [run_not, ha] at h; exact h rfl

theorem calls_and (a : PE) (pos : Nat) : Calls g inp (.and a) pos a pos := by
  intro f1 h ha; rw [run_and, ha] at h; exact h rfl

theorem calls_cap (a : PE) (pos : Nat) : Calls g inp (.cap a) pos a pos := by
  intro f1 h ha; rw [run_cap, ha] at h; exact h rfl

/-- the answer of `a` with any sufficient budget, given one -/
theorem run_eq_of {f0 f1 : Nat} {a : PE} {pos : Nat} {r : Result} (h0 : run g f0 a inp pos = r)
    (hr : r ≠ .outOfFuel) (h1 : run g f1 a inp pos ≠ .outOfFuel) : run g f1 a inp pos = r := by
  rw [← h0]; exact run_agree h1 (by rw [h0]; exact hr)

theorem calls_seq_right {f0 : Nat} {a b : PE} {pos p : Nat} {t : List Tok}
    (ha : run g f0 a inp pos = .ok p t) : Calls g inp (.seq a b) pos b p := by
  intro f1 h hb
  have h1 := run_eq_of ha (by simp) (calls_seq_left a b pos f1 h)
  rw [run_seq, h1] at h
  simp only [hb] at h
  exact h rfl

theorem calls_alt_right {f0 : Nat} {a b : PE} {pos : Nat}
    (ha : run g f0 a inp pos = .fail) : Calls g inp (.alt a b) pos b pos := by
  intro f1 h hb
  have h1 := run_eq_of ha (by simp) (calls_alt_left a b pos f1 h)
  rw [run_alt, h1] at h
  exact h hb

theorem calls_star_rest {f0 : Nat} {a : PE} {pos p : Nat} {t : List Tok}
    (ha : run g f0 a inp pos = .ok p t) : Calls g inp (.star a) pos (.star a) p := by
  intro f1 h hb
  have h1 := run_eq_of ha (by simp) (calls_star_body a pos f1 h)
  rw [run_star, h1] at h
  simp only [hb] at h
  exact h rfl

theorem calls_plus_rest {f0 : Nat} {a : PE} {pos p : Nat} {t : List Tok}
    (ha : run g f0 a inp pos = .ok p t) : Calls g inp (.plus a) pos (.star a) p := by
  intro f1 h hb
  have h1 := run_eq_of ha (by simp) (calls_plus_body a pos f1 h)
  rw [run_plus, h1] at h
  simp only [hb] at h
  exact h rfl

/-- an iteration of a loop that answers consumes a character -/
theorem star_advances : ∀ (f : Nat) {f0 : Nat} {a : PE} {pos p : Nat} {t : List Tok},
    run g f (.star a) inp pos ≠ .outOfFuel → run g f0 a inp pos = .ok p t → pos < p := by
  intro f
  induction f with
  | zero => intro f0 a pos p t h; exact absurd (run_zero _ pos) h
  | succ f ih =>
    intro f0 a pos p t h ha
    have hle := run_pos_le f0 a pos p t ha
    rcases Nat.lt_or_ge pos p with hlt | hge
    · exact hlt
    · have hp : p = pos := by omega
      subst hp
      exact ih (calls_star_rest ha f h) ha

/-! ### the potential: Σ over the keys of a universe that are still absent from the table -/

def pot (c : String → Nat → Nat) (U : List (String × Nat)) (t : T) : Nat :=
  (U.map fun k => if (find? t k.1 k.2).isNone then c k.1 k.2 else 0).sum

theorem pot_empty (c : String → Nat → Nat) (U : List (String × Nat)) :
    pot c U (empty : T) = (U.map fun k => c k.1 k.2).sum := by
  unfold pot
  congr 1
  apply List.map_congr_left
  intro k _
  simp [find?_empty]

theorem pot_insert_le (c : String → Nat → Nat) (U : List (String × Nat)) (t : T) (x : String) (q : Nat) (v : Result) :
    pot c U (insert t x q v) ≤ pot c U t := by
  unfold pot
  induction U with
  | nil => simp
  | cons k rest ih =>
    simp only [List.map_cons, List.sum_cons]
    have : (if (find? (insert t x q v) k.1 k.2).isNone then c k.1 k.2 else 0) ≤
        (if (find? t k.1 k.2).isNone then c k.1 k.2 else 0) := by
      rw [find?_insert]
      split <;> simp
    omega

theorem pot_insert_absent (c : String → Nat → Nat) (U : List (String × Nat)) (t : T) (x : String) (q : Nat)
    (v : Result) (hU : (x, q) ∈ U) (habs : find? t x q = none) :
    pot c U (insert t x q v) + c x q ≤ pot c U t := by
  induction U with
  | nil => cases hU
  | cons k rest ih =>
    have hrest := pot_insert_le c rest t x q v
    unfold pot at ih hrest ⊢
    simp only [List.map_cons, List.sum_cons]
    rcases List.mem_cons.mp hU with hk | hk
    · subst hk
      have h1 : (if (find? (insert t x q v) (x, q).1 (x, q).2).isNone then c (x, q).1 (x, q).2 else 0) = 0 := by
        simp [find?_insert]
      have h2 : (if (find? t (x, q).1 (x, q).2).isNone then c (x, q).1 (x, q).2 else 0) = c x q := by
        simp [habs]
      rw [h1, h2]
      omega
    · have := ih hk
      have h1 : (if (find? (insert t x q v) k.1 k.2).isNone then c k.1 k.2 else 0) ≤
          (if (find? t k.1 k.2).isNone then c k.1 k.2 else 0) := by
        rw [find?_insert]
        split <;> simp
      omega

/-- all (rule, position) pairs of a grammar on an input of n characters -/
def univ (g : Grammar) (n : Nat) : List (String × Nat) :=
  g.flatMap fun r => (List.range (n + 1)).map fun q => (r.1, q)

theorem mem_univ {x : String} {q n : Nat} (hx : x ∈ g.map Prod.fst) (hq : q ≤ n) : (x, q) ∈ univ g n := by
  obtain ⟨r, hr, rfl⟩ := List.mem_map.mp hx
  exact List.mem_flatMap.mpr ⟨r, hr, List.mem_map.mpr ⟨q, List.mem_range.mpr (by omega), rfl⟩⟩

theorem sum_const_one : ∀ (l : List (String × Nat)), (l.map fun _ => 1).sum = l.length
  | [] => rfl
  | _ :: l => by simp [sum_const_one l]; omega

theorem length_univ (g : Grammar) (n : Nat) : (univ g n).length = g.length * (n + 1) := by
  unfold univ
  induction g with
  | nil => simp
  | cons r rest ih =>
    simp only [List.flatMap_cons, List.length_append, List.length_map, List.length_range, List.length_cons, ih]
    rw [Nat.add_mul]; omega

theorem sum_univ (c : String → Nat → Nat) (g : Grammar) (n : Nat) :
    ((univ g n).map fun k => c k.1 k.2).sum =
      (g.map fun r => ((List.range (n + 1)).map fun q => c r.1 q).sum).sum := by
  unfold univ
  induction g with
  | nil => simp
  | cons r rest ih =>
    simp only [List.flatMap_cons, List.map_append, List.sum_append, List.map_cons, List.sum_cons, ih, List.map_map]
    rfl

/-! ### arithmetic of `work` -/

theorem work_pos (e : PE) (m : Nat) : 1 ≤ work e m := by
  cases e <;> simp only [work] <;> try omega
  · exact Nat.mul_pos (by omega) (by omega)

theorem work_mono (e : PE) : ∀ {m m' : Nat}, m ≤ m' → work e m ≤ work e m' := by
  induction e with
  | seq a b iha ihb => intro m m' h; simp only [work]; have := iha h; have := ihb h; omega
  | alt a b iha ihb => intro m m' h; simp only [work]; have := iha h; have := ihb h; omega
  | star a ih =>
    intro m m' h; simp only [work]
    exact Nat.mul_le_mul (by omega) (by have := ih h; omega)
  | plus a ih =>
    intro m m' h; simp only [work]
    have h1 : (m + 1) * (1 + work a m) ≤ (m' + 1) * (1 + work a m') :=
      Nat.mul_le_mul (by omega) (by have := ih h; omega)
    have := ih h
    omega
  | opt a ih => intro m m' h; simp only [work]; have := ih h; omega
  | not a ih => intro m m' h; simp only [work]; have := ih h; omega
  | and a ih => intro m m' h; simp only [work]; have := ih h; omega
  | cap a ih => intro m m' h; simp only [work]; have := ih h; omega
  | _ => intro m m' _; simp [work]

/-- one more iteration: body at `pos`, the rest of the loop at `p > pos` -/
theorem work_star_step (a : PE) {n pos p : Nat} (h1 : pos < p) (h2 : p ≤ n) :
    work a (n - pos) + work (.star a) (n - p) + 1 ≤ work (.star a) (n - pos) := by
  simp only [work]
  have hm : n - p + 1 ≤ n - pos := by omega
  have hw : work a (n - p) ≤ work a (n - pos) := work_mono a (by omega)
  have h3 : (n - p + 1) * (1 + work a (n - p)) ≤ (n - pos) * (1 + work a (n - pos)) :=
    Nat.mul_le_mul hm (by omega)
  rw [Nat.add_mul (n - pos) 1]
  omega

theorem work_star_last (a : PE) (m : Nat) : work a m + 1 ≤ work (.star a) m := by
  simp only [work]
  rw [Nat.add_mul m 1]
  omega

theorem work_plus_step (a : PE) {n pos p : Nat} (h1 : pos ≤ p) :
    work a (n - pos) + work (.star a) (n - p) + 1 ≤ work (.plus a) (n - pos) := by
  have h := work_mono (.star a) (m := n - p) (m' := n - pos) (by omega)
  simp only [work] at h ⊢
  omega

end JPV.Peg
