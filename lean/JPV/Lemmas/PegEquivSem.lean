/-
Lemmas/PegEquivSem — semantics of the pieces of Peg/Equiv: `runSeq`, matchers (`matcher?` / `mres`),
the first-character analysis `behave`.
-/
import JPV.Lemmas.Peg
import JPV.Lemmas.PegEquivCS
namespace JPV.Peg

variable {g : Grammar} {inp : Array Char}

/-! ### glue, runSeq -/

@[simp] theorem glue_fail (t : List Tok) : glue t .fail = .fail := rfl
@[simp] theorem glue_oof (t : List Tok) : glue t .outOfFuel = .outOfFuel := rfl
@[simp] theorem glue_ok (t : List Tok) (p : Nat) (t' : List Tok) : glue t (.ok p t') = .ok p (t ++ t') := rfl
@[simp] theorem glue_nil (r : Result) : glue [] r = r := by cases r <;> simp [glue]

theorem glue_ne_oof {t : List Tok} {r : Result} (h : glue t r ≠ .outOfFuel) : r ≠ .outOfFuel := by
  intro e; subst e; exact h rfl

theorem glue_glue (t t' : List Tok) (r : Result) : glue t (glue t' r) = glue (t ++ t') r := by
  cases r <;> simp [glue, List.append_assoc]

theorem run_seq' (f : Nat) (a b : PE) (pos : Nat) :
    run g (f + 1) (.seq a b) inp pos =
      match run g f a inp pos with
      | .ok p t => glue t (run g f b inp p)
      | r => r := by
  rw [run_seq]
  cases run g f a inp pos with
  | ok p t => cases run g f b inp p <;> rfl
  | _ => rfl

theorem run_star' (f : Nat) (a : PE) (pos : Nat) :
    run g (f + 1) (.star a) inp pos =
      match run g f a inp pos with
      | .fail => .ok pos []
      | .outOfFuel => .outOfFuel
      | .ok p t => glue t (run g f (.star a) inp p) := by
  rw [run_star]
  cases run g f a inp pos with
  | ok p t => cases run g f (.star a) inp p <;> rfl
  | _ => rfl

theorem run_plus' (f : Nat) (a : PE) (pos : Nat) :
    run g (f + 1) (.plus a) inp pos =
      match run g f a inp pos with
      | .ok p t => glue t (run g f (.star a) inp p)
      | r => r := by
  rw [run_plus]
  cases run g f a inp pos with
  | ok p t => cases run g f (.star a) inp p <;> rfl
  | _ => rfl

theorem runSeq_nil (f : Nat) (pos : Nat) : runSeq g f [] inp pos = .ok pos [] := rfl

theorem runSeq_cons (f : Nat) (e : PE) (es : List PE) (pos : Nat) :
    runSeq g f (e :: es) inp pos =
      match run g f e inp pos with
      | .ok p t => glue t (runSeq g f es inp p)
      | r => r := rfl

theorem runSeq_single (f : Nat) (e : PE) (pos : Nat) : runSeq g f [e] inp pos = run g f e inp pos := by
  rw [runSeq_cons]
  cases run g f e inp pos <;> simp [runSeq_nil]

/-- a result that is not `outOfFuel` survives more fuel -/
theorem run_lift {f F : Nat} {e : PE} {pos : Nat} {r : Result}
    (h : run g f e inp pos = r) (hr : r ≠ .outOfFuel) (hle : f ≤ F) : run g F e inp pos = r := by
  rw [run_mono e pos hle (by rw [h]; exact hr), h]

theorem runSeq_lift : ∀ {l : List PE} {f F : Nat} {pos : Nat} {r : Result},
    runSeq g f l inp pos = r → r ≠ .outOfFuel → f ≤ F → runSeq g F l inp pos = r := by
  intro l
  induction l with
  | nil => intro f F pos r h _ _; rw [runSeq_nil] at *; exact h
  | cons e es ih =>
    intro f F pos r h hr hle
    rw [runSeq_cons] at h ⊢
    cases he : run g f e inp pos with
    | fail => rw [he] at h; rw [run_lift he (by simp) hle]; exact h
    | outOfFuel => rw [he] at h; exact absurd h.symm hr
    | ok p t =>
      rw [he] at h
      rw [run_lift he (by simp) hle]
      simp only at h ⊢
      have hne : runSeq g f es inp p ≠ .outOfFuel := glue_ne_oof (by rw [h]; exact hr)
      rw [ih rfl hne hle]; exact h

/-- decomposition of a sequence run that answered -/
theorem runSeq_cons_inv {f : Nat} {e : PE} {es : List PE} {pos : Nat} {r : Result}
    (h : runSeq g f (e :: es) inp pos = r) (hr : r ≠ .outOfFuel) :
    (run g f e inp pos = .fail ∧ r = .fail) ∨
    (∃ p t r', run g f e inp pos = .ok p t ∧ runSeq g f es inp p = r' ∧ r' ≠ .outOfFuel ∧ r = glue t r') := by
  rw [runSeq_cons] at h
  cases he : run g f e inp pos with
  | fail => rw [he] at h; exact Or.inl ⟨rfl, h.symm⟩
  | outOfFuel => rw [he] at h; exact absurd h.symm hr
  | ok p t =>
    rw [he] at h; simp only at h
    refine Or.inr ⟨p, t, _, rfl, rfl, ?_, h.symm⟩
    exact glue_ne_oof (by rw [h]; exact hr)

theorem runSeq_cons_fail {f : Nat} {e : PE} {es : List PE} {pos : Nat}
    (h : run g f e inp pos = .fail) : runSeq g f (e :: es) inp pos = .fail := by
  rw [runSeq_cons, h]

theorem runSeq_cons_ok {f : Nat} {e : PE} {es : List PE} {pos p : Nat} {t : List Tok}
    (h : run g f e inp pos = .ok p t) : runSeq g f (e :: es) inp pos = glue t (runSeq g f es inp p) := by
  rw [runSeq_cons, h]

theorem runSeq_append (f : Nat) (l es : List PE) (pos : Nat) :
    runSeq g f (l ++ es) inp pos =
      match runSeq g f l inp pos with
      | .ok p t => glue t (runSeq g f es inp p)
      | r => r := by
  induction l generalizing pos with
  | nil => simp [runSeq_nil]
  | cons e l ih =>
    rw [List.cons_append, runSeq_cons, runSeq_cons]
    cases run g f e inp pos with
    | ok p t =>
      simp only
      rw [ih]
      cases runSeq g f l inp p with
      | ok p' t' => simp [glue_glue]
      | _ => simp
    | _ => rfl

/-! ### matchLit -/

theorem matchLit_append (cs ds : List Char) (pos : Nat) :
    matchLit inp (cs ++ ds) pos = (matchLit inp cs pos && matchLit inp ds (pos + cs.length)) := by
  induction cs generalizing pos with
  | nil => simp [matchLit]
  | cons c cs ih =>
    simp only [List.cons_append, matchLit, List.length_cons]
    cases inp[pos]? with
    | none => simp
    | some d =>
      simp only
      rw [ih, Bool.and_assoc]
      have : pos + 1 + cs.length = pos + (cs.length + 1) := by omega
      rw [this]

theorem run_lit_split (f : Nat) (s s1 s2 : String) (pos : Nat) (hs : s.toList = s1.toList ++ s2.toList) :
    run g (f + 1) (.lit s) inp pos = runSeq g (f + 1) [.lit s1, .lit s2] inp pos := by
  rw [runSeq_cons, run_lit, run_lit, hs, matchLit_append]
  have hl : s.length = s1.length + s2.length := by
    rw [← String.length_toList, hs, List.length_append, String.length_toList, String.length_toList]
  cases h1 : matchLit inp s1.toList pos with
  | false => simp
  | true =>
    simp only [Bool.true_and, if_true]
    rw [runSeq_single, run_lit, String.length_toList]
    cases matchLit inp s2.toList (pos + s1.length) with
    | false => simp
    | true => simp [hl, Nat.add_assoc]

/-! ### normalisation steps -/

theorem norm1_run {a : PE} {l : List PE} (h : norm1 a = some l) :
    (∀ f pos r, run g f a inp pos = r → r ≠ .outOfFuel → runSeq g f l inp pos = r) ∧
    (∀ f pos r, runSeq g f l inp pos = r → r ≠ .outOfFuel → run g (f + 1) a inp pos = r) := by
  cases a with
  | seq a b =>
    simp only [norm1, Option.some.injEq] at h; subst h
    constructor
    · intro f pos r hrun hr
      cases f with
      | zero => rw [run_zero] at hrun; exact absurd hrun.symm hr
      | succ f =>
        rw [run_seq'] at hrun
        rw [runSeq_cons]
        cases ha : run g f a inp pos with
        | fail => rw [ha] at hrun; rw [run_lift ha (by simp) (Nat.le_succ f)]; exact hrun
        | outOfFuel => rw [ha] at hrun; exact absurd hrun.symm hr
        | ok p t =>
          rw [ha] at hrun
          rw [run_lift ha (by simp) (Nat.le_succ f)]
          simp only at hrun ⊢
          have hb : run g f b inp p ≠ .outOfFuel := glue_ne_oof (by rw [hrun]; exact hr)
          rw [runSeq_single, run_lift rfl hb (Nat.le_succ f)]; exact hrun
    · intro f pos r hrun _
      rw [run_seq']
      rw [runSeq_cons] at hrun
      cases ha : run g f a inp pos with
      | ok p t => rw [ha] at hrun; simp only at hrun ⊢; rw [runSeq_single] at hrun; exact hrun
      | fail => rw [ha] at hrun; exact hrun
      | outOfFuel => rw [ha] at hrun; exact hrun
  | lit s =>
    simp only [norm1] at h
    split at h
    · rename_i c d rest hs
      simp only [Option.some.injEq] at h; subst h
      have hsplit : s.toList = (String.singleton c).toList ++ (String.ofList (d :: rest)).toList := by
        rw [String.toList_singleton, String.toList_ofList, hs]; rfl
      constructor
      · intro f pos r hrun hr
        cases f with
        | zero => rw [run_zero] at hrun; exact absurd hrun.symm hr
        | succ f => rw [← run_lit_split f s _ _ pos hsplit]; exact hrun
      · intro f pos r hrun hr
        cases f with
        | zero =>
          rw [runSeq_cons, run_zero] at hrun; exact absurd hrun.symm hr
        | succ f =>
          rw [← run_lit_split f s _ _ pos hsplit] at hrun
          exact run_lift hrun hr (Nat.le_succ _)
    · exact absurd h (by simp)
  | plus a =>
    simp only [norm1, Option.some.injEq] at h; subst h
    constructor
    · intro f pos r hrun hr
      cases f with
      | zero => rw [run_zero] at hrun; exact absurd hrun.symm hr
      | succ f =>
        rw [run_plus'] at hrun
        rw [runSeq_cons]
        cases ha : run g f a inp pos with
        | fail => rw [ha] at hrun; rw [run_lift ha (by simp) (Nat.le_succ f)]; exact hrun
        | outOfFuel => rw [ha] at hrun; exact absurd hrun.symm hr
        | ok p t =>
          rw [ha] at hrun
          rw [run_lift ha (by simp) (Nat.le_succ f)]
          simp only at hrun ⊢
          have hb : run g f (.star a) inp p ≠ .outOfFuel := glue_ne_oof (by rw [hrun]; exact hr)
          rw [runSeq_single, run_lift rfl hb (Nat.le_succ f)]; exact hrun
    · intro f pos r hrun _
      rw [run_plus']
      rw [runSeq_cons] at hrun
      cases ha : run g f a inp pos with
      | ok p t => rw [ha] at hrun; simp only at hrun ⊢; rw [runSeq_single] at hrun; exact hrun
      | fail => rw [ha] at hrun; exact hrun
      | outOfFuel => rw [ha] at hrun; exact hrun
  | _ => simp [norm1] at h

/-- replacing the head of a sequence by an equivalent list: as source (same fuel) -/
theorem runSeq_head_src {a : PE} {l as : List PE} {f : Nat} {pos : Nat} {r : Result}
    (hsrc : ∀ r, run g f a inp pos = r → r ≠ .outOfFuel → runSeq g f l inp pos = r)
    (h : runSeq g f (a :: as) inp pos = r) (hr : r ≠ .outOfFuel) : runSeq g f (l ++ as) inp pos = r := by
  rw [runSeq_append]
  rcases runSeq_cons_inv h hr with ⟨ha, rfl⟩ | ⟨p, t, r', ha, hrest, _, rfl⟩
  · rw [hsrc _ ha (by simp)]
  · rw [hsrc _ ha (by simp)]; simp only; rw [hrest]

/-- … as target (`d` more units of fuel) -/
theorem runSeq_head_tgt {b : PE} {l bs : List PE} {F d : Nat} {pos : Nat} {r : Result}
    (htgt : ∀ r, runSeq g F l inp pos = r → r ≠ .outOfFuel → run g (F + d) b inp pos = r)
    (h : runSeq g F (l ++ bs) inp pos = r) (hr : r ≠ .outOfFuel) : runSeq g (F + d) (b :: bs) inp pos = r := by
  rw [runSeq_append] at h
  cases hl : runSeq g F l inp pos with
  | fail => rw [hl] at h; subst h; exact runSeq_cons_fail (htgt _ hl (by simp))
  | outOfFuel => rw [hl] at h; exact absurd h.symm hr
  | ok p t =>
    rw [hl] at h; simp only at h
    rw [runSeq_cons_ok (htgt _ hl (by simp))]
    have hne : runSeq g F bs inp p ≠ .outOfFuel := glue_ne_oof (by rw [h]; exact hr)
    rw [runSeq_lift rfl hne (Nat.le_add_right F d)]; exact h

/-! ### matchers -/

theorem mres_ne_oof (s : CS) (pos : Nat) : mres s inp pos ≠ .outOfFuel := by
  unfold mres
  cases inp[pos]? with
  | none => simp
  | some c => simp only; split <;> simp

theorem matcher_run : ∀ (e : PE) (s : CS), matcher? e = some s →
    ∀ (f pos : Nat), e.depth ≤ f → run g f e inp pos = mres s inp pos
  | .cls neg rs, s, h, f, pos, hd => by
    cases f with
    | zero => simp [PE.depth] at hd
    | succ f =>
      rw [run_cls]; unfold mres
      cases neg with
      | false =>
        simp only [matcher?, Option.some.injEq] at h; subst h
        cases inp[pos]? with
        | none => rfl
        | some c => simp only [CS.mem_ofRanges]; cases inRanges c rs <;> simp
      | true =>
        simp only [matcher?, Option.some.injEq] at h; subst h
        cases inp[pos]? with
        | none => rfl
        | some c => simp only [CS.mem, CS.mem_ofRanges]; cases inRanges c rs <;> simp
  | .any, s, h, f, pos, hd => by
    cases f with
    | zero => simp [PE.depth] at hd
    | succ f =>
      simp only [matcher?, Option.some.injEq] at h; subst h
      rw [run_any]; unfold mres
      by_cases hp : pos < inp.size
      · simp [hp, CS.mem]
      · simp [hp]
  | .lit str, s, h, f, pos, hd => by
    cases f with
    | zero => simp [PE.depth] at hd
    | succ f =>
      simp only [matcher?] at h
      split at h
      · rename_i c hs
        simp only [Option.some.injEq] at h; subst h
        have hl : str.length = 1 := by rw [← String.length_toList, hs]; rfl
        rw [run_lit, hs]; unfold mres
        simp only [matchLit, hl]
        cases inp[pos]? with
        | none => simp
        | some d =>
          simp only [CS.mem, Bool.and_true]
          by_cases hcd : c = d
          · subst hcd; simp
          · have hne : (c == d) = false := by simpa using hcd
            have hnat : ¬ (c.toNat ≤ d.toNat ∧ d.toNat ≤ c.toNat) := by
              intro ⟨h1, h2⟩
              exact hcd (Char.toNat_inj.mp (Nat.le_antisymm h1 h2))
            rw [hne]
            have : (Nat.ble c.toNat d.toNat && Nat.ble d.toNat c.toNat) = false := by
              rw [Bool.eq_false_iff]; intro hh
              simp only [Bool.and_eq_true, Nat.ble_eq] at hh
              exact hnat hh
            simp [this]
      · exact absurd h (by simp)
  | .alt a b, s, h, f, pos, hd => by
    cases f with
    | zero => simp [PE.depth] at hd
    | succ f =>
      simp only [matcher?] at h
      split at h
      · rename_i x y hx hy
        simp only [Option.some.injEq] at h; subst h
        simp only [PE.depth] at hd
        rw [run_alt, matcher_run a x hx f pos (by omega), matcher_run b y hy f pos (by omega)]
        unfold mres
        cases inp[pos]? with
        | none => rfl
        | some c =>
          simp only [CS.mem]
          by_cases hxc : x.mem c.toNat = true
          · simp [hxc]
          · simp [hxc]
      · exact absurd h (by simp)
  | .seq (.and a) b, s, h, f, pos, hd => by
    simp only [matcher?] at h
    split at h
    · rename_i x y hx hy
      simp only [Option.some.injEq] at h; subst h
      simp only [PE.depth] at hd
      obtain ⟨f, rfl⟩ : ∃ f', f = f' + 1 + 1 := ⟨f - 2, by omega⟩
      rw [run_seq', run_and, matcher_run a x hx f pos (by omega)]
      unfold mres
      cases hc : inp[pos]? with
      | none => rfl
      | some c =>
        simp only
        cases hxc : x.mem c.toNat with
        | false => simp [CS.mem, hxc]
        | true =>
          simp only [if_true]
          rw [matcher_run b y hy (f + 1) pos (by omega)]
          unfold mres; rw [hc]; simp [CS.mem, hxc]
    · exact absurd h (by simp)
  | .seq (.not a) b, s, h, f, pos, hd => by
    simp only [matcher?] at h
    split at h
    · rename_i x y hx hy
      simp only [Option.some.injEq] at h; subst h
      simp only [PE.depth] at hd
      obtain ⟨f, rfl⟩ : ∃ f', f = f' + 1 + 1 := ⟨f - 2, by omega⟩
      rw [run_seq', run_not, matcher_run a x hx f pos (by omega)]
      unfold mres
      cases hc : inp[pos]? with
      | none =>
        simp only
        rw [matcher_run b y hy (f + 1) pos (by omega)]
        unfold mres; rw [hc]; rfl
      | some c =>
        simp only
        cases hxc : x.mem c.toNat with
        | true => simp [CS.mem, hxc]
        | false =>
          simp only [Bool.false_eq_true, if_false]
          rw [matcher_run b y hy (f + 1) pos (by omega)]
          unfold mres; rw [hc]; simp [CS.mem, hxc]
    · exact absurd h (by simp)
  | .seq (.lit _) _, _, h, _, _, _ => by simp [matcher?] at h
  | .seq (.cls _ _) _, _, h, _, _, _ => by simp [matcher?] at h
  | .seq .any _, _, h, _, _, _ => by simp [matcher?] at h
  | .seq (.seq _ _) _, _, h, _, _, _ => by simp [matcher?] at h
  | .seq (.alt _ _) _, _, h, _, _, _ => by simp [matcher?] at h
  | .seq (.star _) _, _, h, _, _, _ => by simp [matcher?] at h
  | .seq (.plus _) _, _, h, _, _, _ => by simp [matcher?] at h
  | .seq (.opt _) _, _, h, _, _, _ => by simp [matcher?] at h
  | .seq (.rule _) _, _, h, _, _, _ => by simp [matcher?] at h
  | .seq (.cap _) _, _, h, _, _, _ => by simp [matcher?] at h
  | .seq (.act _) _, _, h, _, _, _ => by simp [matcher?] at h
  | .star _, _, h, _, _, _ => by simp [matcher?] at h
  | .plus _, _, h, _, _, _ => by simp [matcher?] at h
  | .opt _, _, h, _, _, _ => by simp [matcher?] at h
  | .not _, _, h, _, _, _ => by simp [matcher?] at h
  | .and _, _, h, _, _, _ => by simp [matcher?] at h
  | .rule _, _, h, _, _, _ => by simp [matcher?] at h
  | .cap _, _, h, _, _, _ => by simp [matcher?] at h
  | .act _, _, h, _, _, _ => by simp [matcher?] at h

/-- a matcher that answered answered `mres` -/
theorem matcher_run_of_ne {e : PE} {s : CS} (h : matcher? e = some s) {f pos : Nat} {r : Result}
    (hrun : run g f e inp pos = r) (hr : r ≠ .outOfFuel) : r = mres s inp pos := by
  have := run_lift hrun hr (Nat.le_max_left f e.depth)
  rw [matcher_run e s h _ pos (Nat.le_max_right f e.depth)] at this
  exact this.symm

end JPV.Peg
