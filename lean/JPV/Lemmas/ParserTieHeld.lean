/-
ParserTieHeld — the regenerated chain helpers on a chain that is HELD (popped by the running action, not on
the stack): `deleteRootIdentifier`, `setConnectedText`, `updateAccessorMode`, `updateValueGroup`, `setNext`,
against `Peg.delRoot`, `Peg.connChain`, `Peg.setAccChain`, `Peg.markVg` and list append.
-/
import JPV.Lemmas.ParserTieChain
set_option linter.unusedVariables false
namespace JPV
namespace ParserLayout
open JPV JPV.ParserNode
open JPV.Gen.ParserHelpersGo

/-- an operation on held cells -/
theorem Rep.update_held {c : Peg.Ctx} {g : PS} {L : LSt} {X Y : List (Nat × Cell)} (hrep : Rep c g L (Y ++ X))
    (Y' : List (Nat × Cell)) (h' : Heap) (hframe : Frame (ids Y) g.heap h') (hsat : Sat h' Y')
    (hsub : ∀ i, i ∈ ids Y' → i ∈ ids Y) (hnd : (ids Y').Nodup) :
    Rep c { g with heap := h' } L (Y' ++ X) := by
  have hnd0 := hrep.nodup
  have hsat0 := hrep.sat
  exact {
    params := hrep.params
    paramsList := hrep.paramsList
    root := hrep.root
    sat := by
      intro x hx
      by_cases hin : x ∈ Y'
      · exact hsat x hin
      · have hmem : x ∈ cellsSt L ++ X := by
          simp only [List.mem_append] at hx ⊢
          grind
        show h'[x.1]? = some x.2
        rw [hframe.2 x.1 ?_]
        · exact hsat0 x (by simp only [List.mem_append] at hmem ⊢; grind)
        · intro hm
          have hx1 := mem_ids_of_mem hmem
          simp only [ids_append, List.nodup_append, List.mem_append] at hnd0 hx1
          grind
    nodup := by
      simp only [ids_append, List.nodup_append, List.mem_append] at hnd0 ⊢
      grind
    wfStack := hrep.wfStack
    wfSaved := hrep.wfSaved
    acc := hrep.acc
    ffn := hrep.ffn
    afn := hrep.afn }

theorem Rep.held_sat {c : Peg.Ctx} {g : PS} {L : LSt} {X Y : List (Nat × Cell)} (hrep : Rep c g L (Y ++ X)) :
    Sat g.heap Y ∧ (ids Y).Nodup := by
  have hnd0 := hrep.nodup
  constructor
  · exact hrep.sat.subset (by intro x hx; simp only [List.mem_append]; exact Or.inr (Or.inl hx))
  · simp only [ids_append, List.nodup_append] at hnd0
    exact hnd0.2.1.1

theorem delRootL_ne_nil : ∀ (A : List LN), A ≠ [] → delRootL A ≠ []
  | [], h => absurd rfl h
  | .mk id i s :: rest, _ => by
    cases s with
    | root => cases rest <;> simp [delRootL, delRootNodeL]
    | cur => cases rest <;> simp [delRootL, delRootNodeL]
    | _ => simp [delRootL, delRootNodeL]

theorem sizeCh_delRootL : ∀ (A : List LN), sizeCh (delRootL A) ≤ sizeCh A
  | [] => Nat.le_refl _
  | .mk id i s :: rest => by
    cases s with
    | root =>
      cases rest with
      | nil => exact Nat.le_refl _
      | cons m r =>
        simp only [delRootL, delRootNodeL, sizeCh]
        split
        · rw [sizeN_mapInfo]; omega
        · omega
    | cur =>
      cases rest with
      | nil => exact Nat.le_refl _
      | cons m r =>
        simp only [delRootL, delRootNodeL, sizeCh]
        split
        · rw [sizeN_mapInfo]; omega
        · omega
    | afn name p =>
      have := sizeCh_delRootL p
      simp only [delRootL, delRootNodeL, sizeCh, sizeN, sizeS]
      omega
    | child k => exact Nat.le_refl _
    | wild => exact Nat.le_refl _
    | multi L t => exact Nat.le_refl _
    | desc a b => exact Nat.le_refl _
    | union ss => exact Nat.le_refl _
    | filter q => exact Nat.le_refl _
    | ffn name => exact Nat.le_refl _

/-- `deleteRootIdentifier(node)` on a held chain -/
theorem deleteRootIdentifier_tie (c : Peg.Ctx) (g : PS) (L : LSt) (X : List (Nat × Cell)) (ch : List LN) (fuel : Nat)
    (hrep : Rep c g L (cellsCh ch none ++ X)) (hfuel : sizeCh ch + 2 ≤ fuel) :
    ∃ g' ch', deleteRootIdentifier fuel (headRef ch) g = .ok (headRef ch', g') ∧
      Rep c g' L (cellsCh ch' none ++ X) ∧ eraseCh ch' = Peg.delRoot (eraseCh ch) ∧ (ch ≠ [] → ch' ≠ []) ∧
      sizeCh ch' ≤ sizeCh ch := by
  obtain ⟨hsat, hnd⟩ := hrep.held_sat
  obtain ⟨h', he, hs', hf', hsub⟩ := deleteRootIdentifier_chain fuel ch g hfuel hsat hnd
  refine ⟨{ g with heap := h' }, delRootL ch, he, ?_, eraseCh_delRootL ch, ?_, ?_⟩
  · exact hrep.update_held _ h' hf' hs' (fun i hi => hsub.subset hi) (hsub.nodup hnd)
  · exact delRootL_ne_nil ch
  · exact sizeCh_delRootL ch


/-- `setConnectedText(node)` (no postfix) on a held chain -/
theorem setConnectedText_tie (c : Peg.Ctx) (g : PS) (L : LSt) (X : List (Nat × Cell)) (ch : List LN) (fuel : Nat)
    (hrep : Rep c g L (cellsCh ch none ++ X)) (hne : ch ≠ []) (hnep : nepCh ch = true)
    (hfuel : sizeCh ch + 1 ≤ fuel) :
    ∃ g' ch', setConnectedText fuel (headRef ch) [] g = .ok g' ∧
      Rep c g' L (cellsCh ch' none ++ X) ∧ eraseCh ch' = Peg.connChain "" (eraseCh ch) ∧ headRef ch' = headRef ch := by
  obtain ⟨hsat, hnd⟩ := hrep.held_sat
  obtain ⟨h', he, hs', hf'⟩ := setConnectedText_chain fuel ch [] "" g (Or.inr ⟨rfl, rfl⟩) hne hnep hfuel hsat hnd
  refine ⟨{ g with heap := h' }, connChainL "" ch, he, ?_, eraseCh_connChainL "" ch, headRef_connChainL "" ch⟩
  exact hrep.update_held _ h' hf' hs' (fun i hi => by rw [ids_cellsCh_connChainL] at hi; exact hi)
    (by rw [ids_cellsCh_connChainL]; exact hnd)

/-- `updateAccessorMode(node, mode)` on a held chain -/
theorem updateAccessorMode_tie (c : Peg.Ctx) (g : PS) (L : LSt) (X : List (Nat × Cell)) (ch : List LN) (f : Nat) (m : Bool)
    (hrep : Rep c g L (cellsCh ch none ++ X)) (hfuel : ch.length ≤ f + 2) :
    ∃ g' ch', updateAccessorMode (f + 2) (headRef ch) m g = .ok g' ∧
      Rep c g' L (cellsCh ch' none ++ X) ∧ eraseCh ch' = Peg.setAccChain m (eraseCh ch) ∧ headRef ch' = headRef ch := by
  obtain ⟨hsat, hnd⟩ := hrep.held_sat
  obtain ⟨h', he, hs', hf'⟩ := updateAccessorMode_chain f m ch g hfuel hsat hnd
  refine ⟨{ g with heap := h' }, ch.map (LN.mapDeep (setAccI m)), he, ?_, eraseCh_setAcc m ch,
    headRef_map _ (LN.ref_mapDeep _) ch⟩
  exact hrep.update_held _ h' hf' hs' (fun i hi => by rw [ids_cellsCh_map_mapDeep] at hi; exact hi)
    (by rw [ids_cellsCh_map_mapDeep]; exact hnd)

/-- `updateValueGroup(node)` on a held chain -/
theorem updateValueGroup_tie (c : Peg.Ctx) (g : PS) (L : LSt) (X : List (Nat × Cell)) (ch : List LN) (fuel : Nat)
    (hrep : Rep c g L (cellsCh ch none ++ X)) (hfuel : ch.length ≤ fuel) :
    ∃ g' ch', updateValueGroup fuel (headRef ch) g = .ok g' ∧
      Rep c g' L (cellsCh ch' none ++ X) ∧ eraseCh ch' = Peg.markVg (eraseCh ch) ∧ headRef ch' = headRef ch := by
  obtain ⟨hsat, hnd⟩ := hrep.held_sat
  obtain ⟨h', he, hs', hf'⟩ := updateValueGroup_chain fuel ch g hfuel hsat hnd
  refine ⟨{ g with heap := h' }, markVgL ch, he, ?_, eraseCh_markVgL ch, headRef_markVgL ch⟩
  exact hrep.update_held _ h' hf' hs' (fun i hi => by rw [ids_cellsCh_markVgL] at hi; exact hi)
    (by rw [ids_cellsCh_markVgL]; exact hnd)

/-- `setNext` on a held chain that ends in nil, with a second held chain: the two become one -/
theorem nodeSetNext_tie (c : Peg.Ctx) (g : PS) (L : LSt) (X : List (Nat × Cell)) (A B : List LN) (fuel : Nat)
    (hrep : Rep c g L ((cellsCh A none ++ cellsCh B none) ++ X)) (hne : A ≠ []) (hfuel : A.length < fuel) :
    ∃ g', g.onHeap (nodeSetNext fuel (headRef A) (headRef B)) = .ok g' ∧
      Rep c g' L (cellsCh (A ++ B) none ++ X) ∧ eraseCh (A ++ B) = eraseCh A ++ eraseCh B := by
  obtain ⟨hsat, hnd⟩ := hrep.held_sat
  have hndA : (ids (cellsCh A none)).Nodup := by
    simp only [ids_append, List.nodup_append] at hnd; exact hnd.1
  obtain ⟨h', he, hs', hf'⟩ := nodeSetNext_chain A fuel g.heap (headRef B) hne hfuel hsat.left hndA
  refine ⟨{ g with heap := h' }, onHeap_ok he, ?_, eraseCh_append A B⟩
  have hcells : cellsCh (A ++ B) none = cellsCh A (headRef B) ++ cellsCh B none := by
    rw [cellsCh_append, headRefD_none]
  rw [hcells]
  refine hrep.update_held _ h' (hf'.mono (by intro j hj; rw [ids_append]; exact List.mem_append_left _ hj)) ?_ ?_ ?_
  · refine Sat.append hs' (Sat.frame hsat.right hf' ?_)
    intro x hx hm
    simp only [ids_append, List.nodup_append] at hnd
    exact hnd.2.2 x.1 hm x.1 (mem_ids_of_mem hx) rfl
  · intro i hi
    rw [ids_append, ids_cellsCh A _ none] at hi
    rw [ids_append]; exact hi
  · rw [ids_append, ids_cellsCh A _ none, ← ids_append]; exact hnd

end ParserLayout
end JPV
