/-
ParsePrintRecBlank — the recogniser on a printed path with blanks in front and behind
(`jsonpath <- space rootNode continuedJsonpath`, `continuedJsonpath <- childNode* function* space {2}`):
the same tokens as without the blanks, shifted by the number of leading blanks.
-/
import JPV.Lemmas.ParsePrintRecF
namespace JPV.PP
open JPV.Peg JPV.Print JPV.Lex

variable {inp : Array Char}

def blanks (k : Nat) : List Char := List.replicate k ' '

theorem blanks_succ (k : Nat) : blanks (k + 1) = ' ' :: blanks k := rfl
theorem blanks_length (k : Nat) : (blanks k).length = k := by simp [blanks]

/-- `space` over `k` blanks -/
theorem acc_space_n : ∀ (k : Nat) {p : Nat} {l : List Char}, Sfx inp p (blanks k ++ l) → NoSp l →
    Acc (3 + k) (.rule "space") inp p (p + k) [] := by
  intro k p l h hl
  refine (Acc.rule "space" space_body (Fa := 2 + k) ?_).mono (by omega)
  induction k generalizing p with
  | zero =>
    simp only [blanks, List.replicate_zero, List.nil_append] at h
    exact Acc.star_nil (rej_lit " " [' '] rfl h hl)
  | succ k ih =>
    rw [blanks_succ, List.cons_append] at h
    have a1 := acc_lit1 " " ' ' rfl h
    have a2 := ih h.tail
    exact ((Acc.star_cons a1 a2).mono (by omega)).cast (by omega) rfl

/-- the blanks behind the path stop the steps and the functions -/
theorem blanks_stepStop (m : Nat) : StepStop (blanks m) := by
  cases m with
  | zero => exact .inl rfl
  | succ m => exact .inr rfl

theorem blanks_noDotBracket (m : Nat) : startsWith (fun c => c == '.' || c == '[') (blanks m) = false := by
  cases m <;> rfl

/-- `childNode` fails where nothing that starts a step follows -/
theorem rej_childNode_nostep {p : Nat} {r : List Char} (h : Sfx inp p r)
    (hr : startsWith (fun c => c == '.' || c == '[') r = false) : Rej 10 (.rule "childNode") inp p := by
  have hnd : startsWith (fun c => c == '.') r = false :=
    startsWith_false_of_imp (by intro c hc; simp at hc; simp [hc]) hr
  have hnb : startsWith (fun c => c == '[') r = false :=
    startsWith_false_of_imp (by intro c hc; simp at hc; simp [hc]) hr
  exact (Rej.rule "childNode" childNode_body (Rej.alt (Rej.seq_l _ (rej_lit1 ".." '.' ['.'] rfl h hnd))
    (Rej.alt (Rej.seq_l _ (Rej.cap (Rej.seq_l _ (rej_lit1 "." '.' [] rfl h hnd))))
      (rej_bracketNode h hnb)))).mono (by omega)

theorem acc_functions_b (fns : List Fn) (hfns : fns.all fnNameOK = true) {p : Nat} (m : Nat)
    (h : Sfx inp p (flat fnText fns ++ blanks m)) :
    Acc (14 + 32 * (flat fnText fns).length) (.star (.rule "function")) inp p
      (p + (flat fnText fns).length) (toksStar fnText tkFn fns p) := by
  refine (acc_star_items (inp := inp) (.rule "function") fnText tkFn (fun f => fnNameOK f = true)
    (fun _ => True) 12 5 (blanks m) trivial ?_ ?_ ?_ ?_ fns p ?_ h).mono (by omega)
  · intro _ _ _; trivial
  · intro f _; exact fnText_length_pos f
  · intro f r' pos hf _ hs; exact acc_function f hf hs
  · intro pos hs
    exact rej_function hs (startsWith_false_of_imp (by intro c hc; simp at hc; simp [hc]) (blanks_noDotBracket m))
  · intro f hf; exact List.all_eq_true.mp hfns f hf

theorem acc_steps_b (ss : List Step) (hwf : stepsWf ss = true) (hf : ∀ s ∈ ss, FilterHyp inp s)
    (fns : List Fn) (hfns : fns.all fnNameOK = true) {p : Nat} (m : Nat)
    (h : Sfx inp p (steps ss ++ (fnsText fns ++ blanks m))) :
    Acc (101 + 32 * ((steps ss).length + (fnsText fns).length)) (.star (.rule "childNode")) inp p
      (p + (steps ss).length) (tkSteps p ss) := by
  rw [steps_eq_flat] at h ⊢
  rw [tkSteps_eq]
  have hstop_post : StepStop (fnsText fns ++ blanks m) := by
    cases fns with
    | nil => exact blanks_stepStop m
    | cons f fs => exact .inr rfl
  refine (acc_star_items (inp := inp) (.rule "childNode") (Print.step false) (fun s p => tkStep false p s)
    (fun s => stepWf false s = true ∧ FilterHyp inp s) StepStop 100 (30 + (fnsText fns).length)
    (fnsText fns ++ blanks m) hstop_post ?_ ?_ ?_ ?_ ss p ?_ h).mono (by omega)
  · intro s r' hs
    exact .inr (startsWith_of_true (by intro c hc; simp at hc; rcases hc with rfl | rfl <;> decide)
      (step_false_start s r' hs.1))
  · intro s hs; exact step_false_length_pos s hs.1
  · intro s r' pos hs hstop hsfx; exact acc_step_false s hs.1 hs.2 hsfx hstop
  · intro pos hsfx
    cases fns with
    | nil => exact (rej_childNode_nostep hsfx (blanks_noDotBracket m)).mono (by omega)
    | cons f fs =>
      simp only [fnsText, List.append_assoc] at hsfx
      have hfn : fnNameOK f = true := by simp only [List.all_cons, Bool.and_eq_true] at hfns; exact hfns.1
      refine (rej_childNode_fn f hfn hsfx).mono ?_
      simp only [fnsText, List.length_append]; omega
  · intro s hs; exact ⟨stepsWf_mem ss hwf s hs, hf s hs⟩

/-- the recogniser on `blanks k ++ print p ++ blanks m` -/
theorem recognise_print_blanks (k m : Nat) (ss : List Step) (fns : List Fn)
    (hwf : pathWf (.mk .root ss fns) = true) :
    recognise (blanks k ++ (print (.mk .root ss fns) ++ blanks m)).toArray =
      .ok (k + (print (.mk .root ss fns)).length + m) (tkPath k (.mk .root ss fns) ++ [.action 0]) := by
  have hwf' := hwf
  simp only [pathWf, Bool.and_eq_true] at hwf'
  have h0 := Sfx.zero (blanks k ++ (print (.mk .root ss fns) ++ blanks m))
  generalize hinp : (blanks k ++ (print (.mk .root ss fns) ++ blanks m)).toArray = inp at h0
  have hf : ∀ s ∈ ss, FilterHyp inp s := fun s hs => filterHyp_all inp s false (stepsWf_mem ss hwf'.1 s hs)
  have h0' : Sfx inp 0 (blanks k ++ ('$' :: (steps ss ++ (fnsText fns ++ (blanks m ++ []))))) := by
    simpa [print, path, headChar] using h0
  have hk := h0'.append
  rw [blanks_length, Nat.zero_add] at hk
  have a0 := acc_space_n (inp := inp) k h0' (noSp_cons (by decide) _)
  have a1 : Acc 5 (.rule "rootNode") inp (0 + k) (0 + k + 1) [.action 8] :=
    ((Acc.rule "rootNode" rootNode_body (Acc.alt_l _ (Acc.rule "rootIdentifier" rootId_body
      (Acc.seq (acc_lit1 "$" '$' rfl (by simpa using hk)) (acc_act 8 _))))).mono (by omega)).cast rfl rfl
  have hs1 : Sfx inp (k + 1) (steps ss ++ (fnsText fns ++ blanks m)) := by simpa using hk.tail
  have a2 := acc_steps_b ss hwf'.1 hf fns hwf'.2 m hs1
  have hs2 := hs1.append
  have hs2' : Sfx inp (k + 1 + (steps ss).length) (flat fnText fns ++ blanks m) := by
    rw [← fnsText_eq_flat]; exact hs2
  have a3 := acc_functions_b fns hwf'.2 m hs2'
  have hs3 : Sfx inp (k + 1 + (steps ss).length + (flat fnText fns).length) (blanks m ++ []) := by
    simpa using hs2'.append
  have a4 := acc_space_n (inp := inp) m hs3 rfl
  have hend : Sfx inp (k + 1 + (steps ss).length + (flat fnText fns).length + m) [] := by
    have := hs3.append
    rwa [blanks_length] at this
  have a5 : Acc 3 (.rule "END") inp _ _ [] := Acc.rule "END" end_body (Acc.not (rej_any hend))
  have acont := Acc.rule "continuedJsonpath" continued_body
    (Acc.seq a2 (Acc.seq a3 (Acc.seq a4 (acc_act 2 _))))
  have ajp := Acc.rule "jsonpath" jsonpath_body (Acc.seq a0 (Acc.seq a1 (by simpa using acont)))
  have aexp := Acc.alt_l exprAlt2 (Acc.seq ajp (Acc.seq a5 (acc_act 0 _)))
  have hlen : (print (.mk .root ss fns)).length = 1 + (steps ss).length + (flat fnText fns).length := by
    simp [print, path, fnsText_eq_flat]; omega
  unfold recognise
  rw [expression_body]
  have hsize : inp.size = k + (print (.mk .root ss fns)).length + m := by
    rw [← hinp]; simp [blanks]; omega
  have := aexp (fuelFor inp.size) (by
    rw [hsize, hlen, fnsText_eq_flat]
    simp only [fuelFor]
    omega)
  unfold exprAlt1 at aexp
  rw [show (PE.alt exprAlt1 exprAlt2) = PE.alt (.seq (.rule "jsonpath") (.seq (.rule "END") (.act 0))) exprAlt2 from rfl]
  rw [this]
  congr 1
  rw [hlen]; omega

end JPV.PP
