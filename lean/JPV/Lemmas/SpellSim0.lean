/-
SpellSim0 — the last case of "parse ∘ spell = build ∘ texts": the leading `$` left out in front of a
FILTER step (`[?(@.a)]`, `[ ?( @.a == 1 && @.b ) ].x`).

The simulations of SpellActQ/SpellSim are stated on NON-EMPTY stacks, because action 38 (`saveParams`)
pushes no frame on `saved` when the stack is empty and action 39 (`loadParams`) pops one only if there is
one. When the filter is the first step of a `$`-less path, the machine starts the filter's query on the
EMPTY stack with EMPTY `saved`: the LEFTMOST `{38} … {39}` pair of the query runs there — 38 is a no-op,
the tokens of the operand path build their chain on the empty stack (`path_core_s` is stated there), 39
loads nothing. Every later sub-construct of the query runs on a non-empty stack.

  * `Sim0`: the simulation statement on the stack `pre` with nothing below and `saved = []`;
  * the `stage…` lemmas of ParsePrintActQ again, on that stack;
  * "leftmost" variants of the lemmas of SpellActQ (the left sub-construct by the 0-variant, the right one
    by the existing simulation), the structural recursion down the leftmost branch of the query;
  * the top level (`path_core0f`, `spell_parse_nodollar_filter`) and the combination
    `spell_parse_exact_all`.
-/
import JPV.Lemmas.SpellSim
set_option linter.unusedSimpArgs false
namespace JPV.SP
open JPV.Peg JPV.PP JPV.Lex JPV.Build
open JPV.Print (fnText fnsText opText escRegex headChar)
open JPV.Spell (Quote Sign SInt STail SSub SName Cap SLit ChildForm WildForm Sep SStep SQuery SOperand SOpPath SPath
  optTxt tailP subP keyBody nameP sepP sepsP brP litP childP wildP escLitQ)

/-! ### simulations on a stack with nothing below, top level (`saved = []`) -/

/-- the tokens replace the stack `pre` (nothing below, nothing saved) by `items v` -/
structure Sim0 {α : Type} (c : Ctx) (toks : List Tok) (pre : List Item) (items : α → List Item)
    (b : Except ParseErr α) (pos : Nat) : Prop where
  ok : ∀ v, b = .ok v → ∀ (rt : Option (List N)) (tb te : Nat), ∃ tb' te', ∀ rest,
      execFrom c ⟨pre, [], rt, tb, te⟩ (toks ++ rest) = execFrom c ⟨items v, [], rt, tb', te'⟩ rest
  err : ∀ e, b = .error e → ∀ (rt : Option (List N)) (tb te : Nat), ∀ rest,
      execFrom c ⟨pre, [], rt, tb, te⟩ (toks ++ rest) = .error (stopOf pos e)

/-- a simulation on non-empty stacks, run on the stack `stk` with nothing below -/
theorem sim_to0 {α : Type} {c : Ctx} {toks : List Tok} {items : α → List Item} {b : Except ParseErr α}
    {pos : Nat} (h : Sim c toks items b pos) (stk : List Item) (hne : stk ≠ []) :
    Sim0 c toks stk (fun v => items v ++ stk) b pos :=
  ⟨fun v hv rt tb te => h.ok v hv stk [] rt tb te hne, fun e he rt tb te => h.err e he stk [] rt tb te hne⟩

theorem Sim0.seq {α β : Type} {c : Ctx} {t1 t2 : List Tok} {pre : List Item} {i1 : α → List Item}
    {i2 : β → List Item} {b1 : Except ParseErr α} {f : α → Except ParseErr β} {pos1 pos2 : Nat}
    (h1 : Sim0 c t1 pre i1 b1 pos1) (h2 : ∀ a, b1 = .ok a → Sim0 c t2 (i1 a) i2 (f a) pos2) :
    Sim0 c (t1 ++ t2) pre i2 (b1 >>= f) (seqPos b1 pos1 pos2) := by
  cases b1 with
  | error e0 =>
    constructor
    · intro v hv; cases hv
    · intro e he rt tb te
      cases he
      have h3 := h1.err e0 rfl rt tb te
      exact fun rest => by rw [List.append_assoc, h3]; rfl
  | ok a =>
    constructor
    · intro v hv rt tb te
      obtain ⟨tb1, te1, h3⟩ := h1.ok a rfl rt tb te
      obtain ⟨tb2, te2, h4⟩ := (h2 a rfl).ok v hv rt tb1 te1
      exact ⟨tb2, te2, fun rest => by rw [List.append_assoc, h3, h4]⟩
    · intro e he rt tb te
      obtain ⟨tb1, te1, h3⟩ := h1.ok a rfl rt tb te
      have h4 := (h2 a rfl).err e he rt tb1 te1
      exact fun rest => by rw [List.append_assoc, h3, h4]; rfl

theorem Sim0.cast {α : Type} {c : Ctx} {t t' : List Tok} {pre : List Item} {i i' : α → List Item}
    {b b' : Except ParseErr α} {pos pos' : Nat} (h : Sim0 c t pre i b pos) (ht : t = t') (hi : i = i')
    (hb : b = b') (hp : pos = pos') : Sim0 c t' pre i' b' pos' := by
  subst ht; subst hi; subst hb; subst hp; exact h

/-! ### the stages of ParsePrintActQ with nothing below -/

theorem stage37_0 (c : Ctx) (h : Head) (ch : List N) (p e : Nat) :
    Sim0 c [.text p e, .action 37] [Item.bool (decide (h = .root)), Item.query (.exist (headP h ch))]
      (fun x : P => [Item.cp x])
      (if (true && chainVg ch) = true then .error .valueGroupOperand else .ok (headP h ch)) p := by
  cases hvg : chainVg ch with
  | true =>
    constructor
    · intro v hv; simp at hv
    · intro e0 he rt tb te
      simp at he; subst he
      intro rest
      cases h <;>
      simp [execFrom_text, execFrom_action, act, act37, pop, push, asBool, asJP, headP, paramChain, hvg,
        bind, Except.bind, stopOf]
  | false =>
    constructor
    · intro v hv rt tb te
      simp at hv; subst hv
      refine ⟨p, e, fun rest => ?_⟩
      cases h <;>
      simp [execFrom_text, execFrom_action, act, act37, pop, push, asBool, asJP, headP, paramChain, hvg,
        bind, Except.bind, isCurP]
    · intro e0 he; simp at he

theorem stage27_0 (c : Ctx) (neg b : Bool) (Q0 : Q) {p : Nat} {s r : List Char} (c0 : Char) (s' : List Char)
    (hs : s = c0 :: s') (hc : (c0 == '!') = neg) (h : Sfx c.input p (s ++ r)) {pos : Nat} :
    Sim0 c [.text p (p + s.length), .action 27] [Item.bool b, Item.query Q0] (fun q' : Q => [Item.query q'])
      (.ok (if neg then .not Q0 else Q0)) pos := by
  constructor
  · intro v hv rt tb te
    cases hv
    refine ⟨p, p + s.length, fun rest => ?_⟩
    have ht : textOf c.input p (p + s.length) = String.ofList (c0 :: s') := by rw [textOf_sfx h, hs]
    cases neg <;> simp at hc <;>
    simp [execFrom_text, execFrom_action, act, act27, pop, push, asQuery, St.text, ht,
      String.toList_ofList, hc, bind, Except.bind]
  · intro e he; cases he

theorem stageCmp_0 (c : Ctx) (op : CmpOp) (a b : P) (p e : Nat) :
    Sim0 c [.action (opAction op), .text p e, .action 26] [Item.cp b, Item.cp a] (fun q : Q => [Item.query q])
      (if (isCur a && isCur b) = true then .error .twoCurrentNodes else .ok (mkCmp op a b)) p := by
  cases hcur : (isCur a && isCur b) with
  | true =>
    constructor
    · intro v hv; simp at hv
    · intro e0 he rt tb te
      simp at he; subst he
      intro rest
      simp only [List.cons_append, List.nil_append]
      rw [exec_cmpop]
      simp [execFrom_text, execFrom_action, act, act26, pop, push,
        twoCur_mkCmp, hcur, bind, Except.bind, stopOf]
  | false =>
    constructor
    · intro v hv rt tb te
      simp at hv; subst hv
      refine ⟨p, e, fun rest => ?_⟩
      simp only [List.cons_append, List.nil_append]
      rw [exec_cmpop]
      simp [execFrom_text, execFrom_action, act, act26, pop, push,
        twoCur_mkCmp, hcur, bind, Except.bind]
    · intro e0 he; simp at he

theorem stage34_0 (c : Ctx) (re : String) (hc : c.ext.regexCompile re = .ok) (x : P) {p3 : Nat} {r : List Char}
    (h : Sfx c.input p3 (re.toList ++ r)) (p e : Nat) {pos : Nat} :
    Sim0 c [.text p3 (p3 + re.toList.length), .action 34, .text p e, .action 26] [Item.cp x]
      (fun q : Q => [Item.query q]) (.ok (.cmp x (.lit (.str "regex")) (.regex re))) pos := by
  constructor
  · intro v hv rt tb te
    cases hv
    refine ⟨p, e, fun rest => ?_⟩
    simp [execFrom_text, execFrom_action, act, act34, act26, pop, push, asCP, St.text, textOf_sfx h,
      String.ofList_toList, hc, twoCurrentNodes, isCurP, bind, Except.bind]
  · intro e he; cases he

theorem stage24_0 (c : Ctx) (lq rq : Q) {pos : Nat} :
    Sim0 c [.action 24] [Item.query rq, Item.query lq] (fun q : Q => [Item.query q]) (.ok (.or lq rq)) pos := by
  constructor
  · intro v hv rt tb te
    cases hv
    exact ⟨tb, te, fun rest => rfl⟩
  · intro e he; cases he

theorem stage25_0 (c : Ctx) (lq rq : Q) {pos : Nat} :
    Sim0 c [.action 25] [Item.query rq, Item.query lq] (fun q : Q => [Item.query q]) (.ok (.and lq rq)) pos := by
  constructor
  · intro v hv rt tb te
    cases hv
    exact ⟨tb, te, fun rest => rfl⟩
  · intro e he; cases he

theorem stage23_0 (c : Ctx) (q' : Q) {p : Nat} {s r : List Char} (h : Sfx c.input p (s ++ r)) {pos : Nat} :
    Sim0 c [.action 23, .text p (p + s.length), .action 7] [Item.query q']
      (fun pres : List Pre => [Item.chain (pres.map (rawOf c.acc))])
      (.ok [.node (String.ofList s) true (fun i => .filter i q')]) pos := by
  constructor
  · intro v hv rt tb te
    cases hv
    refine ⟨p, p + s.length, fun rest => ?_⟩
    simp only [List.cons_append, List.nil_append]
    rw [execFrom_action_ok c _ ⟨.chain [.filter (mkInfo c "" true) q'] :: [], [], rt, tb, te⟩ 23 _ rfl,
      exec_setText c 7 (.inr rfl) _ _ h]
    rfl
  · intro e he; cases he

/-! ### the simulation statements for the leftmost constructs -/

def SQSim0 (c : Ctx) (cfg : Cfg) (q : SQuery) : Prop :=
  ∀ (k p : Nat) (r : List Char), Sfx c.input p (Spell.query q ++ (Spell.blanks k ++ r)) →
    ∃ pos, Sim0 c (tkQS k p q) [] (fun q' : Q => [Item.query q']) (buildQ c.env cfg (Spell.queryT true q)) pos

def SOperandSim0 (c : Ctx) (cfg : Cfg) (o : SOperand) : Prop :=
  ∀ (k : Nat) (ord : Bool) (p : Nat) (r : List Char), Sfx c.input p (Spell.operand o ++ (Spell.blanks k ++ r)) →
    ∃ pos, Sim0 c (tkOperandS k ord p o) [] (fun x : P => [Item.cp x])
      (buildOperand c.env cfg (Spell.operandT true o)) pos

def SParamSim0 (c : Ctx) (cfg : Cfg) (q : SOpPath) : Prop :=
  ∀ (p : Nat) (r : List Char), Sfx c.input p (Spell.opath q ++ r) →
    ∃ pos, Sim0 c (.action 38 :: (tkOPathS p q ++ [.action 39])) []
      (fun ch : List N => [Item.bool (decide (opathHead q = .root)), Item.query (.exist (headP (opathHead q) ch))])
      (buildPath c.env cfg false (Spell.opathT true q)) pos

/-- the operand path of a filter at the very start: `saveParams` saves nothing, `loadParams` loads nothing -/
theorem paramSim0_of_s (c : Ctx) (cfg : Cfg) (h : Head) (ss : List SStep) (fns : List Fn)
    (hs : ∀ s ∈ ss, SStepSim c cfg false s) (hk : ∀ f ∈ fns, fnKindOK c.env f) :
    SParamSim0 c cfg (.mk h ss fns) := by
  intro p r hsfx
  have hsave : ∀ (rt : Option (List N)) (tb te : Nat) (rest : List Tok),
      execFrom c ⟨[], [], rt, tb, te⟩ (.action 38 :: rest) = execFrom c ⟨[], [], rt, tb, te⟩ rest := by
    intro rt tb te rest
    rfl
  obtain ⟨pos, hcore⟩ := path_core_s c cfg false h ss fns hs hk hsfx
  refine ⟨pos, ?_, ?_⟩
  · intro ch hch rt tb te
    obtain ⟨hok, _⟩ := hcore [] rt tb te
    obtain ⟨sp, hsp, hall, tb', te', ex⟩ := hok ch hch
    have hb := buildPath_of_sp' c.env cfg false c.acc h _ fns sp hsp hall
    rw [opathT_mk, hb] at hch
    cases hch
    refine ⟨tb', te', fun rest => ?_⟩
    simp only [List.cons_append, List.append_assoc]
    rw [hsave, ex]
    have hL := markVg_ne_nil (linkedOf_ne_nil c.acc h sp fns)
    obtain ⟨m, Lr, hm⟩ : ∃ m Lr, Build.markVg (linkedOf c.acc h sp fns) = m :: Lr := by
      cases hx : Build.markVg (linkedOf c.acc h sp fns) with
      | nil => exact absurd hx hL
      | cons m Lr => exact ⟨m, Lr, rfl⟩
    have hih : innerHead (Build.markVg (linkedOf c.acc h sp fns)) = headKind h := by
      rw [innerHead_markVg, linkedOf, innerHead_linkPres c.acc _ _ (by simp), innerHead_headRaw]
    simp only [List.singleton_append, execFrom_action, act, act39, loadParams, pop, bind, Except.bind,
      List.cons_append, List.nil_append]
    rw [hm] at hih ⊢
    simp only [asNode, hih]
    cases h <;> simp only [headKind, push, ccChain, headP, opathHead, Bool.false_and, Bool.false_eq_true, if_false] <;>
      rw [← hm] <;> rfl
  · intro e he rt tb te
    obtain ⟨_, herr⟩ := hcore [] rt tb te
    have ex := herr e he
    intro rest
    simp only [List.cons_append, List.append_assoc]
    rw [hsave, ex]

/-! ### the leftmost variants of the lemmas of SpellActQ -/

theorem sim_operand_lit0 (c : Ctx) (cfg : Cfg) (l : SLit) (hl : litOKS c.ext l) : SOperandSim0 c cfg (.lit l) := by
  intro k ord p r h
  have hb : buildOperand c.env cfg (Spell.operandT true (.lit l)) = .ok (.lit l.erase.toVal) := by
    rw [Spell.operandT, buildOperand]
  rw [hb]
  rw [Spell.operand] at h
  refine ⟨p, ?_, ?_⟩
  · intro v hv rt tb te
    cases hv
    exact exec_lit_s c l hl k ord h [] [] rt tb te
  · intro e he; cases he

theorem sim_single0 (c : Ctx) (cfg : Cfg) (q : SOpPath) (hq : SParamSim0 c cfg q) {p : Nat} {r : List Char}
    (h : Sfx c.input p (Spell.opath q ++ r)) (e : Nat) :
    ∃ pos, Sim0 c (.action 38 :: (tkOPathS p q ++ [.action 39, .text p e, .action 37])) []
      (fun x : P => [Item.cp x]) (buildP c.env cfg true (Spell.opathT true q)) pos := by
  rw [buildP_opathT]
  obtain ⟨pos1, h0⟩ := hq p r h
  have h1 := h0.seq (t2 := [.text p e, .action 37])
    (i2 := fun x : P => [Item.cp x])
    (f := fun ch => if (true && chainVg ch) = true then .error .valueGroupOperand else .ok (headP (opathHead q) ch))
    (fun ch _ => stage37_0 c (opathHead q) ch p e)
  exact ⟨_, h1.cast (by simp) rfl rfl rfl⟩

theorem sim_operand_path0 (c : Ctx) (cfg : Cfg) (q : SOpPath) (hq : SParamSim0 c cfg q) :
    SOperandSim0 c cfg (.path q) := by
  intro k ord p r h
  rw [Spell.operand] at h
  rw [Spell.operandT, buildOperand, tkOperandS]
  exact sim_single0 c cfg q hq h _

theorem sim_exist0 (c : Ctx) (cfg : Cfg) (neg : Option Nat) (q : SOpPath) (hq : SParamSim0 c cfg q) :
    SQSim0 c cfg (.exist neg q) := by
  intro k p r h
  rw [buildQ_exist_s, tkQS]
  have h0 : Sfx c.input (p + negLen neg) (Spell.opath q ++ (Spell.blanks k ++ r)) := by
    cases neg with
    | none =>
      rw [Spell.query] at h
      simpa [negLen] using h
    | some j =>
      rw [Spell.query] at h
      simp only [List.cons_append, List.append_assoc] at h
      exact sfx_cast (sfx_blanks h.tail) (by simp only [negLen]; omega)
  have hs : ∃ c0 s', Spell.query (.exist neg q) ++ Spell.blanks k = c0 :: s' ∧ (c0 == '!') = neg.isSome := by
    cases neg with
    | none =>
      rw [Spell.query, opath_cons q]
      exact ⟨_, _, rfl, headChar_ne_bang _⟩
    | some j =>
      rw [Spell.query]
      exact ⟨_, _, rfl, rfl⟩
  obtain ⟨c0, s', hs1, hs2⟩ := hs
  have h' : Sfx c.input p ((Spell.query (.exist neg q) ++ Spell.blanks k) ++ r) := by
    rw [List.append_assoc]; exact h
  obtain ⟨pos1, hq1⟩ := hq _ _ h0
  have h1 := hq1.seq (pos2 := pos1)
    (f := fun ch => .ok (if neg.isSome then Q.not (.exist (headP (opathHead q) ch))
      else .exist (headP (opathHead q) ch)))
    (fun ch _ => stage27_0 c neg.isSome (decide (opathHead q = .root)) (.exist (headP (opathHead q) ch)) c0 s' hs1 hs2 h')
  exact ⟨_, h1.cast (by simp [blanks_length, Nat.add_assoc]) rfl rfl rfl⟩

theorem sim_cmp0 (c : Ctx) (cfg : Cfg) (op : CmpOp) (l : SOperand) (bl br : Nat) (r : SOperand)
    (hl : SOperandSim0 c cfg l) (hr : SOperandSim c cfg r) : SQSim0 c cfg (.cmp op l bl br r) := by
  intro k p r0 h
  rw [buildQ_cmp_s, tkQS]
  rw [Spell.query] at h
  simp only [List.append_assoc] at h
  obtain ⟨pos1, h1⟩ := hl bl (isOrdOp op) p _ h
  have h2' : Sfx c.input (p + (Spell.operand l).length + bl + (opText op).length + br)
      (Spell.operand r ++ (Spell.blanks k ++ r0)) := sfx_blanks (sfx_blanks h.append).append
  obtain ⟨pos2, h2⟩ := hr k (isOrdOp op) _ _ h2'
  exact ⟨_, (h1.seq (fun a _ => (sim_to0 h2 [Item.cp a] (by simp)).seq (fun b _ => stageCmp_0 c op a b p _))).cast
    rfl rfl rfl rfl⟩

theorem sim_regex0 (c : Ctx) (cfg : Cfg) (q : SOpPath) (bl br : Nat) (re : String) (hq : SParamSim0 c cfg q)
    (hre : Print.regexOK re = true) (hc : c.ext.regexCompile re = .ok) : SQSim0 c cfg (.regex q bl br re) := by
  intro k p r h
  rw [buildQ_regex_s, tkQS, escRegex_okQ re hre]
  rw [Spell.query, escRegex_okQ re hre] at h
  simp only [List.append_assoc, List.cons_append, List.nil_append] at h
  have h3 : Sfx c.input (p + (Spell.opath q).length + bl + 2 + br + 1) (re.toList ++ ('/' :: (Spell.blanks k ++ r))) :=
    sfx_cast (sfx_blanks (sfx_blanks h.append).tail.tail).tail (by omega)
  obtain ⟨pos1, hs⟩ := sim_single0 c cfg q hq h (p + (Spell.opath q).length + bl)
  have h1 := hs.seq (pos2 := pos1)
    (f := fun l => .ok (Q.cmp l (.lit (.str "regex")) (.regex re)))
    (fun x _ => stage34_0 c re hc x h3 p (p + (Spell.query (.regex q bl br re)).length))
  exact ⟨_, h1.cast (by simp) rfl rfl rfl⟩

theorem sim_or0 (c : Ctx) (cfg : Cfg) (a : SQuery) (l r : Nat) (b : SQuery) (ha : SQSim0 c cfg a)
    (hb : SQSim c cfg b) : SQSim0 c cfg (.or a l r b) := by
  intro k p r0 h
  rw [buildQ_or_s, tkQS]
  rw [Spell.query] at h
  simp only [List.append_assoc, List.cons_append] at h
  obtain ⟨pos1, s1⟩ := ha l p _ h
  have h2 : Sfx c.input (p + (Spell.query a).length + l + 2 + r) (Spell.query b ++ (Spell.blanks k ++ r0)) :=
    sfx_cast (sfx_blanks (sfx_blanks h.append).tail.tail) (by omega)
  obtain ⟨pos2, s2⟩ := hb k _ _ h2
  exact ⟨_, (s1.seq (fun x _ => (sim_to0 s2 [Item.query x] (by simp)).seq (pos2 := pos2)
    (fun y _ => stage24_0 c x y))).cast rfl rfl rfl rfl⟩

theorem sim_and0 (c : Ctx) (cfg : Cfg) (a : SQuery) (l r : Nat) (b : SQuery) (ha : SQSim0 c cfg a)
    (hb : SQSim c cfg b) : SQSim0 c cfg (.and a l r b) := by
  intro k p r0 h
  rw [buildQ_and_s, tkQS]
  rw [Spell.query] at h
  simp only [List.append_assoc, List.cons_append] at h
  obtain ⟨pos1, s1⟩ := ha l p _ h
  have h2 : Sfx c.input (p + (Spell.query a).length + l + 2 + r) (Spell.query b ++ (Spell.blanks k ++ r0)) :=
    sfx_cast (sfx_blanks (sfx_blanks h.append).tail.tail) (by omega)
  obtain ⟨pos2, s2⟩ := hb k _ _ h2
  exact ⟨_, (s1.seq (fun x _ => (sim_to0 s2 [Item.query x] (by simp)).seq (pos2 := pos2)
    (fun y _ => stage25_0 c x y))).cast rfl rfl rfl rfl⟩

theorem sim_paren0 (c : Ctx) (cfg : Cfg) (l : Nat) (q : SQuery) (r : Nat) (hq : SQSim0 c cfg q) :
    SQSim0 c cfg (.paren l q r) := by
  intro k p r0 h
  rw [Spell.queryT, tkQS]
  rw [Spell.query] at h
  simp only [List.append_assoc, List.cons_append, List.nil_append] at h
  exact hq r (p + 1 + l) _ (sfx_blanks h.tail)

/-- a filter step on the empty stack at top level -/
def SStepSim0f (c : Ctx) (cfg : Cfg) (ad : Bool) (s : SStep) : Prop :=
  ∀ (p : Nat) (r : List Char), Sfx c.input p (Spell.step ad s ++ r) →
    ∃ pos, Sim0 c (tkStepS ad p s) [] (fun pres : List Pre => [Item.chain (pres.map (rawOf c.acc))])
      (stepPre c.env cfg (Spell.stepT true ad s)) pos

theorem sim_step_filter0 (c : Ctx) (cfg : Cfg) (ad : Bool) (b0 b1 : Nat) (q : SQuery) (b2 b3 : Nat)
    (hq : SQSim0 c cfg q) : SStepSim0f c cfg ad (.filter b0 b1 q b2 b3) := by
  intro p r h
  rw [stepPre_filterS, tkStepS]
  have h0 : Sfx c.input (p + 1 + b0 + 2 + b1)
      (Spell.query q ++ (Spell.blanks b2 ++ (')' :: (Spell.blanks b3 ++ ']' :: r)))) := by
    have := h
    rw [Spell.step] at this
    simp only [List.cons_append, List.append_assoc, List.nil_append] at this
    exact sfx_cast (sfx_blanks (sfx_blanks this.tail).tail.tail) (by omega)
  obtain ⟨pos1, s1⟩ := hq b2 _ _ h0
  exact ⟨_, (s1.seq (pos2 := pos1) (fun q' _ => stage23_0 c q' h)).cast rfl rfl rfl rfl⟩

/-! ### the recursion down the leftmost branch of the query -/

theorem sim_param0 (c : Ctx) (cfg : Cfg) : (p : SOpPath) → Spell.opathWf p = true → Spell.opathNC p = true →
    opathExtS c.ext p → opathEnvS c.env p → SParamSim0 c cfg p
  | .mk h ss fns, hwf, hnc, hext, henv =>
    have hwf' : Spell.stepsWf ss = true ∧ fns.all Print.fnNameOK = true := by simpa [Spell.opathWf] using hwf
    have henv' : stepsEnvS c.env ss ∧ ∀ f ∈ fns, fnKindOK c.env f := by rw [opathEnvS] at henv; exact henv
    paramSim0_of_s c cfg h ss fns
      (sim_steps_s c cfg ss hwf'.1 (by rw [Spell.opathNC] at hnc; exact hnc) (by rw [opathExtS] at hext; exact hext)
        henv'.1) henv'.2

theorem sim_operand0 (c : Ctx) (cfg : Cfg) : (o : SOperand) → (ord : Bool) → Spell.operandWf ord o = true →
    Spell.operandNC o = true → operandExtS c.ext o → operandEnvS c.env o → SOperandSim0 c cfg o
  | .lit l, _, _, _, hext, _ => sim_operand_lit0 c cfg l (by rw [operandExtS] at hext; exact hext)
  | .path p, _, hwf, hnc, hext, henv =>
    sim_operand_path0 c cfg p (sim_param0 c cfg p (by rw [Spell.operandWf] at hwf; exact hwf)
      (by rw [Spell.operandNC] at hnc; exact hnc) (by rw [operandExtS] at hext; exact hext)
      (by rw [operandEnvS] at henv; exact henv))

theorem sim_query0 (c : Ctx) (cfg : Cfg) : (q : SQuery) → Spell.queryWf q = true → Spell.queryNC q = true →
    queryExtS c.ext q → queryEnvS c.env q → SQSim0 c cfg q
  | .or a l r b, hwf, hnc, hext, henv =>
    have hwf' : (Spell.queryWf a = true ∧ Spell.queryWf b = true) ∧ 1 ≤ Spell.level b := by
      simpa [Spell.queryWf] using hwf
    have hnc' : Spell.queryNC a = true ∧ Spell.queryNC b = true := by simpa [Spell.queryNC] using hnc
    have hext' : queryExtS c.ext a ∧ queryExtS c.ext b := by rw [queryExtS] at hext; exact hext
    have henv' : queryEnvS c.env a ∧ queryEnvS c.env b := by rw [queryEnvS] at henv; exact henv
    sim_or0 c cfg a l r b (sim_query0 c cfg a hwf'.1.1 hnc'.1 hext'.1 henv'.1)
      (sim_query_s c cfg b hwf'.1.2 hnc'.2 hext'.2 henv'.2)
  | .and a l r b, hwf, hnc, hext, henv =>
    have hwf' : ((Spell.queryWf a = true ∧ Spell.queryWf b = true) ∧ 1 ≤ Spell.level a) ∧ 2 ≤ Spell.level b := by
      simpa [Spell.queryWf] using hwf
    have hnc' : Spell.queryNC a = true ∧ Spell.queryNC b = true := by simpa [Spell.queryNC] using hnc
    have hext' : queryExtS c.ext a ∧ queryExtS c.ext b := by rw [queryExtS] at hext; exact hext
    have henv' : queryEnvS c.env a ∧ queryEnvS c.env b := by rw [queryEnvS] at henv; exact henv
    sim_and0 c cfg a l r b (sim_query0 c cfg a hwf'.1.1.1 hnc'.1 hext'.1 henv'.1)
      (sim_query_s c cfg b hwf'.1.1.2 hnc'.2 hext'.2 henv'.2)
  | .exist neg p, hwf, hnc, hext, henv =>
    sim_exist0 c cfg neg p (sim_param0 c cfg p (by rw [Spell.queryWf] at hwf; exact hwf)
      (by rw [Spell.queryNC] at hnc; exact hnc) (by rw [queryExtS] at hext; exact hext)
      (by rw [queryEnvS] at henv; exact henv))
  | .cmp op l bl br r, hwf, hnc, hext, henv =>
    have hwf' : Spell.operandWf (Print.isOrd op) l = true ∧ Spell.operandWf (Print.isOrd op) r = true := by
      simpa [Spell.queryWf] using hwf
    have hnc' : Spell.operandNC l = true ∧ Spell.operandNC r = true := by simpa [Spell.queryNC] using hnc
    have hext' : operandExtS c.ext l ∧ operandExtS c.ext r := by rw [queryExtS] at hext; exact hext
    have henv' : operandEnvS c.env l ∧ operandEnvS c.env r := by rw [queryEnvS] at henv; exact henv
    sim_cmp0 c cfg op l bl br r (sim_operand0 c cfg l _ hwf'.1 hnc'.1 hext'.1 henv'.1)
      (sim_operand_s c cfg r _ hwf'.2 hnc'.2 hext'.2 henv'.2)
  | .regex p bl br re, hwf, hnc, hext, henv =>
    have hwf' : Spell.opathWf p = true ∧ Print.regexOK re = true := by simpa [Spell.queryWf] using hwf
    have hext' : opathExtS c.ext p ∧ c.ext.regexCompile re = .ok := by rw [queryExtS] at hext; exact hext
    sim_regex0 c cfg p bl br re (sim_param0 c cfg p hwf'.1 (by rw [Spell.queryNC] at hnc; exact hnc) hext'.1
      (by rw [queryEnvS] at henv; exact henv)) hwf'.2 hext'.2
  | .paren l q r, hwf, hnc, hext, henv =>
    sim_paren0 c cfg l q r (sim_query0 c cfg q (by rw [Spell.queryWf] at hwf; exact hwf)
      (by rw [Spell.queryNC] at hnc; exact hnc) (by rw [queryExtS] at hext; exact hext)
      (by rw [queryEnvS] at henv; exact henv))

/-! ### the whole path without its `$`, first step on the empty stack (it may fail) -/

/-- `path_core0` of SpellSim with a first step whose `stepPre` may be an error, at top level (`saved = []`) -/
theorem path_core0f (c : Ctx) (cfg : Cfg) (s : SStep) (ss : List SStep) (fns : List Fn)
    (hnd : ∀ s', s ≠ .desc s') (h0 : SStepSim0f c cfg true s)
    (hs : ∀ x ∈ ss, SStepSim c cfg false x) (hk : ∀ f ∈ fns, fnKindOK c.env f) {p : Nat} {r : List Char}
    (hsfx : Sfx c.input p (Spell.step true s ++ (Spell.steps ss ++ (fnsText fns ++ r)))) :
    ∃ pos, ∀ (rt : Option (List N)) (tb te : Nat),
    (∀ ch, buildPath c.env cfg true
        (.mk .root (Spell.stepT true true s :: Spell.stepsT true ss) (fns.map Print.fnT)) = .ok ch →
      ∃ p0 sp, NicePre p0 ∧ isFnPre p0 = false ∧
        stepsPre c.env cfg (Spell.stepT true true s :: Spell.stepsT true ss) = .ok (p0 :: sp) ∧
        (∀ f ∈ fns, fnFound c.env f = true) ∧
        ∃ tb' te', ∀ rest, execFrom c ⟨[], [], rt, tb, te⟩
            (tkStepS true p s ++ (tkStepsS (p + (Spell.step true s).length) ss ++
              (toksStar fnText tkFn fns (p + (Spell.step true s).length + (Spell.steps ss).length) ++
                ([.action 2] ++ rest)))) =
          execFrom c ⟨[.chain (Build.markVg (linkPres c.acc [rawOf c.acc p0] (sp ++ fns.map fnPreT)))],
            [], rt, tb', te'⟩ rest) ∧
    (∀ e, buildPath c.env cfg true
        (.mk .root (Spell.stepT true true s :: Spell.stepsT true ss) (fns.map Print.fnT)) = .error e →
      ∀ rest, execFrom c ⟨[], [], rt, tb, te⟩
          (tkStepS true p s ++ (tkStepsS (p + (Spell.step true s).length) ss ++
            (toksStar fnText tkFn fns (p + (Spell.step true s).length + (Spell.steps ss).length) ++
              ([.action 2] ++ rest)))) = .error (stopOf pos e)) := by
  obtain ⟨pos0, S0⟩ := h0 p _ hsfx
  cases hpre0 : stepPre c.env cfg (Spell.stepT true true s) with
  | error e0 =>
    have hsp' : stepsPre c.env cfg (Spell.stepT true true s :: Spell.stepsT true ss) = .error e0 := by
      rw [stepsPre, hpre0]; rfl
    have hb := buildPath_steps_err' c.env cfg true .root _ (fns.map Print.fnT) e0 hsp'
    refine ⟨pos0, fun rt tb te => ⟨fun ch hch => (by rw [hb] at hch; cases hch), fun e he => ?_⟩⟩
    rw [hb] at he
    cases he
    exact fun rest => S0.err e0 hpre0 rt tb te _
  | ok pres0 =>
  obtain ⟨t0, vg0, mk0, rfl, hmk0⟩ := stepPre_single c.env cfg _ (stepT_not_desc_s true true s hnd) pres0 hpre0
  have h1 := hsfx.append
  obtain ⟨pos, hss⟩ := stepsSim_of_s c cfg ss _ _ hs h1
  refine ⟨pos, fun rt tb te => ?_⟩
  obtain ⟨tb0, te0, e0⟩ := S0.ok _ hpre0 rt tb te
  simp only [List.map_cons, List.map_nil] at e0
  have h2 := h1.append
  rw [fnsText_eq_flat] at h2
  cases hsp : stepsPre c.env cfg (Spell.stepsT true ss) with
  | error e1 =>
    have hsp' : stepsPre c.env cfg (Spell.stepT true true s :: Spell.stepsT true ss) = .error e1 := by
      rw [stepsPre, hpre0, hsp]; rfl
    have hb := buildPath_steps_err' c.env cfg true .root _ (fns.map Print.fnT) e1 hsp'
    refine ⟨fun ch hch => (by rw [hb] at hch; cases hch), fun e he => ?_⟩
    rw [hb] at he
    cases he
    have ex := hss.err _ hsp [.chain [rawOf c.acc (.node t0 vg0 mk0)]] [] rt tb0 te0 (by simp)
    exact fun rest => by rw [e0, ex]
  | ok sp =>
    have hsp' : stepsPre c.env cfg (Spell.stepT true true s :: Spell.stepsT true ss) =
        .ok (.node t0 vg0 mk0 :: sp) := by
      rw [stepsPre, hpre0, hsp]; rfl
    have hnice := stepsPre_nice c.env cfg _ sp hsp
    obtain ⟨groups, hg1, hg2, tb1, te1, e1⟩ := hss.ok sp hsp [.chain [rawOf c.acc (.node t0 vg0 mk0)]] [] rt tb0 te0
      (by simp)
    by_cases hall : ∀ f ∈ fns, fnFound c.env f = true
    · have hb := buildPath_of_sp' c.env cfg true c.acc .root _ fns _ hsp' hall
      refine ⟨fun ch _ => ⟨.node t0 vg0 mk0, sp, hmk0, rfl, hsp', hall, ?_⟩,
        fun e he => (by rw [hb] at he; cases he)⟩
      obtain ⟨tb2, te2, e2⟩ := exec_fns c [] rt fns (p + (Spell.step true s).length + (Spell.steps ss).length) r
        (groupItems c.acc groups ++ [.chain [rawOf c.acc (.node t0 vg0 mk0)]]) tb1 te1
        (fun f hf => ⟨hk f hf, hall f hf⟩) h2
      refine ⟨tb2, te2, fun rest => ?_⟩
      rw [e0, e1, e2]
      simp only [List.singleton_append, execFrom_action]
      have hlink : linkAll [rawOf c.acc (.node t0 vg0 mk0)]
          (groups.map (fun g => Item.chain (g.map (rawOf c.acc))) ++
            fns.map (fun f => Item.chain [rawOf c.acc (fnPreT f)])) =
          .ok (linkPres c.acc [rawOf c.acc (.node t0 vg0 mk0)] (sp ++ fns.map fnPreT)) := by
        rw [linkAll_append, linkAll_groups c.acc groups _ (fun g hg => ⟨hg2 g hg, fun q hq =>
          hnice q (by rw [← hg1]; exact List.mem_flatten.mpr ⟨g, hg, hq⟩)⟩)]
        simp only [bind, Except.bind]
        rw [linkAll_fns, hg1, linkPres_append, linkPres_nodes c.acc sp _ (fun q hq => (hnice q hq).2)]
      have hstack : (fns.map (fun f => Item.chain [rawOf c.acc (fnPreT f)])).reverse ++
          (groupItems c.acc groups ++ [Item.chain [rawOf c.acc (.node t0 vg0 mk0)]]) =
          (groups.map (fun g => Item.chain (g.map (rawOf c.acc))) ++
            fns.map (fun f => Item.chain [rawOf c.acc (fnPreT f)])).reverse ++
              [Item.chain [rawOf c.acc (.node t0 vg0 mk0)]] := by
        simp [groupItems]
      rw [hstack, act2_eq c _ _ _ (by simp) hlink]
      rfl
    · obtain ⟨fs1, f, fs2, rfl, hf1, hf2⟩ := fns_split c.env fns hall
      have hb := buildPath_missing_of_sp' c.env cfg true .root _ fs1 f fs2 _ hsp' hf1 hf2
      refine ⟨fun ch hch => (by rw [hb] at hch; cases hch), fun e he => ?_⟩
      rw [hb] at he
      cases he
      intro rest
      rw [e0, e1, stopOf_fn _ 0]
      exact exec_fns_missing c [] rt fs1 f fs2 _ r _ tb1 te1
        (fun g hg => ⟨hk g (by simp [hg]), hf1 g hg⟩) (hk f (by simp)) hf2 h2 _

/-- **parse ∘ spell = build ∘ texts** for a spelled path written WITHOUT its `$` whose first step is a filter -/
theorem spell_parse_nodollar_filter (env : Env) (ext : Ext) (cfg : Cfg) (lead : Nat) (b0 b1 : Nat) (q : SQuery)
    (b2 b3 : Nat) (ss : List SStep) (fns : List Fn) (trail : Nat)
    (hwf : Spell.wf ⟨lead, false, .filter b0 b1 q b2 b3 :: ss, fns, trail⟩ = true)
    (hnc : Spell.noColon ⟨lead, false, .filter b0 b1 q b2 b3 :: ss, fns, trail⟩ = true)
    (hext : ExtOKS ext ⟨lead, false, .filter b0 b1 q b2 b3 :: ss, fns, trail⟩)
    (henv : EnvOKS env ⟨lead, false, .filter b0 b1 q b2 b3 :: ss, fns, trail⟩) :
    ∃ pos, parseModel env ext cfg (Spell.printS ⟨lead, false, .filter b0 b1 q b2 b3 :: ss, fns, trail⟩) =
      outcomeOfBuild (Spell.print ⟨lead, false, .filter b0 b1 q b2 b3 :: ss, fns, trail⟩).toArray pos
        (Build.build env cfg (Spell.texts ⟨lead, false, .filter b0 b1 q b2 b3 :: ss, fns, trail⟩)) := by
  have hrec := recognise_spell _ hwf
  generalize hs : SStep.filter b0 b1 q b2 b3 = s at *
  generalize hA : (Spell.print ⟨lead, false, s :: ss, fns, trail⟩).toArray = inp at hrec ⊢
  have hwf' : ((Spell.stepWf false s = true ∧ Spell.stepsWf ss = true) ∧ fns.all Print.fnNameOK = true) ∧
      Spell.isDesc s = false := by
    simpa [Spell.wf, Spell.stepsWf] using hwf
  have hnc' : Spell.stepNC s = true ∧ Spell.stepsNC ss = true := by
    simpa [Spell.noColon, Spell.stepsNC] using hnc
  have hext' : stepExtS ext s ∧ stepsExtS ext ss := by
    have := hext; unfold ExtOKS at this; rw [stepsExtS] at this; exact this
  have henv' : (stepEnvS env s ∧ stepsEnvS env ss) ∧ ∀ f ∈ fns, fnKindOK env f := by
    have := henv; unfold EnvOKS at this; rw [stepsEnvS] at this; exact this
  have hs' := sim_steps_s ⟨env, ext, cfg.accessor, inp⟩ cfg ss hwf'.1.1.2 hnc'.2 hext'.2 henv'.1.2
  have hnd : ∀ s', s ≠ .desc s' := by
    intro s' h; rw [← hs] at h; cases h
  have h0 : SStepSim0f ⟨env, ext, cfg.accessor, inp⟩ cfg true s := by
    rw [← hs]
    have hq1 : Spell.queryWf q = true := by
      have := hwf'.1.1.1; rw [← hs, Spell.stepWf] at this; exact this
    have hq2 : Spell.queryNC q = true := by
      have := hnc'.1; rw [← hs, Spell.stepNC] at this; exact this
    have hq3 : queryExtS ext q := by
      have := hext'.1; rw [← hs, stepExtS] at this; exact this
    have hq4 : queryEnvS env q := by
      have := henv'.1.1; rw [← hs, stepEnvS] at this; exact this
    exact sim_step_filter0 _ cfg true b0 b1 q b2 b3 (sim_query0 ⟨env, ext, cfg.accessor, inp⟩ cfg q hq1 hq2 hq3 hq4)
  have hsfx : Sfx inp lead (Spell.step true s ++ (Spell.steps ss ++ (fnsText fns ++ Spell.blanks trail))) := by
    have h1 : Spell.print ⟨lead, false, s :: ss, fns, trail⟩ =
        Spell.blanks lead ++ (Spell.step true s ++ (Spell.steps ss ++ (fnsText fns ++ Spell.blanks trail))) := by
      simp [Spell.print, Spell.topSteps]
    have h2 := Sfx.zero (Spell.print ⟨lead, false, s :: ss, fns, trail⟩)
    rw [hA] at h2
    rw [h1] at h2
    simpa using sfx_blanks h2
  obtain ⟨pos, hcore⟩ := path_core0f ⟨env, ext, cfg.accessor, inp⟩ cfg s ss fns hnd h0 hs' henv'.2 hsfx
  obtain ⟨hok, herr⟩ := hcore none 0 0
  refine ⟨pos, ?_⟩
  have htexts : Spell.texts ⟨lead, false, s :: ss, fns, trail⟩ =
      .mk .root (Spell.stepT true true s :: Spell.stepsT true ss) (fns.map Print.fnT) := by
    simp [Spell.texts, Spell.topStepsT, fnW_true]
  have hpm : parseModel env ext cfg (Spell.printS ⟨lead, false, s :: ss, fns, trail⟩) = parseInput env ext cfg inp := by
    rw [parseModel_spell, hA]
  rw [hpm, parseInput_of_recognise env ext cfg hrec, exec_eq, tkTopS_nodollar, Build.build, htexts]
  cases hb : buildPath env cfg true
      (.mk .root (Spell.stepT true true s :: Spell.stepsT true ss) (fns.map Print.fnT)) with
  | ok ch =>
    obtain ⟨p0, sp, hn0, hf0, hsp, hall, tb', te', ex⟩ := hok ch hb
    have hb' := buildPath_of_sp' env cfg true cfg.accessor .root _ fns _ hsp hall
    rw [hb'] at hb
    cases hb
    have hne : linkPres cfg.accessor [rawOf cfg.accessor p0] (sp ++ fns.map fnPreT) ≠ [] :=
      linkPres_ne_nil _ _ _ (by simp)
    rw [ex, exec_finish _ _ (markVg_ne_nil hne)]
    have hnice := stepsPre_nice env cfg _ _ hsp
    have hTA : TA cfg.accessor (linkPres cfg.accessor [rawOf cfg.accessor p0] (sp ++ fns.map fnPreT)) := by
      apply TA.linkPres
      · intro n hn
        simp only [List.mem_singleton] at hn
        subst hn
        cases p0 with
        | node t vg mk =>
          have hm : NiceMk mk := hn0
          simp only [rawOf, nodeWith]
          rw [hm.acc]
        | ffn t n => cases hf0
        | afn t n => cases hf0
      · intro q hq
        rcases List.mem_append.mp hq with hq | hq
        · exact (hnice q (List.mem_cons_of_mem _ hq)).1
        · obtain ⟨f, _, rfl⟩ := List.mem_map.mp hq
          cases f <;> trivial
    have := (hTA.markVg).delRoot
    rw [List.cons_append, headless_eq cfg.accessor p0 hn0 hf0]
    show ParseOutcome.ok (connChain "" (delRoot (Build.markVg
        (linkPres cfg.accessor [rawOf cfg.accessor p0] (sp ++ fns.map fnPreT))))) =
      ParseOutcome.ok (ccChain true "" (setAccChain (true && cfg.accessor)
        (delRoot (Build.markVg (linkPres cfg.accessor [rawOf cfg.accessor p0] (sp ++ fns.map fnPreT))))))
    simp only [ccChain, Bool.true_and, if_true, this.setAcc]
  | error e =>
    rw [herr e hb]
    rfl

/-- **parse ∘ spell = build ∘ texts**, exactly, on the whole domain of spelled paths (no `[1:2:]`):
    `Parse` on the spelling answers the chain `Build.build` answers on the texts recorded for that
    spelling, or the error `Build.build` answers — with the `$`, or without it in front of any first step -/
theorem spell_parse_exact_all (env : Env) (ext : Ext) (cfg : Cfg) (a : SPath) (hwf : Spell.wf a = true)
    (hnc : Spell.noColon a = true) (hext : ExtOKS ext a) (henv : EnvOKS env a) :
    ∃ pos, parseModel env ext cfg (Spell.printS a) =
      outcomeOfBuild (Spell.print a).toArray pos (Build.build env cfg (Spell.texts a)) := by
  by_cases hd : a.dollar = true
  · exact spell_parse_exact' env ext cfg a hwf (.inl hd) hnc hext henv
  · obtain ⟨lead, dollar, steps, fns, trail⟩ := a
    have hd' : dollar = false := by simpa using hd
    subst hd'
    cases steps with
    | nil => simp [Spell.wf] at hwf
    | cons s ss =>
      cases s with
      | child f k => exact spell_parse_exact' env ext cfg _ hwf (.inr rfl) hnc hext henv
      | wild f => exact spell_parse_exact' env ext cfg _ hwf (.inr rfl) hnc hext henv
      | multi lb n ns rb => exact spell_parse_exact' env ext cfg _ hwf (.inr rfl) hnc hext henv
      | union lb s ss' rb => exact spell_parse_exact' env ext cfg _ hwf (.inr rfl) hnc hext henv
      | filter b0 b1 q b2 b3 =>
        exact spell_parse_nodollar_filter env ext cfg lead b0 b1 q b2 b3 ss fns trail hwf hnc hext henv
      | desc s' => simp [Spell.wf, Spell.isDesc] at hwf

end JPV.SP
