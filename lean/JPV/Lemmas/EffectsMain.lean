/-
Soundness of the tag checker, part 5: the main induction.
If the checker maps the abstract state `A` to `A'` for the expression `e`, then on every token list a
successful run of `e` can produce, `Execute()` started in a state described by `A` either ends with a
documented error or ends in a state described by `A'`.
-/
import JPV.Lemmas.EffectsSound
namespace JPV.Peg

theorem check_zero (T : Tables) (g : Grammar) (e : PE) (A : AState) : check T g 0 e A = none := by
  cases e <;> rfl

theorem check_succ (T : Tables) (g : Grammar) (cf : Nat) (e : PE) (A : AState) :
    check T g (cf + 1) e A =
      if e.pure T.pureRules then some A else
      match e with
      | .act i => actEff i A
      | .cap a => (check T g cf a A).map (fun A' => { A' with capNE := a.nn T.nnRules })
      | .seq a b => (check T g cf a A).bind (check T g cf b)
      | .alt a b =>
        match check T g cf a A, check T g cf b A with
        | some A1, some A2 => A1.join A2
        | _, _ => none
      | .star a => starCheck (check T g cf a) A
      | .plus a => (check T g cf a A).bind (check T g cf (.star a))
      | .opt a =>
        let A1 := { A with capNE := false }
        match check T g cf a A with
        | some A' => if A'.le A1 then some A1 else none
        | none => none
      | .rule n =>
        match T.sums.lookup n with
        | some (pre, post) => applySum pre post A
        | none => check T g cf (ruleBody g n) A
      | _ => some A := by
  cases e <;> rfl

theorem execFrom_single_text (c : Ctx) (st : St) (b e : Nat) :
    execFrom c st [.text b e] = .ok { st with tb := b, te := e } := rfl

theorem execFrom_single_action (c : Ctx) (st : St) (i : Nat) :
    execFrom c st [.action i] = act c i st >>= fun st' => .ok st' := rfl

/-- `Post` through a concatenation of token lists -/
theorem Post.execFrom_append {c : Ctx} {st : St} {t1 t2 : List Tok} {Q1 Q2 : St → Prop}
    (h1 : Post (execFrom c st t1) Q1) (h2 : ∀ st1, Q1 st1 → Post (execFrom c st1 t2) Q2) :
    Post (execFrom c st (t1 ++ t2)) Q2 := by
  rw [JPV.Peg.execFrom_append]
  exact Post.bind h1 h2

structure TablesOK (T : Tables) (g : Grammar) : Prop where
  sums : ∀ n pre post, T.sums.lookup n = some (pre, post) →
    ∃ Apost, check T g checkFuel (ruleBody g n) (polyState pre) = some Apost ∧ Apost.le (polyState post) = true
  pure : ∀ n ∈ T.pureRules, (ruleBody g n).pure T.pureRules = true
  nn : ∀ n ∈ T.nnRules, (ruleBody g n).nn T.nnRules = true

theorem tablesOK_of_decide {T : Tables} {g : Grammar} (hs : sumsOK T g = true) (hp : pureOK T g = true)
    (hn : nnOK T g = true) : TablesOK T g := by
  refine ⟨?_, ?_, ?_⟩
  · intro n pre post hl
    have hm := lookup_mem _ _ _ hl
    have := (List.all_eq_true.mp hs) _ hm
    simp only at this
    split at this
    · rename_i A' hc; exact ⟨A', hc, this⟩
    · cases this
  · intro n hm; exact (List.all_eq_true.mp hp) n hm
  · intro n hm; exact (List.all_eq_true.mp hn) n hm

/-- **soundness of the checker** -/
theorem check_sound {T : Tables} {g : Grammar} (hT : TablesOK T g) (c : Ctx) :
    ∀ (f cf : Nat) (e : PE) (A A' : AState) (pos p : Nat) (toks : List Tok),
      check T g cf e A = some A' → pos ≤ c.input.size → run g f e c.input pos = .ok p toks →
      ∀ (R : List Item) (S : List (List Item)) (st : St), Gamma c A R S st →
        Post (execFrom c st toks) (Gamma c A' R S) := by
  intro f
  induction f with
  | zero => intro cf e A A' pos p toks _ _ h; rw [run_zero] at h; cases h
  | succ f ih =>
    intro cf e A A' pos p toks hc hpos hrun R S st hg
    cases cf with
    | zero => rw [check_zero] at hc; cases hc
    | succ cf =>
    rw [check_succ] at hc
    split at hc
    · -- no action, no capture
      rename_i hpure
      cases hc
      have := run_pure T.pureRules hT.pure _ _ _ _ _ hpure hrun
      subst this
      exact Post.ok hg
    · rename_i hpure
      cases e with
      | lit s => exact absurd (by simp [PE.pure]) hpure
      | cls neg rs => exact absurd (by simp [PE.pure]) hpure
      | any => exact absurd (by simp [PE.pure]) hpure
      | not a => exact absurd (by simp [PE.pure]) hpure
      | and a => exact absurd (by simp [PE.pure]) hpure
      | act i =>
        simp only at hc
        obtain ⟨rfl, rfl⟩ := run_act_inv hrun
        rw [execFrom_single_action]
        exact Post.bind (act_sound c i A A' R S st hc hg) (fun st' h' => Post.ok h')
      | cap a =>
        simp only at hc
        cases hca : check T g cf a A with
        | none => rw [hca] at hc; cases hc
        | some A1 =>
          rw [hca] at hc
          simp only [Option.map_some, Option.some.injEq] at hc
          subst hc
          obtain ⟨t1, ha, rfl⟩ := run_cap_inv hrun
          refine Post.execFrom_append (ih cf a A A1 pos p t1 hca hpos ha R S st hg) ?_
          intro st1 hg1
          rw [execFrom_single_text]
          refine Post.ok (Gamma.setCap _ _ _ ?_ hg1)
          intro hnn
          exact textOf_ne_nil _ _ _ (run_nn T.nnRules hT.nn _ _ _ _ _ hnn ha) (run_le_size _ _ _ _ _ hpos ha)
      | seq a b =>
        simp only at hc
        cases hca : check T g cf a A with
        | none => rw [hca] at hc; cases hc
        | some A1 =>
          rw [hca] at hc
          simp only [Option.bind_some] at hc
          obtain ⟨p1, t1, t2, ha, hb, rfl⟩ := run_seq_inv hrun
          refine Post.execFrom_append (ih cf a A A1 pos p1 t1 hca hpos ha R S st hg) ?_
          intro st1 hg1
          exact ih cf b A1 A' p1 p t2 hc (run_le_size _ _ _ _ _ hpos ha) hb R S st1 hg1
      | alt a b =>
        simp only at hc
        cases hca : check T g cf a A with
        | none => rw [hca] at hc; cases hc
        | some A1 =>
          cases hcb : check T g cf b A with
          | none => rw [hca, hcb] at hc; cases hc
          | some A2 =>
            rw [hca, hcb] at hc
            simp only at hc
            have hj := AState.join_sound hc
            rcases run_alt_inv hrun with ha | ⟨_, hb⟩
            · exact Post.mono (ih cf a A A1 pos p toks hca hpos ha R S st hg) (fun st' h' => h'.le hj.1)
            · exact Post.mono (ih cf b A A2 pos p toks hcb hpos hb R S st hg) (fun st' h' => h'.le hj.2)
      | star a =>
        simp only at hc
        obtain ⟨hinv, hcap, hcover⟩ := starCheck_sound (c := c) hc
        have hgC := hcover R S st hg
        obtain ⟨C', hcC, hback⟩ := invOK_sound (c := c) hinv
        rw [run_star] at hrun
        cases ha : run g f a c.input pos with
        | fail => rw [ha] at hrun; cases hrun; exact Post.ok hgC
        | outOfFuel => rw [ha] at hrun; cases hrun
        | ok p1 t1 =>
          rw [ha] at hrun
          simp only at hrun
          cases hb : run g f (.star a) c.input p1 with
          | fail => rw [hb] at hrun; cases hrun
          | outOfFuel => rw [hb] at hrun; cases hrun
          | ok p2 t2 =>
            rw [hb] at hrun
            cases hrun
            refine Post.execFrom_append (ih cf a A' C' pos p1 t1 hcC hpos ha R S st hgC) ?_
            intro st1 hg1
            have hidem : check T g (cf + 1) (.star a) A' = some A' := by
              rw [check_succ]
              split
              · rfl
              · exact starCheck_idem hinv hcap
            exact ih (cf + 1) (.star a) A' A' p1 p t2 hidem (run_le_size _ _ _ _ _ hpos ha) hb R S st1
              (hback R S st1 hg1)
      | plus a =>
        simp only at hc
        cases hca : check T g cf a A with
        | none => rw [hca] at hc; cases hc
        | some A1 =>
          rw [hca] at hc
          simp only [Option.bind_some] at hc
          rw [run_plus] at hrun
          cases ha : run g f a c.input pos with
          | fail => rw [ha] at hrun; cases hrun
          | outOfFuel => rw [ha] at hrun; cases hrun
          | ok p1 t1 =>
            rw [ha] at hrun
            simp only at hrun
            cases hb : run g f (.star a) c.input p1 with
            | fail => rw [hb] at hrun; cases hrun
            | outOfFuel => rw [hb] at hrun; cases hrun
            | ok p2 t2 =>
              rw [hb] at hrun
              cases hrun
              refine Post.execFrom_append (ih cf a A A1 pos p1 t1 hca hpos ha R S st hg) ?_
              intro st1 hg1
              exact ih cf (.star a) A1 A' p1 p t2 hc (run_le_size _ _ _ _ _ hpos ha) hb R S st1 hg1
      | opt a =>
        simp only at hc
        cases hca : check T g cf a A with
        | none => rw [hca] at hc; cases hc
        | some A1 =>
          rw [hca] at hc
          simp only at hc
          split at hc
          · rename_i hle
            cases hc
            rw [run_opt] at hrun
            cases ha : run g f a c.input pos with
            | fail => rw [ha] at hrun; cases hrun; exact Post.ok hg.noCap
            | outOfFuel => rw [ha] at hrun; cases hrun
            | ok p1 t1 =>
              rw [ha] at hrun
              cases hrun
              exact Post.mono (ih cf a A A1 pos p toks hca hpos ha R S st hg) (fun st' h' => h'.le hle)
          · cases hc
      | rule n =>
        simp only at hc
        rw [run_rule] at hrun
        cases hl : T.sums.lookup n with
        | none =>
          rw [hl] at hc
          exact ih cf _ A A' pos p toks hc hpos hrun R S st hg
        | some pp =>
          obtain ⟨pre, post⟩ := pp
          rw [hl] at hc
          simp only at hc
          obtain ⟨Apost, hchk, hle⟩ := hT.sums n pre post hl
          exact applySum_sound
            (fun R' S' st0 hg0 => ih checkFuel _ _ Apost pos p toks hchk hpos hrun R' S' st0 hg0)
            hle hc hg

end JPV.Peg
