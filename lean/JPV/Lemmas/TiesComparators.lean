/-
Lemmas/TiesComparators — the hand-written comparators (`Impl.cmpValidatorTy`, `valStep`, `cmpTest`,
`comparator`) agree with the records regenerated from /repo's syntax_query_compare_comparator_*.go
(Gen/Comparators.lean) under the reading given in Ties/Sem.lean. A comparator embeds a validator, so
this module rests on Lemmas/TiesValidators (hence on Gen/Validators.lean); it imports neither
Gen/OperandOrder.lean nor Gen/Facts.lean.
(Split out of the former single module Lemmas/Ties.lean; statements and proofs unchanged.)
-/
import JPV.Lemmas.TiesValidators
import JPV.Gen.Comparators
namespace JPV
namespace Ties
open Impl

/-! ### comparators -/

/-- the regenerated record of the comparator a `Cmp` stands for -/
def cmpRec : Cmp → ComparatorRec
  | .directEq _ => Gen.Comparators.directEQ
  | .deepEq => Gen.Comparators.deepEQ
  | .lt => Gen.Comparators.lt
  | .le => Gen.Comparators.le
  | .gt => Gen.Comparators.gt
  | .ge => Gen.Comparators.ge
  | .regex _ => Gen.Comparators.regex

/-- source of the compiled regular expression a comparator carries -/
def cmpRe : Cmp → String
  | .regex re => re
  | _ => ""

/-- the validator a comparator value uses: the embedded one, or for DirectEQ the one
    `pushCompareEQ` put into the interface field -/
def instValidator (c : Cmp) : VRef :=
  match (cmpRec c).validator, c with
  | .iface, .directEq ty => vrefOfLitTy ty
  | v, _ => v

/-- `validate` of a validator struct on a value list with its write log; `none` for an
    interface field nobody filled in -/
def runValStep (v : VRef) (lv : VL) (st : St) : Option (Bool × VL × St) :=
  match v with
  | .iface => none
  | .anyValue => some (runAny Gen.Validators.anyValueLoop lv.cells, lv, st)
  | v =>
    (Gen.Validators.table v).map fun t =>
      let r := runValidator t lv.cells
      (r.1, { lv with cells := r.2.1 }, st.wrote lv.org r.2.2)

theorem cmpValidatorTy_eq (c : Cmp) :
    (match cmpValidatorTy c with | some ty => vrefOfLitTy ty | none => VRef.anyValue) = instValidator c := by
  cases c <;> rfl

theorem cmpRec_validator (c : Cmp) :
    (cmpRec c).validator =
      (match c with
       | .directEq _ => VRef.iface | .deepEq => .anyValue | .regex _ => .string | _ => .numeric) := by
  cases c <;> rfl

theorem valStep_eq (c : Cmp) (lv : VL) (st : St) :
    runValStep (instValidator c) lv st = some (valStep c lv st) := by
  cases c with
  | directEq ty =>
    cases ty <;>
      simp [instValidator, cmpRec, Gen.Comparators.directEQ, vrefOfLitTy, runValStep, Gen.Validators.table,
        valStep, cmpValidatorTy, validateTy_eq_run, genTable]
  | deepEq =>
    simp [instValidator, cmpRec, Gen.Comparators.deepEQ, runValStep, valStep, cmpValidatorTy, validateAny_eq_run]
  | lt => simp [instValidator, cmpRec, Gen.Comparators.lt, runValStep, Gen.Validators.table, valStep, cmpValidatorTy, validateTy_eq_run, genTable]
  | le => simp [instValidator, cmpRec, Gen.Comparators.le, runValStep, Gen.Validators.table, valStep, cmpValidatorTy, validateTy_eq_run, genTable]
  | gt => simp [instValidator, cmpRec, Gen.Comparators.gt, runValStep, Gen.Validators.table, valStep, cmpValidatorTy, validateTy_eq_run, genTable]
  | ge => simp [instValidator, cmpRec, Gen.Comparators.ge, runValStep, Gen.Validators.table, valStep, cmpValidatorTy, validateTy_eq_run, genTable]
  | regex re => simp [instValidator, cmpRec, Gen.Comparators.regex, runValStep, Gen.Validators.table, valStep, cmpValidatorTy, validateTy_eq_run, genTable]

theorem cmpTest_eq (env : Env) (c : Cmp) (l r : Val) :
    cmpTest env c l r = evalTest env (cmpRec c).test (cmpRe c) l r := by
  cases c <;> rfl

/-- the only panic a comparator can raise -/
def cmpErr : Cmp → Panic
  | .directEq _ => .uncomparable
  | _ => .typeAssertion

theorem ifaceEq_err {a b : Val} {e : Panic} (h : ifaceEq a b = .error e) : e = .uncomparable := by
  cases a <;> cases b <;> simp [ifaceEq] at h <;> first | exact h.symm | skip
  all_goals (split at h <;> simp at h; try exact h.symm)

theorem asFloat_err {v : Val} {e : Panic} (h : asFloat v = .error e) : e = .typeAssertion := by
  cases v <;> simp [asFloat] at h <;> exact h.symm

theorem asStr_err {v : Val} {e : Panic} (h : asStr v = .error e) : e = .typeAssertion := by
  cases v <;> simp [asStr] at h <;> exact h.symm

theorem bind2_err {f : Int → Int → Bool} {l r : Val} {e : Panic}
    (h : (do let a ← asFloat l; let b ← asFloat r; Except.ok (f a b) : M Bool) = .error e) : e = .typeAssertion := by
  cases hl : asFloat l with
  | error e1 => rw [hl] at h; simp [bind, Except.bind] at h; subst h; exact asFloat_err hl
  | ok a =>
    cases hr : asFloat r with
    | error e2 => rw [hl, hr] at h; simp [bind, Except.bind] at h; subst h; exact asFloat_err hr
    | ok b => rw [hl, hr] at h; simp [bind, Except.bind] at h

theorem cmpTest_err {env : Env} {c : Cmp} {l r : Val} {e : Panic}
    (h : cmpTest env c l r = .error e) : e = cmpErr c := by
  cases c with
  | directEq ty => exact ifaceEq_err h
  | deepEq => simp [cmpTest] at h
  | lt => exact bind2_err (f := fun a b => decide (a < b)) h
  | le => exact bind2_err (f := fun a b => decide (a ≤ b)) h
  | gt => exact bind2_err (f := fun a b => decide (a > b)) h
  | ge => exact bind2_err (f := fun a b => decide (a ≥ b)) h
  | regex re =>
    cases hl : asStr l with
    | error e1 => simp [cmpTest, hl, bind, Except.bind] at h; subst h; exact asStr_err hl
    | ok s => simp [cmpTest, hl, bind, Except.bind] at h

theorem comparator_err {env : Env} {c : Cmp} {r : Val} {cells : List Cell} {e : Panic}
    (h : comparator env c r cells = .error e) : e = cmpErr c := by
  induction cells generalizing e with
  | nil => simp [comparator] at h
  | cons cell cs ih =>
    cases ht : comparator env c r cs with
    | error e1 =>
      have := ih ht
      simp [comparator, ht, bind, Except.bind] at h
      rw [← h]; exact this
    | ok t =>
      obtain ⟨f, cs', w⟩ := t
      cases cell with
      | empty => cases c <;> simp [comparator, ht, bind, Except.bind] at h
      | val v =>
        cases hv : cmpTest env c v r with
        | error e2 =>
          simp [comparator, ht, hv, bind, Except.bind] at h
          rw [← h]; exact cmpTest_err hv
        | ok b => cases b <;> simp [comparator, ht, hv, bind, Except.bind] at h

theorem cellTest_val (env : Env) (c : Cmp) (v r : Val) :
    cellTest env (cmpRec c).test (cmpRe c) (.val v) r = cmpTest env c v r := by
  rw [cmpTest_eq]; rfl

/-- the hand-written comparator loop (which recurses into the tail first) is the forward loop
    over the regenerated record -/
theorem comparator_eq_run (env : Env) (c : Cmp) (r : Val) (cells : List Cell) :
    comparator env c r cells = runCmp env (cmpRec c) (cmpRe c) r cells := by
  induction cells with
  | nil => rfl
  | cons cell cs ih =>
    cases cell with
    | empty =>
      have hrun : runCmp env (cmpRec c) (cmpRe c) r (Cell.empty :: cs) =
          (if (cmpRec c).skipMarker then do
              let t ← runCmp env (cmpRec c) (cmpRe c) r cs
              Except.ok (t.1, Cell.empty :: t.2.1, t.2.2)
           else do
              let b ← cellTest env (cmpRec c).test (cmpRe c) Cell.empty r
              let br := if b then (cmpRec c).thenB else (cmpRec c).elseB
              let t ← runCmp env (cmpRec c) (cmpRe c) r cs
              Except.ok (br.setHas || t.1, (if br.blank then Cell.empty else Cell.empty) :: t.2.1,
                t.2.2 + (if br.blank then 1 else 0))) := by
        cases hs : (cmpRec c).skipMarker <;> simp [runCmp, hs, Cell.isEmpty]
      rw [hrun, ← ih]
      cases ht : comparator env c r cs with
      | error e1 =>
        cases c <;>
          simp [comparator, ht, bind, Except.bind, cmpRec, cellTest,
            Gen.Comparators.directEQ, Gen.Comparators.deepEQ, Gen.Comparators.lt, Gen.Comparators.le,
            Gen.Comparators.gt, Gen.Comparators.ge, Gen.Comparators.regex]
      | ok t =>
        obtain ⟨f, cs', w⟩ := t
        cases c <;>
          simp [comparator, ht, bind, Except.bind, cmpRec, cellTest,
            Gen.Comparators.directEQ, Gen.Comparators.deepEQ, Gen.Comparators.lt, Gen.Comparators.le,
            Gen.Comparators.gt, Gen.Comparators.ge, Gen.Comparators.regex]
    | val v =>
      have hskip : ((cmpRec c).skipMarker && (Cell.val v).isEmpty) = false := by simp [Cell.isEmpty]
      have hrun : runCmp env (cmpRec c) (cmpRe c) r (Cell.val v :: cs) =
          (do
            let b ← cmpTest env c v r
            let br := if b then (cmpRec c).thenB else (cmpRec c).elseB
            let t ← runCmp env (cmpRec c) (cmpRe c) r cs
            Except.ok (br.setHas || t.1, (if br.blank then Cell.empty else Cell.val v) :: t.2.1,
              t.2.2 + (if br.blank then 1 else 0))) := by
        rw [← cellTest_val]; simp [runCmp, hskip]
      rw [hrun, ← ih]
      have hbr : (cmpRec c).thenB = ⟨true, false⟩ ∧ (cmpRec c).elseB = ⟨false, true⟩ := by
        cases c <;> exact ⟨rfl, rfl⟩
      cases hv : cmpTest env c v r with
      | error e2 =>
        cases ht : comparator env c r cs with
        | error e1 =>
          have h1 := comparator_err ht
          have h2 := cmpTest_err hv
          simp [comparator, ht, bind, Except.bind, h1, h2]
        | ok t =>
          obtain ⟨f, cs', w⟩ := t
          simp [comparator, ht, hv, bind, Except.bind]
      | ok b =>
        cases ht : comparator env c r cs with
        | error e1 => simp [comparator, ht, bind, Except.bind]
        | ok t =>
          obtain ⟨f, cs', w⟩ := t
          cases b <;> simp [comparator, ht, hv, bind, Except.bind, hbr.1, hbr.2]

end Ties
end JPV
