/-
The rule-function template WITH the memo table in use (worker L30): the table invariant `MOn` ("every stored entry is
what `Peg.run` answers for the rule with that number at that position, with some fuel; for a success: the exit
position is the end of the last stored token, the stored tokens restricted to PegText/Action kinds are the token list of
`run`, and there are at most `adds + 1` of them") and the proof that the template keeps it and computes `run`
(`ruleStep_on`, the `RuleStep` parameter of `simG`). Entries are position-absolute and never depend on tokenIndex, so
they survive the restores of failed alternatives (the table is not restored); entries stored with less fuel stay
valid because `run` and `adds` do not change with more fuel once the answer is not `outOfFuel` (`run_det`).
-/
import JPV.Lemmas.RunGoSim
import JPV.Lemmas.RunGoMono
set_option linter.unusedVariables false
namespace JPV
namespace RunGoGen
open JPV.Peg JPV.Peg.Runtime JPV.Gen.PegRuntime JPV.Peg.RunGo JPV.PegRuntimeGen

/-- the rule names an expression refers to -/
def refs : PE → List String
  | .rule name => [name]
  | .seq a b | .alt a b => refs a ++ refs b
  | .star a | .plus a | .opt a | .not a | .and a | .cap a => refs a
  | _ => []

/-- every referenced rule has a body, table rules have distinct non-zero numbers (so the keys `rule − 1` are distinct) -/
def Closed (g : Grammar) (n : Num) : Prop :=
  (∀ r ∈ g, ∀ name ∈ refs r.2, name ∈ g.map Prod.fst) ∧
  (∀ a ∈ g.map Prod.fst, 0 < n.rule a) ∧
  (∀ a ∈ g.map Prod.fst, ∀ b ∈ g.map Prod.fst, n.rule a = n.rule b → a = b)

/-- expressions all of whose rule references have a body -/
def WIn (g : Grammar) : PE → Prop := fun e => ∀ nm ∈ refs e, nm ∈ g.map Prod.fst

theorem ruleBody_mem (g : Grammar) (name : String) (h : name ∈ g.map Prod.fst) : (name, ruleBody g name) ∈ g := by
  unfold ruleBody
  induction g with
  | nil => simp at h
  | cons r rest ih =>
    obtain ⟨k, e⟩ := r
    by_cases hk : name = k
    · subst hk; simp [List.lookup]
    · have hb : (name == k) = false := by simp [hk]
      have h' : name ∈ rest.map Prod.fst := by
        simp only [List.map_cons, List.mem_cons] at h
        rcases h with h | h
        · exact absurd h hk
        · exact h
      simp only [List.lookup, hb]
      exact List.mem_cons_of_mem _ (ih h')

theorem scope_in (g : Grammar) (n : Num) (hc : Closed g n) : Scope g (WIn g) := by
  refine ⟨?_, ?_, ?_, ?_, ?_, ?_, ?_, ?_, ?_⟩
  · intro a b h; exact ⟨fun nm hm => h nm (by simp [refs, hm]), fun nm hm => h nm (by simp [refs, hm])⟩
  · intro a b h; exact ⟨fun nm hm => h nm (by simp [refs, hm]), fun nm hm => h nm (by simp [refs, hm])⟩
  · intro a h nm hm; exact h nm (by simpa [refs] using hm)
  · intro a h; exact ⟨fun nm hm => h nm (by simpa [refs] using hm), fun nm hm => h nm (by simpa [refs] using hm)⟩
  · intro a h nm hm; exact h nm (by simpa [refs] using hm)
  · intro a h nm hm; exact h nm (by simpa [refs] using hm)
  · intro a h nm hm; exact h nm (by simpa [refs] using hm)
  · intro a h nm hm; exact h nm (by simpa [refs] using hm)
  · intro name h nm hm
    have hn : name ∈ g.map Prod.fst := h name (by simp [refs])
    exact hc.1 _ (ruleBody_mem g name hn) nm hm

/-- a table entry under key (k, pos) is what `run` answers for the rule numbered k + 1 at pos -/
def Entry (g : Grammar) (n : Num) (input : Array Char) (k pos : Nat) (m : Memo) : Prop :=
  ∃ nm f0, nm ∈ g.map Prod.fst ∧ n.rule nm - 1 = k ∧
    (m.matched = false → run g f0 (ruleBody g nm) input pos = .fail) ∧
    (m.matched = true → ∃ p' toks, run g f0 (ruleBody g nm) input pos = .ok p' toks ∧ p' ≤ input.size ∧
      n.kinds m.partialToks = toks ∧ m.partialToks.length ≤ adds g f0 (ruleBody g nm) input pos + 1 ∧
      ∃ hne : m.partialToks ≠ [], (m.partialToks.getLast hne).e = p')

/-- memoisation ON: the switch is off and every entry of the table is right -/
def MOn (g : Grammar) (n : Num) (input : Array Char) : MemP :=
  fun memo d => d = false ∧ ∀ k pos m, lookup memo (k, pos) = some m → Entry g n input k pos m

theorem table_store {g : Grammar} {n : Num} {input : Array Char} {memo : List (Key × Memo)} {k pos : Nat} {v : Memo}
    (h : ∀ k pos m, lookup memo (k, pos) = some m → Entry g n input k pos m) (hv : Entry g n input k pos v) :
    ∀ k' pos' m, lookup (store memo (k, pos) v) (k', pos') = some m → Entry g n input k' pos' m := by
  intro k' pos' m hl
  by_cases hk : ((k', pos') : Key) = (k, pos)
  · rw [hk, PR_lookup_store_same] at hl
    cases hl
    obtain ⟨h1, h2⟩ := Prod.mk.inj hk
    subst h1; subst h2
    exact hv
  · rw [PR_lookup_store_other _ _ _ _ hk] at hl
    exact h _ _ _ hl

theorem seg_length {M : MemP} {input : Array Char} {s : RT} (h : Good M input s) (t0 : Nat) :
    (seg t0 s).length = s.tokenIndex - t0 := by
  unfold seg
  rw [List.length_drop, List.length_take, Nat.min_eq_left h.inv]

/-- a hit on a stored success -/
theorem replay_true {M : MemP} {input : Array Char} {s : RT} (hg : Good M input s) (pt : List Runtime.Tok) (hne : pt ≠ [])
    (hb : s.tokenIndex + pt.length < 4294967296) :
    ∃ s'', replay ⟨true, pt⟩ s = (.ok, s'') ∧ s''.position = (pt.getLast hne).e ∧ Post M input s s'' pt.length ∧
      seg s.tokenIndex s'' = pt := by
  obtain ⟨mx, hr⟩ := PR_memoizedResult_true pt hne s hg.inv hb
  have hlen : (List.take s.tokenIndex s.tree).length = s.tokenIndex := by
    rw [List.length_take]; exact Nat.min_eq_left hg.inv
  have hrp : ∃ s'', replay ⟨true, pt⟩ s = (.ok, s'') ∧ memoizedResult ⟨true, pt⟩ s = some (true, s'') :=
    ⟨_, by simp only [replay, hr], hr⟩
  obtain ⟨s'', hrp1, hrp2⟩ := hrp
  rw [hr] at hrp2
  have hs'' := (Prod.mk.inj (Option.some.inj hrp2)).2
  subst hs''
  refine ⟨_, hrp1, rfl, ⟨⟨hg.buf, ?_, hg.mem⟩, ?_, Nat.le_add_right _ _, Nat.le_refl _⟩, ?_⟩
  · show s.tokenIndex + pt.length ≤ (List.take s.tokenIndex s.tree ++ pt).length
    rw [List.length_append, hlen]; exact Nat.le_refl _
  · show (List.take s.tokenIndex s.tree ++ pt).take s.tokenIndex = _
    rw [List.take_append_of_le_length (by omega), List.take_of_length_le (by omega)]
  · show ((List.take s.tokenIndex s.tree ++ pt).take (s.tokenIndex + pt.length)).drop s.tokenIndex = _
    rw [List.take_of_length_le (by simp [hlen]), List.drop_left' hlen]

theorem last_concat_e (l A : List Runtime.Tok) (tok : Runtime.Tok) (h : l = A ++ [tok]) :
    ∃ hne : l ≠ [], (l.getLast hne).e = tok.e := by
  subst h; exact ⟨by simp, by simp⟩

/-- THE RULE-FUNCTION TEMPLATE WITH THE TABLE IN USE keeps the table right and computes `run` -/
theorem ruleStep_on {g : Grammar} {n : Num} {input : Array Char} (hw : Num.WF n) (hc : Closed g n) :
    RuleStep (MOn g n input) (WIn g) g n input := by
  intro f ih name s hW hg hp hb
  have hnm : name ∈ g.map Prod.fst := hW name (by simp [refs])
  have hWb : WIn g (ruleBody g name) := (scope_in g n hc).rule hW
  rw [adds_rule] at hb
  cases hl : lookup s.memo (n.rule name - 1, s.position) with
  | none =>
    have iha := ih (ruleBody g name) s hWb hg hp (by omega)
    cases ha : run g f (ruleBody g name) input s.position with
    | outOfFuel => simp [run, ha]
    | fail =>
      obtain ⟨s1, e1, post1⟩ := iha.2 ha
      have hmz := PR_memoize_false (n.rule name - 1) s.position s.tokenIndex s1 post1.good.mem.1
      refine ⟨by simp [run, ha], fun _ => ⟨restore s.position s.tokenIndex
        { s1 with memo := store s1.memo (n.rule name - 1, s.position) ⟨false, []⟩ }, by simp only [runGo, hl, e1, ruleFail, hmz], ?_⟩⟩
      refine ⟨⟨post1.good.buf, Nat.le_trans post1.lo post1.good.inv, ⟨post1.good.mem.1, ?_⟩⟩, post1.pre, Nat.le_refl _, Nat.le_add_right _ _⟩
      exact table_store post1.good.mem.2 ⟨name, f, hnm, rfl, fun _ => ha, fun h => by simp at h⟩
    | ok p1 t1 =>
      obtain ⟨s1, e1, hp1, hle1, post1, k1⟩ := iha.1 p1 t1 ha
      subst hp1
      obtain ⟨s2, ea, post2, hp2, hseg⟩ := add_post (M := MOn g n input) (input := input) (n.rule name) s.position post1.good
        (by have := post1.hi; omega)
      have p12 := post1.trans post2
      have hmt := PR_memoize_true (n.rule name - 1) s.position s.tokenIndex s2 post2.good.mem.1 (Nat.le_trans post1.lo post2.lo)
        post2.good.inv
      refine ⟨?_, by simp [run, ha]⟩
      intro p' toks hr
      simp only [run, ha, Result.ok.injEq] at hr
      obtain ⟨rfl, rfl⟩ := hr
      have hsegeq : segment s2 s.tokenIndex = seg s.tokenIndex s1 ++ [⟨n.rule name, s.position, s1.position⟩] := by
        have : segment s2 s.tokenIndex = seg s.tokenIndex s2 := rfl
        rw [this, p12.2, hseg]
      refine ⟨{ s2 with memo := store s2.memo (n.rule name - 1, s.position) ⟨true, segment s2 s.tokenIndex⟩ }, ?_, hp2, hle1, ?_, ?_⟩
      · simp only [runGo, hl, e1, ruleOk, ea, hmt]
      · rw [adds_rule]
        refine ⟨⟨post2.good.buf, post2.good.inv, ⟨post2.good.mem.1, ?_⟩⟩, p12.1.pre, p12.1.lo, p12.1.hi⟩
        refine table_store post2.good.mem.2 ⟨name, f, hnm, rfl, fun h => by simp at h,
          fun _ => ⟨s1.position, t1, ha, hle1, ?_, ?_, last_concat_e _ _ _ hsegeq⟩⟩
        · show n.kinds (segment s2 s.tokenIndex) = t1
          rw [hsegeq, kinds_append, k1, kinds_rule n hw, List.append_nil]
        · show (segment s2 s.tokenIndex).length ≤ _
          rw [hsegeq, List.length_append, seg_length post1.good]
          have := post1.hi
          simp only [List.length_singleton]; omega
      · show n.kinds (seg s.tokenIndex s2) = t1
        rw [p12.2, kinds_append, k1, hseg, kinds_rule n hw, List.append_nil]
  | some m =>
    obtain ⟨nm, f0, hnm', hk, hF, hT⟩ := hg.mem.2 _ _ _ hl
    have hnmeq : nm = name := by
      have h1 := hc.2.1 nm hnm'; have h2 := hc.2.1 name hnm
      exact hc.2.2 nm hnm' name hnm (by omega)
    subst hnmeq
    obtain ⟨mt, pt⟩ := m
    cases mt with
    | false =>
      have r0 := hF rfl
      have hrp : replay ⟨false, pt⟩ s = (.fail, s) := by simp only [replay, PR_memoizedResult_false]
      cases ha : run g f (ruleBody g nm) input s.position with
      | outOfFuel => simp [run, ha]
      | ok p1 t1 =>
        have hd := (run_det (g := g) (inp := input) (f0 := f0) (f1 := f) (ruleBody g nm) s.position (by rw [r0]; simp) (by rw [ha]; simp)).1
        rw [r0, ha] at hd; cases hd
      | fail =>
        exact ⟨by simp [run, ha], fun _ => ⟨s, by simp only [runGo, hl, hrp], Post.refl hg _⟩⟩
    | true =>
      obtain ⟨p', toks, r0, hple, hkinds, hlen, hne, hlast⟩ := hT rfl
      cases ha : run g f (ruleBody g nm) input s.position with
      | outOfFuel => simp [run, ha]
      | fail =>
        have hd := (run_det (g := g) (inp := input) (f0 := f0) (f1 := f) (ruleBody g nm) s.position (by rw [r0]; simp) (by rw [ha]; simp)).1
        rw [r0, ha] at hd; cases hd
      | ok p1 t1 =>
        have hd := run_det (g := g) (inp := input) (f0 := f0) (f1 := f) (ruleBody g nm) s.position (by rw [r0]; simp) (by rw [ha]; simp)
        rw [r0, ha] at hd
        obtain ⟨hd1, hd2⟩ := hd
        simp only [Result.ok.injEq] at hd1
        obtain ⟨rfl, rfl⟩ := hd1
        simp only at hlen hkinds hlast
        obtain ⟨s'', hrp, hpos, post, hsg⟩ := replay_true hg pt hne (by omega)
        refine ⟨?_, by simp [run, ha]⟩
        intro p'' toks'' hr
        simp only [run, ha, Result.ok.injEq] at hr
        obtain ⟨rfl, rfl⟩ := hr
        refine ⟨s'', by simp only [runGo, hl, hrp], by rw [hpos, hlast], hple, ?_, by rw [hsg]; exact hkinds⟩
        rw [adds_rule]; exact post.mono (by omega)

end RunGoGen
end JPV
