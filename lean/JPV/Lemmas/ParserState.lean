/-
ParserState — the abstraction of the whole parser state: a layout `LSt` of the parameter stack, the
saved frames and `p.root`; `Rep c g L`: the concrete state `g : PS` (heap, stacks in Go order) holds the
layout; `eraseSt L`: the state `Peg.St` of the action model (stacks top first).
-/
import JPV.Lemmas.ParserTieRec
namespace JPV
namespace ParserLayout
open JPV JPV.ParserNode
open JPV.Gen.ParserHelpersGo

/-- a stack entry with its layout -/
inductive LItem where
  | chain (ch : List LN)
  | str (s : String)
  | sub (s : GSub)
  | query (q : LQ)
  | cp (p : LP)
  | bool (b : Bool)
  | num (n : Int)
  | null

/-- the `interface{}` value -/
def gitem : LItem → GItem
  | .chain ch => GItem.ofNRef (headRef ch)
  | .str s => .str s
  | .sub s => .sub s
  | .query q => .query (gq q)
  | .cp p => .cp (gcp p)
  | .bool b => .bool b
  | .num n => .num n
  | .null => .nilv

def boundOf (i : GIdx) : Bound := ⟨i.number, i.isOmitted⟩

/-- the entry of the model's stack -/
def eraseItem : LItem → Peg.Item
  | .chain ch => .chain (eraseCh ch)
  | .str s => .str s
  | .sub (.index i) => .idx (boundOf i)
  | .sub s => .sub (subI s)
  | .query q => .query (eraseQ q)
  | .cp p => .cp (eraseP p)
  | .bool b => .bool b
  | .num n => .num n
  | .null => .null

def cellsItem : LItem → List (Nat × Cell)
  | .chain ch => cellsCh ch none
  | .query q => cellsQ q
  | .cp p => cellsP p
  | _ => []

def cellsItems : List LItem → List (Nat × Cell)
  | [] => []
  | it :: rest => cellsItem it ++ cellsItems rest

def cellsFrames : List (List LItem) → List (Nat × Cell)
  | [] => []
  | fr :: rest => cellsItems fr ++ cellsFrames rest

/-- `isValueGroup()` of a subscript as the model computes it from the kind -/
def subVg : GSub → Bool
  | .index _ => false
  | _ => true

/-- what every entry satisfies: a node entry is not nil; the embedded `*syntaxBasicSubscript` of a
    subscript is there and says what its constructor says -/
def wfItem : LItem → Prop
  | .chain ch => ch ≠ []
  | .sub s => s.basic = some (subVg s)
  | _ => True

structure LSt where
  stack : List LItem := []          -- `p.params`, Go order (bottom first)
  saved : List (List LItem) := []   -- `p.paramsList`, Go order (oldest first)
  root : List LN := []              -- `p.root` (`[]`: nil)

def cellsSt (L : LSt) : List (Nat × Cell) := cellsItems L.stack ++ (cellsFrames L.saved ++ cellsCh L.root none)

/-- the concrete state holds the layout; `X`: the cells of values that are held outside the stacks
    (popped by the action that is running, not pushed back yet) -/
structure Rep (c : Peg.Ctx) (g : PS) (L : LSt) (X : List (Nat × Cell)) : Prop where
  params : g.params = L.stack.map gitem
  paramsList : g.paramsList = L.saved.map (fun fr => fr.map gitem)
  root : g.root = headRef L.root
  sat : Sat g.heap (cellsSt L ++ X)
  nodup : (ids (cellsSt L ++ X)).Nodup
  wfStack : ∀ it ∈ L.stack, wfItem it
  wfSaved : ∀ fr ∈ L.saved, ∀ it ∈ fr, wfItem it
  acc : g.accessorMode = c.acc
  ffn : ∀ name, g.filterFunctions name = (c.env.ffn name).map (fun _ => name)
  afn : ∀ name, g.aggregateFunctions name = (c.env.afn name).map (fun _ => name)

/-- the state of the action model -/
def eraseSt (L : LSt) (tb te : Nat) : Peg.St :=
  { stack := (L.stack.map eraseItem).reverse
    saved := (L.saved.map (fun fr => (fr.map eraseItem).reverse)).reverse
    root := match L.root with | [] => none | n :: rest => some (eraseCh (n :: rest))
    tb := tb
    te := te }

/-- the panics and user errors of the regenerated code as the model names them -/
def absErr : Err → Option Peg.Stop
  | .indexOutOfRange => some (.panic .indexOutOfRange)
  | .typeAssertion => some (.panic .typeAssertion)
  | .invalidArgument a => some (.invalidArgument a)
  | .functionNotFound f => some (.functionNotFound f)
  | .notSupported f p => some (.notSupported f p)
  | .unmodelled => some .unmodelled
  | .nilDeref => none
  | .dangling => none
  | .outOfFuel => none

def sizeItem : LItem → Nat
  | .chain ch => sizeCh ch
  | _ => 0

def sizeItems : List LItem → Nat
  | [] => 0
  | it :: rest => sizeItem it + sizeItems rest


/-! ### permutations of owned cells -/

theorem Sat.perm {h : Heap} {cs ds : List (Nat × Cell)} (hp : cs.Perm ds) (hs : Sat h cs) : Sat h ds :=
  fun x hx => hs x (hp.mem_iff.mpr hx)

theorem ids_perm {cs ds : List (Nat × Cell)} (hp : cs.Perm ds) : (ids cs).Perm (ids ds) := hp.map _

theorem nodup_perm {cs ds : List (Nat × Cell)} (hp : cs.Perm ds) (hn : (ids cs).Nodup) : (ids ds).Nodup :=
  (ids_perm hp).nodup_iff.mp hn

theorem cellsItems_append (A B : List LItem) : cellsItems (A ++ B) = cellsItems A ++ cellsItems B := by
  induction A with
  | nil => rfl
  | cons a A ih => simp only [List.cons_append, cellsItems, ih, List.append_assoc]

theorem cellsFrames_append (A B : List (List LItem)) : cellsFrames (A ++ B) = cellsFrames A ++ cellsFrames B := by
  induction A with
  | nil => rfl
  | cons a A ih => simp only [List.cons_append, cellsFrames, ih, List.append_assoc]

theorem sizeItems_append (A B : List LItem) : sizeItems (A ++ B) = sizeItems A + sizeItems B := by
  induction A with
  | nil => simp only [List.nil_append, sizeItems, Nat.zero_add]
  | cons a A ih => simp only [List.cons_append, sizeItems, ih]; omega

end ParserLayout
end JPV
