/-
`adds`: the spec-side bound on the number of `add` calls of the templates (worker L30), split off Lemmas/RunGoBase
so that its fuel lemmas (Lemmas/RunGoMono) do not depend on the runtime model.
-/
import JPV.Peg.Peg
namespace JPV
namespace RunGoGen
open JPV.Peg

/-- an upper bound, computed on the SPEC side, for the number of `add` calls the templates perform while
`Peg.run g f e input pos` is evaluated (calls inside alternatives that fail later are counted too). It bounds how
far `tokenIndex` can travel, so that `tokenIndex + adds … < 2^32` keeps the uint32 arithmetic of `add` exact. -/
def adds (g : Grammar) : Nat → PE → Array Char → Nat → Nat
  | 0, _, _, _ => 0
  | _ + 1, .lit _, _, _ => 0
  | _ + 1, .cls _ _, _, _ => 0
  | _ + 1, .any, _, _ => 0
  | f + 1, .seq a b, i, p =>
    adds g f a i p + (match run g f a i p with | .ok p' _ => adds g f b i p' | _ => 0)
  | f + 1, .alt a b, i, p =>
    adds g f a i p + (match run g f a i p with | .fail => adds g f b i p | _ => 0)
  | f + 1, .star a, i, p =>
    adds g f a i p + (match run g f a i p with | .ok p' _ => adds g f (.star a) i p' | _ => 0)
  | f + 1, .plus a, i, p =>
    adds g f a i p + (match run g f a i p with | .ok p' _ => adds g f (.star a) i p' | _ => 0)
  | f + 1, .opt a, i, p => adds g f a i p
  | f + 1, .not a, i, p => adds g f a i p
  | f + 1, .and a, i, p => adds g f a i p
  | f + 1, .rule name, i, p => adds g f (ruleBody g name) i p + 1
  | f + 1, .cap a, i, p => adds g f a i p + 1
  | _ + 1, .act _, _, _ => 1

end RunGoGen
end JPV
