/-
CallLog — the call log of `Impl.retrieve` / `Impl.computeQ` is the denotation `Calls.calls` /
`Calls.callsQ`: one lemma per node kind and one mutual structural recursion, following
Lemmas/Refine.lean (whose results supply what a sub-evaluation selected).
-/
import JPV.Calls
import JPV.Lemmas.Refine
import JPV.Lemmas.DenBasic
namespace JPV
namespace CL
open Impl TSem Calls

/-! ### the statements -/

/-- chains: whatever evaluation returns, the log grew by exactly the denoted calls -/
def RetrieveLog (env : Env) (ch : List N) : Prop :=
  ∀ (prev : Info) (root cur : Val) (aloc : Option Loc) (st st' : St) (e : Option RtErr),
    retrieve env ch prev root cur aloc st = .ok (st', e) → st'.log = st.log ++ calls env ch root cur

/-- operands: the protocol list is `cellsP`, the log grew by `callsP` -/
def ComputePLog (env : Env) (p : P) : Prop :=
  ∀ (root : Val) (ms : List Val) (st st1 : St) (vl : VL),
    computeP env p root ms st = .ok (vl, st1) →
      vl.cells = cellsP env p root ms ∧ st1.log = st.log ++ callsP env p root ms

/-- queries: the protocol list is `cellsQ`, the log grew by `callsQ` -/
def ComputeQLog (env : Env) (q : Q) : Prop :=
  ∀ (root : Val) (ms : List Val) (st st1 : St) (vl : VL),
    computeQ env q root ms st = .ok (vl, st1) →
      vl.cells = cellsQ env q root ms ∧ st1.log = st.log ++ callsQ env q root ms

/-! ### loops -/

theorem stepAcc_state {r : M (St × Option RtErr)} {dl : Nat} {de : Option RtErr} {acc : Acc}
    (h : stepAcc r dl de = .ok acc) : ∃ e, r = .ok (acc.1, e) := by
  unfold stepAcc at h
  cases r with
  | error p => simp [bind, Except.bind] at h
  | ok p =>
    obtain ⟨s, e⟩ := p
    refine ⟨e, ?_⟩
    simp only [bind, Except.bind] at h
    cases e with
    | none =>
      simp only [Except.ok.injEq] at h
      rw [← h]
    | some err =>
      simp only [] at h
      split at h <;> (simp only [Except.ok.injEq] at h; rw [← h])

/-- a fan-out loop appends the calls of its branches, in order -/
theorem loopAcc_log {α : Type} (f : α → St → M (St × Option RtErr)) (C : α → List Call) :
    ∀ (xs : List α), (∀ x ∈ xs, ∀ st st' e, f x st = .ok (st', e) → st'.log = st.log ++ C x) →
      ∀ (st : St) (dl : Nat) (de : Option RtErr) (acc : Acc),
        loopAcc f xs (st, dl, de) = .ok acc → acc.1.log = st.log ++ xs.flatMap C
  | [], _, st, dl, de, acc, h => by
    simp only [loopAcc, Except.ok.injEq] at h
    rw [← h]
    simp
  | x :: xs, hb, st, dl, de, acc, h => by
    simp only [loopAcc, bind, Except.bind] at h
    cases hs : stepAcc (f x st) dl de with
    | error p => rw [hs] at h; simp at h
    | ok acc1 =>
      rw [hs] at h
      simp only [] at h
      obtain ⟨e, hf⟩ := stepAcc_state hs
      have h1 := hb x List.mem_cons_self st acc1.1 e hf
      obtain ⟨s1, dl1, de1⟩ := acc1
      have h2 := loopAcc_log f C xs (fun y hy => hb y (List.mem_cons_of_mem _ hy)) s1 dl1 de1 acc h
      rw [h2, h1, List.flatMap_cons, List.append_assoc]

/-- a loop followed by the common tail of the value-group nodes -/
theorem group_log {α : Type} (f : α → St → M (St × Option RtErr)) (C : α → List Call) (xs : List α)
    (hb : ∀ x ∈ xs, ∀ st st' e, f x st = .ok (st', e) → st'.log = st.log ++ C x)
    (i : Info) (st st' : St) (e : Option RtErr)
    (h : (do let acc ← loopAcc f xs (st, 0, none); pure (endGroup i acc) : M (St × Option RtErr)) = .ok (st', e)) :
    st'.log = st.log ++ xs.flatMap C := by
  simp only [bind, Except.bind, pure, Except.pure] at h
  cases hl : loopAcc f xs (st, 0, none) with
  | error p => rw [hl] at h; simp at h
  | ok acc =>
    rw [hl] at h
    simp only [endGroup, Except.ok.injEq, Prod.mk.injEq] at h
    rw [← h.1]
    exact loopAcc_log f C xs hb st 0 none acc hl

/-! ### node by node -/

theorem branch_log {env : Env} {rest : List N} (h : RetrieveLog env rest) {α : Type}
    (prev : Info) (root : Val) (val : α → Val) (loc : α → Option Loc) :
    ∀ x st st' e, retrieve env rest prev root (val x) (loc x) st = .ok (st', e) →
      st'.log = st.log ++ calls env rest root (val x) :=
  fun x st st' e hr => h prev root (val x) (loc x) st st' e hr

theorem nil_log (env : Env) : RetrieveLog env [] := by
  intro prev root cur aloc st st' e h
  simp only [retrieve, Except.ok.injEq, Prod.mk.injEq] at h
  rw [← h.1]
  simp [calls, St.push]

theorem root_log {env : Env} {rest : List N} (i : Info) (h : RetrieveLog env rest) : RetrieveLog env (.root i :: rest) := by
  intro prev root cur aloc st st' e hr
  simp only [retrieve] at hr
  simp only [calls]
  exact h i root root none st st' e hr

theorem cur_log {env : Env} {rest : List N} (i : Info) (h : RetrieveLog env rest) : RetrieveLog env (.cur i :: rest) := by
  intro prev root cur aloc st st' e hr
  simp only [retrieve] at hr
  simp only [calls]
  exact h i root cur none st st' e hr

/-- an immediate error: the state is returned unchanged -/
theorem same_log {st st' : St} {e e' : Option RtErr} (h : (Except.ok (st, e) : M (St × Option RtErr)) = .ok (st', e')) :
    st'.log = st.log ++ [] := by
  simp only [Except.ok.injEq, Prod.mk.injEq] at h
  rw [← h.1]
  simp

theorem child_log {env : Env} {rest : List N} (i : Info) (k : String) (h : RetrieveLog env rest) :
    RetrieveLog env (.child i k :: rest) := by
  intro prev root cur aloc st st' e hr
  cases cur with
  | obj kvs =>
    simp only [retrieve] at hr
    simp only [calls]
    cases hl : Val.lookup k kvs with
    | none => rw [hl] at hr; exact same_log hr
    | some v => rw [hl] at hr; exact h i root v _ st st' e hr
  | null | bool _ | num _ | jnum _ | str _ | arr _ | opq _ _ =>
    simp only [retrieve] at hr
    simp only [calls]
    exact same_log hr

theorem zipIdx_flatMap_fst' {α β : Type} (g : α → List β) (xs : List α) (k : Nat) :
    (xs.zipIdx k).flatMap (fun xi => g xi.1) = xs.flatMap g := by
  induction xs generalizing k with
  | nil => rfl
  | cons x xs ih => simp [List.zipIdx_cons, List.flatMap_cons, ih]

theorem wild_log {env : Env} {rest : List N} (i : Info) (h : RetrieveLog env rest) :
    RetrieveLog env (.wild i :: rest) := by
  intro prev root cur aloc st st' e hr
  cases cur with
  | obj kvs =>
    simp only [retrieve] at hr
    simp only [calls]
    exact group_log _ (fun kv : String × Val => calls env rest root kv.2) (sortKV kvs)
      (fun x _ => branch_log h i root (fun kv : String × Val => kv.2) (fun kv => ext aloc (.key kv.1)) x) i st st' e hr
  | arr xs =>
    simp only [retrieve] at hr
    simp only [calls]
    have := group_log _ (fun xi : Val × Nat => calls env rest root xi.1) xs.zipIdx
      (fun x _ => branch_log h i root (fun xi : Val × Nat => xi.1) (fun xi => ext aloc (.idx xi.2)) x) i st st' e hr
    rwa [zipIdx_flatMap_fst'] at this
  | null | bool _ | num _ | jnum _ | str _ | opq _ _ =>
    simp only [retrieve] at hr
    simp only [calls]
    exact same_log hr

theorem multi_log {env : Env} {rest : List N} (i : Info) (ids : List MId) (twin : Option Info)
    (h : RetrieveLog env rest) : RetrieveLog env (.multi i ids twin :: rest) := by
  intro prev root cur aloc st st' e hr
  have hobj : ∀ kvs : List (String × Val),
      (do
        let acc ← loopAcc (fun (id : MId) st =>
            match id with
            | .key ii k =>
              (match Val.lookup k kvs with
               | none => (.ok (st, none) : M (St × Option RtErr))
               | some v => retrieve env rest ii root v (ext aloc (.key k)) st)
            | .wild ii => do
              let acc ← loopAcc (fun (kv : String × Val) st => retrieve env rest ii root kv.2 (ext aloc (.key kv.1)) st)
                (sortKV kvs) (st, 0, none)
              .ok (endGroup ii acc))
          ids (st, 0, none)
        (.ok (endGroup i acc) : M (St × Option RtErr))) = .ok (st', e) →
      st'.log = st.log ++ ids.flatMap (fun id =>
        match id with
        | .key _ k => (match Val.lookup k kvs with
          | some v => calls env rest root v
          | none => [])
        | .wild _ => (sortKV kvs).flatMap (fun kv => calls env rest root kv.2)) := by
    intro kvs hr
    refine group_log _ _ ids (fun id _ => ?_) i st st' e hr
    intro st0 st1 e1 h1
    cases id with
    | key ii k =>
      simp only [] at h1 ⊢
      cases hl : Val.lookup k kvs with
      | none => rw [hl] at h1; exact same_log h1
      | some v => rw [hl] at h1; exact h ii root v _ st0 st1 e1 h1
    | wild ii =>
      simp only [] at h1 ⊢
      exact group_log _ (fun kv : String × Val => calls env rest root kv.2) (sortKV kvs)
        (fun x _ => branch_log h ii root (fun kv : String × Val => kv.2) (fun kv => ext aloc (.key kv.1)) x) ii st0 st1 e1 h1
  cases cur with
  | obj kvs =>
    cases twin with
    | none => simp only [retrieve] at hr; simp only [calls]; exact hobj kvs hr
    | some ti => simp only [retrieve] at hr; simp only [calls]; exact hobj kvs hr
  | arr xs =>
    cases twin with
    | none => simp only [retrieve] at hr; simp only [calls]; exact same_log hr
    | some ti =>
      simp only [retrieve] at hr
      simp only [calls]
      have := group_log _ (fun xi : Val × Nat => calls env rest root xi.1) (ids.flatMap (fun _ => xs.zipIdx))
        (fun x _ => branch_log h ti root (fun xi : Val × Nat => xi.1) (fun xi => ext aloc (.idx xi.2)) x) ti st st' e hr
      rw [List.flatMap_assoc] at this
      simpa only [zipIdx_flatMap_fst'] using this
  | null | bool _ | num _ | jnum _ | str _ | opq _ _ =>
    cases twin <;> (simp only [retrieve] at hr; simp only [calls]; exact same_log hr)

theorem filter_map_fst' {α β γ : Type} (p : α → Bool) (g : α × β → List γ) (h : α → List γ)
    (hg : ∀ x, g x = h x.1) : ∀ (xs : List (α × β)),
    (xs.filter (fun cl => p cl.1)).flatMap g = ((xs.map (·.1)).filter p).flatMap h
  | [] => rfl
  | x :: xs => by
    have ih := filter_map_fst' p g h hg xs
    by_cases hp : p x.1 = true
    · simp [hp, hg, ih]
    · simp [hp, ih]

theorem desc_log {env : Env} {rest : List N} (i : Info) (mr lr : Bool) (h : RetrieveLog env rest) :
    RetrieveLog env (.desc i mr lr :: rest) := by
  intro prev root cur aloc st st' e hr
  simp only [retrieve] at hr
  simp only [calls]
  by_cases hc : cur.isContainer = true
  · rw [if_pos hc] at hr
    have := group_log _ (fun cl : Val × Loc => calls env rest root cl.1)
      ((containersLoc cur (aloc.getD [])).filter (fun cl => if isObj cl.1 then mr else lr))
      (fun x _ => branch_log h i root (fun cl : Val × Loc => cl.1) (fun cl => some cl.2) x) i st st' e hr
    rw [filter_map_fst' (fun c => if isObj c then mr else lr) _ (fun c => calls env rest root c) (fun _ => rfl),
      containersLoc_fst] at this
    exact this
  · rw [if_neg hc] at hr
    have hcont : Val.containers cur = [] := by
      cases cur <;> simp [Val.isContainer] at hc <;> simp [Val.containers]
    rw [hcont]
    exact same_log hr

theorem union_log {env : Env} {rest : List N} (i : Info) (subs : List SubI) (h : RetrieveLog env rest) :
    RetrieveLog env (.union i subs :: rest) := by
  intro prev root cur aloc st st' e hr
  cases cur with
  | arr xs =>
    simp only [retrieve] at hr
    simp only [calls]
    refine group_log _ _ (subs.flatMap (fun s => subIndexes s xs.length)) (fun ix _ => ?_) i st st' e hr
    intro st0 st1 e1 h1
    cases hg : (if ix < 0 then none else xs[ix.toNat]?) with
    | none => rw [hg] at h1; simp at h1
    | some v => rw [hg] at h1; exact h i root v _ st0 st1 e1 h1
  | null | bool _ | num _ | jnum _ | str _ | obj _ | opq _ _ =>
    simp only [retrieve] at hr
    simp only [calls]
    exact same_log hr

theorem ffn_log {env : Env} {rest : List N} (i : Info) (name : String)
    (h : RetrieveLog env rest) : RetrieveLog env (.ffn i name :: rest) := by
  intro prev root cur aloc st st' e hr
  simp only [retrieve] at hr
  simp only [calls]
  cases hf : env.ffn name with
  | none => rw [hf] at hr; simp at hr
  | some f =>
    rw [hf] at hr
    simp only [] at hr ⊢
    cases hr' : f cur with
    | none =>
      rw [hr'] at hr
      simp only [Except.ok.injEq, Prod.mk.injEq] at hr
      rw [← hr.1]
      simp [St.call]
    | some r =>
      rw [hr'] at hr
      have := h i root r none _ st' e hr
      rw [this]
      simp [St.call]

theorem den_nil_of_err {st st' : St} {err : RtErr} {D : List Val} (h : RInv st st' (some err) D) : D = [] := by
  cases D with
  | nil => rfl
  | cons a b =>
    have := h.sel_ok (by simp)
    simp at this

theorem afn_log {env : Env} {rest param : List N} (i : Info) (name : String)
    (hpok : RetrieveOK env param) (hp : RetrieveLog env param) (h : RetrieveLog env rest) :
    RetrieveLog env (.afn i name param :: rest) := by
  intro prev root cur aloc st st' e hr
  obtain ⟨s1, e1, hp1, hp2⟩ := hpok i root cur aloc st.sub
  have hlog1 : s1.log = st.log ++ calls env param root cur := hp i root cur aloc st.sub s1 e1 hp1
  have hvals := sub_out_vals st s1 _ hp2.ext
  simp only [retrieve, hp1, bind, Except.bind] at hr
  simp only [calls]
  cases e1 with
  | some err =>
    simp only [Except.ok.injEq, Prod.mk.injEq] at hr
    rw [← hr.1, den_nil_of_err hp2]
    simp [St.back, hlog1]
  | none =>
    simp only [] at hr
    cases hout : s1.out with
    | nil => exact absurd hout (hp2.ok_nonempty rfl)
    | cons r0 rs =>
      rw [hout] at hr hvals
      simp only [List.map_cons] at hvals hr
      rw [← hvals]
      simp only []
      cases hf : env.afn name with
      | none => rw [hf] at hr; simp at hr
      | some f =>
        rw [hf] at hr
        simp only [] at hr ⊢
        cases hr' : f (aggArgs (chainVg param) r0.val (r0.val :: List.map Res.val rs)) with
        | none =>
          rw [hr'] at hr
          simp only [Except.ok.injEq, Prod.mk.injEq] at hr
          rw [← hr.1]
          simp [St.call, St.back, hlog1]
        | some r =>
          rw [hr'] at hr
          have := h i root r none _ st' e hr
          rw [this]
          simp [St.call, St.back, hlog1]

theorem flatMap_snd' {α β γ : Type} (g : β → List γ) : ∀ (xs : List (α × β)),
    xs.flatMap (fun sv => g sv.2) = (xs.map (·.2)).flatMap g
  | [] => rfl
  | x :: xs => by simp [flatMap_snd' g xs]

/-- which members a filter hands to the rest of the chain, from the protocol list -/
theorem filter_sel {α : Type} (E : List (α × Val)) (c0 : Cell) (cs : List Cell)
    (hshort : ¬ (!((c0 :: cs).length == (E.map (·.2)).length) && c0.isEmpty) = true) :
    ((if ((c0 :: cs).length == (E.map (·.2)).length) = true then
        List.map (fun x => x.1) (List.filter (fun ec => !ec.2.isEmpty) (E.zip (c0 :: cs))) else E).map (·.2))
      = keepBy (E.map (·.2)) (absVL (c0 :: cs) (E.map (·.2)).length) := by
  have hlen : (E.map (·.2)).length = E.length := by simp
  by_cases heach : (c0 :: cs).length = (E.map (·.2)).length
  · have : ((c0 :: cs).length == (E.map (·.2)).length) = true := by simpa using heach
    rw [if_pos this, keepBy_zip_filter E (c0 :: cs) (by rw [heach, hlen]), keepBy_map]
    simp only [absVL, expand, heach, if_true]
  · have hb : ((c0 :: cs).length == (E.map (·.2)).length) = false := by simpa using heach
    rw [hb]
    simp only [hb, Bool.not_false, Bool.true_and, Bool.not_eq_true] at hshort
    simp only [Bool.false_eq_true, if_false]
    rw [absVL_not_each_full _ c0 cs _ rfl heach hshort]
    exact (keepBy_all_true _).symm

theorem filter_log {env : Env} {rest : List N} (i : Info) (q : Q) (hqok : ComputeQOK env q)
    (hq : ComputeQLog env q) (h : RetrieveLog env rest) : RetrieveLog env (.filter i q :: rest) := by
  intro prev root cur aloc st st' e hr
  simp only [retrieve] at hr
  simp only [calls]
  by_cases hc : cur.isContainer = true
  · rw [if_pos hc] at hr ⊢
    have hms := entriesSeg_snd cur
    generalize entriesSeg cur = E at hms hr
    obtain ⟨vl, st1, hq1, _, hvl, habs⟩ := hqok root (E.map (·.2)) st
    have hlog1 := (hq root (E.map (·.2)) st st1 vl hq1).2
    simp only [hq1, bind, Except.bind] at hr
    rw [← hms, ← habs]
    cases hcells : vl.cells with
    | nil => exact absurd hcells hvl.ne
    | cons c0 cs =>
      rw [hcells] at hr
      simp only [] at hr
      by_cases hshort : (!((c0 :: cs).length == (E.map (·.2)).length) && c0.isEmpty) = true
      · rw [if_pos hshort] at hr
        simp only [Bool.and_eq_true, Bool.not_eq_true', beq_eq_false_iff_ne, ne_eq] at hshort
        rw [absVL_not_each_empty _ c0 cs _ rfl hshort.1 hshort.2, keepBy_all_false]
        simp only [Except.ok.injEq, Prod.mk.injEq] at hr
        rw [← hr.1, hlog1]
        simp
      · rw [if_neg hshort] at hr
        have := group_log (fun (sv : Seg × Val) st => retrieve env rest i root sv.2 (ext aloc sv.1) st)
          (fun sv : Seg × Val => calls env rest root sv.2)
          (if ((c0 :: cs).length == (E.map (·.2)).length) = true then
              List.map (fun x : (Seg × Val) × Cell => x.1)
                (List.filter (fun ec : (Seg × Val) × Cell => !ec.2.isEmpty) (E.zip (c0 :: cs))) else E)
          (fun x _ => branch_log h i root (fun sv : Seg × Val => sv.2) (fun sv => ext aloc sv.1) x) i st1 st' e hr
        rw [flatMap_snd' (fun v => calls env rest root v), filter_sel E c0 cs hshort] at this
        rw [this, hlog1, List.append_assoc]
  · rw [if_neg hc] at hr ⊢
    exact same_log hr

/-! ### operands -/

theorem bind_ok {α β : Type} {x : M α} {f : α → M β} {b : β}
    (h : (x >>= f) = .ok b) : ∃ a, x = .ok a ∧ f a = .ok b := by
  cases x with
  | error e => cases h
  | ok a => exact ⟨a, rfl, h⟩

theorem lit_log (env : Env) (v : Val) : ComputePLog env (.lit v) := by
  intro root ms st st1 vl h
  simp only [computeP, Except.ok.injEq, Prod.mk.injEq] at h
  rw [← h.1, ← h.2]
  simp [cellsP, callsP]

theorem proot_log {env : Env} {ch : List N} (hok : RetrieveOK env ch) (h : RetrieveLog env ch) :
    ComputePLog env (.proot ch) := by
  intro root ms st st1 vl hc
  obtain ⟨s1, e1, h1, h2⟩ := hok default root root none st.sub
  have hlog1 : s1.log = st.log ++ calls env ch root root := h default root root none st.sub s1 e1 h1
  have hvals := sub_out_vals st s1 _ h2.ext
  simp only [computeP, h1, bind, Except.bind] at hc
  simp only [cellsP, callsP]
  cases e1 with
  | some err =>
    simp only [Except.ok.injEq, Prod.mk.injEq] at hc
    rw [← hc.1, ← hc.2, den_nil_of_err h2]
    exact ⟨rfl, hlog1⟩
  | none =>
    have hne := h2.ok_nonempty rfl
    simp only [] at hc
    match hout : s1.out, hne with
    | [r], _ =>
      rw [hout] at hc hvals
      simp only [Except.ok.injEq, Prod.mk.injEq] at hc
      rw [← hc.1, ← hc.2, ← hvals]
      exact ⟨rfl, hlog1⟩
    | r :: r' :: rs, _ =>
      rw [hout] at hc hvals
      simp only [Except.ok.injEq, Prod.mk.injEq] at hc
      rw [← hc.1, ← hc.2, ← hvals]
      exact ⟨rfl, hlog1⟩

theorem pcurLoop_log {env : Env} {ch : List N} (h : RetrieveLog env ch) (root : Val) :
    ∀ (ms : List Val) (st st1 : St) (cells : List Cell), pcurLoop env ch root ms st = .ok (cells, st1) →
      st1.log = st.log ++ ms.flatMap (fun m => calls env ch root m)
  | [], st, st1, cells, hl => by
    simp only [pcurLoop, Except.ok.injEq, Prod.mk.injEq] at hl
    rw [← hl.2]
    simp
  | m :: ms, st, st1, cells, hl => by
    simp only [pcurLoop] at hl
    obtain ⟨⟨s1, e⟩, hr, hl⟩ := bind_ok hl
    have hlog1 : s1.log = st.log ++ calls env ch root m := h default root m none st.sub s1 e hr
    cases e <;>
    · simp only [] at hl
      obtain ⟨cell, _, hl⟩ := bind_ok hl
      obtain ⟨⟨cells', st2⟩, hrec, hl⟩ := bind_ok hl
      simp only [Except.ok.injEq, Prod.mk.injEq] at hl
      have := pcurLoop_log h root ms (st.back s1) st2 cells' hrec
      rw [← hl.2, this]
      simp [St.back, hlog1]

theorem pcur_log {env : Env} {ch : List N} (hok : RetrieveOK env ch) (h : RetrieveLog env ch) :
    ComputePLog env (.pcur ch) := by
  intro root ms st st1 vl hc
  obtain ⟨st1', hl, _⟩ := pcurLoop_ok hok root ms st
  have hlog := pcurLoop_log h root ms st st1' _ hl
  simp only [computeP, hl, bind, Except.bind] at hc
  simp only [cellsP, callsP]
  split at hc <;> rename_i hany
  · simp only [Except.ok.injEq, Prod.mk.injEq] at hc
    rw [← hc.1, ← hc.2, if_pos hany]
    exact ⟨rfl, hlog⟩
  · simp only [Except.ok.injEq, Prod.mk.injEq] at hc
    rw [← hc.1, ← hc.2, if_neg hany]
    exact ⟨rfl, hlog⟩

/-! ### queries -/

theorem exist_log {env : Env} {p : P} (hp : ComputePLog env p) : ComputeQLog env (.exist p) := by
  intro root ms st st1 vl h
  simp only [computeQ] at h
  simp only [cellsQ, callsQ]
  exact hp root ms st st1 vl h

theorem not_log {env : Env} {a : Q} (ha : ComputeQLog env a) : ComputeQLog env (.not a) := by
  intro root ms st st1 vl h
  simp only [computeQ] at h
  obtain ⟨⟨cl, s1⟩, h1, h⟩ := bind_ok h
  obtain ⟨hcells, hlog⟩ := ha root ms st s1 cl h1
  simp only [cellsQ, callsQ]
  rw [← hcells]
  simp only [] at h
  split at h
  · rename_i hone
    rw [if_pos hone]
    cases hcl : cl.cells with
    | nil => rw [hcl] at hone; simp at hone
    | cons c cs =>
      rw [hcl] at h
      cases c <;>
      · simp only [Except.ok.injEq, Prod.mk.injEq] at h
        rw [← h.1, ← h.2]
        exact ⟨rfl, hlog⟩
  · rename_i hone
    rw [if_neg hone]
    cases hn : notFlip cl.cells with
    | mk hit cells =>
      rw [hn] at h
      simp only [] at h ⊢
      split at h <;>
      · rename_i hh
        simp only [Except.ok.injEq, Prod.mk.injEq] at h
        rw [← h.1, ← h.2]
        exact ⟨by simp [hh, emptyL], hlog⟩

theorem valStep_pure (c : Cmp) (lv : VL) (st : St) :
    (valStep c lv st).1 = valFound c lv.cells ∧ (valStep c lv st).2.1.cells = validated c lv.cells ∧
      (valStep c lv st).2.2.log = st.log := by
  unfold valStep valFound validated
  cases cmpValidatorTy c with
  | none => exact ⟨rfl, rfl, rfl⟩
  | some ty => exact ⟨rfl, rfl, rfl⟩

theorem isNo_len {cells : List Cell} (h : isNo cells = true) : cells.length = 1 := by
  match cells, h with
  | [.empty], _ => rfl

theorem isYes_len {cells : List Cell} (h : isYes cells = true) : cells.length = 1 := by
  match cells, h with
  | [.val _], _ => rfl

theorem isNo_long {cells : List Cell} (h : ¬ (cells.length == 1) = true) : isNo cells = false := by
  cases hn : isNo cells with
  | false => rfl
  | true => exact absurd (by simp [isNo_len hn]) h

theorem isYes_long {cells : List Cell} (h : ¬ (cells.length == 1) = true) : isYes cells = false := by
  cases hn : isYes cells with
  | false => rfl
  | true => exact absurd (by simp [isYes_len hn]) h

theorem len_one_cons {c : Cell} {cs : List Cell} (h : ((c :: cs).length == 1) = true) : cs = [] := by
  cases cs with
  | nil => rfl
  | cons a b => simp at h

theorem and_log {env : Env} {a b : Q} (ha : ComputeQLog env a) (hb : ComputeQLog env b) :
    ComputeQLog env (.and a b) := by
  intro root ms st st1 vl h
  simp only [computeQ] at h
  obtain ⟨⟨l, s1⟩, h1, h⟩ := bind_ok h
  obtain ⟨hlc, hllog⟩ := ha root ms st s1 l h1
  simp only [cellsQ, callsQ]
  rw [← hlc]
  simp only [] at h
  split at h
  · rename_i hone
    rw [if_pos hone]
    cases hcl : l.cells with
    | nil => rw [hcl] at hone; simp at hone
    | cons c cs =>
      rw [hcl] at hone
      have := len_one_cons hone
      subst this
      rw [hcl] at h
      cases c with
      | empty =>
        simp only [Except.ok.injEq, Prod.mk.injEq] at h
        rw [← h.1, ← h.2]
        exact ⟨hcl, by simp [isNo, hllog]⟩
      | val v =>
        simp only [] at h ⊢
        obtain ⟨hrc, hrlog⟩ := hb root ms s1 st1 vl h
        exact ⟨hrc, by simp [isNo, hrlog, hllog]⟩
  · rename_i hone
    rw [if_neg hone, isNo_long hone]
    obtain ⟨⟨r, s2⟩, h2, h⟩ := bind_ok h
    obtain ⟨hrc, hrlog⟩ := hb root ms s1 s2 r h2
    have hlog2 : s2.log = st.log ++ (callsQ env a root ms ++ callsQ env b root ms) := by
      rw [hrlog, hllog, List.append_assoc]
    rw [← hrc]
    simp only [Bool.false_eq_true, if_false]
    simp only [] at h
    split at h
    · rename_i hone'
      rw [if_pos hone']
      cases hcr : r.cells with
      | nil => rw [hcr] at hone'; simp at hone'
      | cons c cs =>
        rw [hcr] at h
        cases c <;>
        · simp only [Except.ok.injEq, Prod.mk.injEq] at h
          rw [← h.1, ← h.2]
          exact ⟨by simp [hcr], hlog2⟩
    · rename_i hone'
      rw [if_neg hone']
      obtain ⟨⟨hit, cells, w⟩, hm, h⟩ := bind_ok h
      rw [hm]
      simp only [] at h ⊢
      split at h <;>
      · rename_i hh
        simp only [Except.ok.injEq, Prod.mk.injEq] at h
        rw [← h.1, ← h.2]
        exact ⟨by simp [hh, emptyL], hlog2⟩

theorem or_log {env : Env} {a b : Q} (ha : ComputeQLog env a) (hb : ComputeQLog env b) :
    ComputeQLog env (.or a b) := by
  intro root ms st st1 vl h
  simp only [computeQ] at h
  obtain ⟨⟨l, s1⟩, h1, h⟩ := bind_ok h
  obtain ⟨hlc, hllog⟩ := ha root ms st s1 l h1
  simp only [cellsQ, callsQ]
  rw [← hlc]
  simp only [] at h
  split at h
  · rename_i hone
    rw [if_pos hone]
    cases hcl : l.cells with
    | nil => rw [hcl] at hone; simp at hone
    | cons c cs =>
      rw [hcl] at hone
      have := len_one_cons hone
      subst this
      rw [hcl] at h
      cases c with
      | empty =>
        simp only [] at h ⊢
        obtain ⟨hrc, hrlog⟩ := hb root ms s1 st1 vl h
        exact ⟨hrc, by simp [isYes, hrlog, hllog]⟩
      | val v =>
        simp only [Except.ok.injEq, Prod.mk.injEq] at h
        rw [← h.1, ← h.2]
        exact ⟨hcl, by simp [isYes, hllog]⟩
  · rename_i hone
    rw [if_neg hone, isYes_long hone]
    obtain ⟨⟨r, s2⟩, h2, h⟩ := bind_ok h
    obtain ⟨hrc, hrlog⟩ := hb root ms s1 s2 r h2
    have hlog2 : s2.log = st.log ++ (callsQ env a root ms ++ callsQ env b root ms) := by
      rw [hrlog, hllog, List.append_assoc]
    rw [← hrc]
    simp only [Bool.false_eq_true, if_false]
    simp only [] at h
    split at h
    · rename_i hone'
      rw [if_pos hone']
      cases hcr : r.cells with
      | nil => rw [hcr] at hone'; simp at hone'
      | cons c cs =>
        rw [hcr] at h
        cases c <;>
        · simp only [Except.ok.injEq, Prod.mk.injEq] at h
          rw [← h.1, ← h.2]
          exact ⟨by simp [hcr], hlog2⟩
    · rename_i hone'
      rw [if_neg hone']
      obtain ⟨⟨cells, w⟩, hm, h⟩ := bind_ok h
      rw [hm]
      simp only [Except.ok.injEq, Prod.mk.injEq] at h ⊢
      rw [← h.1, ← h.2]
      exact ⟨rfl, hlog2⟩

theorem cmp_log {env : Env} {l r : P} (c : Cmp) (hl : ComputePLog env l) (hr : ComputePLog env r) :
    ComputeQLog env (.cmp l r c) := by
  intro root ms st st1 vl h
  simp only [computeQ] at h
  obtain ⟨⟨lv, s1⟩, h1, h⟩ := bind_ok h
  obtain ⟨hlc, hllog⟩ := hl root ms st s1 lv h1
  simp only [] at h
  obtain ⟨⟨rv, s3⟩, h3, h⟩ := bind_ok h
  obtain ⟨hrc, hrlog⟩ := hr root ms _ s3 rv h3
  obtain ⟨hf1, hc1, hlog1⟩ := valStep_pure c lv s1
  obtain ⟨hf2, hc2, hlog2⟩ := valStep_pure c rv s3
  have hlogE : (valStep c rv s3).2.2.log = st.log ++ (callsP env l root ms ++ callsP env r root ms) := by
    rw [hlog2, hrlog, hlog1, hllog, List.append_assoc]
  simp only [cellsQ, callsQ]
  rw [← hlc, ← hrc, ← hf1, ← hf2, ← hc1, ← hc2]
  simp only [] at h
  split at h
  · rename_i hboth
    rw [if_pos hboth]
    cases hR : (valStep c rv s3).2.1.cells with
    | nil => rw [hR] at h; simp at h
    | cons c0 cs =>
      rw [hR] at h
      cases c0 with
      | empty => simp at h
      | val r0 =>
        simp only [] at h ⊢
        obtain ⟨⟨hit, cells, w⟩, hm, h⟩ := bind_ok h
        rw [hm]
        simp only [] at h ⊢
        split at h <;>
        · rename_i hh
          simp only [Except.ok.injEq, Prod.mk.injEq] at h
          rw [← h.1, ← h.2]
          exact ⟨by simp [hh, emptyL], hlogE⟩
  · rename_i hboth
    rw [if_neg hboth]
    split at h <;>
    · rename_i hcorner
      simp only [Except.ok.injEq, Prod.mk.injEq] at h
      rw [← h.1, ← h.2]
      exact ⟨by simp [hcorner, emptyL, fullL], hlogE⟩

/-! ### the mutual induction -/

mutual
theorem retrieve_log (env : Env) : ∀ (ch : List N), wfChain env ch = true → RetrieveLog env ch
  | [], _ => nil_log env
  | n :: rest, h => by
    simp only [wfChain, Bool.and_eq_true] at h
    obtain ⟨hn, hr⟩ := h
    have ih := retrieve_log env rest hr
    cases n with
    | root i => exact root_log i ih
    | cur i => exact cur_log i ih
    | child i k => exact child_log i k ih
    | wild i => exact wild_log i ih
    | multi i ids t => exact multi_log i ids t ih
    | desc i a b => exact desc_log i a b ih
    | union i subs => exact union_log i subs ih
    | filter i q =>
      simp only [wfN] at hn
      exact filter_log i q (computeQ_ok env q hn) (computeQ_log env q hn) ih
    | ffn i name => exact ffn_log i name ih
    | afn i name param =>
      simp only [wfN, Bool.and_eq_true] at hn
      exact afn_log i name (retrieve_ok env param hn.2) (retrieve_log env param hn.2) ih
theorem computeQ_log (env : Env) : ∀ (q : Q), wfQ env q = true → ComputeQLog env q
  | .exist p, h => by
    simp only [wfQ] at h
    exact exist_log (computeP_log env p h)
  | .not a, h => by
    simp only [wfQ] at h
    exact not_log (computeQ_log env a h)
  | .and a b, h => by
    simp only [wfQ, Bool.and_eq_true] at h
    exact and_log (computeQ_log env a h.1) (computeQ_log env b h.2)
  | .or a b, h => by
    simp only [wfQ, Bool.and_eq_true] at h
    exact or_log (computeQ_log env a h.1) (computeQ_log env b h.2)
  | .cmp l r c, h => by
    simp only [wfQ, Bool.and_eq_true, Bool.not_eq_true'] at h
    obtain ⟨⟨⟨⟨hl, hr⟩, _⟩, _⟩, _⟩ := h
    exact cmp_log c (computeP_log env l hl) (computeP_log env r hr)
theorem computeP_log (env : Env) : ∀ (p : P), wfP env p = true → ComputePLog env p
  | .lit v, _ => lit_log env v
  | .proot ch, h => by
    simp only [wfP] at h
    exact proot_log (retrieve_ok env ch h) (retrieve_log env ch h)
  | .pcur ch, h => by
    simp only [wfP] at h
    exact pcur_log (retrieve_ok env ch h) (retrieve_log env ch h)
end

/-! ### the theorems -/

/-- **log_eq_calls**: on a well-formed tree, evaluating a chain appends exactly the denoted
    calls to the log — whatever the buffer, the error and the previous log are. -/
theorem log_eq_calls (env : Env) (ch : List N) (hwf : wfChain env ch = true)
    (prev : Info) (root cur : Val) (aloc : Option Loc) (st st' : St) (e : Option RtErr)
    (h : retrieve env ch prev root cur aloc st = .ok (st', e)) :
    st'.log = st.log ++ calls env ch root cur :=
  retrieve_log env ch hwf prev root cur aloc st st' e h

/-- the analogue for filter queries, with the protocol list returned -/
theorem log_eq_callsQ (env : Env) (q : Q) (hwf : wfQ env q = true)
    (root : Val) (ms : List Val) (st st1 : St) (vl : VL)
    (h : computeQ env q root ms st = .ok (vl, st1)) :
    vl.cells = cellsQ env q root ms ∧ st1.log = st.log ++ callsQ env q root ms :=
  computeQ_log env q hwf root ms st st1 vl h

/-- the analogue for filter operands -/
theorem log_eq_callsP (env : Env) (p : P) (hwf : wfP env p = true)
    (root : Val) (ms : List Val) (st st1 : St) (vl : VL)
    (h : computeP env p root ms st = .ok (vl, st1)) :
    vl.cells = cellsP env p root ms ∧ st1.log = st.log ++ callsP env p root ms :=
  computeP_log env p hwf root ms st st1 vl h

/-- the per-member loop of an `@`-operand: one sub-evaluation per member, in member order -/
theorem log_eq_calls_pcurLoop (env : Env) (ch : List N) (hwf : wfChain env ch = true)
    (root : Val) (ms : List Val) (st st1 : St) (cells : List Cell)
    (h : pcurLoop env ch root ms st = .ok (cells, st1)) :
    st1.log = st.log ++ ms.flatMap (fun m => calls env ch root m) :=
  pcurLoop_log (retrieve_log env ch hwf) root ms st st1 cells h

/-- top level: the log of the function `Parse` returns is `calls` of the chain on the document -/
theorem run_log (env : Env) (ch : List N) (hwf : wfChain env ch = true) (d : Val) :
    (Impl.run env ch d).2.log = calls env ch d d := by
  obtain ⟨st', e, h1, _⟩ := retrieve_ok env ch hwf default d d (some []) {}
  have := log_eq_calls env ch hwf default d d (some []) {} st' e h1
  simp only [Impl.run, h1]
  cases e <;> simpa using this

/-! ### chains without functions make no calls; calls of `pre ++ fns` -/

theorem flatMap_nil' {α β : Type} {l : List α} {f : α → List β} (h : ∀ x, f x = []) : l.flatMap f = [] := by
  induction l with
  | nil => rfl
  | cons a l ih => simp [List.flatMap_cons, h a, ih]

mutual
theorem calls_fnFree (env : Env) : ∀ (ch : List N), fnFree ch = true → ∀ root cur, calls env ch root cur = []
  | [], _, _, _ => rfl
  | n :: rest, h, root, cur => by
    simp only [fnFree, Bool.and_eq_true] at h
    obtain ⟨hn, hr⟩ := h
    have ih := calls_fnFree env rest hr
    cases n with
    | root i => simp only [calls]; exact ih _ _
    | cur i => simp only [calls]; exact ih _ _
    | child i k =>
      cases cur <;> simp only [calls]
      split
      · exact ih _ _
      · rfl
    | wild i => cases cur <;> simp only [calls] <;> exact flatMap_nil' (fun _ => ih _ _)
    | multi i ids t =>
      cases t <;> cases cur <;> simp only [calls]
      all_goals apply flatMap_nil'
      all_goals intro id
      all_goals first
        | exact flatMap_nil' (fun _ => ih _ _)
        | (cases id with
           | key _ k =>
             simp only []
             split
             · exact ih _ _
             · rfl
           | wild _ => exact flatMap_nil' (fun _ => ih _ _))
    | desc i a b => simp only [calls]; exact flatMap_nil' (fun _ => ih _ _)
    | union i subs =>
      cases cur <;> simp only [calls]
      apply flatMap_nil'
      intro ix
      split
      · exact ih _ _
      · rfl
    | filter i q =>
      simp only [fnFreeN] at hn
      simp only [calls]
      split
      · rw [callsQ_fnFree env q hn, flatMap_nil' (fun _ => ih _ _)]
        rfl
      · rfl
    | ffn i name => simp [fnFreeN] at hn
    | afn i name param => simp [fnFreeN] at hn
theorem callsQ_fnFree (env : Env) : ∀ (q : Q), fnFreeQ q = true → ∀ root ms, callsQ env q root ms = []
  | .exist p, h, root, ms => by
    simp only [fnFreeQ] at h
    simp only [callsQ]
    exact callsP_fnFree env p h root ms
  | .not a, h, root, ms => by
    simp only [fnFreeQ] at h
    simp only [callsQ]
    exact callsQ_fnFree env a h root ms
  | .and a b, h, root, ms => by
    simp only [fnFreeQ, Bool.and_eq_true] at h
    simp only [callsQ]
    rw [callsQ_fnFree env a h.1, callsQ_fnFree env b h.2]
    simp
  | .or a b, h, root, ms => by
    simp only [fnFreeQ, Bool.and_eq_true] at h
    simp only [callsQ]
    rw [callsQ_fnFree env a h.1, callsQ_fnFree env b h.2]
    simp
  | .cmp l r c, h, root, ms => by
    simp only [fnFreeQ, Bool.and_eq_true] at h
    simp only [callsQ]
    rw [callsP_fnFree env l h.1, callsP_fnFree env r h.2]
    rfl
theorem callsP_fnFree (env : Env) : ∀ (p : P), fnFreeP p = true → ∀ root ms, callsP env p root ms = []
  | .lit v, _, _, _ => rfl
  | .proot ch, h, root, ms => by
    simp only [fnFreeP] at h
    simp only [callsP]
    exact calls_fnFree env ch h root root
  | .pcur ch, h, root, ms => by
    simp only [fnFreeP] at h
    simp only [callsP]
    exact flatMap_nil' (fun m => calls_fnFree env ch h root m)
end

theorem flatMap_congr'' {α β : Type} {l : List α} {f g : α → List β} (h : ∀ x, f x = g x) :
    l.flatMap f = l.flatMap g := by
  have : f = g := funext h
  rw [this]

/-- behind a function-free prefix, the calls are those of the suffix on every value the prefix
    selects, in result order -/
theorem calls_append (env : Env) (fns : List N) : ∀ (pre : List N), fnFree pre = true → ∀ (root cur : Val),
    calls env (pre ++ fns) root cur = (den env pre root cur).flatMap (fun v => calls env fns root v)
  | [], _, root, cur => by simp [den]
  | n :: rest, h, root, cur => by
    simp only [fnFree, Bool.and_eq_true] at h
    obtain ⟨hn, hr⟩ := h
    have ih := calls_append env fns rest hr
    cases n with
    | root i => simp only [List.cons_append, calls, den]; exact ih _ _
    | cur i => simp only [List.cons_append, calls, den]; exact ih _ _
    | child i k =>
      cases cur <;> simp only [List.cons_append, calls, den, List.flatMap_nil, ih]
      generalize Val.lookup k _ = o
      cases o <;> rfl
    | wild i =>
      cases cur <;> simp only [List.cons_append, calls, den, List.flatMap_nil, List.flatMap_assoc, ih]
    | multi i ids t =>
      cases t <;> cases cur <;> simp only [List.cons_append, calls, den, List.flatMap_nil, List.flatMap_assoc, ih]
      all_goals apply flatMap_congr''
      all_goals intro id
      all_goals
        (cases id with
         | key _ k =>
           simp only []
           generalize Val.lookup k _ = o
           cases o <;> rfl
         | wild _ => simp only [List.flatMap_assoc])
    | desc i a b => simp only [List.cons_append, calls, den, List.flatMap_assoc, ih]
    | union i subs =>
      cases cur <;> simp only [List.cons_append, calls, den, List.flatMap_nil, List.flatMap_assoc, ih]
      apply flatMap_congr''
      intro s
      apply flatMap_congr''
      intro ix
      generalize (if ix < 0 then none else _) = o
      cases o <;> rfl
    | filter i q =>
      simp only [fnFreeN] at hn
      simp only [List.cons_append, calls, den, List.flatMap_assoc]
      split
      · rw [callsQ_fnFree env q hn]
        simp only [List.nil_append, ih]
      · rename_i hc
        have : entries cur = [] := by
          cases cur <;> simp [Val.isContainer] at hc <;> rfl
        rw [this]
        simp [keepBy]
    | ffn i name => simp [fnFreeN] at hn
    | afn i name param => simp [fnFreeN] at hn

/-! ### support for the C14 corollaries -/

theorem flatMap_opt {α β : Type} (f : α → Option β) : ∀ (l : List α),
    l.flatMap (fun v => (f v).toList) = l.filterMap f
  | [] => rfl
  | a :: l => by
    rw [List.flatMap_cons, flatMap_opt f l, List.filterMap_cons]
    cases f a <;> rfl

theorem flatMap_single {α β : Type} (f : α → β) (l : List α) : l.flatMap (fun v => [f v]) = l.map f := by
  induction l with
  | nil => rfl
  | cons a l ih => simp [List.flatMap_cons, ih]

theorem den_ffn_one (env : Env) (i : Info) (name : String) (f : Val → Option Val) (hf : env.ffn name = some f)
    (rest : List N) (root v : Val) :
    den env (.ffn i name :: rest) root v = (match f v with | some r => den env rest root r | none => []) := by
  simp only [den, hf]
  cases f v <;> rfl

theorem calls_ffn_one (env : Env) (i : Info) (name : String) (f : Val → Option Val) (hf : env.ffn name = some f)
    (rest : List N) (root v : Val) :
    calls env (.ffn i name :: rest) root v =
      Call.ffn name v :: (match f v with | some r => calls env rest root r | none => []) := by
  simp only [calls, hf]
  cases f v <;> rfl

/-- what `run` returns, in terms of the denotation (a restatement of `run_refines`) -/
theorem run_outcome (env : Env) (ch : List N) (hwf : wfChain env ch = true) (d : Val) :
    (∃ rs, (Impl.run env ch d).1 = .ok rs ∧ rs.map Res.val = den env ch d d ∧ rs ≠ []) ∨
    (∃ e, (Impl.run env ch d).1 = .err e ∧ den env ch d d = []) := by
  rcases run_refines env ch hwf d with ⟨rs, st, h1, h2, h3, _⟩ | ⟨e, st, h1, h2, _⟩
  · exact Or.inl ⟨rs, by rw [h1], h2, h3⟩
  · exact Or.inr ⟨e, by rw [h1], h2⟩

theorem wfChain_append (env : Env) : ∀ (a b : List N), wfChain env (a ++ b) = (wfChain env a && wfChain env b)
  | [], b => by simp [wfChain]
  | n :: a, b => by simp [wfChain, wfChain_append env a b, Bool.and_assoc]

theorem den_ffn_last (env : Env) (i : Info) (name : String) (f : Val → Option Val) (hf : env.ffn name = some f)
    (root v : Val) : den env [.ffn i name] root v = (f v).toList := by
  rw [den_ffn_one env i name f hf]
  cases f v <;> simp [den]

theorem calls_ffn_last (env : Env) (i : Info) (name : String) (f : Val → Option Val) (hf : env.ffn name = some f)
    (root v : Val) : calls env [.ffn i name] root v = [Call.ffn name v] := by
  rw [calls_ffn_one env i name f hf]
  cases f v <;> simp [calls]

theorem run_single (env : Env) (ch : List N) (hwf : wfChain env ch = true) (d r : Val)
    (h : den env ch d d = [r]) : ∃ x, (Impl.run env ch d).1 = .ok [x] ∧ x.val = r := by
  rcases run_outcome env ch hwf d with ⟨rs, h1, h2, _⟩ | ⟨e, _, h2⟩
  · rw [h] at h2
    match rs, h2 with
    | [x], h2 => exact ⟨x, h1, by simpa using h2⟩
  · rw [h] at h2
    simp at h2

theorem run_none (env : Env) (ch : List N) (hwf : wfChain env ch = true) (d : Val)
    (h : den env ch d d = []) : ∃ e, (Impl.run env ch d).1 = .err e := by
  rcases run_outcome env ch hwf d with ⟨rs, _, h2, h3⟩ | ⟨e, h1, _⟩
  · rw [h] at h2
    simp at h2
    exact absurd h2 h3
  · exact ⟨e, h1⟩

/-- an aggregate function that fails on a non-empty selection: the error names its own node -/
theorem retrieve_afn_fail {env : Env} {rest param : List N} (i : Info) (name : String)
    (f : List Val → Option Val) (hf : env.afn name = some f) (hp : RetrieveOK env param)
    (prev : Info) (root cur : Val) (aloc : Option Loc) (st : St) (r0 : Val) (rs : List Val)
    (hden : den env param root cur = r0 :: rs)
    (hfail : f (aggArgs (chainVg param) r0 (r0 :: rs)) = none) :
    ∃ st', retrieve env (.afn i name param :: rest) prev root cur aloc st = .ok (st', some (.func i)) := by
  obtain ⟨s1, e1, hp1, hp2⟩ := hp i root cur aloc st.sub
  have hvals := sub_out_vals st s1 _ hp2.ext
  have he1 : e1 = none := hp2.sel_ok (by simp [hden])
  subst he1
  cases hout : s1.out with
  | nil => exact absurd hout (hp2.ok_nonempty rfl)
  | cons x xs =>
    rw [hout, hden] at hvals
    simp only [List.map_cons, List.cons.injEq] at hvals
    have hargs : aggArgs (chainVg param) x.val (x.val :: List.map Res.val xs) = aggArgs (chainVg param) r0 (r0 :: rs) := by
      rw [hvals.1, hvals.2]
    simp only [retrieve, hp1, bind, Except.bind, hout, hf, List.map_cons, hargs, hfail]
    exact ⟨_, rfl⟩

theorem ffnArgs_chain_left (fname gname : String) (hne : fname ≠ gname) (ff : Val → Option Val) : ∀ (L : List Val),
    ffnArgs fname (L.flatMap (fun v => Call.ffn fname v ::
      ((ff v).map (fun r => Call.ffn gname r)).toList)) = L
  | [] => rfl
  | v :: L => by
    have ih := ffnArgs_chain_left fname gname hne ff L
    unfold ffnArgs at ih ⊢
    rw [List.flatMap_cons, List.filterMap_append, ih]
    cases ff v <;> simp [Ne.symm hne]

theorem ffnArgs_chain_right (fname gname : String) (hne : fname ≠ gname) (ff : Val → Option Val) : ∀ (L : List Val),
    ffnArgs gname (L.flatMap (fun v => Call.ffn fname v ::
      ((ff v).map (fun r => Call.ffn gname r)).toList)) = L.filterMap ff
  | [] => rfl
  | v :: L => by
    have ih := ffnArgs_chain_right fname gname hne ff L
    unfold ffnArgs at ih ⊢
    rw [List.flatMap_cons, List.filterMap_append, ih]
    cases hv : ff v <;> simp [hne, hv]

end CL
end JPV
