/-
Appends — a reasoning principle for "what does `retrieve` append to the result buffer".

Results are appended only at the end of the chain (`retrieve env [] …`).  Sub-evaluations
(the parameter of an aggregate function, the operands of a filter) run in their own
container (`St.sub`), and only their logs come back (`St.back`): `computeQ_out`.
So a property `P` of every appended result follows from a precondition `Pre` on the calls of
`retrieve` that (a) is handed down by every node kind to the calls it makes on the rest of
the chain and (b) implies `P` of the wrapped value at the end of the chain: `Hoare`,
`retrieve_appends`.  No well-formedness is needed: the statement is about runs that return.
Used for C13 (locations are sound; which results have no `Set`) and C12 (which results are
wrapped).
-/
import JPV.Acc.Loc
namespace JPV
open Impl

theorem bind_ok_iff {α β : Type} {x : M α} {f : α → M β} {b : β} :
    (x >>= f) = .ok b ↔ ∃ a, x = .ok a ∧ f a = .ok b := by
  cases x with
  | error p => simp [bind, Except.bind]
  | ok a => simp [bind, Except.bind]

theorem ok_inj {α : Type} {a b : α} (h : (Except.ok a : M α) = .ok b) : a = b := by
  cases h; rfl

theorem pcurLoop_out (env : Env) (ch : List N) (root : Val) :
    ∀ (ms : List Val) (st : St) (cells : List Cell) (st1 : St),
      pcurLoop env ch root ms st = .ok (cells, st1) → st1.out = st.out
  | [], st, cells, st1, h => by
    simp only [pcurLoop] at h
    cases h; rfl
  | m :: ms, st, cells, st1, h => by
    simp only [pcurLoop] at h
    obtain ⟨⟨s1, e⟩, h1, h⟩ := bind_ok_iff.mp h
    have key : ∀ (c : M Cell), (do
          let cell ← c
          let x ← pcurLoop env ch root ms (st.back s1)
          (Except.ok (cell :: x.fst, x.snd) : M (List Cell × St))) = .ok (cells, st1) → st1.out = st.out := by
      intro c hc
      obtain ⟨cell, _, hc⟩ := bind_ok_iff.mp hc
      obtain ⟨⟨cs, s2⟩, h2, hc⟩ := bind_ok_iff.mp hc
      have := ok_inj hc
      simp only [Prod.mk.injEq] at this
      rw [← this.2, pcurLoop_out env ch root ms _ _ _ h2]
      rfl
    cases e with
    | some err => exact key _ h
    | none => exact key _ h

theorem computeP_out (env : Env) (p : P) (root : Val) (ms : List Val) (st : St) (vl : VL) (st1 : St)
    (h : computeP env p root ms st = .ok (vl, st1)) : st1.out = st.out := by
  cases p with
  | lit v =>
    simp only [computeP] at h
    have := ok_inj h
    simp only [Prod.mk.injEq] at this
    rw [← this.2]
  | proot ch =>
    simp only [computeP] at h
    obtain ⟨⟨s1, e⟩, h1, h⟩ := bind_ok_iff.mp h
    have : st1 = st.back s1 := by
      revert h
      simp only []
      split
      · intro h; exact ((Prod.mk.injEq _ _ _ _).mp (ok_inj h)).2.symm
      · split <;> (intro h; exact ((Prod.mk.injEq _ _ _ _).mp (ok_inj h)).2.symm)
    rw [this]; rfl
  | pcur ch =>
    simp only [computeP] at h
    obtain ⟨⟨cells, s1⟩, h1, h⟩ := bind_ok_iff.mp h
    have : st1 = s1 := by
      revert h
      simp only []
      split <;> (intro h; exact ((Prod.mk.injEq _ _ _ _).mp (ok_inj h)).2.symm)
    rw [this]
    exact pcurLoop_out env ch root ms st _ _ h1


theorem valStep_out (c : Cmp) (lv : VL) (st : St) : (valStep c lv st).2.2.out = st.out := by
  unfold valStep
  split <;> rfl

theorem snd_of_ok {α : Type} {a b : α} {s t : St} (h : (Except.ok (a, s) : M (α × St)) = .ok (b, t)) : t = s :=
  ((Prod.mk.injEq _ _ _ _).mp (ok_inj h)).2.symm

theorem computeQ_out (env : Env) : ∀ (q : Q) (root : Val) (ms : List Val) (st : St) (vl : VL) (st1 : St),
    computeQ env q root ms st = .ok (vl, st1) → st1.out = st.out
  | .exist p, root, ms, st, vl, st1, h => by
    simp only [computeQ] at h
    exact computeP_out env p root ms st vl st1 h
  | .cmp l r c, root, ms, st, vl, st1, h => by
    simp only [computeQ] at h
    obtain ⟨⟨lv0, s1⟩, h1, h⟩ := bind_ok_iff.mp h
    obtain ⟨⟨rv0, s3⟩, h3, h⟩ := bind_ok_iff.mp h
    have e1 := computeP_out env l root ms st _ _ h1
    have e3 := computeP_out env r root ms _ _ _ h3
    have e2 := valStep_out c lv0 s1
    have e4 := valStep_out c rv0 s3
    simp only [] at h e3 e4
    have hfin : (valStep c rv0 s3).2.2.out = st.out := by rw [e4, e3, e2, e1]
    revert h
    split
    · split
      · intro h; cases h
      · intro h; cases h
      · intro h
        obtain ⟨⟨hit, cells, w⟩, _, h⟩ := bind_ok_iff.mp h
        revert h
        simp only []
        split <;> (intro h; rw [snd_of_ok h]; exact hfin)
    · split <;> (intro h; rw [snd_of_ok h]; exact hfin)
  | .not a, root, ms, st, vl, st1, h => by
    simp only [computeQ] at h
    obtain ⟨⟨cl, s1⟩, h1, h⟩ := bind_ok_iff.mp h
    have e1 := computeQ_out env a root ms st _ _ h1
    revert h
    simp only []
    split
    · split <;> (intro h; rw [snd_of_ok h]; exact e1)
    · split <;> (intro h; rw [snd_of_ok h]; exact e1)
  | .and a b, root, ms, st, vl, st1, h => by
    simp only [computeQ] at h
    obtain ⟨⟨l, s1⟩, h1, h⟩ := bind_ok_iff.mp h
    have e1 := computeQ_out env a root ms st _ _ h1
    revert h
    simp only []
    split
    · split
      · intro h; rw [snd_of_ok h]; exact e1
      · intro h; rw [computeQ_out env b root ms _ _ _ h]; exact e1
    · intro h
      obtain ⟨⟨r, s2⟩, h2, h⟩ := bind_ok_iff.mp h
      have e2 := computeQ_out env b root ms _ _ _ h2
      revert h
      simp only []
      split
      · split <;> (intro h; rw [snd_of_ok h, e2]; exact e1)
      · intro h
        obtain ⟨⟨hit, cells, w⟩, _, h⟩ := bind_ok_iff.mp h
        revert h
        simp only []
        split <;> (intro h; rw [snd_of_ok h]; show s2.out = _; rw [e2]; exact e1)
  | .or a b, root, ms, st, vl, st1, h => by
    simp only [computeQ] at h
    obtain ⟨⟨l, s1⟩, h1, h⟩ := bind_ok_iff.mp h
    have e1 := computeQ_out env a root ms st _ _ h1
    revert h
    simp only []
    split
    · split
      · intro h; rw [computeQ_out env b root ms _ _ _ h]; exact e1
      · intro h; rw [snd_of_ok h]; exact e1
    · intro h
      obtain ⟨⟨r, s2⟩, h2, h⟩ := bind_ok_iff.mp h
      have e2 := computeQ_out env b root ms _ _ _ h2
      revert h
      simp only []
      split
      · split <;> (intro h; rw [snd_of_ok h, e2]; exact e1)
      · intro h
        obtain ⟨⟨cells, w⟩, _, h⟩ := bind_ok_iff.mp h
        rw [snd_of_ok h]; show s2.out = _; rw [e2]; exact e1

/-- the buffer grew by results that all satisfy `P` -/
def App (P : Res → Prop) (st st' : St) : Prop := ∃ R, st'.out = st.out ++ R ∧ ∀ r ∈ R, P r

theorem App.refl (P : Res → Prop) (st : St) : App P st st := ⟨[], by simp, by simp⟩

theorem App.of_out_eq {P : Res → Prop} {st st' : St} (h : st'.out = st.out) : App P st st' := ⟨[], by simp [h], by simp⟩

theorem App.trans {P : Res → Prop} {a b c : St} (h1 : App P a b) (h2 : App P b c) : App P a c := by
  obtain ⟨R1, e1, p1⟩ := h1
  obtain ⟨R2, e2, p2⟩ := h2
  refine ⟨R1 ++ R2, by rw [e2, e1, List.append_assoc], ?_⟩
  intro r hr
  rcases List.mem_append.mp hr with h | h
  · exact p1 r h
  · exact p2 r h

theorem App.pre {P : Res → Prop} {a b c : St} (h1 : b.out = a.out) (h2 : App P b c) : App P a c :=
  (App.of_out_eq h1).trans h2

theorem stepAcc_ok_inv {r : M (St × Option RtErr)} {dl : Nat} {de : Option RtErr} {acc' : Acc}
    (h : stepAcc r dl de = .ok acc') : ∃ e, r = .ok (acc'.1, e) := by
  unfold stepAcc at h
  obtain ⟨⟨st', e⟩, h1, h⟩ := bind_ok_iff.mp h
  refine ⟨e, ?_⟩
  rw [h1]
  revert h
  simp only []
  split
  · intro h; rw [← ok_inj h]
  · split <;> (intro h; rw [← ok_inj h])

theorem loopAcc_app {α : Type} {P : Res → Prop} (f : α → St → M (St × Option RtErr)) :
    ∀ (xs : List α), (∀ x ∈ xs, ∀ st st' e, f x st = .ok (st', e) → App P st st') →
      ∀ (acc acc' : Acc), loopAcc f xs acc = .ok acc' → App P acc.1 acc'.1
  | [], _, acc, acc', h => by
    simp only [loopAcc] at h
    rw [← ok_inj h]
    exact App.refl P _
  | x :: xs, hf, (st, dl, de), acc', h => by
    simp only [loopAcc] at h
    obtain ⟨acc1, h1, h⟩ := bind_ok_iff.mp h
    obtain ⟨e, he⟩ := stepAcc_ok_inv h1
    have a1 := hf x List.mem_cons_self st _ _ he
    have a2 := loopAcc_app f xs (fun y hy => hf y (List.mem_cons_of_mem _ hy)) acc1 acc' h
    exact a1.trans a2

/-- a fan-out loop followed by the common tail -/
theorem group_app {α : Type} {P : Res → Prop} (f : α → St → M (St × Option RtErr)) (xs : List α)
    (hf : ∀ x ∈ xs, ∀ st st' e, f x st = .ok (st', e) → App P st st') (i : Info) (st st' : St) (e : Option RtErr)
    (h : (do let acc ← loopAcc f xs (st, 0, none); Except.ok (endGroup i acc) : M (St × Option RtErr)) = .ok (st', e)) :
    App P st st' := by
  obtain ⟨acc, h1, h⟩ := bind_ok_iff.mp h
  have := loopAcc_app f xs hf _ _ h1
  have h2 := ok_inj h
  simp only [endGroup, Prod.mk.injEq] at h2
  rw [← h2.1]
  exact this


/-- what the empty chain appends -/
def wrap (prev : Info) (cur : Val) (aloc : Option Loc) : Res :=
  if prev.acc then .acc cur aloc else .plain cur

/-- A precondition on the calls of `retrieve` that is handed down to every recursive call on
    the rest of the chain, and at the end of the chain implies `P` of the appended result. -/
structure Hoare (root : Val) (Pre : List N → Info → Val → Option Loc → Prop) (P : Res → Prop) : Prop where
  nil : ∀ prev cur aloc, Pre [] prev cur aloc → P (wrap prev cur aloc)
  root : ∀ i rest prev cur aloc, Pre (.root i :: rest) prev cur aloc → Pre rest i root none
  cur : ∀ i rest prev cur aloc, Pre (.cur i :: rest) prev cur aloc → Pre rest i cur none
  child : ∀ i k rest prev kvs aloc v, Pre (.child i k :: rest) prev (.obj kvs) aloc → Val.lookup k kvs = some v →
    Pre rest i v (ext aloc (.key k))
  wildObj : ∀ i rest prev kvs aloc (kv : String × Val), Pre (.wild i :: rest) prev (.obj kvs) aloc → kv ∈ sortKV kvs →
    Pre rest i kv.2 (ext aloc (.key kv.1))
  wildArr : ∀ i rest prev xs aloc (xi : Val × Nat), Pre (.wild i :: rest) prev (.arr xs) aloc → xi ∈ xs.zipIdx →
    Pre rest i xi.1 (ext aloc (.idx xi.2))
  twin : ∀ i ids ti rest prev xs aloc (xi : Val × Nat), Pre (.multi i ids (some ti) :: rest) prev (.arr xs) aloc →
    xi ∈ xs.zipIdx → Pre rest ti xi.1 (ext aloc (.idx xi.2))
  multiKey : ∀ i ids tw rest prev kvs aloc ii k v, Pre (.multi i ids tw :: rest) prev (.obj kvs) aloc →
    MId.key ii k ∈ ids → Val.lookup k kvs = some v → Pre rest ii v (ext aloc (.key k))
  multiWild : ∀ i ids tw rest prev kvs aloc ii (kv : String × Val), Pre (.multi i ids tw :: rest) prev (.obj kvs) aloc →
    MId.wild ii ∈ ids → kv ∈ sortKV kvs → Pre rest ii kv.2 (ext aloc (.key kv.1))
  desc : ∀ i mr lr rest prev cur aloc (cl : Val × Loc), Pre (.desc i mr lr :: rest) prev cur aloc →
    cl ∈ containersLoc cur (aloc.getD []) → Pre rest i cl.1 (some cl.2)
  union : ∀ i subs rest prev xs aloc (n : Nat) v, Pre (.union i subs :: rest) prev (.arr xs) aloc → xs[n]? = some v →
    Pre rest i v (ext aloc (.idx n))
  filter : ∀ i q rest prev cur aloc (sv : Seg × Val), Pre (.filter i q :: rest) prev cur aloc → sv ∈ entriesSeg cur →
    Pre rest i sv.2 (ext aloc sv.1)
  ffn : ∀ i name rest prev cur aloc r, Pre (.ffn i name :: rest) prev cur aloc → Pre rest i r none
  afn : ∀ i name param rest prev cur aloc r, Pre (.afn i name param :: rest) prev cur aloc → Pre rest i r none

/-- the statement proved by induction on the chain -/
def Appends (env : Env) (root : Val) (Pre : List N → Info → Val → Option Loc → Prop) (P : Res → Prop) (ch : List N) : Prop :=
  ∀ (prev : Info) (cur : Val) (aloc : Option Loc) (st st' : St) (e : Option RtErr),
    Pre ch prev cur aloc → retrieve env ch prev root cur aloc st = .ok (st', e) → App P st st'

theorem st_of_ok {st st' : St} {e e' : Option RtErr} (h : (Except.ok (st, e) : M (St × Option RtErr)) = .ok (st', e')) :
    st' = st := ((Prod.mk.injEq _ _ _ _).mp (ok_inj h)).1.symm

section
variable {env : Env} {root : Val} {Pre : List N → Info → Val → Option Loc → Prop} {P : Res → Prop}

theorem nil_app (H : Hoare root Pre P) : Appends env root Pre P [] := by
  intro prev cur aloc st st' e hp h
  simp only [retrieve] at h
  rw [st_of_ok h]
  exact ⟨[_], rfl, by intro r hr; rw [List.mem_singleton.mp hr]; exact H.nil prev cur aloc hp⟩

theorem child_app (H : Hoare root Pre P) {rest : List N} (i : Info) (k : String) (ih : Appends env root Pre P rest) :
    Appends env root Pre P (.child i k :: rest) := by
  intro prev cur aloc st st' e hp h
  cases cur with
  | obj kvs =>
    simp only [retrieve] at h
    cases hl : Val.lookup k kvs with
    | none => rw [hl] at h; rw [st_of_ok h]; exact App.refl P st
    | some v => rw [hl] at h; exact ih i v _ st st' e (H.child i k rest prev kvs aloc v hp hl) h
  | _ => simp only [retrieve] at h; rw [st_of_ok h]; exact App.refl P st

theorem wild_app (H : Hoare root Pre P) {rest : List N} (i : Info) (ih : Appends env root Pre P rest) :
    Appends env root Pre P (.wild i :: rest) := by
  intro prev cur aloc st st' e hp h
  cases cur with
  | obj kvs =>
    simp only [retrieve] at h
    exact group_app _ _ (fun kv hkv s s' e' hh => ih i kv.2 _ s s' e' (H.wildObj i rest prev kvs aloc kv hp hkv) hh) i st st' e h
  | arr xs =>
    simp only [retrieve] at h
    exact group_app _ _ (fun xi hxi s s' e' hh => ih i xi.1 _ s s' e' (H.wildArr i rest prev xs aloc xi hp hxi) hh) i st st' e h
  | _ => simp only [retrieve] at h; rw [st_of_ok h]; exact App.refl P st


theorem root_app (H : Hoare root Pre P) {rest : List N} (i : Info) (ih : Appends env root Pre P rest) :
    Appends env root Pre P (.root i :: rest) := by
  intro prev cur aloc st st' e hp h
  simp only [retrieve] at h
  exact ih i root none st st' e (H.root i rest prev cur aloc hp) h

theorem cur_app (H : Hoare root Pre P) {rest : List N} (i : Info) (ih : Appends env root Pre P rest) :
    Appends env root Pre P (.cur i :: rest) := by
  intro prev cur aloc st st' e hp h
  simp only [retrieve] at h
  exact ih i cur none st st' e (H.cur i rest prev cur aloc hp) h

theorem multi_app (H : Hoare root Pre P) {rest : List N} (i : Info) (ids : List MId) (tw : Option Info)
    (ih : Appends env root Pre P rest) : Appends env root Pre P (.multi i ids tw :: rest) := by
  intro prev cur aloc st st' e hp h
  have hobj : ∀ kvs : List (String × Val), cur = .obj kvs →
      (do
        let acc ← loopAcc (fun (id : MId) st =>
            match id with
            | .key ii k =>
              (match Val.lookup k kvs with
               | none => (.ok (st, none) : M (St × Option RtErr))
               | some v => retrieve env rest ii root v (ext aloc (.key k)) st)
            | .wild ii => do
              let acc ← loopAcc (fun (kv : String × Val) st => retrieve env rest ii root kv.2 (ext aloc (.key kv.1)) st)
                (sortKV kvs) (st, 0, none)
              .ok (endGroup ii acc))
          ids (st, 0, none)
        (.ok (endGroup i acc) : M (St × Option RtErr))) = .ok (st', e) → App P st st' := by
    intro kvs hcur h'
    subst hcur
    refine group_app _ ids (fun id hid s s' e' hh => ?_) i st st' e h'
    cases id with
    | key ii k =>
      simp only [] at hh
      cases hl : Val.lookup k kvs with
      | none => rw [hl] at hh; rw [st_of_ok hh]; exact App.refl P s
      | some v => rw [hl] at hh; exact ih ii v _ s s' e' (H.multiKey i ids tw rest prev kvs aloc ii k v hp hid hl) hh
    | wild ii =>
      simp only [] at hh
      exact group_app _ _ (fun kv hkv s s' e' hh =>
        ih ii kv.2 _ s s' e' (H.multiWild i ids tw rest prev kvs aloc ii kv hp hid hkv) hh) ii s s' e' hh
  cases cur with
  | obj kvs =>
    cases tw with
    | none => simp only [retrieve] at h; exact hobj kvs rfl h
    | some ti => simp only [retrieve] at h; exact hobj kvs rfl h
  | arr xs =>
    cases tw with
    | none => simp only [retrieve] at h; rw [st_of_ok h]; exact App.refl P st
    | some ti =>
      simp only [retrieve] at h
      refine group_app _ _ (fun xi hxi s s' e' hh => ?_) ti st st' e h
      obtain ⟨_, _, hmem⟩ := List.mem_flatMap.mp hxi
      exact ih ti xi.1 _ s s' e' (H.twin i ids ti rest prev xs aloc xi hp hmem) hh
  | _ => cases tw <;> (simp only [retrieve] at h; rw [st_of_ok h]; exact App.refl P st)

theorem desc_app (H : Hoare root Pre P) {rest : List N} (i : Info) (mr lr : Bool) (ih : Appends env root Pre P rest) :
    Appends env root Pre P (.desc i mr lr :: rest) := by
  intro prev cur aloc st st' e hp h
  simp only [retrieve] at h
  by_cases hc : cur.isContainer = true
  · rw [if_pos hc] at h
    refine group_app _ _ (fun cl hcl s s' e' hh => ?_) i st st' e h
    exact ih i cl.1 _ s s' e' (H.desc i mr lr rest prev cur aloc cl hp (List.mem_filter.mp hcl).1) hh
  · rw [if_neg hc] at h; rw [st_of_ok h]; exact App.refl P st

theorem union_app (H : Hoare root Pre P) {rest : List N} (i : Info) (subs : List SubI) (ih : Appends env root Pre P rest) :
    Appends env root Pre P (.union i subs :: rest) := by
  intro prev cur aloc st st' e hp h
  cases cur with
  | arr xs =>
    simp only [retrieve] at h
    refine group_app _ _ (fun ix _ s s' e' hh => ?_) i st st' e h
    split at hh
    · cases hh
    · rename_i v hv
      have hget : xs[ix.toNat]? = some v := by
        split at hv
        · cases hv
        · exact hv
      exact ih i v _ s s' e' (H.union i subs rest prev xs aloc ix.toNat v hp hget) hh
  | _ => simp only [retrieve] at h; rw [st_of_ok h]; exact App.refl P st

theorem ffn_app (H : Hoare root Pre P) {rest : List N} (i : Info) (name : String) (ih : Appends env root Pre P rest) :
    Appends env root Pre P (.ffn i name :: rest) := by
  intro prev cur aloc st st' e hp h
  simp only [retrieve] at h
  split at h
  · cases h
  · split at h
    · rw [st_of_ok h]; exact App.of_out_eq rfl
    · rename_i r _
      have := ih i r none _ st' e (H.ffn i name rest prev cur aloc r hp) h
      exact App.pre rfl this

theorem afn_app (H : Hoare root Pre P) {rest : List N} (i : Info) (name : String) (param : List N)
    (ih : Appends env root Pre P rest) : Appends env root Pre P (.afn i name param :: rest) := by
  intro prev cur aloc st st' e hp h
  simp only [retrieve] at h
  obtain ⟨⟨s1, e1⟩, h1, h⟩ := bind_ok_iff.mp h
  simp only [] at h
  split at h
  · rw [st_of_ok h]; exact App.of_out_eq rfl
  · split at h
    · cases h
    · split at h
      · cases h
      · split at h
        · rw [st_of_ok h]; exact App.of_out_eq rfl
        · rename_i r _
          have := ih i r none _ st' e (H.afn i name param rest prev cur aloc r hp) h
          exact App.pre rfl this

theorem mem_sel {α β : Type} (p : α × β → Bool) (es : List α) (cs : List β) (x : α)
    (h : x ∈ ((es.zip cs).filter p).map (·.1)) : x ∈ es := by
  obtain ⟨⟨a, b⟩, hab, rfl⟩ := List.mem_map.mp h
  exact (List.of_mem_zip (List.mem_filter.mp hab).1).1

theorem filter_app (H : Hoare root Pre P) {rest : List N} (i : Info) (q : Q) (ih : Appends env root Pre P rest) :
    Appends env root Pre P (.filter i q :: rest) := by
  intro prev cur aloc st st' e hp h
  simp only [retrieve] at h
  by_cases hc : cur.isContainer = true
  · rw [if_pos hc] at h
    obtain ⟨⟨vl, st1⟩, h1, h⟩ := bind_ok_iff.mp h
    have hout := computeQ_out env q root _ st vl st1 h1
    simp only [] at h
    split at h
    · cases h
    · split at h
      · rw [st_of_ok h]; exact App.of_out_eq hout
      · refine App.pre hout (group_app _ _ (fun sv hsv s s' e' hh => ?_) i st1 st' e h)
        have hmem : sv ∈ entriesSeg cur := by
          split at hsv
          · exact mem_sel _ _ _ _ hsv
          · exact hsv
        exact ih i sv.2 _ s s' e' (H.filter i q rest prev cur aloc sv hp hmem) hh
  · rw [if_neg hc] at h; rw [st_of_ok h]; exact App.refl P st

/-- every result `retrieve` appends satisfies `P`, whatever the chain -/
theorem retrieve_appends (env : Env) (H : Hoare root Pre P) : ∀ (ch : List N), Appends env root Pre P ch
  | [] => nil_app H
  | n :: rest => by
    have ih := retrieve_appends env H rest
    cases n with
    | root i => exact root_app H i ih
    | cur i => exact cur_app H i ih
    | child i k => exact child_app H i k ih
    | wild i => exact wild_app H i ih
    | multi i ids t => exact multi_app H i ids t ih
    | desc i a b => exact desc_app H i a b ih
    | union i subs => exact union_app H i subs ih
    | filter i q => exact filter_app H i q ih
    | ffn i name => exact ffn_app H i name ih
    | afn i name param => exact afn_app H i name param ih

end

/-! ### the top level -/

theorem run_ok {env : Env} {ch : List N} {d : Val} {rs : List Res} {st : St}
    (h : Impl.run env ch d = (.ok rs, st)) :
    retrieve env ch default d d (some []) {} = .ok (st, none) ∧ rs = st.out := by
  unfold Impl.run at h
  split at h
  · cases h
  · cases h
  · rename_i st' heq
    cases h
    exact ⟨heq, rfl⟩

/-- everything a run returns was appended by `retrieve` to the empty buffer -/
theorem run_results {env : Env} {ch : List N} {d : Val} {rs : List Res} {st : St} {P : Res → Prop}
    (h : Impl.run env ch d = (.ok rs, st))
    (happ : ∀ st', retrieve env ch default d d (some []) {} = .ok (st', none) → App P {} st') :
    ∀ r ∈ rs, P r := by
  obtain ⟨h1, rfl⟩ := run_ok h
  obtain ⟨R, hR, hP⟩ := happ st h1
  intro r hr
  rw [hR] at hr
  exact hP r (by simpa using hr)

end JPV
