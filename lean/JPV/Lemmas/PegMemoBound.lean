/-
Lemmas/PegMemoBound — the step bound of the packrat interpreter in closed form.

`work e m` is a polynomial in m (characters left) whose degree is the nesting depth of `*`/`+` in `e`
(`starDepth`); when no rule body nests loops (depth ≤ 1 — true of jsonpath.peg, checked in Props/C02Time.lean)

    work e m ≤ work e 0 · (m+1)      and      stepBound g e n ≤ (work e 0 + grammarConst g) · (n+1)²,

`grammarConst g` = Σ over the rules of `work body 0`.  (Only rule bodies are memoised, as in the generated
parser, so a loop inside a body may rescan the rest of the input once per starting position: quadratic, not
linear, is what holds for every grammar of depth ≤ 1.)
-/
import JPV.Lemmas.PegMemo
namespace JPV.Peg

theorem work_const (e : PE) : ∀ (m : Nat), starDepth e = 0 → work e m = work e 0 := by
  induction e with
  | seq a b iha ihb =>
    intro m h; simp only [starDepth] at h; simp only [work]
    rw [iha m (by omega), ihb m (by omega)]
  | alt a b iha ihb =>
    intro m h; simp only [starDepth] at h; simp only [work]
    rw [iha m (by omega), ihb m (by omega)]
  | star a _ => intro m h; simp [starDepth] at h
  | plus a _ => intro m h; simp [starDepth] at h
  | opt a ih => intro m h; simp only [starDepth] at h; simp only [work]; rw [ih m h]
  | not a ih => intro m h; simp only [starDepth] at h; simp only [work]; rw [ih m h]
  | and a ih => intro m h; simp only [starDepth] at h; simp only [work]; rw [ih m h]
  | cap a ih => intro m h; simp only [starDepth] at h; simp only [work]; rw [ih m h]
  | _ => intro m _; rfl

/-- loops not nested: the work is linear in the characters left -/
theorem work_le_linear (e : PE) : ∀ (m : Nat), starDepth e ≤ 1 → work e m ≤ work e 0 * (m + 1) := by
  induction e with
  | seq a b iha ihb =>
    intro m h; simp only [starDepth] at h; simp only [work]
    have h1 := iha m (by omega); have h2 := ihb m (by omega)
    rw [Nat.add_mul, Nat.add_mul, Nat.one_mul]; omega
  | alt a b iha ihb =>
    intro m h; simp only [starDepth] at h; simp only [work]
    have h1 := iha m (by omega); have h2 := ihb m (by omega)
    rw [Nat.add_mul, Nat.add_mul, Nat.one_mul]; omega
  | star a _ =>
    intro m h; simp only [starDepth] at h; simp only [work]
    rw [work_const a m (by omega), Nat.zero_add, Nat.one_mul, Nat.mul_comm]
    exact Nat.le_refl _
  | plus a _ =>
    intro m h; simp only [starDepth] at h; simp only [work]
    rw [work_const a m (by omega), Nat.zero_add, Nat.one_mul]
    generalize 1 + work a 0 = X
    have h1 : X ≤ X * (m + 1) := Nat.le_mul_of_pos_right _ (by omega)
    rw [Nat.add_mul X X, Nat.mul_comm (m + 1) X]
    omega
  | opt a ih =>
    intro m h; simp only [starDepth] at h; simp only [work]
    have h1 := ih m h; rw [Nat.add_mul, Nat.one_mul]; omega
  | not a ih =>
    intro m h; simp only [starDepth] at h; simp only [work]
    have h1 := ih m h; rw [Nat.add_mul, Nat.one_mul]; omega
  | and a ih =>
    intro m h; simp only [starDepth] at h; simp only [work]
    have h1 := ih m h; rw [Nat.add_mul, Nat.one_mul]; omega
  | cap a ih =>
    intro m h; simp only [starDepth] at h; simp only [work]
    have h1 := ih m h; rw [Nat.add_mul, Nat.one_mul]; omega
  | _ => intro m _; simp [work]

theorem sum_map_le_length_mul {α : Type} (f : α → Nat) (B : Nat) :
    ∀ (l : List α), (∀ x ∈ l, f x ≤ B) → (l.map f).sum ≤ l.length * B
  | [], _ => by simp
  | x :: l, h => by
    have h1 := sum_map_le_length_mul f B l (fun y hy => h y (List.mem_cons_of_mem _ hy))
    have h2 := h x List.mem_cons_self
    simp only [List.map_cons, List.sum_cons, List.length_cons, Nat.add_mul, Nat.one_mul]
    omega

theorem tableWork_le_aux (g : Grammar) (n : Nat) :
    ∀ (l : List (String × PE)), (∀ r ∈ l, starDepth (ruleBody g r.1) ≤ 1) →
      (l.map fun r => ((List.range (n + 1)).map fun q => work (ruleBody g r.1) (n - q)).sum).sum ≤
        (l.map fun r => work (ruleBody g r.1) 0).sum * ((n + 1) * (n + 1))
  | [], _ => by simp
  | r :: l, h => by
    have h1 := tableWork_le_aux g n l (fun y hy => h y (List.mem_cons_of_mem _ hy))
    have h2 : ((List.range (n + 1)).map fun q => work (ruleBody g r.1) (n - q)).sum ≤
        (List.range (n + 1)).length * (work (ruleBody g r.1) 0 * (n + 1)) :=
      sum_map_le_length_mul _ _ _ (fun q _ =>
        Nat.le_trans (work_mono _ (Nat.sub_le n q)) (work_le_linear _ n (h r List.mem_cons_self)))
    rw [List.length_range] at h2
    simp only [List.map_cons, List.sum_cons]
    rw [Nat.add_mul (work (ruleBody g r.1) 0) _ ((n + 1) * (n + 1))]
    have h3 : (n + 1) * (work (ruleBody g r.1) 0 * (n + 1)) = work (ruleBody g r.1) 0 * ((n + 1) * (n + 1)) := by
      rw [Nat.mul_left_comm]
    omega

/-- **stepBound_le_quadratic.** No nested loops in `e` and in the rule bodies ⇒ the step bound is at most
    (work e 0 + grammarConst g)·(n+1)². -/
theorem stepBound_le_quadratic (g : Grammar) (e : PE) (n : Nat) (he : starDepth e ≤ 1)
    (hg : ∀ r ∈ g, starDepth (ruleBody g r.1) ≤ 1) :
    stepBound g e n ≤ (work e 0 + grammarConst g) * ((n + 1) * (n + 1)) := by
  have h1 := tableWork_le_aux g n g hg
  have h2 := work_le_linear e n he
  have h3 : work e 0 * (n + 1) ≤ work e 0 * ((n + 1) * (n + 1)) :=
    Nat.mul_le_mul_left _ (Nat.le_mul_of_pos_right _ (by omega))
  unfold stepBound tableWork grammarConst
  rw [Nat.add_mul]
  omega

/-! ### the plain interpreter with a step counter -/

variable {g : Grammar} {inp : Array Char}

/-- the counting interpreter returns what `run` returns -/
theorem runC_fst : ∀ (f : Nat) (e : PE) (pos n : Nat), (runC g f e inp pos n).1 = run g f e inp pos := by
  intro f
  induction f with
  | zero => intro e pos n; cases e <;> rfl
  | succ f ih =>
    intro e pos n
    cases e with
    | lit s => rfl
    | cls neg rs => rfl
    | any => rfl
    | act i => rfl
    | rule x => exact ih _ pos (n + 1)
    | seq a b =>
      show (match runC g f a inp pos (n + 1) with
        | (.ok p t, n1) => match runC g f b inp p n1 with
          | (.ok p' t', n2) => (Result.ok p' (t ++ t'), n2)
          | r => r
        | r => r).1 = _
      rw [run_seq, ← ih a pos (n + 1)]
      cases h : runC g f a inp pos (n + 1) with
      | mk r n1 =>
      cases r with
      | ok p t =>
        simp only
        rw [← ih b p n1]
        cases h2 : runC g f b inp p n1 with
        | mk r2 n2 => cases r2 <;> rfl
      | _ => rfl
    | alt a b =>
      show (match runC g f a inp pos (n + 1) with
        | (.fail, n1) => runC g f b inp pos n1
        | r => r).1 = _
      rw [run_alt, ← ih a pos (n + 1)]
      cases h : runC g f a inp pos (n + 1) with
      | mk r n1 =>
      cases r with
      | fail => exact ih b pos n1
      | _ => rfl
    | star a =>
      show (match runC g f a inp pos (n + 1) with
        | (.fail, n1) => (Result.ok pos [], n1)
        | (.outOfFuel, n1) => (.outOfFuel, n1)
        | (.ok p t, n1) => match runC g f (.star a) inp p n1 with
          | (.ok p' t', n2) => (Result.ok p' (t ++ t'), n2)
          | r => r).1 = _
      rw [run_star, ← ih a pos (n + 1)]
      cases h : runC g f a inp pos (n + 1) with
      | mk r n1 =>
      cases r with
      | ok p t =>
        simp only
        rw [← ih (.star a) p n1]
        cases h2 : runC g f (.star a) inp p n1 with
        | mk r2 n2 => cases r2 <;> rfl
      | _ => rfl
    | plus a =>
      show (match runC g f a inp pos (n + 1) with
        | (.ok p t, n1) => match runC g f (.star a) inp p n1 with
          | (.ok p' t', n2) => (Result.ok p' (t ++ t'), n2)
          | r => r
        | r => r).1 = _
      rw [run_plus, ← ih a pos (n + 1)]
      cases h : runC g f a inp pos (n + 1) with
      | mk r n1 =>
      cases r with
      | ok p t =>
        simp only
        rw [← ih (.star a) p n1]
        cases h2 : runC g f (.star a) inp p n1 with
        | mk r2 n2 => cases r2 <;> rfl
      | _ => rfl
    | opt a =>
      show (match runC g f a inp pos (n + 1) with
        | (.fail, n1) => (Result.ok pos [], n1)
        | r => r).1 = _
      rw [run_opt, ← ih a pos (n + 1)]
      cases h : runC g f a inp pos (n + 1) with
      | mk r n1 => cases r <;> rfl
    | not a =>
      show (match runC g f a inp pos (n + 1) with
        | (.fail, n1) => (Result.ok pos [], n1)
        | (.ok _ _, n1) => (.fail, n1)
        | (.outOfFuel, n1) => (.outOfFuel, n1)).1 = _
      rw [run_not, ← ih a pos (n + 1)]
      cases h : runC g f a inp pos (n + 1) with
      | mk r n1 => cases r <;> rfl
    | and a =>
      show (match runC g f a inp pos (n + 1) with
        | (.ok _ _, n1) => (Result.ok pos [], n1)
        | r => r).1 = _
      rw [run_and, ← ih a pos (n + 1)]
      cases h : runC g f a inp pos (n + 1) with
      | mk r n1 => cases r <;> rfl
    | cap a =>
      show (match runC g f a inp pos (n + 1) with
        | (.ok p t, n1) => (Result.ok p (t ++ [Tok.text pos p]), n1)
        | r => r).1 = _
      rw [run_cap, ← ih a pos (n + 1)]
      cases h : runC g f a inp pos (n + 1) with
      | mk r n1 => cases r <;> rfl

end JPV.Peg
