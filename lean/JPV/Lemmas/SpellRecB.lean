/-
SpellRecB — recogniser lemmas for SPELLED constructs, part B: names in brackets with both quote kinds,
`bracketChildIdentifier` with blanks around the commas, its rejection on the inside of a union
(`[ * , 1 ]`), `bracketNode` with blanks behind `[` and in front of `]`, and the bracket steps
(`['k']`, `["k"]`, `[*]`, `['a',"b",*]`, `[1,2:3,*]`, all with blanks).

Generalises Lemmas/ParsePrintRecB.lean (worker L14). Helper lemmas in `JPV.SP.R1`; the two exported
theorems `acc_bracketNode_b`, `acc_bracket_step` in `JPV.SP` (statements of SpellStub/B.lean).
-/
import JPV.Lemmas.SpellRecA
namespace JPV.SP.R1
open JPV.Peg JPV.Lex
open JPV.PP hiding blanks blanks_succ blanks_length
open JPV.Spell (blanks Quote Sign SInt STail SSub SName Sep SStep optTxt tailP subP keyBody nameP sepP sepsP brP)

variable {inp : Array Char}

/-! ### quoted names, both quote kinds -/

theorem acc_doubleS (k : List Char) {p : Nat} {r : List Char}
    (h : Sfx inp p ('"' :: (escDouble k ++ '"' :: r))) :
    Acc (19 + 32 * (escDouble k).length) (.rule "doubleQuotedNodeIdentifier") inp p
      (p + 1 + (escDouble k).length + 1)
      [.text (p + 1) (p + 1 + (escDouble k).length), .action 14] := by
  obtain ⟨pre, hinp, hlen⟩ := h.exists_pre
  subst hinp; subst hlen
  have hge := escQuoted_length_ge '"' k
  refine (Acc.rule "doubleQuotedNodeIdentifier" double_rule_body (Fa := k.length + 17) ?_).mono ?_
  · intro f hf
    exact gen_double_rule_accepts k pre r f hf
  · unfold escDouble; omega

theorem nameP_key_length (q : Quote) (k : String) : (nameP (.key q k)).length = (keyBody q k).length + 2 := by
  simp [Spell.nameP]

/-- `bracketNodeIdentifier` on a spelled name (what follows plays no role) -/
theorem acc_bniS (n : SName) (k : Nat) {p : Nat} {r : List Char} (h : Sfx inp p (nameP n ++ r)) :
    Acc (22 + 32 * (nameP n).length) (.rule "bracketNodeIdentifier") inp p (p + (nameP n).length)
      (tkNameS k p n) := by
  refine (Acc.rule "bracketNodeIdentifier" bni_body (Fa := 21 + 32 * (nameP n).length) ?_).mono (by omega)
  cases n with
  | wild =>
    exact ((Acc.alt_l _ (acc_wildcardId (r := r) h)).mono (by simp [Spell.nameP])).cast rfl rfl
  | key q s =>
    rw [nameP_key_length]
    cases q with
    | sq =>
      simp only [Spell.nameP, Spell.Quote.char, Spell.keyBody, List.cons_append, List.append_assoc,
        List.nil_append] at h ⊢
      have r1 := rej_wildcardId h rfl
      have a2 := acc_single s.toList h
      refine ((Acc.alt_r r1 (Acc.alt_l _ a2)).mono ?_).cast ?_ ?_
      · omega
      · omega
      · simp [tkNameS, quoteAct, Spell.keyBody]
    | dq =>
      simp only [Spell.nameP, Spell.Quote.char, Spell.keyBody, List.cons_append, List.append_assoc,
        List.nil_append] at h ⊢
      have r1 := rej_wildcardId h rfl
      have r2 := rej_single h rfl
      have a3 := acc_doubleS s.toList h
      refine ((Acc.alt_r r1 (Acc.alt_r r2 a3)).mono ?_).cast ?_ ?_
      · omega
      · omega
      · simp [tkNameS, quoteAct, Spell.keyBody]

theorem tkNameS_irrel (k k' p : Nat) (n : SName) : tkNameS k p n = tkNameS k' p n := by
  cases n <;> rfl

theorem startsWith_nameP (P : Char → Bool) (b : Bool) (h1 : P '*' = b) (h2 : P '\'' = b) (h3 : P '"' = b)
    (n : SName) (r : List Char) : startsWith P (nameP n ++ r) = b := by
  cases n with
  | wild => exact h1
  | key q k =>
    cases q with
    | sq => exact h2
    | dq => exact h3

theorem noSp_nameP (n : SName) (r : List Char) : NoSp (nameP n ++ r) := by
  rw [noSp_iff]; exact startsWith_nameP _ false (by decide) (by decide) (by decide) n r

theorem nameP_length_pos (n : SName) : 1 ≤ (nameP n).length := by
  cases n <;> simp [Spell.nameP]

/-! ### `bracketChildIdentifier` -/

theorem tkSepsS_names_irrel (rb rb' : Nat) : ∀ (ns : List (Sep SName)) (q : Nat),
    tkSepsS nameP tkNameS 11 rb ns q = tkSepsS nameP tkNameS 11 rb' ns q := by
  intro ns
  induction ns with
  | nil => intro q; rfl
  | cons x xs ih =>
    intro q
    simp only [tkSepsS, tkSepS]
    rw [ih, tkNameS_irrel (nextB rb xs) (nextB rb' xs)]

/-- `n, ns…` followed by `rb` blanks and `]`: the rule ends in front of the blanks -/
theorem acc_bciS (n : SName) (ns : List (Sep SName)) (rb : Nat) {p : Nat} {post : List Char}
    (h : Sfx inp p ((nameP n ++ sepsP nameP ns) ++ (blanks rb ++ post))) (hpost : IsClose post) :
    Acc (50 + 32 * (nameP n ++ sepsP nameP ns).length + rb) (.rule "bracketChildIdentifier") inp p
      (p + (nameP n ++ sepsP nameP ns).length) (tkNamesS p n ns) := by
  rw [List.append_assoc] at h
  have a1 := acc_bniS n 0 h
  have a2 := acc_seps_loop (inp := inp) (.rule "bracketNodeIdentifier") 11 nameP tkNameS (fun _ _ => 0)
    (fun _ => True) 22 (fun _ _ => .inl rfl) (fun x r _ => noSp_nameP x r)
    (fun x k r pos _ _ hsfx => ((acc_bniS x k hsfx).mono (by omega)).cast rfl rfl)
    rb post hpost ns (p + (nameP n).length) 0 (fun _ _ => trivial) (.inl rfl) h.append
  rw [capL_zero rb ns 0 (fun _ => rfl)] at a2
  have a3 := Acc.not (rej_sepS rb h.append.append hpost.noSepStart)
  refine ((Acc.rule "bracketChildIdentifier" bci_body (Acc.seq a1 (Acc.seq a2 a3))).mono ?_).cast ?_ ?_
  · simp only [List.length_append]; omega
  · simp only [List.length_append]; omega
  · simp only [tkNamesS, tkSepsS_names_irrel rb 0]; simp

/-! ### `bracketChildIdentifier` fails on the inside of a union -/

theorem isWild_eq {s : SSub} (h : s.isWild = true) : s = .wild := by
  cases s <;> simp_all [Spell.SSub.isWild]

theorem subP_notName (s : SSub) (hwf : s.wf = true) (hs : s.isWild = false) (r : List Char) :
    startsWith isNameStart (subP s ++ r) = false := by
  have hint : ∀ n, SInt.wf n = true → ∀ r', startsWith isNameStart (SInt.txt n ++ r') = false := fun n hn r' =>
    startsWith_sintTxt _ false (by intro c hc; simp only [isNameStart]
                                   rw [Bool.eq_false_iff]; intro h; simp at h
                                   rcases h with (rfl | rfl) | rfl <;> revert hc <;> decide)
      (by decide) (by decide) n hn r'
  cases s with
  | idx n => exact hint n hwf r
  | wild => cases hs
  | slice s b1 a1 e t =>
    obtain ⟨hs', _, _, hb1, _⟩ := slice_wf hwf
    cases s with
    | none =>
      have := hb1 rfl
      subst this
      rfl
    | some n =>
      simp only [Spell.subP, Spell.optTxt, List.append_assoc]
      exact hint n hs' _

/-- on `, s1 , s2 …` where some `s` is not `*`, the loop `(sep name {11})*` stops in front of a comma
    (and its blanks), so that `!sep` fails -/
theorem names_loop_on_subsS : ∀ (ss : List (Sep SSub)), (∀ x ∈ ss, x.2.2.wf = true) →
    ss.any (fun x => !x.2.2.isWild) = true →
    ∀ {p : Nat} {r : List Char}, Sfx inp p (sepsP subP ss ++ r) →
    ∃ q T, Acc (20 + 32 * (sepsP subP ss).length)
        (.star (.seq (.rule "sep") (.seq (.rule "bracketNodeIdentifier") (.act 11)))) inp p q T ∧
      Rej (8 + 32 * (sepsP subP ss).length) (.not (.rule "sep")) inp q := by
  intro ss
  induction ss with
  | nil => intro _ h; simp at h
  | cons x ss ih =>
    intro hwf hany p r h
    obtain ⟨b, a, s⟩ := x
    have hs : s.wf = true := hwf (b, a, s) (by simp)
    have hss : ∀ z ∈ ss, z.2.2.wf = true := fun z hz => hwf z (by simp [hz])
    have h' : Sfx inp p (blanks b ++ ',' :: (blanks a ++ (subP s ++ (sepsP subP ss ++ r)))) := by
      simpa [sepsP_cons, Spell.sepP] using h
    have a1 := acc_sepS b a h' (noSp_subP s hs _)
    have h2 : Sfx inp (p + b + 1 + a) (subP s ++ (sepsP subP ss ++ r)) := sfx_skip (sfx_skip h').tail
    cases hw : s.isWild with
    | false =>
      refine ⟨p, [], ?_, ?_⟩
      · have r2 := rej_bni h2 (subP_notName s hs hw _)
        refine (Acc.star_nil (Rej.seq_r a1 (Rej.seq_l _ r2))).mono ?_
        simp only [sepsP_cons, List.length_append, sepP_length]; omega
      · refine (Rej.not a1).mono ?_
        simp only [sepsP_cons, List.length_append, sepP_length]; omega
    | true =>
      have := isWild_eq hw
      subst this
      have hany' : ss.any (fun x => !x.2.2.isWild) = true := by simpa [Spell.SSub.isWild] using hany
      simp only [Spell.subP, List.cons_append, List.nil_append] at h2
      have a2 := acc_bniS .wild 0 (r := sepsP subP ss ++ r) h2
      obtain ⟨q, T, a3, r4⟩ := ih hss hany' h2.tail
      have a12 := Acc.seq a1 (Acc.seq a2 (acc_act 11 _))
      refine ⟨q, _, (Acc.star_cons a12 a3).mono ?_, r4.mono ?_⟩
      · simp only [sepsP_cons, List.length_append, sepP_length, Spell.subP, Spell.nameP, List.length_cons,
          List.length_nil]
        omega
      · simp only [sepsP_cons, List.length_append]; omega

/-- `bracketChildIdentifier` fails on the inside of a union -/
theorem rej_bci_unionS (s : SSub) (ss : List (Sep SSub)) (hs : s.wf = true) (hss : ∀ x ∈ ss, x.2.2.wf = true)
    (hany : (!s.isWild || ss.any (fun x => !x.2.2.isWild)) = true) {p : Nat} {r : List Char}
    (h : Sfx inp p ((subP s ++ sepsP subP ss) ++ r)) :
    Rej (30 + 32 * (subP s ++ sepsP subP ss).length) (.rule "bracketChildIdentifier") inp p := by
  rw [List.append_assoc] at h
  cases hw : s.isWild with
  | false => exact (rej_bci_start h (subP_notName s hs hw _)).mono (by omega)
  | true =>
    have := isWild_eq hw
    subst this
    have hany' : ss.any (fun x => !x.2.2.isWild) = true := by simpa [Spell.SSub.isWild] using hany
    simp only [Spell.subP, List.cons_append, List.nil_append] at h
    have a1 := acc_bniS .wild 0 (r := sepsP subP ss ++ r) h
    obtain ⟨q, T, a2, r3⟩ := names_loop_on_subsS ss hss hany' h.tail
    refine (Rej.rule "bracketChildIdentifier" bci_body (Rej.seq_r a1 (Rej.seq_r a2 r3))).mono ?_
    simp only [Spell.subP, Spell.nameP, List.length_cons, List.length_append, List.length_nil]
    omega

theorem brP_length (lb : Nat) (inner : List Char) (rb : Nat) :
    (brP lb inner rb).length = 1 + lb + inner.length + rb + 1 := by
  simp only [Spell.brP, List.length_cons, List.length_append, List.length_nil, blanks_len]; omega

end JPV.SP.R1

namespace JPV.SP
open JPV.Peg JPV.Lex
open JPV.PP hiding blanks blanks_succ blanks_length
open JPV.Spell (blanks Quote Sign SInt STail SSub SName Sep SStep optTxt tailP subP keyBody nameP sepP sepsP brP)
open JPV.SP.R1

variable {inp : Array Char}

/-! ### `bracketNode` -/

/-- `[` lb inner rb `]` where the inside is accepted by `bracketChildIdentifier / qualifier`, which may
    already have taken `c` of the `rb` blanks behind it -/
theorem acc_bracketNode_b {F : Nat} (lb : Nat) (inner : List Char) (rb c : Nat) (T : List Tok) {p : Nat} {r : List Char}
    (h : Sfx inp p (brP lb inner rb ++ r)) (hsp : NoSp (inner ++ (blanks rb ++ ']' :: r))) (hc : c ≤ rb)
    (hin : Acc F (.alt (.rule "bracketChildIdentifier") (.rule "qualifier")) inp (p + 1 + lb)
      (p + 1 + lb + inner.length + c) T) :
    Acc (F + 12 + lb + rb) (.rule "bracketNode") inp p (p + (brP lb inner rb).length)
      (T ++ [.text p (p + (brP lb inner rb).length), .action 7]) := by
  have h' : Sfx inp p ('[' :: (blanks lb ++ (inner ++ (blanks rb ++ ']' :: r)))) := by
    simpa [Spell.brP] using h
  have a1 : Acc (5 + lb) (.rule "squareBracketStart") inp p (p + 1 + lb) [] :=
    ((Acc.rule "squareBracketStart" sbStart_body (Acc.seq (acc_lit1 "[" '[' rfl h')
      (acc_spaceS lb h'.tail hsp))).mono (by omega)).cast rfl rfl
  have h3 : Sfx inp (p + 1 + lb + inner.length) (blanks rb ++ ']' :: r) := (sfx_skip h'.tail).append
  have h3c := sfx_carry hc h3
  have a3 : Acc (5 + rb) (.rule "squareBracketEnd") inp (p + 1 + lb + inner.length + c)
      (p + 1 + lb + inner.length + c + (rb - c) + 1) [] :=
    ((Acc.rule "squareBracketEnd" sbEnd_body (Acc.seq (acc_spaceS (rb - c) h3c (noSp_cons (by decide) r))
      (acc_lit1 "]" ']' rfl (sfx_skip h3c)))).mono (by omega)).cast rfl rfl
  have hlen := brP_length lb inner rb
  have hend : p + 1 + lb + inner.length + c + (rb - c) + 1 = p + (brP lb inner rb).length := by omega
  refine ((Acc.rule "bracketNode" bracketNode_body
    (Acc.seq (Acc.cap (Acc.seq a1 (Acc.seq hin a3))) (acc_act 7 _))).mono ?_).cast hend ?_
  · omega
  · rw [hend]; simp

namespace R1

/-- `[ n , n' … ]` -/
theorem acc_bracket_names (lb : Nat) (n : SName) (ns : List (Sep SName)) (rb : Nat) {p : Nat} {r : List Char}
    (h : Sfx inp p (brP lb (nameP n ++ sepsP nameP ns) rb ++ r)) :
    Acc (90 + 32 * (brP lb (nameP n ++ sepsP nameP ns) rb).length) (.rule "bracketNode") inp p
      (p + (brP lb (nameP n ++ sepsP nameP ns) rb).length)
      (tkNamesS (p + 1 + lb) n ns ++
        [.text p (p + (brP lb (nameP n ++ sepsP nameP ns) rb).length), .action 7]) := by
  have h' : Sfx inp p ('[' :: (blanks lb ++ ((nameP n ++ sepsP nameP ns) ++ (blanks rb ++ ']' :: r)))) := by
    simpa [Spell.brP] using h
  have hin := acc_bciS n ns rb (post := ']' :: r) (sfx_skip h'.tail) rfl
  have hsp : NoSp ((nameP n ++ sepsP nameP ns) ++ (blanks rb ++ ']' :: r)) := by
    rw [List.append_assoc]; exact noSp_nameP n _
  have := acc_bracketNode_b lb _ rb 0 _ h hsp (Nat.zero_le _) (Acc.alt_l _ hin)
  refine this.mono ?_
  rw [brP_length]; omega

/-- `[ s , s' … ]` -/
theorem acc_bracket_unionS (lb : Nat) (s : SSub) (ss : List (Sep SSub)) (rb : Nat) (hs : s.wf = true)
    (hss : ∀ x ∈ ss, x.2.2.wf = true) (hany : (!s.isWild || ss.any (fun x => !x.2.2.isWild)) = true)
    {p : Nat} {r : List Char} (h : Sfx inp p (brP lb (subP s ++ sepsP subP ss) rb ++ r)) :
    Acc (90 + 32 * (brP lb (subP s ++ sepsP subP ss) rb).length) (.rule "bracketNode") inp p
      (p + (brP lb (subP s ++ sepsP subP ss) rb).length)
      (tkUnionS rb (p + 1 + lb) s ss ++
        [.text p (p + (brP lb (subP s ++ sepsP subP ss) rb).length), .action 7]) := by
  have h' : Sfx inp p ('[' :: (blanks lb ++ ((subP s ++ sepsP subP ss) ++ (blanks rb ++ ']' :: r)))) := by
    simpa [Spell.brP] using h
  have hi := sfx_skip h'.tail
  have r1 := rej_bci_unionS s ss hs hss hany hi
  have a2 := acc_unionS rb s ss hs hss (post := ']' :: r) hi rfl
  have hsp : NoSp ((subP s ++ sepsP subP ss) ++ (blanks rb ++ ']' :: r)) := by
    rw [List.append_assoc]; exact noSp_subP s hs _
  have hin := Acc.alt_r r1 (Acc.rule "qualifier" qualifier_body (Acc.alt_l _ a2))
  have := acc_bracketNode_b lb _ rb (capU rb s ss) _ h hsp (capU_le rb s ss) hin
  refine this.mono ?_
  rw [brP_length]; omega

end R1

/-- `['k']`, `["k"]`, `[*]`, `['a',"b",*]`, `[1,2:3,*]` with blanks -/
theorem acc_bracket_step (s : SStep) (hb : isBracketStep s = true) (ad : Bool) (hwf : Spell.stepWf ad s = true)
    {p : Nat} {r : List Char} (h : Sfx inp p (Spell.step ad s ++ r)) :
    Acc (90 + 32 * (Spell.step ad s).length) (.rule "bracketNode") inp p (p + (Spell.step ad s).length)
      (tkStepS ad p s) := by
  cases s with
  | child f k =>
    cases f with
    | dot => cases hb
    | br lb q rb =>
      have hstep : Spell.step ad (.child (.br lb q rb) k) = brP lb (nameP (.key q k) ++ sepsP nameP []) rb := by
        simp [Spell.step, Spell.childP, sepsP_nil]
      rw [hstep] at h
      have := acc_bracket_names lb (.key q k) [] rb h
      rw [← hstep] at this
      exact this.cast rfl (by simp [tkStepS, tkNamesS, tkSepsS])
  | wild f =>
    cases f with
    | dot => cases hb
    | br lb rb =>
      have hstep : Spell.step ad (.wild (.br lb rb)) = brP lb (nameP .wild ++ sepsP nameP []) rb := by
        simp [Spell.step, Spell.wildP, sepsP_nil, Spell.nameP]
      rw [hstep] at h
      have := acc_bracket_names lb .wild [] rb h
      rw [← hstep] at this
      exact this.cast rfl (by simp [tkStepS, tkNamesS, tkSepsS, tkNameS])
  | multi lb n ns rb =>
    have hstep : Spell.step ad (.multi lb n ns rb) = brP lb (nameP n ++ sepsP nameP ns) rb := by
      simp [Spell.step]
    rw [hstep] at h
    have := acc_bracket_names lb n ns rb h
    rw [← hstep] at this
    exact this.cast rfl (by simp [tkStepS])
  | union lb s ss rb =>
    have hstep : Spell.step ad (.union lb s ss rb) = brP lb (subP s ++ sepsP subP ss) rb := by
      simp [Spell.step]
    simp only [Spell.stepWf, Bool.and_eq_true, List.all_eq_true] at hwf
    rw [hstep] at h
    have := acc_bracket_unionS lb s ss rb hwf.1.1 hwf.1.2 hwf.2 h
    rw [← hstep] at this
    exact this.cast rfl (by simp [tkStepS])
  | filter b0 b1 q b2 b3 => cases hb
  | desc s => cases hb

end JPV.SP
