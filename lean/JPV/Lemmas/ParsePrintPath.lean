/-
ParsePrintPath — a whole path without filters: what `Build.buildPath` makes of `Print.texts p`
versus what the action machine makes of the tokens of `Print.print p`.
-/
import JPV.Lemmas.ParsePrintActA
import JPV.Lemmas.ParsePrintAssemble
import JPV.Lemmas.BuildDen
namespace JPV.PP
open JPV.Peg JPV.Print JPV.Lex JPV.Build

/-! ### the written steps are "nice" -/

theorem niceMk_child (k : String) : NiceMk (fun i => .child i k) :=
  ⟨fun _ => rfl, fun _ _ => rfl, fun _ _ => rfl, fun _ => rfl⟩
theorem niceMk_wild : NiceMk (fun i => .wild i) :=
  ⟨fun _ => rfl, fun _ _ => rfl, fun _ _ => rfl, fun _ => rfl⟩
theorem niceMk_union (subs : List SubI) : NiceMk (fun i => .union i subs) :=
  ⟨fun _ => rfl, fun _ _ => rfl, fun _ _ => rfl, fun _ => rfl⟩
theorem niceMk_desc (mr lr : Bool) : NiceMk (fun i => .desc i mr lr) :=
  ⟨fun _ => rfl, fun _ _ => rfl, fun _ _ => rfl, fun _ => rfl⟩
theorem niceMk_filter (q : Q) : NiceMk (fun i => .filter i q) :=
  ⟨fun _ => rfl, fun _ _ => rfl, fun _ _ => rfl, fun _ => rfl⟩

theorem map_mid_conn (c : String) (i : Info) (ns : List Name) :
    (ns.map (mid i)).map (midMapInfo (fun j => { j with conn := c })) = ns.map (mid { i with conn := c }) := by
  rw [List.map_map]
  apply List.map_congr_left
  intro n _
  cases n <;> rfl

theorem map_mid_acc (a : Bool) (i : Info) (ns : List Name) :
    (ns.map (mid i)).map (midMapInfo (fun j => { j with acc := a })) = ns.map (mid { i with acc := a }) := by
  rw [List.map_map]
  apply List.map_congr_left
  intro n _
  cases n <;> rfl

theorem niceMk_multi (ns : List Name) :
    NiceMk (fun i => .multi i (ns.map (mid i)) (if ns.all isWildName then some i else none)) := by
  refine ⟨fun _ => rfl, ?_, ?_, fun _ => rfl⟩
  · intro i c
    rw [connNode, map_mid_conn]
    split <;> rfl
  · intro i a
    simp only [nSetAcc, nMapInfoDeep]
    rw [map_mid_acc]
    split <;> rfl

/-- the value-group flag of a union -/
def unionVg (ss : List Sub) : Bool :=
  match ss with
  | [s] => subVg s
  | _ => true

theorem stepPre_union' (env : Env) (cfg : Cfg) (t : String) (ss : List Sub) :
    stepPre env cfg (.union t ss) = .ok [.node t (unionVg ss) (fun i => .union i (ss.map subI))] := by
  rw [BD.stepPre_union]
  cases ss with
  | nil => rfl
  | cons x xs => cases xs <;> rfl

theorem rawStep_union (a ad : Bool) (t : String) (ss : List Sub) :
    rawStep a ad (.union t ss) =
      [.union (rawInfo a (String.ofList (Print.step ad (.union t ss))) (unionVg ss)) (ss.map subI)] := by
  simp only [rawStep, rawStepQ]
  cases ss with
  | nil => rfl
  | cons x xs => cases xs <;> rfl

/-! ### `Build.stepPre` on the recorded texts, against the raw nodes -/

theorem rawMId_eq (a : Bool) (t : String) (n : Name) : mid (rawInfo a t true) n = rawMId a t n := by
  cases n <;> rfl

/-- a step that is neither `..` nor a filter -/
theorem stepPre_plain (env : Env) (cfg : Cfg) (a ad : Bool) (s : Step) (hnd : ∀ s', s ≠ .desc s')
    (hnf : noFilterStep s = true) :
    ∃ t vg mk, stepPre env cfg (stepT ad s) = .ok [.node t vg mk] ∧
      [rawOf a (.node t vg mk)] = rawStep a ad s ∧ NiceMk mk := by
  cases s with
  | child t k =>
    exact ⟨String.ofList (childRec ad k), false, fun i => .child i k, by rw [stepT, stepPre], rfl, niceMk_child k⟩
  | wild t =>
    exact ⟨String.ofList (wildStr ad), true, fun i => .wild i, by rw [stepT, stepPre], rfl, niceMk_wild⟩
  | multi t ns =>
    refine ⟨String.ofList (Print.step ad (.multi t ns)), true,
      fun i => .multi i (ns.map (mid i)) (if ns.all isWildName then some i else none),
      by rw [stepT, stepPre], ?_, niceMk_multi ns⟩
    simp only [rawOf, nodeWith, rawStep, rawStepQ, Pre.text, preVg]
    have : ns.map (mid (rawInfo a (String.ofList (Print.step ad (.multi t ns))) true)) =
        ns.map (rawMId a (String.ofList (Print.step ad (.multi t ns)))) :=
      List.map_congr_left (fun n _ => rawMId_eq a _ n)
    rw [← this]
    rfl
  | union t ss =>
    exact ⟨String.ofList (Print.step ad (.union t ss)), unionVg ss,
      fun i => .union i (ss.map subI), by rw [stepT]; exact stepPre_union' env cfg _ ss,
      (rawStep_union a ad t ss).symm, niceMk_union _⟩
  | filter t q => cases hnf
  | desc s' => exact absurd rfl (hnd s')

theorem stepT_not_desc (ad : Bool) (s : Step) (hnd : ∀ s', s ≠ .desc s') : ∀ s', stepT ad s ≠ .desc s' := by
  intro s' h
  cases s with
  | desc x => exact hnd x rfl
  | child _ _ => rw [stepT] at h; cases h
  | wild _ => rw [stepT] at h; cases h
  | multi _ _ => rw [stepT] at h; cases h
  | union _ _ => rw [stepT] at h; cases h
  | filter _ _ => rw [stepT] at h; cases h

theorem desc_flags (ad : Bool) (s : Step) :
    (BD.descMr (stepT ad s), BD.descLr (stepT ad s)) = descFlags s := by
  cases s <;> (rw [stepT]; rfl)

/-- a step of a path without filters -/
theorem stepPre_nf (env : Env) (cfg : Cfg) (a : Bool) (s : Step) (hnf : noFilterStep s = true)
    (hwf : stepWf false s = true) :
    ∃ pres, stepPre env cfg (stepT false s) = .ok pres ∧ pres.map (rawOf a) = rawStep a false s ∧
      ∀ p ∈ pres, NicePre p ∧ isFnPre p = false := by
  by_cases hd : ∃ s', s = .desc s'
  · obtain ⟨s', rfl⟩ := hd
    have hwf1 : stepWf true s' = true := by simpa [stepWf] using hwf
    have hnd : ∀ s'', s' ≠ .desc s'' := by
      intro s'' he; subst he; simp [stepWf] at hwf1
    have hnf' : noFilterStep s' = true := by simpa [noFilterStep] using hnf
    obtain ⟨t, vg, mk, h1, h2, h3⟩ := stepPre_plain env cfg a true s' hnd hnf'
    refine ⟨.node ".." true (fun i => .desc i (descFlags s').1 (descFlags s').2) :: [.node t vg mk], ?_, ?_, ?_⟩
    · rw [stepT, BD.stepPre_desc, h1]
      have := desc_flags true s'
      simp only [bind, Except.bind]
      rw [← this]
    · simp only [List.map_cons, List.map_nil, rawStep, rawStepQ]
      rw [show rawStepQ (fun _ => default) a true s' = rawStep a true s' from rfl, ← h2]
      rfl
    · intro p hp
      simp only [List.mem_cons, List.not_mem_nil, or_false] at hp
      rcases hp with rfl | rfl
      · exact ⟨niceMk_desc _ _, rfl⟩
      · exact ⟨h3, rfl⟩
  · have hnd : ∀ s', s ≠ .desc s' := fun s' he => hd ⟨s', he⟩
    obtain ⟨t, vg, mk, h1, h2, h3⟩ := stepPre_plain env cfg a false s hnd hnf
    refine ⟨[.node t vg mk], h1, by simpa using h2, ?_⟩
    intro p hp
    simp only [List.mem_cons, List.not_mem_nil, or_false] at hp
    subst hp
    exact ⟨h3, rfl⟩

theorem stepsPre_nf (env : Env) (cfg : Cfg) (a : Bool) : ∀ (ss : List Step),
    (∀ s ∈ ss, noFilterStep s = true ∧ stepWf false s = true) →
    ∃ sp, stepsPre env cfg (stepsT ss) = .ok sp ∧
      sp.map (rawOf a) = (ss.map (rawStep a false)).flatten ∧
      ∀ p ∈ sp, NicePre p ∧ isFnPre p = false := by
  intro ss
  induction ss with
  | nil => intro _; exact ⟨[], by rw [stepsT, stepsPre], rfl, by simp⟩
  | cons s ss ih =>
    intro h
    obtain ⟨hnf, hwf⟩ := h s (by simp)
    obtain ⟨pres, h1, h2, h3⟩ := stepPre_nf env cfg a s hnf hwf
    obtain ⟨sp, h4, h5, h6⟩ := ih (fun y hy => h y (by simp [hy]))
    refine ⟨pres ++ sp, ?_, ?_, ?_⟩
    · rw [stepsT, stepsPre, h1, h4]; rfl
    · simp [h2, h5]
    · intro p hp
      rcases List.mem_append.mp hp with hp | hp
      · exact h3 p hp
      · exact h6 p hp

/-! ### functions: the kind recorded in the abstract path is the kind the library decides on -/

/-- `pushFunction` looks a name up as a filter function first, then as an aggregate function -/
def fnKindOK (env : Env) : Fn → Prop
  | .ffn _ n => env.ffn n = none → env.afn n = none
  | .afn _ n => env.ffn n = none

def fnFound (env : Env) : Fn → Bool
  | .ffn _ n => (env.ffn n).isSome
  | .afn _ n => (env.afn n).isSome

/-- the written element of a printed function -/
def fnPreT (f : Fn) : Pre := fnPre (fnT f)

theorem fnPreT_text (f : Fn) : (fnPreT f).text = String.ofList (fnText f) := by
  cases f <;> rfl

theorem fnPreT_isFn (f : Fn) : isFnPre (fnPreT f) = true := by cases f <;> rfl

theorem fnPreT_found (env : Env) (f : Fn) (h : fnFound env f = true) : foundPre env (fnPreT f) := by
  cases f with
  | ffn t n =>
    simp only [fnFound, Option.isSome_iff_exists] at h
    exact h
  | afn t n =>
    simp only [fnFound, Option.isSome_iff_exists] at h
    exact h

theorem pushFunction_found (c : Ctx) (f : Fn) (hk : fnKindOK c.env f) (hf : fnFound c.env f = true) (st : St) :
    pushFunction c (String.ofList (fnText f)) (fnName f) st = .ok (push (.chain [rawOf c.acc (fnPreT f)]) st) := by
  cases f with
  | ffn t n =>
    simp only [fnFound, Option.isSome_iff_exists] at hf
    obtain ⟨g, hg⟩ := hf
    simp only [pushFunction, fnName, hg]
    rfl
  | afn t n =>
    simp only [fnFound, Option.isSome_iff_exists] at hf
    obtain ⟨g, hg⟩ := hf
    have hk' : c.env.ffn n = none := hk
    simp only [pushFunction, fnName, hg, hk']
    rfl

theorem pushFunction_missing (c : Ctx) (f : Fn) (hk : fnKindOK c.env f) (hf : fnFound c.env f = false) (st : St) :
    pushFunction c (String.ofList (fnText f)) (fnName f) st = .error (.functionNotFound (String.ofList (fnText f))) := by
  cases f with
  | ffn t n =>
    have h1 : c.env.ffn n = none := by simpa [fnFound] using hf
    have h2 : c.env.afn n = none := hk h1
    simp only [pushFunction, fnName, h1, h2]
  | afn t n =>
    have h1 : c.env.afn n = none := by simpa [fnFound] using hf
    have h2 : c.env.ffn n = none := hk
    simp only [pushFunction, fnName, h1, h2]

/-- `function*` when every function is registered -/
theorem exec_fns (c : Ctx) (sv : List (List Item)) (rt : Option (List N)) :
    ∀ (fns : List Fn) (p : Nat) (r : List Char) (stk : List Item) (tb te : Nat),
      (∀ f ∈ fns, fnKindOK c.env f ∧ fnFound c.env f = true) →
      Sfx c.input p (flat fnText fns ++ r) →
      ∃ tb' te', ∀ rest, execFrom c ⟨stk, sv, rt, tb, te⟩ (toksStar fnText tkFn fns p ++ rest) =
        execFrom c ⟨(fns.map (fun f => Item.chain [rawOf c.acc (fnPreT f)])).reverse ++ stk, sv, rt, tb', te'⟩ rest := by
  intro fns
  induction fns with
  | nil => intro p r stk tb te _ _; exact ⟨tb, te, fun rest => by simp [toksStar]⟩
  | cons f fns ih =>
    intro p r stk tb te hok h
    simp only [flat, List.append_assoc] at h
    obtain ⟨hk, hf⟩ := hok f (by simp)
    obtain ⟨tb2, te2, h2⟩ := ih (p + (fnText f).length) r (.chain [rawOf c.acc (fnPreT f)] :: stk) p
      (p + (fnText f).length) (fun y hy => hok y (by simp [hy])) h.append
    refine ⟨tb2, te2, fun rest => ?_⟩
    simp only [toksStar, List.append_assoc]
    rw [exec_fn c f h, pushFunction_found c f hk hf]
    simp only [bind, Except.bind, push]
    rw [h2]
    simp

/-- `function*` up to the first function that is not registered -/
theorem exec_fns_missing (c : Ctx) (sv : List (List Item)) (rt : Option (List N)) :
    ∀ (fs1 : List Fn) (f : Fn) (fs2 : List Fn) (p : Nat) (r : List Char) (stk : List Item) (tb te : Nat),
      (∀ g ∈ fs1, fnKindOK c.env g ∧ fnFound c.env g = true) → fnKindOK c.env f → fnFound c.env f = false →
      Sfx c.input p (flat fnText (fs1 ++ f :: fs2) ++ r) →
      ∀ rest, execFrom c ⟨stk, sv, rt, tb, te⟩ (toksStar fnText tkFn (fs1 ++ f :: fs2) p ++ rest) =
        .error (.functionNotFound (String.ofList (fnText f))) := by
  intro fs1
  induction fs1 with
  | nil =>
    intro f fs2 p r stk tb te _ hk hf h rest
    simp only [List.nil_append, flat, List.append_assoc] at h
    simp only [List.nil_append, toksStar, List.append_assoc]
    rw [exec_fn c f h, pushFunction_missing c f hk hf]
    rfl
  | cons g fs1 ih =>
    intro f fs2 p r stk tb te hok hk hf h rest
    simp only [List.cons_append, flat, List.append_assoc] at h
    obtain ⟨hkg, hfg⟩ := hok g (by simp)
    simp only [List.cons_append, toksStar, List.append_assoc]
    rw [exec_fn c g h, pushFunction_found c g hkg hfg]
    simp only [bind, Except.bind, push]
    exact ih f fs2 _ r _ _ _ (fun y hy => hok y (by simp [hy])) hk hf h.append rest

/-! ### `setNodeChain` -/

theorem linkAll_nil (root : List N) : linkAll root [] = .ok root := rfl

theorem linkAll_cons (root : List N) (x : Item) (xs : List Item) :
    linkAll root (x :: xs) = linkOne root x >>= fun r => linkAll r xs := rfl

theorem linkAll_append (root : List N) : ∀ (xs ys : List Item),
    linkAll root (xs ++ ys) = linkAll root xs >>= fun r => linkAll r ys := by
  intro xs
  induction xs generalizing root with
  | nil => intro ys; rfl
  | cons x xs ih =>
    intro ys
    rw [List.cons_append, linkAll_cons, linkAll_cons]
    cases h : linkOne root x with
    | error e => rfl
    | ok r => exact ih r ys

theorem linkOne_plain (root : List N) (n : N) (rest : List N) (h : isPlain n = true) :
    linkOne root (.chain (n :: rest)) = .ok (root ++ n :: rest) := by
  cases n <;> simp_all [isPlain, linkOne, asNode, bind, Except.bind]

theorem rawStep_shape (a : Bool) (s : Step) : ∃ n rest, rawStep a false s = n :: rest ∧ isPlain n = true := by
  cases s <;> exact ⟨_, _, rfl, rfl⟩

theorem linkAll_steps (a : Bool) : ∀ (ss : List Step) (root : List N),
    linkAll root (ss.map (fun s => Item.chain (rawStep a false s))) =
      .ok (root ++ (ss.map (rawStep a false)).flatten) := by
  intro ss
  induction ss with
  | nil => intro root; simp [linkAll_nil]
  | cons s ss ih =>
    intro root
    obtain ⟨n, rest, h1, h2⟩ := rawStep_shape a s
    rw [List.map_cons, linkAll_cons, h1, linkOne_plain _ _ _ h2]
    simp only [bind, Except.bind]
    rw [ih]
    simp [h1]

theorem linkAll_fns (a : Bool) : ∀ (fns : List Fn) (root : List N),
    linkAll root (fns.map (fun f => Item.chain [rawOf a (fnPreT f)])) =
      .ok (linkPres a root (fns.map fnPreT)) := by
  intro fns
  induction fns with
  | nil => intro root; rfl
  | cons f fns ih =>
    intro root
    rw [List.map_cons, linkAll_cons, List.map_cons, linkPres_cons]
    cases f with
    | ffn t n =>
      have : linkOne root (.chain [rawOf a (fnPreT (.ffn t n))]) = .ok (linkFn a root (fnPreT (.ffn t n))) := rfl
      rw [this]; exact ih _
    | afn t n =>
      have : linkOne root (.chain [rawOf a (fnPreT (.afn t n))]) = .ok (linkFn a root (fnPreT (.afn t n))) := by
        simp only [rawOf, fnPreT, fnPre, fnT, nodeWith, linkOne, linkFn, markVg_eq]
        rfl
      rw [this]; exact ih _

theorem linkPres_nodes (a : Bool) : ∀ (sp : List Pre) (root : List N), (∀ p ∈ sp, isFnPre p = false) →
    linkPres a root sp = root ++ sp.map (rawOf a) := by
  intro sp
  induction sp with
  | nil => intro root _; simp [linkPres]
  | cons p sp ih =>
    intro root h
    rw [linkPres_cons, ih _ (fun q hq => h q (List.mem_cons_of_mem _ hq))]
    have hp := h p List.mem_cons_self
    cases p with
    | node t vg mk => simp [linkFn]
    | ffn t n => cases hp
    | afn t n => cases hp

theorem linkPres_append (a : Bool) (root : List N) (xs ys : List Pre) :
    linkPres a root (xs ++ ys) = linkPres a (linkPres a root xs) ys := by
  simp [linkPres, List.foldl_append]

end JPV.PP
