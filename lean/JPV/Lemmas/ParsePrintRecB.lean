/-
ParsePrintRecB — recogniser lemmas, part B: names in brackets, `bracketNode`, dot children,
`childNode`, `function`.
-/
import JPV.Lemmas.ParsePrintRecA
import JPV.Lemmas.EscapeGrammar
namespace JPV.PP
open JPV.Peg JPV.Print JPV.Lex

variable {inp : Array Char}

/-! ### from `Sfx` to the `pre ++ …` form of Lemmas/EscapeGrammar.lean -/

theorem Sfx.exists_pre {p : Nat} {c : Char} {l : List Char} (h : Sfx inp p (c :: l)) :
    ∃ pre : List Char, inp = (pre ++ c :: l).toArray ∧ pre.length = p := by
  refine ⟨inp.toList.take p, ?_, ?_⟩
  · have : inp.toList = inp.toList.take p ++ inp.toList.drop p := (List.take_append_drop p _).symm
    unfold Sfx at h
    rw [h] at this
    apply Array.ext'
    simpa using this
  · have := h.lt_size
    simp only [List.length_take, Array.length_toList]
    omega

theorem acc_of_run {e : PE} {F p p' : Nat} {t : List Tok}
    (h : ∀ f, F ≤ f → run Gen.grammar f e inp p = .ok p' t) : Acc F e inp p p' t := h

/-! ### `wildcardIdentifier` -/

theorem acc_wildcardId {p : Nat} {r : List Char} (h : Sfx inp p ('*' :: r)) :
    Acc 4 (.rule "wildcardIdentifier") inp p (p + 1) [.action 12] :=
  ((Acc.rule "wildcardIdentifier" wildcard_body (Acc.seq (acc_lit1 "*" '*' rfl h) (acc_act 12 _))).mono
    (by omega)).cast rfl rfl

theorem rej_wildcardId {p : Nat} {l : List Char} (h : Sfx inp p l)
    (hl : startsWith (fun c => c == '*') l = false) : Rej 4 (.rule "wildcardIdentifier") inp p :=
  (Rej.rule "wildcardIdentifier" wildcard_body (Rej.seq_l _ (rej_lit1 "*" '*' [] rfl h hl))).mono (by omega)

/-! ### quoted names -/

theorem escQuotedChar_length_pos (q c : Char) : 1 ≤ (escQuotedChar q c).length := by
  unfold escQuotedChar
  split
  · simp
  · split
    · simp
    · split <;> simp

theorem escQuoted_length_ge (q : Char) (k : List Char) : k.length ≤ (escQuoted q k).length := by
  induction k with
  | nil => simp
  | cons c k ih =>
    rw [escQuoted_cons]
    have := escQuotedChar_length_pos q c
    simp only [List.length_cons, List.length_append]
    omega

theorem acc_single (k : List Char) {p : Nat} {r : List Char}
    (h : Sfx inp p ('\'' :: (escSingle k ++ '\'' :: r))) :
    Acc (19 + 32 * (escSingle k).length) (.rule "singleQuotedNodeIdentifier") inp p
      (p + 1 + (escSingle k).length + 1)
      [.text (p + 1) (p + 1 + (escSingle k).length), .action 13] := by
  obtain ⟨pre, hinp, hlen⟩ := h.exists_pre
  subst hinp; subst hlen
  have hge := escQuoted_length_ge '\'' k
  refine (Acc.rule "singleQuotedNodeIdentifier" single_rule_body (Fa := k.length + 17) ?_).mono ?_
  · intro f hf
    exact gen_single_rule_accepts k pre r f hf
  · unfold escSingle; omega

theorem rej_single {p : Nat} {l : List Char} (h : Sfx inp p l)
    (hl : startsWith (fun c => c == '\'') l = false) : Rej 3 (.rule "singleQuotedNodeIdentifier") inp p := by
  refine (Rej.rule "singleQuotedNodeIdentifier" single_rule_body (Fa := 2) ?_).mono (by omega)
  rw [single_rule_shape]
  exact Rej.seq_l _ (rej_lit1 "'" '\'' [] rfl h hl)

theorem rej_double {p : Nat} {l : List Char} (h : Sfx inp p l)
    (hl : startsWith (fun c => c == '"') l = false) : Rej 3 (.rule "doubleQuotedNodeIdentifier") inp p := by
  refine (Rej.rule "doubleQuotedNodeIdentifier" double_rule_body (Fa := 2) ?_).mono (by omega)
  rw [double_rule_shape]
  exact Rej.seq_l _ (rej_lit1 "\"" '"' [] rfl h hl)

theorem bni_body : ruleBody Gen.grammar "bracketNodeIdentifier" =
    .alt (.rule "wildcardIdentifier")
      (.alt (.rule "singleQuotedNodeIdentifier") (.rule "doubleQuotedNodeIdentifier")) := rfl

theorem acc_bni (n : Name) {p : Nat} {r : List Char} (h : Sfx inp p (nameText n ++ r)) :
    Acc (22 + 32 * (nameText n).length) (.rule "bracketNodeIdentifier") inp p (p + (nameText n).length)
      (tkName p n) := by
  refine (Acc.rule "bracketNodeIdentifier" bni_body (Fa := 21 + 32 * (nameText n).length) ?_).mono (by omega)
  cases n with
  | wild =>
    exact ((Acc.alt_l _ (acc_wildcardId (r := r) h)).mono (by simp [nameText])).cast rfl rfl
  | key k =>
    simp only [nameText, quoted, List.cons_append, List.append_assoc, List.nil_append] at h ⊢
    have r1 := rej_wildcardId h rfl
    have a2 := acc_single k.toList h
    refine ((Acc.alt_r r1 (Acc.alt_l _ a2)).mono ?_).cast ?_ ?_
    · len_omega
    · len_omega
    · simp [tkName]

def isNameStart (c : Char) : Bool := c == '*' || c == '\'' || c == '"'

theorem rej_bni {p : Nat} {l : List Char} (h : Sfx inp p l) (hl : startsWith isNameStart l = false) :
    Rej 7 (.rule "bracketNodeIdentifier") inp p :=
  (Rej.rule "bracketNodeIdentifier" bni_body
    (Rej.alt (rej_wildcardId h (startsWith_false_of_imp (by intro c hc; simp [isNameStart, hc]) hl))
      (Rej.alt (rej_single h (startsWith_false_of_imp (by intro c hc; simp [isNameStart, hc]) hl))
        (rej_double h (startsWith_false_of_imp (by intro c hc; simp [isNameStart, hc]) hl))))).mono (by omega)

theorem startsWith_nameText (P : Char → Bool) (b : Bool) (h1 : P '*' = b) (h2 : P '\'' = b)
    (n : Name) (r : List Char) : startsWith P (nameText n ++ r) = b := by
  cases n with
  | wild => exact h1
  | key k => exact h2

theorem noSp_nameText (n : Name) (r : List Char) : NoSp (nameText n ++ r) := by
  rw [noSp_iff]; exact startsWith_nameText _ false (by decide) (by decide) n r

theorem nameText_length_pos (n : Name) : 1 ≤ (nameText n).length := by
  cases n <;> simp [nameText, quoted]

/-! ### `bracketChildIdentifier` -/

theorem bci_body : ruleBody Gen.grammar "bracketChildIdentifier" =
    .seq (.rule "bracketNodeIdentifier")
      (.seq (.star (.seq (.rule "sep") (.seq (.rule "bracketNodeIdentifier") (.act 11))))
        (.not (.rule "sep"))) := rfl

def IsClose (r : List Char) : Prop := startsWith (fun c => c == ']') r = true

theorem IsClose.noSepStart {r : List Char} (h : IsClose r) :
    startsWith (fun c => c == ' ' || c == ',') r = false :=
  startsWith_false_of_true (by intro c hc; simp at hc; subst hc; decide) h

theorem IsClose.noSp {r : List Char} (h : IsClose r) : NoSp r := noSp_of_true (by decide) h

theorem joinComma_names (n : Name) (ns : List Name) :
    joinComma ((n :: ns).map nameText) = nameText n ++ flat commaName ns := joinComma_cons nameText n ns

theorem acc_names_tail (ns : List Name) {p : Nat} {r : List Char} (h : Sfx inp p (flat commaName ns ++ r))
    (hr : IsClose r) :
    Acc (63 + 32 * (flat commaName ns).length)
      (.star (.seq (.rule "sep") (.seq (.rule "bracketNodeIdentifier") (.act 11)))) inp p
      (p + (flat commaName ns).length) (toksStar commaName tkCommaName ns p) := by
  refine (acc_star_items (inp := inp) (.seq (.rule "sep") (.seq (.rule "bracketNodeIdentifier") (.act 11)))
    commaName tkCommaName (fun _ => True) (fun _ => True) 62 62 r trivial ?_ ?_ ?_ ?_ ns p
    (fun _ _ => trivial) h).mono (by omega)
  · intro x r' _; trivial
  · intro x _; simp [commaName]
  · intro x r' pos _ _ hs
    simp only [commaName, List.cons_append] at hs ⊢
    have a1 := acc_sep hs (noSp_nameText x r')
    have a2 := acc_bni x hs.tail
    refine ((Acc.seq a1 (Acc.seq a2 (acc_act 11 _))).mono ?_).cast ?_ ?_
    · len_omega
    · len_omega
    · simp [tkCommaName]
  · intro pos hs
    exact (Rej.seq_l _ (rej_sep hs hr.noSepStart)).mono (by omega)

theorem acc_bci (n : Name) (ns : List Name) {p : Nat} {r : List Char}
    (h : Sfx inp p (joinComma ((n :: ns).map nameText) ++ r)) (hr : IsClose r) :
    Acc (70 + 32 * (joinComma ((n :: ns).map nameText)).length) (.rule "bracketChildIdentifier") inp p
      (p + (joinComma ((n :: ns).map nameText)).length) (tkNames p (n :: ns)) := by
  rw [joinComma_names] at h ⊢
  rw [List.append_assoc] at h
  have a1 := acc_bni n h
  have a2 := acc_names_tail ns h.append hr
  have a3 := Acc.not (rej_sep h.append.append hr.noSepStart)
  refine ((Acc.rule "bracketChildIdentifier" bci_body (Acc.seq a1 (Acc.seq a2 a3))).mono ?_).cast ?_ ?_
  · len_omega
  · len_omega
  · simp [tkNames]

/-- `bracketChildIdentifier` fails at once on something that is not a name -/
theorem rej_bci_start {p : Nat} {l : List Char} (h : Sfx inp p l) (hl : startsWith isNameStart l = false) :
    Rej 9 (.rule "bracketChildIdentifier") inp p :=
  (Rej.rule "bracketChildIdentifier" bci_body (Rej.seq_l _ (rej_bni h hl))).mono (by omega)

theorem subText_notName (s : Sub) (hs : isWildSub s = false) (r : List Char) :
    startsWith isNameStart (subText s ++ r) = false := by
  have hint : ∀ n r', startsWith isNameStart (intText n ++ r') = false := fun n r' =>
    startsWith_intText _ false (by intro c hc; simp only [isNameStart]
                                   rw [Bool.eq_false_iff]; intro h; simp at h
                                   rcases h with (rfl | rfl) | rfl <;> revert hc <;> decide) (by decide) n r'
  cases s with
  | idx n => exact hint n r
  | wild => cases hs
  | slice s e t =>
    cases s with
    | none => rfl
    | some n =>
      simp only [subText, optInt, List.append_assoc]
      exact hint n _

/-- on `,s1,s2…` where some `s` is not `*`, the loop `(sep name {11})*` stops in front of a comma, so
    that `!sep` fails -/
theorem names_loop_on_subs : ∀ (ss : List Sub), ss.any (fun s => !isWildSub s) = true →
    ∀ {p : Nat} {r : List Char}, Sfx inp p (flat commaSub ss ++ r) →
    ∃ q T, Acc (20 + 32 * (flat commaSub ss).length)
        (.star (.seq (.rule "sep") (.seq (.rule "bracketNodeIdentifier") (.act 11)))) inp p q T ∧
      Rej 8 (.not (.rule "sep")) inp q := by
  intro ss
  induction ss with
  | nil => intro h; simp at h
  | cons s ss ih =>
    intro hany p r h
    simp only [flat, commaSub, List.cons_append, List.append_assoc] at h
    have a1 := acc_sep h (noSp_subText s _)
    cases hw : isWildSub s with
    | false =>
      refine ⟨p, [], ?_, ?_⟩
      · have r2 := rej_bni h.tail (subText_notName s hw _)
        exact (Acc.star_nil (Rej.seq_r a1 (Rej.seq_l _ r2))).mono (by omega)
      · exact (Rej.not a1).mono (by omega)
    | true =>
      have hs : s = .wild := by cases s <;> simp_all [isWildSub]
      subst hs
      have hany' : ss.any (fun s => !isWildSub s) = true := by simpa [isWildSub] using hany
      simp only [subText, List.cons_append, List.nil_append] at h
      have a2 := acc_bni .wild (r := flat commaSub ss ++ r) h.tail
      obtain ⟨q, T, a3, r4⟩ := ih hany' h.tail.tail
      have a12 := Acc.seq a1 (Acc.seq a2 (acc_act 11 _))
      refine ⟨q, _, (Acc.star_cons a12 a3).mono ?_, r4⟩
      simp only [flat, commaSub, subText, nameText, List.length_cons, List.length_append, List.length_nil]
      omega

/-- `bracketChildIdentifier` fails on the inside of a union -/
theorem rej_bci_union (s : Sub) (ss : List Sub) (hany : (s :: ss).any (fun s => !isWildSub s) = true)
    {p : Nat} {r : List Char} (h : Sfx inp p (joinComma ((s :: ss).map subText) ++ r)) :
    Rej (30 + 32 * (joinComma ((s :: ss).map subText)).length) (.rule "bracketChildIdentifier") inp p := by
  rw [joinComma_subs] at h ⊢
  rw [List.append_assoc] at h
  cases hw : isWildSub s with
  | false => exact (rej_bci_start h (subText_notName s hw _)).mono (by omega)
  | true =>
    have hs : s = .wild := by cases s <;> simp_all [isWildSub]
    subst hs
    have hany' : ss.any (fun s => !isWildSub s) = true := by simpa [isWildSub] using hany
    simp only [subText, List.cons_append, List.nil_append] at h
    have a1 := acc_bni .wild (r := flat commaSub ss ++ r) h
    obtain ⟨q, T, a2, r3⟩ := names_loop_on_subs ss hany' h.tail
    refine (Rej.rule "bracketChildIdentifier" bci_body (Rej.seq_r a1 (Rej.seq_r a2 r3))).mono ?_
    simp only [subText, nameText, List.length_cons, List.length_append, List.length_nil]
    omega

/-! ### `bracketNode` -/

theorem bracketNode_body : ruleBody Gen.grammar "bracketNode" =
    .seq (.cap (.seq (.rule "squareBracketStart")
      (.seq (.alt (.rule "bracketChildIdentifier") (.rule "qualifier")) (.rule "squareBracketEnd")))) (.act 7) := rfl
theorem sbStart_body : ruleBody Gen.grammar "squareBracketStart" = .seq (.lit "[") (.rule "space") := rfl
theorem sbEnd_body : ruleBody Gen.grammar "squareBracketEnd" = .seq (.rule "space") (.lit "]") := rfl
theorem qualifier_body : ruleBody Gen.grammar "qualifier" =
    .alt (.rule "union") (.alt (.rule "script") (.rule "filter")) := rfl

/-- `[` inner `]` where the inside is accepted by `bracketChildIdentifier / qualifier` -/
theorem acc_bracketNode_of {F : Nat} (inner : List Char) (T : List Tok) {p : Nat} {r : List Char}
    (h : Sfx inp p ('[' :: (inner ++ ']' :: r))) (hsp : NoSp (inner ++ ']' :: r))
    (hin : Acc F (.alt (.rule "bracketChildIdentifier") (.rule "qualifier")) inp (p + 1)
      (p + 1 + inner.length) T) (hF : 5 ≤ F) :
    Acc (F + 5) (.rule "bracketNode") inp p (p + (bracket inner).length)
      (T ++ [.text p (p + (bracket inner).length), .action 7]) := by
  have a1 : Acc 5 (.rule "squareBracketStart") inp p (p + 1) [] :=
    ((Acc.rule "squareBracketStart" sbStart_body (Acc.seq (acc_lit1 "[" '[' rfl h) (acc_space h.tail hsp))).mono
      (by omega)).cast rfl rfl
  have h3 := h.tail.append
  have a3 : Acc 5 (.rule "squareBracketEnd") inp (p + 1 + inner.length) (p + 1 + inner.length + 1) [] :=
    ((Acc.rule "squareBracketEnd" sbEnd_body (Acc.seq (acc_space h3 (noSp_cons (by decide) r))
      (acc_lit1 "]" ']' rfl h3))).mono (by omega)).cast rfl rfl
  have hlen : (bracket inner).length = inner.length + 2 := by simp [bracket]
  refine ((Acc.rule "bracketNode" bracketNode_body
    (Acc.seq (Acc.cap (Acc.seq a1 (Acc.seq hin a3))) (acc_act 7 _))).mono ?_).cast ?_ ?_
  · omega
  · omega
  · rw [hlen]
    have : p + 1 + inner.length + 1 = p + (inner.length + 2) := by omega
    simp [this]

theorem rej_bracketNode {p : Nat} {l : List Char} (h : Sfx inp p l)
    (hl : startsWith (fun c => c == '[') l = false) : Rej 7 (.rule "bracketNode") inp p :=
  (Rej.rule "bracketNode" bracketNode_body (Rej.seq_l _ (Rej.cap (Rej.seq_l _
    (Rej.rule "squareBracketStart" sbStart_body (Rej.seq_l _ (rej_lit1 "[" '[' [] rfl h hl))))))).mono (by omega)

/-- `['k']` -/
theorem acc_bracket_child (k : String) {p : Nat} {r : List Char} (h : Sfx inp p (bracket (quoted k) ++ r)) :
    Acc (80 + 32 * (bracket (quoted k)).length) (.rule "bracketNode") inp p (p + (bracket (quoted k)).length)
      (tkName (p + 1) (.key k) ++ [.text p (p + (bracket (quoted k)).length), .action 7]) := by
  simp only [bracket, List.cons_append, List.append_assoc, List.nil_append] at h
  have hin := acc_bci (.key k) [] (p := p + 1) (r := ']' :: r) (by simpa [joinComma, nameText] using h.tail) rfl
  simp only [List.map_cons, List.map_nil, joinComma, nameText] at hin
  have hin' : Acc _ (.alt (.rule "bracketChildIdentifier") (.rule "qualifier")) inp (p + 1)
      (p + 1 + (quoted k).length) (tkName (p + 1) (.key k)) :=
    (Acc.alt_l _ hin).cast rfl (by simp [tkNames, toksStar])
  have := acc_bracketNode_of (quoted k) _ h (noSp_cons (by decide) _) hin' (by omega)
  refine this.mono ?_
  simp only [bracket, List.length_cons, List.length_append, List.length_nil]; omega

/-- `['a','b',*]` -/
theorem acc_bracket_multi (n : Name) (ns : List Name) {p : Nat} {r : List Char}
    (h : Sfx inp p (bracket (joinComma ((n :: ns).map nameText)) ++ r)) :
    Acc (80 + 32 * (bracket (joinComma ((n :: ns).map nameText))).length) (.rule "bracketNode") inp p
      (p + (bracket (joinComma ((n :: ns).map nameText))).length)
      (tkNames (p + 1) (n :: ns) ++
        [.text p (p + (bracket (joinComma ((n :: ns).map nameText))).length), .action 7]) := by
  simp only [bracket, List.cons_append, List.append_assoc, List.nil_append] at h
  have hin := acc_bci n ns (p := p + 1) (r := ']' :: r) h.tail rfl
  have hsp : NoSp (joinComma ((n :: ns).map nameText) ++ ']' :: r) := by
    rw [joinComma_names, List.append_assoc]; exact noSp_nameText n _
  have := acc_bracketNode_of _ _ h hsp (Acc.alt_l _ hin) (by omega)
  refine this.mono ?_
  simp only [bracket, List.length_cons, List.length_append, List.length_nil]; omega

/-- `[1,2:3,*]` -/
theorem acc_bracket_union (s : Sub) (ss : List Sub) (hany : (s :: ss).any (fun s => !isWildSub s) = true)
    {p : Nat} {r : List Char} (h : Sfx inp p (bracket (joinComma ((s :: ss).map subText)) ++ r)) :
    Acc (80 + 32 * (bracket (joinComma ((s :: ss).map subText))).length) (.rule "bracketNode") inp p
      (p + (bracket (joinComma ((s :: ss).map subText))).length)
      (tkUnion (p + 1) (s :: ss) ++
        [.text p (p + (bracket (joinComma ((s :: ss).map subText))).length), .action 7]) := by
  simp only [bracket, List.cons_append, List.append_assoc, List.nil_append] at h
  have r1 := rej_bci_union s ss hany (p := p + 1) (r := ']' :: r) h.tail
  have a2 := acc_union s ss (p := p + 1) (r := ']' :: r) h.tail rfl
  have hsp : NoSp (joinComma ((s :: ss).map subText) ++ ']' :: r) := by
    rw [joinComma_subs, List.append_assoc]; exact noSp_subText s _
  have hin := Acc.alt_r r1 (Acc.rule "qualifier" qualifier_body (Acc.alt_l _ a2))
  have := acc_bracketNode_of _ _ h hsp hin (by omega)
  refine this.mono ?_
  simp only [bracket, List.length_cons, List.length_append, List.length_nil]; omega

end JPV.PP
