/-
ParserTiePush — the regenerated `push…` constructors of `Gen/ParserHelpersGo.lean` against what the action
models of `Peg/Actions.lean` push: flags, texts, `errorRuntime`, the library calls.
-/
import JPV.Lemmas.ParserTieHeld
set_option linter.unusedVariables false
set_option linter.unusedSimpArgs false
namespace JPV
namespace ParserLayout
open JPV JPV.ParserNode
open JPV.Gen.ParserHelpersGo

/-- a node constructor: allocate one cell, push a one-node chain in front of a held chain -/
theorem push_node_tie (c : Peg.Ctx) (g : PS) (L : LSt) (X : List (Nat × Cell)) (tb te : Nat)
    (i : Info) (s : LShape) (ch : List LN) (hs : cellsS (headRefD ch none) s = [])
    (hrep : Rep c g L (cellsCh ch none ++ X)) :
    let n := g.heap.length
    let it : LItem := .chain (LN.mk n i s :: ch)
    ∃ g', push (GItem.node s.kind n) { g with heap := g.heap ++ [nodeCell n i s (headRef ch)] } = .ok g' ∧
      Rep c g' { L with stack := L.stack ++ [it] } X ∧
      eraseSt { L with stack := L.stack ++ [it] } tb te = Peg.push (.chain (eraseS i s :: eraseCh ch)) (eraseSt L tb te) := by
  intro n it
  have hrep1 := hrep.alloc (nodeCell n i s (headRef ch))
  have hcells : cellsItem it = (n, nodeCell n i s (headRef ch)) :: cellsCh ch none := by
    show cellsCh (LN.mk n i s :: ch) none = _
    rw [headRefD_none] at hs
    simp only [cellsCh, cellsN, headRefD_none, hs]
    rfl
  obtain ⟨g', he, hrep', her⟩ := push_tie c _ L X it tb te
    (hrep1.held (Y := cellsItem it ++ X) (by rw [hcells]; intro x hx; exact hx) (by rw [hcells]; exact fun h => h))
    (List.cons_ne_nil _ _)
  exact ⟨g', he, hrep', her⟩


theorem Rep.nil_held {c : Peg.Ctx} {g : PS} {L : LSt} {X : List (Nat × Cell)} (hrep : Rep c g L X) :
    Rep c g L (cellsCh [] none ++ X) := hrep

/-- `pushRootIdentifier()` -/
theorem pushRootIdentifier_tie (c : Peg.Ctx) (g : PS) (L : LSt) (X : List (Nat × Cell)) (tb te : Nat)
    (hrep : Rep c g L X) :
    Sim c X tb te (pushRootIdentifier g) (.ok (Peg.push (.chain [.root (Peg.mkInfo c "$" false)]) (eraseSt L tb te))) := by
  obtain ⟨g', he, hrep', her⟩ := push_node_tie c g L X tb te ⟨"$", "", false, c.acc⟩ .root [] rfl hrep.nil_held
  refine Sim.ok ⟨g', _, ?_, hrep', her⟩
  rw [← he]
  simp only [pushRootIdentifier, PS.alloc, hrep.acc]
  rfl

/-- `pushCurrentRootIdentifier()` -/
theorem pushCurrentRootIdentifier_tie (c : Peg.Ctx) (g : PS) (L : LSt) (X : List (Nat × Cell)) (tb te : Nat)
    (hrep : Rep c g L X) :
    Sim c X tb te (pushCurrentRootIdentifier g) (.ok (Peg.push (.chain [.cur (Peg.mkInfo c "@" false)]) (eraseSt L tb te))) := by
  obtain ⟨g', he, hrep', her⟩ := push_node_tie c g L X tb te ⟨"@", "", false, c.acc⟩ .cur [] rfl hrep.nil_held
  refine Sim.ok ⟨g', _, ?_, hrep', her⟩
  rw [← he]
  simp only [pushCurrentRootIdentifier, PS.alloc, hrep.acc]
  rfl

/-- `pushChildSingleIdentifier(text)` -/
theorem pushChildSingleIdentifier_tie (c : Peg.Ctx) (g : PS) (L : LSt) (X : List (Nat × Cell)) (tb te : Nat)
    (text : String) (hrep : Rep c g L X) :
    Sim c X tb te (pushChildSingleIdentifier text g) (.ok (Peg.pushChildSingle c text (eraseSt L tb te))) := by
  obtain ⟨g', he, hrep', her⟩ := push_node_tie c g L X tb te ⟨text, "", false, c.acc⟩ (.child text) [] rfl hrep.nil_held
  refine Sim.ok ⟨g', _, ?_, hrep', her⟩
  rw [← he]
  simp only [pushChildSingleIdentifier, PS.alloc, PS.onHeap, wr_alloc, bind_ok, hrep.acc]
  rfl

/-- `pushChildWildcardIdentifier()` -/
theorem pushChildWildcardIdentifier_tie (c : Peg.Ctx) (g : PS) (L : LSt) (X : List (Nat × Cell)) (tb te : Nat)
    (hrep : Rep c g L X) :
    Sim c X tb te (pushChildWildcardIdentifier g) (.ok (Peg.push (.chain [.wild (Peg.mkInfo c "*" true)]) (eraseSt L tb te))) := by
  obtain ⟨g', he, hrep', her⟩ := push_node_tie c g L X tb te ⟨"*", "", true, c.acc⟩ .wild [] rfl hrep.nil_held
  refine Sim.ok ⟨g', _, ?_, hrep', her⟩
  rw [← he]
  simp only [pushChildWildcardIdentifier, PS.alloc, PS.onHeap, wr_alloc, bind_ok, hrep.acc]
  rfl

/-- `pushFunction(text, funcName)` -/
theorem pushFunction_tie (c : Peg.Ctx) (g : PS) (L : LSt) (X : List (Nat × Cell)) (tb te : Nat)
    (text name : String) (hrep : Rep c g L X) :
    Sim c X tb te (pushFunction text name g) (Peg.pushFunction c text name (eraseSt L tb te)) := by
  cases hf : c.env.ffn name with
  | some fn =>
    have hm : Peg.pushFunction c text name (eraseSt L tb te) =
        .ok (Peg.push (.chain [.ffn (Peg.mkInfo c text false) name]) (eraseSt L tb te)) := by
      simp only [Peg.pushFunction, hf]
    rw [hm]
    obtain ⟨g', he, hrep', her⟩ := push_node_tie c g L X tb te ⟨text, "", false, c.acc⟩ (.ffn name) [] rfl hrep.nil_held
    refine Sim.ok ⟨g', _, ?_, hrep', her⟩
    rw [← he]
    have hgf : g.filterFunctions name = some name := by rw [hrep.ffn, hf]; rfl
    simp only [pushFunction, hgf, PS.alloc, PS.onHeap, wr_alloc, bind_ok, hrep.acc]
    rfl
  | none =>
    have hgf : g.filterFunctions name = none := by rw [hrep.ffn, hf]; rfl
    cases ha : c.env.afn name with
    | some fn =>
      have hm : Peg.pushFunction c text name (eraseSt L tb te) =
          .ok (Peg.push (.chain [.afn (Peg.mkInfo c text false) name []]) (eraseSt L tb te)) := by
        simp only [Peg.pushFunction, hf, ha]
      rw [hm]
      obtain ⟨g', he, hrep', her⟩ := push_node_tie c g L X tb te ⟨text, "", false, c.acc⟩ (.afn name []) [] rfl hrep.nil_held
      refine Sim.ok ⟨g', _, ?_, hrep', her⟩
      rw [← he]
      have hga : g.aggregateFunctions name = some name := by rw [hrep.afn, ha]; rfl
      simp only [pushFunction, hgf, hga, PS.alloc, PS.onHeap, wr_alloc, bind_ok, hrep.acc]
      rfl
    | none =>
      have hm : Peg.pushFunction c text name (eraseSt L tb te) = .error (.functionNotFound text) := by
        simp only [Peg.pushFunction, hf, ha]
      rw [hm]
      have hga : g.aggregateFunctions name = none := by rw [hrep.afn, ha]; rfl
      refine Sim.err (e' := .functionNotFound text) ?_ rfl
      simp only [pushFunction, hgf, hga]


/-- the two flags `pushRecursiveChildIdentifier` computes from the type of the next node -/
def descFlags : NRef → Bool × Bool
  | some (.wild, _) => (true, true)
  | some (.multi, _) => (true, true)
  | some (.filter, _) => (true, true)
  | some (.child, _) => (true, false)
  | some (.union, _) => (false, true)
  | _ => (false, false)

theorem pushRecursiveChild_flags (c : Peg.Ctx) (ch : List LN) (st : Peg.St) :
    Peg.pushRecursiveChild c (eraseCh ch) st =
      Peg.push (.chain (.desc (Peg.mkInfo c ".." true) (descFlags (headRef ch)).1 (descFlags (headRef ch)).2 :: eraseCh ch)) st := by
  cases ch with
  | nil => rfl
  | cons n tl =>
    obtain ⟨id, i, s⟩ := n
    cases s <;> rfl

/-- the cell `pushRecursiveChildIdentifier` allocates -/
def descCell (node : NRef) (g : PS) : Cell :=
  { text := ".."
    valueGroup := true
    next := node
    accessorMode := g.accessorMode
    errorRuntime := some (some g.heap.length)
    nextMapRequired := (descFlags node).1
    nextListRequired := (descFlags node).2 }

theorem pushRecursiveChildIdentifier_eq (node : NRef) (g : PS) :
    pushRecursiveChildIdentifier node g = push (GItem.node .desc g.heap.length)
      { g with heap := g.heap ++ [descCell node g] } := by
  cases node with
  | none =>
    simp only [pushRecursiveChildIdentifier, NRef.kind, Option.map_none, bind_ok, PS.alloc, PS.onHeap, wr_alloc]
    rfl
  | some r =>
    obtain ⟨k, id⟩ := r
    cases k <;>
      (simp only [pushRecursiveChildIdentifier, NRef.kind, Option.map_some, bind_ok, PS.alloc, PS.onHeap, wr_alloc]
       rfl)

/-- `pushRecursiveChildIdentifier(node)` for a held chain -/
theorem pushRecursiveChildIdentifier_tie (c : Peg.Ctx) (g : PS) (L : LSt) (X : List (Nat × Cell)) (tb te : Nat)
    (ch : List LN) (hrep : Rep c g L (cellsCh ch none ++ X)) :
    Sim c X tb te (pushRecursiveChildIdentifier (headRef ch) g)
      (.ok (Peg.pushRecursiveChild c (eraseCh ch) (eraseSt L tb te))) := by
  rw [pushRecursiveChild_flags]
  obtain ⟨g', he, hrep', her⟩ := push_node_tie c g L X tb te ⟨"..", "", true, c.acc⟩
    (.desc (descFlags (headRef ch)).1 (descFlags (headRef ch)).2) ch rfl hrep
  refine Sim.ok ⟨g', _, ?_, hrep', her⟩
  rw [← he]
  rw [pushRecursiveChildIdentifier_eq]
  simp only [descCell, hrep.acc]
  rfl


theorem asSubscript_sub (s : GSub) : Peg.asSubscript (eraseItem (.sub s)) = .ok (subI s, subVg s) := by
  cases s <;> rfl

/-- `pushUnionQualifier(subscript)`: the model's `Action19` after its `asSubscript` -/
theorem pushUnionQualifier_tie (c : Peg.Ctx) (g : PS) (L : LSt) (X : List (Nat × Cell)) (tb te : Nat)
    (sub : GSub) (hwf : wfItem (.sub sub)) (hrep : Rep c g L X) :
    Sim c X tb te (pushUnionQualifier sub g)
      (.ok (Peg.push (.chain [.union (Peg.mkInfo c "" (subVg sub)) [subI sub]]) (eraseSt L tb te))) := by
  obtain ⟨g', he, hrep', her⟩ := push_node_tie c g L X tb te ⟨"", "", subVg sub, c.acc⟩ (.union [sub]) [] rfl hrep.nil_held
  refine Sim.ok ⟨g', _, ?_, hrep', her⟩
  rw [← he]
  have hvg : GSub.isValueGroup sub = .ok (subVg sub) := by
    simp only [GSub.isValueGroup, show sub.basic = some (subVg sub) from hwf]
  simp only [pushUnionQualifier, hvg, PS.alloc, PS.onHeap, wr_alloc, bind_ok, hrep.acc]
  rfl

/-- `pushFilterQualifier(query)` for a held query -/
theorem pushFilterQualifier_tie (c : Peg.Ctx) (g : PS) (L : LSt) (X : List (Nat × Cell)) (tb te : Nat)
    (q : LQ) (hrep : Rep c g L (cellsQ q ++ X)) :
    Sim c X tb te (pushFilterQualifier (gq q) g)
      (.ok (Peg.push (.chain [.filter (Peg.mkInfo c "" true) (eraseQ q)]) (eraseSt L tb te))) := by
  let n := g.heap.length
  let it : LItem := .chain [LN.mk n ⟨"", "", true, c.acc⟩ (.filter q)]
  have hrep1 := hrep.alloc (nodeCell n ⟨"", "", true, c.acc⟩ (.filter q) none)
  have hcells : cellsItem it = (n, nodeCell n ⟨"", "", true, c.acc⟩ (.filter q) none) :: cellsQ q := by
    show cellsCh [LN.mk n _ (.filter q)] none = _
    simp only [cellsCh, cellsN, cellsS, List.append_nil]
    rfl
  obtain ⟨g', he, hrep', her⟩ := push_tie c _ L X it tb te
    (hrep1.held (Y := cellsItem it ++ X) (by rw [hcells]; intro x hx; exact hx) (by rw [hcells]; exact fun h => h))
    (List.cons_ne_nil _ _)
  refine Sim.ok ⟨g', _, ?_, hrep', her⟩
  rw [← he]
  simp only [pushFilterQualifier, PS.alloc, PS.onHeap, wr_alloc, bind_ok, hrep.acc]
  rfl

/-- `pushScriptQualifier(text)` -/
theorem pushScriptQualifier_tie (c : Peg.Ctx) (g : PS) (X : List (Nat × Cell)) (tb te : Nat) (text : String) :
    Sim c X tb te (pushScriptQualifier text g) (.error (.notSupported "script" ("[(" ++ text ++ ")]"))) :=
  Sim.err (e' := .notSupported "script" ("[(" ++ text ++ ")]")) rfl rfl

/-- pushing a value that owns no cells -/
theorem push_value_tie (c : Peg.Ctx) (g : PS) (L : LSt) (X : List (Nat × Cell)) (tb te : Nat)
    (it : LItem) (hcells : cellsItem it = []) (hwf : wfItem it) (hrep : Rep c g L X) :
    ∃ g', push (gitem it) g = .ok g' ∧ Rep c g' { L with stack := L.stack ++ [it] } X ∧
      eraseSt { L with stack := L.stack ++ [it] } tb te = Peg.push (eraseItem it) (eraseSt L tb te) :=
  push_tie c g L X it tb te (by rw [hcells]; exact hrep) hwf

/-- `pushSlicePositiveStepSubscript(start, end, step)` -/
theorem pushSlicePositiveStepSubscript_tie (c : Peg.Ctx) (g : PS) (L : LSt) (X : List (Nat × Cell)) (tb te : Nat)
    (a b s : GIdx) (hrep : Rep c g L X) :
    Sim c X tb te (pushSlicePositiveStepSubscript a b s g)
      (.ok (Peg.push (.sub (.slicePos (boundOf a) (boundOf b) (boundOf s))) (eraseSt L tb te))) := by
  obtain ⟨g', he, hrep', her⟩ := push_value_tie c g L X tb te (.sub (.slicePositive (some true) a b s)) rfl rfl hrep
  exact Sim.ok ⟨g', _, by rw [← he]; rfl, hrep', her⟩

/-- `pushSliceNegativeStepSubscript(start, end, step)` -/
theorem pushSliceNegativeStepSubscript_tie (c : Peg.Ctx) (g : PS) (L : LSt) (X : List (Nat × Cell)) (tb te : Nat)
    (a b s : GIdx) (hrep : Rep c g L X) :
    Sim c X tb te (pushSliceNegativeStepSubscript a b s g)
      (.ok (Peg.push (.sub (.sliceNeg (boundOf a) (boundOf b) (boundOf s))) (eraseSt L tb te))) := by
  obtain ⟨g', he, hrep', her⟩ := push_value_tie c g L X tb te (.sub (.sliceNegative (some true) a b s)) rfl rfl hrep
  exact Sim.ok ⟨g', _, by rw [← he]; rfl, hrep', her⟩

/-- `pushWildcardSubscript()` -/
theorem pushWildcardSubscript_tie (c : Peg.Ctx) (g : PS) (L : LSt) (X : List (Nat × Cell)) (tb te : Nat)
    (hrep : Rep c g L X) :
    Sim c X tb te (pushWildcardSubscript g) (.ok (Peg.push (.sub .wild) (eraseSt L tb te))) := by
  obtain ⟨g', he, hrep', her⟩ := push_value_tie c g L X tb te (.sub (.wildcard (some true))) rfl rfl hrep
  exact Sim.ok ⟨g', _, by rw [← he]; rfl, hrep', her⟩

/-- the library functions of the vocabulary against those of the model -/
structure LibRep (lib : Lib) (c : Peg.Ctx) : Prop where
  atoi : lib.atoi = c.ext.atoi
  parseFloat : ∀ s, lib.parseFloat s = match c.ext.parseFloat s with
    | .ok n => some (some n) | .err => none | .unmodelled => some none
  regexCompile : ∀ s, lib.regexCompile s = match c.ext.regexCompile s with
    | .ok => some true | .err => none | .unmodelled => some false

/-- `_pushIndexSubscript(text, isOmitted)` -/
theorem _pushIndexSubscript_tie (c : Peg.Ctx) (lib : Lib) (hlib : LibRep lib c) (g : PS) (L : LSt)
    (X : List (Nat × Cell)) (tb te : Nat) (text : String) (om : Bool) (hrep : Rep c g L X) :
    Sim c X tb te (_pushIndexSubscript lib text om g) (Peg.pushIndexSubscript c text om (eraseSt L tb te)) := by
  cases ha : c.ext.atoi text with
  | none =>
    have hm : Peg.pushIndexSubscript c text om (eraseSt L tb te) = .error (.invalidArgument text) := by
      simp only [Peg.pushIndexSubscript, ha]
    rw [hm]
    refine Sim.err (e' := .invalidArgument text) ?_ rfl
    simp only [_pushIndexSubscript, toInt, hlib.atoi, ha]
    rfl
  | some n =>
    have hm : Peg.pushIndexSubscript c text om (eraseSt L tb te) = .ok (Peg.push (.idx ⟨n, om⟩) (eraseSt L tb te)) := by
      simp only [Peg.pushIndexSubscript, ha]
    rw [hm]
    obtain ⟨g', he, hrep', her⟩ := push_value_tie c g L X tb te
      (.sub (.index { basic := some false, number := n, isOmitted := om })) rfl rfl hrep
    refine Sim.ok ⟨g', _, ?_, hrep', her⟩
    rw [← he]
    simp only [_pushIndexSubscript, toInt, hlib.atoi, ha, bind_ok]
    rfl

/-- `pushIndexSubscript(text)` -/
theorem pushIndexSubscript_tie (c : Peg.Ctx) (lib : Lib) (hlib : LibRep lib c) (g : PS) (L : LSt)
    (X : List (Nat × Cell)) (tb te : Nat) (text : String) (hrep : Rep c g L X) :
    Sim c X tb te (pushIndexSubscript lib text g) (Peg.pushIndexSubscript c text false (eraseSt L tb te)) := by
  have := _pushIndexSubscript_tie c lib hlib g L X tb te text false hrep
  have he : pushIndexSubscript lib text g = _pushIndexSubscript lib text false g := by
    simp only [pushIndexSubscript]; exact bind_pure_ok _
  rw [he]; exact this

/-- `pushOmittedIndexSubscript(text)` -/
theorem pushOmittedIndexSubscript_tie (c : Peg.Ctx) (lib : Lib) (hlib : LibRep lib c) (g : PS) (L : LSt)
    (X : List (Nat × Cell)) (tb te : Nat) (text : String) (hrep : Rep c g L X) :
    Sim c X tb te (pushOmittedIndexSubscript lib text g) (Peg.pushIndexSubscript c text true (eraseSt L tb te)) := by
  have := _pushIndexSubscript_tie c lib hlib g L X tb te text true hrep
  have he : pushOmittedIndexSubscript lib text g = _pushIndexSubscript lib text true g := by
    simp only [pushOmittedIndexSubscript]; exact bind_pure_ok _
  rw [he]; exact this

/-- `toInt(text)` -/
theorem toInt_tie (c : Peg.Ctx) (lib : Lib) (hlib : LibRep lib c) (text : String) :
    toInt lib text = match c.ext.atoi text with | some n => .ok n | none => .error (.invalidArgument text) := by
  simp only [toInt, hlib.atoi]
  cases c.ext.atoi text <;> rfl

/-- `toFloat(text)` -/
theorem toFloat_tie (c : Peg.Ctx) (lib : Lib) (hlib : LibRep lib c) (text : String) :
    toFloat lib text = match c.ext.parseFloat text with
      | .ok n => .ok n | .err => .error (.invalidArgument text) | .unmodelled => .error .unmodelled := by
  simp only [toFloat, hlib.parseFloat]
  cases c.ext.parseFloat text <;> rfl


/-- pushing a query built from held queries: the cells are regrouped, nothing is written -/
theorem push_query_tie (c : Peg.Ctx) (g : PS) (L : LSt) (X Y : List (Nat × Cell)) (tb te : Nat)
    (q : LQ) (hperm : ∀ x, x ∈ cellsQ q ↔ x ∈ Y) (hnd : (ids Y).Nodup → (ids (cellsQ q)).Nodup)
    (hrep : Rep c g L (Y ++ X)) :
    ∃ g', push (.query (gq q)) g = .ok g' ∧ Rep c g' { L with stack := L.stack ++ [.query q] } X ∧
      eraseSt { L with stack := L.stack ++ [.query q] } tb te = Peg.push (.query (eraseQ q)) (eraseSt L tb te) := by
  refine push_tie c g L X (.query q) tb te ?_ trivial
  have hnd0 := hrep.nodup
  have hndY : (ids Y).Nodup := by
    simp only [ids_append, List.nodup_append] at hnd0; exact hnd0.2.1.1
  have hndQ := hnd hndY
  exact {
    params := hrep.params
    paramsList := hrep.paramsList
    root := hrep.root
    sat := hrep.sat.subset (by
      intro x hx
      simp only [cellsItem, List.mem_append] at hx ⊢
      rcases hx with hx | hx | hx
      · exact Or.inl hx
      · exact Or.inr (Or.inl ((hperm x).mp hx))
      · exact Or.inr (Or.inr hx))
    nodup := by
      have hmem : ∀ i, i ∈ ids (cellsQ q) → i ∈ ids Y := by
        intro i hi
        rcases List.mem_map.mp hi with ⟨x, hx, rfl⟩
        exact mem_ids_of_mem ((hperm x).mp hx)
      simp only [cellsItem, ids_append, List.nodup_append, List.mem_append] at hnd0 ⊢
      grind
    wfStack := hrep.wfStack
    wfSaved := hrep.wfSaved
    acc := hrep.acc
    ffn := hrep.ffn
    afn := hrep.afn }

/-- `pushLogicalOr(left, right)` for two held queries -/
theorem pushLogicalOr_tie (c : Peg.Ctx) (g : PS) (L : LSt) (X : List (Nat × Cell)) (tb te : Nat) (a b : LQ)
    (hrep : Rep c g L ((cellsQ a ++ cellsQ b) ++ X)) :
    Sim c X tb te (pushLogicalOr (gq a) (gq b) g) (.ok (Peg.push (.query (.or (eraseQ a) (eraseQ b))) (eraseSt L tb te))) := by
  obtain ⟨g', he, hrep', her⟩ := push_query_tie c g L X _ tb te (.or a b) (fun x => by simp only [cellsQ]) (fun h => h) hrep
  exact Sim.ok ⟨g', _, by rw [← he]; rfl, hrep', her⟩

/-- `pushLogicalAnd(left, right)` for two held queries -/
theorem pushLogicalAnd_tie (c : Peg.Ctx) (g : PS) (L : LSt) (X : List (Nat × Cell)) (tb te : Nat) (a b : LQ)
    (hrep : Rep c g L ((cellsQ a ++ cellsQ b) ++ X)) :
    Sim c X tb te (pushLogicalAnd (gq a) (gq b) g) (.ok (Peg.push (.query (.and (eraseQ a) (eraseQ b))) (eraseSt L tb te))) := by
  obtain ⟨g', he, hrep', her⟩ := push_query_tie c g L X _ tb te (.and a b) (fun x => by simp only [cellsQ]) (fun h => h) hrep
  exact Sim.ok ⟨g', _, by rw [← he]; rfl, hrep', her⟩

/-- `pushLogicalNot(query)` for a held query -/
theorem pushLogicalNot_tie (c : Peg.Ctx) (g : PS) (L : LSt) (X : List (Nat × Cell)) (tb te : Nat) (a : LQ)
    (hrep : Rep c g L (cellsQ a ++ X)) :
    Sim c X tb te (pushLogicalNot (gq a) g) (.ok (Peg.push (.query (.not (eraseQ a))) (eraseSt L tb te))) := by
  obtain ⟨g', he, hrep', her⟩ := push_query_tie c g L X _ tb te (.not a) (fun x => by simp only [cellsQ]) (fun h => h) hrep
  exact Sim.ok ⟨g', _, by rw [← he]; rfl, hrep', her⟩

/-- `_createBasicCompareQuery(left, right, comparator)` -/
theorem _createBasicCompareQuery_tie (l r : LP) (cmp : Cmp) :
    _createBasicCompareQuery (gcp l) (gcp r) cmp = .ok (gq (.cmp l r cmp)) := rfl

/-- `pushCompareRegex(leftParam, regex)` for a held operand: the model's `Action34` after its `asCP` -/
theorem pushCompareRegex_tie (c : Peg.Ctx) (lib : Lib) (hlib : LibRep lib c) (g : PS) (L : LSt)
    (X : List (Nat × Cell)) (tb te : Nat) (l : LP) (re : String) (hrep : Rep c g L (cellsP l ++ X)) :
    Sim c X tb te (pushCompareRegex lib (gcp l) re g)
      (match c.ext.regexCompile re with
        | .ok => .ok (Peg.push (.query (.cmp (eraseP l) (.lit (.str "regex")) (.regex re))) (eraseSt L tb te))
        | .err => .error (.invalidArgument re)
        | .unmodelled => .error .unmodelled) := by
  cases hr : c.ext.regexCompile re with
  | ok =>
    obtain ⟨g', he, hrep', her⟩ := push_query_tie c g L X (cellsP l) tb te (.cmp l (.lit (.str "regex")) (.regex re))
      (fun x => by simp only [cellsQ, cellsP, List.append_nil])
      (fun h => by simpa only [cellsQ, cellsP, List.append_nil] using h) hrep
    refine Sim.ok ⟨g', _, ?_, hrep', her⟩
    rw [← he]
    simp only [pushCompareRegex, hlib.regexCompile, hr, _createBasicCompareQuery, bind_ok]
    rfl
  | err =>
    refine Sim.err (e' := .invalidArgument re) ?_ rfl
    simp only [pushCompareRegex, hlib.regexCompile, hr]
  | unmodelled =>
    refine Sim.err (e' := .unmodelled) ?_ rfl
    simp only [pushCompareRegex, hlib.regexCompile, hr]

/-- pushing a compare parameter built from a held operand -/
theorem push_cp_tie (c : Peg.Ctx) (g : PS) (L : LSt) (X : List (Nat × Cell)) (tb te : Nat) (p : LP)
    (hrep : Rep c g L (cellsP p ++ X)) :
    ∃ g', push (.cp (gcp p)) g = .ok g' ∧ Rep c g' { L with stack := L.stack ++ [.cp p] } X ∧
      eraseSt { L with stack := L.stack ++ [.cp p] } tb te = Peg.push (.cp (eraseP p)) (eraseSt L tb te) :=
  push_tie c g L X (.cp p) tb te hrep trivial

/-- `isLiteral` of the compare parameter around an operand -/
def isLit : LP → Bool
  | .pcur _ => false
  | _ => true

/-- `pushBasicCompareParameter(parameter, isLiteral)` for a held operand: what the model's `Action37` pushes -/
theorem pushBasicCompareParameter_tie (c : Peg.Ctx) (g : PS) (L : LSt) (X : List (Nat × Cell)) (tb te : Nat) (p : LP)
    (hrep : Rep c g L (cellsP p ++ X)) :
    Sim c X tb te (pushBasicCompareParameter (gparam p) (isLit p) g) (.ok (Peg.push (.cp (eraseP p)) (eraseSt L tb te))) := by
  obtain ⟨g', he, hrep', her⟩ := push_cp_tie c g L X tb te p hrep
  refine Sim.ok ⟨g', _, ?_, hrep', her⟩
  rw [← he]
  cases p <;> rfl

/-- `pushCompareParameterLiteral(text)` for a literal value: what the model's `pushCompareParameterLiteral` pushes
    after its `pop` -/
theorem pushCompareParameterLiteral_tie (c : Peg.Ctx) (g : PS) (L : LSt) (X : List (Nat × Cell)) (tb te : Nat) (l : Lit)
    (hrep : Rep c g L X) :
    Sim c X tb te (pushCompareParameterLiteral (itemOfLit l) g)
      (.ok (Peg.push (.cp (.lit l.toVal)) (eraseSt L tb te))) := by
  obtain ⟨g', he, hrep', her⟩ := push_cp_tie c g L X tb te (.lit l) hrep
  refine Sim.ok ⟨g', _, ?_, hrep', her⟩
  rw [← he]
  simp only [pushCompareParameterLiteral, pushBasicCompareParameter]
  rfl


/-- `pushCompareParameterRoot(node)` for a held chain -/
theorem pushCompareParameterRoot_tie (c : Peg.Ctx) (g : PS) (L : LSt) (X : List (Nat × Cell)) (tb te : Nat)
    (ch : List LN) (f : Nat) (hrep : Rep c g L (cellsCh ch none ++ X)) (hfuel : ch.length ≤ f + 2) :
    Sim c X tb te (pushCompareParameterRoot (f + 2) (headRef ch) g)
      (.ok (Peg.push (.query (.exist (.proot (Peg.setAccChain false (eraseCh ch))))) (eraseSt L tb te))) := by
  obtain ⟨g1, ch', he1, hrep1, her1, href1⟩ := updateAccessorMode_tie c g L X ch f false hrep hfuel
  obtain ⟨g', he, hrep', her⟩ := push_query_tie c g1 L X (cellsCh ch' none) tb te (.exist (.proot ch'))
    (fun x => by simp only [cellsQ, cellsP]) (fun h => by simpa only [cellsQ, cellsP] using h) hrep1
  refine Sim.ok ⟨g', _, ?_, hrep', ?_⟩
  · simp only [pushCompareParameterRoot, he1, bind_ok]
    rw [show GItem.query (GQ.proot (headRef ch)) = GItem.query (gq (.exist (.proot ch'))) by
      simp only [gq, gparam, href1]]
    rw [he]
    rfl
  · rw [her]
    simp only [eraseQ, eraseP, her1]

/-- `pushCompareParameterCurrentRoot(node)` for a held chain -/
theorem pushCompareParameterCurrentRoot_tie (c : Peg.Ctx) (g : PS) (L : LSt) (X : List (Nat × Cell)) (tb te : Nat)
    (ch : List LN) (f : Nat) (hrep : Rep c g L (cellsCh ch none ++ X)) (hfuel : ch.length ≤ f + 2) :
    Sim c X tb te (pushCompareParameterCurrentRoot (f + 2) (headRef ch) g)
      (.ok (Peg.push (.query (.exist (.pcur (Peg.setAccChain false (eraseCh ch))))) (eraseSt L tb te))) := by
  obtain ⟨g1, ch', he1, hrep1, her1, href1⟩ := updateAccessorMode_tie c g L X ch f false hrep hfuel
  obtain ⟨g', he, hrep', her⟩ := push_query_tie c g1 L X (cellsCh ch' none) tb te (.exist (.pcur ch'))
    (fun x => by simp only [cellsQ, cellsP]) (fun h => by simpa only [cellsQ, cellsP] using h) hrep1
  refine Sim.ok ⟨g', _, ?_, hrep', ?_⟩
  · simp only [pushCompareParameterCurrentRoot, he1, bind_ok]
    rw [show GItem.query (GQ.pcur (headRef ch)) = GItem.query (gq (.exist (.pcur ch'))) by
      simp only [gq, gparam, href1]]
    rw [he]
    rfl
  · rw [her]
    simp only [eraseQ, eraseP, her1]

/-! ### `pushChildMultiIdentifier` -/

theorem wr_alloc2 (h : Heap) (c0 c1 : Cell) (f : Cell → Cell) :
    wr ((h ++ [c0]) ++ [c1]) (some h.length) f = .ok ((h ++ [f c0]) ++ [c1]) := by
  have h0 : ((h ++ [c0]) ++ [c1])[h.length]? = some c0 := get_alloc_old (get_alloc_new h c0) c1
  rw [wr_some h0]
  congr 1
  rw [List.set_append_left _ _ (by simp), List.set_append_right _ _ (Nat.le_refl _)]
  simp

theorem rd_alloc2 {α : Type} (h : Heap) (c0 c1 : Cell) (f : Cell → α) :
    rd ((h ++ [c0]) ++ [c1]) (some h.length) f = .ok (f c0) :=
  rd_some (get_alloc_old (get_alloc_new h c0) c1) f

theorem wr_alloc_last (h : Heap) (c0 c1 : Cell) (f : Cell → Cell) :
    wr ((h ++ [c0]) ++ [c1]) (some (h.length + 1)) f = .ok ((h ++ [c0]) ++ [f c1]) := by
  have := wr_alloc (h ++ [c0]) c1 f
  simp only [List.length_append, List.length_cons, List.length_nil] at this
  exact this

/-- the cell of a fresh multi-name node -/
def multiCell0 (g : PS) (r1 r2 : NRef) (aw : Bool) : Cell :=
  { valueGroup := true
    accessorMode := g.accessorMode
    errorRuntime := some (some g.heap.length)
    identifiers := [r1, r2]
    isAllWildcard := aw }

/-- the cell of its twin -/
def twinCell0 (g : PS) : Cell :=
  { valueGroup := true
    accessorMode := g.accessorMode
    errorRuntime := some (some (g.heap.length + 1)) }

/-- the second branch of `pushChildMultiIdentifier` (the first node is not a multi-name node), not all wildcards -/
theorem pushChildMulti_new_plain (g : PS) (k1 k2 : Kind) (id1 id2 : Nat) (hk1 : k1 ≠ .multi)
    (haw : ((NRef.asPtr .wild (some (k1, id1))).isSome && (NRef.asPtr .wild (some (k2, id2))).isSome) = false) :
    pushChildMultiIdentifier (some (k1, id1)) (some (k2, id2)) g =
      push (.node .multi g.heap.length)
        { g with heap := g.heap ++ [multiCell0 g (some (k1, id1)) (some (k2, id2)) false] } := by
  have hm : NRef.asPtr .multi (some (k1, id1)) = none := by
    simp only [NRef.asPtr, if_neg hk1]
  simp only [pushChildMultiIdentifier, hm, PS.alloc, PS.onHeap, wr_alloc, rd_alloc, bind_ok, haw]
  rfl

/-- … all wildcards: the twin is allocated too -/
theorem pushChildMulti_new_wild (g : PS) (id1 id2 : Nat) :
    pushChildMultiIdentifier (some (.wild, id1)) (some (.wild, id2)) g =
      push (.node .multi g.heap.length)
        { g with heap := (g.heap ++ [{ multiCell0 g (some (.wild, id1)) (some (.wild, id2)) true with
            unionQualifier := { basic := some (g.heap.length + 1), subscripts := [GSub.wildcard none, GSub.wildcard none] } }])
            ++ [twinCell0 g] } := by
  simp only [pushChildMultiIdentifier, NRef.asPtr, PS.alloc, PS.onHeap, wr_alloc, rd_alloc, bind_ok,
    List.length_append, List.length_cons, List.length_nil, wr_alloc2, rd_alloc2, wr_alloc_last]
  rfl


/-- a node that can be an inner identifier: a single name or a wildcard -/
def toMIdL : LN → Option (MId × Bool)
  | .mk _ i (.child k) => some (.key i k, false)
  | .mk _ i .wild => some (.wild i, true)
  | _ => none

theorem toMId_single (n : LN) :
    Peg.toMId (eraseCh [n]) = match toMIdL n with | some r => .ok r | none => .error .unrepresentable := by
  obtain ⟨id, i, s⟩ := n
  cases s <;> rfl

theorem toMIdL_facts {n : LN} {m : MId} {w : Bool} (h : toMIdL n = some (m, w)) :
    n.ref = LId.ref ⟨n.id, m⟩ ∧ cellsCh [n] none = [(n.id, innerCell ⟨n.id, m⟩ none)] ∧
    (NRef.asPtr .wild n.ref).isSome = w ∧ n.shape.kind ≠ .multi := by
  obtain ⟨id, i, s⟩ := n
  cases s with
  | child k =>
    simp only [toMIdL, Option.some.injEq, Prod.mk.injEq] at h
    obtain ⟨rfl, rfl⟩ := h
    exact ⟨rfl, rfl, rfl, by intro e; cases e⟩
  | wild =>
    simp only [toMIdL, Option.some.injEq, Prod.mk.injEq] at h
    obtain ⟨rfl, rfl⟩ := h
    exact ⟨rfl, rfl, rfl, by intro e; cases e⟩
  | _ => simp only [toMIdL] at h <;> cases h

theorem toMIdL_true {n : LN} {m : MId} (h : toMIdL n = some (m, true)) :
    ∃ id i, n = .mk id i .wild ∧ m = .wild i := by
  obtain ⟨id, i, s⟩ := n
  cases s with
  | wild =>
    simp only [toMIdL, Option.some.injEq, Prod.mk.injEq] at h
    exact ⟨id, i, rfl, h.1.symm⟩
  | child k => simp only [toMIdL, Option.some.injEq, Prod.mk.injEq] at h; exact absurd h.2 (by decide)
  | _ => simp only [toMIdL] at h <;> cases h

/-- `pushChildMultiIdentifier(node, appendNode)`, second branch: two single nodes make a new multi-name node -/
theorem pushChildMulti_new_tie (c : Peg.Ctx) (g : PS) (L : LSt) (X : List (Nat × Cell)) (tb te : Nat)
    (n1 n2 : LN) (m1 m2 : MId) (w1 w2 : Bool) (h1 : toMIdL n1 = some (m1, w1)) (h2 : toMIdL n2 = some (m2, w2))
    (hrep : Rep c g L ((cellsCh [n1] none ++ cellsCh [n2] none) ++ X)) :
    Sim c X tb te (pushChildMultiIdentifier n1.ref n2.ref g)
      (.ok (Peg.push (.chain [.multi (Peg.mkInfo c "" true) [m1, m2]
        (if w1 && w2 then some (Peg.mkInfo c "" true) else none)]) (eraseSt L tb te))) := by
  obtain ⟨hr1, hc1, hw1, hk1⟩ := toMIdL_facts h1
  obtain ⟨hr2, hc2, hw2, hk2⟩ := toMIdL_facts h2
  rw [hc1, hc2] at hrep
  let n0 := g.heap.length
  let inf : Info := ⟨"", "", true, c.acc⟩
  let l1 : LId := ⟨n1.id, m1⟩
  let l2 : LId := ⟨n2.id, m2⟩
  cases haw : (w1 && w2) with
  | false =>
    let N : LN := .mk n0 inf (.multi [l1, l2] none)
    have hrepA := hrep.alloc (nodeCell n0 inf (.multi [l1, l2] none) none)
    obtain ⟨g', he, hrep', her⟩ := push_tie c _ L X (.chain [N]) tb te
      (hrepA.held (Y := cellsItem (.chain [N]) ++ X)
        (by
          intro x hx
          simp only [N, cellsItem, cellsCh, cellsN, cellsS, innerCells, twinCells, headRefD, List.map_cons, List.map_nil,
            List.append_nil, List.mem_append, List.mem_cons, List.not_mem_nil, or_false] at hx ⊢
          grind)
        (by
          intro hnd
          simp only [N, cellsItem, cellsCh, cellsN, cellsS, innerCells, twinCells, headRefD, List.map_cons, List.map_nil,
            List.append_nil, ids_cons, List.nodup_cons,
            List.mem_cons, List.cons_append, List.nil_append] at hnd ⊢
          grind))
      (List.cons_ne_nil _ _)
    refine Sim.ok ⟨g', _, ?_, hrep', ?_⟩
    · rw [← he]
      obtain ⟨id1, i1, s1⟩ := n1
      obtain ⟨id2, i2, s2⟩ := n2
      have := pushChildMulti_new_plain g s1.kind s2.kind id1 id2 hk1 (by
        show ((NRef.asPtr .wild (LN.mk id1 i1 s1).ref).isSome && (NRef.asPtr .wild (LN.mk id2 i2 s2).ref).isSome) = false
        rw [hw1, hw2]; exact haw)
      show pushChildMultiIdentifier (some (s1.kind, id1)) (some (s2.kind, id2)) g = _
      rw [this]
      have hcell : multiCell0 g (some (s1.kind, id1)) (some (s2.kind, id2)) false = nodeCell n0 inf (.multi [l1, l2] none) none := by
        simp only [multiCell0, hrep.acc]
        have e1 : (some (s1.kind, id1) : NRef) = LId.ref l1 := hr1
        have e2 : (some (s2.kind, id2) : NRef) = LId.ref l2 := hr2
        rw [e1, e2]
        rfl
      rw [hcell]
      rfl
    · rw [her]
      rfl
  | true =>
    have hw : w1 = true ∧ w2 = true := by
      cases w1 <;> cases w2 <;> simp at haw ⊢
    obtain ⟨rfl, rfl⟩ := hw
    obtain ⟨id1, i1, rfl, rfl⟩ := toMIdL_true h1
    obtain ⟨id2, i2, rfl, rfl⟩ := toMIdL_true h2
    let N : LN := .mk n0 inf (.multi [l1, l2] (some (n0 + 1, inf)))
    have hrepA := hrep.alloc (nodeCell n0 inf (.multi [l1, l2] (some (n0 + 1, inf))) none)
    have hrepB := hrepA.alloc (plainCell (n0 + 1) inf none)
    have hlen : (g.heap ++ [nodeCell n0 inf (.multi [l1, l2] (some (n0 + 1, inf))) none]).length = n0 + 1 := by
      simp only [List.length_append, List.length_cons, List.length_nil]; rfl
    simp only [hlen] at hrepB
    obtain ⟨g', he, hrep', her⟩ := push_tie c _ L X (.chain [N]) tb te
      (hrepB.held (Y := cellsItem (.chain [N]) ++ X)
        (by
          intro x hx
          simp only [N, l1, l2, cellsItem, cellsCh, cellsN, cellsS, innerCells, twinCells, headRefD, List.map_cons, List.map_nil,
            List.append_nil, List.mem_append, List.mem_cons, List.not_mem_nil, or_false] at hx ⊢
          grind)
        (by
          intro hnd
          simp only [N, l1, l2, cellsItem, cellsCh, cellsN, cellsS, innerCells, twinCells, headRefD, List.map_cons, List.map_nil,
            List.append_nil, ids_cons, List.nodup_cons, ids_append, ids_nil, List.mem_append, List.not_mem_nil,
            List.mem_cons, List.cons_append, List.nil_append] at hnd ⊢
          grind))
      (List.cons_ne_nil _ _)
    refine Sim.ok ⟨g', _, ?_, hrep', ?_⟩
    · rw [← he]
      show pushChildMultiIdentifier (some (.wild, id1)) (some (.wild, id2)) g = _
      rw [pushChildMulti_new_wild]
      simp only [multiCell0, twinCell0, hrep.acc]
      rfl
    · rw [her]
      rfl


/-- the first branch of `pushChildMultiIdentifier`: the cell of the multi-name node after the append -/
def multiAppendCell (c1 : Cell) (r2 : NRef) (w : Bool) : Cell :=
  { c1 with
    identifiers := c1.identifiers ++ [r2]
    isAllWildcard := c1.isAllWildcard && w
    unionQualifier := if c1.isAllWildcard && w then
        { c1.unionQualifier with subscripts := c1.unionQualifier.subscripts ++ [GSub.wildcard none] }
      else {} }

theorem set_set_same (h : Heap) (i : Nat) (a b : Cell) : (h.set i a).set i b = h.set i b := by
  simp

theorem pushChildMulti_append_eq (g : PS) (id1 : Nat) (c1 : Cell) (hc1 : g.heap[id1]? = some c1) (r2 : NRef) :
    pushChildMultiIdentifier (some (.multi, id1)) r2 g =
      push (.node .multi id1)
        { g with heap := g.heap.set id1 (multiAppendCell c1 r2 (NRef.asPtr .wild r2).isSome) } := by
  have hm : NRef.asPtr .multi (some (Kind.multi, id1)) = some id1 := rfl
  have hA : (g.heap.set id1 { c1 with identifiers := c1.identifiers ++ [r2] })[id1]? =
      some { c1 with identifiers := c1.identifiers ++ [r2] } := get_set_self hc1 _
  simp only [pushChildMultiIdentifier, hm, PS.onHeap, rd_some hc1, wr_some hc1, bind_ok, rd_some hA, wr_some hA,
    set_set_same]
  generalize hw : (NRef.asPtr Kind.wild r2).isSome = w
  have hB : ∀ cB : Cell, (g.heap.set id1 cB)[id1]? = some cB := fun cB => get_set_self hc1 cB
  simp only [rd_some (hB _), bind_ok]
  cases hb : (c1.isAllWildcard && w) with
  | true =>
    simp only [if_true, rd_some (hB _), wr_some (hB _), bind_ok, set_set_same, multiAppendCell, hb]
    rfl
  | false =>
    simp only [Bool.false_eq_true, if_false, wr_some (hB _), bind_ok, set_set_same, multiAppendCell, hb]
    rfl


theorem innerCells_append (A B : List LId) (nx : NRef) : innerCells (A ++ B) nx = innerCells A nx ++ innerCells B nx :=
  List.map_append

theorem multiAppendCell_eq (id1 : Nat) (i1 : Info) (L1 : List LId) (tw : Option (Nat × Info)) (l2 : LId) (w2 : Bool) :
    multiAppendCell (nodeCell id1 i1 (.multi L1 tw) none) l2.ref w2 =
      nodeCell id1 i1 (.multi (L1 ++ [l2]) (if tw.isSome && w2 then tw else none)) none := by
  cases tw with
  | none => simp only [multiAppendCell, nodeCell, List.map_append, List.map_cons, List.map_nil]; rfl
  | some t =>
    obtain ⟨t, ti⟩ := t
    cases w2 with
    | false => simp only [multiAppendCell, nodeCell, List.map_append, List.map_cons, List.map_nil]; rfl
    | true =>
      simp only [multiAppendCell, nodeCell, List.map_append, List.map_cons, List.map_nil, uqOf,
        Option.isSome_some, Bool.and_self, if_true, List.length_append, List.length_cons, List.length_nil,
        List.replicate_succ']
      rfl

/-- `pushChildMultiIdentifier(node, appendNode)`, first branch: a further name is added to a multi-name node
    (which has no successor yet) -/
theorem pushChildMulti_append_tie (c : Peg.Ctx) (g : PS) (L : LSt) (X : List (Nat × Cell)) (tb te : Nat)
    (id1 : Nat) (i1 : Info) (L1 : List LId) (tw : Option (Nat × Info)) (n2 : LN) (m2 : MId) (w2 : Bool)
    (h2 : toMIdL n2 = some (m2, w2))
    (hrep : Rep c g L ((cellsCh [LN.mk id1 i1 (.multi L1 tw)] none ++ cellsCh [n2] none) ++ X)) :
    Sim c X tb te (pushChildMultiIdentifier (some (.multi, id1)) n2.ref g)
      (.ok (Peg.push (.chain [.multi i1 (L1.map (·.m) ++ [m2])
        (if (tw.map (·.2)).isSome && w2 then tw.map (·.2) else none)]) (eraseSt L tb te))) := by
  obtain ⟨hr2, hc2, hw2, hk2⟩ := toMIdL_facts h2
  let l2 : LId := ⟨n2.id, m2⟩
  let tw' := if tw.isSome && w2 then tw else none
  let N' : LN := .mk id1 i1 (.multi (L1 ++ [l2]) tw')
  obtain ⟨hsatY, hndY⟩ := hrep.held_sat
  have hhead : g.heap[id1]? = some (nodeCell id1 i1 (.multi L1 tw) none) := by
    simp only [cellsCh, cellsN, headRefD, List.append_nil] at hsatY
    exact hsatY.left.head
  let h' := g.heap.set id1 (nodeCell id1 i1 (.multi (L1 ++ [l2]) tw') none)
  have hf : Frame [id1] g.heap h' := Frame.set _ _ _
  have hT'sub : ∀ x, x ∈ twinCells tw' none → x ∈ twinCells tw none := by
    intro x hx
    show x ∈ twinCells tw none
    have : tw' = tw ∨ tw' = none := by
      show (if tw.isSome && w2 then tw else none) = tw ∨ (if tw.isSome && w2 then tw else none) = none
      split
      · exact Or.inl rfl
      · exact Or.inr rfl
    rcases this with h | h
    · rw [h] at hx; exact hx
    · rw [h] at hx; cases hx
  have hT'nd : (ids (twinCells tw none)).Nodup → (ids (twinCells tw' none)).Nodup := by
    intro h
    have : tw' = tw ∨ tw' = none := by
      show (if tw.isSome && w2 then tw else none) = tw ∨ (if tw.isSome && w2 then tw else none) = none
      split
      · exact Or.inl rfl
      · exact Or.inr rfl
    rcases this with h' | h'
    · rw [h']; exact h
    · rw [h']; exact List.nodup_nil
  have hT'ids : ∀ j, j ∈ ids (twinCells tw' none) → j ∈ ids (twinCells tw none) := by
    intro j hj
    rcases List.mem_map.mp hj with ⟨x, hx, rfl⟩
    exact mem_ids_of_mem (hT'sub x hx)
  have hcN' : cellsCh [N'] none = (id1, nodeCell id1 i1 (.multi (L1 ++ [l2]) tw') none) ::
      ((innerCells L1 none ++ [(l2.id, innerCell l2 none)]) ++ twinCells tw' none) := by
    simp only [N', cellsCh, cellsN, cellsS, headRefD, List.append_nil, innerCells_append]
    rfl
  have hcN : cellsCh [LN.mk id1 i1 (.multi L1 tw)] none ++ cellsCh [n2] none =
      (id1, nodeCell id1 i1 (.multi L1 tw) none) :: ((innerCells L1 none ++ twinCells tw none) ++ [(l2.id, innerCell l2 none)]) := by
    rw [hc2]
    simp only [cellsCh, cellsN, cellsS, headRefD, List.append_nil, List.cons_append]
    rfl
  rw [hcN] at hrep hsatY hndY
  generalize twinCells tw' none = T' at hT'sub hT'nd hT'ids hcN'
  generalize twinCells tw none = T at hT'sub hT'nd hT'ids hrep hsatY hndY
  generalize innerCells L1 none = I at hcN' hrep hsatY hndY
  generalize (l2.id, innerCell l2 none) = e2 at hcN' hrep hsatY hndY
  have hrep1 : Rep c { g with heap := h' } L (cellsCh [N'] none ++ X) := by
    rw [hcN']
    refine hrep.update_held _ h' ?_ ?_ ?_ ?_
    · refine hf.mono ?_
      intro j hj
      rw [List.mem_singleton.mp hj, ids_cons]
      exact List.mem_cons_self ..
    · refine Sat.cons (get_set_self hhead _) ?_
      refine Sat.frame (S := [id1]) ?_ hf ?_
      · intro x hx
        refine hsatY x ?_
        simp only [List.mem_append, List.mem_cons, List.not_mem_nil, or_false] at hx ⊢
        grind
      · intro x hx hm
        have hx1 := mem_ids_of_mem hx
        rw [List.mem_singleton.mp hm] at hx1
        simp only [ids_append, ids_cons, ids_nil, List.nodup_cons, List.mem_append, List.mem_cons,
          List.not_mem_nil, or_false] at hndY hx1
        grind
    · intro j hj
      simp only [ids_append, ids_cons, ids_nil, List.mem_append, List.mem_cons, List.not_mem_nil, or_false] at hj ⊢
      grind
    · simp only [ids_append, ids_cons, ids_nil, List.nodup_cons, List.nodup_append, List.mem_append, List.mem_cons,
        List.not_mem_nil, or_false, List.nodup_nil] at hndY ⊢
      grind
  obtain ⟨g', he, hrep', her⟩ := push_tie c _ L X (.chain [N']) tb te hrep1 (List.cons_ne_nil _ _)
  refine Sim.ok ⟨g', _, ?_, hrep', ?_⟩
  · rw [← he, pushChildMulti_append_eq g id1 _ hhead, hw2, hr2, multiAppendCell_eq]
    rfl
  · rw [her]
    simp only [N', tw', eraseItem, eraseCh, eraseN, eraseS, List.map_append, List.map_cons, List.map_nil]
    cases tw <;> cases w2 <;> rfl


theorem pushChildMulti_model_multi (c : Peg.Ctx) (id1 : Nat) (i1 : Info) (L1 : List LId) (tw : Option (Nat × Info))
    (n2 : LN) (st : Peg.St) :
    Peg.pushChildMulti c (eraseCh [LN.mk id1 i1 (.multi L1 tw)]) (eraseCh [n2]) st =
      (match toMIdL n2 with
        | some (m2, w2) => .ok (Peg.push (.chain [.multi i1 (L1.map (·.m) ++ [m2])
            (if (tw.map (·.2)).isSome && w2 then tw.map (·.2) else none)]) st)
        | none => .error .unrepresentable) := by
  simp only [eraseCh, eraseN, eraseS, Peg.pushChildMulti]
  have := toMId_single n2
  simp only [eraseCh] at this
  rw [this]
  cases toMIdL n2 with
  | none => rfl
  | some r => obtain ⟨m2, w2⟩ := r; rfl

theorem pushChildMulti_model_other (c : Peg.Ctx) (n1 n2 : LN) (hk : n1.shape.kind ≠ .multi) (st : Peg.St) :
    Peg.pushChildMulti c (eraseCh [n1]) (eraseCh [n2]) st =
      (match toMIdL n1, toMIdL n2 with
        | some (m1, w1), some (m2, w2) => .ok (Peg.push (.chain [.multi (Peg.mkInfo c "" true) [m1, m2]
            (if w1 && w2 then some (Peg.mkInfo c "" true) else none)]) st)
        | _, _ => .error .unrepresentable) := by
  obtain ⟨id1, i1, s1⟩ := n1
  obtain ⟨id2, i2, s2⟩ := n2
  cases s1 with
  | multi L t => exact absurd rfl hk
  | child k => cases s2 <;> rfl
  | wild => cases s2 <;> rfl
  | root => cases s2 <;> rfl
  | cur => cases s2 <;> rfl
  | desc a b => cases s2 <;> rfl
  | union ss => cases s2 <;> rfl
  | filter q => cases s2 <;> rfl
  | ffn name => cases s2 <;> rfl
  | afn name p => cases s2 <;> rfl

/-- `pushChildMultiIdentifier(node, appendNode)` for two held single nodes (what `Action11` passes) -/
theorem pushChildMultiIdentifier_tie (c : Peg.Ctx) (g : PS) (L : LSt) (X : List (Nat × Cell)) (tb te : Nat)
    (n1 n2 : LN) (hrep : Rep c g L ((cellsCh [n1] none ++ cellsCh [n2] none) ++ X)) :
    Sim c X tb te (pushChildMultiIdentifier n1.ref n2.ref g)
      (Peg.pushChildMulti c (eraseCh [n1]) (eraseCh [n2]) (eraseSt L tb te)) := by
  by_cases hk : n1.shape.kind = .multi
  · obtain ⟨id1, i1, s1⟩ := n1
    cases s1 with
    | multi L1 tw =>
      rw [pushChildMulti_model_multi]
      cases h2 : toMIdL n2 with
      | none => exact Or.inl rfl
      | some r =>
        obtain ⟨m2, w2⟩ := r
        exact pushChildMulti_append_tie c g L X tb te id1 i1 L1 tw n2 m2 w2 h2 hrep
    | _ => exact absurd hk (by intro e; cases e)
  · rw [pushChildMulti_model_other c n1 n2 hk]
    cases h1 : toMIdL n1 with
    | none => exact Or.inl rfl
    | some r1 =>
      obtain ⟨m1, w1⟩ := r1
      cases h2 : toMIdL n2 with
      | none => exact Or.inl rfl
      | some r2 =>
        obtain ⟨m2, w2⟩ := r2
        exact pushChildMulti_new_tie c g L X tb te n1 n2 m1 m2 w1 w2 h1 h2 hrep

end ParserLayout
end JPV
