/-
Lemmas for C11 (index and slice arithmetic).

Three layers are related here:
  Gen.SliceGo.*      the Go methods, regenerated from /repo on every run (64-bit wrap-around, panics, fuel)
  Impl.subIndexes    the hand-written model the evaluator (Impl.retrieve) uses
  pySlice / pyIndex  Python's semantics (Slice/PySlice.lean)

  gen_eq_impl :  Gen.getIndexes sub n = .ok (Impl.subIndexes sub n)        (bounds: int64 fields, n < 2^62)
  impl_eq_py  :  Impl.subIndexes (Build.subI (.slice s e t)) n = pySlice s e t n   (no bounds needed)

Everything that mentions `Gen.SliceGo` is re-proved against the current source on every run.
-/
import JPV.Gen.SliceGo
import JPV.Build
import JPV.Impl.Basic
import JPV.Slice.PySlice

namespace JPV
namespace SliceLemmas
open JPV.Gen.SliceGo

/-! ### the bounds under which C11 is stated -/

/-- a value a Go `int` can hold -/
def I64 (x : Int) : Prop := -9223372036854775808 ≤ x ∧ x < 9223372036854775808

instance (x : Int) : Decidable (I64 x) := by unfold I64; infer_instance

/-- an optional written bound: when present it fits a Go `int` -/
def I64opt : Option Int → Prop
  | none => True
  | some v => I64 v

instance (o : Option Int) : Decidable (I64opt o) := by
  cases o <;> unfold I64opt <;> infer_instance

/-- every number stored in the subscript object fits a Go `int` -/
def SubInRange : SubI → Prop
  | .idx k => I64 k
  | .slicePos s e t => I64 s.number ∧ I64 e.number ∧ I64 t.number
  | .sliceNeg s e t => I64 s.number ∧ I64 e.number ∧ I64 t.number
  | .wild => True

/-- 2^62: the bound on array lengths (a Go slice of interfaces cannot be longer than 2^59 anyway) -/
abbrev maxLen : Nat := 4611686018427387904

/-! ### wrap-around disappears in range -/

theorem wrap64_id {x : Int} (h1 : -9223372036854775808 ≤ x) (h2 : x < 9223372036854775808) :
    wrap64 x = x := by
  unfold wrap64; omega

/-! ### normalisation functions -/

theorem posNorm_eq (s : SlicePositiveStep) (v n : Int) (hv : I64 v) (hn0 : 0 ≤ n)
    (hn : n < 4611686018427387904) :
    SlicePositiveStep.getNormalizedValue s v n = Impl.normPos v n := by
  unfold I64 at hv
  unfold SlicePositiveStep.getNormalizedValue Impl.normPos wrap64
  simp only []
  repeat' split
  all_goals omega

theorem negNorm_eq (s : SliceNegativeStep) (v n : Int) (hv : I64 v) (hn0 : 0 ≤ n)
    (hn : n < 4611686018427387904) :
    SliceNegativeStep.getNormalizedValue s v n = Impl.normNeg v n := by
  unfold I64 at hv
  unfold SliceNegativeStep.getNormalizedValue Impl.normNeg wrap64
  simp only []
  repeat' split
  all_goals omega

theorem normPos_range (v n : Int) (hn : 0 ≤ n) : 0 ≤ Impl.normPos v n ∧ Impl.normPos v n ≤ n := by
  unfold Impl.normPos
  simp only []
  repeat' split
  all_goals omega

theorem normNeg_range (v n : Int) (hn : 0 ≤ n) : -1 ≤ Impl.normNeg v n ∧ Impl.normNeg v n ≤ n - 1 := by
  unfold Impl.normNeg
  simp only []
  repeat' split
  all_goals omega

theorem normPos_eq_pyAdjust (v n : Int) (hn : 0 ≤ n) : Impl.normPos v n = pyAdjust n v false := by
  unfold Impl.normPos pyAdjust
  simp only [Bool.false_eq_true, if_false]
  repeat' split
  all_goals omega

theorem normNeg_eq_pyAdjust (v n : Int) (hn : 0 ≤ n) : Impl.normNeg v n = pyAdjust n v true := by
  unfold Impl.normNeg pyAdjust
  simp only [if_true]
  repeat' split
  all_goals omega

/-! ### the three loops of the regenerated code -/

theorem setIdx_append (pre : List Int) (r : Int) (rest : List Int) (v : Int) :
    setIdx (pre ++ r :: rest) (pre.length : Int) v = .ok (pre ++ v :: rest) := by
  unfold setIdx
  have h : (0:Int) ≤ (pre.length : Int) ∧ (pre.length : Int) < ((pre ++ r :: rest).length : Int) := by
    simp only [List.length_append, List.length_cons]; omega
  rw [if_pos h]
  simp

theorem wrap64_succ_length (pre : List Int) (i : Int) (h : pre.length < 4611686018427387904) :
    wrap64 ((pre.length : Int) + (1:Int)) = ((pre ++ [i]).length : Int) := by
  have : ((pre ++ [i]).length : Int) = (pre.length : Int) + 1 := by simp
  rw [this, wrap64_id] <;> omega

/-- `for i := loopStart; i < loopEnd; i += step { result[index] = i; index++ }`:
    with `pre` already written and enough room and fuel, the loop writes exactly `loopUp` after `pre` -/
theorem posLoop (b step : Int) (hstep : 0 < step) (hstep2 : step ≤ 4611686018427387904)
    (hb : b ≤ 4611686018427387904) :
    ∀ (fuel : Nat) (i : Int) (pre rest : List Int),
      0 ≤ i → (b - i).toNat ≤ rest.length → (b - i).toNat < fuel →
      pre.length + rest.length < 4611686018427387904 →
      ∃ rest', SlicePositiveStep.getIndexes.loop1 b step fuel i (pre ++ rest) (pre.length : Int)
        = .ok (pre ++ Impl.loopUp fuel i b step ++ rest',
               ((pre ++ Impl.loopUp fuel i b step).length : Int)) := by
  intro fuel
  induction fuel with
  | zero => intro i pre rest _ _ h; omega
  | succ f ih =>
    intro i pre rest hi hr hf hlen
    rw [SlicePositiveStep.getIndexes.loop1, Impl.loopUp]
    by_cases hc : i < b
    · rw [if_pos hc, if_pos hc]
      match rest, hr, hlen with
      | [], hr, _ => simp at hr; omega
      | r :: rest', hr, hlen =>
        simp only [List.length_cons] at hr hlen
        have h1 := wrap64_succ_length pre i (by omega)
        have h2 : wrap64 (i + step) = i + step := by
          rw [wrap64_id] <;> omega
        simp only [setIdx_append, bind, Except.bind, h1, h2]
        have h3 : pre ++ i :: rest' = (pre ++ [i]) ++ rest' := by simp
        rw [h3]
        obtain ⟨r', hr'⟩ := ih (i + step) (pre ++ [i]) rest' (by omega) (by omega) (by omega)
          (by simp; omega)
        rw [hr']
        exact ⟨r', by simp⟩
    · rw [if_neg hc, if_neg hc]
      exact ⟨rest, by simp [pure, Except.pure]⟩

/-- `for i := loopStart; i > loopEnd; i += s.step.number { result[index] = i; index++ }` -/
theorem negLoop (b : Int) (s : SliceNegativeStep) (hstep : s.step.number < 0)
    (hstep2 : -9223372036854775808 ≤ s.step.number) (hb : -1 ≤ b) :
    ∀ (fuel : Nat) (i : Int) (pre rest : List Int),
      i < 4611686018427387904 → (i - b).toNat ≤ rest.length → (i - b).toNat < fuel →
      pre.length + rest.length < 4611686018427387904 →
      ∃ rest', SliceNegativeStep.getIndexes.loop1 b s fuel i (pre ++ rest) (pre.length : Int)
        = .ok (pre ++ Impl.loopDown fuel i b s.step.number ++ rest',
               ((pre ++ Impl.loopDown fuel i b s.step.number).length : Int)) := by
  intro fuel
  induction fuel with
  | zero => intro i pre rest _ _ h; omega
  | succ f ih =>
    intro i pre rest hi hr hf hlen
    rw [SliceNegativeStep.getIndexes.loop1, Impl.loopDown]
    by_cases hc : i > b
    · rw [if_pos hc, if_pos hc]
      match rest, hr, hlen with
      | [], hr, _ => simp at hr; omega
      | r :: rest', hr, hlen =>
        simp only [List.length_cons] at hr hlen
        have h1 := wrap64_succ_length pre i (by omega)
        have h2 : wrap64 (i + s.step.number) = i + s.step.number := by
          rw [wrap64_id] <;> omega
        simp only [setIdx_append, bind, Except.bind, h1, h2]
        have h3 : pre ++ i :: rest' = (pre ++ [i]) ++ rest' := by simp
        rw [h3]
        obtain ⟨r', hr'⟩ := ih (i + s.step.number) (pre ++ [i]) rest' (by omega) (by omega) (by omega)
          (by simp; omega)
        rw [hr']
        exact ⟨r', by simp⟩
    · rw [if_neg hc, if_neg hc]
      exact ⟨rest, by simp [pure, Except.pure]⟩

/-- `for index := 0; index < srcLength; index++ { result[index] = index }` -/
theorem wildLoop (n : Int) :
    ∀ (fuel : Nat) (pre rest : List Int),
      n = ((pre.length + rest.length : Nat) : Int) → rest.length < fuel →
      pre.length + rest.length < 4611686018427387904 →
      Wildcard.getIndexes.loop1 n fuel (pre.length : Int) (pre ++ rest)
        = .ok (pre ++ (List.range' pre.length rest.length).map (fun (k : Nat) => (k : Int))) := by
  intro fuel
  induction fuel with
  | zero => intro pre rest _ h; omega
  | succ f ih =>
    intro pre rest hn hf hlen
    rw [Wildcard.getIndexes.loop1]
    match rest, hn, hf, hlen with
    | [], hn, _, _ =>
      have hc : ¬ ((pre.length : Int) < n) := by simp at hn; omega
      rw [if_neg hc]
      simp [pure, Except.pure]
    | r :: rest', hn, hf, hlen =>
      simp only [List.length_cons] at hn hf hlen
      have hc : (pre.length : Int) < n := by omega
      rw [if_pos hc]
      have h1 := wrap64_succ_length pre (pre.length : Int) (by omega)
      simp only [setIdx_append, bind, Except.bind, h1]
      have h3 : pre ++ (pre.length : Int) :: rest' = (pre ++ [(pre.length : Int)]) ++ rest' := by simp
      rw [h3, ih (pre ++ [(pre.length : Int)]) rest' (by simp; omega) (by omega) (by simp; omega)]
      simp [List.range'_succ]

/-! ### facts about the hand-written loops -/

theorem mem_loopUp (b step : Int) (hstep : 0 < step) :
    ∀ (f : Nat) (i x : Int), x ∈ Impl.loopUp f i b step → i ≤ x ∧ x < b := by
  intro f
  induction f with
  | zero => intro i x h; simp [Impl.loopUp] at h
  | succ f ih =>
    intro i x h
    rw [Impl.loopUp] at h
    by_cases hc : i < b
    · rw [if_pos hc] at h
      rcases List.mem_cons.mp h with h | h
      · omega
      · have := ih _ _ h; omega
    · rw [if_neg hc] at h; simp at h

theorem mem_loopDown (b step : Int) (hstep : step < 0) :
    ∀ (f : Nat) (i x : Int), x ∈ Impl.loopDown f i b step → b < x ∧ x ≤ i := by
  intro f
  induction f with
  | zero => intro i x h; simp [Impl.loopDown] at h
  | succ f ih =>
    intro i x h
    rw [Impl.loopDown] at h
    by_cases hc : i > b
    · rw [if_pos hc] at h
      rcases List.mem_cons.mp h with h | h
      · omega
      · have := ih _ _ h; omega
    · rw [if_neg hc] at h; simp at h

/-- number of elements of `range(i, b, step)` for `step > 0`, as CPython computes it -/
def cntUp (i b step : Int) : Nat := (if i < b then (b - i - 1) / step + 1 else 0).toNat

/-- number of elements of `range(i, b, step)` for `step < 0` -/
def cntDown (i b step : Int) : Nat := (if b < i then (i - b - 1) / (-step) + 1 else 0).toNat

theorem cntUp_step (i b step : Int) (hstep : 0 < step) (hc : i < b) :
    cntUp i b step = cntUp (i + step) b step + 1 := by
  unfold cntUp
  rw [if_pos hc]
  have hne : step ≠ 0 := by omega
  by_cases h2 : i + step < b
  · rw [if_pos h2]
    have e : b - i - 1 = (b - (i + step) - 1) + 1 * step := by omega
    rw [e, Int.add_mul_ediv_right _ _ hne]
    have : 0 ≤ (b - (i + step) - 1) / step := Int.ediv_nonneg (by omega) (by omega)
    omega
  · rw [if_neg h2]
    have : (b - i - 1) / step = 0 := Int.ediv_eq_zero_of_lt (by omega) (by omega)
    rw [this]; rfl

theorem cntDown_step (i b step : Int) (hstep : step < 0) (hc : b < i) :
    cntDown i b step = cntDown (i + step) b step + 1 := by
  unfold cntDown
  rw [if_pos hc]
  have hne : -step ≠ 0 := by omega
  by_cases h2 : b < i + step
  · rw [if_pos h2]
    have e : i - b - 1 = (i + step - b - 1) + 1 * (-step) := by omega
    rw [e, Int.add_mul_ediv_right _ _ hne]
    have : 0 ≤ (i + step - b - 1) / (-step) := Int.ediv_nonneg (by omega) (by omega)
    omega
  · rw [if_neg h2]
    have : (i - b - 1) / (-step) = 0 := Int.ediv_eq_zero_of_lt (by omega) (by omega)
    rw [this]; rfl

theorem range_map_shift (c : Nat) (i step : Int) :
    (List.range (c + 1)).map (fun (k : Nat) => i + (k : Int) * step)
      = i :: (List.range c).map (fun (k : Nat) => (i + step) + (k : Int) * step) := by
  rw [List.range_succ_eq_map, List.map_cons, List.map_map]
  congr 1
  · simp
  · apply List.map_congr_left
    intro k _
    simp only [Function.comp, Nat.succ_eq_add_one, Int.natCast_add, Int.natCast_one, Int.add_mul, Int.one_mul]
    omega

/-- the closed form of the upward loop -/
theorem loopUp_eq_range (b step : Int) (hstep : 0 < step) :
    ∀ (f : Nat) (i : Int), (b - i).toNat ≤ f →
      Impl.loopUp f i b step = (List.range (cntUp i b step)).map (fun (k : Nat) => i + (k : Int) * step) := by
  intro f
  induction f with
  | zero =>
    intro i h
    have : ¬ i < b := by omega
    simp [Impl.loopUp, cntUp, this]
  | succ f ih =>
    intro i h
    rw [Impl.loopUp]
    by_cases hc : i < b
    · rw [if_pos hc, cntUp_step i b step hstep hc, range_map_shift, ih (i + step) (by omega)]
    · rw [if_neg hc]; simp [cntUp, hc]

/-- the closed form of the downward loop -/
theorem loopDown_eq_range (b step : Int) (hstep : step < 0) :
    ∀ (f : Nat) (i : Int), (i - b).toNat ≤ f →
      Impl.loopDown f i b step = (List.range (cntDown i b step)).map (fun (k : Nat) => i + (k : Int) * step) := by
  intro f
  induction f with
  | zero =>
    intro i h
    have : ¬ b < i := by omega
    simp [Impl.loopDown, cntDown, this]
  | succ f ih =>
    intro i h
    rw [Impl.loopDown]
    by_cases hc : i > b
    · rw [if_pos hc, cntDown_step i b step hstep hc, range_map_shift, ih (i + step) (by omega)]
    · rw [if_neg hc]
      have : ¬ b < i := hc
      simp [cntDown, this]

/-- a step larger than the array selects at most the first element, whatever its size: the clamp is harmless -/
theorem loopUp_big_step (f : Nat) (a b s1 s2 : Int) (h1 : b ≤ a + s1) (h2 : b ≤ a + s2) :
    Impl.loopUp (f + 2) a b s1 = Impl.loopUp (f + 2) a b s2 := by
  rw [Impl.loopUp, Impl.loopUp, Impl.loopUp, Impl.loopUp]
  have n1 : ¬ a + s1 < b := by omega
  have n2 : ¬ a + s2 < b := by omega
  rw [if_neg n1, if_neg n2]

/-- elements that are not negative survive the round trip through `Nat` -/
theorem map_toNat_cast (l : List Int) (h : ∀ x ∈ l, 0 ≤ x) :
    (l.map Int.toNat).map (fun (i : Nat) => (i : Int)) = l := by
  rw [List.map_map]
  conv => rhs; rw [← List.map_id l]
  apply List.map_congr_left
  intro x hx
  have := h x hx
  simp only [Function.comp, id]
  omega

/-! ### regenerated code = hand-written model -/

theorem mkSlice_nat (n : Nat) : mkSlice (n : Int) = .ok (List.replicate n 0) := by
  unfold mkSlice
  have : ¬ ((n : Int) < 0) := by omega
  rw [if_neg this]; simp

theorem takeChecked_prefix (l rest : List Int) :
    takeChecked (l ++ rest) (l.length : Int) = .ok l := by
  unfold takeChecked
  have h : (0:Int) ≤ (l.length : Int) ∧ (l.length : Int) ≤ ((l ++ rest).length : Int) := by
    simp only [List.length_append]; omega
  rw [if_pos h]
  simp

theorem gen_slicePos (s e t : Bound) (n : Nat) (hs : I64 s.number) (he : I64 e.number)
    (hn : n < maxLen) :
    SlicePositiveStep.getIndexes ⟨s, e, t⟩ (n + 2) (n : Int)
      = .ok (Impl.subIndexes (.slicePos s e t) n) := by
  have hn0 : (0:Int) ≤ (n : Int) := by omega
  have hn' : (n : Int) < 4611686018427387904 := by unfold maxLen at hn; omega
  have hI0 : I64 0 := by unfold I64; omega
  have hIn : I64 (n : Int) := by unfold I64; omega
  -- the two loop bounds
  have ha : SlicePositiveStep.getLoopStart ⟨s, e, t⟩ (n : Int)
      = Impl.normPos (if s.omitted then 0 else s.number) n := by
    unfold SlicePositiveStep.getLoopStart
    simp only []
    by_cases ho : s.omitted = true
    · simp only [if_pos ho]; exact posNorm_eq _ _ _ hI0 hn0 hn'
    · simp only [if_neg ho]; exact posNorm_eq _ _ _ hs hn0 hn'
  have hb : SlicePositiveStep.getLoopEnd ⟨s, e, t⟩ (n : Int)
      = Impl.normPos (if e.omitted then n else e.number) n := by
    unfold SlicePositiveStep.getLoopEnd
    simp only []
    by_cases ho : e.omitted = true
    · simp only [if_pos ho]; exact posNorm_eq _ _ _ hIn hn0 hn'
    · simp only [if_neg ho]; exact posNorm_eq _ _ _ he hn0 hn'
  unfold SlicePositiveStep.getIndexes Impl.subIndexes
  simp only [ha, hb, mkSlice_nat, bind, Except.bind]
  generalize hA : Impl.normPos (if s.omitted = true then 0 else s.number) (n : Int) = a
  generalize hB : Impl.normPos (if e.omitted = true then (n : Int) else e.number) (n : Int) = b
  have hra := normPos_range (if s.omitted = true then 0 else s.number) n hn0
  have hrb := normPos_range (if e.omitted = true then (n : Int) else e.number) n hn0
  rw [hA] at hra; rw [hB] at hrb
  generalize hS : (if t.number > (n : Int) then (n : Int) else t.number) = step
  have hstep : step ≤ (n : Int) := by rw [← hS]; split <;> omega
  by_cases hp : step > 0
  · rw [if_pos hp, if_pos hp]
    obtain ⟨r', hr'⟩ := posLoop b step hp (by omega) (by omega) (n + 2) a [] (List.replicate n 0)
      (by omega) (by simp; omega) (by omega) (by simp; unfold maxLen at hn; omega)
    simp only [List.nil_append, List.length_nil, Int.natCast_zero] at hr'
    simp only [hr', pure, Except.pure]
    rw [loopUp_eq_range b step hp (n + 1) a (by omega), ← loopUp_eq_range b step hp (n + 2) a (by omega)]
    exact takeChecked_prefix _ _
  · rw [if_neg hp, if_neg hp]
    simp only [pure, Except.pure]
    exact takeChecked_prefix [] _

theorem gen_sliceNeg (s e t : Bound) (n : Nat) (hs : I64 s.number) (he : I64 e.number)
    (ht : I64 t.number) (hn : n < maxLen) :
    SliceNegativeStep.getIndexes ⟨s, e, t⟩ (n + 2) (n : Int)
      = .ok (Impl.subIndexes (.sliceNeg s e t) n) := by
  have hn0 : (0:Int) ≤ (n : Int) := by omega
  have hn' : (n : Int) < 4611686018427387904 := by unfold maxLen at hn; omega
  have hw1 : wrap64 ((n : Int) - (1 : Int)) = (n : Int) - 1 := by rw [wrap64_id] <;> omega
  have hw2 : wrap64 (wrap64 (-(n : Int)) - (1 : Int)) = -(n : Int) - 1 := by
    rw [wrap64_id (x := -(n : Int)), wrap64_id] <;> omega
  have hI1 : I64 ((n : Int) - 1) := by unfold I64; omega
  have hI2 : I64 (-(n : Int) - 1) := by unfold I64; omega
  have ha : SliceNegativeStep.getLoopStart ⟨s, e, t⟩ (n : Int)
      = Impl.normNeg (if s.omitted then (n : Int) - 1 else s.number) n := by
    unfold SliceNegativeStep.getLoopStart
    simp only [hw1]
    by_cases ho : s.omitted = true
    · simp only [if_pos ho]; exact negNorm_eq _ _ _ hI1 hn0 hn'
    · simp only [if_neg ho]; exact negNorm_eq _ _ _ hs hn0 hn'
  have hb : SliceNegativeStep.getLoopEnd ⟨s, e, t⟩ (n : Int)
      = Impl.normNeg (if e.omitted then -(n : Int) - 1 else e.number) n := by
    unfold SliceNegativeStep.getLoopEnd
    simp only [hw2]
    by_cases ho : e.omitted = true
    · simp only [if_pos ho]; exact negNorm_eq _ _ _ hI2 hn0 hn'
    · simp only [if_neg ho]; exact negNorm_eq _ _ _ he hn0 hn'
  unfold SliceNegativeStep.getIndexes Impl.subIndexes
  simp only [ha, hb, mkSlice_nat, bind, Except.bind]
  generalize hA : Impl.normNeg (if s.omitted = true then (n : Int) - 1 else s.number) (n : Int) = a
  generalize hB : Impl.normNeg (if e.omitted = true then -(n : Int) - 1 else e.number) (n : Int) = b
  have hra := normNeg_range (if s.omitted = true then (n : Int) - 1 else s.number) n hn0
  have hrb := normNeg_range (if e.omitted = true then -(n : Int) - 1 else e.number) n hn0
  rw [hA] at hra; rw [hB] at hrb
  by_cases hp : t.number < 0
  · rw [if_pos hp, if_pos hp]
    obtain ⟨r', hr'⟩ := negLoop b ⟨s, e, t⟩ hp ht.1 (by omega) (n + 2) a [] (List.replicate n 0)
      (by omega) (by simp; omega) (by omega) (by simp; unfold maxLen at hn; omega)
    simp only [List.nil_append, List.length_nil, Int.natCast_zero] at hr'
    simp only [hr', pure, Except.pure]
    rw [loopDown_eq_range b t.number hp (n + 1) a (by omega),
      ← loopDown_eq_range b t.number hp (n + 2) a (by omega)]
    exact takeChecked_prefix _ _
  · rw [if_neg hp, if_neg hp]
    simp only [pure, Except.pure]
    exact takeChecked_prefix [] _

theorem gen_wild (n : Nat) (hn : n < maxLen) :
    Wildcard.getIndexes (n + 2) (n : Int) = .ok (Impl.subIndexes .wild n) := by
  unfold Wildcard.getIndexes Impl.subIndexes
  simp only [mkSlice_nat, bind, Except.bind]
  have h := wildLoop (n : Int) (n + 2) [] (List.replicate n 0) (by simp) (by simp)
    (by simp; unfold maxLen at hn; omega)
  simp only [List.nil_append, List.length_nil, Int.natCast_zero, List.length_replicate] at h
  simp only [h, List.range_eq_range']

theorem gen_idx (k : Int) (n : Nat) (hk : I64 k) (hn : n < maxLen) :
    Index.getIndexes ⟨k, false⟩ (n : Int) = Impl.subIndexes (.idx k) n := by
  unfold I64 at hk
  unfold maxLen at hn
  unfold Index.getIndexes Impl.subIndexes
  simp only []
  by_cases hneg : k < 0
  · have hw : wrap64 (k + (n : Int)) = k + n := by rw [wrap64_id] <;> omega
    simp only [if_pos hneg, hw, Bool.or_eq_true, decide_eq_true_eq]
  · simp only [if_neg hneg, Bool.or_eq_true, decide_eq_true_eq]

/-- **regenerated code = hand-written model**, with no panic and within the fuel -/
theorem gen_eq_impl (sub : SubI) (n : Nat) (hsub : SubInRange sub) (hn : n < maxLen) :
    Gen.SliceGo.getIndexes sub n = .ok (Impl.subIndexes sub n) := by
  cases sub with
  | idx k => simp only [Gen.SliceGo.getIndexes, pure, Except.pure, gen_idx k n hsub hn]
  | slicePos s e t => exact gen_slicePos s e t n hsub.1 hsub.2.1 hn
  | sliceNeg s e t => exact gen_sliceNeg s e t n hsub.1 hsub.2.1 hsub.2.2 hn
  | wild => exact gen_wild n hn

/-! ### hand-written model = Python -/

theorem impl_mem_range (sub : SubI) (n : Nat) (x : Int) (h : x ∈ Impl.subIndexes sub n) :
    0 ≤ x ∧ x < n := by
  have hn0 : (0:Int) ≤ (n : Int) := by omega
  cases sub with
  | idx k =>
    simp only [Impl.subIndexes] at h
    generalize (if k < 0 then k + (n : Int) else k) = i at h
    by_cases hc : (decide (i < 0) || decide (i ≥ (n : Int))) = true
    · rw [if_pos hc] at h; simp at h
    · rw [if_neg hc] at h
      simp only [Bool.or_eq_true, decide_eq_true_eq, not_or] at hc
      simp only [List.mem_singleton] at h
      omega
  | wild =>
    simp only [Impl.subIndexes, List.mem_map, List.mem_range] at h
    obtain ⟨k, hk, rfl⟩ := h
    omega
  | slicePos s e t =>
    simp only [Impl.subIndexes] at h
    generalize (if t.number > (n : Int) then (n : Int) else t.number) = step at h
    by_cases hp : step > 0
    · rw [if_pos hp] at h
      have := mem_loopUp _ _ hp _ _ _ h
      have hra := normPos_range (if s.omitted = true then 0 else s.number) n hn0
      have hrb := normPos_range (if e.omitted = true then (n : Int) else e.number) n hn0
      omega
    · rw [if_neg hp] at h; simp at h
  | sliceNeg s e t =>
    simp only [Impl.subIndexes] at h
    by_cases hp : t.number < 0
    · rw [if_pos hp] at h
      have := mem_loopDown _ _ hp _ _ _ h
      have hra := normNeg_range (if s.omitted = true then (n : Int) - 1 else s.number) n hn0
      have hrb := normNeg_range (if e.omitted = true then -(n : Int) - 1 else e.number) n hn0
      omega
    · rw [if_neg hp] at h; simp at h

/-- Python's start index after adjustment (`neg`: the step is negative) -/
def pyStart (s : Option Int) (n : Int) (neg : Bool) : Int :=
  match s with
  | some v => pyAdjust n v neg
  | none => if neg then n - 1 else 0

/-- Python's stop index after adjustment -/
def pyStop (e : Option Int) (n : Int) (neg : Bool) : Int :=
  match e with
  | some v => pyAdjust n v neg
  | none => if neg then -1 else n

theorem pySlice_pos (s e : Option Int) (step : Int) (hstep : 0 < step) (n : Nat) :
    pySlice s e (some step) n
      = (List.range (cntUp (pyStart s n false) (pyStop e n false) step)).map
          (fun (k : Nat) => (pyStart s n false + (k : Int) * step).toNat) := by
  have h0 : ¬ step = 0 := by omega
  have h1 : ¬ step < 0 := by omega
  simp only [pySlice, Option.getD_some, if_neg h0, h1, decide_false, Bool.false_eq_true, if_false]
  rfl

theorem pySlice_neg (s e : Option Int) (step : Int) (hstep : step < 0) (n : Nat) :
    pySlice s e (some step) n
      = (List.range (cntDown (pyStart s n true) (pyStop e n true) step)).map
          (fun (k : Nat) => (pyStart s n true + (k : Int) * step).toNat) := by
  have h0 : ¬ step = 0 := by omega
  simp only [pySlice, Option.getD_some, if_neg h0, hstep, decide_true, if_true]
  rfl

theorem pySlice_zero (s e : Option Int) (n : Nat) : pySlice s e (some 0) n = [] := by
  simp [pySlice]

theorem range_toNat_cast (c : Nat) (a step : Int)
    (h : ∀ x ∈ (List.range c).map (fun (k : Nat) => a + (k : Int) * step), 0 ≤ x) :
    ((List.range c).map (fun (k : Nat) => (a + (k : Int) * step).toNat)).map (fun (i : Nat) => (i : Int))
      = (List.range c).map (fun (k : Nat) => a + (k : Int) * step) := by
  have := map_toNat_cast _ h
  rw [List.map_map] at this
  rw [← this, List.map_map, List.map_map]
  rfl

theorem normPos_zero (n : Int) (hn : 0 ≤ n) : Impl.normPos 0 n = 0 := by
  unfold Impl.normPos
  simp only []
  repeat' split
  all_goals omega

theorem normPos_self (n : Int) (hn : 0 ≤ n) : Impl.normPos n n = n := by
  unfold Impl.normPos
  simp only []
  repeat' split
  all_goals omega

theorem impl_pos_eq_py (s e : Option Int) (step : Int) (hstep : 0 ≤ step) (n : Nat) :
    Impl.subIndexes (.slicePos (Build.bound s) (Build.bound e) ⟨step, false⟩) n
      = (pySlice s e (some step) n).map (fun (i : Nat) => (i : Int)) := by
  have hn0 : (0:Int) ≤ (n : Int) := by omega
  have ha : Impl.normPos (if (Build.bound s).omitted = true then 0 else (Build.bound s).number) n
      = pyStart s n false := by
    cases s with
    | none =>
      simp only [Build.bound, pyStart, if_true, Bool.false_eq_true, if_false]
      exact normPos_zero n hn0
    | some v => simp only [Build.bound, pyStart, Bool.false_eq_true, if_false]; exact normPos_eq_pyAdjust v n hn0
  have hb : Impl.normPos (if (Build.bound e).omitted = true then (n : Int) else (Build.bound e).number) n
      = pyStop e n false := by
    cases e with
    | none =>
      simp only [Build.bound, pyStop, if_true, Bool.false_eq_true, if_false]
      exact normPos_self n hn0
    | some v => simp only [Build.bound, pyStop, Bool.false_eq_true, if_false]; exact normPos_eq_pyAdjust v n hn0
  have hra := normPos_range (if (Build.bound s).omitted = true then 0 else (Build.bound s).number) n hn0
  have hrb := normPos_range (if (Build.bound e).omitted = true then (n : Int) else (Build.bound e).number) n hn0
  rw [ha] at hra; rw [hb] at hrb
  simp only [Impl.subIndexes, ha, hb]
  by_cases h0 : step = 0
  · subst h0
    have : ¬ ((if (0:Int) > (n : Int) then (n : Int) else 0) > 0) := by split <;> omega
    rw [if_neg this, pySlice_zero]; rfl
  · have hp : 0 < step := by omega
    rw [pySlice_pos s e step hp n]
    generalize pyStart s n false = a at *
    generalize pyStop e n false = b at *
    have hmem : ∀ x ∈ (List.range (cntUp a b step)).map (fun (k : Nat) => a + (k : Int) * step), 0 ≤ x := by
      intro x hx
      rw [← loopUp_eq_range b step hp (n + 1) a (by omega)] at hx
      have := mem_loopUp b step hp _ _ _ hx
      omega
    rw [range_toNat_cast _ _ _ hmem, ← loopUp_eq_range b step hp (n + 1) a (by omega)]
    by_cases hbig : step > (n : Int)
    · rw [if_pos hbig]
      by_cases hn : (n : Int) > 0
      · rw [if_pos hn]
        obtain ⟨m, rfl⟩ : ∃ m, n = m + 1 := ⟨n - 1, by omega⟩
        exact loopUp_big_step m a b _ _ (by omega) (by omega)
      · rw [if_neg hn]
        have : ¬ a < b := by omega
        rw [Impl.loopUp, if_neg this]
    · rw [if_neg hbig, if_pos hp]

theorem normNeg_last (n : Int) (hn : 0 ≤ n) : Impl.normNeg (n - 1) n = n - 1 := by
  unfold Impl.normNeg
  simp only []
  repeat' split
  all_goals omega

theorem normNeg_before (n : Int) (hn : 0 ≤ n) : Impl.normNeg (-n - 1) n = -1 := by
  unfold Impl.normNeg
  simp only []
  repeat' split
  all_goals omega

theorem impl_neg_eq_py (s e : Option Int) (step : Int) (hstep : step < 0) (n : Nat) :
    Impl.subIndexes (.sliceNeg (Build.bound s) (Build.bound e) ⟨step, false⟩) n
      = (pySlice s e (some step) n).map (fun (i : Nat) => (i : Int)) := by
  have hn0 : (0:Int) ≤ (n : Int) := by omega
  have ha : Impl.normNeg (if (Build.bound s).omitted = true then (n : Int) - 1 else (Build.bound s).number) n
      = pyStart s n true := by
    cases s with
    | none =>
      simp only [Build.bound, pyStart, if_true]
      exact normNeg_last n hn0
    | some v => simp only [Build.bound, pyStart, Bool.false_eq_true, if_false]; exact normNeg_eq_pyAdjust v n hn0
  have hb : Impl.normNeg (if (Build.bound e).omitted = true then -(n : Int) - 1 else (Build.bound e).number) n
      = pyStop e n true := by
    cases e with
    | none =>
      simp only [Build.bound, pyStop, if_true]
      exact normNeg_before n hn0
    | some v => simp only [Build.bound, pyStop, Bool.false_eq_true, if_false]; exact normNeg_eq_pyAdjust v n hn0
  have hra := normNeg_range (if (Build.bound s).omitted = true then (n : Int) - 1 else (Build.bound s).number) n hn0
  have hrb := normNeg_range (if (Build.bound e).omitted = true then -(n : Int) - 1 else (Build.bound e).number) n hn0
  rw [ha] at hra; rw [hb] at hrb
  simp only [Impl.subIndexes, ha, hb, if_pos hstep]
  rw [pySlice_neg s e step hstep n]
  generalize pyStart s n true = a at *
  generalize pyStop e n true = b at *
  have hmem : ∀ x ∈ (List.range (cntDown a b step)).map (fun (k : Nat) => a + (k : Int) * step), 0 ≤ x := by
    intro x hx
    rw [← loopDown_eq_range b step hstep (n + 1) a (by omega)] at hx
    have := mem_loopDown b step hstep _ _ _ hx
    omega
  rw [range_toNat_cast _ _ _ hmem, ← loopDown_eq_range b step hstep (n + 1) a (by omega)]

/-- **hand-written model = Python**, for the subscript object the parser action builds; no bounds needed -/
theorem impl_eq_py (s e t : Option Int) (n : Nat) :
    Impl.subIndexes (Build.subI (.slice s e t)) n
      = (pySlice s e t n).map (fun (i : Nat) => (i : Int)) := by
  have hpy : pySlice s e t n = pySlice s e (some (t.getD 1)) n := by
    cases t <;> rfl
  rw [hpy]
  simp only [Build.subI]
  by_cases h : t.getD 1 ≥ 0
  · rw [if_pos h]; exact impl_pos_eq_py s e _ h n
  · rw [if_neg h]; exact impl_neg_eq_py s e _ (by omega) n

theorem impl_idx_eq_py (k : Int) (n : Nat) :
    Impl.subIndexes (.idx k) n = (pyIndex k n).map Int.ofNat := by
  simp only [Impl.subIndexes, pyIndex]
  generalize (if k < 0 then k + (n : Int) else k) = i
  by_cases hc : i < 0 ∨ i ≥ (n : Int)
  · have : (decide (i < 0) || decide (i ≥ (n : Int))) = true := by simp; exact hc
    rw [if_pos this, if_pos hc]; rfl
  · have : ¬ (decide (i < 0) || decide (i ≥ (n : Int))) = true := by simp; omega
    rw [if_neg this, if_neg hc]
    simp only [List.map_cons, List.map_nil, Int.ofNat_eq_natCast]
    congr 1; omega

theorem subInRange_subI (s e t : Option Int) (hs : I64opt s) (he : I64opt e) (ht : I64opt t) :
    SubInRange (Build.subI (.slice s e t)) := by
  have h0 : I64 0 := by unfold I64; omega
  have hb : ∀ o, I64opt o → I64 (Build.bound o).number := by
    intro o ho
    cases o with
    | none => exact h0
    | some v => exact ho
  have hstep : I64 (t.getD 1) := by
    cases t with
    | none => unfold I64; simp
    | some v => exact ht
  simp only [Build.subI]
  split
  · exact ⟨hb s hs, hb e he, hstep⟩
  · exact ⟨hb s hs, hb e he, hstep⟩

end SliceLemmas
end JPV
