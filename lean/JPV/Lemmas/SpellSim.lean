/-
SpellSim — from the simulation of the single constructs (SpellActQ, SpellActA) to the whole SPELLED path:
the list of steps, the tokens of a path against `Build.buildPath` (`path_core_s`), the operand path of a
filter (`SParamSim`), the mutual structural recursion over `SStep`/`SQuery`/`SOperand`/`SOpPath`, and
`parseModel` on the spelling: `spell_parse_exact` (the `$` is written). Generalises ParsePrintSimPath/SimTop/SimRec.

Second part: the `$` left out in front of a plain first step (`firstPlain`), `spell_parse_exact'`:
  * the actions of a plain step (4, 7, 10–21) never look at the bottom of the stack (`Unframe`,
    `execFrom_unframe`), so the simulation of the first step, stated on non-empty stacks, also holds on the
    empty stack the machine starts with (`sim0_of_sim`);
  * `Build` links the chain behind the `$` that `Spell.texts` supplies and deletes it, the machine never had
    it: `HeadInv` along `linkPres`, `headless_eq`.
-/
import JPV.Lemmas.SpellActQ
set_option linter.unusedSimpArgs false
namespace JPV.SP
open JPV.Peg JPV.PP JPV.Lex JPV.Build
open JPV.Print (fnText fnsText opText escRegex headChar)
open JPV.Spell (Quote Sign SInt STail SSub SName Cap SLit ChildForm WildForm Sep SStep SQuery SOperand SOpPath SPath
  optTxt tailP subP keyBody nameP sepP sepsP brP litP childP wildP escLitQ)

/-! ### `Build.buildPath` on ANY list of abstract steps, given the written steps
(ParsePrintSimPath states these for `Print.stepsT ss`; the proofs do not use that) -/

/-- the chain of a path whose functions are all registered, given its written steps -/
theorem buildPath_of_sp' (env : Env) (cfg : Cfg) (top a : Bool) (h : Head) (ss' : List Step) (fns : List Fn)
    (sp : List Pre) (hsp : stepsPre env cfg ss' = .ok sp)
    (hfn : ∀ f ∈ fns, fnFound env f = true) :
    buildPath env cfg top (.mk h ss' (fns.map Print.fnT)) =
      .ok (ccChain top "" (setAccChain (top && cfg.accessor)
        (delRoot (Build.markVg (linkPres a [headRaw a h] (sp ++ fns.map fnPreT)))))) := by
  have hnice := stepsPre_nice env cfg _ sp hsp
  rw [BD.buildPath_eq, hsp]
  simp only [bind, Except.bind]
  rw [map_fnT_fnPre, mkInfos_eq, List.cons_append, assemble_head env cfg top a h]
  have hall : ∀ p ∈ sp ++ fns.map fnPreT, NicePre p := by
    intro p hp
    rcases List.mem_append.mp hp with hp | hp
    · exact (hnice p hp).1
    · obtain ⟨f, _, rfl⟩ := List.mem_map.mp hp
      cases f <;> trivial
  have hfound : ∀ p ∈ sp ++ fns.map fnPreT, foundPre env p := by
    intro p hp
    rcases List.mem_append.mp hp with hp | hp
    · exact foundPre_node (hnice p hp).2
    · obtain ⟨f, hf, rfl⟩ := List.mem_map.mp hp
      exact fnPreT_found env f (hfn f hf)
  have hpres := presOK_nodes_fns sp fns (fun p hp => (hnice p hp).2)
  have hshape : Shape1 [headRaw a h] := ⟨_, [], rfl, headRaw_isHead a h, headRaw_vg a h⟩
  obtain ⟨hres, hsh⟩ := assemble_link env cfg top a (sp ++ fns.map fnPreT) [headRaw a h] _ hall hfound
    (.inl ⟨hshape, hpres⟩) rfl
  rw [hres]
  simp only
  rw [finish_psi top "" _ _ hsh]

/-- … when `f` is the first function that is not registered -/
theorem buildPath_missing_of_sp' (env : Env) (cfg : Cfg) (top : Bool) (h : Head) (ss' : List Step) (fs1 : List Fn)
    (f : Fn) (fs2 : List Fn) (sp : List Pre) (hsp : stepsPre env cfg ss' = .ok sp)
    (hfn : ∀ g ∈ fs1, fnFound env g = true) (hf : fnFound env f = false) :
    buildPath env cfg top (.mk h ss' ((fs1 ++ f :: fs2).map Print.fnT)) =
      .error (.funcNotFound (String.ofList (fnText f))) := by
  have hnice := stepsPre_nice env cfg _ sp hsp
  rw [BD.buildPath_eq, hsp]
  simp only [bind, Except.bind]
  rw [map_fnT_fnPre, mkInfos_eq]
  have hsplit : BD.headPreOf h :: sp ++ (fs1 ++ f :: fs2).map fnPreT =
      (BD.headPreOf h :: sp ++ fs1.map fnPreT) ++ fnPreT f :: fs2.map fnPreT := by simp
  rw [hsplit, assemble_missing env cfg top _ (fnPreT f) _ [] ?_ (fnPreT_isFn f) ?_, fnPreT_text]
  · intro p hp
    simp only [List.cons_append, List.mem_cons, List.mem_append, List.mem_map] at hp
    rcases hp with rfl | hp | ⟨g, hg, rfl⟩
    · cases h <;> trivial
    · exact foundPre_node (hnice p hp).2
    · exact fnPreT_found env g (hfn g hg)
  · intro hfound
    cases f with
    | ffn t n =>
      obtain ⟨g, hg⟩ := hfound
      have : env.ffn n = some g := hg
      simp [fnFound, this] at hf
    | afn t n =>
      obtain ⟨g, hg⟩ := hfound
      have : env.afn n = some g := hg
      simp [fnFound, this] at hf

/-- an error in a step is the error of the path -/
theorem buildPath_steps_err' (env : Env) (cfg : Cfg) (top : Bool) (h : Head) (ss' : List Step) (fns' : List Fn)
    (e : ParseErr) (hsp : stepsPre env cfg ss' = .error e) :
    buildPath env cfg top (.mk h ss' fns') = .error e := by
  rw [BD.buildPath_eq, hsp]
  rfl

/-! ### the steps of a spelled path -/

structure SStepsSim (c : Ctx) (cfg : Cfg) (p : Nat) (ss : List SStep) (pos : Nat) : Prop where
  ok : ∀ sp, stepsPre c.env cfg (Spell.stepsT true ss) = .ok sp →
    ∀ (stk : List Item) (sv : List (List Item)) (rt : Option (List N)) (tb te : Nat), stk ≠ [] →
      ∃ groups : List (List Pre), groups.flatten = sp ∧ (∀ g ∈ groups, g ≠ []) ∧
        ∃ tb' te', ∀ rest, execFrom c ⟨stk, sv, rt, tb, te⟩ (tkStepsS p ss ++ rest) =
          execFrom c ⟨groupItems c.acc groups ++ stk, sv, rt, tb', te'⟩ rest
  err : ∀ e, stepsPre c.env cfg (Spell.stepsT true ss) = .error e →
    ∀ (stk : List Item) (sv : List (List Item)) (rt : Option (List N)) (tb te : Nat), stk ≠ [] →
      ∀ rest, execFrom c ⟨stk, sv, rt, tb, te⟩ (tkStepsS p ss ++ rest) = .error (stopOf pos e)

theorem stepsSim_of_s (c : Ctx) (cfg : Cfg) : ∀ (ss : List SStep) (p : Nat) (r : List Char),
    (∀ s ∈ ss, SStepSim c cfg false s) → Sfx c.input p (Spell.steps ss ++ r) → ∃ pos, SStepsSim c cfg p ss pos := by
  intro ss
  induction ss with
  | nil =>
    intro p r _ _
    refine ⟨p, ?_, ?_⟩
    · intro sp hsp stk sv rt tb te _
      rw [Spell.stepsT, stepsPre] at hsp
      cases hsp
      exact ⟨[], rfl, by simp, tb, te, fun rest => by simp [tkStepsS, groupItems]⟩
    · intro e he
      rw [Spell.stepsT, stepsPre] at he
      cases he
  | cons s ss ih =>
    intro p r hs hsfx
    simp only [Spell.steps, List.append_assoc] at hsfx
    obtain ⟨pos1, hs1⟩ := hs s (by simp) p _ hsfx
    obtain ⟨pos2, hs2⟩ := ih (p + (Spell.step false s).length) r (fun y hy => hs y (by simp [hy])) hsfx.append
    refine ⟨seqPos (stepPre c.env cfg (Spell.stepT true false s)) pos1 pos2, ?_, ?_⟩
    · intro sp hsp stk sv rt tb te hstk
      rw [Spell.stepsT, stepsPre] at hsp
      obtain ⟨a, h1, h2⟩ := bind_ok' hsp
      obtain ⟨b, h3, h4⟩ := bind_ok' h2
      cases h4
      obtain ⟨tb1, te1, e1⟩ := hs1.ok a h1 stk sv rt tb te hstk
      obtain ⟨groups, hg1, hg2, tb2, te2, e2⟩ := hs2.ok b h3 ([Item.chain (a.map (rawOf c.acc))] ++ stk) sv rt tb1 te1
        (by simp)
      refine ⟨a :: groups, by simp [hg1], ?_, tb2, te2, fun rest => ?_⟩
      · intro g hg
        rcases List.mem_cons.mp hg with rfl | hg
        · exact (stepPre_nice c.env cfg _ _ h1).1
        · exact hg2 g hg
      · simp only [tkStepsS, List.append_assoc]
        rw [e1, e2]
        simp [groupItems]
    · intro e he stk sv rt tb te hstk
      rw [Spell.stepsT, stepsPre] at he
      cases h1 : stepPre c.env cfg (Spell.stepT true false s) with
      | error e1 =>
        rw [h1] at he
        cases he
        have e1' := hs1.err _ h1 stk sv rt tb te hstk
        intro rest
        simp only [tkStepsS, List.append_assoc]
        rw [seqPos_error]
        exact e1' _
      | ok a =>
        rw [h1] at he
        cases h3 : stepsPre c.env cfg (Spell.stepsT true ss) with
        | ok b => rw [h3] at he; cases he
        | error e2 =>
          rw [h3] at he
          cases he
          obtain ⟨tb1, te1, e1⟩ := hs1.ok a h1 stk sv rt tb te hstk
          have e2' := hs2.err _ h3 ([Item.chain (a.map (rawOf c.acc))] ++ stk) sv rt tb1 te1 (by simp)
          intro rest
          simp only [tkStepsS, List.append_assoc]
          rw [e1, seqPos_ok]
          exact e2' _

/-! ### a path: `rootNode continuedJsonpath` / `parameterRootNode continuedJsonpath` -/

/-- the tokens of a spelled path on an empty stack, against `buildPath`; `r` is what follows the path
    (the blanks that `continuedJsonpath` takes produce no token) -/
theorem path_core_s (c : Ctx) (cfg : Cfg) (top : Bool) (h : Head) (ss : List SStep) (fns : List Fn)
    (hs : ∀ s ∈ ss, SStepSim c cfg false s) (hk : ∀ f ∈ fns, fnKindOK c.env f) {p : Nat} {r : List Char}
    (hsfx : Sfx c.input p (Spell.opath (.mk h ss fns) ++ r)) :
    ∃ pos, ∀ (sv : List (List Item)) (rt : Option (List N)) (tb te : Nat),
    (∀ ch, buildPath c.env cfg top (Spell.opathT true (.mk h ss fns)) = .ok ch →
      ∃ sp, stepsPre c.env cfg (Spell.stepsT true ss) = .ok sp ∧ (∀ f ∈ fns, fnFound c.env f = true) ∧
        ∃ tb' te', ∀ rest, execFrom c ⟨[], sv, rt, tb, te⟩ (tkOPathS p (.mk h ss fns) ++ rest) =
          execFrom c ⟨[.chain (Build.markVg (linkedOf c.acc h sp fns))], sv, rt, tb', te'⟩ rest) ∧
    (∀ e, buildPath c.env cfg top (Spell.opathT true (.mk h ss fns)) = .error e →
      ∀ rest, execFrom c ⟨[], sv, rt, tb, te⟩ (tkOPathS p (.mk h ss fns) ++ rest) =
        .error (stopOf pos e)) := by
  rw [opathT_mk]
  simp only [Spell.opath, List.cons_append, List.append_assoc] at hsfx
  have h1 := hsfx.tail
  obtain ⟨pos, hss⟩ := stepsSim_of_s c cfg ss (p + 1) _ hs h1
  refine ⟨pos, fun sv rt tb te => ?_⟩
  have h2 := h1.append
  rw [fnsText_eq_flat] at h2
  have e0 : act c (headAct h) ⟨[], sv, rt, tb, te⟩ = .ok ⟨[.chain [headRaw c.acc h]], sv, rt, tb, te⟩ := by
    cases h <;> rfl
  have hstart : ∀ rest, execFrom c ⟨[], sv, rt, tb, te⟩ (tkOPathS p (.mk h ss fns) ++ rest) =
      execFrom c ⟨[.chain [headRaw c.acc h]], sv, rt, tb, te⟩
        (tkStepsS (p + 1) ss ++
          (toksStar fnText tkFn fns (p + 1 + (Spell.steps ss).length) ++ ([.action 2] ++ rest))) := by
    intro rest
    simp only [tkOPathS, List.cons_append, List.append_assoc, List.nil_append]
    rw [execFrom_action, e0]
    rfl
  cases hsp : stepsPre c.env cfg (Spell.stepsT true ss) with
  | error e1 =>
    have hb := buildPath_steps_err' c.env cfg top h _ (fns.map Print.fnT) e1 hsp
    refine ⟨fun ch hch => (by rw [hb] at hch; cases hch), fun e he => ?_⟩
    rw [hb] at he
    cases he
    have ex := hss.err _ hsp [.chain [headRaw c.acc h]] sv rt tb te (by simp)
    exact fun rest => by rw [hstart, ex]
  | ok sp =>
    have hnice := stepsPre_nice c.env cfg _ sp hsp
    obtain ⟨groups, hg1, hg2, tb1, te1, e1⟩ := hss.ok sp hsp [.chain [headRaw c.acc h]] sv rt tb te (by simp)
    by_cases hall : ∀ f ∈ fns, fnFound c.env f = true
    · have hb := buildPath_of_sp' c.env cfg top c.acc h _ fns sp hsp hall
      refine ⟨fun ch _ => ⟨sp, rfl, hall, ?_⟩, fun e he => (by rw [hb] at he; cases he)⟩
      obtain ⟨tb2, te2, e2⟩ := exec_fns c sv rt fns (p + 1 + (Spell.steps ss).length) r
        (groupItems c.acc groups ++ [.chain [headRaw c.acc h]]) tb1 te1 (fun f hf => ⟨hk f hf, hall f hf⟩) h2
      refine ⟨tb2, te2, fun rest => ?_⟩
      rw [hstart, e1, e2]
      simp only [List.singleton_append, execFrom_action]
      have hlink : linkAll [headRaw c.acc h]
          (groups.map (fun g => Item.chain (g.map (rawOf c.acc))) ++
            fns.map (fun f => Item.chain [rawOf c.acc (fnPreT f)])) = .ok (linkedOf c.acc h sp fns) := by
        rw [linkAll_append, linkAll_groups c.acc groups _ (fun g hg => ⟨hg2 g hg, fun q hq =>
          hnice q (by rw [← hg1]; exact List.mem_flatten.mpr ⟨g, hg, hq⟩)⟩)]
        simp only [bind, Except.bind]
        rw [linkAll_fns, hg1, linkedOf, linkPres_append, linkPres_nodes c.acc sp _ (fun q hq => (hnice q hq).2)]
      have hstack : (fns.map (fun f => Item.chain [rawOf c.acc (fnPreT f)])).reverse ++
          (groupItems c.acc groups ++ [Item.chain [headRaw c.acc h]]) =
          (groups.map (fun g => Item.chain (g.map (rawOf c.acc))) ++
            fns.map (fun f => Item.chain [rawOf c.acc (fnPreT f)])).reverse ++ [Item.chain [headRaw c.acc h]] := by
        simp [groupItems]
      rw [hstack, act2_eq c _ _ _ (by simp) hlink]
      rfl
    · obtain ⟨fs1, f, fs2, rfl, hf1, hf2⟩ := fns_split c.env fns hall
      have hb := buildPath_missing_of_sp' c.env cfg top h _ fs1 f fs2 sp hsp hf1 hf2
      refine ⟨fun ch hch => (by rw [hb] at hch; cases hch), fun e he => ?_⟩
      rw [hb] at he
      cases he
      intro rest
      rw [hstart, e1, stopOf_fn _ 0]
      exact exec_fns_missing c sv rt fs1 f fs2 _ r _ tb1 te1
        (fun g hg => ⟨hk g (by simp [hg]), hf1 g hg⟩) (hk f (by simp)) hf2 h2 _

/-- the operand path of a filter -/
theorem paramSim_of_s (c : Ctx) (cfg : Cfg) (h : Head) (ss : List SStep) (fns : List Fn)
    (hs : ∀ s ∈ ss, SStepSim c cfg false s) (hk : ∀ f ∈ fns, fnKindOK c.env f) :
    SParamSim c cfg (.mk h ss fns) := by
  intro p r hsfx
  have hsave : ∀ (stk : List Item) (sv : List (List Item)) (rt : Option (List N)) (tb te : Nat), stk ≠ [] →
      ∀ rest, execFrom c ⟨stk, sv, rt, tb, te⟩ (.action 38 :: rest) = execFrom c ⟨[], stk :: sv, rt, tb, te⟩ rest := by
    intro stk sv rt tb te hstk rest
    cases stk with
    | nil => exact absurd rfl hstk
    | cons x xs => rfl
  obtain ⟨pos, hcore⟩ := path_core_s c cfg false h ss fns hs hk hsfx
  refine ⟨pos, ?_, ?_⟩
  · intro ch hch stk sv rt tb te hstk
    obtain ⟨hok, _⟩ := hcore (stk :: sv) rt tb te
    obtain ⟨sp, hsp, hall, tb', te', ex⟩ := hok ch hch
    have hb := buildPath_of_sp' c.env cfg false c.acc h _ fns sp hsp hall
    rw [opathT_mk, hb] at hch
    cases hch
    refine ⟨tb', te', fun rest => ?_⟩
    simp only [List.cons_append, List.append_assoc]
    rw [hsave _ _ _ _ _ hstk, ex]
    have hL := markVg_ne_nil (linkedOf_ne_nil c.acc h sp fns)
    obtain ⟨m, Lr, hm⟩ : ∃ m Lr, Build.markVg (linkedOf c.acc h sp fns) = m :: Lr := by
      cases hx : Build.markVg (linkedOf c.acc h sp fns) with
      | nil => exact absurd hx hL
      | cons m Lr => exact ⟨m, Lr, rfl⟩
    have hih : innerHead (Build.markVg (linkedOf c.acc h sp fns)) = headKind h := by
      rw [innerHead_markVg, linkedOf, innerHead_linkPres c.acc _ _ (by simp), innerHead_headRaw]
    simp only [List.singleton_append, execFrom_action, act, act39, loadParams, pop, bind, Except.bind,
      List.cons_append, List.nil_append]
    rw [hm] at hih ⊢
    simp only [asNode, hih]
    cases h <;> simp only [headKind, push, ccChain, headP, opathHead, Bool.false_and, Bool.false_eq_true, if_false] <;>
      rw [← hm] <;> rfl
  · intro e he stk sv rt tb te hstk
    obtain ⟨_, herr⟩ := hcore (stk :: sv) rt tb te
    have ex := herr e he
    intro rest
    simp only [List.cons_append, List.append_assoc]
    rw [hsave _ _ _ _ _ hstk, ex]

/-! ### the mutual structural recursion -/

mutual
theorem sim_step_s (c : Ctx) (cfg : Cfg) : (s : SStep) → (ad : Bool) → Spell.stepWf ad s = true →
    Spell.stepNC s = true → stepExtS c.ext s → stepEnvS c.env s → SStepSim c cfg ad s
  | .child f k, ad, hwf, hnc, hext, _ => sim_step_plain_s c cfg ad _ rfl hwf hnc hext
  | .wild f, ad, hwf, hnc, hext, _ => sim_step_plain_s c cfg ad _ rfl hwf hnc hext
  | .multi lb n ns rb, ad, hwf, hnc, hext, _ => sim_step_plain_s c cfg ad _ rfl hwf hnc hext
  | .union lb s ss rb, ad, hwf, hnc, hext, _ => sim_step_plain_s c cfg ad _ rfl hwf hnc hext
  | .filter b0 b1 q b2 b3, ad, hwf, hnc, hext, henv =>
    sim_step_filter_s c cfg ad b0 b1 q b2 b3
      (sim_query_s c cfg q (by rw [Spell.stepWf] at hwf; exact hwf) (by rw [Spell.stepNC] at hnc; exact hnc)
        (by rw [stepExtS] at hext; exact hext) (by rw [stepEnvS] at henv; exact henv))
  | .desc s, true, hwf, _, _, _ => by simp [Spell.stepWf] at hwf
  | .desc s, false, hwf, hnc, hext, henv =>
    have hwf1 : Spell.stepWf true s = true := by simpa [Spell.stepWf] using hwf
    have hnd : ∀ s', s ≠ .desc s' := by
      intro s' he; subst he; simp [Spell.stepWf] at hwf1
    sim_step_desc_s c cfg s hnd
      (sim_step_s c cfg s true hwf1 (by rw [Spell.stepNC] at hnc; exact hnc) (by rw [stepExtS] at hext; exact hext)
        (by rw [stepEnvS] at henv; exact henv))
theorem sim_steps_s (c : Ctx) (cfg : Cfg) : (ss : List SStep) → Spell.stepsWf ss = true → Spell.stepsNC ss = true →
    stepsExtS c.ext ss → stepsEnvS c.env ss → ∀ s ∈ ss, SStepSim c cfg false s
  | [], _, _, _, _ => fun _ hs => by cases hs
  | s :: ss, hwf, hnc, hext, henv =>
    have hwf' : Spell.stepWf false s = true ∧ Spell.stepsWf ss = true := by simpa [Spell.stepsWf] using hwf
    have hnc' : Spell.stepNC s = true ∧ Spell.stepsNC ss = true := by simpa [Spell.stepsNC] using hnc
    have hext' : stepExtS c.ext s ∧ stepsExtS c.ext ss := by rw [stepsExtS] at hext; exact hext
    have henv' : stepEnvS c.env s ∧ stepsEnvS c.env ss := by rw [stepsEnvS] at henv; exact henv
    fun x hx => (List.mem_cons.mp hx).elim (fun e => e ▸ sim_step_s c cfg s false hwf'.1 hnc'.1 hext'.1 henv'.1)
      (fun hx => sim_steps_s c cfg ss hwf'.2 hnc'.2 hext'.2 henv'.2 x hx)
theorem sim_query_s (c : Ctx) (cfg : Cfg) : (q : SQuery) → Spell.queryWf q = true → Spell.queryNC q = true →
    queryExtS c.ext q → queryEnvS c.env q → SQSim c cfg q
  | .or a l r b, hwf, hnc, hext, henv =>
    have hwf' : (Spell.queryWf a = true ∧ Spell.queryWf b = true) ∧ 1 ≤ Spell.level b := by
      simpa [Spell.queryWf] using hwf
    have hnc' : Spell.queryNC a = true ∧ Spell.queryNC b = true := by simpa [Spell.queryNC] using hnc
    have hext' : queryExtS c.ext a ∧ queryExtS c.ext b := by rw [queryExtS] at hext; exact hext
    have henv' : queryEnvS c.env a ∧ queryEnvS c.env b := by rw [queryEnvS] at henv; exact henv
    sim_or_s c cfg a l r b (sim_query_s c cfg a hwf'.1.1 hnc'.1 hext'.1 henv'.1)
      (sim_query_s c cfg b hwf'.1.2 hnc'.2 hext'.2 henv'.2)
  | .and a l r b, hwf, hnc, hext, henv =>
    have hwf' : ((Spell.queryWf a = true ∧ Spell.queryWf b = true) ∧ 1 ≤ Spell.level a) ∧ 2 ≤ Spell.level b := by
      simpa [Spell.queryWf] using hwf
    have hnc' : Spell.queryNC a = true ∧ Spell.queryNC b = true := by simpa [Spell.queryNC] using hnc
    have hext' : queryExtS c.ext a ∧ queryExtS c.ext b := by rw [queryExtS] at hext; exact hext
    have henv' : queryEnvS c.env a ∧ queryEnvS c.env b := by rw [queryEnvS] at henv; exact henv
    sim_and_s c cfg a l r b (sim_query_s c cfg a hwf'.1.1.1 hnc'.1 hext'.1 henv'.1)
      (sim_query_s c cfg b hwf'.1.1.2 hnc'.2 hext'.2 henv'.2)
  | .exist neg p, hwf, hnc, hext, henv =>
    sim_exist_s c cfg neg p (sim_param_s c cfg p (by rw [Spell.queryWf] at hwf; exact hwf)
      (by rw [Spell.queryNC] at hnc; exact hnc) (by rw [queryExtS] at hext; exact hext)
      (by rw [queryEnvS] at henv; exact henv))
  | .cmp op l bl br r, hwf, hnc, hext, henv =>
    have hwf' : Spell.operandWf (Print.isOrd op) l = true ∧ Spell.operandWf (Print.isOrd op) r = true := by
      simpa [Spell.queryWf] using hwf
    have hnc' : Spell.operandNC l = true ∧ Spell.operandNC r = true := by simpa [Spell.queryNC] using hnc
    have hext' : operandExtS c.ext l ∧ operandExtS c.ext r := by rw [queryExtS] at hext; exact hext
    have henv' : operandEnvS c.env l ∧ operandEnvS c.env r := by rw [queryEnvS] at henv; exact henv
    sim_cmp_s c cfg op l bl br r (sim_operand_s c cfg l _ hwf'.1 hnc'.1 hext'.1 henv'.1)
      (sim_operand_s c cfg r _ hwf'.2 hnc'.2 hext'.2 henv'.2)
  | .regex p bl br re, hwf, hnc, hext, henv =>
    have hwf' : Spell.opathWf p = true ∧ Print.regexOK re = true := by simpa [Spell.queryWf] using hwf
    have hext' : opathExtS c.ext p ∧ c.ext.regexCompile re = .ok := by rw [queryExtS] at hext; exact hext
    sim_regex_s c cfg p bl br re (sim_param_s c cfg p hwf'.1 (by rw [Spell.queryNC] at hnc; exact hnc) hext'.1
      (by rw [queryEnvS] at henv; exact henv)) hwf'.2 hext'.2
  | .paren l q r, hwf, hnc, hext, henv =>
    sim_paren_s c cfg l q r (sim_query_s c cfg q (by rw [Spell.queryWf] at hwf; exact hwf)
      (by rw [Spell.queryNC] at hnc; exact hnc) (by rw [queryExtS] at hext; exact hext)
      (by rw [queryEnvS] at henv; exact henv))
theorem sim_operand_s (c : Ctx) (cfg : Cfg) : (o : SOperand) → (ord : Bool) → Spell.operandWf ord o = true →
    Spell.operandNC o = true → operandExtS c.ext o → operandEnvS c.env o → SOperandSim c cfg o
  | .lit l, _, _, _, hext, _ => sim_operand_lit_s c cfg l (by rw [operandExtS] at hext; exact hext)
  | .path p, _, hwf, hnc, hext, henv =>
    sim_operand_path_s c cfg p (sim_param_s c cfg p (by rw [Spell.operandWf] at hwf; exact hwf)
      (by rw [Spell.operandNC] at hnc; exact hnc) (by rw [operandExtS] at hext; exact hext)
      (by rw [operandEnvS] at henv; exact henv))
theorem sim_param_s (c : Ctx) (cfg : Cfg) : (p : SOpPath) → Spell.opathWf p = true → Spell.opathNC p = true →
    opathExtS c.ext p → opathEnvS c.env p → SParamSim c cfg p
  | .mk h ss fns, hwf, hnc, hext, henv =>
    have hwf' : Spell.stepsWf ss = true ∧ fns.all Print.fnNameOK = true := by simpa [Spell.opathWf] using hwf
    have henv' : stepsEnvS c.env ss ∧ ∀ f ∈ fns, fnKindOK c.env f := by rw [opathEnvS] at henv; exact henv
    paramSim_of_s c cfg h ss fns
      (sim_steps_s c cfg ss hwf'.1 (by rw [Spell.opathNC] at hnc; exact hnc) (by rw [opathExtS] at hext; exact hext)
        henv'.1) henv'.2
end

/-! ### the top level -/

theorem parseModel_spell (env : Env) (ext : Ext) (cfg : Cfg) (a : SPath) :
    parseModel env ext cfg (Spell.printS a) = parseInput env ext cfg (Spell.print a).toArray := by
  simp [parseModel, Spell.printS, String.toList_ofList]

/-- the tokens of a whole spelled path with its `$` are those of the path `$ steps fns` at `lead` -/
theorem tkTopS_dollar (lead : Nat) (ss : List SStep) (fns : List Fn) (trail : Nat) :
    tkTopS ⟨lead, true, ss, fns, trail⟩ = tkOPathS lead (.mk .root ss fns) ++ [.action 0] := by
  have e : lead + (Spell.topSteps true ss).length = lead + 1 + (Spell.steps ss).length := by
    simp only [Spell.topSteps, if_true, List.length_cons]; omega
  simp only [tkTopS, tkTopStepsS, tkOPathS, if_true, headAct, e, List.cons_append, List.append_assoc,
    List.nil_append]

/-- **parse ∘ spell = build ∘ texts**, exactly, for spelled paths that write their `$`: `Parse` answers
    the chain `Build.build` answers on the texts recorded for THAT spelling, or the error `Build.build`
    answers — a syntax error at some rune `pos` of the spelling -/
theorem spell_parse_exact (env : Env) (ext : Ext) (cfg : Cfg) (a : SPath) (hwf : Spell.wf a = true)
    (hd : a.dollar = true) (hnc : Spell.noColon a = true) (hext : ExtOKS ext a) (henv : EnvOKS env a) :
    ∃ pos, parseModel env ext cfg (Spell.printS a) =
      outcomeOfBuild (Spell.print a).toArray pos (Build.build env cfg (Spell.texts a)) := by
  have hrec := recognise_spell a hwf
  obtain ⟨lead, dollar, ss, fns, trail⟩ := a
  simp only at hd
  subst hd
  have hwf' : Spell.stepsWf ss = true ∧ fns.all Print.fnNameOK = true := by
    simpa [Spell.wf] using hwf
  have hnc' : Spell.stepsNC ss = true := hnc
  have hext' : stepsExtS ext ss := hext
  have henv' : stepsEnvS env ss ∧ ∀ f ∈ fns, fnKindOK env f := henv
  have hs := sim_steps_s ⟨env, ext, cfg.accessor, (Spell.print ⟨lead, true, ss, fns, trail⟩).toArray⟩ cfg ss
    hwf'.1 hnc' hext' henv'.1
  have hsfx : Sfx (Spell.print ⟨lead, true, ss, fns, trail⟩).toArray lead
      (Spell.opath (.mk .root ss fns) ++ Spell.blanks trail) := by
    have h0 := Sfx.zero (Spell.print ⟨lead, true, ss, fns, trail⟩)
    have h1 : Spell.print ⟨lead, true, ss, fns, trail⟩ =
        Spell.blanks lead ++ (Spell.opath (.mk .root ss fns) ++ Spell.blanks trail) := by
      simp [Spell.print, Spell.topSteps, Spell.opath, headChar]
    have h2 := h0
    rw [h1] at h2
    rw [h1]
    simpa using sfx_blanks h2
  obtain ⟨pos, hcore⟩ := path_core_s ⟨env, ext, cfg.accessor, (Spell.print ⟨lead, true, ss, fns, trail⟩).toArray⟩ cfg
    true .root ss fns hs henv'.2 hsfx
  obtain ⟨hok, herr⟩ := hcore [] none 0 0
  refine ⟨pos, ?_⟩
  have htexts : Spell.texts ⟨lead, true, ss, fns, trail⟩ = Spell.opathT true (.mk .root ss fns) := by
    simp [Spell.texts, Spell.topStepsT, Spell.opathT]
  rw [parseModel_spell, parseInput_of_recognise env ext cfg hrec, exec_eq, tkTopS_dollar, Build.build, htexts]
  cases hb : buildPath env cfg true (Spell.opathT true (.mk .root ss fns)) with
  | ok ch =>
    obtain ⟨sp, hsp, hall, tb', te', ex⟩ := hok ch hb
    have hb' := buildPath_of_sp' env cfg true cfg.accessor .root _ fns sp hsp hall
    rw [opathT_mk, hb'] at hb
    cases hb
    rw [ex, exec_finish _ _ (markVg_ne_nil (linkedOf_ne_nil _ _ _ _))]
    have hnice := stepsPre_nice env cfg _ sp hsp
    have hTA : TA cfg.accessor (linkedOf cfg.accessor .root sp fns) := by
      unfold linkedOf
      apply TA.linkPres
      · intro n hn; simp at hn; subst hn; rfl
      · intro q hq
        rcases List.mem_append.mp hq with hq | hq
        · exact (hnice q hq).1
        · obtain ⟨f, _, rfl⟩ := List.mem_map.mp hq
          cases f <;> trivial
    have := (hTA.markVg).delRoot
    show ParseOutcome.ok (connChain "" (delRoot (Build.markVg (linkedOf cfg.accessor .root sp fns)))) =
      ParseOutcome.ok (ccChain true "" (setAccChain (true && cfg.accessor)
        (delRoot (Build.markVg (linkedOf cfg.accessor .root sp fns)))))
    simp only [ccChain, Bool.true_and, if_true, this.setAcc]
  | error e =>
    rw [herr e hb]
    rfl

/-! ## STRETCH: the leading `$` left out in front of a plain first step -/

/-! ### local actions: the bottom of the stack is not looked at -/

/-- the actions of the plain steps: they pop and push at the top only, and leave everything else alone -/
def localAct (i : Nat) : Bool := i == 4 || i == 7 || (decide (10 ≤ i) && decide (i ≤ 21))

def localTok : Tok → Bool
  | .text _ _ => true
  | .action i => localAct i

/-- what "the action ran on `stk ++ [.null]`" tells about its run on `stk` -/
def Unframe (f : St → M St) : Prop :=
  ∀ (stk : List Item) (sv : List (List Item)) (rt : Option (List N)) (tb te : Nat) (st2 : St),
    f ⟨stk ++ [.null], sv, rt, tb, te⟩ = .ok st2 →
      ∃ stk', st2 = ⟨stk' ++ [.null], sv, rt, tb, te⟩ ∧ f ⟨stk, sv, rt, tb, te⟩ = .ok ⟨stk', sv, rt, tb, te⟩

theorem unframe_push (g : St → Item) (hg : ∀ stk stk' sv rt tb te, g ⟨stk, sv, rt, tb, te⟩ = g ⟨stk', sv, rt, tb, te⟩) :
    Unframe (fun st => .ok (push (g st) st)) := by
  intro stk sv rt tb te st2 h
  dsimp only at h ⊢
  simp only [push] at h
  cases h
  exact ⟨g ⟨stk, sv, rt, tb, te⟩ :: stk, by rw [hg stk (stk ++ [.null])]; rfl, rfl⟩

theorem unframe_setLastNodeText (t : St → String)
    (ht : ∀ stk stk' sv rt tb te, t ⟨stk, sv, rt, tb, te⟩ = t ⟨stk', sv, rt, tb, te⟩) :
    Unframe (fun st => setLastNodeText (t st) st) := by
  intro stk sv rt tb te st2 h
  dsimp only at h ⊢
  rw [ht (stk ++ [Item.null]) stk sv rt tb te] at h
  generalize t ⟨stk, sv, rt, tb, te⟩ = T at h ⊢
  cases stk with
  | nil => simp [setLastNodeText, asNode, bind, Except.bind] at h
  | cons a rest =>
    simp only [setLastNodeText, List.cons_append] at h ⊢
    cases ha : asNode a with
    | error e => rw [ha] at h; cases h
    | ok ch =>
      rw [ha] at h
      cases ch with
      | nil => cases h
      | cons n tl =>
        simp only [bind, Except.bind] at h ⊢
        cases h
        exact ⟨_, rfl, rfl⟩

theorem unframe_match_opt {α : Type} (o : St → Option α) (g : α → St → Item) (e : St → Stop)
    (ho : ∀ stk stk' sv rt tb te, o ⟨stk, sv, rt, tb, te⟩ = o ⟨stk', sv, rt, tb, te⟩)
    (hg : ∀ x stk stk' sv rt tb te, g x ⟨stk, sv, rt, tb, te⟩ = g x ⟨stk', sv, rt, tb, te⟩) :
    Unframe (fun st => match o st with | some k => .ok (push (g k st) st) | none => .error (e st)) := by
  intro stk sv rt tb te st2 h
  dsimp only at h ⊢
  rw [ho (stk ++ [Item.null]) stk sv rt tb te] at h
  cases hk : o ⟨stk, sv, rt, tb, te⟩ with
  | none => rw [hk] at h; cases h
  | some k =>
    rw [hk] at h
    simp only [push] at h ⊢
    cases h
    exact ⟨g k ⟨stk, sv, rt, tb, te⟩ :: stk, by rw [hg k stk (stk ++ [Item.null])]; rfl, rfl⟩

theorem unframe_pushIndex (c : Ctx) (t : St → String) (om : Bool)
    (ht : ∀ stk stk' sv rt tb te, t ⟨stk, sv, rt, tb, te⟩ = t ⟨stk', sv, rt, tb, te⟩) :
    Unframe (fun st => pushIndexSubscript c (t st) om st) := by
  intro stk sv rt tb te st2 h
  dsimp only at h ⊢
  rw [ht (stk ++ [Item.null]) stk sv rt tb te] at h
  generalize t ⟨stk, sv, rt, tb, te⟩ = T at h ⊢
  simp only [pushIndexSubscript] at h ⊢
  cases hk : c.ext.atoi T with
  | none => rw [hk] at h; cases h
  | some k =>
    rw [hk] at h
    simp only [push] at h ⊢
    cases h
    exact ⟨_, rfl, rfl⟩

theorem unframe_act19 (c : Ctx) : Unframe (act19 c) := by
  intro stk sv rt tb te st2 h
  cases stk with
  | nil => simp [act19, pop, asSubscript, bind, Except.bind] at h
  | cons a rest =>
    simp only [act19, pop, List.cons_append, bind, Except.bind] at h ⊢
    cases ha : asSubscript a with
    | error e => rw [ha] at h; cases h
    | ok x =>
      rw [ha] at h
      simp only [push] at h ⊢
      cases h
      exact ⟨_, rfl, rfl⟩

theorem unframe_act15 (c : Ctx) : Unframe (act15 c) := by
  intro stk sv rt tb te st2 h
  cases stk with
  | nil => simp [act15, pop, asUnion, bind, Except.bind] at h
  | cons a rest =>
    simp only [act15, pop, List.cons_append, bind, Except.bind] at h ⊢
    cases ha : asUnion a with
    | error e => rw [ha] at h; cases h
    | ok x =>
      rw [ha] at h
      cases rest with
      | nil => simp [asUnion] at h
      | cons b rest =>
        simp only [List.cons_append] at h ⊢
        cases hb : asUnion b with
        | error e => rw [hb] at h; cases h
        | ok y =>
          rw [hb] at h
          simp only [push] at h ⊢
          cases h
          exact ⟨_, rfl, rfl⟩

theorem unframe_act16 (c : Ctx) : Unframe (act16 c) := by
  intro stk sv rt tb te st2 h
  cases stk with
  | nil => simp [act16, pop, asIdx, bind, Except.bind] at h
  | cons a rest =>
    simp only [act16, pop, List.cons_append, bind, Except.bind] at h ⊢
    cases ha : asIdx a with
    | error e => rw [ha] at h; cases h
    | ok x =>
      rw [ha] at h
      cases rest with
      | nil => simp [asIdx] at h
      | cons b rest =>
        simp only [List.cons_append] at h ⊢
        cases hb : asIdx b with
        | error e => rw [hb] at h; cases h
        | ok y =>
          rw [hb] at h
          cases rest with
          | nil => simp [asIdx] at h
          | cons d rest =>
            simp only [List.cons_append] at h ⊢
            cases hd : asIdx d with
            | error e => rw [hd] at h; cases h
            | ok z =>
              rw [hd] at h
              simp only [push] at h ⊢
              generalize (if x.omitted = true then ({ number := 1, omitted := x.omitted } : Bound) else x) = stp at h ⊢
              by_cases hc : stp.number ≥ 0
              · rw [if_pos hc] at h ⊢; cases h; exact ⟨_, rfl, rfl⟩
              · rw [if_neg hc] at h ⊢; cases h; exact ⟨_, rfl, rfl⟩

theorem pushChildMulti_other (c : Ctx) (nn n2 : List N) (st : St)
    (hn : ∀ i ids twin rest, nn ≠ .multi i ids twin :: rest) :
    pushChildMulti c nn n2 st = (do
      let (m1, w1) ← toMId nn
      let (m2, w2) ← toMId n2
      let twin := if w1 && w2 then some (mkInfo c "" true) else none
      .ok (push (.chain [.multi (mkInfo c "" true) [m1, m2] twin]) st)) := by
  unfold pushChildMulti
  split
  · exact absurd rfl (hn _ _ _ _)
  · rfl

theorem unframe_pushChildMulti (c : Ctx) (n1 n2 : List N) : Unframe (pushChildMulti c n1 n2) := by
  intro stk sv rt tb te st2 h
  by_cases hm : ∃ i ids twin rest, n1 = .multi i ids twin :: rest
  · obtain ⟨i, ids, twin, rest, rfl⟩ := hm
    simp only [pushChildMulti, bind, Except.bind] at h ⊢
    cases h2 : toMId n2 with
    | error e => rw [h2] at h; cases h
    | ok q =>
      rw [h2] at h
      obtain ⟨m, w⟩ := q
      simp only [push] at h ⊢
      cases h
      exact ⟨_, rfl, rfl⟩
  · have hn : ∀ i ids twin rest, n1 ≠ .multi i ids twin :: rest :=
      fun i ids twin rest e => hm ⟨i, ids, twin, rest, e⟩
    rw [pushChildMulti_other c n1 n2 _ hn] at h ⊢
    simp only [bind, Except.bind] at h ⊢
    cases h1 : toMId n1 with
    | error e => rw [h1] at h; cases h
    | ok q1 =>
      rw [h1] at h
      obtain ⟨m1, w1⟩ := q1
      simp only at h ⊢
      cases h2 : toMId n2 with
      | error e => rw [h2] at h; cases h
      | ok q2 =>
        rw [h2] at h
        obtain ⟨m2, w2⟩ := q2
        simp only [push] at h ⊢
        cases h
        exact ⟨_, rfl, rfl⟩

theorem unframe_act11 (c : Ctx) : Unframe (act11 c) := by
  intro stk sv rt tb te st2 h
  cases stk with
  | nil => simp [act11, pop, asNode, bind, Except.bind] at h
  | cons a rest =>
    simp only [act11, pop, List.cons_append, bind, Except.bind] at h ⊢
    cases ha : asNode a with
    | error e => rw [ha] at h; cases h
    | ok x =>
      rw [ha] at h
      cases rest with
      | nil => simp [asNode] at h
      | cons b rest =>
        simp only [List.cons_append] at h ⊢
        cases hb : asNode b with
        | error e => rw [hb] at h; cases h
        | ok y =>
          rw [hb] at h
          exact unframe_pushChildMulti c y x rest sv rt tb te st2 h

theorem unframe_act13 (c : Ctx) : Unframe (act13 c) := by
  intro stk sv rt tb te st2 h
  simp only [act13, St.text] at h ⊢
  cases hk : c.ext.unescapeSingle (textOf c.input tb te) with
  | none => rw [hk] at h; cases h
  | some k =>
    rw [hk] at h
    simp only [pushChildSingle, push] at h ⊢
    cases h
    exact ⟨_, rfl, rfl⟩

theorem unframe_act14 (c : Ctx) : Unframe (act14 c) := by
  intro stk sv rt tb te st2 h
  simp only [act14, St.text] at h ⊢
  cases hk : c.ext.unescapeDouble (textOf c.input tb te) with
  | none => rw [hk] at h; cases h
  | some k =>
    rw [hk] at h
    simp only [pushChildSingle, push] at h ⊢
    cases h
    exact ⟨_, rfl, rfl⟩

theorem unframe_act21 (c : Ctx) : Unframe (act21 c) := by
  intro stk sv rt tb te st2 h
  have e : ∀ X, act21 c ⟨X, sv, rt, tb, te⟩ =
      if (textOf c.input tb te).length > 0 then pushIndexSubscript c (textOf c.input tb te) false ⟨X, sv, rt, tb, te⟩
      else pushIndexSubscript c "0" true ⟨X, sv, rt, tb, te⟩ := fun X => rfl
  rw [e] at h ⊢
  by_cases hc : (textOf c.input tb te).length > 0
  · rw [if_pos hc] at h ⊢
    exact unframe_pushIndex c (fun _ => textOf c.input tb te) false (fun _ _ _ _ _ _ => rfl) stk sv rt tb te st2 h
  · rw [if_neg hc] at h ⊢
    exact unframe_pushIndex c (fun _ => "0") true (fun _ _ _ _ _ _ => rfl) stk sv rt tb te st2 h

theorem act_unframe (c : Ctx) (i : Nat) (hi : localAct i = true) : Unframe (act c i) := by
  have : i = 4 ∨ i = 7 ∨ i = 10 ∨ i = 11 ∨ i = 12 ∨ i = 13 ∨ i = 14 ∨ i = 15 ∨ i = 16 ∨ i = 17 ∨ i = 18 ∨
      i = 19 ∨ i = 20 ∨ i = 21 := by
    simp [localAct] at hi
    omega
  rcases this with rfl | rfl | rfl | rfl | rfl | rfl | rfl | rfl | rfl | rfl | rfl | rfl | rfl | rfl
  · exact unframe_setLastNodeText (fun st => st.text c) (fun _ _ _ _ _ _ => rfl)
  · exact unframe_setLastNodeText (fun st => st.text c) (fun _ _ _ _ _ _ => rfl)
  · exact unframe_push (fun st => .chain [.child (mkInfo c (c.ext.unescape (st.text c)) false)
      (c.ext.unescape (st.text c))]) (fun _ _ _ _ _ _ => rfl)
  · exact unframe_act11 c
  · exact unframe_push (fun _ => .chain [.wild (mkInfo c "*" true)]) (fun _ _ _ _ _ _ => rfl)
  · exact unframe_act13 c
  · exact unframe_act14 c
  · exact unframe_act15 c
  · exact unframe_act16 c
  · exact unframe_pushIndex c (fun st => st.text c) false (fun _ _ _ _ _ _ => rfl)
  · exact unframe_push (fun _ => .sub .wild) (fun _ _ _ _ _ _ => rfl)
  · exact unframe_act19 c
  · exact unframe_pushIndex c (fun _ => "1") false (fun _ _ _ _ _ _ => rfl)
  · exact unframe_act21 c

theorem execFrom_unframe (c : Ctx) : ∀ (toks : List Tok), toks.all localTok = true →
    ∀ (stk : List Item) (sv : List (List Item)) (rt : Option (List N)) (tb te : Nat) (st2 : St),
    execFrom c ⟨stk ++ [.null], sv, rt, tb, te⟩ toks = .ok st2 →
    ∃ stk' tb' te', st2 = ⟨stk' ++ [.null], sv, rt, tb', te'⟩ ∧
      execFrom c ⟨stk, sv, rt, tb, te⟩ toks = .ok ⟨stk', sv, rt, tb', te'⟩
  | [], _, stk, sv, rt, tb, te, st2, h => by
    cases h
    exact ⟨stk, tb, te, rfl, rfl⟩
  | .text b e :: toks, hl, stk, sv, rt, tb, te, st2, h => by
    rw [execFrom_text] at h ⊢
    exact execFrom_unframe c toks (by simpa [localTok] using hl) stk sv rt b e st2 h
  | .action i :: toks, hl, stk, sv, rt, tb, te, st2, h => by
    have hl' : localAct i = true ∧ toks.all localTok = true := by simpa [localTok] using hl
    rw [execFrom_action] at h ⊢
    cases ha : act c i ⟨stk ++ [.null], sv, rt, tb, te⟩ with
    | error e => rw [ha] at h; cases h
    | ok st1 =>
      obtain ⟨stk1, rfl, h1⟩ := act_unframe c i hl'.1 stk sv rt tb te st1 ha
      rw [ha] at h
      rw [h1]
      exact execFrom_unframe c toks hl'.2 stk1 sv rt tb te st2 h

theorem execFrom_append (c : Ctx) : ∀ (t1 t2 : List Tok) (st : St),
    execFrom c st (t1 ++ t2) = execFrom c st t1 >>= fun st' => execFrom c st' t2
  | [], t2, st => rfl
  | t :: t1, t2, st => by
    simp only [List.cons_append, execFrom, bind, Except.bind]
    cases Peg.step c st t with
    | error e => rfl
    | ok st1 => exact execFrom_append c t1 t2 st1

/-! ### the tokens of a plain step are local -/

theorem local_tkOptS (p : Nat) (o : Option SInt) (f : Nat) : (tkOptS p o f).all localTok = true := by
  cases o <;> rfl

theorem local_tkSubS (k p : Nat) (s : SSub) : (tkSubS k p s).all localTok = true := by
  cases s with
  | idx n => rfl
  | wild => rfl
  | slice s b1 a1 e t =>
    cases t <;>
      simp [tkSubS, tkSliceS, List.all_append, local_tkOptS, localTok, localAct]

theorem local_tkNameS (k p : Nat) (n : SName) : (tkNameS k p n).all localTok = true := by
  cases n with
  | wild => rfl
  | key q s => cases q <;> rfl

theorem local_tkSepsS {α : Type} (pr : α → List Char) (tk : Nat → Nat → α → List Tok) (a : Nat)
    (ha : localAct a = true) (htk : ∀ k q x, (tk k q x).all localTok = true) (rb : Nat) :
    ∀ (xs : List (Sep α)) (q : Nat), (tkSepsS pr tk a rb xs q).all localTok = true
  | [], q => rfl
  | x :: xs, q => by
    simp only [tkSepsS, tkSepS, List.all_append, htk, local_tkSepsS pr tk a ha htk rb xs, List.all_cons, localTok, ha,
      List.all_nil, Bool.and_self]

theorem local_tkStepS (ad : Bool) (p : Nat) (s : SStep) (hp : isPlainStep s = true) :
    (tkStepS ad p s).all localTok = true := by
  cases s with
  | child f k =>
    cases f with
    | dot => cases ad <;> simp [tkStepS, localTok, localAct]
    | br lb q rb => simp [tkStepS, List.all_append, local_tkNameS, localTok, localAct]
  | wild f =>
    cases f with
    | dot => cases ad <;> simp [tkStepS, localTok, localAct]
    | br lb rb => simp [tkStepS, localTok, localAct]
  | multi lb n ns rb =>
    simp [tkStepS, tkNamesS, List.all_append, local_tkNameS,
      local_tkSepsS nameP tkNameS 11 rfl local_tkNameS, localTok, localAct]
  | union lb s ss rb =>
    simp [tkStepS, tkUnionS, List.all_append, local_tkSubS,
      local_tkSepsS subP tkSubS 15 rfl local_tkSubS, localTok, localAct]
  | filter _ _ _ _ _ => cases hp
  | desc _ => cases hp

/-! ### a plain step on the EMPTY stack (the first step of a path written without `$`) -/

def SStepSim0 (c : Ctx) (cfg : Cfg) (ad : Bool) (s : SStep) : Prop :=
  ∀ (p : Nat) (r : List Char), Sfx c.input p (Spell.step ad s ++ r) →
    ∀ pres, stepPre c.env cfg (Spell.stepT true ad s) = .ok pres →
      ∀ (sv : List (List Item)) (rt : Option (List N)) (tb te : Nat), ∃ tb' te', ∀ rest,
        execFrom c ⟨[], sv, rt, tb, te⟩ (tkStepS ad p s ++ rest) =
          execFrom c ⟨[Item.chain (pres.map (rawOf c.acc))], sv, rt, tb', te'⟩ rest

/-- the actions of a plain step do not look at what is below: what holds on the stack `[nil]` holds on
    the empty stack -/
theorem sim0_of_sim (c : Ctx) (cfg : Cfg) (ad : Bool) (s : SStep) (hp : isPlainStep s = true)
    (hs : SStepSim c cfg ad s) : SStepSim0 c cfg ad s := by
  intro p r h pres hpres sv rt tb te
  obtain ⟨pos, S⟩ := hs p r h
  obtain ⟨tb', te', ex⟩ := S.ok pres hpres [.null] sv rt tb te (by simp)
  have e1 := ex []
  rw [List.append_nil] at e1
  have e2 : execFrom c ⟨[] ++ [Item.null], sv, rt, tb, te⟩ (tkStepS ad p s) =
      .ok ⟨[Item.chain (pres.map (rawOf c.acc))] ++ [Item.null], sv, rt, tb', te'⟩ := e1
  obtain ⟨stk', tb2, te2, hst, hrun⟩ := execFrom_unframe c _ (local_tkStepS ad p s hp) [] sv rt tb te _ e2
  have hstk : [Item.chain (pres.map (rawOf c.acc))] = stk' := by
    have := congrArg St.stack hst
    exact List.append_cancel_right this
  have htb : tb' = tb2 := congrArg St.tb hst
  have hte : te' = te2 := congrArg St.te hst
  subst hstk; subst htb; subst hte
  refine ⟨tb', te', fun rest => ?_⟩
  rw [execFrom_append, hrun]
  rfl

/-! ### `Build` with the `$` that was not written, the machine without it -/

/-- the chain linked with `$` in front (`L1`) and without it (`L2`) -/
def HeadInv (L1 L2 : List N) : Prop :=
  (∃ r m X, L1 = r :: m :: X ∧ L2 = m :: X ∧ isHead r = true ∧ r.info.vg = false ∧ isPlain m = true) ∨
  (∃ i n P1 P2 Y, L1 = .afn i n P1 :: Y ∧ L2 = .afn i n P2 :: Y ∧ delRoot P1 = delRoot P2)

/-- `deleteRootIdentifier` after `updateRootValueGroup` gives the same chain -/
theorem HeadInv.fin {L1 L2 : List N} (h : HeadInv L1 L2) :
    delRoot (Build.markVg L1) = delRoot (Build.markVg L2) := by
  rcases h with ⟨r, m, X, rfl, rfl, hr, hv, hm⟩ | ⟨i, n, P1, P2, Y, rfl, rfl, hP⟩
  · rw [delRoot_markVg_head r m X hr hv, markVg_cons]
    split
    · rw [delRoot_cons, delRootNode_plain _ _ (by rw [setVg_isPlain]; exact hm)]
    · rw [delRoot_cons, delRootNode_plain _ _ hm]
  · have hany : (N.afn i n P1 :: Y).any (fun x => x.info.vg) = (N.afn i n P2 :: Y).any (fun x => x.info.vg) := by
      simp [List.any_cons, N.info]
    rw [markVg_cons, markVg_cons, hany]
    split
    · simp only [N.setVg, delRoot_cons, delRootNode_afn, hP]
    · simp only [delRoot_cons, delRootNode_afn, hP]

theorem HeadInv.snoc {L1 L2 : List N} (h : HeadInv L1 L2) (y : N) : HeadInv (L1 ++ [y]) (L2 ++ [y]) := by
  rcases h with ⟨r, m, X, rfl, rfl, hr, hv, hm⟩ | ⟨i, n, P1, P2, Y, rfl, rfl, hP⟩
  · exact .inl ⟨r, m, X ++ [y], rfl, rfl, hr, hv, hm⟩
  · exact .inr ⟨i, n, P1, P2, Y ++ [y], rfl, rfl, hP⟩

theorem HeadInv.linkFn (a : Bool) {L1 L2 : List N} (h : HeadInv L1 L2) (p : Pre) :
    HeadInv (linkFn a L1 p) (linkFn a L2 p) := by
  cases p with
  | afn t n =>
    refine .inr ⟨_, n, _, _, [], rfl, rfl, ?_⟩
    rw [delRoot_setAcc, delRoot_setAcc, h.fin]
  | node t vg mk => simp only [PP.linkFn]; exact h.snoc _
  | ffn t n => simp only [PP.linkFn]; exact h.snoc _

theorem HeadInv.linkPres (a : Bool) : ∀ (ps : List Pre) {L1 L2 : List N}, HeadInv L1 L2 →
    HeadInv (linkPres a L1 ps) (linkPres a L2 ps)
  | [], _, _, h => h
  | p :: ps, _, _, h => by
    rw [linkPres_cons, linkPres_cons]
    exact HeadInv.linkPres a ps (h.linkFn a p)

/-- the final chain of a path whose first written element is a plain node: with `$` linked in front and
    then deleted, or never there -/
theorem headless_eq (a : Bool) (p0 : Pre) (hn : NicePre p0) (hf : isFnPre p0 = false) (ps : List Pre) :
    delRoot (Build.markVg (linkPres a [headRaw a .root] (p0 :: ps))) =
      delRoot (Build.markVg (linkPres a [rawOf a p0] ps)) := by
  rw [linkPres_cons]
  apply HeadInv.fin
  apply HeadInv.linkPres
  have : PP.linkFn a [headRaw a .root] p0 = [headRaw a .root, rawOf a p0] := by
    cases p0 with
    | node t vg mk => rfl
    | ffn t n => cases hf
    | afn t n => cases hf
  rw [this]
  exact .inl ⟨_, _, [], rfl, rfl, headRaw_isHead a .root, headRaw_vg a .root, nice_raw_plain a p0 hn hf⟩

/-! ### the whole path without its `$` -/

theorem stepWf_plain (s : SStep) (hp : isPlainStep s = true) (ad ad' : Bool) :
    Spell.stepWf ad s = Spell.stepWf ad' s := by
  cases s with
  | child f k => simp only [Spell.stepWf]
  | wild f => simp only [Spell.stepWf]
  | multi lb n ns rb => simp only [Spell.stepWf]
  | union lb s ss rb => simp only [Spell.stepWf]
  | filter _ _ _ _ _ => cases hp
  | desc _ => cases hp

theorem plain_not_desc (s : SStep) (hp : isPlainStep s = true) : ∀ s', s ≠ .desc s' := by
  intro s' h; subst h; cases hp

/-- a plain step is always built -/
theorem stepPre_plain_ok (env : Env) (cfg : Cfg) (ad : Bool) (s : SStep) (hp : isPlainStep s = true) :
    ∃ pres, stepPre env cfg (Spell.stepT true ad s) = .ok pres := by
  cases s with
  | child f k => rw [Spell.stepT, stepPre]; exact ⟨_, rfl⟩
  | wild f => rw [Spell.stepT, stepPre]; exact ⟨_, rfl⟩
  | multi lb n ns rb => rw [Spell.stepT, stepPre]; exact ⟨_, rfl⟩
  | union lb s ss rb => rw [Spell.stepT, stepPre_union']; exact ⟨_, rfl⟩
  | filter _ _ _ _ _ => cases hp
  | desc _ => cases hp

/-- the tokens of a path written without `$` whose first step is plain, on the empty stack, against
    `buildPath` on the path WITH the head `$` -/
theorem path_core0 (c : Ctx) (cfg : Cfg) (s : SStep) (ss : List SStep) (fns : List Fn)
    (hnd : ∀ s', s ≠ .desc s') (h0 : SStepSim0 c cfg true s)
    (hok0 : ∃ pres, stepPre c.env cfg (Spell.stepT true true s) = .ok pres)
    (hs : ∀ x ∈ ss, SStepSim c cfg false x) (hk : ∀ f ∈ fns, fnKindOK c.env f) {p : Nat} {r : List Char}
    (hsfx : Sfx c.input p (Spell.step true s ++ (Spell.steps ss ++ (fnsText fns ++ r)))) :
    ∃ pos, ∀ (sv : List (List Item)) (rt : Option (List N)) (tb te : Nat),
    (∀ ch, buildPath c.env cfg true
        (.mk .root (Spell.stepT true true s :: Spell.stepsT true ss) (fns.map Print.fnT)) = .ok ch →
      ∃ p0 sp, NicePre p0 ∧ isFnPre p0 = false ∧
        stepsPre c.env cfg (Spell.stepT true true s :: Spell.stepsT true ss) = .ok (p0 :: sp) ∧
        (∀ f ∈ fns, fnFound c.env f = true) ∧
        ∃ tb' te', ∀ rest, execFrom c ⟨[], sv, rt, tb, te⟩
            (tkStepS true p s ++ (tkStepsS (p + (Spell.step true s).length) ss ++
              (toksStar fnText tkFn fns (p + (Spell.step true s).length + (Spell.steps ss).length) ++
                ([.action 2] ++ rest)))) =
          execFrom c ⟨[.chain (Build.markVg (linkPres c.acc [rawOf c.acc p0] (sp ++ fns.map fnPreT)))],
            sv, rt, tb', te'⟩ rest) ∧
    (∀ e, buildPath c.env cfg true
        (.mk .root (Spell.stepT true true s :: Spell.stepsT true ss) (fns.map Print.fnT)) = .error e →
      ∀ rest, execFrom c ⟨[], sv, rt, tb, te⟩
          (tkStepS true p s ++ (tkStepsS (p + (Spell.step true s).length) ss ++
            (toksStar fnText tkFn fns (p + (Spell.step true s).length + (Spell.steps ss).length) ++
              ([.action 2] ++ rest)))) = .error (stopOf pos e)) := by
  obtain ⟨pres0, hpre0⟩ := hok0
  obtain ⟨t0, vg0, mk0, rfl, hmk0⟩ := stepPre_single c.env cfg _ (stepT_not_desc_s true true s hnd) pres0 hpre0
  have h1 := hsfx.append
  obtain ⟨pos, hss⟩ := stepsSim_of_s c cfg ss _ _ hs h1
  refine ⟨pos, fun sv rt tb te => ?_⟩
  obtain ⟨tb0, te0, e0⟩ := h0 p _ hsfx _ hpre0 sv rt tb te
  simp only [List.map_cons, List.map_nil] at e0
  have h2 := h1.append
  rw [fnsText_eq_flat] at h2
  cases hsp : stepsPre c.env cfg (Spell.stepsT true ss) with
  | error e1 =>
    have hsp' : stepsPre c.env cfg (Spell.stepT true true s :: Spell.stepsT true ss) = .error e1 := by
      rw [stepsPre, hpre0, hsp]; rfl
    have hb := buildPath_steps_err' c.env cfg true .root _ (fns.map Print.fnT) e1 hsp'
    refine ⟨fun ch hch => (by rw [hb] at hch; cases hch), fun e he => ?_⟩
    rw [hb] at he
    cases he
    have ex := hss.err _ hsp [.chain [rawOf c.acc (.node t0 vg0 mk0)]] sv rt tb0 te0 (by simp)
    exact fun rest => by rw [e0, ex]
  | ok sp =>
    have hsp' : stepsPre c.env cfg (Spell.stepT true true s :: Spell.stepsT true ss) =
        .ok (.node t0 vg0 mk0 :: sp) := by
      rw [stepsPre, hpre0, hsp]; rfl
    have hnice := stepsPre_nice c.env cfg _ sp hsp
    obtain ⟨groups, hg1, hg2, tb1, te1, e1⟩ := hss.ok sp hsp [.chain [rawOf c.acc (.node t0 vg0 mk0)]] sv rt tb0 te0
      (by simp)
    by_cases hall : ∀ f ∈ fns, fnFound c.env f = true
    · have hb := buildPath_of_sp' c.env cfg true c.acc .root _ fns _ hsp' hall
      refine ⟨fun ch _ => ⟨.node t0 vg0 mk0, sp, hmk0, rfl, hsp', hall, ?_⟩,
        fun e he => (by rw [hb] at he; cases he)⟩
      obtain ⟨tb2, te2, e2⟩ := exec_fns c sv rt fns (p + (Spell.step true s).length + (Spell.steps ss).length) r
        (groupItems c.acc groups ++ [.chain [rawOf c.acc (.node t0 vg0 mk0)]]) tb1 te1
        (fun f hf => ⟨hk f hf, hall f hf⟩) h2
      refine ⟨tb2, te2, fun rest => ?_⟩
      rw [e0, e1, e2]
      simp only [List.singleton_append, execFrom_action]
      have hlink : linkAll [rawOf c.acc (.node t0 vg0 mk0)]
          (groups.map (fun g => Item.chain (g.map (rawOf c.acc))) ++
            fns.map (fun f => Item.chain [rawOf c.acc (fnPreT f)])) =
          .ok (linkPres c.acc [rawOf c.acc (.node t0 vg0 mk0)] (sp ++ fns.map fnPreT)) := by
        rw [linkAll_append, linkAll_groups c.acc groups _ (fun g hg => ⟨hg2 g hg, fun q hq =>
          hnice q (by rw [← hg1]; exact List.mem_flatten.mpr ⟨g, hg, hq⟩)⟩)]
        simp only [bind, Except.bind]
        rw [linkAll_fns, hg1, linkPres_append, linkPres_nodes c.acc sp _ (fun q hq => (hnice q hq).2)]
      have hstack : (fns.map (fun f => Item.chain [rawOf c.acc (fnPreT f)])).reverse ++
          (groupItems c.acc groups ++ [Item.chain [rawOf c.acc (.node t0 vg0 mk0)]]) =
          (groups.map (fun g => Item.chain (g.map (rawOf c.acc))) ++
            fns.map (fun f => Item.chain [rawOf c.acc (fnPreT f)])).reverse ++
              [Item.chain [rawOf c.acc (.node t0 vg0 mk0)]] := by
        simp [groupItems]
      rw [hstack, act2_eq c _ _ _ (by simp) hlink]
      rfl
    · obtain ⟨fs1, f, fs2, rfl, hf1, hf2⟩ := fns_split c.env fns hall
      have hb := buildPath_missing_of_sp' c.env cfg true .root _ fs1 f fs2 _ hsp' hf1 hf2
      refine ⟨fun ch hch => (by rw [hb] at hch; cases hch), fun e he => ?_⟩
      rw [hb] at he
      cases he
      intro rest
      rw [e0, e1, stopOf_fn _ 0]
      exact exec_fns_missing c sv rt fs1 f fs2 _ r _ tb1 te1
        (fun g hg => ⟨hk g (by simp [hg]), hf1 g hg⟩) (hk f (by simp)) hf2 h2 _

/-- the first step is neither `..` nor a filter -/
def firstPlain (a : SPath) : Bool :=
  match a.steps with
  | s :: _ => isPlainStep s
  | [] => false

theorem tkTopS_nodollar (lead : Nat) (s : SStep) (ss : List SStep) (fns : List Fn) (trail : Nat) :
    tkTopS ⟨lead, false, s :: ss, fns, trail⟩ =
      tkStepS true lead s ++ (tkStepsS (lead + (Spell.step true s).length) ss ++
        (toksStar fnText tkFn fns (lead + (Spell.step true s).length + (Spell.steps ss).length) ++
          ([.action 2] ++ [.action 0]))) := by
  simp only [tkTopS, tkTopStepsS, Spell.topSteps, Bool.false_eq_true, if_false, List.append_assoc,
    List.length_append, Nat.add_assoc, List.cons_append, List.nil_append]

/-- **parse ∘ spell = build ∘ texts** for a spelled path written WITHOUT its `$` whose first step is a
    name, a wildcard, a multi-name selector or a union -/
theorem spell_parse_nodollar (env : Env) (ext : Ext) (cfg : Cfg) (lead : Nat) (s : SStep) (ss : List SStep)
    (fns : List Fn) (trail : Nat) (hwf : Spell.wf ⟨lead, false, s :: ss, fns, trail⟩ = true)
    (hp : isPlainStep s = true) (hnc : Spell.noColon ⟨lead, false, s :: ss, fns, trail⟩ = true)
    (hext : ExtOKS ext ⟨lead, false, s :: ss, fns, trail⟩) (henv : EnvOKS env ⟨lead, false, s :: ss, fns, trail⟩) :
    ∃ pos, parseModel env ext cfg (Spell.printS ⟨lead, false, s :: ss, fns, trail⟩) =
      outcomeOfBuild (Spell.print ⟨lead, false, s :: ss, fns, trail⟩).toArray pos
        (Build.build env cfg (Spell.texts ⟨lead, false, s :: ss, fns, trail⟩)) := by
  have hrec := recognise_spell _ hwf
  generalize hA : (Spell.print ⟨lead, false, s :: ss, fns, trail⟩).toArray = inp at hrec ⊢
  have hwf' : ((Spell.stepWf false s = true ∧ Spell.stepsWf ss = true) ∧ fns.all Print.fnNameOK = true) ∧
      Spell.isDesc s = false := by
    simpa [Spell.wf, Spell.stepsWf] using hwf
  have hnc' : Spell.stepNC s = true ∧ Spell.stepsNC ss = true := by
    simpa [Spell.noColon, Spell.stepsNC] using hnc
  have hext' : stepExtS ext s ∧ stepsExtS ext ss := by
    have := hext; unfold ExtOKS at this; rw [stepsExtS] at this; exact this
  have henv' : (stepEnvS env s ∧ stepsEnvS env ss) ∧ ∀ f ∈ fns, fnKindOK env f := by
    have := henv; unfold EnvOKS at this; rw [stepsEnvS] at this; exact this
  have hs := sim_steps_s ⟨env, ext, cfg.accessor, inp⟩ cfg ss hwf'.1.1.2 hnc'.2 hext'.2 henv'.1.2
  have hs0 : SStepSim ⟨env, ext, cfg.accessor, inp⟩ cfg true s :=
    sim_step_plain_s ⟨env, ext, cfg.accessor, inp⟩ cfg true s hp
      (by rw [stepWf_plain s hp true false]; exact hwf'.1.1.1) hnc'.1 hext'.1
  have h0 := sim0_of_sim _ cfg true s hp hs0
  have hsfx : Sfx inp lead (Spell.step true s ++ (Spell.steps ss ++ (fnsText fns ++ Spell.blanks trail))) := by
    have h1 : Spell.print ⟨lead, false, s :: ss, fns, trail⟩ =
        Spell.blanks lead ++ (Spell.step true s ++ (Spell.steps ss ++ (fnsText fns ++ Spell.blanks trail))) := by
      simp [Spell.print, Spell.topSteps]
    have h2 := Sfx.zero (Spell.print ⟨lead, false, s :: ss, fns, trail⟩)
    rw [hA] at h2
    rw [h1] at h2
    simpa using sfx_blanks h2
  obtain ⟨pos, hcore⟩ := path_core0 ⟨env, ext, cfg.accessor, inp⟩ cfg s ss fns (plain_not_desc s hp) h0
    (stepPre_plain_ok env cfg true s hp) hs henv'.2 hsfx
  obtain ⟨hok, herr⟩ := hcore [] none 0 0
  refine ⟨pos, ?_⟩
  have htexts : Spell.texts ⟨lead, false, s :: ss, fns, trail⟩ =
      .mk .root (Spell.stepT true true s :: Spell.stepsT true ss) (fns.map Print.fnT) := by
    simp [Spell.texts, Spell.topStepsT, fnW_true]
  have hpm : parseModel env ext cfg (Spell.printS ⟨lead, false, s :: ss, fns, trail⟩) = parseInput env ext cfg inp := by
    rw [parseModel_spell, hA]
  rw [hpm, parseInput_of_recognise env ext cfg hrec, exec_eq, tkTopS_nodollar, Build.build, htexts]
  cases hb : buildPath env cfg true
      (.mk .root (Spell.stepT true true s :: Spell.stepsT true ss) (fns.map Print.fnT)) with
  | ok ch =>
    obtain ⟨p0, sp, hn0, hf0, hsp, hall, tb', te', ex⟩ := hok ch hb
    have hb' := buildPath_of_sp' env cfg true cfg.accessor .root _ fns _ hsp hall
    rw [hb'] at hb
    cases hb
    have hne : linkPres cfg.accessor [rawOf cfg.accessor p0] (sp ++ fns.map fnPreT) ≠ [] :=
      linkPres_ne_nil _ _ _ (by simp)
    rw [ex, exec_finish _ _ (markVg_ne_nil hne)]
    have hnice := stepsPre_nice env cfg _ _ hsp
    have hTA : TA cfg.accessor (linkPres cfg.accessor [rawOf cfg.accessor p0] (sp ++ fns.map fnPreT)) := by
      apply TA.linkPres
      · intro n hn
        simp only [List.mem_singleton] at hn
        subst hn
        cases p0 with
        | node t vg mk =>
          have hm : NiceMk mk := hn0
          simp only [rawOf, nodeWith]
          rw [hm.acc]
        | ffn t n => cases hf0
        | afn t n => cases hf0
      · intro q hq
        rcases List.mem_append.mp hq with hq | hq
        · exact (hnice q (List.mem_cons_of_mem _ hq)).1
        · obtain ⟨f, _, rfl⟩ := List.mem_map.mp hq
          cases f <;> trivial
    have := (hTA.markVg).delRoot
    rw [List.cons_append, headless_eq cfg.accessor p0 hn0 hf0]
    show ParseOutcome.ok (connChain "" (delRoot (Build.markVg
        (linkPres cfg.accessor [rawOf cfg.accessor p0] (sp ++ fns.map fnPreT))))) =
      ParseOutcome.ok (ccChain true "" (setAccChain (true && cfg.accessor)
        (delRoot (Build.markVg (linkPres cfg.accessor [rawOf cfg.accessor p0] (sp ++ fns.map fnPreT))))))
    simp only [ccChain, Bool.true_and, if_true, this.setAcc]
  | error e =>
    rw [herr e hb]
    rfl

/-- **parse ∘ spell = build ∘ texts**, exactly: with the `$`, or without it in front of a plain first step -/
theorem spell_parse_exact' (env : Env) (ext : Ext) (cfg : Cfg) (a : SPath) (hwf : Spell.wf a = true)
    (hfp : a.dollar = true ∨ firstPlain a = true) (hnc : Spell.noColon a = true) (hext : ExtOKS ext a)
    (henv : EnvOKS env a) :
    ∃ pos, parseModel env ext cfg (Spell.printS a) =
      outcomeOfBuild (Spell.print a).toArray pos (Build.build env cfg (Spell.texts a)) := by
  by_cases hd : a.dollar = true
  · exact spell_parse_exact env ext cfg a hwf hd hnc hext henv
  · have hfp' : firstPlain a = true := hfp.resolve_left hd
    obtain ⟨lead, dollar, steps, fns, trail⟩ := a
    have hd' : dollar = false := by simpa using hd
    subst hd'
    cases steps with
    | nil => simp [firstPlain] at hfp'
    | cons s ss =>
      exact spell_parse_nodollar env ext cfg lead s ss fns trail hwf (by simpa [firstPlain] using hfp') hnc hext henv

end JPV.SP
