/-
ParsePrintChain — algebra of the chain operations of the action machine
(`connChain`, `connNode`, `delRoot`, `markVg`, `setAccChain`) and of `Build` (`deleteHead`, `finish`).
-/
import JPV.Peg.Actions
import JPV.Lemmas.ParsePrintInfos
namespace JPV.PP
open JPV.Peg JPV.Build

/-! ### the two `markVg` are the same function -/

theorem markVg_eq (l : List N) : Peg.markVg l = Build.markVg l := by
  cases l <;> rfl

/-! ### unfolding -/

/-- what `setConnectedText` appends to the text of a node: the connected text of the next node, or
    the postfix at the end of the chain -/
def connApp (pfx : String) : List N → String
  | [] => pfx
  | m :: _ => m.info.conn

theorem connChain_nil (c : String) : connChain c [] = [] := by rw [connChain]

theorem connChain_cons (c : String) (n : N) (rest : List N) :
    connChain c (n :: rest) = connNode (n.info.text ++ connApp c (connChain c rest)) n :: connChain c rest := by
  rw [connChain]
  cases connChain c rest <;> rfl

theorem delRoot_nil : delRoot [] = [] := by rw [delRoot]
theorem delRoot_cons (n : N) (rest : List N) : delRoot (n :: rest) = delRootNode n rest := by rw [delRoot]

/-- a node that is neither `$`, `@` nor an aggregate function -/
def isPlain : N → Bool
  | .root _ => false
  | .cur _ => false
  | .afn _ _ _ => false
  | _ => true

def isHead : N → Bool
  | .root _ => true
  | .cur _ => true
  | _ => false

theorem delRootNode_plain (n : N) (rest : List N) (h : isPlain n = true) : delRootNode n rest = n :: rest := by
  cases n <;> simp_all [isPlain, delRootNode]

theorem delRootNode_head_cons (n m : N) (rest : List N) (h : isHead n = true) :
    delRootNode n (m :: rest) = (if n.info.vg then m.setVg else m) :: rest := by
  cases n with
  | root i => rw [delRootNode]; rfl
  | cur i => rw [delRootNode]; rfl
  | _ => simp [isHead] at h

theorem delRootNode_head_nil (n : N) (h : isHead n = true) : delRootNode n [] = [n] := by
  cases n <;> simp_all [isHead, delRootNode]

theorem delRootNode_afn (i : Info) (name : String) (p rest : List N) :
    delRootNode (.afn i name p) rest = .afn i name (delRoot p) :: rest := by rw [delRootNode]

theorem deleteHead_head_cons (n m : N) (rest : List N) (h : isHead n = true) :
    deleteHead (n :: m :: rest) = m :: rest := by
  cases n <;> simp_all [isHead, deleteHead]

theorem deleteHead_single (n : N) : deleteHead [n] = [n] := by
  cases n <;> simp [deleteHead]

theorem deleteHead_not_head (n : N) (rest : List N) (h : isHead n = false) : deleteHead (n :: rest) = n :: rest := by
  cases n <;> simp_all [isHead, deleteHead]

/-! ### node-level facts (all by cases on the node) -/

theorem connNode_info (c : String) (n : N) : (connNode c n).info = { n.info with conn := c } := by
  cases n <;> simp [connNode, N.info]

theorem nSetAcc_info (a : Bool) (n : N) : (nSetAcc a n).info = { n.info with acc := a } := by
  cases n <;> simp [nSetAcc, nMapInfoDeep, nMapInfo, N.info]

theorem setVg_info (n : N) : n.setVg.info = { n.info with vg := true } := by
  cases n <;> simp [N.setVg, N.info]

theorem connNode_setVg (c : String) (n : N) : connNode c n.setVg = (connNode c n).setVg := by
  cases n <;> simp [connNode, N.setVg]

theorem nSetAcc_setVg (a : Bool) (n : N) : nSetAcc a n.setVg = (nSetAcc a n).setVg := by
  cases n <;> simp [nSetAcc, nMapInfoDeep, nMapInfo, N.setVg]

theorem connNode_isHead (c : String) (n : N) : isHead (connNode c n) = isHead n := by
  cases n <;> simp [connNode, isHead]

theorem nSetAcc_isHead (a : Bool) (n : N) : isHead (nSetAcc a n) = isHead n := by
  cases n <;> simp [nSetAcc, nMapInfoDeep, nMapInfo, isHead]

theorem setVg_isHead (n : N) : isHead n.setVg = isHead n := by
  cases n <;> simp [N.setVg, isHead]

theorem nSetAcc_isPlain (a : Bool) (n : N) : isPlain (nSetAcc a n) = isPlain n := by
  cases n <;> simp [nSetAcc, nMapInfoDeep, nMapInfo, isPlain]

theorem setVg_isPlain (n : N) : isPlain n.setVg = isPlain n := by
  cases n <;> simp [N.setVg, isPlain]

theorem nSetAcc_afn (a : Bool) (i : Info) (name : String) (p : List N) :
    nSetAcc a (.afn i name p) = .afn { i with acc := a } name p := rfl

theorem connNode_afn (c : String) (i : Info) (name : String) (p : List N) :
    connNode c (.afn i name p) = .afn { i with conn := c } name (connChain c p) := by rw [connNode]

theorem nSetAcc_idem (a : Bool) (n : N) : nSetAcc a (nSetAcc a n) = nSetAcc a n := by
  cases n <;> simp [nSetAcc, nMapInfoDeep, nMapInfo, List.map_map, Option.map_map]
  constructor
  · intro x _; cases x <;> simp [midMapInfo]
  · congr 1

/-! ### chain-level facts -/

theorem connChain_length (c : String) : ∀ (l : List N), (connChain c l).length = l.length
  | [] => by rw [connChain_nil]
  | n :: rest => by rw [connChain_cons]; simp [connChain_length c rest]

theorem connChain_eq_nil (c : String) (l : List N) : connChain c l = [] ↔ l = [] := by
  have := connChain_length c l
  cases l with
  | nil => simp [connChain_nil]
  | cons n rest =>
    simp only [reduceCtorEq, iff_false]
    intro h; rw [h] at this; simp at this

/-- appending one node at the end -/
theorem connChain_snoc (s : String) (y : N) : ∀ (X : List N),
    connChain s (X ++ [y]) = connChain (y.info.text ++ s) X ++ [connNode (y.info.text ++ s) y]
  | [] => by simp [connChain_cons, connChain_nil, connApp]
  | n :: X => by
    rw [List.cons_append, connChain_cons, connChain_cons, connChain_snoc s y X]
    congr 2
    cases X with
    | nil => simp [connChain_nil, connApp, connNode_info]
    | cons m X' =>
      rw [connChain_cons]
      rfl

theorem connChain_vg (c : String) : ∀ (l : List N),
    (connChain c l).map (fun x => x.info.vg) = l.map (fun x => x.info.vg)
  | [] => by rw [connChain_nil]
  | n :: rest => by
    rw [connChain_cons]
    simp [connNode_info, connChain_vg c rest]

theorem setAcc_vg (a : Bool) (l : List N) :
    (setAccChain a l).map (fun x => x.info.vg) = l.map (fun x => x.info.vg) := by
  simp [setAccChain, List.map_map, Function.comp_def, nSetAcc_info]

theorem any_vg_of_map {l1 l2 : List N} (h : l1.map (fun x => x.info.vg) = l2.map (fun x => x.info.vg)) :
    l1.any (fun x => x.info.vg) = l2.any (fun x => x.info.vg) := by
  have e1 : l1.any (fun x => x.info.vg) = (l1.map (fun x => x.info.vg)).any id := by simp [List.any_map]
  have e2 : l2.any (fun x => x.info.vg) = (l2.map (fun x => x.info.vg)).any id := by simp [List.any_map]
  rw [e1, e2, h]

/-- `markVg` commutes with operations that keep the value-group flags and commute with `setVg` on
    the head -/
theorem markVg_cons (n : N) (rest : List N) :
    Build.markVg (n :: rest) = if (n :: rest).any (fun x => x.info.vg) then n.setVg :: rest else n :: rest := rfl

theorem connChain_markVg (c : String) (l : List N) :
    connChain c (Build.markVg l) = Build.markVg (connChain c l) := by
  cases l with
  | nil => simp [Build.markVg, connChain_nil]
  | cons n rest =>
    have hany : (connChain c (n :: rest)).any (fun x => x.info.vg) = (n :: rest).any (fun x => x.info.vg) :=
      any_vg_of_map (connChain_vg c _)
    rw [markVg_cons]
    rw [connChain_cons] at hany ⊢
    rw [markVg_cons, hany]
    split
    · rw [connChain_cons, setVg_info, connNode_setVg]
    · rfl

theorem setAcc_markVg (a : Bool) (l : List N) :
    setAccChain a (Build.markVg l) = Build.markVg (setAccChain a l) := by
  cases l with
  | nil => rfl
  | cons n rest =>
    have hany : (setAccChain a (n :: rest)).any (fun x => x.info.vg) = (n :: rest).any (fun x => x.info.vg) :=
      any_vg_of_map (setAcc_vg a _)
    rw [markVg_cons]
    simp only [setAccChain, List.map_cons] at hany ⊢
    rw [markVg_cons, hany]
    split
    · simp [nSetAcc_setVg]
    · rfl

theorem node_kind (n : N) : isHead n = true ∨ (∃ i name p, n = .afn i name p) ∨ isPlain n = true := by
  cases n <;> simp [isHead, isPlain]

theorem delRootNode_setAcc (a : Bool) (n : N) (rest : List N) :
    delRootNode (nSetAcc a n) (rest.map (nSetAcc a)) = (delRootNode n rest).map (nSetAcc a) := by
  rcases node_kind n with h | ⟨i, name, p, rfl⟩ | h
  · have h' : isHead (nSetAcc a n) = true := by rw [nSetAcc_isHead]; exact h
    cases rest with
    | nil => simp [delRootNode_head_nil _ h, delRootNode_head_nil _ h']
    | cons m rest =>
      rw [List.map_cons, delRootNode_head_cons _ _ _ h, delRootNode_head_cons _ _ _ h', nSetAcc_info]
      simp only [List.map_cons]
      split <;> simp [nSetAcc_setVg]
  · rw [nSetAcc_afn, delRootNode_afn, delRootNode_afn]
    simp [nSetAcc_afn]
  · have h' : isPlain (nSetAcc a n) = true := by rw [nSetAcc_isPlain]; exact h
    rw [delRootNode_plain _ _ h, delRootNode_plain _ _ h']
    rfl

theorem delRoot_setAcc (a : Bool) (l : List N) : delRoot (setAccChain a l) = setAccChain a (delRoot l) := by
  cases l with
  | nil => simp [setAccChain, delRoot_nil]
  | cons n rest =>
    have := delRootNode_setAcc a n rest
    simp only [setAccChain, List.map_cons, delRoot_cons] at this ⊢
    exact this

end JPV.PP
