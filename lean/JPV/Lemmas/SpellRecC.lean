/-
SpellRecC — recogniser lemmas for SPELLED paths (JPV/Spell.lean), part C: one spelled step after `..` /
in the place of an omitted `$` (`afterDesc`) and as a `childNode`, the loop `childNode*` over the steps of
a spelled path that is followed by functions, `k` blanks and a path end, `continuedJsonpath`,
`jsonpathParameter` on a path inside a filter (`acc_opath`), and the recogniser on a whole spelled path
(`recognise_top`): leading blanks, `$` or the first step in the place of `$`, steps, functions, trailing
blanks.

Generalises ParsePrintRecC / ParsePrintRecD / ParsePrintRecBlank (worker L14) from `Print.step` to
`Spell.step`. The brackets of plain steps come from SpellRecB (`acc_bracket_step`), the brackets of
filter steps are a hypothesis (`FilterHypS`), discharged in SpellRecF.
-/
import JPV.Lemmas.SpellRecB
import JPV.Lemmas.ParsePrintRecBlank
namespace JPV.SP
open JPV.Peg JPV.PP JPV.Lex
open JPV.Print (fnText fnsText headChar dotSpellable fnNameOK)
open JPV.Spell (SStep SOpPath SPath brP)

variable {inp : Array Char}

/-! ### what follows a path: `k` blanks and a path end -/

theorem sblanks_length (k : Nat) : (Spell.blanks k).length = k := by simp [Spell.blanks]

theorem sblanks_succ (k : Nat) : Spell.blanks (k + 1) = ' ' :: Spell.blanks k := rfl

/-- blanks and a path end stop a step -/
theorem tail_stepStop (k : Nat) {r : List Char} (hr : PathStop r) : StepStop (Spell.blanks k ++ r) := by
  cases k with
  | zero => simpa [Spell.blanks] using hr.stepStop
  | succ k => exact .inr rfl

/-- neither a step nor a function starts there -/
theorem tail_noDotBracket (k : Nat) {r : List Char} (hr : PathStop r) :
    startsWith (fun c => c == '.' || c == '[') (Spell.blanks k ++ r) = false := by
  cases k with
  | zero => simpa [Spell.blanks] using hr.noDotBracket
  | succ k => rfl

/-- `function*` over `.f().g()` in front of something that does not start with a dot -/
theorem acc_functions_t (fns : List Fn) (hfns : fns.all fnNameOK = true) {p : Nat} (post : List Char)
    (hpost : startsWith (fun c => c == '.' || c == '[') post = false)
    (h : Sfx inp p (flat fnText fns ++ post)) :
    Acc (14 + 32 * (flat fnText fns).length) (.star (.rule "function")) inp p
      (p + (flat fnText fns).length) (toksStar fnText tkFn fns p) := by
  refine (acc_star_items (inp := inp) (.rule "function") fnText tkFn (fun f => fnNameOK f = true)
    (fun _ => True) 12 5 post trivial ?_ ?_ ?_ ?_ fns p ?_ h).mono (by omega)
  · intro _ _ _; trivial
  · intro f _; exact fnText_length_pos f
  · intro f r' pos hf _ hs; exact acc_function f hf hs
  · intro pos hs
    exact rej_function hs (startsWith_false_of_imp (by intro c hc; simp at hc; simp [hc]) hpost)
  · intro f hf; exact List.all_eq_true.mp hfns f hf

/-- `childNode` fails where the steps of a spelled path end -/
theorem rej_childNode_post_t (fns : List Fn) (hfns : fns.all fnNameOK = true) {p : Nat} (post : List Char)
    (hpost : startsWith (fun c => c == '.' || c == '[') post = false)
    (h : Sfx inp p (fnsText fns ++ post)) :
    Rej (30 + (fnsText fns).length) (.rule "childNode") inp p := by
  cases fns with
  | nil => exact (rej_childNode_nostep h hpost).mono (by omega)
  | cons f fs =>
    simp only [fnsText, List.append_assoc] at h
    have hf : fnNameOK f = true := by simp only [List.all_cons, Bool.and_eq_true] at hfns; exact hfns.1
    refine (rej_childNode_fn f hf h).mono ?_
    simp only [fnsText, List.length_append]; omega

/-! ### one spelled step -/

theorem stepWf_child_dot {ad : Bool} {k : String} (h : Spell.stepWf ad (.child .dot k) = true) :
    dotSpellable k.toList = true := by
  simpa [Spell.stepWf] using h

/-- a step right after `..`, or in the place of an omitted `$` -/
theorem acc_step_true_s (s : SStep) (hwf : Spell.stepWf true s = true) (hf : FilterHypS inp s) {p : Nat}
    {r : List Char} (h : Sfx inp p (Spell.step true s ++ r)) (hr : StepStop r) :
    Acc (95 + 32 * (Spell.step true s).length) afterDesc inp p (p + (Spell.step true s).length)
      (tkStepS true p s) := by
  cases s with
  | child f k =>
    cases f with
    | dot =>
      have hk := stepWf_child_dot hwf
      simp only [Spell.step, Spell.childP, if_true] at h ⊢
      simp only [tkStepS, if_true]
      exact (acc_afterDesc_key k.toList hk h hr).mono (by omega)
    | br lb q rb => exact (acc_afterDesc_bracket (acc_bracket_step _ rfl true hwf h)).mono (by omega)
  | wild f =>
    cases f with
    | dot =>
      simp only [Spell.step, Spell.wildP, if_true, List.cons_append, List.nil_append] at h ⊢
      simp only [tkStepS, if_true]
      exact (acc_afterDesc_wild h).mono (by simp)
    | br lb rb => exact (acc_afterDesc_bracket (acc_bracket_step _ rfl true hwf h)).mono (by omega)
  | multi lb n ns rb => exact (acc_afterDesc_bracket (acc_bracket_step _ rfl true hwf h)).mono (by omega)
  | union lb s ss rb => exact (acc_afterDesc_bracket (acc_bracket_step _ rfl true hwf h)).mono (by omega)
  | filter b0 b1 q b2 b3 =>
    have hf' : RecBracketFilterS inp b0 b1 q b2 b3 := by simpa only [FilterHypS] using hf
    exact (acc_afterDesc_bracket (hf' true p r h)).mono (by omega)
  | desc s => simp [Spell.stepWf] at hwf

/-- a bracket step starts with `[` -/
theorem bracket_step_cons (s : SStep) (ad : Bool) (hb : isBracketStep s = true) :
    ∃ l, Spell.step ad s = '[' :: l := by
  cases s with
  | child f k =>
    cases f with
    | dot => cases hb
    | br lb q rb =>
      exact ⟨Spell.blanks lb ++ (Spell.nameP (.key q k) ++ (Spell.blanks rb ++ [']'])),
        by simp only [Spell.step, Spell.childP, brP]⟩
  | wild f =>
    cases f with
    | dot => cases hb
    | br lb rb =>
      exact ⟨Spell.blanks lb ++ (['*'] ++ (Spell.blanks rb ++ [']'])), by simp only [Spell.step, Spell.wildP, brP]⟩
  | multi lb n ns rb =>
    exact ⟨Spell.blanks lb ++ (Spell.nameP n ++ Spell.sepsP Spell.nameP ns ++ (Spell.blanks rb ++ [']'])),
      by simp only [Spell.step, brP]⟩
  | union lb s ss rb =>
    exact ⟨Spell.blanks lb ++ (Spell.subP s ++ Spell.sepsP Spell.subP ss ++ (Spell.blanks rb ++ [']'])),
      by simp only [Spell.step, brP]⟩
  | filter b0 b1 q b2 b3 => cases hb
  | desc s => cases hb

theorem acc_childNode_bracket_s (s : SStep) (hb : isBracketStep s = true) (hwf : Spell.stepWf false s = true)
    {p : Nat} {r : List Char} (h : Sfx inp p (Spell.step false s ++ r)) :
    Acc (98 + 32 * (Spell.step false s).length) (.rule "childNode") inp p (p + (Spell.step false s).length)
      (tkStepS false p s) := by
  have a1 := acc_bracket_step s hb false hwf h
  obtain ⟨l, hl⟩ := bracket_step_cons s false hb
  rw [hl, List.cons_append] at h
  exact (acc_childNode_bracket h a1).mono (by omega)

/-- a step as a `childNode` -/
theorem acc_step_false_s (s : SStep) (hwf : Spell.stepWf false s = true) (hf : FilterHypS inp s) {p : Nat}
    {r : List Char} (h : Sfx inp p (Spell.step false s ++ r)) (hr : StepStop r) :
    Acc (110 + 32 * (Spell.step false s).length) (.rule "childNode") inp p (p + (Spell.step false s).length)
      (tkStepS false p s) := by
  cases s with
  | child f k =>
    cases f with
    | dot =>
      have hk := stepWf_child_dot hwf
      simp only [Spell.step, Spell.childP, Bool.false_eq_true, if_false, List.cons_append] at h ⊢
      simp only [tkStepS, Bool.false_eq_true, if_false]
      refine ((acc_childNode_dot k.toList hk h hr).mono ?_).cast ?_ rfl
      · simp only [List.length_cons]; omega
      · simp only [List.length_cons]; omega
    | br lb q rb => exact (acc_childNode_bracket_s _ rfl hwf h).mono (by omega)
  | wild f =>
    cases f with
    | dot =>
      simp only [Spell.step, Spell.wildP, Bool.false_eq_true, if_false, List.cons_append, List.nil_append] at h ⊢
      simp only [tkStepS, Bool.false_eq_true, if_false]
      exact (acc_childNode_wild h).mono (by simp)
    | br lb rb => exact (acc_childNode_bracket_s _ rfl hwf h).mono (by omega)
  | multi lb n ns rb => exact (acc_childNode_bracket_s _ rfl hwf h).mono (by omega)
  | union lb s ss rb => exact (acc_childNode_bracket_s _ rfl hwf h).mono (by omega)
  | filter b0 b1 q b2 b3 =>
    have hf' : RecBracketFilterS inp b0 b1 q b2 b3 := by simpa only [FilterHypS] using hf
    have hb := hf' false p r h
    simp only [Spell.step, List.cons_append] at h
    exact (acc_childNode_bracket h hb).mono (by omega)
  | desc s =>
    have hwf' : Spell.stepWf true s = true := by simpa [Spell.stepWf] using hwf
    have hf' : FilterHypS inp s := by simpa only [FilterHypS] using hf
    simp only [Spell.step, List.cons_append] at h ⊢
    simp only [tkStepS]
    have a1 := acc_step_true_s s hwf' hf' h.tail.tail hr
    refine ((acc_childNode_desc h a1).mono ?_).cast ?_ rfl
    · simp only [List.length_cons]; omega
    · simp only [List.length_cons]; omega

/-- every step written as a `childNode` starts with `.` or `[` -/
theorem step_false_start_s (s : SStep) (r : List Char) :
    startsWith (fun c => c == '.' || c == '[') (Spell.step false s ++ r) = true := by
  cases s with
  | child f k => cases f <;> simp [Spell.step, Spell.childP, brP, startsWith]
  | wild f => cases f <;> simp [Spell.step, Spell.wildP, brP, startsWith]
  | multi lb n ns rb => simp [Spell.step, brP, startsWith]
  | union lb s ss rb => simp [Spell.step, brP, startsWith]
  | filter b0 b1 q b2 b3 => simp [Spell.step, startsWith]
  | desc s => simp [Spell.step, startsWith]

theorem step_false_length_pos_s (s : SStep) : 1 ≤ (Spell.step false s).length := by
  have := step_false_start_s s []
  cases hx : Spell.step false s with
  | nil => rw [hx] at this; cases this
  | cons c l => simp

/-- what the first step in the place of `$` starts with -/
theorem startsWith_step_true (P : Char → Bool) (h1 : P '\\' = false) (h2 : ∀ c, isDotSafe c = true → P c = false)
    (h3 : P '*' = false) (h4 : P '[' = false) (s : SStep) (hwf : Spell.stepWf true s = true) (r : List Char) :
    startsWith P (Spell.step true s ++ r) = false := by
  cases s with
  | child f k =>
    cases f with
    | dot =>
      have hk := stepWf_child_dot hwf
      simp only [Spell.step, Spell.childP, if_true]
      exact startsWith_escDot P false h1 h2 (dotSpellable_ne_nil hk) r
    | br lb q rb => simpa [Spell.step, Spell.childP, brP, startsWith] using h4
  | wild f =>
    cases f with
    | dot => simpa [Spell.step, Spell.wildP, startsWith] using h3
    | br lb rb => simpa [Spell.step, Spell.wildP, brP, startsWith] using h4
  | multi lb n ns rb => simpa [Spell.step, brP, startsWith] using h4
  | union lb s ss rb => simpa [Spell.step, brP, startsWith] using h4
  | filter b0 b1 q b2 b3 => simpa [Spell.step, startsWith] using h4
  | desc s => simp [Spell.stepWf] at hwf

/-! ### the loop over the steps -/

theorem steps_eq_flat_s (ss : List SStep) : Spell.steps ss = flat (Spell.step false) ss := by
  induction ss with
  | nil => simp [Spell.steps, flat]
  | cons s ss ih => simp [Spell.steps, flat, ih]

theorem tkStepsS_eq (ss : List SStep) :
    ∀ p, tkStepsS p ss = toksStar (Spell.step false) (fun s p => tkStepS false p s) ss p := by
  induction ss with
  | nil => intro p; simp [tkStepsS, toksStar]
  | cons s ss ih => intro p; simp [tkStepsS, toksStar, ih]

theorem stepsWf_mem_s : ∀ (ss : List SStep), Spell.stepsWf ss = true → ∀ s ∈ ss, Spell.stepWf false s = true
  | [], _, _, hs => by cases hs
  | s :: ss, h, x, hx => by
    simp only [Spell.stepsWf, Bool.and_eq_true] at h
    rcases List.mem_cons.mp hx with rfl | hx
    · exact h.1
    · exact stepsWf_mem_s ss h.2 x hx

/-- what follows a step of a path: a step, a function, or the blanks and the end of the path -/
theorem stepStop_rest (ss : List SStep) (fns : List Fn) (k : Nat) {r : List Char} (hr : PathStop r) :
    StepStop (Spell.steps ss ++ (fnsText fns ++ (Spell.blanks k ++ r))) := by
  cases ss with
  | nil =>
    cases fns with
    | nil => simpa [Spell.steps, fnsText] using tail_stepStop k hr
    | cons f fs => exact .inr (by simp [Spell.steps, fnsText, fnText, startsWith, isStopChar])
  | cons s ss =>
    refine .inr (startsWith_of_true (P := fun c => c == '.' || c == '[')
      (by intro c hc; simp at hc; rcases hc with rfl | rfl <;> decide) ?_)
    rw [steps_eq_flat_s]
    simp only [flat, List.append_assoc]
    exact step_false_start_s s _

/-- `childNode*` over the steps of a spelled path -/
theorem acc_steps_s (ss : List SStep) (hwf : Spell.stepsWf ss = true) (hf : ∀ s ∈ ss, FilterHypS inp s)
    (fns : List Fn) (hfns : fns.all fnNameOK = true) (k : Nat) {p : Nat} {r : List Char}
    (h : Sfx inp p (Spell.steps ss ++ (fnsText fns ++ (Spell.blanks k ++ r)))) (hr : PathStop r) :
    Acc (111 + 32 * ((Spell.steps ss).length + (fnsText fns).length)) (.star (.rule "childNode")) inp p
      (p + (Spell.steps ss).length) (tkStepsS p ss) := by
  rw [steps_eq_flat_s] at h ⊢
  rw [tkStepsS_eq]
  have hstop_post : StepStop (fnsText fns ++ (Spell.blanks k ++ r)) := by
    simpa [Spell.steps] using stepStop_rest [] fns k hr
  refine (acc_star_items (inp := inp) (.rule "childNode") (Spell.step false) (fun s p => tkStepS false p s)
    (fun s => Spell.stepWf false s = true ∧ FilterHypS inp s) StepStop 110 (30 + (fnsText fns).length)
    (fnsText fns ++ (Spell.blanks k ++ r)) hstop_post ?_ ?_ ?_ ?_ ss p ?_ h).mono (by omega)
  · intro s r' _
    exact .inr (startsWith_of_true (by intro c hc; simp at hc; rcases hc with rfl | rfl <;> decide)
      (step_false_start_s s r'))
  · intro s _; exact step_false_length_pos_s s
  · intro s r' pos hs hstop hsfx; exact acc_step_false_s s hs.1 hs.2 hsfx hstop
  · intro pos hsfx; exact rej_childNode_post_t fns hfns _ (tail_noDotBracket k hr) hsfx
  · intro s hs; exact ⟨stepsWf_mem_s ss hwf s hs, hf s hs⟩

/-- `continuedJsonpath` over the steps and functions of a spelled path; it takes the `k` blanks behind -/
theorem acc_continued_s (ss : List SStep) (hwf : Spell.stepsWf ss = true) (hf : ∀ s ∈ ss, FilterHypS inp s)
    (fns : List Fn) (hfns : fns.all fnNameOK = true) (k : Nat) {p : Nat} {r : List Char}
    (h : Sfx inp p (Spell.steps ss ++ (fnsText fns ++ (Spell.blanks k ++ r)))) (hr : PathStop r) :
    Acc (116 + 32 * ((Spell.steps ss).length + (fnsText fns).length + k)) (.rule "continuedJsonpath") inp p
      (p + ((Spell.steps ss).length + (fnsText fns).length) + k)
      (tkStepsS p ss ++ (toksStar fnText tkFn fns (p + (Spell.steps ss).length) ++ [.action 2])) := by
  have a1 := acc_steps_s ss hwf hf fns hfns k h hr
  have h1 := h.append
  rw [fnsText_eq_flat] at h1 a1 ⊢
  have a2 := acc_functions_t fns hfns _ (tail_noDotBracket k hr) h1
  have h2 : Sfx inp (p + (Spell.steps ss).length + (flat fnText fns).length) (PP.blanks k ++ r) := h1.append
  have a3 := acc_space_n k h2 hr.noSp
  exact ((Acc.rule "continuedJsonpath" continued_body
    (Acc.seq a1 (Acc.seq a2 (Acc.seq a3 (acc_act 2 _))))).mono (by omega)).cast (by omega) (by simp)

/-! ### a path inside a filter -/

/-- a spelled path inside a filter, followed by `k` blanks: `jsonpathParameter` takes the blanks -/
theorem acc_opath (q : SOpPath) (hq : OPathHyp inp q) (k : Nat) {p : Nat} {r : List Char}
    (h : Sfx inp p (Spell.opath q ++ (Spell.blanks k ++ r))) (hr : PathStop r) :
    Acc (120 + 32 * ((Spell.opath q).length + k)) (.rule "jsonpathParameter") inp p
      (p + (Spell.opath q).length + k) (tkOPathS p q) := by
  cases q with
  | mk hd ss fns =>
    have hq' : Spell.opathWf (.mk hd ss fns) = true ∧ ∀ s ∈ ss, FilterHypS inp s := by
      simpa only [OPathHyp] using hq
    have hwf : Spell.stepsWf ss = true ∧ fns.all fnNameOK = true := by
      simpa only [Spell.opathWf, Bool.and_eq_true] using hq'.1
    simp only [Spell.opath, List.cons_append, List.append_assoc] at h
    have a1 := acc_continued_s ss hwf.1 hq'.2 fns hwf.2 k h.tail hr
    refine ((acc_jsonpathParameter_of hd h a1).mono ?_).cast ?_ ?_
    · simp only [Spell.opath, List.length_cons, List.length_append]; omega
    · simp only [Spell.opath, List.length_cons, List.length_append]; omega
    · simp only [tkOPathS]

/-! ### the whole path -/

/-- `expression` on leading blanks, a root (`$`, or the first step in its place), steps, functions and
    trailing blanks -/
theorem recognise_of_root (lead : Nat) (root : List Char) (Troot : List Tok) (Froot : Nat)
    (ss : List SStep) (fns : List Fn) (trail : Nat)
    (hwf : Spell.stepsWf ss = true) (hf : ∀ s ∈ ss, FilterHypS inp s) (hfns : fns.all fnNameOK = true)
    (h0 : Sfx inp 0 (Spell.blanks lead ++ (root ++ (Spell.steps ss ++ (fnsText fns ++ (Spell.blanks trail ++ []))))))
    (hsize : inp.size = lead + root.length + (Spell.steps ss).length + (fnsText fns).length + trail)
    (hnsp : NoSp (root ++ (Spell.steps ss ++ (fnsText fns ++ (Spell.blanks trail ++ [])))))
    (hroot : Acc Froot (.rule "rootNode") inp lead (lead + root.length) Troot)
    (hF : Froot ≤ 100 + 32 * root.length) :
    recognise inp = .ok inp.size (Troot ++ (tkStepsS (lead + root.length) ss ++
      (toksStar fnText tkFn fns (lead + root.length + (Spell.steps ss).length) ++ [.action 2, .action 0]))) := by
  have h0' : Sfx inp 0 (PP.blanks lead ++ (root ++ (Spell.steps ss ++ (fnsText fns ++ (Spell.blanks trail ++ []))))) := h0
  have a0 := acc_space_n (inp := inp) lead h0' hnsp
  have hk := h0.append
  rw [sblanks_length] at hk
  have hs1 := hk.append
  have a2 := acc_continued_s ss hwf hf fns hfns trail hs1 (.inl rfl)
  have hend : Sfx inp (0 + lead + root.length + ((Spell.steps ss).length + (fnsText fns).length) + trail) [] := by
    have := hs1.append.append.append
    rw [sblanks_length] at this
    simpa [Nat.add_assoc] using this
  have a5 : Acc 3 (.rule "END") inp _ _ [] := Acc.rule "END" end_body (Acc.not (rej_any hend))
  have hroot' : Acc Froot (.rule "rootNode") inp (0 + lead) (0 + lead + root.length) Troot := by
    simpa using hroot
  have ajp := Acc.rule "jsonpath" jsonpath_body (Acc.seq a0 (Acc.seq hroot' a2))
  have aexp := Acc.alt_l exprAlt2 (Acc.seq ajp (Acc.seq a5 (acc_act 0 _)))
  unfold recognise
  rw [expression_body]
  have := aexp (fuelFor inp.size) (by
    rw [hsize]
    simp only [fuelFor]
    omega)
  rw [show (PE.alt exprAlt1 exprAlt2) = PE.alt (.seq (.rule "jsonpath") (.seq (.rule "END") (.act 0))) exprAlt2 from rfl]
  rw [this]
  congr 1
  · rw [hsize]; omega
  · simp

theorem stepWf_true_of_not_desc (s : SStep) (hwf : Spell.stepWf false s = true) (hd : Spell.isDesc s = false) :
    Spell.stepWf true s = true := by
  cases s with
  | child f k => simpa [Spell.stepWf] using hwf
  | wild f => rfl
  | multi lb n ns rb => simpa [Spell.stepWf] using hwf
  | union lb s ss rb => simpa [Spell.stepWf] using hwf
  | filter b0 b1 q b2 b3 => simpa [Spell.stepWf] using hwf
  | desc s => simp [Spell.isDesc] at hd

/-- the recogniser on a whole spelled path, given the brackets of its filter steps -/
theorem recognise_top (a : SPath) (hwf : Spell.wf a = true)
    (hf : ∀ s ∈ a.steps, FilterHypS (Spell.print a).toArray s) :
    recognise (Spell.print a).toArray = .ok (Spell.print a).length (tkTopS a) := by
  obtain ⟨lead, dollar, ss, fns, trail⟩ := a
  simp only [Spell.wf, Bool.and_eq_true] at hwf
  obtain ⟨⟨hss, hfns⟩, hd⟩ := hwf
  have h0 := Sfx.zero (Spell.print ⟨lead, dollar, ss, fns, trail⟩)
  have hsz : (Spell.print ⟨lead, dollar, ss, fns, trail⟩).toArray.size =
      (Spell.print ⟨lead, dollar, ss, fns, trail⟩).length := List.size_toArray
  rw [← hsz]
  generalize hinp : (Spell.print ⟨lead, dollar, ss, fns, trail⟩).toArray = inp at h0 hf hsz ⊢
  cases dollar with
  | true =>
    have hpr : Spell.print ⟨lead, true, ss, fns, trail⟩ =
        Spell.blanks lead ++ (['$'] ++ (Spell.steps ss ++ (fnsText fns ++ (Spell.blanks trail ++ [])))) := by
      simp [Spell.print, Spell.topSteps]
    rw [hpr] at h0 hsz
    have hk := h0.append
    rw [sblanks_length] at hk
    have a1 : Acc 5 (.rule "rootNode") inp lead (lead + ['$'].length) [.action 8] :=
      ((Acc.rule "rootNode" rootNode_body (Acc.alt_l _ (Acc.rule "rootIdentifier" rootId_body
        (Acc.seq (acc_lit1 "$" '$' rfl (by simpa using hk)) (acc_act 8 _))))).mono (by omega)).cast
          (by simp) rfl
    have := recognise_of_root lead ['$'] [.action 8] 5 ss fns trail hss hf hfns h0
      (by rw [hsz]; simp [sblanks_length]; omega) (noSp_cons (by decide) _) a1 (by simp)
    rw [this]
    congr 1
    simp [tkTopS, tkTopStepsS, Spell.topSteps, Nat.add_assoc, Nat.add_comm]
  | false =>
    cases ss with
    | nil => simp at hd
    | cons s rest =>
      have hnd : Spell.isDesc s = false := by simpa using hd
      simp only [Spell.stepsWf, Bool.and_eq_true] at hss
      have hwt := stepWf_true_of_not_desc s hss.1 hnd
      have hpr : Spell.print ⟨lead, false, s :: rest, fns, trail⟩ =
          Spell.blanks lead ++ (Spell.step true s ++ (Spell.steps rest ++ (fnsText fns ++ (Spell.blanks trail ++ [])))) := by
        simp [Spell.print, Spell.topSteps]
      rw [hpr] at h0 hsz
      have hk := h0.append
      rw [sblanks_length] at hk
      have hk' : Sfx inp lead (Spell.step true s ++ (Spell.steps rest ++ (fnsText fns ++ (Spell.blanks trail ++ [])))) := by
        simpa using hk
      have r0 : Rej 3 (.rule "rootIdentifier") inp lead :=
        Rej.rule "rootIdentifier" rootId_body (Rej.seq_l _ (rej_lit1 "$" '$' [] rfl hk'
          (startsWith_step_true _ (by decide) (by intro c hc; simp; intro hx; subst hx; revert hc; decide)
            (by decide) (by decide) s hwt _)))
      have a1 := acc_step_true_s s hwt (hf s (by simp)) hk' (stepStop_rest rest fns trail (.inl rfl))
      have a2 : Acc (97 + 32 * (Spell.step true s).length) (.rule "rootNode") inp lead
          (lead + (Spell.step true s).length) (tkStepS true lead s) :=
        (Acc.rule "rootNode" rootNode_body (Acc.alt_r r0 a1)).mono (by omega)
      have hnsp : NoSp (Spell.step true s ++ (Spell.steps rest ++ (fnsText fns ++ (Spell.blanks trail ++ [])))) := by
        rw [noSp_iff]
        exact startsWith_step_true _ (by decide) (by intro c hc; simp; intro hx; subst hx; revert hc; decide)
          (by decide) (by decide) s hwt _
      have := recognise_of_root lead (Spell.step true s) (tkStepS true lead s) _ rest fns trail hss.2
        (fun x hx => hf x (by simp [hx])) hfns h0
        (by rw [hsz]; simp [sblanks_length]; omega) hnsp a2 (by omega)
      rw [this]
      congr 1
      simp [tkTopS, tkTopStepsS, Spell.topSteps, Nat.add_assoc]

end JPV.SP
