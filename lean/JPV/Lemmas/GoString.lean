/-
  Facts about the Go-string vocabulary (JPV/Peg/GoString.lean), independent of any generated code:
  bounds on `rangeStarts`, and what it is on VALID UTF-8 (the bytes of a Lean `String`):
  `runeWidth_encode` — the width Go decodes at the first byte of `utf8EncodeChar c ++ rest` is `c.utf8Size`
  (case split on the four size classes of `c.val`; byte arithmetic by exhaustive `decide` over the 256
  values of a byte, the rest `omega`).  Core only.
-/
import JPV.Peg.GoString
namespace JPV
namespace GoString

set_option maxRecDepth 100000 in
theorem low6 : ∀ k, k < 256 → ((UInt8.ofNat k) &&& 0x3f ||| 0x80).toNat = 128 + k % 64 := by decide
set_option maxRecDepth 100000 in
theorem low5 : ∀ k, k < 256 → ((UInt8.ofNat k) &&& 0x1f ||| 0xc0).toNat = 192 + k % 32 := by decide
set_option maxRecDepth 100000 in
theorem low4 : ∀ k, k < 256 → ((UInt8.ofNat k) &&& 0x0f ||| 0xe0).toNat = 224 + k % 16 := by decide
set_option maxRecDepth 100000 in
theorem low3 : ∀ k, k < 256 → ((UInt8.ofNat k) &&& 0x07 ||| 0xf0).toNat = 240 + k % 8 := by decide

theorem toNat_low6 (x : UInt8) : (x &&& 0x3f ||| 0x80).toNat = 128 + x.toNat % 64 := by
  have := low6 x.toNat x.toNat_lt; rwa [UInt8.ofNat_toNat] at this
theorem toNat_low5 (x : UInt8) : (x &&& 0x1f ||| 0xc0).toNat = 192 + x.toNat % 32 := by
  have := low5 x.toNat x.toNat_lt; rwa [UInt8.ofNat_toNat] at this
theorem toNat_low4 (x : UInt8) : (x &&& 0x0f ||| 0xe0).toNat = 224 + x.toNat % 16 := by
  have := low4 x.toNat x.toNat_lt; rwa [UInt8.ofNat_toNat] at this
theorem toNat_low3 (x : UInt8) : (x &&& 0x07 ||| 0xf0).toNat = 240 + x.toNat % 8 := by
  have := low3 x.toNat x.toNat_lt; rwa [UInt8.ofNat_toNat] at this

theorem toNat_shr6 (v : UInt32) : (v >>> 6).toNat = v.toNat / 64 := by
  rw [UInt32.toNat_shiftRight, Nat.shiftRight_eq_div_pow]; rfl
theorem toNat_shr12 (v : UInt32) : (v >>> 12).toNat = v.toNat / 4096 := by
  rw [UInt32.toNat_shiftRight, Nat.shiftRight_eq_div_pow]; rfl
theorem toNat_shr18 (v : UInt32) : (v >>> 18).toNat = v.toNat / 262144 := by
  rw [UInt32.toNat_shiftRight, Nat.shiftRight_eq_div_pow]; rfl
theorem toNat_shr0 (v : UInt32) : v.toUInt8.toNat = v.toNat % 256 := UInt32.toNat_toUInt8 v

theorem char_valid (c : Char) : c.val.toNat < 0xD800 ∨ (0xDFFF < c.val.toNat ∧ c.val.toNat < 0x110000) := by
  have := c.valid
  have h2 : c.toNat = c.val.toNat := rfl
  simp [UInt32.isValidChar, Nat.isValidChar] at this
  omega

theorem size1 {c : Char} (h : c.utf8Size = 1) : c.val.toNat ≤ 127 := by
  have := Char.utf8Size_eq_one_iff.mp h
  rw [UInt32.le_iff_toNat_le] at this; exact this
theorem size2 {c : Char} (h : c.utf8Size = 2) : 127 < c.val.toNat ∧ c.val.toNat ≤ 0x7ff := by
  have := Char.utf8Size_eq_two_iff.mp h
  rw [UInt32.lt_iff_toNat_lt, UInt32.le_iff_toNat_le] at this; exact this
theorem size3 {c : Char} (h : c.utf8Size = 3) : 0x7ff < c.val.toNat ∧ c.val.toNat ≤ 0xffff := by
  have := Char.utf8Size_eq_three_iff.mp h
  rw [UInt32.lt_iff_toNat_lt, UInt32.le_iff_toNat_le] at this; exact this
theorem size4 {c : Char} (h : c.utf8Size = 4) : 0xffff < c.val.toNat := by
  have := Char.utf8Size_eq_four_iff.mp h
  rw [UInt32.lt_iff_toNat_lt] at this; exact this

theorem runeWidth_encode (c : Char) (rest : Bytes) :
    runeWidth (String.utf8EncodeChar c ++ rest) = c.utf8Size := by
  have hv := char_valid c
  rcases c.utf8Size_eq with h | h | h | h
  · rw [String.utf8EncodeChar_eq_singleton h, h]
    have hle := size1 h
    simp only [List.singleton_append, runeWidth, toNat_shr0]
    generalize c.val.toNat = n at *
    have : firstInfo (n % 256) = none := by
      unfold firstInfo
      repeat' split
      all_goals first | rfl | omega
    rw [this]
  · rw [String.utf8EncodeChar_eq_cons_cons h, h]
    have hle := size2 h
    simp only [List.cons_append, List.nil_append, runeWidth, toNat_low5, toNat_low6, toNat_shr0, toNat_shr6]
    generalize c.val.toNat = n at *
    have : firstInfo (192 + n / 64 % 256 % 32) = some (2, 0x80, 0xBF) := by
      unfold firstInfo
      repeat' split
      all_goals first | rfl | omega
    rw [this]
    simp only []
    rw [if_pos (by omega)]
    simp
  · rw [String.utf8EncodeChar_eq_cons_cons_cons h, h]
    have hle := size3 h
    simp only [List.cons_append, List.nil_append, runeWidth, toNat_low4, toNat_low6, toNat_shr0, toNat_shr6, toNat_shr12]
    generalize c.val.toNat = n at *
    have hc : isCont (128 + n % 256 % 64) = true := by simp [isCont]; omega
    have hfi : ∃ lo hi, firstInfo (224 + n / 4096 % 256 % 16) = some (3, lo, hi) ∧
        lo ≤ 128 + n / 64 % 256 % 64 ∧ 128 + n / 64 % 256 % 64 ≤ hi := by
      unfold firstInfo
      by_cases h0 : n / 4096 = 0
      · refine ⟨0xA0, 0xBF, ?_, ?_, ?_⟩
        · rw [if_neg (by omega), if_pos (by omega)]
        · omega
        · omega
      · by_cases h1 : n / 4096 = 13
        · refine ⟨0x80, 0x9F, ?_, ?_, ?_⟩
          · rw [if_neg (by omega), if_neg (by omega), if_pos (by omega)]
          · omega
          · omega
        · refine ⟨0x80, 0xBF, ?_, ?_, ?_⟩
          · rw [if_neg (by omega), if_neg (by omega), if_neg (by omega), if_pos (by omega)]
          · omega
          · omega
    obtain ⟨lo, hi, hfi, h1, h2⟩ := hfi
    rw [hfi]; dsimp only
    rw [if_pos ⟨h1, h2⟩, if_neg (by decide), if_pos hc, if_pos rfl]
  · rw [String.utf8EncodeChar_eq_cons_cons_cons_cons h, h]
    have hle := size4 h
    simp only [List.cons_append, List.nil_append, runeWidth, toNat_low3, toNat_low6, toNat_shr0, toNat_shr6, toNat_shr12, toNat_shr18]
    generalize c.val.toNat = n at *
    have hc : isCont (128 + n % 256 % 64) = true := by simp [isCont]; omega
    have hc2 : isCont (128 + n / 64 % 256 % 64) = true := by simp [isCont]; omega
    have hfi : ∃ lo hi, firstInfo (240 + n / 262144 % 256 % 8) = some (4, lo, hi) ∧
        lo ≤ 128 + n / 4096 % 256 % 64 ∧ 128 + n / 4096 % 256 % 64 ≤ hi := by
      unfold firstInfo
      by_cases h0 : n / 262144 = 0
      · refine ⟨0x90, 0xBF, ?_, ?_, ?_⟩
        · rw [if_neg (by omega), if_neg (by omega), if_neg (by omega), if_neg (by omega), if_pos (by omega)]
        · omega
        · omega
      · by_cases h1 : n / 262144 = 4
        · refine ⟨0x80, 0x8F, ?_, ?_, ?_⟩
          · rw [if_neg (by omega), if_neg (by omega), if_neg (by omega), if_neg (by omega), if_neg (by omega), if_pos (by omega)]
          · omega
          · omega
        · refine ⟨0x80, 0xBF, ?_, ?_, ?_⟩
          · rw [if_neg (by omega), if_neg (by omega), if_neg (by omega), if_neg (by omega), if_neg (by omega), if_neg (by omega), if_pos (by omega)]
          · omega
          · omega
    obtain ⟨lo, hi, hfi, h1, h2⟩ := hfi
    rw [hfi]; dsimp only
    rw [if_pos ⟨h1, h2⟩, if_neg (by decide), if_pos hc2, if_neg (by decide), if_pos hc]

/-! ### bounds -/

theorem runeWidth_pos (b0 : UInt8) (rest : Bytes) : 1 ≤ runeWidth (b0 :: rest) := by
  unfold runeWidth
  repeat' split
  all_goals first | omega | (rename_i h; cases h)

theorem runeWidth_le (b : Bytes) : runeWidth b ≤ b.length := by
  unfold runeWidth
  repeat' split
  all_goals simp only [List.length_cons, List.length_nil] <;> omega

theorem rangeFrom_bounds (fuel off : Nat) (b : Bytes) :
    ∀ i ∈ rangeFrom fuel off b, off ≤ i ∧ i < off + b.length := by
  induction fuel generalizing off b with
  | zero => intro i hi; simp [rangeFrom] at hi
  | succ f ih =>
    cases b with
    | nil => intro i hi; simp [rangeFrom] at hi
    | cons b0 rest =>
      intro i hi
      simp only [rangeFrom, List.mem_cons] at hi
      have hp := runeWidth_pos b0 rest
      have hl := runeWidth_le (b0 :: rest)
      rcases hi with rfl | hi
      · simp
      · have := ih _ _ i hi
        simp only [List.length_drop] at this
        omega

/-- every offset the range loop visits lies inside the string -/
theorem rangeStarts_lt (b : Bytes) : ∀ i ∈ rangeStarts b, i < b.length := by
  intro i hi
  have := rangeFrom_bounds _ _ _ i hi
  omega

/-! ### valid UTF-8 -/

/-- byte offsets of the characters of `cs` when the first one starts at `off` -/
def prefixSums : Nat → List Char → List Nat
  | _, [] => []
  | off, c :: cs => off :: prefixSums (off + c.utf8Size) cs

/-- the UTF-8 encoding of a list of characters, as a list of bytes -/
def encode (cs : List Char) : Bytes := cs.flatMap String.utf8EncodeChar

theorem utf8Bytes_eq (s : String) : utf8Bytes s = encode s.toList := by
  unfold utf8Bytes encode
  conv => lhs; rw [← String.ofList_toList (s := s)]
  rw [String.toByteArray_ofList]
  simp [List.utf8Encode]

theorem utf8Bytes_ofList (cs : List Char) : utf8Bytes (String.ofList cs) = encode cs := by
  rw [utf8Bytes_eq, String.toList_ofList]

theorem encode_cons (c : Char) (cs : List Char) : encode (c :: cs) = String.utf8EncodeChar c ++ encode cs := by
  simp [encode]

theorem encode_append (a b : List Char) : encode (a ++ b) = encode a ++ encode b := by
  simp [encode]

theorem length_le_encode (cs : List Char) : cs.length ≤ (encode cs).length := by
  induction cs with
  | nil => simp
  | cons c cs ih =>
    have := c.utf8Size_pos
    rw [encode_cons]; simp only [List.length_append, List.length_cons, String.length_utf8EncodeChar]; omega

theorem rangeFrom_encode (fuel off : Nat) (cs : List Char) (h : cs.length ≤ fuel) :
    rangeFrom fuel off (encode cs) = prefixSums off cs := by
  induction cs generalizing fuel off with
  | nil => cases fuel <;> simp [encode, rangeFrom, prefixSums]
  | cons c cs ih =>
    cases fuel with
    | zero => simp at h
    | succ f =>
      have hw := runeWidth_encode c (encode cs)
      rw [encode_cons] at *
      cases he : String.utf8EncodeChar c with
      | nil => exact absurd he String.utf8EncodeChar_ne_nil
      | cons b0 r =>
        rw [he] at hw
        have hlen : (b0 :: r).length = c.utf8Size := by rw [← he]; simp
        simp only [List.cons_append] at hw ⊢
        simp only [rangeFrom, prefixSums, hw]
        congr 1
        rw [← List.cons_append, ← hlen, List.drop_left]
        exact ih _ _ (by simp at h; omega)

/-- **on valid UTF-8 the range loop starts exactly at the characters** -/
theorem rangeStarts_encode (cs : List Char) : rangeStarts (encode cs) = prefixSums 0 cs :=
  rangeFrom_encode _ _ _ (length_le_encode cs)

theorem length_prefixSums (off : Nat) (cs : List Char) : (prefixSums off cs).length = cs.length := by
  induction cs generalizing off with
  | nil => rfl
  | cons c cs ih => simp [prefixSums, ih]

theorem prefixSums_getD (off : Nat) (cs : List Char) (pos : Nat) :
    (prefixSums off cs).getD pos (off + (encode cs).length) = off + (encode (cs.take pos)).length := by
  induction cs generalizing off pos with
  | nil => simp [prefixSums, encode]
  | cons c cs ih =>
    cases pos with
    | zero => simp [prefixSums, encode]
    | succ p =>
      have := ih (off + c.utf8Size) p
      simp only [prefixSums, List.getD_cons_succ, List.take_succ_cons, encode_cons, List.length_append,
        String.length_utf8EncodeChar, Nat.add_assoc] at this ⊢
      omega

theorem drop_encode (cs : List Char) (pos : Nat) :
    (encode cs).drop (encode (cs.take pos)).length = encode (cs.drop pos) := by
  conv => lhs; arg 2; rw [← List.take_append_drop pos cs]
  rw [encode_append, List.drop_left]

end GoString
end JPV
