/-
ParsePrintPos — WHERE `Parse` reports a syntax error in the printed path: the rune offset, in
`print p`, of the construct whose check fails. The functions mirror the control flow of `Build`
(which sub-construct fails first is decided by the `Build` functions on the recorded texts) and the
offsets are those of the token positions of ParsePrintToks (`tkStep`, `tkQ`, `tkOperand`, `tkPath`):

  * a comparison of two `@`-paths (action 26): `begin` of the capture of the comparison;
  * a value-group path as an operand (action 37): `begin` of the capture of the operand;
  * an unknown function: no position (`ErrorFunctionNotFound` carries none) — the value is irrelevant.
-/
import JPV.Lemmas.ParsePrintB
import JPV.Lemmas.ParsePrintExt
namespace JPV.PP
open JPV.Peg JPV.Print JPV.Lex JPV.Build

/-- the position of a sequence `b >>= f`: `p1` (the first part's) when the first part `b` fails,
    else `p2` -/
def seqPos {α : Type} (b : Except ParseErr α) (p1 p2 : Nat) : Nat :=
  match b with
  | .error _ => p1
  | .ok _ => p2

@[simp] theorem seqPos_error {α : Type} (e : ParseErr) (p1 p2 : Nat) :
    seqPos (.error e : Except ParseErr α) p1 p2 = p1 := rfl

@[simp] theorem seqPos_ok {α : Type} (a : α) (p1 p2 : Nat) :
    seqPos (.ok a : Except ParseErr α) p1 p2 = p2 := rfl

@[simp] theorem seqPos_self {α : Type} (b : Except ParseErr α) (p : Nat) : seqPos b p p = p := by
  cases b <;> rfl

set_option linter.unusedVariables false in
mutual
/-- a step that starts at rune `p` (`ad`: directly after `..`) -/
def posStep (env : Env) (cfg : Cfg) (ad : Bool) (p : Nat) : Step → Nat
  | .filter _ q => posQ env cfg 0 (p + 3) q          -- `[?(` is 3 runes
  | .desc s => posStep env cfg true (p + 2) s        -- `..` is 2 runes
  | .child _ _ => p
  | .wild _ => p
  | .multi _ _ => p
  | .union _ _ => p
/-- the steps of a path, the first of which starts at rune `p` -/
def posSteps (env : Env) (cfg : Cfg) (p : Nat) : List Step → Nat
  | [] => p
  | s :: ss =>
    seqPos (stepPre env cfg (stepT false s)) (posStep env cfg false p s)
      (posSteps env cfg (p + (Print.step false s).length) ss)
/-- a filter query printed at precedence `prec` from rune `p` on; the offset is 1 when the printer
    parenthesises -/
def posQ (env : Env) (cfg : Cfg) (prec p : Nat) : Query → Nat
  | .or a b =>
    seqPos (buildQ env cfg (queryT a)) (posQ env cfg 0 (p + (if 0 < prec then 1 else 0)) a)
      (posQ env cfg 1 (p + (if 0 < prec then 1 else 0) + (query 0 a).length + 2) b)
  | .and a b =>
    seqPos (buildQ env cfg (queryT a)) (posQ env cfg 1 (p + (if 1 < prec then 1 else 0)) a)
      (posQ env cfg 2 (p + (if 1 < prec then 1 else 0) + (query 1 a).length + 2) b)
  | .exist neg q => posPath env cfg (p + (if neg then 1 else 0)) q
  | .cmp op l r =>
    seqPos (buildOperand env cfg (operandT l)) (posOperand env cfg p l)
      (seqPos (buildOperand env cfg (operandT r))
        (posOperand env cfg (p + (operand l).length + (opText op).length) r)
        p)                                             -- two current nodes: begin of the comparison
  | .regex q _ =>                                      -- the subject is a path operand
    seqPos (buildPath env cfg false (pathT q)) (posPath env cfg p q) p
/-- an operand of a comparison -/
def posOperand (env : Env) (cfg : Cfg) (p : Nat) : Operand → Nat
  | .lit _ => p
  | .path q =>
    seqPos (buildPath env cfg false (pathT q)) (posPath env cfg p q) p   -- value group: begin of the operand
/-- a path: the head is 1 rune -/
def posPath (env : Env) (cfg : Cfg) (p : Nat) : Path → Nat
  | .mk _ ss _ => posSteps env cfg (p + 1) ss
end

/-- the position `Parse` reports for a syntax error in the printed path -/
def errPos (env : Env) (cfg : Cfg) (p : Path) : Nat := posPath env cfg 0 p

theorem posQ_regex (env : Env) (cfg : Cfg) (prec p : Nat) (q : Path) (re : String) :
    posQ env cfg prec p (.regex q re) = posOperand env cfg p (.path q) := by
  rw [posQ, posOperand]

end JPV.PP
