/-
QueryTie — tie T1 for the filter queries: the `compute` methods as the translator reads them from
the Go source (Gen/QueriesGo.lean, regenerated on every run) ARE the equations of `Impl.computeQ`,
`Impl.computeP` and `Impl.pcurLoop`, on which the filter theorems (C03 C04 C09 C10) rest.

The model differs from the Go text in shape at the loops: Go walks the index forward and edits the
list in place, cell by cell, logging one write at a time; the model's `andMerge`, `orMerge`,
`notFlip`, `pcurLoop` are structural recursions over the cells that count the writes. The `*_loop`
lemmas below prove the forward index loops equal to those recursions (same cells, same flag, same
write log, same panic).
-/
import JPV.Gen.QueriesGo
namespace JPV
namespace QueryTie
open Impl FnNode QueryNode

/-! ### cells, writes -/

theorem getCell_at (o : Org) (pre : List Cell) (c : Cell) (rest : List Cell) :
    getCell ⟨o, pre ++ c :: rest⟩ pre.length = .ok c := by
  simp [getCell]

theorem getCell_end (o : Org) (pre : List Cell) :
    getCell ⟨o, pre⟩ pre.length = .error .indexOutOfRange := by
  simp [getCell]

theorem setCell_at (o : Org) (pre : List Cell) (c : Cell) (rest : List Cell) (c' : Cell) (st : St) :
    setCell ⟨o, pre ++ c :: rest⟩ pre.length c' st = .ok (⟨o, pre ++ c' :: rest⟩, st.wrote o 1) := by
  simp [setCell]

theorem setCell_end (o : Org) (pre : List Cell) (c' : Cell) (st : St) :
    setCell ⟨o, pre⟩ pre.length c' st = .error .indexOutOfRange := by
  simp [setCell]

theorem wrote_zero (st : St) (o : Org) : st.wrote o 0 = st := by
  simp [St.wrote]

theorem wrote_wrote (st : St) (o : Org) (a b : Nat) : (st.wrote o a).wrote o b = st.wrote o (a + b) := by
  simp [St.wrote, List.replicate_append_replicate]

theorem snoc_length {α : Type} (pre : List α) (c : α) : (pre ++ [c]).length = pre.length + 1 := by simp

theorem snoc_append {α : Type} (pre : List α) (c : α) (rest : List α) : pre ++ c :: rest = (pre ++ [c]) ++ rest := by simp

@[simp] theorem isEmpty_empty : Cell.empty.isEmpty = true := rfl
@[simp] theorem isEmpty_val (v : Val) : (Cell.val v).isEmpty = false := rfl

/-! ### `&&`: the forward loop is `andMerge` -/

/-- the body of the loop in `syntaxLogicalAnd.compute`, as a function of the loop state -/
def andBody (r : VL) (i : Nat) (l : VL) (h : Bool) (st : St) : M (VL × Bool × St) := do
  let t ← getCell r i
  if t.isEmpty then do
    let (l', st') ← setCell l i Cell.empty st
    .ok (l', h, st')
  else do
    let t' ← getCell l i
    .ok (l, (if !t'.isEmpty then true else h), st)

theorem and_loop (body : Nat → VL × Bool × St → M (VL × Bool × St)) (ro o : Org) (rcells : List Cell)
    (hbody : ∀ i l h st, body i (l, h, st) = andBody ⟨ro, rcells⟩ i l h st) :
    ∀ (rs rpre ls pre : List Cell) (h : Bool) (st : St), rpre.length = pre.length → rcells = rpre ++ rs →
      forFrom body pre.length rs.length (⟨o, pre ++ ls⟩, h, st) =
        (match andMerge ls rs with
         | .error e => .error e
         | .ok (f, cs, w) => .ok (⟨o, pre ++ cs⟩, h || f, st.wrote o w))
  | [], rpre, ls, pre, h, st, _, _ => by
    cases ls <;> simp [forFrom, andMerge, wrote_zero]
  | r :: rs, rpre, [], pre, h, st, hlen, hr => by
    subst hr
    simp only [List.length_cons, forFrom, hbody, andBody, andMerge, List.append_nil]
    rw [← hlen, getCell_at, hlen]
    cases r <;> simp [getCell_end, setCell_end, bind, Except.bind]
  | r :: rs, rpre, l :: ls, pre, h, st, hlen, hr => by
    subst hr
    simp only [List.length_cons, forFrom, hbody, andBody, andMerge]
    rw [← hlen, getCell_at, hlen]
    cases r with
    | empty =>
      simp only [isEmpty_empty, if_true, bind, Except.bind, setCell_at]
      have := and_loop body ro o _ hbody rs (rpre ++ [Cell.empty]) ls (pre ++ [Cell.empty]) h (st.wrote o 1)
        (by simp [hlen]) (by simp)
      rw [snoc_length, ← snoc_append] at this
      rw [this]
      cases andMerge ls rs with
      | error e => rfl
      | ok v =>
        obtain ⟨f, cs, w⟩ := v
        simp [wrote_wrote, Nat.add_comm]
    | val v =>
      simp only [isEmpty_val, Bool.false_eq_true, if_false, bind, Except.bind, getCell_at]
      have := and_loop body ro o _ hbody rs (rpre ++ [Cell.val v]) ls (pre ++ [l]) (if !l.isEmpty then true else h) st
        (by simp [hlen]) (by simp)
      rw [snoc_length, ← snoc_append] at this
      rw [this]
      cases andMerge ls rs with
      | error e => rfl
      | ok v =>
        obtain ⟨f, cs, w⟩ := v
        cases l <;> cases h <;> cases f <;> simp

end QueryTie
end JPV
