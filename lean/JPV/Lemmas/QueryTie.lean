/-
QueryTie — tie T1 for the filter queries: the `compute` methods as the translator reads them from
the Go source (Gen/QueriesGo.lean, regenerated on every run) ARE the equations of `Impl.computeQ`,
`Impl.computeP` and `Impl.pcurLoop`, on which the filter theorems (C03 C04 C09 C10) rest.

The model differs from the Go text in shape at the loops: Go walks the index forward and edits the
list in place, cell by cell, logging one write at a time; the model's `andMerge`, `orMerge`,
`notFlip`, `pcurLoop` are structural recursions over the cells that count the writes. The `*_loop`
lemmas below prove the forward index loops equal to those recursions (same cells, same flag, same
write log, same panic).
-/
import JPV.Gen.QueriesGo
namespace JPV
namespace QueryTie
open Impl FnNode QueryNode

/-! ### cells, writes -/

theorem getCell_at (o : Org) (pre : List Cell) (c : Cell) (rest : List Cell) :
    getCell ⟨o, pre ++ c :: rest⟩ pre.length = .ok c := by
  simp [getCell]

theorem getCell_end (o : Org) (pre : List Cell) :
    getCell ⟨o, pre⟩ pre.length = .error .indexOutOfRange := by
  simp [getCell]

theorem setCell_at (o : Org) (pre : List Cell) (c : Cell) (rest : List Cell) (c' : Cell) (st : St) :
    setCell ⟨o, pre ++ c :: rest⟩ pre.length c' st = .ok (⟨o, pre ++ c' :: rest⟩, st.wrote o 1) := by
  simp [setCell]

theorem setCell_end (o : Org) (pre : List Cell) (c' : Cell) (st : St) :
    setCell ⟨o, pre⟩ pre.length c' st = .error .indexOutOfRange := by
  simp [setCell]

theorem wrote_zero (st : St) (o : Org) : st.wrote o 0 = st := by
  simp [St.wrote]

theorem wrote_wrote (st : St) (o : Org) (a b : Nat) : (st.wrote o a).wrote o b = st.wrote o (a + b) := by
  simp [St.wrote, List.replicate_append_replicate]

theorem snoc_length {α : Type} (pre : List α) (c : α) : (pre ++ [c]).length = pre.length + 1 := by simp

theorem snoc_append {α : Type} (pre : List α) (c : α) (rest : List α) : pre ++ c :: rest = (pre ++ [c]) ++ rest := by simp

@[simp] theorem isEmpty_empty : Cell.empty.isEmpty = true := rfl
@[simp] theorem isEmpty_val (v : Val) : (Cell.val v).isEmpty = false := rfl

theorem len1 {α : Type} {l : List α} (h : l.length = 1) : ∃ c, l = [c] := by
  match l, h with
  | [c], _ => exact ⟨c, rfl⟩

/-- what a merging loop hands back: list with origin, flag, log -/
def mergeOut (o : Org) (pre : List Cell) (h : Bool) (st : St) : M (Bool × List Cell × Nat) → M (VL × Bool × St)
  | .error e => .error e
  | .ok (f, cs, w) => .ok (⟨o, pre ++ cs⟩, h || f, st.wrote o w)

/-! ### `&&`: the forward loop is `andMerge` -/

/-- the body of the loop in `syntaxLogicalAnd.compute`, as a function of the loop state -/
def andBody (r : VL) (i : Nat) (l : VL) (h : Bool) (st : St) : M (VL × Bool × St) := do
  let t ← getCell r i
  if t.isEmpty then do
    let (l, st) ← setCell l i Cell.empty st
    .ok (l, h, st)
  else do
    let t' ← getCell l i
    let h ← (if !t'.isEmpty then .ok true else .ok h : M Bool)
    .ok (l, h, st)

theorem and_loop (body : Nat → VL × Bool × St → M (VL × Bool × St)) (ro o : Org) (rcells : List Cell)
    (hbody : ∀ i l h st, body i (l, h, st) = andBody ⟨ro, rcells⟩ i l h st) :
    ∀ (rs rpre ls pre : List Cell) (h : Bool) (st : St), rpre.length = pre.length → rcells = rpre ++ rs →
      forFrom body pre.length rs.length (⟨o, pre ++ ls⟩, h, st) = mergeOut o pre h st (andMerge ls rs)
  | [], rpre, ls, pre, h, st, _, _ => by
    cases ls <;> simp [forFrom, andMerge, wrote_zero, mergeOut]
  | r :: rs, rpre, [], pre, h, st, hlen, hr => by
    subst hr
    simp only [List.length_cons, forFrom, hbody, andBody, andMerge, List.append_nil]
    rw [← hlen, getCell_at, hlen]
    cases r <;> simp [getCell_end, setCell_end, bind, Except.bind, mergeOut]
  | r :: rs, rpre, l :: ls, pre, h, st, hlen, hr => by
    subst hr
    simp only [List.length_cons, forFrom, hbody, andBody, andMerge]
    rw [← hlen, getCell_at, hlen]
    cases r with
    | empty =>
      simp only [isEmpty_empty, if_true, bind, Except.bind, setCell_at]
      have := and_loop body ro o _ hbody rs (rpre ++ [Cell.empty]) ls (pre ++ [Cell.empty]) h (st.wrote o 1)
        (by simp [hlen]) (by simp)
      rw [snoc_length, ← snoc_append] at this
      rw [this]
      cases andMerge ls rs with
      | error e => rfl
      | ok v =>
        obtain ⟨f, cs, w⟩ := v
        simp [mergeOut, wrote_wrote, Nat.add_comm]
    | val v =>
      simp only [isEmpty_val, Bool.false_eq_true, if_false, bind, Except.bind, getCell_at]
      have := fun h' => and_loop body ro o _ hbody rs (rpre ++ [Cell.val v]) ls (pre ++ [l]) h' st
        (by simp [hlen]) (by simp)
      rw [snoc_length, ← snoc_append] at this
      cases l with
      | empty =>
        simp only [isEmpty_empty, Bool.not_true, Bool.false_eq_true, if_false]
        rw [this]
        cases andMerge ls rs with
        | error e => rfl
        | ok v =>
          obtain ⟨f, cs, w⟩ := v
          simp [mergeOut]
      | val lv =>
        simp only [isEmpty_val, Bool.not_false, if_true]
        rw [this]
        cases andMerge ls rs with
        | error e => rfl
        | ok v =>
          obtain ⟨f, cs, w⟩ := v
          cases h <;> cases f <;> simp [mergeOut]

theorem and_range (body : Nat → VL × Bool × St → M (VL × Bool × St)) (ro o : Org) (rs ls : List Cell) (st : St)
    (hbody : ∀ i l h st, body i (l, h, st) = andBody ⟨ro, rs⟩ i l h st) :
    forRange rs.length (⟨o, ls⟩, false, st) body = mergeOut o [] false st (andMerge ls rs) := by
  simpa [forRange] using and_loop body ro o rs hbody rs [] ls [] false st rfl rfl

/-- the receiver of an `.and a b` query -/
def recvAnd (env : Env) (a b : Q) : AndRecv := ⟨computeQ env a, computeQ env b⟩

/-- `syntaxLogicalAnd.compute` is the `.and` equation of the model -/
theorem and_tie (env : Env) (a b : Q) (root : Val) (ms : List Val) (st : St) :
    computeQ env (.and a b) root ms st = Gen.QueriesGo.andCompute (recvAnd env a b) root ms st := by
  simp only [computeQ, Gen.QueriesGo.andCompute, recvAnd, bind, Except.bind]
  cases computeQ env a root ms st with
  | error e => rfl
  | ok v =>
    obtain ⟨⟨lo, ls⟩, st1⟩ := v
    simp only []
    by_cases h1 : ls.length = 1
    · obtain ⟨c, rfl⟩ := len1 h1
      cases c <;> simp [getCell]
    · have h1' : (ls.length == 1) = false := by simpa using h1
      simp only [h1', Bool.false_eq_true, if_false]
      cases computeQ env b root ms st1 with
      | error e => rfl
      | ok v =>
        obtain ⟨⟨ro, rs⟩, st2⟩ := v
        simp only []
        by_cases h2 : rs.length = 1
        · obtain ⟨c, rfl⟩ := len1 h2
          cases c <;> simp [getCell]
        · have h2' : (rs.length == 1) = false := by simpa using h2
          simp only [h2', Bool.false_eq_true, if_false]
          rw [and_range _ ro lo rs ls st2 (by intro i l h st; rfl)]
          cases andMerge ls rs with
          | error e => rfl
          | ok v =>
            obtain ⟨f, cs, w⟩ := v
            cases f <;> simp [mergeOut]


/-! ### `||` -/

def orOut (o : Org) (pre : List Cell) (st : St) : M (List Cell × Nat) → M (VL × St)
  | .error e => .error e
  | .ok (cs, w) => .ok (⟨o, pre ++ cs⟩, st.wrote o w)

def orBody (r : VL) (i : Nat) (l : VL) (st : St) : M (VL × St) := do
  let t ← getCell r i
  let (l, st) ← (if !t.isEmpty then do
      let t' ← getCell r i
      let (l, st) ← setCell l i t' st
      .ok (l, st)
    else .ok (l, st) : M _)
  .ok (l, st)

theorem or_loop (body : Nat → VL × St → M (VL × St)) (ro o : Org) (rcells : List Cell)
    (hbody : ∀ i l st, body i (l, st) = orBody ⟨ro, rcells⟩ i l st) :
    ∀ (rs rpre ls pre : List Cell) (st : St), rpre.length = pre.length → rcells = rpre ++ rs →
      rs.length ≤ ls.length →
      forFrom body pre.length rs.length (⟨o, pre ++ ls⟩, st) = orOut o pre st (orMerge ls rs)
  | [], rpre, ls, pre, st, _, _, _ => by
    cases ls <;> simp [forFrom, orMerge, wrote_zero, orOut]
  | r :: rs, rpre, [], pre, st, _, _, hle => by simp at hle
  | r :: rs, rpre, l :: ls, pre, st, hlen, hr, hle => by
    subst hr
    simp only [List.length_cons, forFrom, hbody, orBody, orMerge]
    rw [← hlen, getCell_at, hlen]
    have hle' : rs.length ≤ ls.length := by simpa using hle
    cases r with
    | empty =>
      simp only [isEmpty_empty, Bool.not_true, Bool.false_eq_true, if_false, bind, Except.bind]
      have := or_loop body ro o _ hbody rs (rpre ++ [Cell.empty]) ls (pre ++ [l]) st
        (by simp [hlen]) (by simp) hle'
      rw [snoc_length, ← snoc_append] at this
      rw [this]
      cases orMerge ls rs with
      | error e => rfl
      | ok v =>
        obtain ⟨cs, w⟩ := v
        simp [orOut]
    | val v =>
      simp only [isEmpty_val, Bool.not_false, if_true, bind, Except.bind, setCell_at]
      have := or_loop body ro o _ hbody rs (rpre ++ [Cell.val v]) ls (pre ++ [Cell.val v]) (st.wrote o 1)
        (by simp [hlen]) (by simp) hle'
      rw [snoc_length, ← snoc_append] at this
      rw [this]
      cases orMerge ls rs with
      | error e => rfl
      | ok v =>
        obtain ⟨cs, w⟩ := v
        simp [orOut, wrote_wrote, Nat.add_comm]

theorem or_range (body : Nat → VL × St → M (VL × St)) (ro o : Org) (rs ls : List Cell) (st : St)
    (hbody : ∀ i l st, body i (l, st) = orBody ⟨ro, rs⟩ i l st) (hle : rs.length ≤ ls.length) :
    forRange rs.length (⟨o, ls⟩, st) body = orOut o [] st (orMerge ls rs) := by
  simpa [forRange] using or_loop body ro o rs hbody rs [] ls [] st rfl rfl hle

/-! ### `!` -/

def notBody (i : Nat) (l : VL) (h : Bool) (st : St) : M (VL × Bool × St) := do
  let t ← getCell l i
  let (l, h, st) ← (if t.isEmpty then do
      let (l, st) ← setCell l i (Cell.val (Val.bool true)) st
      let h := true
      .ok (l, h, st)
    else do
      let (l, st) ← setCell l i Cell.empty st
      .ok (l, h, st) : M _)
  .ok (l, h, st)

theorem not_loop (body : Nat → VL × Bool × St → M (VL × Bool × St)) (o : Org)
    (hbody : ∀ i l h st, body i (l, h, st) = notBody i l h st) :
    ∀ (cs pre : List Cell) (h : Bool) (st : St),
      forFrom body pre.length cs.length (⟨o, pre ++ cs⟩, h, st) =
        .ok (⟨o, pre ++ (notFlip cs).2⟩, h || (notFlip cs).1, st.wrote o cs.length)
  | [], pre, h, st => by simp [forFrom, notFlip, wrote_zero]
  | c :: cs, pre, h, st => by
    simp only [List.length_cons, forFrom, hbody, notBody, notFlip]
    rw [getCell_at]
    cases c with
    | empty =>
      simp only [isEmpty_empty, if_true, bind, Except.bind, setCell_at]
      have := not_loop body o hbody cs (pre ++ [Cell.val (Val.bool true)]) true (st.wrote o 1)
      rw [snoc_length, ← snoc_append] at this
      rw [this]
      simp [wrote_wrote, Nat.add_comm]
    | val v =>
      simp only [isEmpty_val, Bool.false_eq_true, if_false, bind, Except.bind, setCell_at]
      have := not_loop body o hbody cs (pre ++ [Cell.empty]) h (st.wrote o 1)
      rw [snoc_length, ← snoc_append] at this
      rw [this]
      simp [wrote_wrote, Nat.add_comm]

theorem not_range (body : Nat → VL × Bool × St → M (VL × Bool × St)) (o : Org) (cs : List Cell) (st : St)
    (hbody : ∀ i l h st, body i (l, h, st) = notBody i l h st) :
    forRange cs.length (⟨o, cs⟩, false, st) body = .ok (⟨o, (notFlip cs).2⟩, (notFlip cs).1, st.wrote o cs.length) := by
  simpa [forRange] using not_loop body o hbody cs [] false st

def recvNot (env : Env) (a : Q) : NotRecv := ⟨computeQ env a⟩

theorem not_tie (env : Env) (a : Q) (root : Val) (ms : List Val) (st : St) :
    computeQ env (.not a) root ms st = Gen.QueriesGo.notCompute (recvNot env a) root ms st := by
  simp only [computeQ, Gen.QueriesGo.notCompute, recvNot, bind, Except.bind]
  cases computeQ env a root ms st with
  | error e => rfl
  | ok v =>
    obtain ⟨⟨o, cs⟩, st1⟩ := v
    simp only []
    by_cases h1 : cs.length = 1
    · obtain ⟨c, rfl⟩ := len1 h1
      cases c <;> simp [getCell]
    · have h1' : (cs.length == 1) = false := by simpa using h1
      simp only [h1', Bool.false_eq_true, if_false]
      rw [not_range _ o cs st1 (by intro i l h st; rfl)]


/-! ### the parameter nodes -/

/-- receiver of a `$`-path / `@`-path parameter with chain `ch` -/
def recvPath (env : Env) (ch : List N) : PathRecv :=
  ⟨fun root cur st => retrieve env ch default root cur none st⟩

/-- receiver of a literal parameter: the one-element slice stored in the tree -/
def recvLit (v : Val) : LitRecv := ⟨⟨.literal, [.val v]⟩⟩

theorem lit_tie (env : Env) (v : Val) (root : Val) (ms : List Val) (st : St) :
    computeP env (.lit v) root ms st = Gen.QueriesGo.literalCompute (recvLit v) root ms st := by
  simp only [computeP, Gen.QueriesGo.literalCompute, recvLit]
  rfl

theorem sub_eq (st : St) : withBuf st [] = st.sub := rfl

theorem proot_tie (env : Env) (ch : List N) (root : Val) (ms : List Val) (st : St) :
    computeP env (.proot ch) root ms st = Gen.QueriesGo.rootCompute (recvPath env ch) root ms st := by
  simp only [computeP, Gen.QueriesGo.rootCompute, recvPath, sub_eq, bind, Except.bind]
  cases retrieve env ch default root root none st.sub with
  | error e => rfl
  | ok v =>
    obtain ⟨s1, e⟩ := v
    cases e with
    | some err => rfl
    | none =>
      simp only [Option.isSome_none, Bool.false_eq_true, if_false]
      match h : s1.out with
      | [] => rfl
      | [r] => rfl
      | _ :: _ :: _ => simp

/-- the body of the loop in `syntaxQueryParamCurrentRoot.compute` -/
def pcurBody (e : PathRecv) (root : Val) (ms : List Val) (i : Nat) (r : Own) (h : Bool) (c : Buf) (st : St) :
    M (Own × Bool × Buf × St) := do
  let c : Buf := c.take 0
  let t1 ← getVal ms i
  let (s, t2) ← e.paramRetrieve root t1 (withBuf st c)
  let c : Buf := s.out
  let st := st.back s
  if t2.isSome then do
    let r ← r.set i Cell.empty
    .ok (r, h, c, st)
  else do
    let h := true
    let t3 ← bufGet c 0
    let r ← r.set i (Cell.val t3)
    .ok (r, h, c, st)

/-- the container's contents after the loop (the model does not name it): what the last
    sub-evaluation left in it -/
def lastBuf (env : Env) (ch : List N) (root : Val) : List Val → Buf → St → Buf
  | [], c, _ => c
  | m :: ms, c, st =>
    match retrieve env ch default root m none st.sub with
    | .ok (s1, _) => lastBuf env ch root ms s1.out (st.back s1)
    | .error _ => c

def pcurOut (pre : List Cell) (h : Bool) (c : Buf) : M (List Cell × St) → M (Own × Bool × Buf × St)
  | .error e => .error e
  | .ok (cells, st) => .ok (⟨pre ++ cells⟩, h || cells.any (fun c => !c.isEmpty), c, st)

theorem getVal_at (pre : List Val) (m : Val) (rest : List Val) : getVal (pre ++ m :: rest) pre.length = .ok m := by
  simp [getVal]

theorem ownSet_at (pre : List Cell) (c : Cell) (rest : List Cell) (c' : Cell) :
    Own.set ⟨pre ++ c :: rest⟩ pre.length c' = .ok ⟨pre ++ c' :: rest⟩ := by
  simp [Own.set]

theorem pcur_loop (env : Env) (ch : List N) (root : Val) (ms : List Val)
    (body : Nat → Own × Bool × Buf × St → M (Own × Bool × Buf × St))
    (hbody : ∀ i r h c st, body i (r, h, c, st) = pcurBody (recvPath env ch) root ms i r h c st) :
    ∀ (ms' mpre : List Val) (pre : List Cell) (h : Bool) (c : Buf) (st : St), mpre.length = pre.length → ms = mpre ++ ms' →
      forFrom body pre.length ms'.length (⟨pre ++ List.replicate ms'.length (.val .null)⟩, h, c, st) =
        pcurOut pre h (lastBuf env ch root ms' c st) (pcurLoop env ch root ms' st)
  | [], mpre, pre, h, c, st, _, _ => by
    simp [forFrom, pcurLoop, pcurOut, lastBuf]
  | m :: ms', mpre, pre, h, c, st, hlen, hms => by
    subst hms
    simp only [List.length_cons, forFrom, hbody, pcurBody, pcurLoop, List.replicate_succ, recvPath, List.take_zero, sub_eq, lastBuf]
    rw [← hlen, getVal_at, hlen]
    simp only [bind, Except.bind]
    cases retrieve env ch default root m none st.sub with
    | error e => rfl
    | ok v =>
      obtain ⟨s1, e⟩ := v
      cases e with
      | some err =>
        simp only [Option.isSome_some, if_true, ownSet_at]
        have := pcur_loop env ch root _ body hbody ms' (mpre ++ [m]) (pre ++ [Cell.empty]) h s1.out (st.back s1)
          (by simp [hlen]) (by simp)
        rw [snoc_length, ← snoc_append] at this
        rw [this]
        cases pcurLoop env ch root ms' (st.back s1) with
        | error e => rfl
        | ok v => simp [pcurOut]
      | none =>
        simp only [Option.isSome_none, Bool.false_eq_true, if_false]
        match hout : s1.out with
        | [] => simp [bufGet, pcurOut]
        | r0 :: rs =>
          simp only [bufGet, List.getElem?_cons_zero, ownSet_at]
          have := pcur_loop env ch root _ body hbody ms' (mpre ++ [m]) (pre ++ [Cell.val r0.val]) true s1.out (st.back s1)
            (by simp [hlen]) (by simp)
          rw [snoc_length, ← snoc_append, hout] at this
          rw [this]
          cases pcurLoop env ch root ms' (st.back s1) with
          | error e => rfl
          | ok v => simp [pcurOut]

theorem pcur_range (env : Env) (ch : List N) (root : Val) (ms : List Val)
    (body : Nat → Own × Bool × Buf × St → M (Own × Bool × Buf × St)) (st : St)
    (hbody : ∀ i r h c st, body i (r, h, c, st) = pcurBody (recvPath env ch) root ms i r h c st) :
    forRange ms.length (makeOwn ms.length, false, ([] : Buf), st) body =
      pcurOut [] false (lastBuf env ch root ms [] st) (pcurLoop env ch root ms st) := by
  simpa [forRange, makeOwn] using pcur_loop env ch root ms body hbody ms [] [] false [] st rfl rfl

theorem pcur_tie (env : Env) (ch : List N) (root : Val) (ms : List Val) (st : St) :
    computeP env (.pcur ch) root ms st = Gen.QueriesGo.currentRootCompute (recvPath env ch) root ms st := by
  simp only [computeP, Gen.QueriesGo.currentRootCompute, bind, Except.bind]
  rw [pcur_range env ch root ms _ st (by intro i r h c st; rfl)]
  cases pcurLoop env ch root ms st with
  | error e => rfl
  | ok v =>
    obtain ⟨cells, st1⟩ := v
    simp only [pcurOut, Bool.false_or, List.nil_append, Own.publish]


/-! ### every list a query returns has one cell, or one cell per member -/

theorem validateTy_len (ty : LitTy) : ∀ cells, (validateTy ty cells).2.1.length = cells.length
  | [] => rfl
  | c :: cs => by
    have ih := validateTy_len ty cs
    cases c with
    | empty => simp only [validateTy, List.length_cons, ih]
    | val v => cases ty <;> cases v <;> simp only [validateTy, List.length_cons, ih]

theorem valStep_len (c : Cmp) (lv : VL) (st : St) : (valStep c lv st).2.1.cells.length = lv.cells.length := by
  simp only [valStep]
  cases cmpValidatorTy c with
  | none => rfl
  | some ty => exact validateTy_len ty lv.cells

theorem comparator_len (env : Env) (c : Cmp) (r : Val) :
    ∀ (cells : List Cell) (v : Bool × List Cell × Nat), comparator env c r cells = .ok v → v.2.1.length = cells.length
  | [], v, h => by
    simp only [comparator, Except.ok.injEq] at h
    subst h; rfl
  | cell :: cs, v, h => by
    simp only [comparator, bind, Except.bind] at h
    cases hc : comparator env c r cs with
    | error e => simp [hc] at h
    | ok v' =>
      have ih := comparator_len env c r cs v' hc
      simp only [hc] at h
      cases cell with
      | empty =>
        cases c <;> (simp only [Except.ok.injEq] at h; subst h; simp [ih])
      | val x =>
        simp only [] at h
        cases ht : cmpTest env c x r with
        | error e => simp [ht] at h
        | ok b =>
          simp only [ht] at h
          cases b <;> (simp only [Bool.false_eq_true, if_false, if_true, Except.ok.injEq] at h; subst h; simp [ih])

theorem andMerge_len : ∀ (ls rs : List Cell) (v : Bool × List Cell × Nat), andMerge ls rs = .ok v → v.2.1.length = ls.length
  | ls, [], v, h => by
    cases ls <;> (simp only [andMerge, Except.ok.injEq] at h; subst h; rfl)
  | [], _ :: _, v, h => by simp [andMerge] at h
  | l :: ls, r :: rs, v, h => by
    simp only [andMerge, bind, Except.bind] at h
    cases hc : andMerge ls rs with
    | error e => simp [hc] at h
    | ok v' =>
      have ih := andMerge_len ls rs v' hc
      simp only [hc] at h
      cases r <;> (simp only [Except.ok.injEq] at h; subst h; simp [ih])

theorem orMerge_len : ∀ (ls rs : List Cell) (v : List Cell × Nat), orMerge ls rs = .ok v → v.1.length = ls.length
  | ls, [], v, h => by
    cases ls <;> (simp only [orMerge, Except.ok.injEq] at h; subst h; rfl)
  | [], _ :: _, v, h => by simp [orMerge] at h
  | l :: ls, r :: rs, v, h => by
    simp only [orMerge, bind, Except.bind] at h
    cases hc : orMerge ls rs with
    | error e => simp [hc] at h
    | ok v' =>
      have ih := orMerge_len ls rs v' hc
      simp only [hc] at h
      cases r <;> (simp only [Except.ok.injEq] at h; subst h; simp [ih])

theorem notFlip_len : ∀ cells : List Cell, (notFlip cells).2.length = cells.length
  | [] => rfl
  | c :: cs => by
    have ih := notFlip_len cs
    cases c <;> simp [notFlip, ih]

theorem pcurLoop_len (env : Env) (ch : List N) (root : Val) :
    ∀ (ms : List Val) (st : St) (v : List Cell × St), pcurLoop env ch root ms st = .ok v → v.1.length = ms.length
  | [], st, v, h => by
    simp only [pcurLoop, Except.ok.injEq] at h
    subst h; rfl
  | m :: ms, st, v, h => by
    simp only [pcurLoop, bind, Except.bind] at h
    cases hr : retrieve env ch default root m none st.sub with
    | error e => simp [hr] at h
    | ok w =>
      obtain ⟨s1, e⟩ := w
      simp only [hr] at h
      cases hl : pcurLoop env ch root ms (st.back s1) with
      | error e' =>
        cases e with
        | some err => simp [hl] at h
        | none => cases ho : s1.out <;> simp [hl, ho] at h
      | ok v' =>
        have ih := pcurLoop_len env ch root ms _ v' hl
        cases e with
        | some err => simp only [hl, Except.ok.injEq] at h; subst h; simp [ih]
        | none =>
          cases ho : s1.out with
          | nil => simp [ho] at h
          | cons r rs => simp only [ho, hl, Except.ok.injEq] at h; subst h; simp [ih]

/-- `Len vl n`: one cell, or one per member -/
def Len (vl : VL) (n : Nat) : Prop := vl.cells.length = n ∨ vl.cells.length = 1

theorem computeP_len (env : Env) (p : P) (root : Val) (ms : List Val) (st : St) (v : VL × St)
    (h : computeP env p root ms st = .ok v) : Len v.1 ms.length := by
  cases p with
  | lit x =>
    simp only [computeP, Except.ok.injEq] at h
    subst h; exact Or.inr rfl
  | proot ch =>
    simp only [computeP, bind, Except.bind] at h
    cases hr : retrieve env ch default root root none st.sub with
    | error e => simp [hr] at h
    | ok w =>
      obtain ⟨s1, e⟩ := w
      simp only [hr] at h
      cases e with
      | some err => simp only [Except.ok.injEq] at h; subst h; exact Or.inr rfl
      | none =>
        simp only [] at h
        split at h <;> (simp only [Except.ok.injEq] at h; subst h; exact Or.inr rfl)
  | pcur ch =>
    simp only [computeP, bind, Except.bind] at h
    cases hl : pcurLoop env ch root ms st with
    | error e => simp [hl] at h
    | ok w =>
      have := pcurLoop_len env ch root ms st w hl
      simp only [hl] at h
      split at h <;> (simp only [Except.ok.injEq] at h; subst h)
      · exact Or.inl this
      · exact Or.inr rfl

theorem computeQ_len (env : Env) : ∀ (q : Q) (root : Val) (ms : List Val) (st : St) (v : VL × St),
    computeQ env q root ms st = .ok v → Len v.1 ms.length
  | .exist p, root, ms, st, v, h => by
    simp only [computeQ] at h
    exact computeP_len env p root ms st v h
  | .cmp l r c, root, ms, st, v, h => by
    simp only [computeQ, bind, Except.bind] at h
    cases hl : computeP env l root ms st with
    | error e => simp [hl] at h
    | ok wl =>
      have h1 := computeP_len env l root ms st wl hl
      simp only [hl] at h
      cases hr : computeP env r root ms (valStep c wl.1 wl.2).2.2 with
      | error e => simp [hr] at h
      | ok wr =>
        simp only [hr] at h
        split at h
        · split at h
          · simp at h
          · simp at h
          · rename_i r0 _ _
            cases hc : comparator env c r0 (valStep c wl.1 wl.2).2.1.cells with
            | error e => simp [hc] at h
            | ok x =>
              have h2 := comparator_len env c r0 _ x hc
              simp only [hc] at h
              split at h <;> (simp only [Except.ok.injEq] at h; subst h)
              · simp only [Len, h2, valStep_len]; exact h1
              · exact Or.inr rfl
        · split at h <;> (simp only [Except.ok.injEq] at h; subst h; exact Or.inr rfl)
  | .not a, root, ms, st, v, h => by
    simp only [computeQ, bind, Except.bind] at h
    cases ha : computeQ env a root ms st with
    | error e => simp [ha] at h
    | ok w =>
      have h1 := computeQ_len env a root ms st w ha
      simp only [ha] at h
      split at h
      · split at h <;> (simp only [Except.ok.injEq] at h; subst h; exact Or.inr rfl)
      · split at h <;> (simp only [Except.ok.injEq] at h; subst h)
        · simp only [Len, notFlip_len]; exact h1
        · exact Or.inr rfl
  | .and a b, root, ms, st, v, h => by
    simp only [computeQ, bind, Except.bind] at h
    cases ha : computeQ env a root ms st with
    | error e => simp [ha] at h
    | ok w =>
      have h1 := computeQ_len env a root ms st w ha
      simp only [ha] at h
      split at h
      · split at h
        · simp only [Except.ok.injEq] at h; subst h; exact h1
        · exact computeQ_len env b root ms _ v h
      · cases hb : computeQ env b root ms w.2 with
        | error e => simp [hb] at h
        | ok w' =>
          have h2 := computeQ_len env b root ms _ w' hb
          simp only [hb] at h
          split at h
          · split at h <;> (simp only [Except.ok.injEq] at h; subst h)
            · exact h2
            · exact h1
          · cases hm : andMerge w.1.cells w'.1.cells with
            | error e => simp [hm] at h
            | ok x =>
              have h3 := andMerge_len _ _ x hm
              simp only [hm] at h
              split at h <;> (simp only [Except.ok.injEq] at h; subst h)
              · simp only [Len, h3]; exact h1
              · exact Or.inr rfl
  | .or a b, root, ms, st, v, h => by
    simp only [computeQ, bind, Except.bind] at h
    cases ha : computeQ env a root ms st with
    | error e => simp [ha] at h
    | ok w =>
      have h1 := computeQ_len env a root ms st w ha
      simp only [ha] at h
      split at h
      · split at h
        · exact computeQ_len env b root ms _ v h
        · simp only [Except.ok.injEq] at h; subst h; exact h1
      · cases hb : computeQ env b root ms w.2 with
        | error e => simp [hb] at h
        | ok w' =>
          have h2 := computeQ_len env b root ms _ w' hb
          simp only [hb] at h
          split at h
          · split at h <;> (simp only [Except.ok.injEq] at h; subst h)
            · exact h1
            · exact h2
          · cases hm : orMerge w.1.cells w'.1.cells with
            | error e => simp [hm] at h
            | ok x =>
              have h3 := orMerge_len _ _ x hm
              simp only [hm, Except.ok.injEq] at h
              subst h
              simp only [Len, h3]; exact h1


/-! ### `||` tie -/

def recvOr (env : Env) (a b : Q) : OrRecv := ⟨computeQ env a, computeQ env b⟩

theorem or_tie (env : Env) (a b : Q) (root : Val) (ms : List Val) (st : St) :
    computeQ env (.or a b) root ms st = Gen.QueriesGo.orCompute (recvOr env a b) root ms st := by
  simp only [computeQ, Gen.QueriesGo.orCompute, recvOr, bind, Except.bind]
  cases ha : computeQ env a root ms st with
  | error e => rfl
  | ok v =>
    have hla := computeQ_len env a root ms st v ha
    obtain ⟨⟨lo, ls⟩, st1⟩ := v
    simp only []
    by_cases h1 : ls.length = 1
    · obtain ⟨c, rfl⟩ := len1 h1
      cases c <;> simp [getCell]
    · have h1' : (ls.length == 1) = false := by simpa using h1
      simp only [h1', Bool.false_eq_true, if_false]
      cases hb : computeQ env b root ms st1 with
      | error e => rfl
      | ok v =>
        have hlb := computeQ_len env b root ms st1 v hb
        obtain ⟨⟨ro, rs⟩, st2⟩ := v
        simp only []
        by_cases h2 : rs.length = 1
        · obtain ⟨c, rfl⟩ := len1 h2
          cases c <;> simp [getCell]
        · have h2' : (rs.length == 1) = false := by simpa using h2
          simp only [h2', Bool.false_eq_true, if_false]
          have hle : rs.length ≤ ls.length := by
            simp only [Len] at hla hlb
            omega
          rw [or_range _ ro lo rs ls st2 (by intro i l st; rfl) hle]
          cases orMerge ls rs with
          | error e => rfl
          | ok v => rfl

/-! ### compare parameter, compare query -/

/-- the three parameter nodes as the generated code evaluates them -/
def goP (env : Env) : P → Compute
  | .lit v => Gen.QueriesGo.literalCompute (recvLit v)
  | .proot ch => Gen.QueriesGo.rootCompute (recvPath env ch)
  | .pcur ch => Gen.QueriesGo.currentRootCompute (recvPath env ch)

theorem computeP_eq_goP (env : Env) (p : P) (root : Val) (ms : List Val) (st : St) :
    computeP env p root ms st = goP env p root ms st := by
  cases p with
  | lit v => exact lit_tie env v root ms st
  | proot ch => exact proot_tie env ch root ms st
  | pcur ch => exact pcur_tie env ch root ms st

def isProot : P → Bool
  | .proot _ => true
  | _ => false

/-- receiver of the `syntaxBasicCompareParameter` wrapping operand `p` -/
def recvParam (env : Env) (p : P) : ParamRecv := ⟨goP env p, isProot p⟩

theorem param_tie (env : Env) (p : P) (root : Val) (ms : List Val) (st : St) :
    computeP env p root ms st = Gen.QueriesGo.compareParameterCompute (recvParam env p) root ms st := by
  cases p with
  | lit v => exact lit_tie env v root ms st
  | pcur ch => exact pcur_tie env ch root ms st
  | proot ch =>
    simp only [Gen.QueriesGo.compareParameterCompute, recvParam, isProot, goP, if_true, bind, Except.bind]
    simp only [← proot_tie, computeP]

/-- receiver of a `.cmp l r c` query -/
def recvCmp (env : Env) (l r : P) (c : Cmp) : CmpRecv where
  leftParam := Gen.QueriesGo.compareParameterCompute (recvParam env l)
  rightParam := Gen.QueriesGo.compareParameterCompute (recvParam env r)
  validate := valStep c
  comparator := fun lv cell st =>
    match cell with
    | .empty => .error .typeAssertion
    | .val r0 => do
      let (hit, cells, w) ← comparator env c r0 lv.cells
      .ok (hit, { lv with cells := cells }, st.wrote lv.org w)
  comparatorIsDeepEQ := c == .deepEq

theorem cmp_tie (env : Env) (l r : P) (c : Cmp) (root : Val) (ms : List Val) (st : St) :
    computeQ env (.cmp l r c) root ms st = Gen.QueriesGo.compareQueryCompute (recvCmp env l r c) root ms st := by
  simp only [computeQ, Gen.QueriesGo.compareQueryCompute, recvCmp, ← param_tie, bind, Except.bind]
  cases computeP env l root ms st with
  | error e => rfl
  | ok wl =>
    obtain ⟨lv0, st1⟩ := wl
    simp only []
    cases computeP env r root ms (valStep c lv0 st1).2.2 with
    | error e => rfl
    | ok wr =>
      obtain ⟨rv0, st3⟩ := wr
      simp only []
      rcases Bool.eq_false_or_eq_true (valStep c lv0 st1).1 with hlf | hlf <;>
      rcases Bool.eq_false_or_eq_true (valStep c rv0 st3).1 with hrf | hrf <;>
        simp only [hlf, hrf, Bool.and_true, Bool.and_false, Bool.false_eq_true, if_false, if_true, BEq.rfl, Bool.true_and]
      · rcases hcells : (valStep c rv0 st3).2.1.cells with _ | ⟨c0, tl⟩
        · simp [getCell, hcells]
        · cases c0 with
          | empty => simp [getCell, hcells]
          | val r0 =>
            simp only [getCell, hcells, List.getElem?_cons_zero]
            cases comparator env c r0 (valStep c lv0 st1).2.1.cells with
            | error e => rfl
            | ok v => rfl
      · simp
      · simp
      · cases c <;> simp


/-! ### existence test; the whole query through generated code only -/

theorem exist_tie (env : Env) (p : P) (root : Val) (ms : List Val) (st : St) :
    computeQ env (.exist p) root ms st = goP env p root ms st := by
  simp only [computeQ]
  exact computeP_eq_goP env p root ms st

/-- a query evaluated by the regenerated `compute` methods at every level; the only things taken
    from the model are the chains of the path operands (`retrieve`), and `validate` / `comparator`
    of the comparators (tied to the source by Props/Ties.lean) -/
def goQ (env : Env) : Q → Compute
  | .and a b => Gen.QueriesGo.andCompute ⟨goQ env a, goQ env b⟩
  | .or a b => Gen.QueriesGo.orCompute ⟨goQ env a, goQ env b⟩
  | .not a => Gen.QueriesGo.notCompute ⟨goQ env a⟩
  | .cmp l r c => Gen.QueriesGo.compareQueryCompute (recvCmp env l r c)
  | .exist p => goP env p

theorem computeQ_eq_goQ (env : Env) : ∀ (q : Q), computeQ env q = goQ env q
  | .and a b => by
    funext root ms st
    rw [and_tie, goQ, recvAnd, computeQ_eq_goQ env a, computeQ_eq_goQ env b]
  | .or a b => by
    funext root ms st
    rw [or_tie, goQ, recvOr, computeQ_eq_goQ env a, computeQ_eq_goQ env b]
  | .not a => by
    funext root ms st
    rw [not_tie, goQ, recvNot, computeQ_eq_goQ env a]
  | .cmp l r c => by
    funext root ms st
    rw [cmp_tie, goQ]
  | .exist p => by
    funext root ms st
    rw [exist_tie, goQ]

end QueryTie
end JPV
