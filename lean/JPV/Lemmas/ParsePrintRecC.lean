/-
ParsePrintRecC — recogniser lemmas, part C: dot children, `childNode`, `function`,
`continuedJsonpath`, `jsonpath`, `expression`.
-/
import JPV.Lemmas.ParsePrintRecB
import JPV.Lemmas.GrammarFacts
namespace JPV.PP
open JPV.Peg JPV.Print JPV.Lex

variable {inp : Array Char}

/-! ### what may follow a step / a path -/

/-- characters that may follow a complete path inside a filter -/
def isEndChar (c : Char) : Bool :=
  c == ')' || c == '=' || c == '!' || c == '<' || c == '>' || c == '&' || c == '|'

/-- characters that may follow a step: the next step or function, the end of the path, or a blank
    (trailing blanks of the whole path) -/
def isStopChar (c : Char) : Bool := c == '.' || c == '[' || isEndChar c || c == ' '

def PathStop (r : List Char) : Prop := r = [] ∨ startsWith isEndChar r = true
def StepStop (r : List Char) : Prop := r = [] ∨ startsWith isStopChar r = true

theorem PathStop.stepStop {r : List Char} (h : PathStop r) : StepStop r := by
  rcases h with h | h
  · exact .inl h
  · exact .inr (startsWith_of_true (by intro c hc; simp [isStopChar, hc]) h)

theorem isStopChar_cases (c : Char) (h : isStopChar c = true) :
    c = '.' ∨ c = '[' ∨ c = ')' ∨ c = '=' ∨ c = '!' ∨ c = '<' ∨ c = '>' ∨ c = '&' ∨ c = '|' ∨ c = ' ' := by
  simpa [isStopChar, isEndChar, or_assoc] using h

theorem isStopChar_facts (c : Char) (h : isStopChar c = true) :
    isSign c = true ∧ c ≠ '\\' ∧ c ≠ '(' ∧ isFnChar c = false := by
  rcases isStopChar_cases c h with rfl | rfl | rfl | rfl | rfl | rfl | rfl | rfl | rfl | rfl <;> decide

theorem StepStop.dotStops {r : List Char} (h : StepStop r) : DotStops r := by
  rcases h with h | h
  · exact .inl h
  · cases r with
    | nil => cases h
    | cons d r' =>
      have := isStopChar_facts d h
      exact .inr ⟨d, r', rfl, this.2.1, .inl this.1⟩

theorem StepStop.noCall {r : List Char} (h : StepStop r) : ['(', ')'].isPrefixOf r = false := by
  rcases h with h | h
  · subst h; rfl
  · cases r with
    | nil => rfl
    | cons d r' =>
      have := (isStopChar_facts d h).2.2.1
      simp only [List.isPrefixOf]
      have : ('(' == d) = false := by simp; exact fun h => this h.symm
      rw [this]; rfl

theorem PathStop.noSp {r : List Char} (h : PathStop r) : NoSp r := by
  rcases h with h | h
  · subst h; rfl
  · exact noSp_of_true (by decide) h

/-- at the end of a path nothing that starts a step or a function follows -/
theorem PathStop.noDotBracket {r : List Char} (h : PathStop r) :
    startsWith (fun c => c == '.' || c == '[') r = false := by
  rcases h with h | h
  · subst h; rfl
  · refine startsWith_false_of_true ?_ h
    intro c hc
    have : c = ')' ∨ c = '=' ∨ c = '!' ∨ c = '<' ∨ c = '>' ∨ c = '&' ∨ c = '|' := by
      simpa [isEndChar, or_assoc] using hc
    rcases this with rfl | rfl | rfl | rfl | rfl | rfl | rfl <;> decide

/-! ### dot children -/

theorem dotSpellable_ne_nil {k : List Char} (h : dotSpellable k = true) : k ≠ [] := by
  intro hk; subst hk; simp [dotSpellable] at h

theorem dotSpellable_noControl {k : List Char} (h : dotSpellable k = true) : ∀ c ∈ k, isControl c = false := by
  intro c hc
  simp only [dotSpellable, Bool.and_eq_true, List.all_eq_true] at h
  have := h.2 c hc
  simp only [Bool.and_eq_true, Bool.not_eq_true'] at this
  exact this.1

theorem escDotChar_length_pos (c : Char) : 1 ≤ (escDotChar c).length := by
  unfold escDotChar; split <;> simp

theorem escDot_length_ge (k : List Char) : k.length ≤ (escDot k).length := by
  induction k with
  | nil => simp
  | cons c k ih =>
    rw [escDot_cons]
    have := escDotChar_length_pos c
    simp only [List.length_cons, List.length_append]
    omega

theorem escDot_length_pos {k : List Char} (h : k ≠ []) : 1 ≤ (escDot k).length := by
  have := escDot_length_ge k
  cases k with
  | nil => exact absurd rfl h
  | cons c k => simp only [List.length_cons] at this; omega

/-- the rendering of a key starts with a backslash or a dot-safe character -/
theorem startsWith_escDot (P : Char → Bool) (b : Bool) (h1 : P '\\' = b) (h2 : ∀ c, isDotSafe c = true → P c = b)
    {k : List Char} (hk : k ≠ []) (r : List Char) : startsWith P (escDot k ++ r) = b := by
  cases k with
  | nil => exact absurd rfl hk
  | cons c k =>
    rw [escDot_cons]
    unfold escDotChar
    cases hs : isDotSafe c with
    | true => simpa [startsWith] using h2 c hs
    | false => simpa [startsWith] using h1

theorem acc_dotChild_key (k : List Char) (hk : dotSpellable k = true) {p : Nat} {r : List Char}
    (h : Sfx inp p (escDot k ++ r)) (hr : StepStop r) :
    Acc (19 + 32 * (escDot k).length) (.rule "dotChildIdentifier") inp p (p + (escDot k).length)
      [.text p (p + (escDot k).length), .action 10] := by
  have hne := dotSpellable_ne_nil hk
  have hpos := escDot_length_pos hne
  obtain ⟨c, l, hcl⟩ : ∃ c l, escDot k ++ r = c :: l := by
    cases hx : escDot k with
    | nil => rw [hx] at hpos; simp at hpos
    | cons c l => exact ⟨c, l ++ r, rfl⟩
  rw [hcl] at h
  obtain ⟨pre, hinp, hlen⟩ := h.exists_pre
  subst hinp; subst hlen
  rw [← hcl]
  have hge := escDot_length_ge k
  refine (Acc.rule "dotChildIdentifier" dot_rule_body (Fa := k.length + 17) ?_).mono (by omega)
  intro f hf
  exact gen_dot_rule_accepts k pre r hne (dotSpellable_noControl hk) hr.dotStops hr.noCall f hf

theorem acc_dotChild_wild {p : Nat} {r : List Char} (h : Sfx inp p ('*' :: r)) :
    Acc 6 (.rule "dotChildIdentifier") inp p (p + 1) [.action 12] := by
  refine (Acc.rule "dotChildIdentifier" dot_rule_body (Fa := 5) ?_).mono (by omega)
  rw [dot_rule_shape]
  exact Acc.alt_l _ (acc_wildcardId h)

/-! ### a loop over a character class -/

theorem acc_star_cls (rs : List (Char × Char)) (P : Char → Bool) (hP : ∀ c, inRanges c rs = P c) :
    ∀ (ds : List Char) {p : Nat} {r : List Char}, (∀ c ∈ ds, P c = true) →
    Sfx inp p (ds ++ r) → startsWith P r = false →
    Acc (2 + 32 * ds.length) (.star (.cls false rs)) inp p (p + ds.length) [] := by
  intro ds
  induction ds with
  | nil =>
    intro p r _ h hr
    refine (Acc.star_nil (rej_cls_of false _ h ?_)).mono (by simp)
    simpa [hP] using hr
  | cons d ds ih =>
    intro p r hd h hr
    have h1 : Acc 1 (.cls false rs) inp p (p + 1) [] :=
      acc_cls false _ h (by rw [hP, hd d (by simp)]; rfl)
    have h2 := ih (fun c hc => hd c (by simp [hc])) h.tail hr
    refine ((Acc.star_cons h1 h2).mono ?_).cast ?_ rfl
    · simp only [List.length_cons]; omega
    · simp only [List.length_cons]; omega

theorem acc_plus_cls (rs : List (Char × Char)) (P : Char → Bool) (hP : ∀ c, inRanges c rs = P c)
    (ds : List Char) {p : Nat} {r : List Char} (hne : ds ≠ [])
    (hd : ∀ c ∈ ds, P c = true) (h : Sfx inp p (ds ++ r)) (hr : startsWith P r = false) :
    Acc (2 + 32 * ds.length) (.plus (.cls false rs)) inp p (p + ds.length) [] := by
  cases ds with
  | nil => exact absurd rfl hne
  | cons d ds =>
    have h1 : Acc 1 (.cls false rs) inp p (p + 1) [] :=
      acc_cls false _ h (by rw [hP, hd d (by simp)]; rfl)
    have h2 := acc_star_cls rs P hP ds (fun c hc => hd c (by simp [hc])) h.tail hr
    refine ((Acc.plus h1 h2).mono ?_).cast ?_ rfl
    · simp only [List.length_cons]; omega
    · simp only [List.length_cons]; omega

/-! ### `function` -/

theorem function_body : ruleBody Gen.grammar "function" =
    .seq (.cap (.seq (.lit ".") (.seq (.rule "functionName") (.lit "()")))) (.act 5) := rfl

theorem functionName_body : ruleBody Gen.grammar "functionName" =
    .seq (.cap (.plus (.cls false [(Char.ofNat 45, Char.ofNat 45), (Char.ofNat 95, Char.ofNat 95),
      (Char.ofNat 97, Char.ofNat 122), (Char.ofNat 65, Char.ofNat 90), (Char.ofNat 48, Char.ofNat 57)]))) (.act 6) := rfl

theorem inRanges_fn (c : Char) :
    inRanges c [(Char.ofNat 45, Char.ofNat 45), (Char.ofNat 95, Char.ofNat 95),
      (Char.ofNat 97, Char.ofNat 122), (Char.ofNat 65, Char.ofNat 90), (Char.ofNat 48, Char.ofNat 57)]
      = isFnChar c := by
  simp only [inRanges, isFnChar]
  generalize c.toNat = n
  rw [Bool.eq_iff_iff]
  simp
  omega

theorem fnNameOK_ne_nil {f : Fn} (h : fnNameOK f = true) : (fnName f).toList ≠ [] := by
  intro hk
  simp [fnNameOK, hk] at h

theorem fnNameOK_chars {f : Fn} (h : fnNameOK f = true) : ∀ c ∈ (fnName f).toList, isFnChar c = true := by
  simp only [fnNameOK, Bool.and_eq_true, List.all_eq_true] at h
  exact h.2

theorem acc_function (f : Fn) (hf : fnNameOK f = true) {p : Nat} {r : List Char}
    (h : Sfx inp p (fnText f ++ r)) :
    Acc (12 + 32 * (fnText f).length) (.rule "function") inp p (p + (fnText f).length) (tkFn f p) := by
  simp only [fnText, List.cons_append, List.append_assoc, List.nil_append] at h
  have a0 := acc_lit1 "." '.' rfl h
  have a1 := acc_plus_cls _ isFnChar inRanges_fn (fnName f).toList (fnNameOK_ne_nil hf) (fnNameOK_chars hf)
    h.tail rfl
  have a2 := Acc.rule "functionName" functionName_body (Acc.seq (Acc.cap a1) (acc_act 6 _))
  have a3 := acc_lit "()" ['(', ')'] rfl (r := r) h.tail.append
  refine ((Acc.rule "function" function_body
    (Acc.seq (Acc.cap (Acc.seq a0 (Acc.seq a2 a3))) (acc_act 5 _))).mono ?_).cast ?_ ?_
  · simp only [fnText, List.length_cons, List.length_append, List.length_nil]; omega
  · simp only [fnText, List.length_cons, List.length_append, List.length_nil]; omega
  · simp only [tkFn, fnText, List.length_cons, List.length_append, List.length_nil]
    have : p + 1 + (fnName f).toList.length + 2 = p + ((fnName f).toList.length + (0 + 1 + 1) + 1) := by omega
    simp [this]

theorem rej_function {p : Nat} {l : List Char} (h : Sfx inp p l)
    (hl : startsWith (fun c => c == '.') l = false) : Rej 5 (.rule "function") inp p :=
  (Rej.rule "function" function_body (Rej.seq_l _ (Rej.cap (Rej.seq_l _
    (rej_lit1 "." '.' [] rfl h hl))))).mono (by omega)

theorem fnText_length_pos (f : Fn) : 1 ≤ (fnText f).length := by simp [fnText]

/-- `function*` over `.f().g()` in front of the end of the path -/
theorem acc_functions (fns : List Fn) (hfns : fns.all fnNameOK = true) {p : Nat} {r : List Char}
    (h : Sfx inp p (flat fnText fns ++ r)) (hr : PathStop r) :
    Acc (14 + 32 * (flat fnText fns).length) (.star (.rule "function")) inp p
      (p + (flat fnText fns).length) (toksStar fnText tkFn fns p) := by
  refine (acc_star_items (inp := inp) (.rule "function") fnText tkFn (fun f => fnNameOK f = true)
    (fun _ => True) 12 5 r trivial ?_ ?_ ?_ ?_ fns p ?_ h).mono (by omega)
  · intro _ _ _; trivial
  · intro f _; exact fnText_length_pos f
  · intro f r' pos hf _ hs; exact acc_function f hf hs
  · intro pos hs
    exact rej_function hs (startsWith_false_of_imp (by intro c hc; simp at hc; simp [hc]) hr.noDotBracket)
  · intro f hf; exact List.all_eq_true.mp hfns f hf

theorem fnsText_eq_flat (fns : List Fn) : fnsText fns = flat fnText fns := by
  induction fns with
  | nil => rfl
  | cons f fs ih => simp [fnsText, flat, ih]

/-! ### `childNode` -/

theorem childNode_body : ruleBody Gen.grammar "childNode" =
    .alt (.seq (.lit "..") (.seq (.alt (.rule "bracketNode") (.rule "dotChildIdentifier")) (.act 3)))
      (.alt (.seq (.cap (.seq (.lit ".") (.rule "dotChildIdentifier"))) (.act 4)) (.rule "bracketNode")) := rfl

/-- what stands after `..` -/
def afterDesc : PE := .alt (.rule "bracketNode") (.rule "dotChildIdentifier")

/-- the expression that reads one step -/
def stepPE (ad : Bool) : PE := if ad then afterDesc else .rule "childNode"

theorem not_dotdot {l : List Char} (hl : startsWith (fun c => c == '.') l = false) :
    ['.', '.'].isPrefixOf ('.' :: l) = false := by
  have := not_prefix_of_startsWith '.' [] hl
  simp only [List.isPrefixOf, this, Bool.and_false]

/-- `.name` -/
theorem acc_childNode_dot (k : List Char) (hk : dotSpellable k = true) {p : Nat} {r : List Char}
    (h : Sfx inp p ('.' :: (escDot k ++ r))) (hr : StepStop r) :
    Acc (25 + 32 * (escDot k).length) (.rule "childNode") inp p (p + 1 + (escDot k).length)
      [.text (p + 1) (p + 1 + (escDot k).length), .action 10,
       .text p (p + 1 + (escDot k).length), .action 4] := by
  have hne := dotSpellable_ne_nil hk
  have r1 : Rej 1 (.lit "..") inp p :=
    rej_lit ".." ['.', '.'] rfl h (not_dotdot (startsWith_escDot (fun c => c == '.') false (by decide)
      (by intro c hc; simp; intro hx; subst hx; revert hc; decide) hne r))
  have a2 := acc_dotChild_key k hk h.tail hr
  refine ((Acc.rule "childNode" childNode_body (Acc.alt_r (Rej.seq_l _ r1)
    (Acc.alt_l _ (Acc.seq (Acc.cap (Acc.seq (acc_lit1 "." '.' rfl h) a2)) (acc_act 4 _))))).mono ?_).cast rfl ?_
  · omega
  · simp

/-- `.*` -/
theorem acc_childNode_wild {p : Nat} {r : List Char} (h : Sfx inp p ('.' :: '*' :: r)) :
    Acc 14 (.rule "childNode") inp p (p + 2) [.action 12, .text p (p + 2), .action 4] := by
  have r1 : Rej 1 (.lit "..") inp p := rej_lit ".." ['.', '.'] rfl h rfl
  have a2 := acc_dotChild_wild h.tail
  exact ((Acc.rule "childNode" childNode_body (Acc.alt_r (Rej.seq_l _ r1)
    (Acc.alt_l _ (Acc.seq (Acc.cap (Acc.seq (acc_lit1 "." '.' rfl h) a2)) (acc_act 4 _))))).mono
      (by omega)).cast rfl (by simp)

/-- a bracket step as a `childNode` -/
theorem acc_childNode_bracket {F : Nat} {p p' : Nat} {T : List Tok} {l : List Char}
    (h : Sfx inp p ('[' :: l)) (hb : Acc F (.rule "bracketNode") inp p p' T) :
    Acc (F + 8) (.rule "childNode") inp p p' T := by
  have r1 : Rej 1 (.lit "..") inp p := rej_lit ".." ['.', '.'] rfl h rfl
  have r2 : Rej 1 (.lit ".") inp p := rej_lit "." ['.'] rfl h rfl
  exact (Acc.rule "childNode" childNode_body (Acc.alt_r (Rej.seq_l _ r1)
    (Acc.alt_r (Rej.seq_l _ (Rej.cap (Rej.seq_l _ r2))) hb))).mono (by omega)

/-- `..` + what `afterDesc` accepts -/
theorem acc_childNode_desc {F : Nat} {p p' : Nat} {T : List Tok} {l : List Char}
    (h : Sfx inp p ('.' :: '.' :: l)) (hb : Acc F afterDesc inp (p + 2) p' T) :
    Acc (F + 8) (.rule "childNode") inp p p' (T ++ [.action 3]) := by
  have a1 := acc_lit ".." ['.', '.'] rfl (r := l) h
  exact (Acc.rule "childNode" childNode_body (Acc.alt_l _ (Acc.seq a1 (Acc.seq hb (acc_act 3 _))))).mono
    (by omega)

theorem acc_afterDesc_bracket {F : Nat} {p p' : Nat} {T : List Tok}
    (hb : Acc F (.rule "bracketNode") inp p p' T) : Acc (F + 1) afterDesc inp p p' T :=
  Acc.alt_l _ hb

theorem acc_afterDesc_key (k : List Char) (hk : dotSpellable k = true) {p : Nat} {r : List Char}
    (h : Sfx inp p (escDot k ++ r)) (hr : StepStop r) :
    Acc (25 + 32 * (escDot k).length) afterDesc inp p (p + (escDot k).length)
      [.text p (p + (escDot k).length), .action 10] := by
  have r1 := rej_bracketNode h (startsWith_escDot (fun c => c == '[') false (by decide)
    (by intro c hc; simp; intro hx; subst hx; revert hc; decide) (dotSpellable_ne_nil hk) r)
  exact (Acc.alt_r r1 (acc_dotChild_key k hk h hr)).mono (by omega)

theorem acc_afterDesc_wild {p : Nat} {r : List Char} (h : Sfx inp p ('*' :: r)) :
    Acc 9 afterDesc inp p (p + 1) [.action 12] :=
  (Acc.alt_r (rej_bracketNode h rfl) (acc_dotChild_wild h)).mono (by omega)

/-- `childNode` fails at the end of a path -/
theorem rej_childNode_end {p : Nat} {r : List Char} (h : Sfx inp p r) (hr : PathStop r) :
    Rej 10 (.rule "childNode") inp p := by
  have hnd : startsWith (fun c => c == '.') r = false :=
    startsWith_false_of_imp (by intro c hc; simp at hc; simp [hc]) hr.noDotBracket
  have hnb : startsWith (fun c => c == '[') r = false :=
    startsWith_false_of_imp (by intro c hc; simp at hc; simp [hc]) hr.noDotBracket
  exact (Rej.rule "childNode" childNode_body (Rej.alt (Rej.seq_l _ (rej_lit1 ".." '.' ['.'] rfl h hnd))
    (Rej.alt (Rej.seq_l _ (Rej.cap (Rej.seq_l _ (rej_lit1 "." '.' [] rfl h hnd))))
      (rej_bracketNode h hnb)))).mono (by omega)

theorem isDotSafe_of_fnChar (c : Char) (h : isFnChar c = true) : isDotSafe c = true := by
  simp only [isDotSafe, isFnChar, char_eq_iff] at *
  generalize c.toNat = n at *
  simp at *
  omega

theorem escDot_safe : ∀ (k : List Char), (∀ c ∈ k, isDotSafe c = true) → escDot k = k := by
  intro k
  induction k with
  | nil => intro _; rfl
  | cons c k ih =>
    intro h
    rw [escDot_cons, ih (fun d hd => h d (by simp [hd]))]
    simp [escDotChar, h c (by simp)]

/-- `childNode` fails in front of a function call `.f()` -/
theorem rej_childNode_fn (f : Fn) (hf : fnNameOK f = true) {p : Nat} {r : List Char}
    (h : Sfx inp p (fnText f ++ r)) : Rej (30 + (fnText f).length) (.rule "childNode") inp p := by
  simp only [fnText, List.cons_append, List.append_assoc, List.nil_append] at h
  have hne := fnNameOK_ne_nil hf
  have hch := fnNameOK_chars hf
  have hsafe : ∀ c ∈ (fnName f).toList, isDotSafe c = true := fun c hc => isDotSafe_of_fnChar c (hch c hc)
  have hnd : startsWith (fun c => c == '.') ((fnName f).toList ++ ('(' :: ')' :: r)) = false := by
    cases hx : (fnName f).toList with
    | nil => exact absurd hx hne
    | cons c l =>
      rw [hx] at hch
      have := hch c (by simp)
      simp only [List.cons_append, startsWith, beq_eq_false_iff_ne, ne_eq]
      intro hc; subst hc; revert this; decide
  have hns : startsWith (fun c => c == '*') ((fnName f).toList ++ ('(' :: ')' :: r)) = false := by
    cases hx : (fnName f).toList with
    | nil => exact absurd hx hne
    | cons c l =>
      rw [hx] at hch
      have := hch c (by simp)
      simp only [List.cons_append, startsWith, beq_eq_false_iff_ne, ne_eq]
      intro hc; subst hc; revert this; decide
  have r1 : Rej 1 (.lit "..") inp p := rej_lit ".." ['.', '.'] rfl h (not_dotdot hnd)
  -- `dotChildIdentifier` on `f()`: the name is read, then `!'()'` fails
  have h1 := h.tail
  have r2 : Rej ((fnName f).toList.length + 20) (.rule "dotChildIdentifier") inp (p + 1) := by
    refine (Rej.rule "dotChildIdentifier" dot_rule_body (Fa := (fnName f).toList.length + 19) ?_).mono (by omega)
    rw [dot_rule_shape]
    have rw1 := rej_wildcardId h1 hns
    have hplus : Acc ((fnName f).toList.length + 13) (.plus dotItem) inp (p + 1)
        (p + 1 + (fnName f).toList.length) [] := by
      obtain ⟨c, l, hcl⟩ : ∃ c l, (fnName f).toList ++ ('(' :: ')' :: r) = c :: l := by
        cases hx : (fnName f).toList with
        | nil => exact absurd hx hne
        | cons c l => exact ⟨c, l ++ ('(' :: ')' :: r), rfl⟩
      have h1' := h1
      rw [hcl] at h1'
      obtain ⟨pre, hinp, hlen⟩ := h1'.exists_pre
      subst hinp
      rw [← hlen]
      intro fu hfu
      have := plus_dot (fnName f).toList pre ('(' :: ')' :: r) hne
        (fun c hc => isDotSafe_not_control c (hsafe c hc))
        (.inr ⟨'(', ')' :: r, rfl, by decide, .inl (by decide)⟩) fu hfu
      rw [escDot_safe _ hsafe, hcl] at this
      exact this
    have hcall : Acc 1 (.lit "()") inp (p + 1 + (fnName f).toList.length) (p + 1 + (fnName f).toList.length + 2) [] :=
      acc_lit "()" ['(', ')'] rfl (r := r) h1.append
    exact (Rej.alt rw1 (Rej.seq_r (Acc.cap hplus) (Rej.seq_l _ (Rej.not hcall)))).mono (by omega)
  have r3 := rej_bracketNode h rfl
  refine (Rej.rule "childNode" childNode_body (Rej.alt (Rej.seq_l _ r1)
    (Rej.alt (Rej.seq_l _ (Rej.cap (Rej.seq_r (acc_lit1 "." '.' rfl h) r2))) r3))).mono ?_
  simp only [fnText, List.length_cons, List.length_append, List.length_nil]; omega

/-- `childNode` fails where the steps of a printed path end -/
theorem rej_childNode_post (fns : List Fn) (hfns : fns.all fnNameOK = true) {p : Nat} {r : List Char}
    (h : Sfx inp p (fnsText fns ++ r)) (hr : PathStop r) :
    Rej (30 + (fnsText fns).length) (.rule "childNode") inp p := by
  cases fns with
  | nil => exact (rej_childNode_end h hr).mono (by omega)
  | cons f fs =>
    simp only [fnsText, List.append_assoc] at h
    have hf : fnNameOK f = true := by simp only [List.all_cons, Bool.and_eq_true] at hfns; exact hfns.1
    refine (rej_childNode_fn f hf h).mono ?_
    simp only [fnsText, List.length_append]; omega

/-! ### `continuedJsonpath`, `jsonpath`, `jsonpathParameter`, `expression` -/

theorem continued_body : ruleBody Gen.grammar "continuedJsonpath" =
    .seq (.star (.rule "childNode")) (.seq (.star (.rule "function")) (.seq (.rule "space") (.act 2))) := rfl

/-- given the loop over the steps, the rest of `continuedJsonpath` -/
theorem acc_continued_of {Fs : Nat} (fns : List Fn) (hfns : fns.all fnNameOK = true) {p p1 : Nat}
    {Ts : List Tok} {r : List Char} (hs : Acc Fs (.star (.rule "childNode")) inp p p1 Ts)
    (h1 : Sfx inp p1 (fnsText fns ++ r)) (hr : PathStop r) :
    Acc (max Fs (14 + 32 * (fnsText fns).length) + 4) (.rule "continuedJsonpath") inp p
      (p1 + (fnsText fns).length) (Ts ++ (toksStar fnText tkFn fns p1 ++ [.action 2])) := by
  rw [fnsText_eq_flat] at h1 ⊢
  have a2 := acc_functions fns hfns h1 hr
  have a3 := acc_space h1.append hr.noSp
  exact ((Acc.rule "continuedJsonpath" continued_body
    (Acc.seq hs (Acc.seq a2 (Acc.seq a3 (acc_act 2 _))))).mono (by omega)).cast rfl (by simp)

theorem jsonpath_body : ruleBody Gen.grammar "jsonpath" =
    .seq (.rule "space") (.seq (.rule "rootNode") (.rule "continuedJsonpath")) := rfl
theorem rootNode_body : ruleBody Gen.grammar "rootNode" =
    .alt (.rule "rootIdentifier") (.alt (.rule "bracketNode") (.rule "dotChildIdentifier")) := rfl
theorem rootId_body : ruleBody Gen.grammar "rootIdentifier" = .seq (.lit "$") (.act 8) := rfl
theorem curId_body : ruleBody Gen.grammar "currentRootIdentifier" = .seq (.lit "@") (.act 9) := rfl
theorem jsonpathParameter_body : ruleBody Gen.grammar "jsonpathParameter" =
    .seq (.rule "space") (.seq (.rule "parameterRootNode") (.rule "continuedJsonpath")) := rfl
theorem parameterRootNode_body : ruleBody Gen.grammar "parameterRootNode" =
    .alt (.rule "rootIdentifier") (.rule "currentRootIdentifier") := rfl

/-- `jsonpath` on `$` + what `continuedJsonpath` accepts -/
theorem acc_jsonpath_of {F : Nat} {p' : Nat} {T : List Tok} {l : List Char} {p : Nat}
    (h : Sfx inp p ('$' :: l)) (hc : Acc F (.rule "continuedJsonpath") inp (p + 1) p' T) :
    Acc (F + 10) (.rule "jsonpath") inp p p' (.action 8 :: T) := by
  have a1 := acc_space h (noSp_cons (by decide) l)
  have a2 : Acc 5 (.rule "rootNode") inp p (p + 1) [.action 8] :=
    ((Acc.rule "rootNode" rootNode_body (Acc.alt_l _ (Acc.rule "rootIdentifier" rootId_body
      (Acc.seq (acc_lit1 "$" '$' rfl h) (acc_act 8 _))))).mono (by omega)).cast rfl rfl
  exact ((Acc.rule "jsonpath" jsonpath_body (Acc.seq a1 (Acc.seq a2 hc))).mono (by omega)).cast rfl (by simp)

/-- `jsonpathParameter` on `$`/`@` + what `continuedJsonpath` accepts -/
theorem acc_jsonpathParameter_of {F : Nat} (hd : Head) {p' : Nat} {T : List Tok} {l : List Char} {p : Nat}
    (h : Sfx inp p (headChar hd :: l)) (hc : Acc F (.rule "continuedJsonpath") inp (p + 1) p' T) :
    Acc (F + 10) (.rule "jsonpathParameter") inp p p'
      (.action (headAct hd) :: T) := by
  have a1 := acc_space h (noSp_cons (by cases hd <;> decide) l)
  have a2 : Acc 6 (.rule "parameterRootNode") inp p (p + 1) [.action (headAct hd)] := by
    cases hd with
    | root =>
      exact ((Acc.rule "parameterRootNode" parameterRootNode_body (Acc.alt_l _ (Acc.rule "rootIdentifier" rootId_body
        (Acc.seq (acc_lit1 "$" '$' rfl h) (acc_act 8 _))))).mono (by omega)).cast rfl rfl
    | cur =>
      have r1 : Rej 3 (.rule "rootIdentifier") inp p :=
        Rej.rule "rootIdentifier" rootId_body (Rej.seq_l _ (rej_lit1 "$" '$' [] rfl h rfl))
      exact ((Acc.rule "parameterRootNode" parameterRootNode_body (Acc.alt_r r1
        (Acc.rule "currentRootIdentifier" curId_body
          (Acc.seq (acc_lit1 "@" '@' rfl h) (acc_act 9 _))))).mono (by omega)).cast rfl rfl
  exact ((Acc.rule "jsonpathParameter" jsonpathParameter_body (Acc.seq a1 (Acc.seq a2 hc))).mono
    (by omega)).cast rfl (by simp)

/-- `expression` on a whole input that `jsonpath` accepts -/
theorem acc_expression_of {F : Nat} {n : Nat} {T : List Tok}
    (hj : Acc F (.rule "jsonpath") inp 0 n T) (hn : Sfx inp n []) :
    Acc (F + 8) (.alt exprAlt1 exprAlt2) inp 0 n (T ++ [.action 0]) := by
  have a2 : Acc 3 (.rule "END") inp n n [] := Acc.rule "END" end_body (Acc.not (rej_any hn))
  exact ((Acc.alt_l _ (Acc.seq hj (Acc.seq a2 (acc_act 0 _)))).mono (by omega)).cast rfl (by simp)

end JPV.PP
