/-
Tie T1 for the "accepted" half of C16: the rules regenerated from /repo/jsonpath.peg
(JPV/Gen/Grammar.lean, written by harness/cmd/translate/grammar.go on every run), run by the PEG
interpreter JPV/Peg/Peg.lean, accept the renderings `'EscSingle k'`, `"EscDouble k"` and `EscDot k`
IN CONTEXT (arbitrary text before, the closing quote / a terminating character after), capture
exactly the rendering, and reach the action whose text calls the corresponding unescaping routine.

If somebody edits one of the rules dotChildIdentifier, signsWithoutHyphenUnderscore,
singleQuotedNodeIdentifier, doubleQuotedNodeIdentifier, hexDigits, hexDigit or the actions 10, 13,
14, the `…_shape` / `…_body` / `action…` theorems (all `rfl` against the regenerated file) stop
checking, and whoever repairs them has to re-prove the acceptance theorems for the new rule.
-/
import JPV.Lemmas.Peg
import JPV.Gen.Grammar
import JPV.Lemmas.Escape
namespace JPV.Lex
open JPV.Peg

/-! ## the shape of the regenerated rules -/

/-- one round of the loop in a quoted member name -/
def quotedItem (q : Char) : PE :=
  .alt (.seq (.lit "\\")
          (.alt (.cls false [(q, q), ('/', '/'), ('\\', '\\'), ('b', 'b'), ('f', 'f'), ('n', 'n'), ('r', 'r'), ('t', 't')])
                (.rule "hexDigits")))
       (.cls true [(q, q), ('\\', '\\')])

/-- one round of the loop in a dot-child name -/
def dotItem : PE :=
  .alt (.seq (.lit "\\") (.rule "signsWithoutHyphenUnderscore"))
       (.seq (.not (.cls false [(Char.ofNat 0, Char.ofNat 31), (Char.ofNat 127, Char.ofNat 127)]))
             (.seq (.not (.rule "signsWithoutHyphenUnderscore")) .any))

theorem single_rule_shape : Gen.rule_singleQuotedNodeIdentifier =
    .seq (.lit "'") (.seq (.cap (.star (quotedItem '\''))) (.seq (.lit "'") (.act 13))) := rfl

theorem double_rule_shape : Gen.rule_doubleQuotedNodeIdentifier =
    .seq (.lit "\"") (.seq (.cap (.star (quotedItem '"'))) (.seq (.lit "\"") (.act 14))) := rfl

theorem dot_rule_shape : Gen.rule_dotChildIdentifier =
    .alt (.rule "wildcardIdentifier") (.seq (.cap (.plus dotItem)) (.seq (.not (.lit "()")) (.act 10))) := rfl

theorem hexDigits_body : ruleBody Gen.grammar "hexDigits" =
    .seq (.lit "u") (.seq (.rule "hexDigit") (.seq (.rule "hexDigit") (.seq (.rule "hexDigit") (.rule "hexDigit")))) := rfl

theorem hexDigit_body : ruleBody Gen.grammar "hexDigit" =
    .cls false [(Char.ofNat 97, Char.ofNat 102), (Char.ofNat 65, Char.ofNat 70), (Char.ofNat 48, Char.ofNat 57)] := rfl

theorem signs_body : ruleBody Gen.grammar "signsWithoutHyphenUnderscore" =
    .cls false [(Char.ofNat 32, Char.ofNat 44), (Char.ofNat 46, Char.ofNat 46), (Char.ofNat 47, Char.ofNat 47),
      (Char.ofNat 58, Char.ofNat 64), (Char.ofNat 91, Char.ofNat 94), (Char.ofNat 96, Char.ofNat 96),
      (Char.ofNat 123, Char.ofNat 126)] := rfl

theorem wildcard_body : ruleBody Gen.grammar "wildcardIdentifier" = .seq (.lit "*") (.act 12) := rfl

theorem single_rule_body : ruleBody Gen.grammar "singleQuotedNodeIdentifier" = Gen.rule_singleQuotedNodeIdentifier := rfl
theorem double_rule_body : ruleBody Gen.grammar "doubleQuotedNodeIdentifier" = Gen.rule_doubleQuotedNodeIdentifier := rfl
theorem dot_rule_body : ruleBody Gen.grammar "dotChildIdentifier" = Gen.rule_dotChildIdentifier := rfl

/-- the actions the three rules end in hand the capture to the three routines of C16 -/
theorem action10_text : Gen.actions[10]? = some "\n        p.pushChildSingleIdentifier(p.unescape(text))\n    " := rfl
theorem action13_text : Gen.actions[13]? = some "\n        p.pushChildSingleIdentifier(p.unescapeSingleQuotedString(text))\n    " := rfl
theorem action14_text : Gen.actions[14]? = some "\n        p.pushChildSingleIdentifier(p.unescapeDoubleQuotedString(text))\n    " := rfl

/-! ## character classes of the grammar = the predicates of Lex/Escape.lean -/

theorem inRanges_sign (c : Char) :
    inRanges c [(Char.ofNat 32, Char.ofNat 44), (Char.ofNat 46, Char.ofNat 46), (Char.ofNat 47, Char.ofNat 47),
      (Char.ofNat 58, Char.ofNat 64), (Char.ofNat 91, Char.ofNat 94), (Char.ofNat 96, Char.ofNat 96),
      (Char.ofNat 123, Char.ofNat 126)] = isSign c := by
  simp only [inRanges, isSign]
  generalize c.toNat = n
  rw [Bool.eq_iff_iff]
  simp
  omega

theorem inRanges_hex (c : Char) :
    inRanges c [(Char.ofNat 97, Char.ofNat 102), (Char.ofNat 65, Char.ofNat 70), (Char.ofNat 48, Char.ofNat 57)]
      = isHexDigit c := by
  simp only [inRanges, isHexDigit]
  generalize c.toNat = n
  rw [Bool.eq_iff_iff]
  simp
  omega

theorem inRanges_control (c : Char) :
    inRanges c [(Char.ofNat 0, Char.ofNat 31), (Char.ofNat 127, Char.ofNat 127)] = isControl c := by
  simp only [inRanges, isControl]
  generalize c.toNat = n
  rw [Bool.eq_iff_iff]
  simp
  omega

theorem inRanges_single (c q : Char) (rest : List (Char × Char)) :
    inRanges c ((q, q) :: rest) = (decide (c = q) || inRanges c rest) := by
  simp only [inRanges]
  congr 1
  rw [Bool.eq_iff_iff]
  simp only [Bool.and_eq_true, decide_eq_true_eq, char_eq_iff]
  omega

/-! ## indexing into `pre ++ …` -/

theorem getElem?_at (pre l : List Char) (i : Nat) : (pre ++ l).toArray[pre.length + i]? = l[i]? := by
  simp [List.getElem?_append_right]

theorem getElem?_at0 (pre l : List Char) : (pre ++ l).toArray[pre.length]? = l[0]? := by
  simpa using getElem?_at pre l 0

/-! ## one round of the quoted loop -/

private theorem lit_bs : "\\".toList = ['\\'] := rfl
private theorem lit_u : "u".toList = ['u'] := rfl
private theorem len_bs : "\\".length = 1 := rfl
private theorem len_u : "u".length = 1 := rfl
theorem inRanges_nil (c : Char) : inRanges c [] = false := rfl

/-- an ordinary character -/
theorem quotedItem_plain (q : Char) (inp : Array Char) (pos : Nat) (c : Char) (h0 : inp[pos]? = some c)
    (hc1 : c ≠ '\\') (hc2 : c ≠ q) :
    run Gen.grammar 12 (quotedItem q) inp pos = .ok (pos + 1) [] := by
  have n1 : ¬ ('\\' = c) := fun h => hc1 h.symm
  simp [quotedItem, run, lit_bs, len_bs, matchLit, h0, n1, inRanges_single, inRanges_nil, hc1, hc2]

/-- `\q` and `\\` -/
theorem quotedItem_esc (q : Char) (inp : Array Char) (pos : Nat) (e : Char)
    (h0 : inp[pos]? = some '\\') (h1 : inp[pos + 1]? = some e) (he : e = q ∨ e = '\\') :
    run Gen.grammar 12 (quotedItem q) inp pos = .ok (pos + 2) [] := by
  rcases he with he | he <;> subst he <;>
    simp [quotedItem, run, lit_bs, len_bs, matchLit, h0, h1, inRanges_single, inRanges_nil]

/-- `\uXXXX` -/
theorem quotedItem_u (q : Char) (hq : q ≠ 'u') (inp : Array Char) (pos : Nat) (a b c d : Char)
    (h0 : inp[pos]? = some '\\') (h1 : inp[pos + 1]? = some 'u')
    (h2 : inp[pos + 2]? = some a) (h3 : inp[pos + 3]? = some b)
    (h4 : inp[pos + 4]? = some c) (h5 : inp[pos + 5]? = some d)
    (ha : isHexDigit a = true) (hb : isHexDigit b = true) (hc : isHexDigit c = true) (hd : isHexDigit d = true) :
    run Gen.grammar 12 (quotedItem q) inp pos = .ok (pos + 6) [] := by
  have hq' : ¬ ('u' = q) := fun h => hq h.symm
  have h2' : inp[pos + 1 + 1]? = some a := h2
  have h3' : inp[pos + 1 + 1 + 1]? = some b := h3
  have h4' : inp[pos + 1 + 1 + 1 + 1]? = some c := h4
  have h5' : inp[pos + 1 + 1 + 1 + 1 + 1]? = some d := h5
  simp [quotedItem, run, lit_bs, lit_u, len_bs, len_u, matchLit, h0, h1, h2', h3', h4', h5', inRanges_single,
    inRanges_nil, hq', hexDigits_body, hexDigit_body, inRanges_hex, ha, hb, hc, hd]

/-- the loop stops in front of the closing quote … -/
theorem quotedItem_quote (q : Char) (hq : q ≠ '\\') (inp : Array Char) (pos : Nat) (h0 : inp[pos]? = some q) :
    run Gen.grammar 12 (quotedItem q) inp pos = .fail := by
  have n1 : ¬ ('\\' = q) := fun h => hq h.symm
  simp [quotedItem, run, lit_bs, len_bs, matchLit, h0, n1, inRanges_single, inRanges_nil]

end JPV.Lex
