/-
Tie T1 for the "accepted" half of C16: the rules regenerated from /repo/jsonpath.peg
(JPV/Gen/Grammar.lean, written by harness/cmd/translate/grammar.go on every run), run by the PEG
interpreter JPV/Peg/Peg.lean, accept the renderings `'EscSingle k'`, `"EscDouble k"` and `EscDot k`
IN CONTEXT (arbitrary text before, the closing quote / a terminating character after), capture
exactly the rendering, and reach the action whose text calls the corresponding unescaping routine.

If somebody edits one of the rules dotChildIdentifier, signsWithoutHyphenUnderscore,
singleQuotedNodeIdentifier, doubleQuotedNodeIdentifier, hexDigits, hexDigit or the actions 10, 13,
14, the `…_shape` / `…_body` / `action…` theorems (all `rfl` against the regenerated file) stop
checking, and whoever repairs them has to re-prove the acceptance theorems for the new rule.
-/
import JPV.Lemmas.Peg
import JPV.Gen.Grammar
import JPV.Lemmas.Escape
namespace JPV.Lex
open JPV.Peg

/-! ## the shape of the regenerated rules -/

/-- one round of the loop in a quoted member name -/
def quotedItem (q : Char) : PE :=
  .alt (.seq (.lit "\\")
          (.alt (.cls false [(q, q), ('/', '/'), ('\\', '\\'), ('b', 'b'), ('f', 'f'), ('n', 'n'), ('r', 'r'), ('t', 't')])
                (.rule "hexDigits")))
       (.cls true [(q, q), ('\\', '\\')])

/-- one round of the loop in a dot-child name -/
def dotItem : PE :=
  .alt (.seq (.lit "\\") (.rule "signsWithoutHyphenUnderscore"))
       (.seq (.not (.cls false [(Char.ofNat 0, Char.ofNat 31), (Char.ofNat 127, Char.ofNat 127)]))
             (.seq (.not (.rule "signsWithoutHyphenUnderscore")) .any))

theorem single_rule_shape : Gen.rule_singleQuotedNodeIdentifier =
    .seq (.lit "'") (.seq (.cap (.star (quotedItem '\''))) (.seq (.lit "'") (.act 13))) := rfl

theorem double_rule_shape : Gen.rule_doubleQuotedNodeIdentifier =
    .seq (.lit "\"") (.seq (.cap (.star (quotedItem '"'))) (.seq (.lit "\"") (.act 14))) := rfl

theorem dot_rule_shape : Gen.rule_dotChildIdentifier =
    .alt (.rule "wildcardIdentifier") (.seq (.cap (.plus dotItem)) (.seq (.not (.lit "()")) (.act 10))) := rfl

theorem hexDigits_body : ruleBody Gen.grammar "hexDigits" =
    .seq (.lit "u") (.seq (.rule "hexDigit") (.seq (.rule "hexDigit") (.seq (.rule "hexDigit") (.rule "hexDigit")))) := rfl

theorem hexDigit_body : ruleBody Gen.grammar "hexDigit" =
    .cls false [(Char.ofNat 97, Char.ofNat 102), (Char.ofNat 65, Char.ofNat 70), (Char.ofNat 48, Char.ofNat 57)] := rfl

theorem signs_body : ruleBody Gen.grammar "signsWithoutHyphenUnderscore" =
    .cls false [(Char.ofNat 32, Char.ofNat 44), (Char.ofNat 46, Char.ofNat 46), (Char.ofNat 47, Char.ofNat 47),
      (Char.ofNat 58, Char.ofNat 64), (Char.ofNat 91, Char.ofNat 94), (Char.ofNat 96, Char.ofNat 96),
      (Char.ofNat 123, Char.ofNat 126)] := rfl

theorem wildcard_body : ruleBody Gen.grammar "wildcardIdentifier" = .seq (.lit "*") (.act 12) := rfl

theorem single_rule_body : ruleBody Gen.grammar "singleQuotedNodeIdentifier" = Gen.rule_singleQuotedNodeIdentifier := rfl
theorem double_rule_body : ruleBody Gen.grammar "doubleQuotedNodeIdentifier" = Gen.rule_doubleQuotedNodeIdentifier := rfl
theorem dot_rule_body : ruleBody Gen.grammar "dotChildIdentifier" = Gen.rule_dotChildIdentifier := rfl

/-- the actions the three rules end in hand the capture to the three routines of C16 -/
theorem action10_text : Gen.actions[10]? = some "\n        p.pushChildSingleIdentifier(p.unescape(text))\n    " := rfl
theorem action13_text : Gen.actions[13]? = some "\n        p.pushChildSingleIdentifier(p.unescapeSingleQuotedString(text))\n    " := rfl
theorem action14_text : Gen.actions[14]? = some "\n        p.pushChildSingleIdentifier(p.unescapeDoubleQuotedString(text))\n    " := rfl

/-! ## character classes of the grammar = the predicates of Lex/Escape.lean -/

theorem inRanges_sign (c : Char) :
    inRanges c [(Char.ofNat 32, Char.ofNat 44), (Char.ofNat 46, Char.ofNat 46), (Char.ofNat 47, Char.ofNat 47),
      (Char.ofNat 58, Char.ofNat 64), (Char.ofNat 91, Char.ofNat 94), (Char.ofNat 96, Char.ofNat 96),
      (Char.ofNat 123, Char.ofNat 126)] = isSign c := by
  simp only [inRanges, isSign]
  generalize c.toNat = n
  rw [Bool.eq_iff_iff]
  simp
  omega

theorem inRanges_hex (c : Char) :
    inRanges c [(Char.ofNat 97, Char.ofNat 102), (Char.ofNat 65, Char.ofNat 70), (Char.ofNat 48, Char.ofNat 57)]
      = isHexDigit c := by
  simp only [inRanges, isHexDigit]
  generalize c.toNat = n
  rw [Bool.eq_iff_iff]
  simp
  omega

theorem inRanges_control (c : Char) :
    inRanges c [(Char.ofNat 0, Char.ofNat 31), (Char.ofNat 127, Char.ofNat 127)] = isControl c := by
  simp only [inRanges, isControl]
  generalize c.toNat = n
  rw [Bool.eq_iff_iff]
  simp
  omega

theorem inRanges_single (c q : Char) (rest : List (Char × Char)) :
    inRanges c ((q, q) :: rest) = (decide (c = q) || inRanges c rest) := by
  simp only [inRanges]
  congr 1
  rw [Bool.eq_iff_iff]
  simp only [Bool.and_eq_true, decide_eq_true_eq, char_eq_iff]
  omega

/-! ## indexing into `pre ++ …` -/

theorem getElem?_at (pre l : List Char) (i : Nat) : (pre ++ l).toArray[pre.length + i]? = l[i]? := by
  simp [List.getElem?_append_right]

theorem getElem?_at0 (pre l : List Char) : (pre ++ l).toArray[pre.length]? = l[0]? := by
  simpa using getElem?_at pre l 0

/-! ## one round of the quoted loop -/

private theorem lit_bs : "\\".toList = ['\\'] := rfl
private theorem lit_u : "u".toList = ['u'] := rfl
private theorem len_bs : "\\".length = 1 := rfl
private theorem len_u : "u".length = 1 := rfl
theorem inRanges_nil (c : Char) : inRanges c [] = false := rfl

/-- an ordinary character -/
theorem quotedItem_plain (q : Char) (inp : Array Char) (pos : Nat) (c : Char) (h0 : inp[pos]? = some c)
    (hc1 : c ≠ '\\') (hc2 : c ≠ q) :
    run Gen.grammar 12 (quotedItem q) inp pos = .ok (pos + 1) [] := by
  have n1 : ¬ ('\\' = c) := fun h => hc1 h.symm
  simp [quotedItem, run, lit_bs, matchLit, h0, n1, inRanges_single, inRanges_nil, hc1, hc2]

/-- `\q` and `\\` -/
theorem quotedItem_esc (q : Char) (inp : Array Char) (pos : Nat) (e : Char)
    (h0 : inp[pos]? = some '\\') (h1 : inp[pos + 1]? = some e) (he : e = q ∨ e = '\\') :
    run Gen.grammar 12 (quotedItem q) inp pos = .ok (pos + 2) [] := by
  rcases he with he | he <;> subst he <;>
    simp [quotedItem, run, lit_bs, len_bs, matchLit, h0, h1, inRanges_single, inRanges_nil]

/-- `\uXXXX` -/
theorem quotedItem_u (q : Char) (hq : q ≠ 'u') (inp : Array Char) (pos : Nat) (a b c d : Char)
    (h0 : inp[pos]? = some '\\') (h1 : inp[pos + 1]? = some 'u')
    (h2 : inp[pos + 2]? = some a) (h3 : inp[pos + 3]? = some b)
    (h4 : inp[pos + 4]? = some c) (h5 : inp[pos + 5]? = some d)
    (ha : isHexDigit a = true) (hb : isHexDigit b = true) (hc : isHexDigit c = true) (hd : isHexDigit d = true) :
    run Gen.grammar 12 (quotedItem q) inp pos = .ok (pos + 6) [] := by
  have hq' : ¬ ('u' = q) := fun h => hq h.symm
  have h2' : inp[pos + 1 + 1]? = some a := h2
  have h3' : inp[pos + 1 + 1 + 1]? = some b := h3
  have h4' : inp[pos + 1 + 1 + 1 + 1]? = some c := h4
  have h5' : inp[pos + 1 + 1 + 1 + 1 + 1]? = some d := h5
  simp [quotedItem, run, lit_bs, lit_u, len_bs, len_u, matchLit, h0, h1, h2', h3', h4', h5', inRanges_single,
    inRanges_nil, hq', hexDigits_body, hexDigit_body, inRanges_hex, ha, hb, hc, hd]

/-- the loop stops in front of the closing quote … -/
theorem quotedItem_quote (q : Char) (hq : q ≠ '\\') (inp : Array Char) (pos : Nat) (h0 : inp[pos]? = some q) :
    run Gen.grammar 12 (quotedItem q) inp pos = .fail := by
  have n1 : ¬ ('\\' = q) := fun h => hq h.symm
  simp [quotedItem, run, lit_bs, matchLit, h0, n1, inRanges_single, inRanges_nil]

/-! ## the quoted loop on a rendering, in context -/

/-- one round on the rendering of one character -/
theorem quotedItem_piece (q : Char) (hq : q ≠ 'u') (c : Char) (pre rest : List Char) :
    run Gen.grammar 12 (quotedItem q) (pre ++ (escQuotedChar q c ++ rest)).toArray pre.length
      = .ok (pre.length + (escQuotedChar q c).length) [] := by
  unfold escQuotedChar
  by_cases h1 : c = q
  · subst h1
    simp only [if_true, List.cons_append, List.nil_append, List.length_cons, List.length_nil]
    exact quotedItem_esc c _ _ c (by rw [getElem?_at0]; rfl) (by rw [getElem?_at]; rfl) (Or.inl rfl)
  · by_cases h2 : c = '\\'
    · subst h2
      simp only [if_neg h1, if_true, List.cons_append, List.nil_append, List.length_cons, List.length_nil]
      exact quotedItem_esc q _ _ '\\' (by rw [getElem?_at0]; rfl) (by rw [getElem?_at]; rfl) (Or.inr rfl)
    · cases hc : isControl c with
      | true =>
        simp only [if_neg h1, if_neg h2, if_true, hex4Digits, List.cons_append, List.nil_append,
          List.length_cons, List.length_nil]
        have d1 : c.toNat / 4096 % 16 < 16 := Nat.mod_lt _ (by decide)
        have d2 : c.toNat / 256 % 16 < 16 := Nat.mod_lt _ (by decide)
        have d3 : c.toNat / 16 % 16 < 16 := Nat.mod_lt _ (by decide)
        have d4 : c.toNat % 16 < 16 := Nat.mod_lt _ (by decide)
        exact quotedItem_u q hq _ _ _ _ _ _ (by rw [getElem?_at0]; rfl) (by rw [getElem?_at]; rfl)
          (by rw [getElem?_at]; rfl) (by rw [getElem?_at]; rfl) (by rw [getElem?_at]; rfl)
          (by rw [getElem?_at]; rfl) (isHexDigit_hexDigit _ d1) (isHexDigit_hexDigit _ d2)
          (isHexDigit_hexDigit _ d3) (isHexDigit_hexDigit _ d4)
      | false =>
        simp only [if_neg h1, if_neg h2, Bool.false_eq_true, if_false, List.cons_append, List.nil_append,
          List.length_cons, List.length_nil]
        exact quotedItem_plain q _ _ c (by rw [getElem?_at0]; rfl) h2 h1

/-- the loop runs over the whole rendering and stops in front of the closing quote -/
theorem star_quoted_exact (q : Char) (hq : q ≠ 'u') (hq2 : q ≠ '\\') (post : List Char) :
    ∀ (k pre : List Char),
      run Gen.grammar (k.length + 13) (.star (quotedItem q)) (pre ++ (escQuoted q k ++ q :: post)).toArray pre.length
        = .ok (pre.length + (escQuoted q k).length) [] := by
  intro k
  induction k with
  | nil =>
    intro pre
    show run Gen.grammar (12 + 1) _ _ _ = _
    rw [run_star, quotedItem_quote q hq2 _ _ (by rw [getElem?_at0]; rfl)]
    rfl
  | cons c k ih =>
    intro pre
    rw [escQuoted_cons, List.append_assoc]
    have key := quotedItem_piece q hq c pre (escQuoted q k ++ q :: post)
    have key' : run Gen.grammar (k.length + 13) (quotedItem q)
        (pre ++ (escQuotedChar q c ++ (escQuoted q k ++ q :: post))).toArray pre.length
          = .ok (pre.length + (escQuotedChar q c).length) [] := by
      rw [run_mono (f := 12) (f' := k.length + 13) _ _ (by omega) (by rw [key]; simp), key]
    show run Gen.grammar (k.length + 13 + 1) _ _ _ = _
    have h := ih (pre ++ escQuotedChar q c)
    rw [List.append_assoc, List.length_append] at h
    rw [run_star]
    simp only [key', h]
    simp [Nat.add_assoc]

theorem star_quoted (q : Char) (hq : q ≠ 'u') (hq2 : q ≠ '\\') (k pre post : List Char) (f : Nat)
    (hf : k.length + 13 ≤ f) :
    run Gen.grammar f (.star (quotedItem q)) (pre ++ (escQuoted q k ++ q :: post)).toArray pre.length
      = .ok (pre.length + (escQuoted q k).length) [] := by
  have h := star_quoted_exact q hq hq2 post k pre
  rw [run_mono _ _ hf (by rw [h]; simp), h]

private theorem lit_sq : "'".toList = ['\''] := rfl
private theorem len_sq : "'".length = 1 := rfl
private theorem lit_dq : "\"".toList = ['"'] := rfl
private theorem len_dq : "\"".length = 1 := rfl

/-- **The regenerated rule `singleQuotedNodeIdentifier` accepts `'EscSingle k'`** wherever it
    stands, whatever follows; the capture is exactly the rendering and the action is number 13
    (`unescapeSingleQuotedString(text)`). -/
theorem gen_single_rule_accepts (k pre post : List Char) (f : Nat) (hf : k.length + 17 ≤ f) :
    run Gen.grammar f Gen.rule_singleQuotedNodeIdentifier
        (pre ++ ('\'' :: (escSingle k ++ '\'' :: post))).toArray pre.length
      = .ok (pre.length + 1 + (escSingle k).length + 1)
          [.text (pre.length + 1) (pre.length + 1 + (escSingle k).length), .action 13] := by
  obtain ⟨m, rfl⟩ : ∃ m, f = m + 1 + 1 + 1 + 1 := ⟨f - 4, by omega⟩
  have hstar := star_quoted '\'' (by decide) (by decide) k (pre ++ ['\'']) post (m + 1) (by omega)
  rw [List.append_assoc, List.length_append] at hstar
  simp only [List.cons_append, List.nil_append, List.length_cons, List.length_nil] at hstar
  have hclose : (pre ++ '\'' :: (escSingle k ++ '\'' :: post)).toArray[pre.length + 1 + (escSingle k).length]?
      = some '\'' := by
    have := getElem?_at pre ('\'' :: (escSingle k ++ '\'' :: post)) (1 + (escSingle k).length)
    rw [← Nat.add_assoc] at this
    rw [this, Nat.add_comm 1, List.getElem?_cons_succ, List.getElem?_append_right (Nat.le_refl _)]
    simp
  rw [single_rule_shape]
  unfold escSingle at hclose ⊢
  simp only [run_seq, run_lit, run_cap, run_act, lit_sq, len_sq, matchLit, getElem?_at0,
    List.getElem?_cons_zero, beq_self_eq_true, Bool.and_true, if_true, hstar, hclose]
  simp

/-- **The regenerated rule `doubleQuotedNodeIdentifier` accepts `"EscDouble k"`** wherever it
    stands, whatever follows; the capture is exactly the rendering and the action is number 14
    (`unescapeDoubleQuotedString(text)`). -/
theorem gen_double_rule_accepts (k pre post : List Char) (f : Nat) (hf : k.length + 17 ≤ f) :
    run Gen.grammar f Gen.rule_doubleQuotedNodeIdentifier
        (pre ++ ('"' :: (escDouble k ++ '"' :: post))).toArray pre.length
      = .ok (pre.length + 1 + (escDouble k).length + 1)
          [.text (pre.length + 1) (pre.length + 1 + (escDouble k).length), .action 14] := by
  obtain ⟨m, rfl⟩ : ∃ m, f = m + 1 + 1 + 1 + 1 := ⟨f - 4, by omega⟩
  have hstar := star_quoted '"' (by decide) (by decide) k (pre ++ ['"']) post (m + 1) (by omega)
  rw [List.append_assoc, List.length_append] at hstar
  simp only [List.cons_append, List.nil_append, List.length_cons, List.length_nil] at hstar
  have hclose : (pre ++ '"' :: (escDouble k ++ '"' :: post)).toArray[pre.length + 1 + (escDouble k).length]?
      = some '"' := by
    have := getElem?_at pre ('"' :: (escDouble k ++ '"' :: post)) (1 + (escDouble k).length)
    rw [← Nat.add_assoc] at this
    rw [this, Nat.add_comm 1, List.getElem?_cons_succ, List.getElem?_append_right (Nat.le_refl _)]
    simp
  rw [double_rule_shape]
  unfold escDouble at hclose ⊢
  simp only [run_seq, run_lit, run_cap, run_act, lit_dq, len_dq, matchLit, getElem?_at0,
    List.getElem?_cons_zero, beq_self_eq_true, Bool.and_true, if_true, hstar, hclose]
  simp

/-! ## one round of the dot-child loop -/

theorem lt_size_of_getElem? (inp : Array Char) (pos : Nat) (c : Char) (h : inp[pos]? = some c) : pos < inp.size := by
  rcases Nat.lt_or_ge pos inp.size with hlt | hge
  · exact hlt
  · rw [Array.getElem?_eq_none hge] at h; cases h

/-- a character that needs no backslash -/
theorem dotItem_safe (inp : Array Char) (pos : Nat) (c : Char) (h0 : inp[pos]? = some c)
    (hs : isDotSafe c = true) :
    run Gen.grammar 12 dotItem inp pos = .ok (pos + 1) [] := by
  have n1 : ¬ ('\\' = c) := fun h => isDotSafe_ne_backslash c hs h.symm
  have hlt := lt_size_of_getElem? inp pos c h0
  have hany : (if pos < inp.size then Result.ok (pos + 1) [] else Result.fail) = Result.ok (pos + 1) [] :=
    if_pos hlt
  simp [dotItem, run, lit_bs, matchLit, h0, n1, signs_body, inRanges_sign, inRanges_control,
    isDotSafe_not_sign c hs, isDotSafe_not_control c hs, hany]

/-- backslash + symbol -/
theorem dotItem_esc (inp : Array Char) (pos : Nat) (d : Char)
    (h0 : inp[pos]? = some '\\') (h1 : inp[pos + 1]? = some d) (hd : isSign d = true) :
    run Gen.grammar 12 dotItem inp pos = .ok (pos + 2) [] := by
  simp [dotItem, run, lit_bs, len_bs, matchLit, h0, h1, signs_body, inRanges_sign, hd]

/-- the loop stops at the end of the input … -/
theorem dotItem_end (inp : Array Char) (pos : Nat) (h0 : inp[pos]? = none) :
    run Gen.grammar 12 dotItem inp pos = .fail := by
  have hge : ¬ pos < inp.size := by
    intro hlt
    rw [Array.getElem?_eq_getElem hlt] at h0; cases h0
  simp [dotItem, run, lit_bs, matchLit, signs_body, hge]

/-- … and in front of an unescaped symbol other than a backslash, and of a control character -/
theorem dotItem_stop (inp : Array Char) (pos : Nat) (d : Char) (h0 : inp[pos]? = some d)
    (hd1 : d ≠ '\\') (hd2 : isSign d = true ∨ isControl d = true) :
    run Gen.grammar 12 dotItem inp pos = .fail := by
  have n1 : ¬ ('\\' = d) := fun h => hd1 h.symm
  rcases hd2 with hd2 | hd2
  · cases hc : isControl d <;>
      simp [dotItem, run, lit_bs, matchLit, h0, n1, signs_body, inRanges_sign, inRanges_control, hd2, hc]
  · simp [dotItem, run, lit_bs, matchLit, h0, n1, inRanges_control, hd2]

/-! ## the dot-child loop on a rendering, in context -/

/-- what may follow a dot-child name so that the loop stops there: the end of the path, an
    unescaped symbol other than a backslash (`.`, `[`, a blank, `)`, `=`, …) or a control character -/
def DotStops (post : List Char) : Prop :=
  post = [] ∨ ∃ d r, post = d :: r ∧ d ≠ '\\' ∧ (isSign d = true ∨ isControl d = true)

theorem dotItem_piece (c : Char) (pre rest : List Char) (hc : isControl c = false) :
    run Gen.grammar 12 dotItem (pre ++ (escDotChar c ++ rest)).toArray pre.length
      = .ok (pre.length + (escDotChar c).length) [] := by
  unfold escDotChar
  cases hs : isDotSafe c with
  | true =>
    simp only [if_true, List.cons_append, List.nil_append, List.length_cons, List.length_nil]
    exact dotItem_safe _ _ c (by rw [getElem?_at0]; rfl) hs
  | false =>
    simp only [Bool.false_eq_true, if_false, List.cons_append, List.nil_append, List.length_cons, List.length_nil]
    exact dotItem_esc _ _ c (by rw [getElem?_at0]; rfl) (by rw [getElem?_at]; rfl)
      (isSign_of_not_isDotSafe c hs hc)

theorem dotItem_post (pre post : List Char) (h : DotStops post) :
    run Gen.grammar 12 dotItem (pre ++ post).toArray pre.length = .fail := by
  rcases h with h | ⟨d, r, h, hd1, hd2⟩
  · subst h
    exact dotItem_end _ _ (by rw [getElem?_at0]; rfl)
  · subst h
    exact dotItem_stop _ _ d (by rw [getElem?_at0]; rfl) hd1 hd2

theorem star_dot_exact (post : List Char) (hpost : DotStops post) :
    ∀ (k pre : List Char), (∀ c ∈ k, isControl c = false) →
      run Gen.grammar (k.length + 13) (.star dotItem) (pre ++ (escDot k ++ post)).toArray pre.length
        = .ok (pre.length + (escDot k).length) [] := by
  intro k
  induction k with
  | nil =>
    intro pre _
    show run Gen.grammar (12 + 1) _ _ _ = _
    rw [run_star, escDot_nil, List.nil_append, dotItem_post pre post hpost]
    rfl
  | cons c k ih =>
    intro pre hk
    rw [escDot_cons, List.append_assoc]
    have key := dotItem_piece c pre (escDot k ++ post) (hk c (by simp))
    have key' : run Gen.grammar (k.length + 13) dotItem
        (pre ++ (escDotChar c ++ (escDot k ++ post))).toArray pre.length
          = .ok (pre.length + (escDotChar c).length) [] := by
      rw [run_mono (f := 12) (f' := k.length + 13) _ _ (by omega) (by rw [key]; simp), key]
    show run Gen.grammar (k.length + 13 + 1) _ _ _ = _
    have h := ih (pre ++ escDotChar c) (fun d hd => hk d (by simp [hd]))
    rw [List.append_assoc, List.length_append] at h
    rw [run_star]
    simp only [key', h]
    simp [Nat.add_assoc]

/-- `( … )+` on the rendering of a non-empty key -/
theorem plus_dot (k pre post : List Char) (hne : k ≠ []) (hk : ∀ c ∈ k, isControl c = false)
    (hpost : DotStops post) (f : Nat) (hf : k.length + 13 ≤ f) :
    run Gen.grammar f (.plus dotItem) (pre ++ (escDot k ++ post)).toArray pre.length
      = .ok (pre.length + (escDot k).length) [] := by
  cases k with
  | nil => exact absurd rfl hne
  | cons c k =>
    have exact : run Gen.grammar (k.length + 13 + 1) (.plus dotItem)
        (pre ++ (escDot (c :: k) ++ post)).toArray pre.length
          = .ok (pre.length + (escDot (c :: k)).length) [] := by
      rw [escDot_cons, List.append_assoc]
      have key := dotItem_piece c pre (escDot k ++ post) (hk c (by simp))
      have key' : run Gen.grammar (k.length + 13) dotItem
          (pre ++ (escDotChar c ++ (escDot k ++ post))).toArray pre.length
            = .ok (pre.length + (escDotChar c).length) [] := by
        rw [run_mono (f := 12) (f' := k.length + 13) _ _ (by omega) (by rw [key]; simp), key]
      have h := star_dot_exact post hpost k (pre ++ escDotChar c) (fun d hd => hk d (by simp [hd]))
      rw [List.append_assoc, List.length_append] at h
      rw [run_plus]
      simp only [key', h]
      simp [Nat.add_assoc]
    rw [run_mono (f := k.length + 13 + 1) _ _ (by simpa using hf) (by rw [exact]; simp), exact]

/-- where a literal matches, on lists -/
theorem matchLit_at : ∀ (cs pre post : List Char),
    matchLit (pre ++ post).toArray cs pre.length = cs.isPrefixOf post := by
  intro cs
  induction cs with
  | nil => intro pre post; simp [matchLit]
  | cons c cs ih =>
    intro pre post
    cases post with
    | nil => simp [matchLit]
    | cons d post =>
      have h := ih (pre ++ [d]) post
      simp only [List.append_assoc, List.cons_append, List.nil_append, List.length_append, List.length_cons,
        List.length_nil] at h
      simp only [matchLit, getElem?_at0, List.getElem?_cons_zero, h, List.isPrefixOf]

/-- the rendering of a key never starts with `*` -/
theorem escDot_head_ne_star (c : Char) (k rest : List Char) :
    ['*'].isPrefixOf (escDot (c :: k) ++ rest) = false := by
  rw [escDot_cons]
  unfold escDotChar
  cases hs : isDotSafe c with
  | true =>
    have : c ≠ '*' := by intro h; subst h; revert hs; decide
    simp [List.isPrefixOf, this.symm]
  | false => simp [List.isPrefixOf]

private theorem lit_star : "*".toList = ['*'] := rfl
private theorem lit_fn : "()".toList = ['(', ')'] := rfl

/-- **The regenerated rule `dotChildIdentifier` accepts `EscDot k`** for every non-empty key
    without control characters, wherever it stands, provided what follows ends the name
    (`DotStops`) and is not the `()` of a function call; the capture is exactly the rendering and
    the action is number 10 (`unescape(text)`). -/
theorem gen_dot_rule_accepts (k pre post : List Char) (hne : k ≠ []) (hk : ∀ c ∈ k, isControl c = false)
    (hpost : DotStops post) (hfn : ['(', ')'].isPrefixOf post = false) (f : Nat) (hf : k.length + 17 ≤ f) :
    run Gen.grammar f Gen.rule_dotChildIdentifier (pre ++ (escDot k ++ post)).toArray pre.length
      = .ok (pre.length + (escDot k).length)
          [.text pre.length (pre.length + (escDot k).length), .action 10] := by
  obtain ⟨m, rfl⟩ : ∃ m, f = m + 1 + 1 + 1 + 1 + 1 := ⟨f - 5, by omega⟩
  have hplus := plus_dot k pre post hne hk hpost (m + 1 + 1) (by omega)
  have hstar : matchLit (pre ++ (escDot k ++ post)).toArray ['*'] pre.length = false := by
    rw [matchLit_at]
    cases k with
    | nil => exact absurd rfl hne
    | cons c k => exact escDot_head_ne_star c k post
  have hcall : matchLit (pre ++ (escDot k ++ post)).toArray ['(', ')'] (pre.length + (escDot k).length) = false := by
    have := matchLit_at ['(', ')'] (pre ++ escDot k) post
    rw [List.append_assoc, List.length_append] at this
    rw [this, hfn]
  rw [dot_rule_shape]
  simp only [run_alt, run_rule, wildcard_body, run_seq, run_lit, run_cap, run_act, run_not, lit_star, lit_fn,
    hstar, hplus, hcall]
  simp

end JPV.Lex
