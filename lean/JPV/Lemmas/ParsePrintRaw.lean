/-
ParsePrintRaw — what the actions push for each printed construct ("raw" nodes: text set, connected
text still empty, accessor flag = the configuration's), and the hypotheses on the standard-library
parameter `Ext` for the literals that occur in a path.
-/
import JPV.Build
import JPV.Peg.Actions
import JPV.Lemmas.ParsePrintToks
namespace JPV.PP
open JPV.Peg JPV.Print JPV.Lex

/-! ### hypotheses on `Ext`, per construct -/

/-- `strconv.Atoi` reads the decimal spelling of `n` back (true of the real one iff `n` is an int64) -/
def intOK (ext : Ext) (n : Int) : Prop := ext.atoi (String.ofList (intText n)) = some n

/-- a slice bound; an omitted one makes the action call `Atoi("0")` -/
def optOK (ext : Ext) : Option Int → Prop
  | none => ext.atoi "0" = some 0
  | some n => intOK ext n

def subOK (ext : Ext) : Sub → Prop
  | .idx n => intOK ext n
  | .wild => True
  | .slice s e t =>
    optOK ext s ∧ optOK ext e ∧ (match t with | none => ext.atoi "1" = some 1 | some t => intOK ext t)

/-- a quoted member name is unescaped to the key -/
def keyOK (ext : Ext) (k : String) : Prop :=
  ext.unescapeSingle (String.ofList (escSingle k.toList)) = some k

def nameOK (ext : Ext) : Name → Prop
  | .key k => keyOK ext k
  | .wild => True

/-- a child step: dot form through `unescape`, bracket form through `unescapeSingleQuotedString` -/
def childOK (ext : Ext) (k : String) : Prop :=
  if dotSpellable k.toList then ext.unescape (String.ofList (escDot k.toList)) = k else keyOK ext k

/-- the literals of a step without filter (filters: see ParsePrintExt) -/
def stepExtOK (ext : Ext) : Step → Prop
  | .child _ k => childOK ext k
  | .wild _ => True
  | .multi _ ns => ∀ n ∈ ns, nameOK ext n
  | .union _ ss => ∀ s ∈ ss, subOK ext s
  | .filter _ _ => True
  | .desc s => stepExtOK ext s

/-! ### raw nodes -/

/-- `mkInfo c text vg` -/
def rawInfo (a : Bool) (t : String) (vg : Bool) : Info := { text := t, conn := "", vg := vg, acc := a }

def rawMId (a : Bool) (t : String) : Name → MId
  | .key k => .key (rawInfo a t false) k
  | .wild => .wild (rawInfo a t true)

def descFlags : Step → Bool × Bool
  | .child _ _ => (true, false)
  | .union _ _ => (false, true)
  | _ => (true, true)

/-- the chain a printed step leaves on the stack; `mkQ` supplies the query of a filter step -/
def rawStepQ (mkQ : Query → Q) (a : Bool) (ad : Bool) : Step → List N
  | .child _ k => [.child (rawInfo a (String.ofList (childRec ad k)) false) k]
  | .wild _ => [.wild (rawInfo a (String.ofList (wildStr ad)) true)]
  | .multi t ns =>
    [.multi (rawInfo a (String.ofList (Print.step ad (.multi t ns))) true)
      (ns.map (rawMId a (String.ofList (Print.step ad (.multi t ns)))))
      (if ns.all Build.isWildName then some (rawInfo a (String.ofList (Print.step ad (.multi t ns))) true) else none)]
  | .union t ss =>
    [.union (rawInfo a (String.ofList (Print.step ad (.union t ss))) (match ss with | [s] => Build.subVg s | _ => true))
      (ss.map Build.subI)]
  | .filter t q => [.filter (rawInfo a (String.ofList (Print.step ad (.filter t q))) true) (mkQ q)]
  | .desc s => .desc (rawInfo a ".." true) (descFlags s).1 (descFlags s).2 :: rawStepQ mkQ a true s

/-- steps without filters -/
def rawStep (a : Bool) (ad : Bool) (s : Step) : List N := rawStepQ (fun _ => default) a ad s

/-- the text of a capture that spans a printed piece -/
theorem textOf_sfx {inp : Array Char} {p : Nat} {s r : List Char} (h : Sfx inp p (s ++ r)) :
    textOf inp p (p + s.length) = String.ofList s := by
  unfold textOf
  exact h.textOf

/-! ### one token at a time -/

theorem execFrom_text (c : Ctx) (stk : List Item) (sv : List (List Item)) (rt : Option (List N)) (tb te b e : Nat)
    (rest : List Tok) :
    execFrom c ⟨stk, sv, rt, tb, te⟩ (.text b e :: rest) = execFrom c ⟨stk, sv, rt, b, e⟩ rest := rfl

theorem execFrom_action (c : Ctx) (st : St) (i : Nat) (rest : List Tok) :
    execFrom c st (.action i :: rest) = (act c i st >>= fun st' => execFrom c st' rest) := rfl

end JPV.PP
