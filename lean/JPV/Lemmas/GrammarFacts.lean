/-
Facts about the REGENERATED grammar (`Gen.grammar`, `Gen.actionSums`) that the proofs were written
against; each is re-checked by `rfl`/`decide` whenever the grammar is regenerated from /repo.
-/
import JPV.Lemmas.Peg
import JPV.Peg.ParseModel
import JPV.Gen.Grammar
namespace JPV.Peg

/-- first alternative of `expression` -/
def exprAlt1 : PE := .seq (.rule "jsonpath") (.seq (.rule "END") (.act 0))
/-- second alternative of `expression` -/
def exprAlt2 : PE :=
  .seq (.opt (.rule "jsonpath")) (.seq (.cap (.star .any)) (.seq (.rule "END") (.act 1)))

/-- the regenerated `expression` rule is `jsonpath END {0} / jsonpath? <.*> END {1}` -/
theorem expression_body : ruleBody Gen.grammar "expression" = .alt exprAlt1 exprAlt2 := rfl

/-- the regenerated `END` rule is `!.` -/
theorem end_body : ruleBody Gen.grammar "END" = .not .any := rfl

/-- Action1 occurs only in `expression`, and no rule refers to `expression` -/
theorem grammar_clean :
    cleanGrammar (fun i => i == 1) (fun n => n == "expression") Gen.grammar = true := by decide

/-- the regenerated action blocks are (by checksum of their whitespace-normalised text) the ones
    `Actions.lean` was written against -/
theorem actions_as_expected : actionsAsExpected = true := by decide

end JPV.Peg
