/-
Lemmas/PegEquivSim — soundness of the checker `eqv` (Peg/Equiv):

  eqv_sim : eqvRules c n0 = true → 4 * n0 ≤ K → 1 ≤ K →
            eqv c n k as bs = true → SimAt c.gs c.gt f (K * f + 4 * n + c.N) k as bs

i.e. if the rule bodies of the rules with a function of their own were found equivalent, then whatever the
checker accepts is a simulation with a fuel bound LINEAR in the fuel of the simulated side.
Induction on the fuel `f` of the simulated side (every sub-expression runs with less), inside it on the
checker fuel `n` (every step that stays at the same position with the same fuel uses one unit of `n` and
at most 4 units of fuel on the simulating side).
-/
import JPV.Lemmas.PegEquivSimL
namespace JPV.Peg

/-- what one step of the checker may assume about the recursive calls -/
structure StepHyp (c : EqCfg) (rec : Rec) (f F : Nat) : Prop where
  hN : c.N ≤ F
  hrec : ∀ k as bs, rec k as bs = true → SimAt c.gs c.gt f F k as bs
  hsub : ∀ k a b, rec k [a] [b] = true → ∀ f', f = f' + 1 → SimE c.gs c.gt f' F k a b
  hstar : ∀ a b, rec .top [a] [b] = true → ∀ k, SimE c.gs c.gt f (F + 1) k (.star a) (.star b)
  hrule : ∀ x, c.names.contains x = true → ∀ f', f = f' + 1 →
    SimE c.gs c.gt f' (F + 3) .top (ruleBody c.gs x) (ruleBody c.gt x)

variable {c : EqCfg} {rec : Rec} {f F : Nat}

theorem headStep_sound (H : StepHyp c rec f F) {k : Know} {a b : PE} {as bs : List PE}
    (h : headStep c rec k a as b bs = true) : SimAt c.gs c.gt f (F + 4) k (a :: as) (b :: bs) := by
  unfold headStep at h
  simp only [Bool.or_eq_true] at h
  rcases h with (((h | h) | h) | h) | h
  · -- guardL
    unfold guardL at h
    split at h
    · rename_i m A R
      split at h
      · rename_i s hm
        simp only [Bool.and_eq_true, Nat.ble_eq] at h
        obtain ⟨⟨⟨⟨_, hA⟩, hF⟩, hR⟩, ht⟩ := h
        exact (sim_cons_top (simE_guardL hm (H.hrec _ _ _ hA).single hF (H.hrec _ _ _ hR).single)
          (H.hrec _ _ _ ht)).mono (by omega)
      · exact absurd h (by simp)
    · exact absurd h (by simp)
  · -- guardR
    unfold guardR at h
    split at h
    · rename_i m B R
      split at h
      · rename_i s hm
        simp only [Bool.and_eq_true, Nat.ble_eq] at h
        obtain ⟨⟨⟨⟨hd, hB⟩, hF⟩, hR⟩, ht⟩ := h
        exact (sim_cons_top
          (simE_guardR hm (Nat.le_trans hd H.hN) H.hN (H.hrec _ _ _ hB).single hF (H.hrec _ _ _ hR).single)
          ((H.hrec _ _ _ ht).mono (by omega))).mono (by omega)
      · exact absurd h (by simp)
    · exact absurd h (by simp)
  · -- same constructor
    unfold hSame at h
    split at h
    · simp only [Bool.and_eq_true] at h
      obtain ⟨⟨h1, h2⟩, ht⟩ := h
      exact sim_cons_top (simE_alt (F' := F) (H.hsub _ _ _ h1) (H.hsub _ _ _ h2) (by omega))
        ((H.hrec _ _ _ ht).mono (by omega))
    · simp only [Bool.and_eq_true] at h
      obtain ⟨h1, ht⟩ := h
      exact sim_cons_top ((H.hstar _ _ h1 k).mono (by omega)) ((H.hrec _ _ _ ht).mono (by omega))
    · simp only [Bool.and_eq_true] at h
      obtain ⟨h1, ht⟩ := h
      exact sim_cons_top (simE_opt (F' := F) (H.hsub _ _ _ h1) (by omega)) ((H.hrec _ _ _ ht).mono (by omega))
    · simp only [Bool.and_eq_true] at h
      obtain ⟨h1, ht⟩ := h
      exact sim_cons_keep (simE_not (F' := F) (H.hsub _ _ _ h1) (by omega))
        (fun _ _ _ _ hr => run_not_pos hr) ((H.hrec _ _ _ ht).mono (by omega))
    · simp only [Bool.and_eq_true] at h
      obtain ⟨h1, ht⟩ := h
      exact sim_cons_keep (simE_and (F' := F) (H.hsub _ _ _ h1) (by omega))
        (fun _ _ _ _ hr => run_and_pos hr) ((H.hrec _ _ _ ht).mono (by omega))
    · simp only [Bool.and_eq_true] at h
      obtain ⟨h1, ht⟩ := h
      exact sim_cons_top (simE_cap (F' := F) (H.hsub _ _ _ h1) (by omega)) ((H.hrec _ _ _ ht).mono (by omega))
    · rename_i i j
      simp only [Bool.and_eq_true] at h
      obtain ⟨hij, ht⟩ := h
      have hij := Nat.eq_of_beq_eq_true hij
      subst hij
      exact sim_cons_keep (simE_act (by omega)) (fun _ _ _ _ hr => run_act_pos hr)
        ((H.hrec _ _ _ ht).mono (by omega))
    · exact absurd h (by simp)
  · -- dropNotL
    unfold dropNotL at h
    split at h
    · simp only [Bool.and_eq_true] at h
      exact (sim_dropNotL h.1 (H.hrec _ _ _ h.2)).mono (by omega)
    · exact absurd h (by simp)
  · -- dropNotR
    unfold dropNotR at h
    split at h
    · simp only [Bool.and_eq_true] at h
      exact (sim_dropNotR h.1 H.hN (H.hrec _ _ _ h.2)).mono (by omega)
    · exact absurd h (by simp)

theorem ruleStep_sound (H : StepHyp c rec f F) {k : Know} {a b : PE} {as bs : List PE}
    (h : ruleStep c rec k a as b bs = true) : SimAt c.gs c.gt f (F + 4) k (a :: as) (b :: bs) := by
  unfold ruleStep at h
  split at h
  · rename_i x y
    split at h
    · rename_i hc
      simp only [Bool.and_eq_true, beq_iff_eq] at hc
      obtain ⟨hxy, hmem⟩ := hc
      subst hxy
      exact sim_cons_top (simE_rule (F' := F + 3) (H.hrule x hmem) (by omega))
        ((H.hrec _ _ _ h).mono (by omega))
    · exact (sim_unfoldR (H.hrec _ _ _ h)).mono (by omega)
  · exact (sim_unfoldR (H.hrec _ _ _ h)).mono (by omega)
  · exact (sim_unfoldL (H.hrec _ _ _ h)).mono (by omega)
  · exact headStep_sound H h

theorem pruneL_sound (H : StepHyp c rec f F) {k : Know} {a b : PE} {as bs : List PE}
    (h : (match a with
      | .alt a1 a2 =>
        if (behave c.gs c.N k a1).isF then rec k (a2 :: as) (b :: bs)
        else if (behave c.gs c.N k a2).isF then rec k (a1 :: as) (b :: bs)
        else ruleStep c rec k a as b bs
      | _ => ruleStep c rec k a as b bs) = true) :
    SimAt c.gs c.gt f (F + 4) k (a :: as) (b :: bs) := by
  split at h
  · split at h
    · rename_i hF
      exact (sim_skipL hF (H.hrec _ _ _ h)).mono (by omega)
    · split at h
      · rename_i hF
        exact (sim_dropL hF (H.hrec _ _ _ h)).mono (by omega)
      · exact ruleStep_sound H h
  · exact ruleStep_sound H h

theorem pruneStep_sound (H : StepHyp c rec f F) {k : Know} {a b : PE} {as bs : List PE}
    (h : pruneStep c rec k a as b bs = true) : SimAt c.gs c.gt f (F + 4) k (a :: as) (b :: bs) := by
  unfold pruneStep at h
  split at h
  · split at h
    · rename_i hF
      exact (sim_skipR hF H.hN (H.hrec _ _ _ h)).mono (by omega)
    · split at h
      · rename_i hF
        exact (sim_dropR hF H.hN (H.hrec _ _ _ h)).mono (by omega)
      · exact pruneL_sound H h
  · exact pruneL_sound H h

theorem eqvStep_sound (H : StepHyp c rec f F) {k : Know} {as bs : List PE}
    (h : eqvStep c rec k as bs = true) : SimAt c.gs c.gt f (F + 4) k as bs := by
  unfold eqvStep at h
  split at h
  · exact sim_nil _ _ _
  · exact absurd h (by simp)
  · exact absurd h (by simp)
  · rename_i a as b bs
    split at h
    · -- matchers
      rename_i hm
      unfold mEq at hm
      split at hm
      · rename_i x y hx hy
        simp only [Bool.and_eq_true, Nat.ble_eq] at hm
        obtain ⟨⟨⟨_, hdb⟩, he⟩, ht⟩ := hm
        exact (sim_cons_top (simE_matcher hx hy (Nat.le_trans hdb H.hN) he) (H.hrec _ _ _ ht)).mono (by omega)
      · exact absurd hm (by simp)
    · split at h
      · rename_i l hn
        exact (sim_normL hn (H.hrec _ _ _ h)).mono (by omega)
      · split at h
        · rename_i l hn
          exact (sim_normR hn (H.hrec _ _ _ h)).mono (by omega)
        · split at h
          · rename_i hs
            unfold sameRule at hs
            split at hs
            · rename_i x y _ _ _
              simp only [Bool.and_eq_true, beq_iff_eq] at hs
              obtain ⟨hxy, hmem⟩ := hs
              subst hxy
              exact sim_cons_top (simE_rule (F' := F + 3) (H.hrule x hmem) (by omega))
                ((H.hrec _ _ _ h).mono (by omega))
            · exact absurd hs (by simp)
          · exact pruneStep_sound H h

/-- the soundness of the checker, with a linear fuel bound -/
theorem eqv_sim (c : EqCfg) (n0 K : Nat) (hrules : eqvRules c n0 = true) (hK : 4 * n0 ≤ K) (hK1 : 1 ≤ K) :
    ∀ (f n : Nat) (k : Know) (as bs : List PE), eqv c n k as bs = true →
      SimAt c.gs c.gt f (K * f + 4 * n + c.N) k as bs := by
  intro f
  induction f using Nat.strongRecOn with
  | _ f ihf =>
    intro n
    induction n with
    | zero => intro k as bs h; simp [eqv] at h
    | succ n ihn =>
      intro k as bs h
      rw [eqv] at h
      have hmul : ∀ f', f = f' + 1 → K * f = K * f' + K := by intro f' e; subst e; rw [Nat.mul_succ]
      have H : StepHyp c (eqv c n) f (K * f + 4 * n + c.N) :=
        { hN := by omega
          hrec := ihn
          hsub := fun k a b h f' hf => by
            have := (ihf f' (by omega) n k _ _ h).single
            exact this.mono (by have := hmul f' hf; omega)
          hstar := fun a b h k => by
            have hall : ∀ f', f' < f → SimE c.gs c.gt f' (K * f' + (4 * n + c.N)) .top a b := by
              intro f' hlt
              have := (ihf f' hlt n .top _ _ h).single
              exact this.mono (by omega)
            have := simE_star hK1 hall f (Nat.le_refl f) k
            exact this.mono (by omega)
          hrule := fun x hx f' hf => by
            have hbody : eqv c n0 .top [ruleBody c.gs x] [ruleBody c.gt x] = true := by
              unfold eqvRules at hrules
              rw [List.all_eq_true] at hrules
              exact hrules x (List.contains_iff_mem.mp hx)
            have := (ihf f' (by omega) n0 .top _ _ hbody).single
            exact this.mono (by have := hmul f' hf; omega) }
      exact (eqvStep_sound H h).mono (by omega)

end JPV.Peg
