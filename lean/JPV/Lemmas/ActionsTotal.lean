/-
`Actions.exec` raises no Go run-time panic on any token list the regenerated grammar can produce:
the tag checker accepts `Gen.grammar` (by `decide`), and the checker is sound (`check_sound`).
-/
import JPV.Lemmas.EffectsMain
import JPV.Lemmas.GrammarFacts
namespace JPV.Peg

/-- the tables of Effects.lean are justified by the regenerated grammar -/
theorem jsonpath_tablesOK : TablesOK jsonpathTables Gen.grammar :=
  tablesOK_of_decide (by decide) (by decide) (by decide)

/-- the checker accepts `jsonpath END {Action0}` from the empty stack, and `p.root` is set at the end -/
theorem check_exprAlt1 :
    (check jsonpathTables Gen.grammar checkFuel exprAlt1 initState).map (fun A => A.rootSet) = some true := by
  decide

/-- the checker accepts `jsonpath` from the empty stack -/
theorem check_jsonpath :
    (check jsonpathTables Gen.grammar checkFuel (.rule "jsonpath") initState).isSome = true := by
  decide

theorem Gamma_init (c : Ctx) : Gamma c initState [] [] {} :=
  ⟨[], [], rfl, .nil, ⟨rfl, fun _ => rfl, fun h => by cases h⟩, (by intro h; cases h), (by intro h; cases h)⟩

/-- what the tokens of a successful `expression` look like -/
theorem expression_tokens (inp : Array Char) (f p : Nat) (toks : List Tok)
    (hrun : run Gen.grammar f (ruleBody Gen.grammar "expression") inp 0 = .ok p toks) :
    (∃ f', run Gen.grammar f' exprAlt1 inp 0 = .ok p toks) ∨
    (∃ f' p1 t1, run Gen.grammar f' (.opt (.rule "jsonpath")) inp 0 = .ok p1 t1 ∧
        toks = t1 ++ [.text p1 p, .action 1]) := by
  rw [expression_body] at hrun
  obtain ⟨f1, rfl⟩ := run_ok_fuel hrun
  rcases run_alt_inv hrun with h1 | ⟨_, h2⟩
  · exact .inl ⟨f1, h1⟩
  · unfold exprAlt2 at h2
    obtain ⟨f2, rfl⟩ := run_ok_fuel h2
    obtain ⟨p1, t1, t2, hopt, hrest, rfl⟩ := run_seq_inv h2
    obtain ⟨f3, rfl⟩ := run_ok_fuel hrest
    obtain ⟨p2, t3, t4, hcap, hend, rfl⟩ := run_seq_inv hrest
    obtain ⟨f4, rfl⟩ := run_ok_fuel hcap
    obtain ⟨ts, hstar, rfl⟩ := run_cap_inv hcap
    obtain ⟨p3, t5, t6, hE, hA, rfl⟩ := run_seq_inv hend
    obtain ⟨f5, rfl⟩ := run_ok_fuel hE
    rw [run_rule, end_body] at hE
    obtain ⟨f6, rfl⟩ := run_ok_fuel hE
    obtain ⟨rfl, rfl⟩ := run_not_inv hE
    obtain ⟨rfl, rfl⟩ := run_act_inv hA
    have hts : ts = [] := (star_any_end _ _ _ _ hstar).2.2
    subst hts
    exact .inr ⟨_, p1, t1, hopt, rfl⟩

/-- **no panic**: on the tokens of any successful run of `expression`, `Execute()` + the final read of
    `p.root` end normally or with a documented error -/
theorem exec_documented (c : Ctx) (f p : Nat) (toks : List Tok)
    (hrun : run Gen.grammar f (ruleBody Gen.grammar "expression") c.input 0 = .ok p toks) :
    ∀ e, exec c toks = .error e → e.documented := by
  intro e he
  rcases expression_tokens c.input f p toks hrun with ⟨f', h1⟩ | ⟨f', p1, t1, hopt, rfl⟩
  · -- `jsonpath END {Action0}`
    cases hchk : check jsonpathTables Gen.grammar checkFuel exprAlt1 initState with
    | none => have := check_exprAlt1; rw [hchk] at this; cases this
    | some Aend =>
      have hroot : Aend.rootSet = true := by
        have := check_exprAlt1; rw [hchk] at this; simpa using this
      have hpost := check_sound jsonpath_tablesOK c f' checkFuel exprAlt1 initState Aend 0 p toks hchk
        (Nat.zero_le _) h1 [] [] {} (Gamma_init c)
      unfold exec at he
      cases hx : execFrom c {} toks with
      | error e' =>
        rw [hx] at he hpost
        change Except.error e' = Except.error e at he
        cases he
        exact hpost
      | ok st =>
        rw [hx] at he hpost
        obtain ⟨_, _, _, _, _, _, hr⟩ := hpost
        obtain ⟨n, r, hnr⟩ := hr hroot
        change (match st.root with
          | some (n :: rest) => (Except.ok (n :: rest) : M (List N))
          | _ => Except.error (Stop.panic Panic.nilRoot)) = Except.error e at he
        rw [hnr] at he
        cases he
  · -- `jsonpath? <.*> END {Action1}`
    have ht1 : Post (execFrom c {} t1) (fun _ => True) := by
      obtain ⟨f1, rfl⟩ := run_ok_fuel hopt
      rw [run_opt] at hopt
      cases hj : run Gen.grammar f1 (.rule "jsonpath") c.input 0 with
      | fail => rw [hj] at hopt; cases hopt; exact Post.ok trivial
      | outOfFuel => rw [hj] at hopt; cases hopt
      | ok pj tj =>
        rw [hj] at hopt
        cases hopt
        cases hchk : check jsonpathTables Gen.grammar checkFuel (.rule "jsonpath") initState with
        | none => have := check_jsonpath; rw [hchk] at this; cases this
        | some A1 =>
          exact Post.mono (check_sound jsonpath_tablesOK c f1 checkFuel _ initState A1 0 p1 t1 hchk
            (Nat.zero_le _) hj [] [] {} (Gamma_init c)) (fun _ _ => trivial)
    rcases exec_error c _ e he with hx | hx
    · rw [execFrom_append] at hx
      cases h1 : execFrom c {} t1 with
      | error e' =>
        rw [h1] at hx ht1
        change Except.error e' = Except.error e at hx
        cases hx
        exact ht1
      | ok st1 =>
        rw [h1] at hx
        change (Except.error (Stop.syntaxErr p1 Reason.unrecognizedInput) : M St) = Except.error e at hx
        cases hx
        trivial
    · -- the nil root is reached only after a normal end of `execFrom`, which Action1 excludes
      subst hx
      unfold exec at he
      rw [execFrom_append] at he
      cases h1 : execFrom c {} t1 with
      | error e' =>
        rw [h1] at he ht1
        change Except.error e' = Except.error _ at he
        cases he
        exact ht1
      | ok st1 =>
        rw [h1] at he
        change (Except.error (Stop.syntaxErr p1 Reason.unrecognizedInput) : M (List N)) = Except.error _ at he
        cases he

end JPV.Peg
