/-
SortRt — the primitives that the regenerated `Gen/SortKeys.lean` (generator `sortkeys`, source
cache.go `getSortedKeys`) is written in. A Go slice is the list of the elements up to its
capacity; operations that panic in Go return `none`.

ASSUMPTION (DESIGN §7 C07): `sort.StringSlice.Sort` rearranges the slice into ascending `<` order;
it is modelled by insertion (`goSort`), the same insertion `Impl.sortKV` uses on entries.
-/
namespace JPV
namespace SortRt

/-- `s[:n]` (index out of range when `n > cap(s)`) -/
def resliceTo (s : List String) (n : Nat) : Option (List String) :=
  if n ≤ s.length then some (s.take n) else none

/-- `s[i] = v` (index out of range when `i ≥ len(s)`) -/
def setAt (s : List String) (i : Nat) (v : String) : Option (List String) :=
  if i < s.length then some (s.set i v) else none

/-- `make(sort.StringSlice, n)` -/
def makeSlice (n : Nat) : List String := List.replicate n ""

def insertStr (k : String) : List String → List String
  | [] => [k]
  | k' :: rest => if k ≤ k' then k :: k' :: rest else k' :: insertStr k rest

/-- `s.Sort()` -/
def goSort : List String → List String
  | [] => []
  | k :: rest => insertStr k (goSort rest)

end SortRt
end JPV
