/-
BuildConn — the connected texts of a chain built by `Build.build` (what `setConnectedText`
leaves in the nodes): along the chain each is a proper suffix of the one before, hence strictly
shorter, and non-empty, provided every written element of the path has a non-empty text (which
the grammar guarantees). Inner identifiers of a multi-name node and the union twin carry their
node's connected text. This is the side condition `CE.ConnSep` of the error clause of C14.
-/
import JPV.Lemmas.CallErr
import JPV.Lemmas.Assemble
import JPV.Lemmas.BuildDen
namespace JPV
namespace CE
open Impl TSem Calls Build BD

/-- texts of the written elements of a step (`..` is an element of its own) -/
def stepTexts : Step → List String
  | .child t _ => [t]
  | .wild t => [t]
  | .multi t _ => [t]
  | .union t _ => [t]
  | .filter t _ => [t]
  | .desc s => ".." :: stepTexts s

def fnText : Fn → String
  | .ffn t _ => t
  | .afn t _ => t

def isFfnFn : Fn → Bool
  | .ffn _ _ => true
  | .afn _ _ => false

/-! ### suffix texts get strictly shorter -/

theorem size_pos {t : String} (h : t ≠ "") : 0 < t.utf8ByteSize := by
  have : t.utf8ByteSize ≠ 0 := fun h0 => h (String.utf8ByteSize_eq_zero_iff.mp h0)
  omega

theorem suffixTexts_cons (t : String) (ts : List String) :
    suffixTexts (t :: ts) = (t ++ (suffixTexts ts).headD "") :: suffixTexts ts := by
  simp only [suffixTexts]
  cases suffixTexts ts <;> rfl

theorem suffixTexts_desc : ∀ (ts : List String), (∀ t ∈ ts, t ≠ "") →
    List.Pairwise (fun a b : String => b.utf8ByteSize < a.utf8ByteSize) (suffixTexts ts) ∧
    (∀ c ∈ suffixTexts ts, 0 < c.utf8ByteSize)
  | [], _ => ⟨List.Pairwise.nil, fun c hc => by simp [suffixTexts] at hc⟩
  | t :: ts, h => by
    obtain ⟨ih1, ih2⟩ := suffixTexts_desc ts (fun x hx => h x (List.mem_cons_of_mem _ hx))
    have ht := size_pos (h t List.mem_cons_self)
    rw [suffixTexts_cons]
    cases hs : suffixTexts ts with
    | nil =>
      simp only [List.headD_nil, String.append_empty, List.pairwise_cons, List.not_mem_nil, false_imp_iff,
        implies_true, List.Pairwise.nil, and_self, List.mem_singleton, true_and]
      intro c hc
      subst hc
      exact ht
    | cons hd tl =>
      rw [hs] at ih1 ih2
      simp only [List.headD_cons]
      have hle : ∀ c ∈ hd :: tl, c.utf8ByteSize ≤ hd.utf8ByteSize := by
        intro c hc
        rcases List.mem_cons.mp hc with rfl | hc
        · exact Nat.le_refl _
        · exact Nat.le_of_lt ((List.pairwise_cons.mp ih1).1 c hc)
      have hsz : (t ++ hd).utf8ByteSize = t.utf8ByteSize + hd.utf8ByteSize := String.utf8ByteSize_append
      refine ⟨List.pairwise_cons.mpr ⟨fun c hc => ?_, ih1⟩, fun c hc => ?_⟩
      · have := hle c hc
        omega
      · rcases List.mem_cons.mp hc with rfl | hc
        · omega
        · exact ih2 c hc

/-! ### the Infos `mkInfos` hands out -/

theorem mkInfos_conn (cfg : Cfg) (pres : List Pre) :
    (mkInfos cfg true pres).map (fun x => x.2.conn) = suffixTexts (pres.map Pre.text) := by
  unfold mkInfos
  simp only [List.map_map, if_true]
  have hlen : (suffixTexts (pres.map Pre.text)).length ≤ pres.length := by simp [suffixTexts_length]
  have h2 := List.map_snd_zip hlen
  generalize suffixTexts (pres.map Pre.text) = conns at *
  have h1 := List.zipIdx_map_fst 0 (pres.zip conns)
  calc List.map _ ((pres.zip conns).zipIdx)
      = List.map (Prod.snd ∘ Prod.fst) ((pres.zip conns).zipIdx) := by
        apply List.map_congr_left; intro x _; rfl
    _ = List.map Prod.snd (List.map Prod.fst ((pres.zip conns).zipIdx)) := by rw [List.map_map]
    _ = conns := by rw [h1, h2]

/-! ### nodes -/

/-- a written navigation step: the node stores the Info it is given, and every Info it can
    put into an error carries that Info's connected text -/
def ConnPre : Pre → Prop
  | .node _ _ mk => ∀ i, (mk i).info = i ∧ ∀ j ∈ errInfos (mk i), j.conn = i.conn
  | _ => False

theorem connPre_single {t : String} {vg : Bool} {mk : Info → N}
    (h : ∀ i, (mk i).info = i ∧ ∀ j ∈ errInfos (mk i), j.conn = i.conn) :
    (∀ p ∈ [Pre.node t vg mk], ConnPre p) ∧ [Pre.node t vg mk].map Pre.text = [t] :=
  ⟨fun p hp => by simp only [List.mem_singleton] at hp; subst hp; exact h, rfl⟩

theorem one_info {n : N} {i : Info} (h1 : n.info = i) (h2 : errInfos n = [n.info]) :
    n.info = i ∧ ∀ j ∈ errInfos n, j.conn = i.conn := by
  refine ⟨h1, fun j hj => ?_⟩
  rw [h2, h1] at hj
  simp only [List.mem_singleton] at hj
  rw [hj]

theorem mid_conn (i : Info) (n : Name) : (midInfo (mid i n)).conn = i.conn := by cases n <;> rfl

mutual
theorem step_conn (env : Env) (cfg : Cfg) : (s : Step) → (ps : List Pre) → stepPre env cfg s = .ok ps →
    (∀ p ∈ ps, ConnPre p) ∧ ps.map Pre.text = stepTexts s
  | .child t k, ps, h => by
    rw [stepPre] at h; cases h
    exact connPre_single (fun i => one_info rfl rfl)
  | .wild t, ps, h => by
    rw [stepPre] at h; cases h
    exact connPre_single (fun i => one_info rfl rfl)
  | .multi t ns, ps, h => by
    rw [stepPre] at h; cases h
    refine connPre_single (fun i => ⟨rfl, ?_⟩)
    intro j hj
    simp only [errInfos, List.mem_cons, List.mem_append, List.mem_map] at hj
    rcases hj with (rfl | hj) | ⟨id, ⟨n, _, rfl⟩, rfl⟩
    · rfl
    · split at hj
      · simp at hj; subst hj; rfl
      · simp at hj
    · exact mid_conn i n
  | .union t ss, ps, h => by
    rw [stepPre_union] at h; cases h
    exact connPre_single (fun i => one_info rfl rfl)
  | .filter t q, ps, h => by
    rw [stepPre] at h
    obtain ⟨tq, _, h2⟩ := bind_ok h
    cases h2
    exact connPre_single (fun i => one_info rfl rfl)
  | .desc s, ps, h => by
    rw [stepPre_desc] at h
    obtain ⟨inner, hi, h2⟩ := bind_ok h
    cases h2
    obtain ⟨ih1, ih2⟩ := step_conn env cfg s inner hi
    refine ⟨fun p hp => ?_, by simp only [List.map_cons, stepTexts, ih2]; rfl⟩
    rcases List.mem_cons.mp hp with rfl | hp
    · exact fun i => one_info rfl rfl
    · exact ih1 p hp
theorem steps_conn (env : Env) (cfg : Cfg) : (ss : List Step) → (ps : List Pre) → stepsPre env cfg ss = .ok ps →
    (∀ p ∈ ps, ConnPre p) ∧ ps.map Pre.text = ss.flatMap stepTexts
  | [], ps, h => by
    rw [stepsPre] at h; cases h
    exact ⟨fun p hp => (by simp at hp), rfl⟩
  | s :: ss, ps, h => by
    rw [stepsPre] at h
    obtain ⟨a, ha, h2⟩ := bind_ok h
    obtain ⟨b, hb, h3⟩ := bind_ok h2
    cases h3
    obtain ⟨a1, a2⟩ := step_conn env cfg s a ha
    obtain ⟨b1, b2⟩ := steps_conn env cfg ss b hb
    refine ⟨fun p hp => ?_, by simp only [List.map_append, a2, b2, List.flatMap_cons]⟩
    rcases List.mem_append.mp hp with hp | hp
    · exact a1 p hp
    · exact b1 p hp
end

/-! ### assembling without an aggregate -/

theorem assemble_noafn (env : Env) : ∀ (l : List (Pre × Info)) (ch r : List N),
    assemble env l ch = .ok r → (∀ x ∈ l, x.1.isAfn = false) → r = ch ++ l.map nodeOf
  | [], ch, r, h, _ => by
    simp only [assemble, Except.ok.injEq] at h
    simp [← h]
  | (p, i) :: l, ch, r, h, hn => by
    have hn' := fun x hx => hn x (List.mem_cons_of_mem _ hx)
    cases p with
    | node t vg mk =>
      simp only [assemble] at h
      rw [assemble_noafn env l _ r h hn']
      simp [nodeOf]
    | ffn t name =>
      simp only [assemble] at h
      cases hf : env.ffn name with
      | none => rw [hf] at h; cases h
      | some f =>
        rw [hf] at h
        rw [assemble_noafn env l _ r h hn']
        simp [nodeOf]
    | afn t name =>
      have := hn _ List.mem_cons_self
      simp [Pre.isAfn] at this

/-- what the error clause needs of a chain -/
def ConnOK (ch : List N) : Prop :=
  List.Pairwise (fun a b : N => b.info.conn.utf8ByteSize < a.info.conn.utf8ByteSize) ch ∧
  (∀ n ∈ ch, 0 < n.info.conn.utf8ByteSize) ∧
  ∀ n ∈ ch, ∀ j ∈ errInfos n, j.conn = n.info.conn

theorem ConnOK.tail {n : N} {ch : List N} (h : ConnOK (n :: ch)) : ConnOK ch :=
  ⟨(List.pairwise_cons.mp h.1).2, fun m hm => h.2.1 m (List.mem_cons_of_mem _ hm),
    fun m hm => h.2.2 m (List.mem_cons_of_mem _ hm)⟩

theorem setVg_conn (n : N) : n.setVg.info.conn = n.info.conn := by cases n <;> rfl

theorem errInfos_setVg (n : N) : ∀ j ∈ errInfos n.setVg, ∃ j' ∈ errInfos n, j.conn = j'.conn := by
  intro j hj
  cases n with
  | multi i ids t =>
    simp only [N.setVg, errInfos, List.cons_append, List.mem_cons] at hj ⊢
    rcases hj with rfl | hj
    · exact ⟨i, Or.inl rfl, rfl⟩
    · exact ⟨j, Or.inr hj, rfl⟩
  | root i | cur i | child i _ | wild i | desc i _ _ | union i _ | filter i _ | ffn i _ | afn i _ _ =>
    simp only [N.setVg, errInfos, N.info, List.mem_singleton] at hj ⊢
    exact ⟨_, rfl, by rw [hj]⟩

theorem ConnOK.setVgHead {n : N} {ch : List N} (h : ConnOK (n :: ch)) : ConnOK (n.setVg :: ch) := by
  obtain ⟨h1, h2, h3⟩ := h
  refine ⟨?_, ?_, ?_⟩
  · rw [List.pairwise_cons] at h1 ⊢
    exact ⟨fun m hm => by rw [setVg_conn]; exact h1.1 m hm, h1.2⟩
  · intro m hm
    rcases List.mem_cons.mp hm with rfl | hm
    · rw [setVg_conn]; exact h2 n List.mem_cons_self
    · exact h2 m (List.mem_cons_of_mem _ hm)
  · intro m hm j hj
    rcases List.mem_cons.mp hm with rfl | hm
    · obtain ⟨j', hj', he⟩ := errInfos_setVg n j hj
      rw [he, setVg_conn]
      exact h3 n List.mem_cons_self j' hj'
    · exact h3 m (List.mem_cons_of_mem _ hm) j hj

theorem ConnOK.deleteHead {ch : List N} (h : ConnOK ch) : ConnOK (deleteHead ch) := by
  unfold Build.deleteHead
  split
  · exact h.tail
  · exact h.tail
  · exact h

theorem ConnOK.markVg {ch : List N} (h : ConnOK ch) : ConnOK (markVg ch) := by
  cases ch with
  | nil => exact h
  | cons n rest =>
    simp only [Build.markVg]
    split
    · exact h.setVgHead
    · exact h

theorem ConnOK.finish {ch : List N} (h : ConnOK ch) : ConnOK (finish ch) :=
  h.deleteHead.markVg

/-- the chain of Infos-with-nodes `assemble` produces when no aggregate is written -/
theorem connOK_nodes (L : List (Pre × Info))
    (hpre : ∀ x ∈ L, ConnPre x.1 ∨ ∃ t name, x.1 = .ffn t name)
    (hdesc : List.Pairwise (fun a b : String => b.utf8ByteSize < a.utf8ByteSize) (L.map (fun x => x.2.conn)))
    (hpos : ∀ c ∈ L.map (fun x => x.2.conn), 0 < c.utf8ByteSize) :
    ConnOK (L.map nodeOf) := by
  have hinfo : ∀ x ∈ L, (nodeOf x).info = x.2 ∧ ∀ j ∈ errInfos (nodeOf x), j.conn = x.2.conn := by
    intro x hx
    obtain ⟨p, i⟩ := x
    rcases hpre _ hx with hp | ⟨t, name, hp⟩
    · cases p with
      | node t vg mk => exact hp i
      | ffn _ _ => exact hp.elim
      | afn _ _ => exact hp.elim
    · simp only [] at hp
      subst hp
      exact one_info rfl rfl
  refine ⟨?_, ?_, ?_⟩
  · rw [List.pairwise_map] at hdesc ⊢
    refine hdesc.imp_of_mem ?_
    intro a b ha hb hab
    rw [(hinfo a ha).1, (hinfo b hb).1]
    exact hab
  · intro n hn
    obtain ⟨x, hx, rfl⟩ := List.mem_map.mp hn
    rw [(hinfo x hx).1]
    exact hpos _ (List.mem_map.mpr ⟨x, hx, rfl⟩)
  · intro n hn j hj
    obtain ⟨x, hx, rfl⟩ := List.mem_map.mp hn
    rw [(hinfo x hx).1]
    exact (hinfo x hx).2 j hj

/-- **the chains `Parse` builds satisfy the side condition of the error clause** -/
theorem build_connOK (env : Env) (cfg : Cfg) (h : Head) (steps : List Step) (pfns : List Fn) (ch : List N)
    (htexts : ∀ t ∈ steps.flatMap stepTexts ++ pfns.map fnText, t ≠ "")
    (hffn : ∀ fn ∈ pfns, isFfnFn fn = true)
    (hb : Build.build env cfg (.mk h steps pfns) = .ok ch) : ConnOK ch := by
  unfold Build.build at hb
  rw [buildPath_eq] at hb
  obtain ⟨sp, hsp, h2⟩ := bind_ok hb
  obtain ⟨c, hc, h3⟩ := bind_ok h2
  cases h3
  apply ConnOK.finish
  obtain ⟨hcp, htx⟩ := steps_conn env cfg steps sp hsp
  have hfst := mkInfos_fst cfg true (headPreOf h :: sp ++ pfns.map fnPre)
  have hconn := mkInfos_conn cfg (headPreOf h :: sp ++ pfns.map fnPre)
  generalize mkInfos cfg true (headPreOf h :: sp ++ pfns.map fnPre) = L at hc hfst hconn
  have hkind : ∀ x ∈ L, ConnPre x.1 ∨ ∃ t name, x.1 = .ffn t name := by
    intro x hx
    have hmem : x.1 ∈ headPreOf h :: sp ++ pfns.map fnPre := by
      rw [← hfst]; exact List.mem_map.mpr ⟨x, hx, rfl⟩
    rcases List.mem_cons.mp hmem with he | hmem
    · left
      rw [he]
      cases h <;> exact fun i => one_info rfl rfl
    · rcases List.mem_append.mp hmem with hm | hm
      · exact Or.inl (hcp _ hm)
      · obtain ⟨fn, hfn, e⟩ := List.mem_map.mp hm
        have := hffn fn hfn
        cases fn with
        | ffn t name => exact Or.inr ⟨t, name, e.symm⟩
        | afn t name => simp [isFfnFn] at this
  have hnoafn : ∀ x ∈ L, x.1.isAfn = false := by
    intro x hx
    rcases hkind x hx with hp | ⟨t, name, hp⟩
    · cases hx1 : x.1 with
      | node _ _ _ => rfl
      | ffn _ _ => rfl
      | afn _ _ => rw [hx1] at hp; exact hp.elim
    · rw [hp]; rfl
  have hc' := assemble_noafn env L [] c hc hnoafn
  rw [List.nil_append] at hc'
  subst hc'
  have htexts' : ∀ t ∈ (headPreOf h :: sp ++ pfns.map fnPre).map Pre.text, t ≠ "" := by
    intro t ht
    simp only [List.cons_append, List.map_cons, List.map_append, List.map_map, List.mem_cons, List.mem_append] at ht
    rcases ht with rfl | ht | ht
    · cases h <;> decide
    · rw [htx] at ht
      exact htexts t (List.mem_append_left _ ht)
    · obtain ⟨fn, hfn, rfl⟩ := List.mem_map.mp ht
      apply htexts
      apply List.mem_append_right
      refine List.mem_map.mpr ⟨fn, hfn, ?_⟩
      cases fn <;> rfl
  obtain ⟨d1, d2⟩ := suffixTexts_desc _ htexts'
  rw [← hconn] at d1 d2
  exact connOK_nodes L hkind d1 d2

theorem connSep_of_connOK {pre fns : List N} (h : ConnOK (pre ++ fns)) : ConnSep pre fns := by
  obtain ⟨h1, h2, h3⟩ := h
  refine ⟨fun m hm => h2 m (List.mem_append_right _ hm), fun n hn j hj m hm => ?_⟩
  rw [h3 n (List.mem_append_left _ hn) j hj]
  exact (List.pairwise_append.mp h1).2.2 n hn m hm

theorem build_connSep (env : Env) (cfg : Cfg) (h : Head) (steps : List Step) (pfns : List Fn) (pre fns : List N)
    (htexts : ∀ t ∈ steps.flatMap stepTexts ++ pfns.map fnText, t ≠ "")
    (hffn : ∀ fn ∈ pfns, isFfnFn fn = true)
    (hb : Build.build env cfg (.mk h steps pfns) = .ok (pre ++ fns)) : ConnSep pre fns :=
  connSep_of_connOK (build_connOK env cfg h steps pfns _ htexts hffn hb)

end CE
end JPV
